(** C11 — a conflict-free LR table accepts exactly L(G) and yields a valid derivation.
    (stage-1 placeholder: the theorems follow in C11/Proofs*.v) *)
From Coq Require Import List ZArith.
From Algo.Grammar Require Import CFG.
From Algo.C11 Require Import Model.
Import ListNotations.

(** Non-vacuity: the SLR table that parser/lr/simple builds for S -> a b a | S S a
    (a = 0, b = 1, S = 18) accepts "aba" and "abaabaa" and rejects "abaa". *)
Definition ex_S : nat := 18.
Definition ex_p1 : prod := mkProd ex_S [Tm 0; Tm 1; Tm 0].
Definition ex_p2 : prod := mkProd ex_S [Nt ex_S; Nt ex_S; Tm 0].
Definition sh (s : Z) (a : nat) (t : Z) : Z * look * action := (s, Some a, Shift t).
Definition rd (s : Z) (a : look) (p : prod) : Z * look * action := (s, a, Reduce p).
Definition ex_tbl : table := mkTable
  [ sh 0 0 6; sh 1 0 6; (1%Z, None, Accept);
    rd 2 (Some 0) ex_p2; sh 2 1 5; rd 2 None ex_p2;
    rd 3 (Some 0) ex_p1; rd 3 None ex_p1; sh 4 0 2; sh 5 0 3; sh 6 1 5 ]
  [ (0%Z, ex_S, 1%Z); (1%Z, ex_S, 4%Z); (4%Z, ex_S, 4%Z) ].

Example C11_example :
  (match parse 100 ex_tbl [0;1;0] with Accepted evs => prods_of evs | _ => [] end) = [ex_p1] /\
  (match parse 100 ex_tbl [0;1;0;0] with Rejected _ _ => true | _ => false end) = true /\
  (match parse 100 ex_tbl [0;1;0;0;1;0;0] with Accepted evs => prods_of evs | _ => [] end) = [ex_p1; ex_p1; ex_p2].
Proof. vm_compute. repeat split. Qed.
