(** C11 — a conflict-free LR table accepts exactly L(G) and yields a valid derivation.
    Statements only; proofs live in C11/Proofs*.v.

    Design (translation validation): the Go constructions (SLR, LALR, canonical LR) are not
    trusted.  Every table they build is dumped by the harness and the boolean certificate
    [table_ok] (and [term_ok]) below is evaluated on it by the extracted code on every run.
    The theorems here say what a certified table guarantees for the driver
    lr.Parser.Parse / ParseAndBuildAST, for every grammar, table and input. *)
From Coq Require Import List ZArith.
From Algo.Grammar Require Import CFG.
From Algo.C11 Require Import Model Spec Proofs ProofsTerm ProofsOracle.
Import ListNotations.

(** Soundness of the driver over any certified table: if [Parse] accepts [w] then [w] is a
    sentence of [G], the productions passed to the production callback are a rightmost
    derivation of [w] in reverse, and the tree built by [ParseAndBuildAST] is a parse tree of
    [G] rooted at the start symbol with yield [w] whose internal nodes are exactly the emitted
    productions (post-order). *)
Theorem C11_driver_sound :
  forall (G : gram) (tbl : table) (lbl : list (list sym)) (fuel : nat) (w : list nat) (evs : list event),
    table_ok G tbl lbl = true ->
    parse fuel tbl w = Accepted evs ->
    L G w /\
    rightmost_reverse G (prods_of evs) w /\
    wf_tree G (ast_of evs) /\ root (ast_of evs) = Nt (start G) /\
    yield (ast_of evs) = map Some w /\
    postorder (ast_of evs) = prods_of evs.
Proof. intros G tbl lbl fuel w evs OK H. exact (driver_sound G tbl lbl OK w fuel evs H). Qed.

(** Termination: over a table that also passes [term_ok B] (no reduce-only cycle: from every
    pair of adjacent stack states and every lookahead the reductions stop or pop below the pair
    within [B] steps) the loop of [Parse] runs at most [B * (1 + |w| * (B + 1)) + 1] times, for
    every input; it never returns [Hang], and more fuel never changes the result. *)
Theorem C11_driver_terminates :
  forall (G : gram) (tbl : table) (lbl : list (list sym)) (B : nat) (w : list nat) (fuel : nat),
    table_ok G tbl lbl = true -> term_ok B tbl = true ->
    B * (1 + length w * (B + 1)) + 1 <= fuel ->
    parse fuel tbl w <> Hang /\
    forall fuel', fuel <= fuel' -> parse fuel' tbl w = parse fuel tbl w.
Proof.
  intros G tbl lbl B w fuel OK TOK Hf.
  assert (H : parse fuel tbl w <> Hang) by (apply (driver_terminates G tbl lbl OK w B TOK); exact Hf).
  split; [exact H|]. intros fuel' Hle. now apply parse_fuel_irrelevant.
Qed.

(** The membership oracle used for the completeness search never lists a non-sentence. *)
Theorem C11_oracle_sound :
  forall (G : gram) (fuel n : nat) (l : list (list nat)) (w : list nat),
    lang_upto fuel G n = Some l -> mem_str w l = true -> L G w.
Proof. intros G fuel n l w. apply lang_upto_sound. Qed.

(** Non-vacuity: the SLR table that parser/lr/simple builds for S -> a b a | S S a
    (a = 0, b = 1, S = 18) accepts "aba" and "abaabaa" and rejects "abaa". *)
Definition ex_S : nat := 18.
Definition ex_p1 : prod := mkProd ex_S [Tm 0; Tm 1; Tm 0].
Definition ex_p2 : prod := mkProd ex_S [Nt ex_S; Nt ex_S; Tm 0].
Definition sh (s : Z) (a : nat) (t : Z) : Z * look * action := (s, Some a, Shift t).
Definition rd (s : Z) (a : look) (p : prod) : Z * look * action := (s, a, Reduce p).
Definition ex_tbl : table := mkTable
  [ sh 0 0 6; sh 1 0 6; (1%Z, None, Accept);
    rd 2 (Some 0) ex_p2; sh 2 1 5; rd 2 None ex_p2;
    rd 3 (Some 0) ex_p1; rd 3 None ex_p1; sh 4 0 2; sh 5 0 3; sh 6 1 5 ]
  [ (0%Z, ex_S, 1%Z); (1%Z, ex_S, 4%Z); (4%Z, ex_S, 4%Z) ].

Example C11_example :
  (match parse 100 ex_tbl [0;1;0] with Accepted evs => prods_of evs | _ => [] end) = [ex_p1] /\
  (match parse 100 ex_tbl [0;1;0;0] with Rejected _ _ => true | _ => false end) = true /\
  (match parse 100 ex_tbl [0;1;0;0;1;0;0] with Accepted evs => prods_of evs | _ => [] end) = [ex_p1; ex_p1; ex_p2].
Proof. vm_compute. repeat split. Qed.

Print Assumptions C11_driver_sound.
Print Assumptions C11_driver_terminates.
Print Assumptions C11_oracle_sound.
