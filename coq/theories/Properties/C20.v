(** C20 — Independent instances can be used from different goroutines without data races.

    Coq cannot run goroutines.  What is proved here is (a) the logic the property rests on, for an
    abstract interleaving model (C20/Model.v: threads of atomic actions with declared read/write
    footprints, mutexes, sequentially consistent interleaving, a data race = two enabled conflicting
    actions of different threads), and (b) the premise that logic needs, checked on an inventory of
    the package-level variables that harness/cmd/gen-c20 regenerates from the Go sources on every
    run (Gen/C20_Globals.v) together with the hand-reviewed list C20/Reviewed.v.

    MODELLED, NOT VERIFIED: that an operation of the library touches only its receiver's reachable
    heap, its arguments and the listed package-level variables, each in the way the translator's
    evidence records ([program_disciplined]); and the Go memory model (data-race-free programs
    behave sequentially consistently).  Statements only; proofs are in C20/. *)
From Coq Require Import String List Arith Bool.
From Algo.C20 Require Import Model Interleave Locks SeqRun Inventory Reviewed Main.
From Algo.Gen Require Import C20_Globals.
Import ListNotations.

(** (a1) Disjoint footprints: no interleaving contains a data race, and every interleaving gives
    each thread the outputs and the final contents of its footprint of the sequential run. *)
Theorem C20_disjoint_no_race_seq_equiv :
  forall (Loc Val Out : Type) (Loc_eq_dec : forall x y : Loc, {x = y} + {x <> y})
         (ts : list (thread Loc Val Out)),
    (forall t, In t ts -> forall a, In (Act a) t -> respects a) ->
    (forall i j ti tj, i <> j -> nth_error ts i = Some ti -> nth_error ts j = Some tj ->
       forall l, writes ti l -> ~ accesses tj l) ->
    forall tr, interleaving ts tr ->
      ~ has_race ts tr /\
      forall (s : store Loc Val) i ti, nth_error ts i = Some ti ->
        outs_of i (snd (exec tr s)) = nth i (snd (seq_run ts s)) [] /\
        forall l, accesses ti l -> fst (exec tr s) l = fst (seq_run ts s) l.
Proof. intros Loc Val Out D ts. exact (disjoint_no_race_seq_equiv Loc Val Out D ts). Qed.

(** (a2) Two threads that access a common location, one of them writing it, with nothing ordering
    the accesses (no synchronisation in either thread), reach a data race; when no thread
    synchronises at all that execution is a prefix of a complete interleaving. *)
Theorem C20_shared_write_races :
  forall (Loc Val Out : Type) (ts : list (thread Loc Val Out)) i j ti tj a b,
    i <> j -> nth_error ts i = Some ti -> nth_error ts j = Some tj ->
    lock_free ti -> lock_free tj ->
    In (Act a) ti -> In (Act b) tj -> conflict a b ->
    exists pre c, steps (init ts) pre c /\ racy c.
Proof. intros Loc Val Out. exact (shared_write_races Loc Val Out). Qed.

Theorem C20_shared_write_races_complete :
  forall (Loc Val Out : Type) (ts : list (thread Loc Val Out)) i j ti tj a b,
    (forall t, In t ts -> lock_free t) ->
    i <> j -> nth_error ts i = Some ti -> nth_error ts j = Some tj ->
    In (Act a) ti -> In (Act b) tj -> conflict a b ->
    exists tr, interleaving ts tr /\ has_race ts tr.
Proof. intros Loc Val Out. exact (shared_write_races_complete Loc Val Out). Qed.

(** (a3) Shared state under a lock discipline: private / read-only / mutex-guarded locations. *)
Theorem C20_lock_discipline_no_race :
  forall (Loc Val Out : Type) (pol : Loc -> access) (ts : list (thread Loc Val Out)),
    no_unrestricted Loc pol -> program_disciplined Loc Val Out pol ts ->
    forall pre c, steps (init ts) pre c -> ~ racy c.
Proof. intros Loc Val Out pol. exact (discipline_no_race Loc Val Out pol). Qed.

(** (a4) Critical sections that are not nested (the library's `Lock(); ...; Unlock()`) never
    deadlock: every execution prefix extends to a complete interleaving, so the statements about
    "every interleaving" are not vacuously true. *)
Theorem C20_bracketed_no_deadlock :
  forall (Loc Val Out : Type) (ts : list (thread Loc Val Out)),
    (forall t, In t ts -> bracketed Loc Val Out [] t) ->
    forall pre c, steps (init ts) pre c -> exists post, interleaving ts (pre ++ post).
Proof. intros Loc Val Out. exact (bracketed_no_deadlock Loc Val Out). Qed.

(** (a5) "One after the other" is one of the interleavings: the trace that runs thread 0 to its
    end, then thread 1, ... is a complete interleaving, and executing it computes [seq_run], the
    reference every other interleaving is compared with above. *)
Theorem C20_sequential_run_is_an_interleaving :
  forall (Loc Val Out : Type) (ts : list (thread Loc Val Out)),
    (forall t, In t ts -> bracketed Loc Val Out [] t) ->
    interleaving ts (seq_trace Loc Val Out ts) /\
    forall s : store Loc Val,
      fst (exec (seq_trace Loc Val Out ts) s) = fst (seq_run ts s) /\
      forall i, outs_of i (snd (exec (seq_trace Loc Val Out ts) s)) = nth i (snd (seq_run ts s)) [].
Proof.
  intros Loc Val Out ts Hb. split.
  - apply seq_trace_is_interleaving. exact Hb.
  - intros s. apply seq_trace_computes_seq_run.
Qed.

(** (b) THE OBLIGATION, re-checked against the regenerated inventory on every run: every
    package-level variable of the library is immutable or synchronised (by the translator's rules,
    or by a review that matches its current evidence). *)
Theorem C20_no_unsync_shared_state : forallb (benign reviewed) C20_Globals.globals = true.
Proof. vm_compute. reflexivity. Qed.

(** (c) Main theorem: goroutines whose operations touch only their own instances and the listed
    package-level variables (as classified) never reach a data race, and every complete
    interleaving gives each goroutine the results and the final private heap of the sequential
    run.  [lock_of] is any assignment of mutexes to synchronised variables. *)
Theorem C20_main :
  forall (Val Out : Type) (lock_of : nat -> nat) (ts : list (thread gloc Val Out)),
    let pol := policy reviewed C20_Globals.globals lock_of in
    program_disciplined gloc Val Out pol ts ->
    (forall t, In t ts -> forall a, In (Act a) t -> respects_obs gloc Val Out pol a) ->
    (forall pre c, steps (init ts) pre c -> ~ racy c) /\
    (forall tr, interleaving ts tr ->
       ~ has_race ts tr /\
       forall s i ti, nth_error ts i = Some ti ->
         outs_of i (snd (exec tr s)) = nth i (snd (seq_run ts s)) [] /\
         forall a, fst (exec tr s) (LPriv i a) = fst (seq_run ts s) (LPriv i a)).
Proof.
  intros Val Out lock_of ts pol.
  exact (inventory_no_race_seq_equiv reviewed C20_Globals.globals lock_of Val Out
           C20_no_unsync_shared_state ts).
Qed.

(** The obligation is not decorative: any variable that is not benign admits a conforming
    two-goroutine program with a reachable data race. *)
Theorem C20_premise_needed :
  forall rs gs lock_of g x,
    nth_error gs g = Some x -> benign rs x = false ->
    exists ts : list (thread gloc unit unit),
      program_disciplined gloc unit unit (policy rs gs lock_of) ts /\
      (forall t, In t ts -> forall a, In (Act a) t -> respects_obs gloc unit unit (policy rs gs lock_of) a) /\
      exists pre c, steps (init ts) pre c /\ racy c.
Proof. exact unrestricted_global_races. Qed.

(** The reviewed list cannot whitewash: a variable the translator saw written outside a critical
    section is never benign, and an unclassified variable is benign only through a review that
    repeats its current evidence text and carries a justification. *)
Theorem C20_review_cannot_whitewash :
  forall rs g,
    (g_class g = UnsyncMutable -> benign rs g = false) /\
    (g_class g = Unclassified -> benign rs g = true ->
       exists r, In r rs /\ (r_as r = Immutable \/ r_as r = Synchronised) /\
                 r_pkg r = g_pkg g /\ r_name r = g_name g /\ r_evidence r = g_evidence g /\
                 r_why r <> EmptyString).
Proof.
  intros rs g. split.
  - apply unsync_never_benign.
  - intros Hc Hb. destruct (unclassified_needs_matching_review rs g Hc Hb) as (r & Hin & Hm & Has).
    exists r. split; auto. split; auto. apply matching_review_pins_evidence. exact Hm.
Qed.

(** Non-vacuity 1: the lost update.  Two threads increment location 0 through private temporaries
    10 and 11; one interleaving ends with 1, the sequential run with 2, and it contains a race. *)
Definition ld (tmp : nat) : action nat nat nat :=
  mkAction [0] [tmp] (fun s => (fun l => if Nat.eqb l tmp then s 0 else s l, s 0)).
Definition st (tmp : nat) : action nat nat nat :=
  mkAction [tmp] [0] (fun s => (fun l => if Nat.eqb l 0 then S (s tmp) else s l, S (s tmp))).
Definition lost_update : list (thread nat nat nat) :=
  [[Act (ld 10); Act (st 10)]; [Act (ld 11); Act (st 11)]].
Definition lost_update_trace : list (nat * event nat nat nat) :=
  [(0, Act (ld 10)); (1, Act (ld 11)); (0, Act (st 10)); (1, Act (st 11))].

Example C20_lost_update :
  interleaving lost_update lost_update_trace /\
  has_race lost_update lost_update_trace /\
  fst (exec lost_update_trace (fun _ => 0)) 0 = 1 /\
  fst (seq_run lost_update (fun _ => 0)) 0 = 2.
Proof.
  split; [|split; [|split; reflexivity]].
  - eexists. split.
    + repeat (eapply steps_cons; [apply st_act; reflexivity | simpl]). apply steps_nil.
    + intros [|[|[|i]]] t L H; simpl in H; inversion H; reflexivity.
  - exists [(0, Act (ld 10))], [(1, Act (ld 11)); (0, Act (st 10)); (1, Act (st 11))].
    eexists. split; [reflexivity | split].
    + eapply steps_cons; [apply st_act; reflexivity | simpl; apply steps_nil].
    + exists 0, 1, (st 10), (ld 11), [], [Act (st 11)], [], [].
      repeat split; try reflexivity; try discriminate.
      exists 0. left. simpl. auto.
Qed.

(** Non-vacuity 2: the inventory contains synchronised state (the shuffle sources, the hash
    functions built by package hash), so C20_main is not about an empty list, and every entry is
    covered. *)
Example C20_inventory_has_synchronised_state :
  existsb (fun g => match g_class g with Synchronised => true | _ => false end) C20_Globals.globals = true /\
  existsb (fun g => match g_class g with Immutable => true | _ => false end) C20_Globals.globals = true.
Proof. vm_compute. split; reflexivity. Qed.

(** Non-vacuity 3: a model of two goroutines iterating their own hash tables: each takes the mutex
    of the shared shuffle source (variable 0 of a two-variable inventory), advances it, writes its
    own table, and reports a result that does not depend on the source.  The hypotheses of the
    main theorem hold for it. *)
Definition demo_inventory : list global :=
  [mkGlobal "symboltable" "r" KPointer Synchronised "guarded by rmu";
   mkGlobal "grammar" "E" KSlice Immutable "empty literal"].
Definition shuffle_op (i : nat) : action gloc nat nat :=
  mkAction [LGlob 0; LGlob 1; LPriv i 0] [LGlob 0; LPriv i 1]
    (fun s => (fun l => match l with
                        | LGlob 0 => S (s (LGlob 0))
                        | LPriv j 1 => if Nat.eqb j i then s (LPriv i 0) + s (LGlob 1) else s l
                        | _ => s l end,
               s (LPriv i 0) + s (LGlob 1))).
Definition demo : list (thread gloc nat nat) :=
  [[Acq 7; Act (shuffle_op 0); Rel 7]; [Acq 7; Act (shuffle_op 1); Rel 7]].

Example C20_demo_hypotheses :
  forallb (benign []) demo_inventory = true /\
  (forall t, In t demo -> bracketed gloc nat nat [] t) /\
  program_disciplined gloc nat nat (policy [] demo_inventory (fun _ => 7)) demo.
Proof.
  split; [reflexivity|]. split.
  { intros t [<- | [<- | []]]; simpl; auto. }
  intros [|[|i]] t H; simpl in H; try (destruct i; discriminate); inversion H; subst; clear H;
    simpl; unfold ok_read, ok_write; simpl; intuition (subst; simpl; auto; try discriminate).
Qed.

Print Assumptions C20_disjoint_no_race_seq_equiv.
Print Assumptions C20_shared_write_races.
Print Assumptions C20_shared_write_races_complete.
Print Assumptions C20_lock_discipline_no_race.
Print Assumptions C20_bracketed_no_deadlock.
Print Assumptions C20_sequential_run_is_an_interleaving.
Print Assumptions C20_no_unsync_shared_state.
Print Assumptions C20_main.
Print Assumptions C20_premise_needed.
Print Assumptions C20_review_cannot_whitewash.
