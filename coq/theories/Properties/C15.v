(** C15 — Balanced trees stay logarithmic and report their true height.
    Statements only; proofs live in C01/Proofs*.v and C15/Proofs.v (on the models of C01/Model.v,
    which transcribe avl.go after the fix: commit that makes [_deleteMax] refresh the cached height).

    [build cmp i h] is the table of implementation [i] reached from the empty one by the history
    [h] of Put / Delete / DeleteMin / DeleteMax / DeleteAll with arbitrary arguments; [Ok t] means
    that no operation panicked or ran out of fuel. *)
From Algo.C01 Require Import Model Spec.
From Algo.C15 Require Import Spec Proofs.
Open Scope Z_scope.

(** AVL, after any history: the real heights of the two subtrees of every node differ by at most
    one, every cached height is the real height, and Height() (the cached height of the root) is
    the real height.  [avl_check] is the boolean checker the correspondence runs on the hook dump. *)
Theorem C15_avl :
  forall (K V : Type) (cmp : K -> K -> Z), TotalOrder cmp ->
  forall h : list (mut K V),
  exists t, build cmp AVL h = Ok t /\
    balanced t /\ cached_heights_ok t /\ Height AVL t = height t /\ avl_check t = true.
Proof. intros K V cmp TO h. exact (avl_after_history cmp TO h). Qed.

(** Red-black, after any history (the delete family included): every root-to-leaf path has the
    same number of black links, no right-leaning red link, no two red links in a row, black root,
    hence height at most 2*log2(n+1). *)
Theorem C15_rb :
  forall (K V : Type) (cmp : K -> K -> Z), TotalOrder cmp ->
  forall h : list (mut K V),
  exists t, build cmp RB h = Ok t /\
    black_balanced t /\ no_right_red t /\ no_red_red t /\ root_black t /\
    height t <= 2 * Z.log2 (size t + 1) /\ Height RB t = height t /\ rb_check t = true.
Proof. intros K V cmp TO h. exact (rb_after_history cmp TO h). Qed.

(** Every ordered table: the pre-order and in-order traversals determine the shape (the proved
    [shape_from_traversals] rebuilds it; the driver runs its extraction on the implementation's
    traversals), and Height() is the number of nodes on the longest root-to-leaf path of it. *)
Theorem C15_height_all :
  forall (K V : Type) (cmp : K -> K -> Z), TotalOrder cmp ->
  forall (i : impl) (h : list (mut K V)),
  exists t, build cmp i h = Ok t /\
    exists sh, shape_from_traversals cmp (trav_list VLR t) (trav_list LVR t) = Some sh /\
               Height i t = shape_height sh.
Proof. intros K V cmp TO i h. exact (height_ok_all cmp TO i h). Qed.

(** The invariants also hold when the history continues ON the table returned by SelectMatch or
    PartitionMatch (a table of its own: DeleteMin runs, Puts below the minimum, ... on the
    selection). [c15_props i t] is, for AVL: balanced, cached heights exact, [avl_check]; for
    red-black: the colour invariants, the 2*log2(n+1) bound, [rb_check]; and for every
    implementation: Height() is the height of the shape given by the two traversals. *)
Theorem C15_selection_continues :
  forall (K V : Type) (cmp : K -> K -> Z), TotalOrder cmp ->
  forall (i : impl) (h : list (mut K V)) (p : K -> V -> bool) (h2 : list (mut K V)),
  exists t t' t'', build cmp i h = Ok t /\ SelectMatch cmp i p t = Ok t' /\
    build_from cmp i t' h2 = Ok t'' /\ c15_props cmp i t''.
Proof. intros K V cmp TO i h p h2. exact (selection_c15 cmp TO i h p h2). Qed.

Theorem C15_partition_continues :
  forall (K V : Type) (cmp : K -> K -> Z), TotalOrder cmp ->
  forall (i : impl) (h : list (mut K V)) (p : K -> V -> bool) (second : bool) (h2 : list (mut K V)),
  exists t ta tb t'', build cmp i h = Ok t /\ PartitionMatch cmp i p t = (Ok ta, Ok tb) /\
    build_from cmp i (if second then tb else ta) h2 = Ok t'' /\ c15_props cmp i t''.
Proof. intros K V cmp TO i h p second h2. exact (partition_c15 cmp TO i h p second h2). Qed.

(** The boolean checkers evaluated by the correspondence imply the propositions. *)
Theorem C15_avl_check_sound :
  forall (K V : Type) (t : tree K V), avl_check t = true -> balanced t /\ cached_heights_ok t.
Proof. intros K V t. exact (avl_check_sound t). Qed.

Theorem C15_rb_check_sound :
  forall (K V : Type) (t : tree K V),
    rb_check t = true -> black_balanced t /\ no_right_red t /\ no_red_red t /\ root_black t.
Proof. intros K V t. exact (rb_check_sound t). Qed.

(** Non-vacuity and the witnesses of defect D15 on the model of the repaired code:
    Put 1; Put 2; DeleteMax leaves a one-node tree of height 1, and Put 6,10,0,11,4,2,1; DeleteMax
    leaves a balanced tree with exact cached heights. *)
Example C15_example :
  (match build (V:=Z) cmp_asc AVL [MPut 1 10; MPut 2 20; MDeleteMax] with
   | Ok t => Height AVL t = 1 /\ avl_check t = true
   | _ => False end) /\
  (match build (V:=Z) cmp_asc AVL [MPut 6 1; MPut 10 2; MPut 0 3; MPut 11 4; MPut 4 5; MPut 2 6; MPut 1 7; MDeleteMax] with
   | Ok t => avl_check t = true /\ Height AVL t = height t /\
             shape_from_traversals cmp_asc (trav_list VLR t) (trav_list LVR t) = Some (shape_of t)
   | _ => False end) /\
  (match build (V:=Z) cmp_desc RB (map (fun k => MPut k k) [1;2;3;4;5;6;7;8;9;10] ++ [MDelete 4; MDeleteMin; MDeleteMax]) with
   | Ok t => rb_check t = true /\ height t <= rb_height_bound (size t)
   | _ => False end).
Proof. vm_compute. repeat split; reflexivity || discriminate. Qed.

Print Assumptions C15_avl.
Print Assumptions C15_rb.
Print Assumptions C15_height_all.
Print Assumptions C15_avl_check_sound.
Print Assumptions C15_rb_check_sound.
Print Assumptions C15_selection_continues.
Print Assumptions C15_partition_continues.
