(** C14 — graph algorithms (first stage: pipeline; theorems are added in later stages). *)
From Algo.C14 Require Import Model Checkers.

Example C14_example :
  let g := mk_graph true 4 [(0,1,0%Z); (1,2,0%Z); (2,0,0%Z); (2,3,0%Z)] in
  (match paths_of g SBFS 0 with Ok p => paths_to p 3 | _ => Hang end) = Ok (Some [0; 1; 2; 3]) /\
  directed_cycle g = Ok (Some [2; 0; 1; 2]).
Proof. vm_compute. split; reflexivity. Qed.
