(** C14 — Graph algorithms: correct paths, components, orders, MSTs, shortest paths.

    Statements only; proofs are in coq/theories/C14/Proofs*.v.  A graph is given as a vertex
    count [n] and an edge list [es] ([mk_graph d n es] replays Go's [AddEdge] calls; [d] = directed;
    edges with an end point >= n are ignored exactly as the Go code ignores them).  The model
    functions ([paths_of], [paths_to], [connected_components], ...) transcribe graph/*.go; panics
    and fuel exhaustion are the result values [Panic]/[Hang], so "returns [Ok]" includes
    termination of every loop and recursion of the model. *)
From Algo.C14 Require Import Spec ProofsBasic ProofsTrav ProofsReach ProofsBfs ProofsScc ProofsCC ProofsSpt ProofsTopo ProofsCycle ProofsOrders ProofsMsf1 ProofsMsf2 ProofsDijkstra ProofsKosaraju ProofsKosaraju1 ProofsScc2 ProofsPrim1 ProofsPrim2 ProofsPrim3 ProofsPass.

(** * The property at full strength *)
Definition nonneg (es : list edge) : Prop := forall e, In e es -> (0 <= e_w e)%Z.

Definition C14_full : Prop :=
  forall (d : bool) (n : nat) (es : list edge),
    let g := mk_graph d n es in
    (* Paths(s).To(v): a real path iff reachable; fewest edges for BFS *)
    (forall sg s, s < n ->
       exists p, paths_of g sg s = Ok p /\
         forall v, v < n ->
           match paths_to p v with
           | Ok (Some l) => is_path g s v l /\
                            (sg = SBFS -> forall l', is_path g s v l' -> length l <= length l')
           | Ok None => ~ reach g s v
           | _ => False
           end) /\
    (* ConnectedComponents: ids <-> undirected reachability *)
    (d = false ->
       exists c, connected_components g = Ok c /\
         forall v w, v < n -> w < n -> (getn (snd c) v = getn (snd c) w <-> reach g v w)) /\
    (* StronglyConnectedComponents: ids <-> mutual reachability *)
    (d = true ->
       exists c, strongly_connected_components g = Ok c /\
         forall v w, v < n -> w < n -> (getn (snd c) v = getn (snd c) w <-> mutually_reachable g v w)) /\
    (* DirectedCycle: a genuine cycle iff one exists *)
    (d = true ->
       exists r, directed_cycle g = Ok r /\
         match r with Some c => is_cycle g c | None => acyclic g end) /\
    (* Topological: an order consistent with every edge iff acyclic *)
    (d = true ->
       exists r, topological g = Ok r /\
         match r with Some (o, _) => topological_order g o /\ acyclic g | None => ~ acyclic g end) /\
    (* MinimumSpanningTree: a spanning forest of minimum total weight *)
    (d = false -> nonneg es ->
       exists f w, minimum_spanning_tree g = Ok (f, w) /\ w = weight_of f /\ spanning_forest g f /\
         forall f', spanning_forest g f' -> (w <= weight_of f')%Z) /\
    (* ShortestPathTree: minimum distance with a path of exactly that weight *)
    (d = true -> nonneg es ->
       forall s, s < n ->
         exists t, shortest_path_tree g s = Ok t /\
           forall v, v < n ->
             match path_to t v with
             | Ok (Some (p, dist)) => epath g s p v /\ weight_of p = dist /\
                                      forall p', epath g s p' v -> (dist <= weight_of p')%Z
             | Ok None => ~ reach g s v
             | _ => False
             end).

(** * What is proved: every clause of [C14_full] (see [C14_full_holds] at the end), plus unbounded
    soundness theorems for the certificate checkers that the correspondence runs on the Go outputs *)

(** The adjacency relation of a constructed graph is exactly what the edge list says. *)
Theorem C14_graph_edges :
  forall d n es u w,
    edge_rel (mk_graph d n es) u w <->
    exists e, In e es /\ (e_a e < n /\ e_b e < n) /\
              ((e_a e = u /\ e_b e = w) \/ (d = false /\ e_b e = u /\ e_a e = w)).
Proof. exact mk_graph_edge_rel. Qed.

(** Clause 1 of [C14_full], fully proved: for all graphs, sources, targets and the three
    strategies the traversal terminates within its fuel, [To v] terminates and returns a real
    path from [s] to [v] iff [v] is reachable, and the BFS path has the fewest edges. *)
Theorem C14_paths :
  forall d n es sg s, s < n ->
    let g := mk_graph d n es in
    exists p, paths_of g sg s = Ok p /\
      forall v, v < n ->
        match paths_to p v with
        | Ok (Some l) => is_path g s v l /\
                         (sg = SBFS -> forall l', is_path g s v l' -> length l <= length l')
        | Ok None => ~ reach g s v
        | _ => False
        end.
Proof.
  intros d n es sg s Hs g.
  pose proof (paths_full g s sg (wf_mk_graph d n es)) as H.
  unfold g in *. rewrite mk_graph_n in H. apply H. exact Hs.
Qed.

(** The visited set is exactly the reachable set, and the returned paths are simple. *)
Theorem C14_paths_visited :
  forall d n es sg s, s < n ->
    let g := mk_graph d n es in
    exists p, paths_of g sg s = Ok p /\
      (forall v, v < n -> (getb (p_vis p) v = true <-> reach g s v)) /\
      (forall v, v < n -> reach g s v ->
                 exists l, paths_to p v = Ok (Some l) /\ is_path g s v l /\ NoDup l) /\
      (forall v, v < n -> ~ reach g s v -> paths_to p v = Ok None).
Proof.
  intros d n es sg s Hs g.
  pose proof (paths_correct g (wf_mk_graph d n es) s) as H.
  unfold g in *. rewrite mk_graph_n in H. apply H. exact Hs.
Qed.

(** Clause 2 of [C14_full], fully proved: ConnectedComponents terminates and two vertices get
    the same id iff they are connected; ids are below the component count. *)
Theorem C14_connected_components :
  forall n es,
    let g := mk_graph false n es in
    exists c, connected_components g = Ok c /\ length (snd c) = n /\
      forall v w, v < n -> w < n ->
        getn (snd c) v < fst c /\ (getn (snd c) v = getn (snd c) w <-> reach g v w).
Proof. intros n es. exact (cc_correct_mk n es). Qed.

(** Checker theorem for components, unbounded: ids accepted by [check_scc] characterise mutual
    reachability; run on the implementation's and on the model's ids for every generated graph. *)
Theorem C14_check_scc_sound :
  forall g ids, wf g -> check_scc g ids = true ->
    length ids = g_n g /\
    forall v w, v < g_n g -> w < g_n g ->
      (getn ids v = getn ids w <-> mutually_reachable g v w).
Proof. exact check_scc_sound. Qed.

Theorem C14_check_cc_sound :
  forall n es ids, check_cc (mk_graph false n es) ids = true ->
    length ids = n /\
    forall v w, v < n -> w < n -> (getn ids v = getn ids w <-> reach (mk_graph false n es) v w).
Proof. exact check_cc_sound. Qed.

(** Clause 3 of [C14_full], fully proved: StronglyConnectedComponents (Kosaraju as coded: DFS
    orders of the reversed graph, then DFS passes over its reverse post-order) terminates and two
    vertices get the same id iff they are mutually reachable; ids are below the component count.
    (First pass: the reverse post-order puts, before every x, a component member of every y that
    reaches x in the reversed graph without being reached by it -- invariant over the recursive
    DFS with its stack; second pass: each DFS tree is exactly one component.) *)
Theorem C14_scc :
  forall n es,
    let g := mk_graph true n es in
    exists c, strongly_connected_components g = Ok c /\ length (snd c) = n /\
      forall v w, v < n -> w < n ->
        getn (snd c) v < fst c /\
        (getn (snd c) v = getn (snd c) w <-> mutually_reachable g v w).
Proof.
  intros n es g.
  pose proof (scc_correct g (wf_mk_graph true n es) (mk_graph_dir true n es)) as H.
  unfold g in *. rewrite mk_graph_n in H. exact H.
Qed.

(** Clause 4 of [C14_full], fully proved: DirectedCycle terminates (recursion, cycle
    reconstruction loop) and returns a genuine cycle iff the graph has one. *)
Theorem C14_directed_cycle :
  forall n es,
    let g := mk_graph true n es in
    exists r, directed_cycle g = Ok r /\
      match r with Some c => is_cycle g c | None => acyclic g end.
Proof. intros n es. exact (dc_correct (mk_graph true n es) (wf_mk_graph true n es)). Qed.

(** A topological order and a cycle exclude each other (so an order accepted by [check_topo]
    also certifies acyclicity). *)
Theorem C14_topological_order_acyclic :
  forall g order, topological_order g order -> acyclic g.
Proof. exact topo_acyclic. Qed.

(** Clause 5 of [C14_full], fully proved: Topological terminates; it returns an order iff the
    graph is acyclic, and that order (the reverse DFS post-order) lists every vertex exactly once
    and is consistent with every edge. *)
Theorem C14_topological :
  forall n es,
    let g := mk_graph true n es in
    exists r, topological g = Ok r /\
      match r with
      | Some (o, _) => topological_order g o /\ acyclic g
      | None => ~ acyclic g
      end.
Proof. intros n es. exact (topological_correct (mk_graph true n es) (wf_mk_graph true n es)). Qed.

(** Checker theorem for shortest paths, unbounded: answers accepted by [check_spt] (dist s = 0,
    every edge relaxed, every returned path a real path of exactly the returned weight) are the
    minimum distances, and "no path" answers are right. *)
Theorem C14_check_spt_sound :
  forall g s out, wf g -> check_spt g s out = true ->
    s < g_n g /\
    forall v, v < g_n g ->
      match nth v out None with
      | Some (p, d) => epath g s p v /\ weight_of p = d /\
                       forall p', epath g s p' v -> (d <= weight_of p')%Z
      | None => forall p', ~ epath g s p' v
      end.
Proof. exact check_spt_sound. Qed.

(** Clause 7 of [C14_full], fully proved: for non-negative weights Dijkstra terminates within
    its fuel (at most n extractions), PathTo terminates, and returns for every reachable vertex the
    minimum distance together with a real path of exactly that weight; "none" exactly for the
    unreachable vertices.  (Invariant: settled vertices have final distances, every edge out of a
    settled vertex is relaxed, queue keys are at least the last extracted key, and the edgeTo links of
    labelled vertices lead back to the source through settled vertices only.) *)
Theorem C14_dijkstra :
  forall n es s, nonneg es -> s < n ->
    let g := mk_graph true n es in
    exists t, shortest_path_tree g s = Ok t /\
      forall v, v < n ->
        match path_to t v with
        | Ok (Some (p, dist)) => epath g s p v /\ weight_of p = dist /\
                                 forall p', epath g s p' v -> (dist <= weight_of p')%Z
        | Ok None => ~ reach g s v
        | _ => False
        end.
Proof.
  intros n es s Hnn Hs g.
  pose proof (dijkstra_correct g (wf_mk_graph true n es) (mk_graph_dir true n es)) as H.
  unfold g in *. rewrite mk_graph_n in H. apply H; auto.
  intros v e He. apply Hnn. eapply adj_edges_mk; eauto.
Qed.

(** ... and the model's answers always pass the proved checker [check_spt]. *)
Theorem C14_dijkstra_passes_check :
  forall n es s, nonneg es -> s < n ->
    let g := mk_graph true n es in
    exists t, shortest_path_tree g s = Ok t /\
      check_spt g s (map (fun v => match path_to t v with Ok x => x | _ => None end) (seq 0 n)) = true.
Proof.
  intros n es s Hnn Hs g.
  pose proof (dijkstra_passes g (wf_mk_graph true n es) (mk_graph_dir true n es)) as H.
  unfold spt_out, g in *. rewrite mk_graph_n in H.
  destruct (H (fun v e He => Hnn e (adj_edges_mk _ _ _ _ _ He)) s Hs) as [t [A [B _]]]. eauto.
Qed.

(** Checker theorem for minimum spanning forests, unbounded, any integer weights: an edge set
    accepted by [check_msf] (graph edges; acyclic by sequential quick-find labelling; for every
    graph edge (a,b,w) the end points are joined by accepted edges of weight <= w) is a spanning
    forest -- graph edges, no edge redundant, same connectivity as the graph -- and no spanning
    forest has smaller total weight.  (Proof: class counting on the quick-find labelling gives
    |F_{<=t}| >= |F'_{<=t}| for every threshold t and every spanning forest F', and equal sizes;
    a layer-cake sum turns the threshold counts into the weight inequality.) *)
Theorem C14_check_msf_sound :
  forall n es T,
    let g := mk_graph false n es in
    check_msf g T = true ->
    spanning_forest g T /\
    forall T', spanning_forest g T' -> (weight_of T <= weight_of T')%Z.
Proof. intros n es T. exact (check_msf_sound n es T). Qed.

(** Clause 6 of [C14_full], fully proved (any integer weights): Prim (eager, run from every
    unvisited vertex) terminates; [Edges()] is a spanning forest of minimum total weight and
    [Weight()] is its weight.  (Invariant: for every threshold c, tree vertices joined by a path of
    graph edges of weight <= c are joined by tree edges of weight <= c -- maintained because the
    extracted key is the lightest edge leaving the tree; the certificate theorem behind
    [C14_check_msf_sound] turns this into minimality.) *)
Theorem C14_prim :
  forall n es,
    let g := mk_graph false n es in
    exists f w, minimum_spanning_tree g = Ok (f, w) /\ w = weight_of f /\ spanning_forest g f /\
      forall f', spanning_forest g f' -> (w <= weight_of f')%Z.
Proof.
  intros n es g. destruct (prim_correct_mk n es) as [f [A [B C]]].
  exists f, (weight_of f). auto.
Qed.

(** Soundness of the simple certificate checkers run on the implementation's answers. *)
Theorem C14_check_path_sound :
  forall g s v p, check_path g s v p = true -> is_path g s v p.
Proof. exact check_path_sound. Qed.

Theorem C14_check_cycle_sound :
  forall g c, check_cycle g c = true -> is_cycle g c.
Proof. exact check_cycle_sound. Qed.

Theorem C14_check_topo_sound :
  forall g order, wf g -> check_topo g order = true -> topological_order g order.
Proof. exact check_topo_sound. Qed.

(** The model's Kosaraju and Prim outputs always pass the proved checkers (as Dijkstra's do:
    [C14_dijkstra_passes_check]); so a "model output fails the checker" report of the driver can
    only come from a broken model/extraction, never from a legitimate graph. *)
Theorem C14_scc_passes_check :
  forall n es, exists c, strongly_connected_components (mk_graph true n es) = Ok c /\
                         check_scc (mk_graph true n es) (snd c) = true.
Proof. exact scc_passes. Qed.

Theorem C14_prim_passes_check :
  forall n es, exists f, minimum_spanning_tree (mk_graph false n es) = Ok (f, weight_of f) /\
                         check_msf (mk_graph false n es) f = true.
Proof. exact prim_passes. Qed.

(** * The property at full strength holds *)
Theorem C14_full_holds : C14_full.
Proof.
  intros d n es g. unfold g.
  split; [|split; [|split; [|split; [|split; [|split]]]]].
  - intros sg s Hs. exact (C14_paths d n es sg s Hs).
  - intros ->. destruct (C14_connected_components n es) as [c [E [_ H]]].
    exists c. split; auto. intros v w Hv Hw. apply H; auto.
  - intros ->. destruct (C14_scc n es) as [c [E [_ H]]].
    exists c. split; auto. intros v w Hv Hw. apply H; auto.
  - intros ->. exact (C14_directed_cycle n es).
  - intros ->. exact (C14_topological n es).
  - intros -> _. exact (C14_prim n es).
  - intros -> Hnn s Hs. exact (C14_dijkstra n es s Hnn Hs).
Qed.

(** Non-vacuity. *)
Example C14_example :
  let g := mk_graph true 4 [(0,1,0%Z); (1,2,0%Z); (2,0,0%Z); (2,3,0%Z)] in
  (match paths_of g SBFS 0 with Ok p => paths_to p 3 | _ => Hang end) = Ok (Some [0; 1; 2; 3]) /\
  directed_cycle g = Ok (Some [2; 0; 1; 2]).
Proof. vm_compute. split; reflexivity. Qed.

Print Assumptions C14_full_holds.
Print Assumptions C14_scc_passes_check.
Print Assumptions C14_prim_passes_check.
Print Assumptions C14_graph_edges.
Print Assumptions C14_paths.
Print Assumptions C14_paths_visited.
Print Assumptions C14_connected_components.
Print Assumptions C14_check_scc_sound.
Print Assumptions C14_check_cc_sound.
Print Assumptions C14_scc.
Print Assumptions C14_directed_cycle.
Print Assumptions C14_topological_order_acyclic.
Print Assumptions C14_topological.
Print Assumptions C14_check_spt_sound.
Print Assumptions C14_dijkstra.
Print Assumptions C14_dijkstra_passes_check.
Print Assumptions C14_check_msf_sound.
Print Assumptions C14_prim.
Print Assumptions C14_check_path_sound.
Print Assumptions C14_check_cycle_sound.
Print Assumptions C14_check_topo_sound.
