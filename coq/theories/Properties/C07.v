(** C07 — Every sort returns the sorted permutation of its input, over all values.
    Statements only; every proof is [exact]/[apply] of a lemma of C07/Proofs*.v.

    The model (C07/Model.v) transcribes /repo/sort/*.go and /repo/radixsort/*.go: slices are lists
    accessed through [get]/[set]/[swap] (an index out of range is the result [Panic]), data-dependent
    loops run on fuel (exhaustion is the result [Hang]), RNG draws are an oracle [rnd : Z -> Z].
    [sorts_to le r a] says: the run [r] returns [Ok b] (no panic, no hang) with [Permutation a b]
    and [Sorted le b].  [TotalPreorder cmp]: [cmp x y < 0 <-> 0 < cmp y x] and [cmp _ _ <= 0] is
    transitive (a Go comparator that is a total preorder; equal-comparing elements may differ). *)
From Algo.C07 Require Import Model Spec ArrLemmas ProofsInsSel ProofsShell ProofsMerge ProofsHeap ProofsQuick ProofsQ3S ProofsMSDStr ProofsLSD ProofsMSDInt ProofsRef ProofsStable PreFix.
Open Scope Z_scope.

Section ComparisonSorts.
  Context {T : Type} (cmp : T -> T -> Z) (TP : TotalPreorder cmp).

  Theorem C07_Selection : forall a : list T, sorts_to (cle cmp) (Selection cmp a) a.
  Proof. exact (Selection_correct T cmp TP). Qed.

  Theorem C07_Insertion : forall a : list T, sorts_to (cle cmp) (Insertion cmp a) a.
  Proof. exact (Insertion_correct T cmp TP). Qed.

  Theorem C07_Shell : forall a : list T, sorts_to (cle cmp) (Shell cmp a) a.
  Proof. exact (Shell_correct T cmp TP). Qed.

  (** Merge (bottom-up) and MergeRec; [zero] is the zero value of [T] filling [make([]T, n)]. *)
  Theorem C07_Merge : forall (zero : T) (a : list T), sorts_to (cle cmp) (Merge cmp zero a) a.
  Proof. exact (Merge_correct T cmp TP). Qed.

  Theorem C07_MergeRec : forall (zero : T) (a : list T), sorts_to (cle cmp) (MergeRec cmp zero a) a.
  Proof. exact (MergeRec_correct T cmp TP). Qed.

  (** [zero] is the zero value of [T] that [append([]T{zero}, a...)] puts in the unused slot 0. *)
  Theorem C07_Heap : forall (zero : T) (a : list T), sorts_to (cle cmp) (Heap cmp zero a) a.
  Proof. exact (Heap_correct T cmp TP). Qed.

  (** Quick: for every RNG oracle (every outcome of the time-seeded shuffle, hence every pivot choice). *)
  Theorem C07_Quick : forall (rnd : Z -> Z) (a : list T), sorts_to (cle cmp) (Quick cmp rnd a) a.
  Proof. exact (Quick_correct T cmp TP). Qed.

  (** the unshuffled core (what the VerifQuick hook runs) *)
  Theorem C07_QuickCore : forall a : list T, sorts_to (cle cmp) (QuickCore cmp a) a.
  Proof. exact (QuickCore_correct T cmp TP). Qed.

  Theorem C07_Quick3Way : forall a : list T, sorts_to (cle cmp) (Quick3Way cmp a) a.
  Proof. exact (Quick3Way_correct T cmp TP). Qed.

  (** Select(a, k) returns, for every RNG oracle and every valid rank, an element of [a] that is
      equivalent to position [k] of every sorted permutation of [a]. *)
  Theorem C07_Select : forall (rnd : Z -> Z) (a : list T) (k : Z), 0 <= k < len a ->
    exists a' x, Select cmp rnd a k = Ok (a', x) /\ Permutation a a' /\ has_rank cmp a k x.
  Proof. exact (Select_correct T cmp TP). Qed.
End ComparisonSorts.

(** Beyond the property as stated (it allows any order among equal keys): Insertion, Merge and
    MergeRec are stable - for every key [k], the elements equivalent to [k] keep their input order.
    This is the tie order the correspondence compares as a fidelity observable. *)
Theorem C07_stable_sorts : forall (T : Type) (cmp : T -> T -> Z), TotalPreorder cmp ->
  forall (zero : T) (a b : list T) (k : T),
    (Insertion cmp a = Ok b -> eqclass cmp k b = eqclass cmp k a) /\
    (Merge cmp zero a = Ok b -> eqclass cmp k b = eqclass cmp k a) /\
    (MergeRec cmp zero a = Ok b -> eqclass cmp k b = eqclass cmp k a).
Proof.
  intros T cmp TP zero a b k. split; [|split]; intros H.
  - exact (Insertion_stable T cmp TP a b H k).
  - exact (Merge_stable T cmp TP zero a b H k).
  - exact (MergeRec_stable T cmp TP zero a b H k).
Qed.

(** Shuffle yields a permutation for every RNG oracle (no comparator involved). *)
Theorem C07_Shuffle : forall (T : Type) (rnd : Z -> Z) (a : list T),
  exists b, Shuffle rnd a = Ok b /\ Permutation a b.
Proof. intros. apply Shuffle_perm. Qed.

(** * radixsort: byte strings ([is_str]: every element in [0,256)), Go's native order [str_le]
    (bytewise lexicographic, a proper prefix first).  [Sorted str_le] + [Permutation] determine the
    output uniquely ([str_le] is antisymmetric), i.e. it is the natively sorted slice. *)

(** LSDString sorts slices of strings that all have width [w]. *)
Theorem C07_LSDString : forall (a : list str) (w : Z), 0 <= w ->
  Forall is_str a -> Forall (fun s => len s = w) a -> sorts_to str_le (LSDString a w) a.
Proof. exact LSDString_correct. Qed.

Theorem C07_MSDString : forall a : list str, Forall is_str a -> sorts_to str_le (MSDString a) a.
Proof. exact MSDString_correct. Qed.

(** Quick3WayString: for every RNG oracle (every outcome of the initial shuffle). *)
Theorem C07_Quick3WayString : forall (rnd : Z -> Z) (a : list str), Forall is_str a ->
  sorts_to str_le (Quick3WayString rnd a) a.
Proof. exact Quick3WayString_correct. Qed.

Theorem C07_Quick3WayStringCore : forall a : list str, Forall is_str a ->
  sorts_to str_le (Quick3WayStringCore a) a.
Proof. exact Quick3WayStringCore_correct. Qed.

(** The same, as equalities with the natively sorted slice ([ref_sort]: a functional insertion
    sort with Go's [<=] on strings). *)
Theorem C07_strings_native : forall (a : list str), Forall is_str a ->
  MSDString a = Ok (ref_sort str_leb a) /\
  (forall rnd, Quick3WayString rnd a = Ok (ref_sort str_leb a)) /\
  (forall w, 0 <= w -> Forall (fun s => len s = w) a -> LSDString a w = Ok (ref_sort str_leb a)).
Proof.
  intros a Ha. split; [|split].
  - apply sorts_to_str, MSDString_correct, Ha.
  - intros rnd. apply sorts_to_str, Quick3WayString_correct, Ha.
  - intros w Hw Hlen. apply sorts_to_str, LSDString_correct; assumption.
Qed.

(** * radixsort: machine integers, all 64-bit patterns ([int64]: [-2^63, 2^63); [uint64]: [0, 2^64)) *)
Theorem C07_LSDInt : forall a : list Z, Forall int64 a -> sorts_to Z.le (LSDInt a) a.
Proof. exact LSDInt_correct. Qed.

Theorem C07_LSDUint : forall a : list Z, Forall uint64 a -> sorts_to Z.le (LSDUint a) a.
Proof. exact LSDUint_correct. Qed.

Theorem C07_MSDInt : forall a : list Z, Forall int64 a -> sorts_to Z.le (MSDInt a) a.
Proof. exact MSDInt_correct. Qed.

(** MSDUint, as repaired by the fix: commit (the signed variant's top-byte recursion removed). *)
Theorem C07_MSDUint : forall a : list Z, Forall uint64 a -> sorts_to Z.le (MSDUint a) a.
Proof. exact MSDUint_correct. Qed.

(** The same, as equalities with the sorted slice ([ref_sort Z.leb]; [Z.le] on the signed resp.
    unsigned value is the native order of int resp. uint). *)
Theorem C07_ints_native : forall a : list Z,
  (Forall int64 a -> LSDInt a = Ok (ref_sort Z.leb a) /\ MSDInt a = Ok (ref_sort Z.leb a)) /\
  (Forall uint64 a -> LSDUint a = Ok (ref_sort Z.leb a) /\ MSDUint a = Ok (ref_sort Z.leb a)).
Proof.
  intros a. split; intros Ha; split; apply sorts_to_Z.
  - apply LSDInt_correct, Ha.
  - apply MSDInt_correct, Ha.
  - apply LSDUint_correct, Ha.
  - apply MSDUint_correct, Ha.
Qed.

(** * The two defects repaired in /repo (fix: commits), on models of the code before the fix
    (C07/PreFix.v): the statements above were false for that code; the witnesses are replayed
    against the Go code on every run (corpus/C07). *)
Theorem C07_LSDString_refuted_before_fix :
  exists (a : list str) (w : Z),
    0 <= w /\ Forall is_str a /\ Forall (fun s => len s = w) a /\ LSDString_old a w = Panic.
Proof.
  exists [[255]; [97]], 1. split; [lia|]. split; [|split].
  - repeat constructor; unfold is_byte; lia.
  - repeat constructor.
  - vm_compute. reflexivity.
Qed.

Theorem C07_MSDUint_refuted_before_fix :
  exists a : list Z, Forall uint64 a /\ ~ sorts_to Z.le (MSDUint_old a) a.
Proof.
  exists d07b_witness. split.
  - apply Forall_forall. intros x Hx. unfold d07b_witness in Hx. apply in_map_iff in Hx.
    destruct Hx as (i & <- & Hi). apply in_seq in Hi. unfold uint64.
    assert (0 <= Z.of_nat i <= 16) as Hr by lia. revert Hr. generalize (Z.of_nat i). intros z Hz.
    change (2 ^ 56) with 72057594037927936. change (2 ^ 48) with 281474976710656.
    change (2 ^ 64) with 18446744073709551616. lia.
  - intros H. apply sorts_to_Z in H. vm_compute in H. discriminate H.
Qed.

(** Non-vacuity: concrete runs (a comparator on pairs that ignores the second component). *)
Example C07_example :
  let cmp := fun x y : Z * Z => fst x - fst y in
  let a := [(3, 0); (1, 1); (2, 2); (1, 3); (3, 4)] in
  (Insertion cmp a, Selection cmp a, Heap cmp (0, 0) a, QuickCore cmp a) =
  (Ok [(1, 1); (1, 3); (2, 2); (3, 0); (3, 4)], Ok [(1, 1); (1, 3); (2, 2); (3, 0); (3, 4)],
   Ok [(1, 1); (1, 3); (2, 2); (3, 4); (3, 0)], Ok [(1, 1); (1, 3); (2, 2); (3, 4); (3, 0)]).
Proof. vm_compute. reflexivity. Qed.

Example C07_example_radix :
  LSDInt [2 ^ 63 - 1; -1; 0; - 2 ^ 63; 256; 255] = Ok [- 2 ^ 63; -1; 0; 255; 256; 2 ^ 63 - 1] /\
  MSDUint [2 ^ 64 - 1; 0; 2 ^ 63; 1] = Ok [0; 1; 2 ^ 63; 2 ^ 64 - 1] /\
  LSDString [[255; 97]; [97; 255]; [97; 0]; [0; 0]] 2 = Ok [[0; 0]; [97; 0]; [97; 255]; [255; 97]] /\
  MSDString [[98]; []; [97; 98]; [97]; [97; 0]] = Ok [[]; [97]; [97; 0]; [97; 98]; [98]].
Proof. vm_compute. repeat split; reflexivity. Qed.

Print Assumptions C07_Selection.
Print Assumptions C07_Insertion.
Print Assumptions C07_Shell.
Print Assumptions C07_Merge.
Print Assumptions C07_MergeRec.
Print Assumptions C07_Heap.
Print Assumptions C07_Quick.
Print Assumptions C07_QuickCore.
Print Assumptions C07_Quick3Way.
Print Assumptions C07_Select.
Print Assumptions C07_stable_sorts.
Print Assumptions C07_Shuffle.
Print Assumptions C07_LSDString.
Print Assumptions C07_MSDString.
Print Assumptions C07_Quick3WayString.
Print Assumptions C07_Quick3WayStringCore.
Print Assumptions C07_strings_native.
Print Assumptions C07_LSDInt.
Print Assumptions C07_LSDUint.
Print Assumptions C07_MSDInt.
Print Assumptions C07_MSDUint.
Print Assumptions C07_ints_native.
Print Assumptions C07_LSDString_refuted_before_fix.
Print Assumptions C07_MSDUint_refuted_before_fix.
