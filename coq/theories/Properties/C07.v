(** C07 — every sort returns the sorted permutation of its input (first, minimal version). *)
From Algo.C07 Require Import Model.
Open Scope Z_scope.

Example C07_example_insertion :
  Insertion Z.sub [3; 1; 2] = Ok [1; 2; 3].
Proof. vm_compute. reflexivity. Qed.
