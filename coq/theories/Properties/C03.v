(** C03 — every hash-table operation terminates, whatever the delete/insert churn.
    Statements only; proofs live in C02/ (C03 shares the model of C02).

    In the model every probe loop runs on fuel [m] (the capacity): an operation that would need more
    than [m] probes returns [Hang], and [run] then ends with the output [RFail true].  [not_fail w]
    says that [w] is neither a hang nor a panic. *)
From Coq Require Import List NArith Permutation.
From Algo.C02 Require Import Model Spec ProofsChain ProofsLinear ProofsQuad ProofsDouble ProofsGap.
Import ListNotations.

(** Separate chaining (no probe loop: buckets are walked structurally): no operation of any history
    fails, for every hash function, valid options and iteration oracle. *)
Theorem C03_terminates_chain :
  forall (K V : Type) (eqb : K -> K -> bool) (eqv : V -> V -> bool) (hash : K -> N) (minlf maxlf : lf),
    (forall a b, eqb a b = true <-> a = b) ->
    valid_chain minlf maxlf ->
    forall (cap : nat), valid_cap_chain cap ->
    forall (orc : nat -> nat -> list nat -> list nat), (forall i j l, Permutation (orc i j l) l) ->
    forall ops : list (op K V),
      Forall (not_fail K V) (run K V eqb eqv hash minlf maxlf orc Chain cap ops) /\
      length (run K V eqb eqv hash minlf maxlf orc Chain cap ops) = length ops.
Proof.
  intros. split.
  - eapply outs_match_no_fail. apply chain_refines; eauto.
  - erewrite outs_match_length by (apply chain_refines; eauto). apply run_spec_length.
Qed.

(** Linear probing: every probe loop (Put, Get, Delete, and the cluster re-insertion loop of Delete)
    ends within its fuel [m], i.e. after at most [m] probes, in every history, for every hash function
    (constant ones included), valid options and iteration oracle; nothing panics either. *)
Theorem C03_terminates_linear :
  forall (K V : Type) (eqb : K -> K -> bool) (eqv : V -> V -> bool) (hash : K -> N) (minlf maxlf : lf),
    (forall a b, eqb a b = true <-> a = b) ->
    valid_open minlf maxlf ->
    forall (cap : nat), valid_cap_linear cap ->
    forall (orc : nat -> nat -> list nat -> list nat), (forall i j l, Permutation (orc i j l) l) ->
    forall ops : list (op K V),
      Forall (not_fail K V) (run K V eqb eqv hash minlf maxlf orc Linear cap ops) /\
      length (run K V eqb eqv hash minlf maxlf orc Linear cap ops) = length ops.
Proof.
  intros. split.
  - eapply outs_match_no_fail. apply linear_refines; eauto.
  - erewrite outs_match_length by (apply linear_refines; eauto). apply run_spec_length.
Qed.

(** Quadratic probing.  Full statement: no operation of any history hangs (needs more than m probes)
    or panics. *)
Definition C03_terminates_quadratic_full : Prop :=
  forall (K V : Type) (eqb : K -> K -> bool) (eqv : V -> V -> bool) (hash : K -> N) (minlf maxlf : lf),
    (forall a b, eqb a b = true <-> a = b) ->
    valid_soft minlf maxlf ->
    forall (cap : nat), valid_cap_prime cap ->
    forall (orc : nat -> nat -> list nat -> list nat), (forall i j l, Permutation (orc i j l) l) ->
    forall ops : list (op K V),
      Forall (not_fail K V) (run K V eqb eqv hash minlf maxlf orc Quadratic cap ops) /\
      length (run K V eqb eqv hash minlf maxlf orc Quadratic cap ops) = length ops.

(** Proved under the prime-gap hypothesis (see Properties/C02.v): the occupancy invariant
    2*(live + soft-deleted) < m holds after every operation of every history — this is exactly what the
    unrepaired code violated (D03: tombstones not counted; D03b: the slot being filled not counted) —
    and the first (m+1)/2 probes of a prime-sized table are pairwise distinct, so every probe loop meets
    a nil slot within (m+1)/2 <= m probes. *)
Theorem C03_terminates_quadratic_partial : prime_gap -> C03_terminates_quadratic_full.
Proof.
  intros G K V eqb eqv hash minlf maxlf He Hv cap Hc orc Ho ops. split.
  - eapply outs_match_no_fail. apply quad_refines; eauto.
  - erewrite outs_match_length by (apply quad_refines; eauto). apply run_spec_length.
Qed.

(** Double hashing: same shape; occupancy invariant (live + soft-deleted) < m, all m probes distinct. *)
Definition C03_terminates_double_full : Prop :=
  forall (K V : Type) (eqb : K -> K -> bool) (eqv : V -> V -> bool) (hash : K -> N) (minlf maxlf : lf),
    (forall a b, eqb a b = true <-> a = b) ->
    valid_dbl minlf maxlf ->
    forall (cap : nat), valid_cap_prime cap ->
    forall (orc : nat -> nat -> list nat -> list nat), (forall i j l, Permutation (orc i j l) l) ->
    forall ops : list (op K V),
      Forall (not_fail K V) (run K V eqb eqv hash minlf maxlf orc Double cap ops) /\
      length (run K V eqb eqv hash minlf maxlf orc Double cap ops) = length ops.

Theorem C03_terminates_double_partial : prime_gap -> C03_terminates_double_full.
Proof.
  intros G K V eqb eqv hash minlf maxlf He Hv cap Hc orc Ho ops. split.
  - eapply outs_match_no_fail. apply double_refines; eauto.
  - erewrite outs_match_length by (apply double_refines; eauto). apply run_spec_length.
Qed.

(** Without any hypothesis, for histories of bounded length (up to 2^29 operations with the default
    maxLF = 1/2): the prime gap is checked by computation up to [gap_bound] = 2^31, see Properties/C02.v. *)
Theorem C03_terminates_quadratic_bounded :
  forall (K V : Type) (eqb : K -> K -> bool) (eqv : V -> V -> bool) (hash : K -> N) (minlf maxlf : lf),
    (forall a b, eqb a b = true <-> a = b) ->
    valid_soft minlf maxlf ->
    forall (cap : nat), valid_cap_prime cap ->
    forall (orc : nat -> nat -> list nat -> list nat), (forall i j l, Permutation (orc i j l) l) ->
    forall ops : list (op K V),
      2 * lf_den maxlf * length ops <= lf_num maxlf * gap_bound ->
      Forall (not_fail K V) (run K V eqb eqv hash minlf maxlf orc Quadratic cap ops) /\
      length (run K V eqb eqv hash minlf maxlf orc Quadratic cap ops) = length ops.
Proof.
  intros K V eqb eqv hash minlf maxlf He Hv cap Hc orc Ho ops Hl.
  pose proof (quad_refines_gen K V eqb eqv hash minlf maxlf He Hv gap_bound (length ops) prime_gap_checked Hl
                cap orc ops Hc Ho (le_n _)) as R.
  split; [eapply outs_match_no_fail; eauto|]. erewrite outs_match_length by eauto. apply run_spec_length.
Qed.

Theorem C03_terminates_double_bounded :
  forall (K V : Type) (eqb : K -> K -> bool) (eqv : V -> V -> bool) (hash : K -> N) (minlf maxlf : lf),
    (forall a b, eqb a b = true <-> a = b) ->
    valid_dbl minlf maxlf ->
    forall (cap : nat), valid_cap_prime cap ->
    forall (orc : nat -> nat -> list nat -> list nat), (forall i j l, Permutation (orc i j l) l) ->
    forall ops : list (op K V),
      2 * lf_den maxlf * length ops <= lf_num maxlf * gap_bound ->
      Forall (not_fail K V) (run K V eqb eqv hash minlf maxlf orc Double cap ops) /\
      length (run K V eqb eqv hash minlf maxlf orc Double cap ops) = length ops.
Proof.
  intros K V eqb eqv hash minlf maxlf He Hv cap Hc orc Ho ops Hl.
  pose proof (double_refines_gen K V eqb eqv hash minlf maxlf He Hv gap_bound (length ops) prime_gap_checked Hl
                cap orc ops Hc Ho (le_n _)) as R.
  split; [eapply outs_match_no_fail; eauto|]. erewrite outs_match_length by eauto. apply run_spec_length.
Qed.

(** D03's history on the model of the repaired code: [Put i; Delete i] for 40 fresh keys, then a Put
    and lookups of an absent key: no operation returns [Hang]. *)
Definition churn_hist (kd : kind) (hash : nat -> N) (rounds : nat) : res (nat * option nat) :=
  let eqb := Nat.eqb in
  let minlf := match kd with Chain => {| lf_num := 2; lf_den := 1 |} | _ => {| lf_num := 1; lf_den := 8 |} end in
  let maxlf := match kd with Chain => {| lf_num := 10; lf_den := 1 |} | _ => {| lf_num := 1; lf_den := 2 |} end in
  let idl := fun l : list nat => l in
  let step := fun (r : res (table nat nat)) k =>
                bind r (fun t => bind (put nat nat eqb hash maxlf idl t k k) (fun t1 =>
                bind (delete nat nat eqb hash minlf maxlf idl t1 k) (fun p => Ok (fst p)))) in
  bind (fold_left step (seq 0 rounds) (create nat nat kd 0)) (fun t =>
  bind (put nat nat eqb hash maxlf idl t rounds 7) (fun t1 =>
  bind (get nat nat eqb hash t1 (rounds + 1)) (fun g => Ok (size nat nat t1, g)))).

Example C03_example_churn :
  map (fun kd => churn_hist kd (fun k => N.of_nat k) 40) [Chain; Linear; Quadratic; Double]
  = repeat (Ok (1, None)) 4
  /\ map (fun kd => churn_hist kd (fun _ => 0%N) 40) [Chain; Linear; Quadratic; Double]
  = repeat (Ok (1, None)) 4.
Proof. vm_compute. split; reflexivity. Qed.

Print Assumptions C03_terminates_chain.
Print Assumptions C03_terminates_linear.
Print Assumptions C03_terminates_quadratic_partial.
Print Assumptions C03_terminates_double_partial.
Print Assumptions C03_terminates_quadratic_bounded.
Print Assumptions C03_terminates_double_bounded.
