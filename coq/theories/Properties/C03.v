(** C03 — every hash-table operation terminates, whatever the delete/insert churn.
    (first stage: the former hanging histories evaluated on the model; theorems follow) *)
From Algo.C02 Require Import Model.

(** D03's history on the model of the repaired code: [Put i; Delete i] for 40 fresh keys, then a Put
    and lookups of an absent key: no operation returns [Hang]. *)
Definition churn_hist (kd : kind) (hash : nat -> N) (rounds : nat) : res (nat * option nat) :=
  let eqb := Nat.eqb in
  let minlf := match kd with Chain => {| lf_num := 2; lf_den := 1 |} | _ => {| lf_num := 1; lf_den := 8 |} end in
  let maxlf := match kd with Chain => {| lf_num := 10; lf_den := 1 |} | _ => {| lf_num := 1; lf_den := 2 |} end in
  let idl := fun l : list nat => l in
  let step := fun (r : res (table nat nat)) k =>
                bind r (fun t => bind (put nat nat eqb hash maxlf idl t k k) (fun t1 =>
                bind (delete nat nat eqb hash minlf maxlf idl t1 k) (fun p => Ok (fst p)))) in
  bind (fold_left step (seq 0 rounds) (create nat nat kd 0)) (fun t =>
  bind (put nat nat eqb hash maxlf idl t rounds 7) (fun t1 =>
  bind (get nat nat eqb hash t1 (rounds + 1)) (fun g => Ok (size nat nat t1, g)))).

Example C03_example_churn :
  map (fun kd => churn_hist kd (fun k => N.of_nat k) 40) [Chain; Linear; Quadratic; Double]
  = repeat (Ok (1, None)) 4
  /\ map (fun kd => churn_hist kd (fun _ => 0%N) 40) [Chain; Linear; Quadratic; Double]
  = repeat (Ok (1, None)) 4.
Proof. vm_compute. split; reflexivity. Qed.
