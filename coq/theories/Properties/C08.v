(** C08 — CFG transformations preserve the generated language.

    Statements only; proofs are in Algo.C08.Proofs*.  [L G w] is the derivation semantics of
    Algo.Grammar.CFG ([derives G [Nt (start G)] (map Tm w)]); [same_language G G'] is
    [forall w, L G' w <-> L G w].  The model functions are those of Algo.C08.Model, generic in
    the types of terminals and non-terminals, their boolean equalities and the name generator
    [fresh] behind AddNewNonTerminal, of which only freshness is assumed; the instance used by
    the correspondence (Go strings, Go's suffix lists) satisfies the assumptions
    ([C08_instance]).

    All seven transformations of the property (and the CNF sub-steps) are proved.
    Every transformation that introduces non-terminals can hit Go's documented panic "Failed to
    generate a new non-terminal" (a suffix list is exhausted): the model returns
    [Panic OutOfNames] exactly then (known finding fresh-name-exhaustion), and the theorems
    say: the result is never [Hang], the only panic is that one, otherwise a grammar with the
    same language is returned. *)
From Coq Require Import List.
From Algo.Grammar Require Import CFG.
From Algo.C08 Require Import Model Spec ProofsBase ProofsLang1 ProofsLang2 ProofsLang3 ProofsLang4
     ProofsLF ProofsELR Names NamesProofs Recognise RecogniseProofs.
Import ListNotations.

Section C08.
  Context {T N : Type}.
  Variable teqb : T -> T -> bool.
  Variable neqb : N -> N -> bool.
  Variable t2n : T -> N.
  Variable fresh : skind -> list N -> N -> option N.
  Hypothesis teqb_spec : forall x y, teqb x y = true <-> x = y.
  Hypothesis neqb_spec : forall x y, neqb x y = true <-> x = y.
  Hypothesis fresh_spec : forall k nts b x, fresh k nts b = Some x -> ~ In x nts.

  Notation gram := (grammar T N).

  (** the shape of every statement: name exhaustion, or an equivalent grammar *)
  Definition preserves (X : gram -> res gram) (G : gram) : Prop :=
    X G = Panic OutOfNames \/ exists G', X G = Ok G' /\ forall w, L G' w <-> L G w.

  (** EliminateUnreachableProductions (for every grammar, valid or not; it never panics) *)
  Theorem C08_unreachable : forall G : gram,
    exists G', unreachable_elim teqb neqb G = Ok G' /\ forall w, L G' w <-> L G w.
  Proof. intros G. apply (unreachable_lang teqb neqb neqb_spec G). Qed.

  (** EliminateSingleProductions (UNIT; it never panics) *)
  Theorem C08_unit : forall G : gram, valid G ->
    exists G', unit_elim teqb neqb G = Ok G' /\ forall w, L G' w <-> L G w.
  Proof.
    intros G HG. destruct (unit_lang teqb neqb teqb_spec neqb_spec G (valid_wf G HG)) as (G' & H1 & H2 & _).
    exists G'. split; [exact H1 | exact H2].
  Qed.

  (** EliminateEmptyProductions (DEL), whatever the length of the bodies and the positions of
      the nullable symbols *)
  Theorem C08_del : forall G : gram, valid G -> preserves (del teqb neqb fresh) G.
  Proof.
    intros G HG. destruct (ok_or_names_disj _ _ (del_total teqb neqb fresh teqb_spec neqb_spec fresh_spec G (valid_wf G HG))) as [H|(G' & H1 & H2 & _)].
    - left; exact H.
    - right. exists G'. split; [exact H1 | exact H2].
  Qed.

  (** the sub-steps START, TERM, BIN of ChomskyNormalForm *)
  Theorem C08_cnf_start : forall G : gram, valid G -> preserves (cnf_start teqb neqb fresh) G.
  Proof.
    intros G HG. destruct (ok_or_names_disj _ _ (start_total teqb neqb fresh teqb_spec neqb_spec fresh_spec G (valid_wf G HG))) as [H|(G' & H1 & H2 & _)].
    - left; exact H.
    - right. exists G'. split; [exact H1 | exact H2].
  Qed.

  Theorem C08_cnf_term : forall G : gram, valid G -> preserves (cnf_term teqb neqb t2n fresh) G.
  Proof.
    intros G HG. destruct (ok_or_names_disj _ _ (term_total teqb neqb t2n fresh teqb_spec neqb_spec fresh_spec G (valid_wf G HG))) as [H|(G' & H1 & H2 & _)].
    - left; exact H.
    - right. exists G'. split; [exact H1 | exact H2].
  Qed.

  Theorem C08_cnf_bin : forall G : gram, valid G -> preserves (cnf_bin teqb neqb fresh) G.
  Proof.
    intros G HG. destruct (ok_or_names_disj _ _ (bin_total teqb neqb fresh teqb_spec neqb_spec fresh_spec G (valid_wf G HG))) as [H|(G' & H1 & H2 & _)].
    - left; exact H.
    - right. exists G'. split; [exact H1 | exact H2].
  Qed.

  (** ChomskyNormalForm = START; TERM; BIN; DEL; UNIT; Unreachable *)
  Theorem C08_chomsky : forall G : gram, valid G -> preserves (chomsky teqb neqb t2n fresh) G.
  Proof.
    intros G HG. destruct (ok_or_names_disj _ _ (chomsky_total teqb neqb t2n fresh teqb_spec neqb_spec fresh_spec G (valid_wf G HG))) as [H|(G' & H1 & H2 & _)].
    - left; exact H.
    - right. exists G'. split; [exact H1 | exact H2].
  Qed.

  (** EliminateCycles = DEL; UNIT; Unreachable *)
  Theorem C08_cycles : forall G : gram, valid G -> preserves (cycles_elim teqb neqb fresh) G.
  Proof.
    intros G HG. destruct (ok_or_names_disj _ _ (cycles_total teqb neqb fresh teqb_spec neqb_spec fresh_spec G (valid_wf G HG))) as [H|(G' & H1 & H2 & _)].
    - left; exact H.
    - right. exists G'. split; [exact H1 | exact H2].
  Qed.

  (** NullableNonTerminals is exact (used by DEL) and never hangs *)
  Theorem C08_nullable : forall P : list (production T N),
    exists nl, nullable neqb P = Ok nl /\ forall A, In A nl <-> gen P (Nt A) [].
  Proof.
    intros P. destruct (nullable_total neqb neqb_spec P) as [nl H]. exists nl. split; [exact H|].
    apply (nullable_spec neqb neqb_spec P nl H).
  Qed.

  (** the big-step semantics used in the proofs is the derivation semantics *)
  Theorem C08_semantics : forall (G : gram) w, L G w <-> gen (prods G) (Nt (start G)) w.
  Proof. exact L_gen. Qed.

  (** LeftFactor (the code as it is: one pass over the heads; its normal form is the subject of
      C09 and of the known finding D09b — the language is preserved regardless) *)
  Theorem C08_left_factor : forall G : gram, valid G -> preserves (left_factor teqb neqb fresh) G.
  Proof.
    intros G HG. destruct (ok_or_names_disj _ _ (left_factor_total teqb neqb fresh teqb_spec neqb_spec fresh_spec G (valid_wf G HG))) as [H|(G' & H1 & H2 & _)].
    - left; exact H.
    - right. exists G'. split; [exact H1 | exact H2].
  Qed.

  (** EliminateLeftRecursion, for every order of the non-terminals without repetitions
      (OrderNonTerminals lists each non-terminal once; the order itself is immaterial) *)
  Theorem C08_left_recursion_elim : forall (order : gram -> list N) (G : gram),
    (forall G1, NoDup (order G1)) -> valid G ->
    preserves (left_recursion_elim teqb neqb fresh order) G.
  Proof.
    intros order G Hord HG.
    destruct (ok_or_names_disj _ _ (left_recursion_elim_total teqb neqb fresh teqb_spec neqb_spec fresh_spec order G (valid_wf G HG) Hord)) as [H|(G' & H1 & H2 & _)].
    - left; exact H.
    - right. exists G'. split; [exact H1 | exact H2].
  Qed.
End C08.

(** The instance used by the correspondence satisfies the assumptions. *)
Theorem C08_instance :
  (forall x y, name_eqb x y = true <-> x = y) /\
  (forall k nts b x, fresh_name k nts b = Some x -> ~ In x nts).
Proof. split; [exact name_eqb_spec | exact fresh_name_spec]. Qed.

(** hence, e.g., for the extracted ChomskyNormalForm and EliminateEmptyProductions *)
Theorem C08_chomsky_concrete : forall G : cgram, valid G -> preserves c_chomsky G.
Proof. apply (C08_chomsky name_eqb name_eqb t2n_id fresh_name name_eqb_spec name_eqb_spec fresh_name_spec). Qed.

Theorem C08_del_concrete : forall G : cgram, valid G -> preserves c_del G.
Proof. apply (C08_del name_eqb name_eqb fresh_name name_eqb_spec name_eqb_spec fresh_name_spec). Qed.

(** The bounded membership oracle used for the failing-input search is correct: when it
    answers, a table entry is exactly the set of generated strings up to the bound. *)
Theorem C08_bounded_oracle_correct :
  forall {T N} (tcmp : T -> T -> comparison) (neqb : N -> N -> bool),
    (forall x y, tcmp x y = Eq -> x = y) -> (forall x y, neqb x y = true <-> x = y) ->
    forall (P : list (production T N)) k fuel t, bounded_lang tcmp neqb k fuel P = Some t ->
    forall A w, (In w (lookup neqb A t) -> gen P (Nt A) w) /\
                (gen P (Nt A) w -> length w <= k -> In w (lookup neqb A t)).
Proof. intros T N tcmp neqb H1 H2 P k fuel t H. apply (bounded_lang_correct tcmp neqb H1 H2 P k fuel t H). Qed.

(** Non-vacuity / regression witness of D08a on the model of the fixed code:
    S -> A B C D E f with A..E nullable yields all 32 bodies for S (plus 5 terminal rules). *)
Example C08_example_D08a :
  let n (c : N) : name := [c] in
  let S := n 83%N in let A := n 65%N in let B := n 66%N in let C := n 67%N in let D := n 68%N in let E := n 69%N in
  let G := mkGrammar [n 97; n 102]%N [S; A; B; C; D; E]
             ([mkProd S [Nt A; Nt B; Nt C; Nt D; Nt E; Tm (n 102%N)]] ++
              flat_map (fun X => [mkProd X [Tm (n 97%N)]; mkProd X []]) [A; B; C; D; E]) S in
  match c_del G with
  | Ok G' => length (prods G') = 37 /\ c_verify G' = true
  | _ => False
  end.
Proof. vm_compute. split; reflexivity. Qed.

Print Assumptions C08_unreachable.
Print Assumptions C08_unit.
Print Assumptions C08_del.
Print Assumptions C08_cnf_start.
Print Assumptions C08_cnf_term.
Print Assumptions C08_cnf_bin.
Print Assumptions C08_chomsky.
Print Assumptions C08_cycles.
Print Assumptions C08_nullable.
Print Assumptions C08_semantics.
Print Assumptions C08_left_factor.
Print Assumptions C08_left_recursion_elim.
Print Assumptions C08_instance.
Print Assumptions C08_chomsky_concrete.
Print Assumptions C08_del_concrete.
Print Assumptions C08_bounded_oracle_correct.
