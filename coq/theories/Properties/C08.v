(** C08 — CFG transformations preserve the generated language (work in progress: stage 1).
    Statements only. *)
From Algo.C08 Require Import Model Names.
From Algo.C09 Require Import Concrete.

(** Non-vacuity / regression witness of D08a on the model of the fixed code:
    S -> A B C D E f with A..E nullable yields all 32 bodies. *)
Example C08_example_D08a :
  let n (c : N) : name := [c] in
  let S := n 83%N in let A := n 65%N in let B := n 66%N in let C := n 67%N in let D := n 68%N in let E := n 69%N in
  let G := mkGrammar [n 97; n 102]%N [S; A; B; C; D; E]
             ([mkProd S [Nt A; Nt B; Nt C; Nt D; Nt E; Tm (n 102%N)]] ++
              flat_map (fun X => [mkProd X [Tm (n 97%N)]; mkProd X []]) [A; B; C; D; E]) S in
  match c_del G with
  | Ok G' => length (prods G') = 37 /\ c_verify G' = true
  | _ => False
  end.
Proof. vm_compute. split; reflexivity. Qed.
