(** C06 — tries are an ordered string map with prefix and pattern queries.
    Statements only; proofs live in C06/*.v.

    [ev V] are the operations (mutators Put/Delete/DeleteMin/DeleteMax/DeleteAll and every query),
    [out V] what they return.  [b_run b_new es] / [p_run p_new es] are the outputs of the binary-trie /
    Patricia model (transcriptions of trie/binary.go and trie/patricia.go) on the operation sequence
    [es]; [s_run [] es] those of the specification (Spec.v): a lexicographically sorted association
    list on which every query is its definition (filter / first / last / nth / length).
    [ev_valid] excludes only the empty key in Put/Get/Delete (the property is about non-empty keys;
    query arguments may be empty). *)
From Coq Require Import List NArith ZArith Lia.
From Algo.C06 Require Import Spec SpecFacts Model ModelPat ProofsBin ProofsBinQ ProofsBinMain PatSweep PatInv PatBits PatTree PatMatch PatDel PatPut PatRem PatRemH PatRemS.
Import ListNotations.

Local Notation a := 97%N.
Local Notation b := 98%N.
Local Notation c := 99%N.
Local Notation z := 122%N.

(** * Binary trie: full refinement, every history, every query, present or absent arguments *)

(** After any sequence of operations on non-empty keys the binary trie returns, operation by
    operation, exactly what the abstract sorted map returns: Size, Get, Min, Max, Floor, Ceiling,
    Select, Rank, Range, RangeSize, All (ascending), WithPrefix, LongestPrefixOf, Match, and the
    results of Delete, DeleteMin, DeleteMax.  No operation panics. *)
Theorem C06_refines_binary :
  forall (V : Type) (es : list (ev V)), Forall ev_valid es -> b_run b_new es = s_run [] es.
Proof. intros. now apply binary_refines. Qed.

(** The structural invariant behind it: sibling chains strictly increasing and no non-terminal leaf
    ([wfb]), size = number of terminal nodes, and the terminal nodes in pre-order are the abstract
    map, which is strictly sorted. *)
Theorem C06_binary_invariant :
  forall (V : Type) (es : list (ev V)), Forall ev_valid es ->
    let t := b_exec b_new es in
    wfb None (broot t) /\ bsize t = Z.of_nat (count_terms (broot t)) /\
    contents (broot t) = s_exec [] es /\ sorted (s_exec [] es).
Proof. intros. now apply binary_invariant. Qed.

(** * What the specification's definitions mean *)

(** the abstract map is a map: Get after Put / Delete *)
Theorem C06_spec_get_put : forall (V : Type) k (v : V) k' (m : smap V),
  sget k' (sput k v m) = if keqb k' k then Some v else sget k' m.
Proof. intros. apply sget_sput. Qed.

(** deleting a key removes that key only; deleting an absent key changes nothing *)
Theorem C06_spec_get_delete : forall (V : Type) k k' (m : smap V), sorted m ->
  sget k' (sdel k m) = if keqb k' k then None else sget k' m.
Proof. intros. now apply sget_sdel. Qed.

Theorem C06_spec_delete_absent : forall (V : Type) k (m : smap V), sget k m = None -> sdel k m = m.
Proof. intros. apply sdel_notin. now apply sget_none_inv. Qed.

(** WithPrefix(p): exactly the held keys starting with p *)
Theorem C06_spec_withprefix : forall (V : Type) p (m : smap V) k v,
  In (k, v) (s_withprefix p m) <-> In (k, v) m /\ exists s, k = p ++ s.
Proof. intros. apply s_withprefix_spec. Qed.

(** LongestPrefixOf(s): a held prefix of s that no held prefix of s exceeds in length; none iff no
    held key is a prefix of s *)
Theorem C06_spec_longestprefixof : forall (V : Type) s (m : smap V), sorted m ->
  match s_longestprefix s m with
  | Some (k, v) =>
      In (k, v) m /\ is_prefix k s = true /\
      forall k' v', In (k', v') m -> is_prefix k' s = true -> (length k' <= length k)%nat
  | None => forall k' v', In (k', v') m -> is_prefix k' s = false
  end.
Proof. intros. now apply s_longestprefix_spec. Qed.

(** Match(pat): exactly the held keys of the pattern's length that agree with it wherever it is not '*' *)
Theorem C06_spec_match : forall (V : Type) pat (m : smap V) k v,
  In (k, v) (s_match pat m) <->
  In (k, v) m /\ length pat = length k /\
  forall i, (i < length pat)%nat -> nth i pat 0%N = star \/ nth i pat 0%N = nth i k 0%N.
Proof. intros. apply s_match_spec. Qed.

(** Floor / Ceiling: greatest held key <= k / least held key >= k *)
Theorem C06_spec_floor : forall (V : Type) k (m : smap V), sorted m ->
  match s_floor k m with
  | Some (k0, v) => In (k0, v) m /\ kleb k0 k = true /\
                    forall k' v', In (k', v') m -> kleb k' k = true -> kleb k' k0 = true
  | None => forall k' v', In (k', v') m -> kleb k' k = false
  end.
Proof. intros. now apply s_floor_spec. Qed.

Theorem C06_spec_ceiling : forall (V : Type) k (m : smap V), sorted m ->
  match s_ceiling k m with
  | Some (k0, v) => In (k0, v) m /\ kleb k k0 = true /\
                    forall k' v', In (k', v') m -> kleb k k' = true -> kleb k0 k' = true
  | None => forall k' v', In (k', v') m -> kleb k k' = false
  end.
Proof. intros. now apply s_ceiling_spec. Qed.

(** Non-vacuity: deletes of prefixes/extensions, absent arguments, high bytes. *)
Example C06_example_binary :
  let es := [EPut [a;b] 1%Z; EPut [a] 2%Z; EPut [233%N] 3%Z; EDelete [a;b]; EDelete [a;b]; EGet [a]; ESize;
             ERank [b]; EWithPrefix [a]; ELongestPrefixOf [a;b;c]; EMatch [star]; EDeleteMax; EAll] in
  b_run b_new es =
  [OUnit; OUnit; OUnit; OVal (Some 1%Z); OVal None; OVal (Some 2%Z); ONum 2%Z; ONum 1%Z; OList [([a], 2%Z)];
   OKV (Some ([a], 2%Z)); OList [([a], 2%Z); ([233%N], 3%Z)]; OKV (Some ([233%N], 3%Z)); OList [([a], 2%Z)]].
Proof. vm_compute. reflexivity. Qed.

(** * Patricia trie *)

(** The property as written, for the Patricia model.  It is FALSE for the code as it is — the three
    refutations at the end (recorded as known findings): WithPrefix, LongestPrefixOf, and keys that are
    equal up to trailing 0x00 bytes. *)
Definition C06_refines_patricia_full : Prop :=
  forall (V : Type) (es : list (ev V)), Forall ev_valid es -> p_run p_new es = s_run [] es.

(** What IS proved, for every value type and every finite history: on the domain that excludes
    exactly the three recorded findings — Put keys representable ([kvalid]: non-empty, bytes < 256,
    no trailing 0x00), no WithPrefix / LongestPrefixOf events — the Patricia model returns, operation
    by operation, what the specification returns: Put, Delete (held or absent key, any key),
    DeleteMin, DeleteMax, DeleteAll, and Get, Size, Min, Max, Floor, Ceiling, Select, Rank, Range,
    RangeSize, All, Match with arbitrary arguments.  No operation panics or runs out of fuel. *)
Theorem C06_refines_patricia :
  forall (V : Type) (es : list (ev V)), Forall full_event es -> p_run p_new es = s_run [] es.
Proof. intros. now apply patricia_refines. Qed.

Example C06_example_patricia :
  let es := [EPut [a;b] 1%Z; EPut [a] 2%Z; EPut [233%N] 3%Z; EDelete [a;b]; EDelete [a;b]; EGet [a]; ESize;
             ERank [b]; EMatch [star]; EDeleteMax; EAll; EDeleteMin; EMin] in
  Forall (@full_event Z) es /\ p_run p_new es = s_run [] es.
Proof. split; [repeat constructor; simpl; try discriminate; try lia | vm_compute; reflexivity]. Qed.

(** ** the pieces *)

(** Queries in every state [t] that passes the executable structural check [p_inv_check] (the threads
    unfold into a tree in which every key below the left/right link of a node has bit 0/1 at the
    node's bit position, the keys in thread order are strictly increasing, size = number of
    threads): they return what the specification returns on the state's contents. *)
Theorem C06_patricia_queries_checked :
  forall (V : Type) (t : pstate V) (e : ev V), p_inv_check t = true -> checked_query_m e ->
    p_step t e = (t, snd (s_step (p_contents t) e)).
Proof. intros. now apply p_step_checked_m. Qed.

Theorem C06_patricia_match_checked :
  forall (V : Type) (t : pstate V) pat, p_inv_check t = true ->
    p_match t pat = ROk (s_match pat (p_contents t)).
Proof. intros. now apply p_match_correct. Qed.

(** Put preserves the logical invariant [POwn] (the threads unfold into a tree with distinct inner
    nodes; side bits and prefix agreement at every node; representable keys; size; every inner node's
    own thread lies in its own subtree; one thread per key; the root's thread exists) and equals
    sorted insertion on the contents; [POwn] implies [PInv], which implies [p_inv_check]. *)
Theorem C06_patricia_put_preserves :
  forall (V : Type) (t : pstate V) k (v : V), POwn t -> kvalid k ->
    exists t', p_put t k v = ROk t' /\ POwn t' /\ p_inv_check t' = true /\
               p_contents t' = sput k v (p_contents t).
Proof.
  intros V t k v O KV. destruct (p_put_preserves_own t k v O KV) as [t' [P [O' C]]].
  exists t'. repeat split; auto. apply PInv_check. now apply POwn_PInv.
Qed.

(** Removal (the four-pointer [remove] with all its aliasing cases): Delete of a held key, DeleteMin
    and DeleteMax preserve [POwn] and remove exactly that key; Delete of an absent key changes nothing. *)
Theorem C06_patricia_remove_preserves :
  forall (V : Type) (t : pstate V), POwn t ->
    (forall k v, sget k (p_contents t) = Some v ->
       exists t', p_delete t k = ROk (t', Some v) /\ POwn t' /\ p_contents t' = sdel k (p_contents t)) /\
    (forall k, sget k (p_contents t) = None -> p_delete t k = ROk (t, None)) /\
    (forall e0 m', p_contents t = e0 :: m' ->
       exists t', p_deletemin t = ROk (t', Some e0) /\ POwn t' /\ p_contents t' = m') /\
    (forall e0 m', p_contents t = m' ++ [e0] ->
       exists t', p_deletemax t = ROk (t', Some e0) /\ POwn t' /\ p_contents t' = m').
Proof.
  intros V t O. repeat split.
  - intros k v G. now apply p_delete_held.
  - intros k G. apply p_delete_absent; auto. apply PInv_check. now apply POwn_PInv.
  - intros e0 m' C. now apply p_deletemin_held.
  - intros e0 m' C. now apply p_deletemax_held.
Qed.

(** the heap-level core of the removal: the four pointers found by the descents, and "every heap
    that implements the re-linking represents the transformed tree" ([p_remove_ok] shows that the
    heap computed by [p_remove] is such a heap) *)
Theorem C06_patricia_remove_pointers :
  forall (V : Type) (t : pstate V) r0 rn c T d check, pinv t r0 rn c T ->
    p_delete_dir t r0 d check =
      (let h := pheap t in
       let n := tsd h d T in
       let (rp, r) := referrer h d T r0 r0 in
       nn <- hget h n ;;
       if check nn then
         t' <- p_remove t r0 n r rp (nparent h d n T r0) ;; ROk (t', Some (n_key nn, n_val nn))
       else ROk (t, None)).
Proof. intros V t r0 rn c T d check I. exact (p_delete_dir_pointers t r0 rn c T d check I). Qed.

Theorem C06_patricia_remove_relinked :
  forall (V : Type) (t : pstate V) r0 rn0 c0 T kk h n rp r np,
    PInvN t r0 rn0 c0 T -> owns T -> NoDup (leaves T) -> In r0 (leaves T) -> is_leaf T = false ->
    h = pheap t -> n = ts (nbp h) kk T -> nkey h n = kk ->
    referrer h (ByKey kk) T r0 r0 = (rp, r) -> np = nparent h (ByKey kk) n T r0 ->
    exists H' co,
      p_remove t r0 n r rp np = ROk {| psize := (psize t - 1)%Z; proot := Some (rho n r r0); pheap := H' |} /\
      relinked h H' kk n r rp np co.
Proof. intros V. exact (@p_remove_ok V). Qed.

(** the bit-level facts behind Put: DiffPos and the order of the zero padded bit strings *)
Theorem C06_diffpos_spec : forall x y, kvalid x -> kvalid y -> x <> y ->
  (1 <= diffpos x y)%Z /\
  (forall pos, (1 <= pos < diffpos x y)%Z -> pbit x pos = pbit y pos) /\
  pbit x (diffpos x y) <> pbit y (diffpos x y).
Proof. intros. now apply diffpos_valid. Qed.

Theorem C06_bit_order_is_lexicographic : forall x y b, bytes_ok x -> bytes_ok y -> (1 <= b)%Z ->
  (forall pos, (1 <= pos < b)%Z -> pbit x pos = pbit y pos) -> pbit x b = false -> pbit y b = true -> klt x y.
Proof. intros. now apply (lex_of_bits x y b). Qed.

(** an independent finite cross-check, kernel-evaluated: every history of at most 4 mutators over 5 keys
    (30941 histories) followed by 96 queries *)
Theorem C06_patricia_bounded :
  forall h, In h (sweep_histories 4 1) ->
    p_run p_new (h ++ sweep_battery) = s_run [] (h ++ sweep_battery).
Proof. exact patricia_bounded. Qed.

(** Known findings: the faithful Patricia model refutes the property on WithPrefix, LongestPrefixOf
    and on keys that are equal up to trailing 0x00 bytes (witnesses replayed from corpus/C06). *)
Theorem C06_patricia_withprefix_refuted :
  exists es : list (ev Z), Forall ev_valid es /\ p_run p_new es <> s_run [] es.
Proof.
  exists [EPut [a] 1%Z; EPut [a;b] 2%Z; EPut [a;c] 3%Z; EPut [b] 4%Z; EWithPrefix [a]].
  split; [repeat constructor; discriminate | vm_compute; discriminate].
Qed.

Theorem C06_patricia_longestprefixof_refuted :
  exists es : list (ev Z), Forall ev_valid es /\ p_run p_new es <> s_run [] es.
Proof.
  exists [EPut [a] 1%Z; EPut [a;b;z] 2%Z; ELongestPrefixOf [a;b;c]].
  split; [repeat constructor; discriminate | vm_compute; discriminate].
Qed.

Theorem C06_patricia_trailing_nul_refuted :
  exists es : list (ev Z), Forall ev_valid es /\
    nth 1 (p_run p_new es) OUnit = OPanic /\ p_run p_new es <> s_run [] es.
Proof.
  exists [EPut [a] 1%Z; EPut [a;0%N] 2%Z].
  split; [repeat constructor; discriminate | split; vm_compute; [reflexivity | discriminate]].
Qed.

Print Assumptions C06_refines_binary.
Print Assumptions C06_binary_invariant.
Print Assumptions C06_spec_get_put.
Print Assumptions C06_spec_get_delete.
Print Assumptions C06_spec_delete_absent.
Print Assumptions C06_spec_withprefix.
Print Assumptions C06_spec_longestprefixof.
Print Assumptions C06_spec_match.
Print Assumptions C06_spec_floor.
Print Assumptions C06_spec_ceiling.
Print Assumptions C06_refines_patricia.
Print Assumptions C06_patricia_queries_checked.
Print Assumptions C06_patricia_match_checked.
Print Assumptions C06_patricia_put_preserves.
Print Assumptions C06_patricia_remove_preserves.
Print Assumptions C06_patricia_remove_pointers.
Print Assumptions C06_patricia_remove_relinked.
Print Assumptions C06_diffpos_spec.
Print Assumptions C06_bit_order_is_lexicographic.
Print Assumptions C06_patricia_bounded.
Print Assumptions C06_patricia_withprefix_refuted.
Print Assumptions C06_patricia_longestprefixof_refuted.
Print Assumptions C06_patricia_trailing_nul_refuted.
