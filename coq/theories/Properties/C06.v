(** C06 — tries are an ordered string map with prefix and pattern queries.
    Statements only.  [b_run b_new es] / [p_run p_new es] are the outputs of the binary-trie /
    Patricia model on the operation sequence [es]; [s_run [] es] those of the specification
    (Spec.v: lexicographically sorted association list, every query by its definition). *)
From Coq Require Import List NArith ZArith.
From Algo.C06 Require Import Spec Model ModelPat.
Import ListNotations.

Local Notation a := 97%N.
Local Notation b := 98%N.
Local Notation c := 99%N.
Local Notation x := 120%N.
Local Notation z := 122%N.

(** Non-vacuity: deletes of prefixes/extensions, absent arguments, high bytes. *)
Example C06_example_binary :
  let es := [EPut [a;b] 1%Z; EPut [a] 2%Z; EPut [233%N] 3%Z; EDelete [a;b]; EDelete [a;b]; EGet [a]; ESize;
             ERank [b]; EWithPrefix [a]; ELongestPrefixOf [a;b;c]; EMatch [star]; EDeleteMax; EAll] in
  b_run b_new es = s_run [] es.
Proof. vm_compute. reflexivity. Qed.

Example C06_example_patricia :
  let es := [EPut [a;b] 1%Z; EPut [a] 2%Z; EPut [233%N] 3%Z; EDelete [a;b]; EDelete [a;b]; EGet [a]; ESize;
             ERank [b]; EMatch [star]; EDeleteMax; EAll; EDeleteMin; EMin] in
  p_run p_new es = s_run [] es.
Proof. vm_compute. reflexivity. Qed.

(** Known findings: the faithful Patricia model refutes the property on WithPrefix, LongestPrefixOf
    and on keys that are equal up to trailing 0x00 bytes (witnesses replayed from corpus/C06). *)
Theorem C06_patricia_withprefix_refuted :
  exists es : list (ev Z), Forall ev_valid es /\ p_run p_new es <> s_run [] es.
Proof.
  exists [EPut [a] 1%Z; EPut [a;b] 2%Z; EPut [a;c] 3%Z; EPut [b] 4%Z; EWithPrefix [a]].
  split; [repeat constructor; discriminate | vm_compute; discriminate].
Qed.

Theorem C06_patricia_longestprefixof_refuted :
  exists es : list (ev Z), Forall ev_valid es /\ p_run p_new es <> s_run [] es.
Proof.
  exists [EPut [a] 1%Z; EPut [a;b;z] 2%Z; ELongestPrefixOf [a;b;c]].
  split; [repeat constructor; discriminate | vm_compute; discriminate].
Qed.

Theorem C06_patricia_trailing_nul_refuted :
  exists es : list (ev Z), Forall ev_valid es /\
    nth 1 (p_run p_new es) OUnit = OPanic /\ p_run p_new es <> s_run [] es.
Proof.
  exists [EPut [a] 1%Z; EPut [a;0%N] 2%Z].
  split; [repeat constructor; discriminate | split; vm_compute; [reflexivity | discriminate]].
Qed.

Print Assumptions C06_patricia_withprefix_refuted.
Print Assumptions C06_patricia_longestprefixof_refuted.
Print Assumptions C06_patricia_trailing_nul_refuted.
