(** C06 — tries are an ordered string map with prefix and pattern queries.
    Statements only; proofs live in C06/*.v.

    [ev V] are the operations (mutators Put/Delete/DeleteMin/DeleteMax/DeleteAll and every query),
    [out V] what they return.  [b_run b_new es] / [p_run p_new es] are the outputs of the binary-trie /
    Patricia model (transcriptions of trie/binary.go and trie/patricia.go) on the operation sequence
    [es]; [s_run [] es] those of the specification (Spec.v): a lexicographically sorted association
    list on which every query is its definition (filter / first / last / nth / length).
    [ev_valid] excludes only the empty key in Put/Get/Delete (the property is about non-empty keys;
    query arguments may be empty). *)
From Coq Require Import List NArith ZArith Lia.
From Algo.C06 Require Import Spec SpecFacts Model ModelPat ProofsBin ProofsBinQ ProofsBinMain PatSweep PatInv PatBits PatTree PatMatch PatDel PatPut PatRem PatRemH.
Import ListNotations.

Local Notation a := 97%N.
Local Notation b := 98%N.
Local Notation c := 99%N.
Local Notation z := 122%N.

(** * Binary trie: full refinement, every history, every query, present or absent arguments *)

(** After any sequence of operations on non-empty keys the binary trie returns, operation by
    operation, exactly what the abstract sorted map returns: Size, Get, Min, Max, Floor, Ceiling,
    Select, Rank, Range, RangeSize, All (ascending), WithPrefix, LongestPrefixOf, Match, and the
    results of Delete, DeleteMin, DeleteMax.  No operation panics. *)
Theorem C06_refines_binary :
  forall (V : Type) (es : list (ev V)), Forall ev_valid es -> b_run b_new es = s_run [] es.
Proof. intros. now apply binary_refines. Qed.

(** The structural invariant behind it: sibling chains strictly increasing and no non-terminal leaf
    ([wfb]), size = number of terminal nodes, and the terminal nodes in pre-order are the abstract
    map, which is strictly sorted. *)
Theorem C06_binary_invariant :
  forall (V : Type) (es : list (ev V)), Forall ev_valid es ->
    let t := b_exec b_new es in
    wfb None (broot t) /\ bsize t = Z.of_nat (count_terms (broot t)) /\
    contents (broot t) = s_exec [] es /\ sorted (s_exec [] es).
Proof. intros. now apply binary_invariant. Qed.

(** * What the specification's definitions mean *)

(** the abstract map is a map: Get after Put / Delete *)
Theorem C06_spec_get_put : forall (V : Type) k (v : V) k' (m : smap V),
  sget k' (sput k v m) = if keqb k' k then Some v else sget k' m.
Proof. intros. apply sget_sput. Qed.

(** deleting a key removes that key only; deleting an absent key changes nothing *)
Theorem C06_spec_get_delete : forall (V : Type) k k' (m : smap V), sorted m ->
  sget k' (sdel k m) = if keqb k' k then None else sget k' m.
Proof. intros. now apply sget_sdel. Qed.

Theorem C06_spec_delete_absent : forall (V : Type) k (m : smap V), sget k m = None -> sdel k m = m.
Proof. intros. apply sdel_notin. now apply sget_none_inv. Qed.

(** WithPrefix(p): exactly the held keys starting with p *)
Theorem C06_spec_withprefix : forall (V : Type) p (m : smap V) k v,
  In (k, v) (s_withprefix p m) <-> In (k, v) m /\ exists s, k = p ++ s.
Proof. intros. apply s_withprefix_spec. Qed.

(** LongestPrefixOf(s): a held prefix of s that no held prefix of s exceeds in length; none iff no
    held key is a prefix of s *)
Theorem C06_spec_longestprefixof : forall (V : Type) s (m : smap V), sorted m ->
  match s_longestprefix s m with
  | Some (k, v) =>
      In (k, v) m /\ is_prefix k s = true /\
      forall k' v', In (k', v') m -> is_prefix k' s = true -> (length k' <= length k)%nat
  | None => forall k' v', In (k', v') m -> is_prefix k' s = false
  end.
Proof. intros. now apply s_longestprefix_spec. Qed.

(** Match(pat): exactly the held keys of the pattern's length that agree with it wherever it is not '*' *)
Theorem C06_spec_match : forall (V : Type) pat (m : smap V) k v,
  In (k, v) (s_match pat m) <->
  In (k, v) m /\ length pat = length k /\
  forall i, (i < length pat)%nat -> nth i pat 0%N = star \/ nth i pat 0%N = nth i k 0%N.
Proof. intros. apply s_match_spec. Qed.

(** Floor / Ceiling: greatest held key <= k / least held key >= k *)
Theorem C06_spec_floor : forall (V : Type) k (m : smap V), sorted m ->
  match s_floor k m with
  | Some (k0, v) => In (k0, v) m /\ kleb k0 k = true /\
                    forall k' v', In (k', v') m -> kleb k' k = true -> kleb k' k0 = true
  | None => forall k' v', In (k', v') m -> kleb k' k = false
  end.
Proof. intros. now apply s_floor_spec. Qed.

Theorem C06_spec_ceiling : forall (V : Type) k (m : smap V), sorted m ->
  match s_ceiling k m with
  | Some (k0, v) => In (k0, v) m /\ kleb k k0 = true /\
                    forall k' v', In (k', v') m -> kleb k k' = true -> kleb k0 k' = true
  | None => forall k' v', In (k', v') m -> kleb k k' = false
  end.
Proof. intros. now apply s_ceiling_spec. Qed.

(** Non-vacuity: deletes of prefixes/extensions, absent arguments, high bytes. *)
Example C06_example_binary :
  let es := [EPut [a;b] 1%Z; EPut [a] 2%Z; EPut [233%N] 3%Z; EDelete [a;b]; EDelete [a;b]; EGet [a]; ESize;
             ERank [b]; EWithPrefix [a]; ELongestPrefixOf [a;b;c]; EMatch [star]; EDeleteMax; EAll] in
  b_run b_new es =
  [OUnit; OUnit; OUnit; OVal (Some 1%Z); OVal None; OVal (Some 2%Z); ONum 2%Z; ONum 1%Z; OList [([a], 2%Z)];
   OKV (Some ([a], 2%Z)); OList [([a], 2%Z); ([233%N], 3%Z)]; OKV (Some ([233%N], 3%Z)); OList [([a], 2%Z)]].
Proof. vm_compute. reflexivity. Qed.

(** * Patricia trie *)

(** The full statement.  It is NOT proved, and it is false for the code as it is: see the three
    refutations below (recorded as known findings).  What holds today for the Patricia trie rests on
    the correspondence only: the extracted model [p_step] is replayed against trie/patricia.go on every
    run including structure dumps, and both are compared with the specification on every operation;
    outside the three recorded shapes no difference is tolerated. *)
Definition C06_refines_patricia_full : Prop :=
  forall (V : Type) (es : list (ev V)), Forall ev_valid es -> p_run p_new es = s_run [] es.

Example C06_example_patricia :
  let es := [EPut [a;b] 1%Z; EPut [a] 2%Z; EPut [233%N] 3%Z; EDelete [a;b]; EDelete [a;b]; EGet [a]; ESize;
             ERank [b]; EMatch [star]; EDeleteMax; EAll; EDeleteMin; EMin] in
  p_run p_new es = s_run [] es.
Proof. vm_compute. reflexivity. Qed.

(** Proved part 1 (universal over states): in every state [t] of the Patricia model that passes the
    executable structural check [p_inv_check] (the threads unfold into a tree in which every key below
    the left/right link of a node has bit 0/1 at the node's bit position, the keys in thread order are
    strictly increasing, size = number of threads), the queries Get, Size, Min, Max, Floor, Ceiling,
    Select, Rank, Range, RangeSize and All — with present or absent arguments — return exactly what the
    specification returns on the state's contents, and neither panic nor run out of fuel.
    Not proved: that Put/Delete/DeleteMin/DeleteMax lead from a checked state to a checked state with
    the specification's contents; the driver evaluates [p_inv_check] on the model after every mutator
    of every replayed case and compares All() with the specification (correspondence).  Match is
    covered by C06_patricia_match_checked below. *)
Theorem C06_patricia_queries_checked_partial :
  forall (V : Type) (t : pstate V) (e : ev V), p_inv_check t = true -> checked_query e ->
    p_step t e = (t, snd (s_step (p_contents t) e)).
Proof. intros. now apply p_step_checked. Qed.

(** Proved part 1b (universal, unbounded histories without deletes): Put preserves the logical
    invariant [PInv] (the threads unfold into a tree with distinct inner nodes; side bits and prefix
    agreement at every node; representable keys; size) and has exactly the specification's effect on
    the contents; [PInv] implies [p_inv_check].  A key is representable ([kvalid]) when it is non-empty,
    its bytes are below 256 and it does not end in 0x00 — exactly the domain outside the recorded
    trailing-NUL finding.  Consequently, for EVERY history of Put (representable keys) and of the
    queries Get, Size, Min, Max, Floor, Ceiling, Select, Rank, Range, RangeSize, All and Match (any
    arguments, any pattern), the Patricia model returns what the specification returns, never panics and never runs out of fuel.
    Still resting on the correspondence and the bounded sweep: Delete / DeleteMin / DeleteMax (the
    four-pointer remove). *)
Theorem C06_patricia_put_partial :
  forall (V : Type) (t : pstate V) k (v : V), PInv t -> kvalid k ->
    exists t', p_put t k v = ROk t' /\ PInv t' /\ p_inv_check t' = true /\
               p_contents t' = sput k v (p_contents t).
Proof.
  intros V t k v I KV. destruct (p_put_preserves t k v I KV) as [t' [P [I' C]]].
  exists t'. repeat split; auto. now apply PInv_check.
Qed.

(** Match in every checked state: the pattern-directed descent misses no matching key *)
Theorem C06_patricia_match_checked :
  forall (V : Type) (t : pstate V) pat, p_inv_check t = true ->
    p_match t pat = ROk (s_match pat (p_contents t)).
Proof. intros. now apply p_match_correct. Qed.

Theorem C06_refines_patricia_noDelete :
  forall (V : Type) (es : list (ev V)), Forall nd_event es -> p_run p_new es = s_run [] es.
Proof. intros. now apply patricia_refines_noDelete. Qed.

(** Deleting a key that is not held changes nothing and answers "not found" (every checked state,
    any key) — the part of the property's last sentence that does not need the four-pointer remove. *)
Theorem C06_patricia_delete_absent :
  forall (V : Type) (t : pstate V) k, p_inv_check t = true -> sget k (p_contents t) = None ->
    p_delete t k = ROk (t, None).
Proof. intros. now apply p_delete_absent. Qed.

(** The strongest history theorem proved for the Patricia trie: every history in which
    - Put uses representable keys,
    - every Delete is of a key that is absent at that moment, or the map holds exactly one key
      (then the key may be the held one: removal of the last key is proved),
    - DeleteMin / DeleteMax occur when the map holds at most one key, DeleteAll anywhere,
    - queries are Get, Size, Min, Max, Floor, Ceiling, Select, Rank, Range, RangeSize, All, Match,
    returns exactly the specification's outputs.  Missing for [C06_refines_patricia_full] on the
    domain [kvalid]: removal of a held key from a map with two or more keys (Delete / DeleteMin /
    DeleteMax through the re-linking cases of [p_remove]). *)
Theorem C06_refines_patricia_partial :
  forall (V : Type) (es : list (ev V)), ok_hist [] es -> p_run p_new es = s_run [] es.
Proof. intros. now apply patricia_refines_partial. Qed.

(** Intermediate results towards the removal of a held key from a map with two or more keys
    (not closed): Put keeps the ownership facts the re-linking cases of remove rely on (every inner
    node's own thread lies in its own subtree, one thread per key, the root's thread exists), and in
    a checked state the descents of Delete / DeleteMin / DeleteMax hand [p_remove] exactly the
    target, the referrer, the referrer's predecessor and the target's predecessor of the unfolded
    tree ([tsd], [referrer], [nparent]). *)
Theorem C06_patricia_put_keeps_ownership :
  forall (V : Type) (t : pstate V) k (v : V), POwn t -> kvalid k ->
    exists t', p_put t k v = ROk t' /\ POwn t' /\ p_contents t' = sput k v (p_contents t).
Proof. intros. now apply p_put_preserves_own. Qed.

Theorem C06_patricia_remove_pointers :
  forall (V : Type) (t : pstate V) r0 rn c T d check, pinv t r0 rn c T ->
    p_delete_dir t r0 d check =
      (let h := pheap t in
       let n := tsd h d T in
       let (rp, r) := referrer h d T r0 r0 in
       nn <- hget h n ;;
       if check nn then
         t' <- p_remove t r0 n r rp (nparent h d n T r0) ;; ROk (t', Some (n_key nn, n_val nn))
       else ROk (t, None)).
Proof. intros V t r0 rn c T d check I. exact (p_delete_dir_pointers t r0 rn c T d check I). Qed.

(** The re-linking cases of remove, up to the three heap writes.  [tdel] is the tree transformer of
    a removal (the last inner node [r] of the path is replaced by its other child; the inner node
    [n] — the target, an ancestor of [r], or the root — hands its position to [r]).
    [relinked h H' kk n r rp np co] says that heap [H'] implements the re-linking on [h]: every node
    other than [r] keeps its bit position and its links, except that [rp]'s link to [r] leads to
    [r]'s other child [co], [np]'s link to [n] leads to [r], and node [r] carries [n]'s record
    (keys and values stay with their nodes).  For every such [H'] the state after the removal has
    the new root record, represents [tdel T], keeps ownership, distinct threads and inner nodes and
    the bit invariant, and its threads are those of [T] without [n] (so its contents are the
    specification's [sdel]).  NOT proved: that the heap computed by [p_remove] (three writes with
    aliasing between n, r, rp, np) satisfies [relinked]; removal of a held key from a trie with two or
    more keys therefore still rests on the bounded sweep and the correspondence. *)
Theorem C06_patricia_remove_relinked_partial :
  forall (V : Type) (h H' : list (pnode V)) kk n r rp np co r0 rn0 c0 T,
    relinked h H' kk n r rp np co ->
    nth_error h r0 = Some rn0 -> n_bp rn0 = 0%Z -> n_left rn0 = Some c0 -> n_right rn0 = None ->
    Rep h 0 c0 T -> is_leaf T = false ->
    NoDup (inners T) -> NoDup (leaves T) -> owns T -> tbits (nbp h) (nkey h) T -> In r0 (leaves T) ->
    ts (nbp h) kk T = n -> referrer h (ByKey kk) T r0 r0 = (rp, r) ->
    (In n (inners T) -> nparent h (ByKey kk) n T r0 = np) -> (~ In n (inners T) -> np = r) ->
    let T' := tdel (nbp h) kk n r T in
    let root' := rho n r r0 in
    exists rn0', nth_error H' root' = Some rn0' /\ n_bp rn0' = 0%Z /\
      n_left rn0' = Some (newlink h kk n r co T c0) /\ n_right rn0' = None /\
      Rep H' 0 (newlink h kk n r co T c0) T' /\ owns T' /\ NoDup (leaves T') /\ NoDup (inners T') /\
      In root' (leaves T') /\ tbits (nbp H') (nkey H') T' /\
      (forall j, In j (leaves T') <-> In j (leaves T) /\ j <> n) /\
      (forall j, In j (leaves T') -> nkey H' j = nkey h j).
Proof. intros V. exact (@remove_relinked V). Qed.

(** the bit-level facts behind it: DiffPos and the order of the zero padded bit strings *)
Theorem C06_diffpos_spec : forall x y, kvalid x -> kvalid y -> x <> y ->
  (1 <= diffpos x y)%Z /\
  (forall pos, (1 <= pos < diffpos x y)%Z -> pbit x pos = pbit y pos) /\
  pbit x (diffpos x y) <> pbit y (diffpos x y).
Proof. intros. now apply diffpos_valid. Qed.

Theorem C06_bit_order_is_lexicographic : forall x y b, bytes_ok x -> bytes_ok y -> (1 <= b)%Z ->
  (forall pos, (1 <= pos < b)%Z -> pbit x pos = pbit y pos) -> pbit x b = false -> pbit y b = true -> klt x y.
Proof. intros. now apply (lex_of_bits x y b). Qed.

Example C06_example_patricia_noDelete :
  Forall (@nd_event Z) [EPut [a;b] 1%Z; EPut [a] 2%Z; EPut [233%N] 3%Z; EPut [a;b] 4%Z; EGet [a;b]; ERank [b]; EMatch [star; b]; EAll].
Proof. repeat constructor; simpl; try discriminate; try lia. Qed.

(** Proved part 2 (finite, kernel-checked by vm_compute, deletes included): every history of at most 4
    mutators (Put/Delete of 5 keys with dense prefix relations, a high byte and a '*', DeleteMin,
    DeleteMax, DeleteAll: 30941 histories) followed by 96 queries (Size, All, Min, Max, Get / Floor /
    Ceiling / Rank of 13 present and absent arguments, Select -1..5, Range, RangeSize, Match with 0-3
    wildcards; not WithPrefix / LongestPrefixOf) returns what the specification returns.
    Missing for the full statement: the proof for unbounded histories (invariant: bit positions
    increase along downward links, every upward link targets the node whose key follows the path
    bits; the four-pointer [remove]) — these rest on the correspondence alone. *)
Theorem C06_patricia_bounded_partial :
  forall h, In h (sweep_histories 4 1) ->
    p_run p_new (h ++ sweep_battery) = s_run [] (h ++ sweep_battery).
Proof. exact patricia_bounded. Qed.

(** Known findings: the faithful Patricia model refutes the property on WithPrefix, LongestPrefixOf
    and on keys that are equal up to trailing 0x00 bytes (witnesses replayed from corpus/C06). *)
Theorem C06_patricia_withprefix_refuted :
  exists es : list (ev Z), Forall ev_valid es /\ p_run p_new es <> s_run [] es.
Proof.
  exists [EPut [a] 1%Z; EPut [a;b] 2%Z; EPut [a;c] 3%Z; EPut [b] 4%Z; EWithPrefix [a]].
  split; [repeat constructor; discriminate | vm_compute; discriminate].
Qed.

Theorem C06_patricia_longestprefixof_refuted :
  exists es : list (ev Z), Forall ev_valid es /\ p_run p_new es <> s_run [] es.
Proof.
  exists [EPut [a] 1%Z; EPut [a;b;z] 2%Z; ELongestPrefixOf [a;b;c]].
  split; [repeat constructor; discriminate | vm_compute; discriminate].
Qed.

Theorem C06_patricia_trailing_nul_refuted :
  exists es : list (ev Z), Forall ev_valid es /\
    nth 1 (p_run p_new es) OUnit = OPanic /\ p_run p_new es <> s_run [] es.
Proof.
  exists [EPut [a] 1%Z; EPut [a;0%N] 2%Z].
  split; [repeat constructor; discriminate | split; vm_compute; [reflexivity | discriminate]].
Qed.

Print Assumptions C06_refines_binary.
Print Assumptions C06_binary_invariant.
Print Assumptions C06_spec_get_put.
Print Assumptions C06_spec_get_delete.
Print Assumptions C06_spec_delete_absent.
Print Assumptions C06_spec_withprefix.
Print Assumptions C06_spec_longestprefixof.
Print Assumptions C06_spec_match.
Print Assumptions C06_spec_floor.
Print Assumptions C06_spec_ceiling.
Print Assumptions C06_patricia_queries_checked_partial.
Print Assumptions C06_patricia_put_partial.
Print Assumptions C06_patricia_match_checked.
Print Assumptions C06_refines_patricia_noDelete.
Print Assumptions C06_patricia_delete_absent.
Print Assumptions C06_refines_patricia_partial.
Print Assumptions C06_patricia_put_keeps_ownership.
Print Assumptions C06_patricia_remove_pointers.
Print Assumptions C06_patricia_remove_relinked_partial.
Print Assumptions C06_diffpos_spec.
Print Assumptions C06_bit_order_is_lexicographic.
Print Assumptions C06_patricia_bounded_partial.
Print Assumptions C06_patricia_withprefix_refuted.
Print Assumptions C06_patricia_longestprefixof_refuted.
Print Assumptions C06_patricia_trailing_nul_refuted.
