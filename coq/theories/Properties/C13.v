(** C13 — automata conversions and combinators compute the intended regular languages.
    Statements only; proofs live in C13/Proofs*.v. *)
From Coq Require Import ZArith List Bool.
From Algo.C13 Require Import Model Spec Lemmas ProofsNFA ProofsDFA ProofsSM ProofsUnion ProofsStar ProofsSubset ProofsSubsetTerm ProofsElim ProofsMinQuot ProofsMinRound ProofsReindex ProofsCombine ProofsMinimal ProofsMinTerm ProofsIso ProofsIsoNFA ProofsConcat ProofsTrim.
Import ListNotations.
Open Scope Z_scope.

(** Domain.  [nwf]/[dwf]: the transition tables are keyed in strictly increasing order ([nsorted]: the
    target sets too) — true of
    everything built through NewNFA/NewDFA + Add ([C13_constructible]) and of every result.
    [word_ok]: input words do not contain ε (symbol 0).  [dfa_ok]: state ids are non-negative
    (DFA.Next reserves -1 for "no transition").  [dfa_noeps]: no DFA transition is labelled 0. *)
Theorem C13_constructible :
  (forall start final adds, nwf (nbuild start final adds) /\ nsorted (nbuild start final adds) /\
                            NoDup (nfinal (nbuild start final adds))) /\
  (forall start final adds, dwf (dbuild start final adds) /\ NoDup (dfinal (dbuild start final adds))).
Proof.
  split; intros.
  - split; [apply nwf_nbuild|]. split; [apply nsorted_nbuild | apply nbuild_final_nodup].
  - split; [apply dwf_dbuild | apply dbuild_final_nodup].
Qed.

(** Queries never change later answers: the model's automata are immutable values and every
    query / conversion below is a pure function of them, so "inspect (Symbols, States, Accept,
    ToDFA, Isomorphic ...) in the middle of the construction, keep adding, then convert" is
    literally the same term as "build, then convert" — there is no state to state a theorem
    about.  On the Go side this independence is checked by the interleaved-construction cases of
    the harness (Q<mask> entries in a case header), which the driver skips for that reason.
    Likewise a result never shares state with its operands in the model (Clone, ToDFA, Union ...
    return new values); on the Go side the `alias <op>` probes extend one side and re-read the
    other, expecting no change. *)

(** NFA.Accept (ε-closure worklist + move) terminates on every automaton and word and decides the
    path language: w is accepted iff some path labelled w (ε-moves interleaved) leads from the
    start state to a final state. *)
Theorem C13_accept_nfa : forall (n : nfa) (w : list Z), word_ok w ->
  exists b, naccept n w = Ok b /\ (b = true <-> nlang n w).
Proof. exact naccept_ok. Qed.

(** DFA.Accept decides the run language. *)
Theorem C13_accept_dfa : forall (d : dfa) (w : list Z), dfa_ok d -> (daccept d w = true <-> dlang d w).
Proof. exact daccept_ok. Qed.

(** Clone accepts w iff the original does. *)
Theorem C13_clone_nfa : forall (n : nfa) (w : list Z), nwf n -> word_ok w -> naccept (nclone n) w = naccept n w.
Proof. exact nclone_accept. Qed.

Theorem C13_clone_dfa : forall (d : dfa) (w : list Z), dwf d -> daccept (dclone d) w = daccept d w.
Proof. exact dclone_accept. Qed.

(** ToNFA accepts w iff the DFA does. *)
Theorem C13_tonfa : forall (d : dfa) (w : list Z), dwf d -> dfa_ok d -> dfa_noeps d -> word_ok w ->
  naccept (tonfa d) w = Ok (daccept d w).
Proof. exact tonfa_accept. Qed.

(** ToDFA (subset construction) terminates on every NFA, and the DFA accepts w iff the NFA does;
    the result is again in the domain of the DFA theorems. *)
Theorem C13_todfa : forall (n : nfa),
  exists D, todfa n = Ok D /\ dfa_ok D /\ dwf D /\ dfa_noeps D /\
            forall w, word_ok w -> naccept n w = Ok (daccept D w).
Proof. exact todfa_total_accept. Qed.

(** EliminateDeadStates terminates and accepts w iff the original does; the result stays in the
    domain and only drops transitions. *)
Theorem C13_eliminate_dead_states : forall (d : dfa), dwf d -> dfa_ok d ->
  exists r, elim_dead d = Ok r /\ dwf r /\ dfa_ok r /\ dstart r = dstart d /\ dfinal r = dfinal d /\
            (forall s a t, dedge r s a t -> dedge d s a t) /\
            forall w, daccept r w = daccept d w.
Proof. exact elim_dead_ok. Qed.

(** Minimize terminates (the refinement loop stops within its fuel) and accepts w iff the original
    does.  [NoDup (dfinal d)] holds for every DFA built through NewDFA ([C13_constructible]). *)
Theorem C13_minimize : forall (d : dfa), dwf d -> dfa_ok d -> NoDup (dfinal d) ->
  exists m, minimize d = Ok m /\ dwf m /\ dfa_ok m /\ forall w, daccept m w = daccept d w.
Proof. exact minimize_ok. Qed.

(** Minimize of a DFA without unreachable or dead states has the fewest states of any DFA
    accepting the same language (any state numbering, partial or total). *)
Theorem C13_minimal : forall (d m : dfa), dwf d -> dfa_ok d ->
  (forall x, In x (dstates d) -> exists u, dpath d (dstart d) u x) ->
  (forall x, In x (dstates d) -> exists w, smem (drun d x w) (dfinal d) = true) ->
  minimize d = Ok m ->
  forall D', dfa_ok D' -> (forall w, daccept D' w = daccept d w) ->
    (length (dstates m) <= length (dstates D'))%nat.
Proof. exact minimize_minimal. Qed.

(** The same with the executable precondition [dtrim] that the correspondence check evaluates
    before comparing the state count of the Go result with the Myhill–Nerode count. *)
Theorem C13_minimal_trim : forall (d m : dfa), dwf d -> dfa_ok d -> dtrim d = true -> minimize d = Ok m ->
  forall D', dfa_ok D' -> (forall w, daccept D' w = daccept d w) ->
    (length (dstates m) <= length (dstates D'))%nat.
Proof. exact minimize_minimal_trim. Qed.

(** ReindexStates terminates and accepts w iff the original does. *)
Theorem C13_reindex_states : forall (d : dfa), dwf d -> dfa_ok d ->
  exists r, reindex d = Ok r /\ dwf r /\ dfa_ok r /\ forall w, daccept r w = daccept d w.
Proof. exact reindex_ok. Qed.

(** CombineDFA terminates, accepts the union of the operand languages, and its final-state map is
    exact: after reading w the combined DFA is in a state of finalMap[k] iff operand k accepts w. *)
Theorem C13_combine_dfa : forall (dl : list dfa), Forall (fun d => dwf d /\ dfa_ok d /\ dfa_noeps d) dl ->
  exists R fm, combine_dfa dl = Ok (R, fm) /\ dwf R /\ dfa_ok R /\ length fm = length dl /\
    forall w, word_ok w ->
      daccept R w = existsb (fun d => daccept d w) dl /\
      forall k d, nth_error dl k = Some d ->
        exists fk, nth_error fm k = Some fk /\ (In (drun R (dstart R) w) fk <-> daccept d w = true).
Proof. exact combine_ok. Qed.

(** Isomorphic (after the repair of D13b) is true for a DFA and its copy renamed by any map that
    is injective on its states — onto any id set, contiguous or not. *)
Theorem C13_iso_dfa : forall (d : dfa) (f : Z -> Z), dwf d -> NoDup (dfinal d) ->
  (forall x y, In x (dstates d) -> In y (dstates d) -> f x = f y -> x = y) ->
  disomorphic d (dpermute d f) = true.
Proof. exact disomorphic_renamed. Qed.

Theorem C13_iso_nfa : forall (n : nfa) (f : Z -> Z), nwf n -> nsorted n -> NoDup (nfinal n) ->
  (forall x y, In x (nstates n) -> In y (nstates n) -> f x = f y -> x = y) ->
  nisomorphic n (npermute n f) = true.
Proof. exact nisomorphic_renamed. Qed.

(** Union (receiver first) accepts exactly the union of the operand languages. *)
Theorem C13_union : forall (ns : list nfa) (w : list Z), Forall nwf ns -> word_ok w ->
  exists b, naccept (nunion ns) w = Ok b /\ (b = true <-> exists n, In n ns /\ naccept n w = Ok true).
Proof. exact nunion_accept. Qed.

(** Star accepts exactly the Kleene closure of the language accepted by the operand. *)
Theorem C13_star : forall (n : nfa) (w : list Z), nwf n -> word_ok w ->
  exists b, naccept (nstar n) w = Ok b /\ (b = true <-> l_star (fun u => naccept n u = Ok true) w).
Proof. exact nstar_accept. Qed.

(** Concat.  The property as written ("Concat accepts exactly the concatenation", for all
    operands) is refuted by the faithful model — D13a, a known finding of /repo:
    [C13_concat_refuted] (language lost when the first operand's start state is accepting) and
    [C13_concat_overaccepts_refuted] (over-acceptance when a final state of an operand has an
    outgoing transition and the next operand's start state an incoming one). *)
Definition C13_concat_full : Prop := forall (ns : list nfa) (w : list Z), Forall nwf ns -> word_ok w ->
  exists b, naccept (nconcat ns) w = Ok b /\
            (b = true <-> l_concat (map (fun n u => naccept n u = Ok true) ns) w).

(** Proved: on the complement of the D13a signature — no operand has an accepting start state, and
    no operand with a transition into its start state follows an operand with a transition out
    of a final state ([csafe True ns]) — Concat accepts exactly the concatenation. *)
Theorem C13_concat_partial : forall (ns : list nfa) (w : list Z), Forall nwf ns -> csafe True ns -> word_ok w ->
  exists b, naccept (nconcat ns) w = Ok b /\
            (b = true <-> l_concat (map (fun n u => naccept n u = Ok true) ns) w).
Proof. exact nconcat_accept. Qed.

Theorem C13_concat_refuted :
  exists (A B : nfa) (u v : list Z),
    naccept A u = Ok true /\ naccept B v = Ok true /\ naccept (nconcat [A; B]) (u ++ v) = Ok false.
Proof.
  exists (nbuild 0 [0] [((0, 97), [0])]), (nbuild 0 [1] [((0, 98), [1])]), [], [98].
  vm_compute. repeat split; reflexivity.
Qed.

Theorem C13_concat_overaccepts_refuted :
  exists (A B : nfa) (w : list Z),
    naccept (nconcat [A; B]) w = Ok true /\
    forall u v, w = u ++ v -> naccept A u = Ok true -> naccept B v = Ok false.
Proof.
  exists (nbuild 0 [1] [((0, 97), [1]); ((1, 97), [1])]),
         (nbuild 0 [1] [((0, 98), [1]); ((1, 97), [0])]), [97; 98; 97; 97; 98].
  split; [vm_compute; reflexivity|].
  intros u v H. 
  destruct u as [|a0 [|a1 [|a2 [|a3 [|a4 [|a5 u]]]]]]; simpl in H; inversion H; subst;
    try (vm_compute; intros; congruence); try reflexivity.
  all: try (destruct u; discriminate).
Qed.

(** Non-vacuity: the Dragon-book NFA for (a|b)*abb, its subset construction and minimisation. *)
Example C13_example :
  let n := nbuild 0 [10] [((0,0),[1;7]); ((1,0),[2;4]); ((2,97),[3]); ((3,0),[6]); ((4,98),[5]);
                          ((5,0),[6]); ((6,0),[1;7]); ((7,97),[8]); ((8,98),[9]); ((9,98),[10])] in
  naccept n [97;98;98] = Ok true /\ naccept n [97;98] = Ok false /\
  (exists d m, todfa n = Ok d /\ minimize d = Ok m /\ length (dstates d) = 5%nat /\ length (dstates m) = 4%nat
               /\ daccept m [98;97;97;98;98] = true /\ daccept m [98;97;98] = false).
Proof.
  vm_compute. repeat split; try reflexivity. eexists. eexists. repeat split; reflexivity.
Qed.

(** The side conditions are needed: a DFA that uses the reserved id -1 as a (final) state, or labels
    a transition with 0 (= ε), is not equivalent to its ToNFA image. *)
Example C13_domain_is_tight :
  (let d := dbuild 0 [-1] [] in daccept d [97] = true /\ naccept (tonfa d) [97] = Ok false) /\
  (let d := dbuild 0 [1] [((0, 0), 1)] in daccept d [] = false /\ naccept (tonfa d) [] = Ok true).
Proof. vm_compute. repeat split; reflexivity. Qed.

Print Assumptions C13_constructible.
Print Assumptions C13_accept_nfa.
Print Assumptions C13_accept_dfa.
Print Assumptions C13_clone_nfa.
Print Assumptions C13_clone_dfa.
Print Assumptions C13_tonfa.
Print Assumptions C13_todfa.
Print Assumptions C13_eliminate_dead_states.
Print Assumptions C13_minimize.
Print Assumptions C13_minimal.
Print Assumptions C13_minimal_trim.
Print Assumptions C13_reindex_states.
Print Assumptions C13_combine_dfa.
Print Assumptions C13_iso_dfa.
Print Assumptions C13_iso_nfa.
Print Assumptions C13_union.
Print Assumptions C13_star.
Print Assumptions C13_concat_partial.
Print Assumptions C13_concat_refuted.
Print Assumptions C13_concat_overaccepts_refuted.
