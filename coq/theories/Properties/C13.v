(** C13 — automata conversions and combinators compute the intended regular languages.
    Statements only; proofs live in C13/Proofs*.v. *)
From Coq Require Import ZArith List Bool.
From Algo.C13 Require Import Model Spec.
Import ListNotations.
Open Scope Z_scope.

(** D13a (known finding): NFA.Concat as written loses the language when the first operand's
    start state is accepting ([a*·b] rejects [b]) and over-accepts when a final state of the
    first operand has an outgoing transition and the second operand's start state an incoming one
    ([a+·b(ab)*] accepts [abaab]). *)
Theorem C13_concat_refuted :
  exists (A B : nfa) (u v : list Z),
    naccept A u = Ok true /\ naccept B v = Ok true /\ naccept (nconcat [A; B]) (u ++ v) = Ok false.
Proof.
  exists (nbuild 0 [0] [((0, 97), [0])]), (nbuild 0 [1] [((0, 98), [1])]), [], [98].
  vm_compute. repeat split; reflexivity.
Qed.

Theorem C13_concat_overaccepts_refuted :
  exists (A B : nfa) (w : list Z),
    naccept (nconcat [A; B]) w = Ok true /\
    forall u v, w = u ++ v -> naccept A u = Ok true -> naccept B v = Ok false.
Proof.
  exists (nbuild 0 [1] [((0, 97), [1]); ((1, 97), [1])]),
         (nbuild 0 [1] [((0, 98), [1]); ((1, 97), [0])]), [97; 98; 97; 97; 98].
  split; [vm_compute; reflexivity|].
  intros u v H. 
  destruct u as [|a0 [|a1 [|a2 [|a3 [|a4 [|a5 u]]]]]]; simpl in H; inversion H; subst;
    try (vm_compute; intros; congruence); try reflexivity.
  all: try (destruct u; discriminate).
Qed.

(** Non-vacuity: the Dragon-book NFA for (a|b)*abb, its subset construction and minimisation. *)
Example C13_example :
  let n := nbuild 0 [10] [((0,0),[1;7]); ((1,0),[2;4]); ((2,97),[3]); ((3,0),[6]); ((4,98),[5]);
                          ((5,0),[6]); ((6,0),[1;7]); ((7,97),[8]); ((8,98),[9]); ((9,98),[10])] in
  naccept n [97;98;98] = Ok true /\ naccept n [97;98] = Ok false /\
  (exists d m, todfa n = Ok d /\ minimize d = Ok m /\ length (dstates d) = 5%nat /\ length (dstates m) = 4%nat
               /\ daccept m [98;97;97;98;98] = true /\ daccept m [98;97;98] = false).
Proof.
  vm_compute. repeat split; try reflexivity. eexists. eexists. repeat split; reflexivity.
Qed.

Print Assumptions C13_concat_refuted.
Print Assumptions C13_concat_overaccepts_refuted.
