(** C12 — the predictive parser accepts exactly L(G) for LL(1) grammars.
    Statements only; every proof is [exact]/[apply] of a lemma of C12/Proofs.v.

    Model (C12/Model.v, on top of the table of C10/Model.v): [Parse G fuel w] is the Go method
    [Parse] run on the token list [w] (token = (terminal, lexeme)) with callbacks that record the
    productions; [ParseAndBuildAST] is the Go method of the same name.  The stack loop runs on
    fuel: [PHang] means "not finished after [fuel] iterations", and by [C12_fuel_monotone] a
    finished run is the result for every larger fuel, so "the Go loop returns r" is
    "[Parse G O f w = r] for all large enough [f]".
    The table is built under an iteration oracle [O] (see C10); all theorems hold for every
    oracle that enumerates exactly the productions.
    [sentence G w] is [L G (map fst w)] of the shared base; [lm_derives G ps x y] says that
    applying the productions [ps] in order, each to the leftmost non-terminal, rewrites [x] to [y]. *)
From Coq Require Import List.
From Algo.C12 Require Import Model Spec Proofs.
Import ListNotations.

(** Soundness, for every grammar: if Parse returns no error then the whole token sequence is a
    sentence and the emitted productions are its leftmost derivation from the start symbol. *)
Theorem C12_sound :
  forall (G : gram) (O : oracle), oracle_ok G O -> forall (f : nat) (w : list token) (ps : list prod),
    Parse G O f w = PAccept ps ->
    lm_derives G ps [Nt (start G)] (map Tm (word w)) /\ sentence G w.
Proof. exact parse_sound. Qed.

(** Hence a string that is not a sentence is never accepted; in particular a proper prefix that
    is a sentence followed by further tokens is rejected (D12: the loop used to stop as soon as
    the endmarker was on top of the stack). *)
Theorem C12_rejects_extra_tokens :
  forall (G : gram) (O : oracle), oracle_ok G O -> forall (f : nat) (w extra : list token) (ps : list prod),
    ~ sentence G (w ++ extra) -> Parse G O f (w ++ extra) <> PAccept ps.
Proof. intros G O HO f w extra ps. now apply parse_rejects_non_sentences. Qed.

(** Completeness and termination on sentences: for a valid grammar whose table is conflict-free
    every sentence is accepted by every long enough run. *)
Theorem C12_complete :
  forall (G : gram) (O : oracle), oracle_ok G O -> valid G -> forall M : table, BuildParsingTable G O = Some (M, false) ->
    forall w, sentence G w -> exists f0, forall f, f0 <= f -> exists ps, Parse G O f w = PAccept ps.
Proof. exact parse_complete. Qed.

(** Parse returns no error iff the whole sequence is a sentence of G. *)
Theorem C12_accepts_exactly_L :
  forall (G : gram) (O : oracle), oracle_ok G O -> valid G -> forall M : table, BuildParsingTable G O = Some (M, false) ->
    forall w, (exists f ps, Parse G O f w = PAccept ps) <-> sentence G w.
Proof. exact parse_accept_iff. Qed.

(** ParseAndBuildAST gives the verdict of Parse, and on acceptance returns a tree whose yield
    (terminals with their lexemes, left to right) is the input. *)
Theorem C12_ast :
  forall (G : gram) (O : oracle) (f : nat) (w : list token),
    match Parse G O f w with
    | PAccept _ => exists t, ParseAndBuildAST G O f w = PAccept (Some t) /\ yield t = w
    | PReject e _ => ParseAndBuildAST G O f w = PReject e None
    | PTableError => ParseAndBuildAST G O f w = PTableError
    | PPanic => ParseAndBuildAST G O f w = PPanic
    | PHang => ParseAndBuildAST G O f w = PHang
    end.
Proof. exact ast_verdict. Qed.

Theorem C12_ast_yield :
  forall (G : gram) (O : oracle) (f : nat) (w : list token) (r : option tree),
    ParseAndBuildAST G O f w = PAccept r -> exists t, r = Some t /\ yield t = w.
Proof. exact ast_sound. Qed.

(** The loop never dereferences a nil production (GetProduction on a non-empty cell). *)
Theorem C12_no_panic :
  forall (G : gram) (O : oracle), oracle_ok G O -> valid G -> forall M : table, BuildParsingTable G O = Some (M, false) ->
    forall f w, Parse G O f w <> PPanic.
Proof. exact parse_no_panic. Qed.

(** A finished run is the result for every larger fuel. *)
Theorem C12_fuel_monotone :
  forall (G : gram) (O : oracle) (f k : nat) (w : list token),
    Parse G O f w <> PHang -> Parse G O (f + k) w = Parse G O f w.
Proof. exact parse_fuel_mono. Qed.

(** Termination: for a valid grammar with a conflict-free table the loop terminates on every
    token list (sentence or not). *)
Theorem C12_terminates :
  forall (G : gram) (O : oracle), oracle_ok G O -> valid G -> forall M : table, BuildParsingTable G O = Some (M, false) ->
    forall w, exists f0, forall f, f0 <= f -> Parse G O f w <> PHang.
Proof. exact parse_terminates. Qed.

(** The property in one statement: for a conflict-free table, every run that is long enough
    finishes, never with a panic, and it accepts (with the leftmost derivation) iff the input is
    a sentence. *)
Theorem C12_sound_complete :
  forall (G : gram) (O : oracle), oracle_ok G O -> valid G -> forall M : table, BuildParsingTable G O = Some (M, false) ->
    forall w, exists f0, forall f, f0 <= f ->
      Parse G O f w <> PHang /\ Parse G O f w <> PPanic /\
      ((exists ps, Parse G O f w = PAccept ps) <-> sentence G w) /\
      (forall ps, Parse G O f w = PAccept ps -> lm_derives G ps [Nt (start G)] (map Tm (word w))).
Proof. exact parse_sound_complete. Qed.

(** Non-vacuity:  S → t0 accepts "t0" and rejects "t0 t0" (D12, fixed);
    S → t0 A ; A → t1 A | ε  on  t0 t1 t1. *)
Example C12_example :
  let G := mkGrammar [0] [0] [mkProd 0 [Tm 0]] 0 in
  let O := id_oracle G in
  Parse G O 100 [(0, 0)] = PAccept [mkProd 0 [Tm 0]]
  /\ Parse G O 100 [(0, 0); (0, 1)] = PReject EExtraInput [mkProd 0 [Tm 0]]
  /\ ParseAndBuildAST G O 100 [(0, 7)] = PAccept (Some (Node 0 (mkProd 0 [Tm 0]) [Leaf 0 7])).
Proof. vm_compute. repeat split. Qed.

Example C12_example_nullable :
  let G := mkGrammar [0;1] [0;1] [mkProd 0 [Tm 0; Nt 1]; mkProd 1 [Tm 1; Nt 1]; mkProd 1 []] 0 in
  let O := id_oracle G in
  Parse G O 100 [(0,0); (1,1); (1,2)]
    = PAccept [mkProd 0 [Tm 0; Nt 1]; mkProd 1 [Tm 1; Nt 1]; mkProd 1 [Tm 1; Nt 1]; mkProd 1 []]
  /\ Parse G O 100 [(0,0); (1,1); (0,2)]
    = PReject EUnacceptable [mkProd 0 [Tm 0; Nt 1]; mkProd 1 [Tm 1; Nt 1]].
Proof. vm_compute. repeat split. Qed.

Print Assumptions C12_sound.
Print Assumptions C12_rejects_extra_tokens.
Print Assumptions C12_complete.
Print Assumptions C12_accepts_exactly_L.
Print Assumptions C12_ast.
Print Assumptions C12_ast_yield.
Print Assumptions C12_no_panic.
Print Assumptions C12_fuel_monotone.
Print Assumptions C12_terminates.
Print Assumptions C12_sound_complete.
