(** C12 — the predictive parser accepts exactly L(G) for LL(1) grammars.
    Preliminary file (stage 1): a non-vacuity example (including the D12 witness). *)
From Algo.C12 Require Import Model Spec.

(** S → t0 : "t0" is accepted, "t0 t0" is rejected because input remains (D12, fixed) *)
Example C12_example :
  let G := mkGrammar [0] [0] [mkProd 0 [Tm 0]] 0 in
  Parse G 100 [(0, 0)] = PAccept [mkProd 0 [Tm 0]]
  /\ Parse G 100 [(0, 0); (0, 1)] = PReject EExtraInput [mkProd 0 [Tm 0]]
  /\ ParseAndBuildAST G 100 [(0, 7)] = PAccept (Some (Node 0 (mkProd 0 [Tm 0]) [Leaf 0 7])).
Proof. vm_compute. repeat split. Qed.
