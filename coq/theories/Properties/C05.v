(** C05 — Indexed heaps keep index, key and value consistent under ChangeKey/DeleteIndex.
    Statements only; proofs are in the Algo.C05 proof files.

    [run cmp i cap ops] is the list of results the model of implementation [i] (indexed binary,
    binomial, Fibonacci heap; the Algo.C05 model files) returns for the history [ops] on a fresh heap of
    capacity [cap] with comparator [cmp]; a panic (out-of-range slice access, nil dereference)
    or a hang (fuel) of any operation is the result of the whole run.
    [valid_trace cmp m tr] (Algo.C05.Spec): every result of [tr] is one the abstract map
    index -> (key, value) allows: Insert succeeds iff the index is in range and free,
    ChangeKey/DeleteIndex/PeekIndex/ContainsIndex succeed iff the index is held, Peek/Delete
    return a held index whose current key is extremal (any such index), ContainsKey /
    ContainsValue are existential over the held entries, Size is the number of held indices. *)
From Algo.C05 Require Import Model Spec ProofsRange Proofs.
Open Scope Z_scope.

Definition simulates (cmp : Z -> Z -> Z) (i : impl) : Prop :=
  forall (cap : nat) (ops : list op),
    exists outs, run cmp i cap ops = Ok outs /\ length outs = length ops /\
                 valid_trace cmp (empty_map cap) (combine ops outs).

(** The property at full strength, for every comparator of a total preorder (min and max
    orientation are instances), every capacity and every history, invalid indices included. *)
Definition C05_ibin_full : Prop := forall cmp, TotalPreorder cmp -> simulates cmp IBin.
Definition C05_ibinom_full : Prop := forall cmp, TotalPreorder cmp -> simulates cmp IBinom.
Definition C05_ifib_full : Prop := forall cmp, TotalOrder cmp -> simulates cmp IFib.

(** Indexed binary heap: the full statement, for every comparator of a total preorder, every
    capacity and every history (invalid indices, key increases and decreases included): no
    operation panics or hangs and every result is the one the index map allows.  Invariants
    behind it (Algo.C05.ProofsBin.Inv): pos/heap mutually inverse on 1..n, kvs[i] present iff
    pos[i] <> -1, n = number of held indices, heap order. *)
Theorem C05_ibin_simulates : C05_ibin_full.
Proof. exact ibin_simulates. Qed.

(** Indexed binomial heap: the full statement.  Invariants behind it
    (Algo.C05.ProofsBinom.InvB): the entries of the forest are exactly the held entries of
    the map (each index once), nodes[i] is set iff index i is held, n = number of held indices,
    heap order; promote/demote/bubble-to-root move contents along a path and restore the order. *)
Theorem C05_ibinom_simulates : C05_ibinom_full.
Proof. exact ibinom_simulates. Qed.

(** Indexed Fibonacci heap, proved part: every run of the model that does not end in a panic or
    a hang is a valid trace (index map, heap order, the entry pointer is extremal after every
    operation, cut / cascading cut / consolidate keep the entries).  Missing for
    [C05_ifib_full]: that the model never returns [Panic] (the degree bound
    size >= F_{degree+2} under cuts, which keeps [roots[x.degree]] of consolidate in range) nor
    [Hang] (the fuel of consolidate's restart loop).  Both are checked at run time instead: the
    driver reports any PANIC/HANG of the extracted model on every generated history. *)
Theorem C05_ifib_partial :
  forall cmp, TotalOrder cmp ->
  forall (cap : nat) (ops : list op) (outs : list out),
    run cmp IFib cap ops = Ok outs ->
    length outs = length ops /\ valid_trace cmp (empty_map cap) (combine ops outs).
Proof. exact ifib_partial. Qed.

(** Out-of-range indices are rejected with a false result rather than a crash, in every state
    of every implementation (reachable or not), leaving the state unchanged. *)
Theorem C05_out_of_range_rejected :
  forall cmp (s : state) (i : Z),
    i < 0 \/ cap_of s <= i ->
    (forall k v, step cmp s (Insert i k v) = Ok (s, OBool false)) /\
    (forall k, step cmp s (ChangeKey i k) = Ok (s, OBool false)) /\
    step cmp s (DeleteIndex i) = Ok (s, ONoKV) /\
    step cmp s (PeekIndex i) = Ok (s, ONoKV) /\
    step cmp s (ContainsIndex i) = Ok (s, OBool false).
Proof. exact out_of_range_rejected. Qed.

(** Non-vacuity: a sparse index set, an invalid index, a key increase, a key decrease, a
    DeleteIndex and a drain, on all three implementations; D05a's witness is the ContainsKey. *)
Example C05_example :
  let ops := [Insert 4 10 100; ContainsKey 10; Insert 7 1 1; Insert (-1) 1 1; Insert 2 5 200;
              Insert 3 7 300; ChangeKey 4 3; Peek; ChangeKey 4 20; Delete; DeleteIndex 3; Size; Delete; Delete] in
  map (fun i => run cmp_min i 5 ops) [IBin; IBinom; IFib]
  = let r := Ok [OBool true; OBool true; OBool false; OBool false; OBool true; OBool true; OBool true;
                 OEntry 4 3 100; OBool true; OEntry 2 5 200; OKV 7 300; OInt 1; OEntry 4 20 100; ONoEntry] in
    [r; r; r].
Proof. vm_compute. reflexivity. Qed.

Print Assumptions C05_ibin_simulates.
Print Assumptions C05_ibinom_simulates.
Print Assumptions C05_ifib_partial.
Print Assumptions C05_out_of_range_rejected.
