(** C05 — Indexed heaps keep index, key and value consistent under ChangeKey/DeleteIndex.
    Statements only; proofs are in the Algo.C05 proof files.

    [run cmp i cap ops] is the list of results the model of implementation [i] (indexed binary,
    binomial, Fibonacci heap; the Algo.C05 model files) returns for the history [ops] on a fresh heap of
    capacity [cap] with comparator [cmp]; a panic (out-of-range slice access, nil dereference)
    or a hang (fuel) of any operation is the result of the whole run.
    [valid_trace cmp m tr] (Algo.C05.Spec): every result of [tr] is one the abstract map
    index -> (key, value) allows: Insert succeeds iff the index is in range and free,
    ChangeKey/DeleteIndex/PeekIndex/ContainsIndex succeed iff the index is held, Peek/Delete
    return a held index whose current key is extremal (any such index), ContainsKey /
    ContainsValue are existential over the held entries, Size is the number of held indices. *)
From Algo.C05 Require Import Model Spec SpecFacts ProofsRange ProofsFibDeg Proofs.
Open Scope Z_scope.

Definition simulates (cmp : Z -> Z -> Z) (i : impl) : Prop :=
  forall (cap : nat) (ops : list op),
    exists outs, run cmp i cap ops = Ok outs /\ length outs = length ops /\
                 valid_trace cmp (empty_map cap) (combine ops outs).

(** The property at full strength, for every comparator of a total preorder (min and max
    orientation are instances), every capacity and every history, invalid indices included. *)
Definition C05_ibin_full : Prop := forall cmp, TotalPreorder cmp -> simulates cmp IBin.
Definition C05_ibinom_full : Prop := forall cmp, TotalPreorder cmp -> simulates cmp IBinom.
Definition C05_ifib_full : Prop := forall cmp, TotalOrder cmp -> simulates cmp IFib.

(** Indexed binary heap: the full statement, for every comparator of a total preorder, every
    capacity and every history (invalid indices, key increases and decreases included): no
    operation panics or hangs and every result is the one the index map allows.  Invariants
    behind it (Algo.C05.ProofsBin.Inv): pos/heap mutually inverse on 1..n, kvs[i] present iff
    pos[i] <> -1, n = number of held indices, heap order. *)
Theorem C05_ibin_simulates : C05_ibin_full.
Proof. exact ibin_simulates. Qed.

(** Indexed binomial heap: the full statement.  Invariants behind it
    (Algo.C05.ProofsBinom.InvB): the entries of the forest are exactly the held entries of
    the map (each index once), nodes[i] is set iff index i is held, n = number of held indices,
    heap order; promote/demote/bubble-to-root move contents along a path and restore the order. *)
Theorem C05_ibinom_simulates : C05_ibinom_full.
Proof. exact ibinom_simulates. Qed.

(** Indexed Fibonacci heap: the full statement, for every comparator of a total order (the Go
    ChangeKey leaves a key in place when the new key compares equal, so equivalent keys must be
    equal).  Invariants behind it (Algo.C05.ProofsFib.InvF, Algo.C05.ProofsFibDeg.InvT): the
    entries of the forest are exactly the held entries of the map, heap order, the entry
    pointer h.ext is extremal among the roots after every operation; every degree field is the
    number of children and each child c obeys degree(c) + [mark(c)] >= number of older
    siblings, hence a tree of degree d has at least F(d+2) entries and d < maxDegree(n): the
    slice [roots] of consolidate is never indexed out of range (no [Panic]); the restart loop of
    consolidate ends within its fuel (no [Hang]). *)
Theorem C05_ifib_simulates : C05_ifib_full.
Proof. exact ifib_simulates. Qed.

(** The degree bound in isolation: F(d+2) <= n puts d below maxDegree n (the model computes
    maxDegree exactly as 1 + max { d | phi^d <= n }). *)
Theorem C05_max_degree_bound : forall (d : nat) (n : Z), fibn (d + 2) <= n -> Z.of_nat d < max_degree n.
Proof. exact max_degree_lb. Qed.

(** What a permitted result means ([held m i k v]: index i is held with key k and value v;
    [free_slot m i]: i is in range and not held) — the executable [spec_step] unfolded. *)
Theorem C05_spec_insert : forall cmp m i k v b m',
  spec_step cmp m (Insert i k v) (OBool b) = Some m' ->
  (b = true <-> free_slot m i) /\ m' = (if b then aset m i (Some (k, v)) else m).
Proof. exact spec_insert. Qed.

Theorem C05_spec_change_key : forall cmp m i k b m',
  spec_step cmp m (ChangeKey i k) (OBool b) = Some m' ->
  (b = true <-> exists k0 v, held m i k0 v) /\
  (forall k0 v, held m i k0 v -> m' = aset m i (Some (k, v))) /\ (b = false -> m' = m).
Proof. exact spec_change_key. Qed.

Theorem C05_spec_delete : forall cmp m i k v m',
  spec_step cmp m Delete (OEntry i k v) = Some m' ->
  held m i k v /\ (forall j k' v', held m j k' v' -> cmp k k' <= 0) /\ m' = aset m i None.
Proof. exact spec_delete. Qed.

Theorem C05_spec_peek : forall cmp m i k v m',
  spec_step cmp m Peek (OEntry i k v) = Some m' ->
  held m i k v /\ (forall j k' v', held m j k' v' -> cmp k k' <= 0) /\ m' = m.
Proof. exact spec_peek. Qed.

Theorem C05_spec_delete_index : forall cmp m i r m',
  spec_step cmp m (DeleteIndex i) r = Some m' ->
  (exists k v, r = OKV k v /\ held m i k v /\ m' = aset m i None) \/ (r = ONoKV /\ aget m i = None /\ m' = m).
Proof. exact spec_delete_index. Qed.

Theorem C05_spec_contains : forall cmp m o b m',
  spec_step cmp m o (OBool b) = Some m' ->
  match o with
  | ContainsIndex i => m' = m /\ (b = true <-> exists k v, held m i k v)
  | ContainsKey k => m' = m /\ (b = true <-> exists j k' v', held m j k' v' /\ cmp k' k = 0)
  | ContainsValue v => m' = m /\ (b = true <-> exists j k', held m j k' v)
  | IsEmpty => m' = m /\ (b = true <-> held_count m = 0)
  | _ => True
  end.
Proof. exact spec_contains. Qed.

(** The comparators of the correspondence (generic.NewCompareFunc[int], its reverse, and the
    magnitude-returning a - b, 3 * (a - b), b - a) are instances of the hypotheses above. *)
Theorem C05_harness_comparators :
  TotalOrder cmp_min /\ TotalOrder cmp_max /\ TotalOrder cmp_sub /\ TotalOrder cmp_sub3 /\ TotalOrder cmp_rsub.
Proof. exact harness_comparators. Qed.

(** Out-of-range indices are rejected with a false result rather than a crash, in every state
    of every implementation (reachable or not), leaving the state unchanged. *)
Theorem C05_out_of_range_rejected :
  forall cmp (s : state) (i : Z),
    i < 0 \/ cap_of s <= i ->
    (forall k v, step cmp s (Insert i k v) = Ok (s, OBool false)) /\
    (forall k, step cmp s (ChangeKey i k) = Ok (s, OBool false)) /\
    step cmp s (DeleteIndex i) = Ok (s, ONoKV) /\
    step cmp s (PeekIndex i) = Ok (s, ONoKV) /\
    step cmp s (ContainsIndex i) = Ok (s, OBool false).
Proof. exact out_of_range_rejected. Qed.

(** Non-vacuity: a sparse index set, an invalid index, a key increase, a key decrease, a
    DeleteIndex and a drain, on all three implementations; D05a's witness is the ContainsKey. *)
Example C05_example :
  let ops := [Insert 4 10 100; ContainsKey 10; Insert 7 1 1; Insert (-1) 1 1; Insert 2 5 200;
              Insert 3 7 300; ChangeKey 4 3; Peek; ChangeKey 4 20; Delete; DeleteIndex 3; Size; Delete; Delete] in
  map (fun i => run cmp_min i 5 ops) [IBin; IBinom; IFib]
  = let r := Ok [OBool true; OBool true; OBool false; OBool false; OBool true; OBool true; OBool true;
                 OEntry 4 3 100; OBool true; OEntry 2 5 200; OKV 7 300; OInt 1; OEntry 4 20 100; ONoEntry] in
    [r; r; r].
Proof. vm_compute. reflexivity. Qed.

Print Assumptions C05_ibin_simulates.
Print Assumptions C05_ibinom_simulates.
Print Assumptions C05_ifib_simulates.
Print Assumptions C05_max_degree_bound.
Print Assumptions C05_harness_comparators.
Print Assumptions C05_spec_insert.
Print Assumptions C05_spec_change_key.
Print Assumptions C05_spec_delete.
Print Assumptions C05_spec_peek.
Print Assumptions C05_spec_delete_index.
Print Assumptions C05_spec_contains.
Print Assumptions C05_out_of_range_rejected.
