(** C01 — Ordered symbol tables behave as a sorted map on every operation history.
    Statements only; proofs live in C01/Proofs*.v.

    [run cmp eqv i ops] are the outputs of implementation [i] (BST, AVL, red-black) of the model
    C01/Model.v on the history [ops] (mutators and queries with arbitrary arguments) started from
    the empty table; [spec_run] are the outputs of the strictly sorted association list of
    C01/Spec.v.  [Ok] means: neither a panic nor fuel exhaustion. *)
From Algo.C01 Require Import Model Spec ProofsRun ProofsRB Proofs.
From Coq Require Import Permutation.
Open Scope Z_scope.

(** The property at full strength: for every comparator that is a total (pre)order, every
    implementation and every history whose queries are functions of the abstract map, all outputs
    agree with the sorted association list and nothing panics or hangs. *)
Definition C01_full : Prop :=
  forall (K V : Type) (cmp : K -> K -> Z) (eqv : V -> V -> bool), TotalOrder cmp ->
  forall (i : impl) (ops : list (op K V)),
    forallb abstract_op ops = true ->
    run cmp eqv i ops = map Ok (spec_run cmp eqv ops).

(** BST: the property at full strength — every history of Put / Delete / DeleteMin / DeleteMax /
    DeleteAll and of all abstract queries (absent keys, inverted ranges, negative ranks included). *)
Theorem C01_refines_bst :
  forall (K V : Type) (cmp : K -> K -> Z) (eqv : V -> V -> bool), TotalOrder cmp ->
  forall ops : list (op K V),
    forallb abstract_op ops = true ->
    run cmp eqv BST ops = map Ok (spec_run cmp eqv ops).
Proof. intros K V cmp eqv TO ops. exact (bst_run_ok cmp eqv TO ops). Qed.

(** FirstMatch is relational: the property does not fix which matching pair an abstract map
    returns (the code returns the first in pre-order; the correspondence checks that choice). *)
Theorem C01_firstmatch_bst :
  forall (K V : Type) (cmp : K -> K -> Z), TotalOrder cmp ->
  forall (h : list (mut K V)) (p : K -> V -> bool),
  exists t, build cmp BST h = Ok t /\
    match first_match p t with
    | Some e => In e (s_build cmp h) /\ holds p e = true
    | None => forall e, In e (s_build cmp h) -> holds p e = false
    end.
Proof. intros K V cmp TO h p. exact (bst_firstmatch cmp TO h p). Qed.

(** The six shape-dependent traversal orders enumerate exactly the entries of the abstract map. *)
Theorem C01_traversal_bst :
  forall (K V : Type) (cmp : K -> K -> Z), TotalOrder cmp ->
  forall (h : list (mut K V)) (o : order), o <> OtherOrder ->
  exists t, build cmp BST h = Ok t /\ Permutation (trav_list o t) (s_build cmp h).
Proof. intros K V cmp TO h o. exact (bst_traversal cmp TO h o). Qed.

(** AVL: the same statements at full strength (rotations included; no panic). *)
Theorem C01_refines_avl :
  forall (K V : Type) (cmp : K -> K -> Z) (eqv : V -> V -> bool), TotalOrder cmp ->
  forall ops : list (op K V),
    forallb abstract_op ops = true ->
    run cmp eqv AVL ops = map Ok (spec_run cmp eqv ops).
Proof. intros K V cmp eqv TO ops. exact (avl_run_ok cmp eqv TO ops). Qed.

Theorem C01_firstmatch_avl :
  forall (K V : Type) (cmp : K -> K -> Z), TotalOrder cmp ->
  forall (h : list (mut K V)) (p : K -> V -> bool),
  exists t, build cmp AVL h = Ok t /\
    match first_match p t with
    | Some e => In e (s_build cmp h) /\ holds p e = true
    | None => forall e, In e (s_build cmp h) -> holds p e = false
    end.
Proof. intros K V cmp TO h p. exact (avl_firstmatch cmp TO h p). Qed.

Theorem C01_traversal_avl :
  forall (K V : Type) (cmp : K -> K -> Z), TotalOrder cmp ->
  forall (h : list (mut K V)) (o : order), o <> OtherOrder ->
  exists t, build cmp AVL h = Ok t /\ Permutation (trav_list o t) (s_build cmp h).
Proof. intros K V cmp TO h o. exact (avl_traversal cmp TO h o). Qed.

(** Red-black, PARTIAL: proved for histories whose mutators are Put and DeleteAll (including the
    histories inside Equal); all abstract queries are covered.  What is missing with respect to
    [C01_full] at [i = RB]: histories containing Delete / DeleteMin / DeleteMax (moveRedLeft /
    moveRedRight / balance on the way up).  Those are carried by the correspondence (every run
    compares the Go code with the model on exhaustive and random delete histories) and by the
    invariant checker [rb_check] of C15 evaluated on the implementation's node dump. *)
Theorem C01_refines_rb_partial :
  forall (K V : Type) (cmp : K -> K -> Z) (eqv : V -> V -> bool), TotalOrder cmp ->
  forall ops : list (op K V),
    forallb abstract_op ops = true ->
    forallb (op_allowed put_only) ops = true ->
    run cmp eqv RB ops = map Ok (spec_run cmp eqv ops).
Proof. intros K V cmp eqv TO ops. exact (rb_run_ok_put cmp eqv TO ops). Qed.

(** Non-vacuity: a 7-key history with a double rotation (AVL), colour flips (red-black), a
    successor-replacing delete, absent keys, on the three implementations and two comparators. *)
Example C01_example :
  let ops : list (op Z Z) :=
    [M (MPut 5 50); M (MPut 2 20); M (MPut 8 80); M (MPut 6 60); M (MPut 7 70); M (MPut 9 90); M (MPut 1 10);
     M (MDelete 5); Q (QGet 5); Q (QFloor 5); Q (QCeiling 5); Q (QRank 5); Q (QSelect 3); Q (QRange 0 7);
     Q (QRangeSize 7 0); M (MDelete 5); M MDeleteMin; M MDeleteMax; Q QAll; Q (QTraverse Descending); Q QSize] in
  forall i, In i [BST; AVL; RB] ->
    run cmp_asc Z.eqb i ops = map Ok (spec_run cmp_asc Z.eqb ops) /\
    run cmp_desc Z.eqb i ops = map Ok (spec_run cmp_desc Z.eqb ops) /\
    nth 8 (run cmp_asc Z.eqb i ops) Panic = Ok (OVal None) /\
    nth 9 (run cmp_asc Z.eqb i ops) Panic = Ok (OKV (Some (2, 20))).
Proof.
  intros ops i Hi. simpl in Hi.
  destruct Hi as [<- | [<- | [<- | []]]]; vm_compute; repeat split; reflexivity.
Qed.

Print Assumptions C01_refines_bst.
Print Assumptions C01_firstmatch_bst.
Print Assumptions C01_traversal_bst.
Print Assumptions C01_refines_avl.
Print Assumptions C01_firstmatch_avl.
Print Assumptions C01_traversal_avl.
Print Assumptions C01_refines_rb_partial.
