(** C01 — Ordered symbol tables behave as a sorted map on every operation history.
    Statements only; proofs live in C01/Proofs*.v.

    [run cmp eqv i ops] are the outputs of implementation [i] (BST, AVL, left-leaning red-black) of
    the model C01/Model.v on the history [ops] (mutators Put / Delete / DeleteMin / DeleteMax /
    DeleteAll and queries, with arbitrary arguments) started from the empty table; [spec_run] are
    the outputs of the strictly sorted association list of C01/Spec.v.  An output [Ok x] means:
    the operation neither panicked (nil dereference) nor ran out of fuel.

    [TotalOrder cmp] asks for a total preorder given by the sign of [cmp] (reflexive, sign
    antisymmetric, transitive); Leibniz antisymmetry is not needed. *)
From Algo.C01 Require Import Model Spec SpecFacts ProofsQuery Proofs.
From Coq Require Import Permutation.
Open Scope Z_scope.

(** The property at full strength: for every comparator that is a total (pre)order, every
    implementation and every history whose queries are functions of the abstract map (Size,
    IsEmpty, Get, Min, Max, Floor, Ceiling, Select, Rank, Range, RangeSize, All, Traverse in
    ascending / descending order (also with early exit), Equal against a table built by another
    history, AnyMatch, AllMatch, SelectMatch, PartitionMatch), all outputs — including the pair
    returned by every Delete / DeleteMin / DeleteMax — agree with the sorted association list, and
    nothing panics or hangs.  Absent keys, inverted ranges and out-of-range ranks are ordinary
    arguments of the quantifier. *)
Definition C01_full : Prop :=
  forall (K V : Type) (cmp : K -> K -> Z) (eqv : V -> V -> bool), TotalOrder cmp ->
  forall (i : impl) (ops : list (op K V)),
    forallb abstract_op ops = true ->
    run cmp eqv i ops = map Ok (spec_run cmp eqv ops).

Theorem C01_refines : C01_full.
Proof. intros K V cmp eqv TO i ops. exact (run_ok_all cmp eqv TO i ops). Qed.

(** FirstMatch is relational: the property does not fix which matching pair an abstract map
    returns (the code returns the first in pre-order; the correspondence checks that choice as a
    fidelity observable). It returns a held pair satisfying the predicate iff one exists. *)
Theorem C01_firstmatch :
  forall (K V : Type) (cmp : K -> K -> Z), TotalOrder cmp ->
  forall (i : impl) (h : list (mut K V)) (p : K -> V -> bool),
  exists t, build cmp i h = Ok t /\
    match first_match p t with
    | Some e => In e (s_build cmp h) /\ holds p e = true
    | None => forall e, In e (s_build cmp h) -> holds p e = false
    end.
Proof. intros K V cmp TO i h p. exact (firstmatch_all cmp TO i h p). Qed.

(** The shape-dependent traversal orders (VLR, VRL, LRV, RLV) enumerate exactly the entries of
    the abstract map (the order itself is a fidelity observable). *)
Theorem C01_traversal :
  forall (K V : Type) (cmp : K -> K -> Z), TotalOrder cmp ->
  forall (i : impl) (h : list (mut K V)) (o : order), o <> OtherOrder ->
  exists t, build cmp i h = Ok t /\ Permutation (trav_list o t) (s_build cmp h).
Proof. intros K V cmp TO i h o. exact (traversal_all cmp TO i h o). Qed.

(** The abstract map stays strictly sorted (so it is a map: at most one entry per key). *)
Theorem C01_spec_sorted :
  forall (K V : Type) (cmp : K -> K -> Z), TotalOrder cmp ->
  forall h : list (mut K V), sorted cmp (s_build cmp h).
Proof. intros K V cmp TO h. apply (SpecFacts.s_build_from_sorted cmp TO h []). exact I. Qed.

(** The tables returned by SelectMatch / PartitionMatch are tables of their own: when a history
    [h2] of mutators and then any abstract operations [ops] continue ON such a result, the outputs
    are again those of the sorted association list (started from the filtered map). *)
Theorem C01_selection_continues :
  forall (K V : Type) (cmp : K -> K -> Z) (eqv : V -> V -> bool), TotalOrder cmp ->
  forall (i : impl) (h : list (mut K V)) (p : K -> V -> bool) (h2 : list (mut K V)) (ops : list (op K V)),
    forallb abstract_op ops = true ->
    exists t t' t'', build cmp i h = Ok t /\ SelectMatch cmp i p t = Ok t' /\
      build_from cmp i t' h2 = Ok t'' /\
      run_from cmp eqv i t'' ops =
        map Ok (s_run_from cmp eqv (s_build_from cmp (filter (holds p) (s_build cmp h)) h2) ops).
Proof.
  intros K V cmp eqv TO i h p h2 ops HA.
  destruct (selection_all cmp eqv TO i h p h2 ops HA) as (t & t' & t'' & E1 & E2 & E3 & _ & E4 & E5).
  exists t, t', t''. rewrite <- E4. auto.
Qed.

Theorem C01_partition_continues :
  forall (K V : Type) (cmp : K -> K -> Z) (eqv : V -> V -> bool), TotalOrder cmp ->
  forall (i : impl) (h : list (mut K V)) (p : K -> V -> bool) (second : bool)
         (h2 : list (mut K V)) (ops : list (op K V)),
    forallb abstract_op ops = true ->
    exists t ta tb t'', build cmp i h = Ok t /\ PartitionMatch cmp i p t = (Ok ta, Ok tb) /\
      build_from cmp i (if second then tb else ta) h2 = Ok t'' /\
      run_from cmp eqv i t'' ops =
        map Ok (s_run_from cmp eqv
                  (s_build_from cmp (filter (fun e => if second then negb (holds p e) else holds p e) (s_build cmp h)) h2) ops).
Proof.
  intros K V cmp eqv TO i h p second h2 ops HA.
  destruct (partition_all cmp eqv TO i h p second h2 ops HA) as (t & ta & tb & t'' & E1 & E2 & E3 & _ & E4 & E5).
  exists t, ta, tb, t''. rewrite <- E4. auto.
Qed.

(** What Equal means: with Leibniz equality on values and an antisymmetric comparator, the
    abstract answer [s_equal] is true exactly when the two maps hold the same pairs. *)
Theorem C01_equal_meaning :
  forall (K V : Type) (cmp : K -> K -> Z) (eqv : V -> V -> bool), TotalOrder cmp ->
  (forall a b, eqv a b = true <-> a = b) -> (forall a b, cmp a b = 0 -> a = b) ->
  forall h1 h2 : list (mut K V),
    s_equal cmp eqv (s_build cmp h1) (s_build cmp h2) = true <-> s_build cmp h1 = s_build cmp h2.
Proof.
  intros K V cmp eqv TO He Ha h1 h2.
  apply (ProofsQuery.s_equal_iff cmp TO eqv); auto; apply (SpecFacts.s_build_from_sorted cmp TO _ []); exact I.
Qed.

(** Early exit through the public Traverse (and All): in every traversal order a visitor that
    accepts [j] pairs and then returns false has seen exactly the first [j] entries of the full
    traversal and has been called [min (j+1) n] times — never again after it said stop (any tree).
    For ascending / descending orders both are part of [C01_refines] (output [OListN]). *)
Theorem C01_early_exit :
  forall (K V : Type) (o : order) (j : nat) (t : tree K V),
    trav_stop o j t = firstn j (trav_list o t) /\
    trav_stop_calls o j t = Nat.min (S j) (length (trav_list o t)).
Proof.
  intros K V o j t. exact (conj (ProofsQuery.trav_stop_prefix o j t) (ProofsQuery.trav_stop_calls_ok o j t)).
Qed.

(** The comparators the harness uses are instances of the hypothesis (non-vacuity of
    [TotalOrder]): ascending, reverse, three difference-valued ones (a-b, b-a, 3*(a-b): results of magnitude other
    than 1, only their sign may be used), and a non-antisymmetric preorder. *)
Theorem C01_comparators :
  TotalOrder cmp_asc /\ TotalOrder cmp_desc /\ TotalOrder cmp_diff /\ TotalOrder cmp_rdiff /\
  TotalOrder cmp_diff3 /\ TotalOrder cmp_half.
Proof.
  exact (conj cmp_asc_total (conj cmp_desc_total (conj cmp_diff_total (conj cmp_rdiff_total
          (conj cmp_diff3_total cmp_half_total))))).
Qed.

(** Non-vacuity: a 7-key history with a double rotation (AVL), colour flips (red-black), a
    successor-replacing delete, absent keys, on the three implementations and two comparators. *)
Example C01_example :
  let ops : list (op Z Z) :=
    [M (MPut 5 50); M (MPut 2 20); M (MPut 8 80); M (MPut 6 60); M (MPut 7 70); M (MPut 9 90); M (MPut 1 10);
     M (MDelete 5); Q (QGet 5); Q (QFloor 5); Q (QCeiling 5); Q (QRank 5); Q (QSelect 3); Q (QRange 0 7);
     Q (QRangeSize 7 0); M (MDelete 5); M MDeleteMin; M MDeleteMax; Q QAll; Q (QTraverse Descending); Q QSize] in
  forall i, In i [BST; AVL; RB] ->
    run cmp_asc Z.eqb i ops = map Ok (spec_run cmp_asc Z.eqb ops) /\
    run cmp_desc Z.eqb i ops = map Ok (spec_run cmp_desc Z.eqb ops) /\
    nth 8 (run cmp_asc Z.eqb i ops) Panic = Ok (OVal None) /\
    nth 9 (run cmp_asc Z.eqb i ops) Panic = Ok (OKV (Some (2, 20))).
Proof.
  intros ops i Hi. simpl in Hi.
  destruct Hi as [<- | [<- | [<- | []]]]; vm_compute; repeat split; reflexivity.
Qed.

Print Assumptions C01_refines.
Print Assumptions C01_firstmatch.
Print Assumptions C01_traversal.
Print Assumptions C01_spec_sorted.
Print Assumptions C01_comparators.
Print Assumptions C01_equal_meaning.
Print Assumptions C01_early_exit.
Print Assumptions C01_selection_continues.
Print Assumptions C01_partition_continues.
