(** C01 — Ordered symbol tables behave as a sorted map on every operation history.
    Statements only; proofs live in C01/Proofs*.v.

    [run cmp eqv i ops] are the outputs of implementation [i] (BST, AVL, red-black) of the model
    C01/Model.v on the history [ops] (mutators and queries with arbitrary arguments) started from
    the empty table; [spec_run] are the outputs of the strictly sorted association list of
    C01/Spec.v.  [Ok] means: neither a panic nor fuel exhaustion. *)
From Algo.C01 Require Import Model Spec.
Open Scope Z_scope.

(** The property at full strength: for every comparator that is a total (pre)order, every
    implementation and every history whose queries are functions of the abstract map, all outputs
    agree with the sorted association list and nothing panics or hangs. *)
Definition C01_full : Prop :=
  forall (K V : Type) (cmp : K -> K -> Z) (eqv : V -> V -> bool), TotalOrder cmp ->
  forall (i : impl) (ops : list (op K V)),
    forallb abstract_op ops = true ->
    run cmp eqv i ops = map Ok (spec_run cmp eqv ops).

(** Non-vacuity: a 7-key history with a double rotation (AVL), colour flips (red-black), a
    successor-replacing delete, absent keys, on the three implementations and two comparators. *)
Example C01_example :
  let ops : list (op Z Z) :=
    [M (MPut 5 50); M (MPut 2 20); M (MPut 8 80); M (MPut 6 60); M (MPut 7 70); M (MPut 9 90); M (MPut 1 10);
     M (MDelete 5); Q (QGet 5); Q (QFloor 5); Q (QCeiling 5); Q (QRank 5); Q (QSelect 3); Q (QRange 0 7);
     Q (QRangeSize 7 0); M (MDelete 5); M MDeleteMin; M MDeleteMax; Q QAll; Q (QTraverse Descending); Q QSize] in
  forall i, In i [BST; AVL; RB] ->
    run cmp_asc Z.eqb i ops = map Ok (spec_run cmp_asc Z.eqb ops) /\
    run cmp_desc Z.eqb i ops = map Ok (spec_run cmp_desc Z.eqb ops) /\
    nth 8 (run cmp_asc Z.eqb i ops) Panic = Ok (OVal None) /\
    nth 9 (run cmp_asc Z.eqb i ops) Panic = Ok (OKV (Some (2, 20))).
Proof.
  intros ops i Hi. simpl in Hi.
  destruct Hi as [<- | [<- | [<- | []]]]; vm_compute; repeat split; reflexivity.
Qed.
