(** C19 — the two-buffer input reader (lexer/input) delivers the source exactly, for every buffer
    size and every reader.  Statements only; proofs are in Algo.C19.Proofs*.

    [new n (mkReader src ds d)] is input.New with buffer size [n] on a reader that holds [src]
    and answers its Read calls as the decisions [ds], then [d] for ever, say (short reads, (0,nil)
    stalls, io.EOF together with the last bytes or on a later call): the theorems quantify over
    all of them.  [encode] is the RFC 3629 encoder, [scalar] the Unicode scalar values,
    [spec_dec] Unicode Table 3-7 as a function; none of them uses the tables of utf8.go.
    [dec] is the decoding decision tree of Next on a byte list, over the tables [first] and
    [acceptRanges] regenerated from utf8.go on every run (Algo.Gen.C19_Tables). *)
Require Import NArith ZArith List Bool.
Import ListNotations.
From Algo.C19 Require Import Model Spec ProofsUtf8 ProofsBuffer ProofsStream ProofsLexeme.
Local Open Scope N_scope.

(** The decoder driven by the regenerated tables accepts exactly the well-formed sequences of
    RFC 3629 and returns their code points: every scalar value is decoded from its encoding
    whatever follows; whatever is decoded is a scalar value preceded by nothing but its
    encoding; and on every byte string the decoder agrees with Table 3-7 (rune, ill-formed, or
    cut off by the end). *)
Theorem utf8_tables_correct :
  (forall c rest, scalar c -> dec (encode c ++ rest) = DRune c (elen c)) /\
  (forall b0 t c k, b0 < 256 -> dec (b0 :: t) = DRune c k ->
     scalar c /\ k = elen c /\ exists rest, b0 :: t = encode c ++ rest) /\
  (forall b0 t, b0 < 256 -> dec (b0 :: t) = spec_dec (b0 :: t)).
Proof. exact utf8_tables_correct_proof. Qed.

(** For every buffer size n >= 1, every reader oracle and every valid UTF-8 source without
    U+0000 (known finding nul-sentinel), the runes returned by Next until end of input are
    exactly the decoded source, followed by io.EOF (the fuel is the number of Next calls made).
    For the empty source New itself reports io.EOF. *)
Theorem C19_stream :
  forall (n : nat) (ds : list decision) (d : decision) (rs : list N),
    (1 <= n)%nat -> Forall scalar rs -> Forall (fun c => c <> 0) rs ->
    match rs with
    | [] => new n (mkReader [] ds d) = Ok None
    | _ :: _ =>
      exists i0, new n (mkReader (encode_all rs) ds d) = Ok (Some i0) /\
        forall fuel, (length rs < fuel)%nat -> next_all fuel i0 = Ok (rs, Some NEOF)
    end.
Proof. exact stream_valid_or_empty. Qed.

(** Ill-formed input is reported as an error and never altered: when the source is a valid
    prefix followed by bytes that do not start a well-formed sequence (Table 3-7 says ill-formed,
    or cut off by the end of the source), Next returns exactly the runes of the prefix and then an
    error, never a rune.  The error is the invalid-UTF-8 error, except when the source merely
    stops inside a sequence: then it is io.EOF (known finding truncated-tail-eof). *)
Theorem C19_invalid :
  forall (n : nat) (ds : list decision) (d : decision) (rs bad : list N),
    (1 <= n)%nat -> Forall scalar rs -> Forall (fun b => b < 256) bad ->
    Forall (fun b => b <> 0) (encode_all rs ++ bad) ->
    bad <> [] -> (forall c k, spec_dec bad <> DRune c k) ->
    exists i0, new n (mkReader (encode_all rs ++ bad) ds d) = Ok (Some i0) /\
      forall fuel, (length rs < fuel)%nat ->
      exists e, next_all fuel i0 = Ok (rs, Some e) /\
        match spec_dec bad with
        | DInvalid => exists p, e = NInvalid p
        | _ => e = NEOF
        end.
Proof.
  intros n ds d rs bad Hn Hs Hb Hz Hne Hnr.
  apply stream_ill_formed; try assumption. right. exact Hne.
Qed.

(** Any interleaving of Next, Retract, Lexeme and Skip that keeps the pending lexeme within the
    buffer size [n] (in bytes, after every call: [within]) behaves as the abstract reader [srun],
    i.e. two rune indices (lexeme begin, forward) into the decoded source: Next returns the rune
    under forward or io.EOF, Retract steps back (not beyond the lexeme begin), Lexeme returns the
    bytes between the two indices and Skip drops them; both report the line and the column
    (1-based, [lc_after]: a newline starts a new line) of what follows the runes before the
    lexeme, i.e. of the first rune of the lexeme.  No call panics or hangs.  [proj] hides the
    rune offset and the position inside an invalid-UTF-8 error, which the property does not
    mention. *)
Theorem C19_lexemes :
  forall (n : nat) (ds : list decision) (d : decision) (rs : list N) (ops : list op),
    (1 <= n)%nat -> rs <> [] -> Forall scalar rs -> Forall (fun c => c <> 0) rs ->
    within n (mkSsrc rs false) (0%nat, 0%nat) ops = true ->
    exists i0 vs i',
      new n (mkReader (encode_all rs) ds d) = Ok (Some i0) /\
      run i0 ops = Ok (vs, i') /\
      map proj vs = fst (srun (mkSsrc rs false) (0%nat, 0%nat) ops).
Proof. intros. apply lexemes_from_new; assumption. Qed.

(** In the abstract reader the lexemes and the skipped spans, in order, concatenate to the
    consumed prefix: the encoding of the runes before the final lexeme begin. *)
Theorem C19_spans :
  forall (rs : list N) (ops : list op),
    let s := mkSsrc rs false in
    concat (spans s (0%nat, 0%nat) ops) =
    encode_all (firstn (fst (snd (srun s (0%nat, 0%nat) ops))) rs).
Proof. exact spans_from_start. Qed.

Definition rd (src : list N) (ds : list decision) (d : decision) := mkReader src ds d.
Definition one_byte := mkDec (AK 1) false.
Definition full := mkDec AFull false.

(** Non-vacuity: "a\n€b" (the euro sign straddles the first half boundary of a 3+3 buffer),
    a one-byte reader; look-ahead and retract on the boundary. *)
Example C19_example :
  match new 3 (rd [97; 10; 226; 130; 172; 98] [] one_byte) with
  | Ok (Some i) =>
    match run i [ONext; ONext; OLexeme; ONext; ORetract; ONext; OSkip; ONext; ORetract; ONext; OLexeme; ONext] with
    | Ok (vs, _) => map proj vs =
        [SRune 97; SRune 10; SLexeme [97; 10] 1 1; SRune 8364; SUnit; SRune 8364; SSkip 2 1;
         SRune 98; SUnit; SRune 98; SLexeme [98] 2 2; SEOF]
    | _ => False
    end
  | _ => False
  end.
Proof. vm_compute. reflexivity. Qed.

(** Known finding nul-sentinel (D19d): a source containing U+0000 is cut at that byte. *)
Example C19_nul_refuted :
  exists src, In 0 src /\ valid_utf8 src /\
    match new 4 (rd src [] full) with
    | Ok (Some i) => next_all 10 i = Ok ([97; 98], Some NEOF)
    | _ => False
    end /\ fst (spec_decode src) = [97; 98; 0; 99; 100].
Proof.
  exists [97; 98; 0; 99; 100]. split; [simpl; tauto|]. split.
  - exists [97; 98; 0; 99; 100]. split; [|reflexivity].
    repeat constructor; left; reflexivity.
  - vm_compute. split; reflexivity.
Qed.

(** Known finding truncated-tail-eof: a source that ends inside a multi-byte sequence ends with
    io.EOF, as if it were complete. *)
Example C19_truncated_refuted :
  exists src, snd (spec_decode src) = TTrunc /\
    match new 4 (rd src [] full) with
    | Ok (Some i) => next_all 10 i = Ok ([97], Some NEOF)
    | _ => False
    end.
Proof. exists [97; 195]. vm_compute. split; reflexivity. Qed.

Print Assumptions utf8_tables_correct.
Print Assumptions C19_stream.
Print Assumptions C19_invalid.
Print Assumptions C19_lexemes.
Print Assumptions C19_spans.
Print Assumptions C19_example.
Print Assumptions C19_nul_refuted.
Print Assumptions C19_truncated_refuted.
