(** C19 — the two-buffer input reader delivers the source exactly, for every buffer size and reader.
    (stage 1: witnesses only; the theorems follow) *)
Require Import NArith ZArith List Bool.
Import ListNotations.
From Algo.C19 Require Import Model Spec.
Local Open Scope N_scope.

Definition rd (src : list N) (ds : list decision) (d : decision) := mkReader src ds d.
Definition one_byte := mkDec (AK 1) false.
Definition full := mkDec AFull false.

(** Non-vacuity: "a\n€b" (the euro sign straddles the first half boundary of a 3+3 buffer),
    a one-byte reader; look-ahead and retract on the boundary. *)
Example C19_example :
  match new 3 (rd [97; 10; 226; 130; 172; 98] [] one_byte) with
  | Ok (Some i) =>
    match run i [ONext; ONext; OLexeme; ONext; ORetract; ONext; OSkip; ONext; ORetract; ONext; OLexeme; ONext] with
    | Ok (vs, _) => map proj vs =
        [SRune 97; SRune 10; SLexeme [97; 10] 1 1; SRune 8364; SUnit; SRune 8364; SSkip 2 1;
         SRune 98; SUnit; SRune 98; SLexeme [98] 2 2; SEOF]
    | _ => False
    end
  | _ => False
  end.
Proof. vm_compute. reflexivity. Qed.

(** Known finding nul-sentinel (D19d): a source containing U+0000 is cut at that byte. *)
Example C19_nul_refuted :
  exists src, In 0 src /\ valid_utf8 src /\
    match new 4 (rd src [] full) with
    | Ok (Some i) => next_all 10 i = Ok ([97; 98], Some NEOF)
    | _ => False
    end /\ fst (spec_decode src) = [97; 98; 0; 99; 100].
Proof.
  exists [97; 98; 0; 99; 100]. split; [simpl; tauto|]. split.
  - exists [97; 98; 0; 99; 100]. split; [|reflexivity].
    repeat constructor; left; reflexivity.
  - vm_compute. split; reflexivity.
Qed.

(** Known finding truncated-tail-eof: a source that ends inside a multi-byte sequence ends with
    io.EOF, as if it were complete. *)
Example C19_truncated_refuted :
  exists src, snd (spec_decode src) = TTrunc /\
    match new 4 (rd src [] full) with
    | Ok (Some i) => next_all 10 i = Ok ([97], Some NEOF)
    | _ => False
    end.
Proof. exists [97; 195]. vm_compute. split; reflexivity. Qed.

Print Assumptions C19_example.
Print Assumptions C19_nul_refuted.
Print Assumptions C19_truncated_refuted.
