(** C09 — normal forms are reached, results verify, inputs are never mutated (stage 1).
    Statements only. *)
From Algo.C08 Require Import Model Names.
From Algo.C09 Require Import Model Concrete.

Definition nm (c : N) : name := [c].

(** D09b (known finding): the faithful model of LeftFactor refutes the post-condition:
    S -> a b | a c is returned unchanged. *)
Theorem C09_left_factor_post_refuted :
  exists G G', c_verify G = true /\ c_left_factor G = Ok G' /\ c_left_factored G' = false.
Proof.
  exists (mkGrammar [nm 97; nm 98; nm 99]%N [nm 83%N]
            [mkProd (nm 83%N) [Tm (nm 97%N); Tm (nm 98%N)]; mkProd (nm 83%N) [Tm (nm 97%N); Tm (nm 99%N)]] (nm 83%N)).
  eexists. vm_compute. repeat split.
Qed.

(** D09c (known finding): S -> A b; A -> ε: the result of EliminateEmptyProductions keeps A
    without any production and fails Verify(). *)
Theorem C09_del_verify_refuted :
  exists G G', c_verify G = true /\ c_del G = Ok G' /\ c_verify G' = false.
Proof.
  exists (mkGrammar [nm 98%N] [nm 83%N; nm 65%N]
            [mkProd (nm 83%N) [Nt (nm 65%N); Tm (nm 98%N)]; mkProd (nm 65%N) []] (nm 83%N)).
  eexists. vm_compute. repeat split.
Qed.

Print Assumptions C09_left_factor_post_refuted.
Print Assumptions C09_del_verify_refuted.
