(** C09 — normal forms are reached, results verify, inputs are never mutated.

    Statements only; proofs are in Algo.C09.Proofs*.  The transformations are the model
    functions of Algo.C08.Model, the post-conditions the boolean checkers of Algo.C09.Model
    (the same functions the driver evaluates on the grammars returned by the Go code).
    Assumptions on the parameters as in Properties/C08.v (boolean equalities are correct,
    [fresh] returns names that are not yet used).

    "Inputs are never mutated": the model is a pure function of the grammar value, so the
    statement is carried by the correspondence, which requires g.Equal(clone) after every call
    of the seven transformations, of predictive.BuildParsingTable (fix D09d) and of the four LR
    grammar constructors, on every generated grammar.

    Known findings (refuted below on the faithful model): D09b (LeftFactor does not reach its
    normal form) and D09c (a non-terminal that generates no non-empty string is left without a
    production, so Verify() fails). *)
From Coq Require Import List.
From Algo.Grammar Require Import CFG.
From Algo.C08 Require Import Model Spec ProofsBase ProofsLang1 ProofsLang2 ProofsLang3 ProofsLang4 ProofsLF ProofsELR Names NamesProofs.
From Algo.C09 Require Import Model Concrete Proofs ProofsCNF ProofsVerify ProofsCycles ProofsELR ProofsCheckers ProofsLRSound SliceHeap ProofsFrame ProofsVerify2.
Import ListNotations.

Section C09.
  Context {T N : Type}.
  Variable teqb : T -> T -> bool.
  Variable neqb : N -> N -> bool.
  Variable t2n : T -> N.
  Variable fresh : skind -> list N -> N -> option N.
  Hypothesis teqb_spec : forall x y, teqb x y = true <-> x = y.
  Hypothesis neqb_spec : forall x y, neqb x y = true <-> x = y.
  Hypothesis fresh_spec : forall k nts b x, fresh k nts b = Some x -> ~ In x nts.

  Notation gram := (grammar T N).

  (** the checker [verify] decides exactly what Verify() accepts *)
  Theorem C09_verify_correct : forall G : gram, verify teqb neqb G = true <-> valid G.
  Proof. exact (verify_spec teqb neqb teqb_spec neqb_spec). Qed.

  (** correctness of the syntactic checkers *)
  Theorem C09_is_cnf_correct : forall G : gram,
    is_cnf neqb G = true <-> forall p, In p (prods G) -> cnf_prod G p.
  Proof. exact (is_cnf_spec neqb neqb_spec). Qed.

  Theorem C09_no_unit_correct : forall G : gram,
    no_unit G = true <-> forall p B, In p (prods G) -> body p <> [Nt B].
  Proof. exact no_unit_spec. Qed.

  (** ChomskyNormalForm reaches Chomsky normal form (the independent, stricter check —
      start symbol on no right-hand side — is evaluated on the Go outputs by the driver) and
      its result declares every symbol it uses *)
  Theorem C09_chomsky_post : forall G G' : gram, valid G ->
    chomsky teqb neqb t2n fresh G = Ok G' ->
    is_cnf neqb G' = true /\ verify_symbols teqb neqb G' = true.
  Proof.
    intros G G' HG H. split.
    - exact (chomsky_post teqb neqb t2n fresh teqb_spec neqb_spec fresh_spec G G' (valid_wf G HG) H).
    - apply (verify_symbols_spec teqb neqb teqb_spec neqb_spec).
      exact (proj2 (ok_or_names_ok _ _ _ (chomsky_total teqb neqb t2n fresh teqb_spec neqb_spec fresh_spec G (valid_wf G HG)) H)).
  Qed.

  (** the sub-steps of ChomskyNormalForm: after START the start symbol occurs in no body, after
      TERM every terminal is solitary, after BIN (on a TERM result) every body is A -> a or has at
      most two symbols, all non-terminals *)
  Theorem C09_cnf_start_post : forall G G' : gram, valid G -> cnf_start teqb neqb fresh G = Ok G' ->
    start_not_on_right teqb neqb G' = true.
  Proof. intros G G' HG H. exact (start_post teqb neqb fresh teqb_spec neqb_spec fresh_spec G G' (valid_wf G HG) H). Qed.

  Theorem C09_cnf_term_post : forall G G' : gram, cnf_term teqb neqb t2n fresh G = Ok G' ->
    forall q, In q (prods G') -> (exists a, body q = [Tm a]) \/ forall t, ~ In (Tm t) (body q).
  Proof. intros G G' H. exact (term_solitary teqb neqb t2n fresh teqb_spec neqb_spec G G' H). Qed.

  Theorem C09_cnf_bin_post : forall G G' : gram,
    (forall p, In p (prods G) -> (exists a, body p = [Tm a]) \/ forall t, ~ In (Tm t) (body p)) ->
    cnf_bin teqb neqb fresh G = Ok G' ->
    forall q, In q (prods G') ->
      (exists a, body q = [Tm a]) \/ ((forall t, ~ In (Tm t) (body q)) /\ length (body q) <= 2).
  Proof. intros G G' Hs H. exact (bin_shape teqb neqb fresh teqb_spec neqb_spec G G' H Hs). Qed.

  (** EliminateEmptyProductions: no ε-production except for a fresh start symbol *)
  Theorem C09_del_post : forall G G' : gram, valid G -> del teqb neqb fresh G = Ok G' ->
    no_empty_except_fresh_start teqb neqb G' = true /\ verify_symbols teqb neqb G' = true.
  Proof.
    intros G G' HG H. split.
    - exact (del_post teqb neqb fresh teqb_spec neqb_spec fresh_spec G G' (valid_wf G HG) H).
    - apply (verify_symbols_spec teqb neqb teqb_spec neqb_spec).
      exact (proj2 (ok_or_names_ok _ _ _ (del_total teqb neqb fresh teqb_spec neqb_spec fresh_spec G (valid_wf G HG)) H)).
  Qed.

  (** EliminateSingleProductions: no unit production *)
  Theorem C09_unit_post : forall G G' : gram, valid G -> unit_elim teqb neqb G = Ok G' ->
    no_unit G' = true /\ verify_symbols teqb neqb G' = true.
  Proof.
    intros G G' HG H. split.
    - exact (unit_post teqb neqb teqb_spec neqb_spec G G' (valid_wf G HG) H).
    - apply (verify_symbols_spec teqb neqb teqb_spec neqb_spec).
      exact (proj2 (ok_or_names_ok _ _ _ (unit_total teqb neqb teqb_spec neqb_spec G (valid_wf G HG)) H)).
  Qed.

  (** EliminateUnreachableProductions: only symbols reachable from the start symbol *)
  Theorem C09_unreachable_post : forall G G' : gram, valid G -> unreachable_elim teqb neqb G = Ok G' ->
    all_reachable teqb neqb G' = true /\ verify_symbols teqb neqb G' = true.
  Proof.
    intros G G' HG H. split.
    - exact (unreachable_post teqb neqb neqb_spec G G' H).
    - apply (verify_symbols_spec teqb neqb teqb_spec neqb_spec).
      exact (proj2 (ok_or_names_ok _ _ _ (unreachable_total teqb neqb teqb_spec neqb_spec G (valid_wf G HG)) H)).
  Qed.

  (** Results pass Verify() on the domain that excludes exactly the signature of D09c *)
  Theorem C09_del_verify : forall G G' : gram, valid G -> all_yield G ->
    del teqb neqb fresh G = Ok G' -> verify teqb neqb G' = true.
  Proof.
    intros G G' HG Hy H. apply (verify_spec teqb neqb teqb_spec neqb_spec).
    exact (del_valid teqb neqb fresh teqb_spec neqb_spec fresh_spec G G' (valid_wf G HG) Hy H).
  Qed.

  Theorem C09_unit_verify : forall G G' : gram, valid G -> all_productive G ->
    unit_elim teqb neqb G = Ok G' -> verify teqb neqb G' = true.
  Proof.
    intros G G' HG Hy H. apply (verify_spec teqb neqb teqb_spec neqb_spec).
    exact (unit_valid teqb neqb teqb_spec neqb_spec G G' (valid_wf G HG) Hy H).
  Qed.

  Theorem C09_unreachable_verify : forall G G' : gram, valid G ->
    unreachable_elim teqb neqb G = Ok G' -> verify teqb neqb G' = true.
  Proof.
    intros G G' HG H. apply (verify_spec teqb neqb teqb_spec neqb_spec).
    exact (unreachable_valid teqb neqb teqb_spec neqb_spec G G' HG H).
  Qed.

  (** LeftFactor: every valid grammar gives a valid grammar (no restriction needed) *)
  Theorem C09_left_factor_verify : forall G G' : gram, valid G ->
    left_factor teqb neqb fresh G = Ok G' -> verify teqb neqb G' = true.
  Proof.
    intros G G' HG H. apply (verify_spec teqb neqb teqb_spec neqb_spec).
    exact (left_factor_valid teqb neqb fresh teqb_spec neqb_spec fresh_spec G G' HG H).
  Qed.

  (** EliminateLeftRecursion and ChomskyNormalForm on the D09c-free domain *)
  Theorem C09_left_recursion_verify : forall (order : gram -> list N) (G G' : gram), valid G -> all_yield G ->
    (forall G1, NoDup (order G1) /\ incl (order G1) (nonterms G1)) ->
    left_recursion_elim teqb neqb fresh order G = Ok G' -> verify teqb neqb G' = true.
  Proof.
    intros order G G' HG Hy Hord H. apply (verify_spec teqb neqb teqb_spec neqb_spec).
    exact (left_recursion_elim_valid teqb neqb fresh teqb_spec neqb_spec fresh_spec order G G' (valid_wf G HG) Hy Hord H).
  Qed.

  Theorem C09_chomsky_verify : forall G G' : gram, valid G -> all_yield G ->
    chomsky teqb neqb t2n fresh G = Ok G' -> verify teqb neqb G' = true.
  Proof.
    intros G G' HG Hy H. apply (verify_spec teqb neqb teqb_spec neqb_spec).
    exact (chomsky_valid teqb neqb t2n fresh teqb_spec neqb_spec fresh_spec G G' (valid_wf G HG) Hy H).
  Qed.

  Theorem C09_cycles_verify : forall G G' : gram, valid G -> all_yield G ->
    cycles_elim teqb neqb fresh G = Ok G' -> verify teqb neqb G' = true.
  Proof.
    intros G G' HG Hy H. apply (verify_spec teqb neqb teqb_spec neqb_spec).
    exact (cycles_valid teqb neqb fresh teqb_spec neqb_spec fresh_spec G G' (valid_wf G HG) Hy H).
  Qed.

  (** EliminateCycles leaves no derivation A =>+ A (checker [no_cycle]: the graph with an edge
      A -> B for every A -> α B β with α, β nullable is acyclic; here it has no edge at all) and
      declares every symbol it uses *)
  Theorem C09_cycles_post : forall G G' : gram, valid G -> cycles_elim teqb neqb fresh G = Ok G' ->
    no_cycle neqb G' = true /\ verify_symbols teqb neqb G' = true.
  Proof.
    intros G G' HG H. split.
    - exact (cycles_post teqb neqb fresh teqb_spec neqb_spec fresh_spec G G' (valid_wf G HG) H).
    - apply (verify_symbols_spec teqb neqb teqb_spec neqb_spec).
      exact (proj2 (ok_or_names_ok _ _ _ (cycles_total teqb neqb fresh teqb_spec neqb_spec fresh_spec G (valid_wf G HG)) H)).
  Qed.

  (** EliminateLeftRecursion leaves no left recursion, direct or indirect (checker
      [no_left_recursion]: the left-corner graph with nullable skipping is acyclic), for every
      order that lists the non-terminals of the cycle-free grammar exactly once — what
      OrderNonTerminals returns; the driver checks this of the order it reads from the real code.
      With the loop bound of the original code (j < i-1, D09a) this theorem is false. *)
  Theorem C09_left_recursion_post : forall (order : gram -> list N) (G G' : gram), valid G ->
    (forall G1, NoDup (order G1) /\ forall A, In A (nonterms G1) <-> In A (order G1)) ->
    left_recursion_elim teqb neqb fresh order G = Ok G' ->
    no_left_recursion neqb G' = true /\ verify_symbols teqb neqb G' = true.
  Proof.
    intros order G G' HG Hord H. split.
    - exact (elr_post teqb neqb fresh teqb_spec neqb_spec fresh_spec order G G' (valid_wf G HG) Hord H).
    - apply (verify_symbols_spec teqb neqb teqb_spec neqb_spec).
      exact (proj2 (ok_or_names_ok _ _ _ (left_recursion_elim_total teqb neqb fresh teqb_spec neqb_spec fresh_spec order G (valid_wf G HG) (fun G1 => proj1 (Hord G1))) H)).
  Qed.

  (** LeftFactor's result declares every symbol it uses (its normal form is refuted below) *)
  Theorem C09_left_factor_symbols : forall G G' : gram, valid G -> left_factor teqb neqb fresh G = Ok G' ->
    verify_symbols teqb neqb G' = true.
  Proof.
    intros G G' HG H. apply (verify_symbols_spec teqb neqb teqb_spec neqb_spec).
    exact (proj2 (ok_or_names_ok _ _ _ (left_factor_total teqb neqb fresh teqb_spec neqb_spec fresh_spec G (valid_wf G HG)) H)).
  Qed.

  (** the graph checkers are sound for the derivation semantics of Algo.Grammar.CFG:
      [derivesN G (S n) u v] is a derivation u => ... => v of n+1 steps *)
  Theorem C09_no_left_recursion_sound : forall G : gram, no_left_recursion neqb G = true ->
    forall A α n, ~ derivesN G (S n) [Nt A] (Nt A :: α).
  Proof. exact (no_left_recursion_sound neqb neqb_spec). Qed.

  Theorem C09_no_cycle_sound : forall G : gram, no_cycle neqb G = true ->
    forall A n, ~ derivesN G (S n) [Nt A] [Nt A].
  Proof. exact (no_cycle_sound neqb neqb_spec). Qed.

  (** ... and complete: the graph checkers decide the semantic properties exactly *)
  Theorem C09_no_left_recursion_correct : forall G : gram,
    no_left_recursion neqb G = true <-> forall A α n, ~ derivesN G (S n) [Nt A] (Nt A :: α).
  Proof.
    intros G. split; [exact (no_left_recursion_sound neqb neqb_spec G)|exact (no_left_recursion_complete neqb neqb_spec G)].
  Qed.

  Theorem C09_no_cycle_correct : forall G : gram,
    no_cycle neqb G = true <-> forall A n, ~ derivesN G (S n) [Nt A] [Nt A].
  Proof.
    intros G. split; [exact (no_cycle_sound neqb neqb_spec G)|exact (no_cycle_complete neqb neqb_spec G)].
  Qed.

  (** hence, semantically: after EliminateLeftRecursion no A =>+ A α, after EliminateCycles no A =>+ A *)
  Theorem C09_left_recursion_semantic : forall (order : gram -> list N) (G G' : gram), valid G ->
    (forall G1, NoDup (order G1) /\ forall A, In A (nonterms G1) <-> In A (order G1)) ->
    left_recursion_elim teqb neqb fresh order G = Ok G' ->
    forall A α n, ~ derivesN G' (S n) [Nt A] (Nt A :: α).
  Proof.
    intros order G G' HG Hord H. apply (no_left_recursion_sound neqb neqb_spec).
    exact (elr_post teqb neqb fresh teqb_spec neqb_spec fresh_spec order G G' (valid_wf G HG) Hord H).
  Qed.

  Theorem C09_cycles_semantic : forall G G' : gram, valid G -> cycles_elim teqb neqb fresh G = Ok G' ->
    forall A n, ~ derivesN G' (S n) [Nt A] [Nt A].
  Proof.
    intros G G' HG H. apply (no_cycle_sound neqb neqb_spec).
    exact (cycles_post teqb neqb fresh teqb_spec neqb_spec fresh_spec G G' (valid_wf G HG) H).
  Qed.

  Theorem C09_no_empty_correct : forall G : gram,
    no_empty_except_fresh_start teqb neqb G = true <->
    forall p, In p (prods G) -> body p = [] ->
      head p = start G /\ forall q, In q (prods G) -> ~ In (Nt (start G)) (body q).
  Proof. exact (no_empty_spec teqb neqb teqb_spec neqb_spec). Qed.

  Theorem C09_all_reachable_correct : forall G : gram,
    all_reachable teqb neqb G = true <->
    (forall A, In A (nonterms G) -> reachable (prods G) [start G] A) /\
    (forall p, In p (prods G) -> reachable (prods G) [start G] (head p)) /\
    (forall t, In t (terms G) -> exists p, In p (prods G) /\ In (Tm t) (body p)).
  Proof. exact (all_reachable_spec teqb neqb teqb_spec neqb_spec). Qed.

  (** [left_factored]: no two different alternatives of a head begin with the same symbol *)
  Theorem C09_left_factored_correct : forall G : gram,
    left_factored teqb neqb G = true <->
    forall p q s b1 b2, In p (prods G) -> In q (prods G) -> head p = head q ->
      body p = s :: b1 -> body q = s :: b2 -> p = q.
  Proof. exact (left_factored_spec teqb neqb teqb_spec neqb_spec). Qed.

  (** full statements not (yet) proved on the model; checked on the Go outputs by the driver *)
  Definition C09_verify_full (X : gram -> res gram) : Prop := forall G G' : gram, valid G ->
    X G = Ok G' -> verify teqb neqb G' = true.
  Definition C09_left_factor_post_full : Prop := forall G G' : gram, valid G ->
    left_factor teqb neqb fresh G = Ok G' -> left_factored teqb neqb G' = true.
End C09.

(** * Frame: the receiver is equal to a clone taken before the call (slice-store model).

    [h_del_prods app nullf ps st out] is the production loop of EliminateEmptyProductions on Go's
    representation (Algo.C09.SliceHeap): bodies are slice headers over a store of backing arrays,
    [app] is the way a symbol is appended to a partial body — the built-in [append] with an
    arbitrary growth policy (the code before fix D08a) or [String.Append] (the code now).
    Whatever [app] of the two, whatever the growth policy: no backing array that existed before
    the call is written, hence every (head, body) the receiver — or a clone sharing its bodies,
    as [Productions.Clone] does — holds denotes the same value afterwards. *)
Theorem C09_frame_del :
  forall {E N : Type} (d : E) (grow : nat -> nat -> nat) (nullf : E -> bool)
         (ps G : list (N * hdr)) (st st' : list (list E)) (out out' : list (N * hdr)),
    (h_del_prods (append d grow) nullf ps st out = (st', out') \/
     h_del_prods append_copy nullf ps st out = (st', out')) ->
    (forall p, In p G -> arr (snd p) < length st) ->
    den st' G = den st G.
Proof.
  intros E N d grow nullf ps G st st' out out' [H|H] HG.
  - exact (del_frame (append d grow) nullf ps G st out st' out' (append_ok d (length st) grow) H HG).
  - exact (del_frame append_copy nullf ps G st out st' out' (append_copy_ok (length st)) H HG).
Qed.

(** With [String.Append] (the fixed code) the loop computes exactly the bodies of the value-level
    model ([p_expand] is [Algo.C08.Model.expand], [p_expand_model]) and only allocates. *)
Theorem C09_del_heap_fixed_correct :
  forall {E : Type} (nullf : E -> bool) (b : list E) (bodies : list hdr) (st st' : list (list E)) hs,
    Forall (hvalid st) bodies -> h_expand append_copy nullf b bodies st = (st', hs) ->
    (exists e, st' = st ++ e) /\ map (read st') hs = p_expand nullf b (map (read st) bodies).
Proof.
  intros E nullf b bodies st st' hs Hv H.
  destruct (h_expand_copy nullf b bodies st st' hs Hv H) as (He & _ & Hm). split; [exact He | exact Hm].
Qed.

(** Allocation-only operations ([String.Append] / [Concat], used by all other transformations
    together with sub-slicing) never change what an existing header denotes. *)
Theorem C09_frame_alloc_only :
  forall {E N : Type} (st e : list (list E)) (G : list (N * hdr)),
    (forall p, In p G -> hvalid st (snd p)) -> den (st ++ e) G = den st G.
Proof. intros E N st e G HG. exact (den_ext st e G HG). Qed.

(** Before fix D08a: with the built-in [append] and Go's doubling growth, the body
    1 2 3 4 5 6 with 1..5 nullable yields bodies that differ from the model's: the slices share
    backing arrays from capacity 4 on, the full body 1 2 3 4 5 6 is lost and 1 2 3 5 5 6 appears
    (the Go witness S -> A B C D E f gave A B C E E f). *)
Theorem C09_D08a_refuted_before_fix :
  let nullf := fun s : nat => s <? 6 in
  let b := [1; 2; 3; 4; 5; 6] in
  let r := h_expand (append 0 grow_double) nullf b [empty_slice] [] in
  let got := map (read (fst r)) (snd r) in
  let want := p_expand nullf b [[]] in
  length got = 32 /\ got <> want /\ ~ In b got /\ In [1; 2; 3; 5; 5; 6] got /\ In b want.
Proof.
  vm_compute. repeat split; try discriminate.
  - intros H. repeat (destruct H as [H|H]; [discriminate|]). exact H.
  - repeat (first [left; reflexivity | right]).
  - repeat (first [left; reflexivity | right]).
Qed.

Definition nm (c : N) : name := [c].

(** D09b (known finding): the faithful model of LeftFactor refutes its post-condition:
    S -> a b | a c is returned unchanged. *)
Theorem C09_left_factor_post_refuted :
  exists G G', c_verify G = true /\ c_left_factor G = Ok G' /\ c_left_factored G' = false.
Proof.
  exists (mkGrammar [nm 97; nm 98; nm 99]%N [nm 83%N]
            [mkProd (nm 83%N) [Tm (nm 97%N); Tm (nm 98%N)]; mkProd (nm 83%N) [Tm (nm 97%N); Tm (nm 99%N)]] (nm 83%N)).
  eexists. vm_compute. repeat split.
Qed.

(** D09c (known finding): S -> A b; A -> ε: the result of EliminateEmptyProductions keeps A
    without any production and fails Verify() — [C09_verify_full del] is refuted. *)
Theorem C09_del_verify_refuted :
  exists G G', c_verify G = true /\ c_del G = Ok G' /\ c_verify G' = false.
Proof.
  exists (mkGrammar [nm 98%N] [nm 83%N; nm 65%N]
            [mkProd (nm 83%N) [Nt (nm 65%N); Tm (nm 98%N)]; mkProd (nm 65%N) []] (nm 83%N)).
  eexists. vm_compute. repeat split.
Qed.

(** non-vacuity: (a b)* as S -> a S b S | ε reaches CNF with 10 productions and verifies *)
Example C09_example_cnf :
  let S := nm 83%N in
  let G := mkGrammar [nm 97; nm 98]%N [S]
             [mkProd S [Tm (nm 97%N); Nt S; Tm (nm 98%N); Nt S]; mkProd S []] S in
  match c_chomsky G with
  | Ok G' => c_is_cnf_strict G' = true /\ c_verify G' = true /\ c_verify G = true
  | _ => False
  end.
Proof. vm_compute. repeat split. Qed.

Print Assumptions C09_verify_correct.
Print Assumptions C09_is_cnf_correct.
Print Assumptions C09_no_unit_correct.
Print Assumptions C09_chomsky_post.
Print Assumptions C09_cnf_start_post.
Print Assumptions C09_cnf_term_post.
Print Assumptions C09_cnf_bin_post.
Print Assumptions C09_del_post.
Print Assumptions C09_unit_post.
Print Assumptions C09_unreachable_post.
Print Assumptions C09_del_verify.
Print Assumptions C09_unit_verify.
Print Assumptions C09_unreachable_verify.
Print Assumptions C09_cycles_verify.
Print Assumptions C09_left_factor_verify.
Print Assumptions C09_left_recursion_verify.
Print Assumptions C09_chomsky_verify.
Print Assumptions C09_cycles_post.
Print Assumptions C09_left_factored_correct.
Print Assumptions C09_left_recursion_post.
Print Assumptions C09_left_factor_symbols.
Print Assumptions C09_no_left_recursion_sound.
Print Assumptions C09_no_cycle_sound.
Print Assumptions C09_no_left_recursion_correct.
Print Assumptions C09_no_cycle_correct.
Print Assumptions C09_left_recursion_semantic.
Print Assumptions C09_cycles_semantic.
Print Assumptions C09_no_empty_correct.
Print Assumptions C09_all_reachable_correct.
Print Assumptions C09_frame_del.
Print Assumptions C09_del_heap_fixed_correct.
Print Assumptions C09_frame_alloc_only.
Print Assumptions C09_D08a_refuted_before_fix.
Print Assumptions C09_left_factor_post_refuted.
Print Assumptions C09_del_verify_refuted.
