(** C17 — Union-find tracks the equivalence closure of all unions.
    Statements only; every proof is [exact]/[apply] of a lemma of C17/Proofs.v.
    [run i n ops] is the state of implementation [i] (quick-find, quick-union, weighted
    quick-union) created with [n] elements after the union calls [ops] (any integers). *)
From Algo.C17 Require Import Model Spec Proofs.
Open Scope Z_scope.

(** IsConnected(p,q) is true exactly when p and q are in range and linked by a chain of
    earlier unions. *)
Theorem C17_connected_iff_closure :
  forall (i : impl) (n : nat) (ops : list (Z * Z)) (p q : Z),
    connected (run i n ops) p q = true <-> eqclos n ops p q.
Proof. intros. apply Good_connected, Inv_run. Qed.

(** Find never hangs; it answers (-1,false) exactly for out-of-range arguments, and otherwise
    a representative in range which is itself canonical; two elements get the same
    representative iff they are connected. *)
Theorem C17_find :
  forall (i : impl) (n : nat) (ops : list (Z * Z)),
    (forall p, is_valid n p = false -> find (run i n ops) p = NotFound) /\
    exists rep : Z -> Z,
      (forall p, is_valid n p = true ->
         find (run i n ops) p = Found (rep p) /\ is_valid n (rep p) = true /\ rep (rep p) = rep p) /\
      (forall p q, is_valid n p = true -> is_valid n q = true ->
         (rep p = rep q <-> eqclos n ops p q)).
Proof. intros. destruct (Good_run i n ops) as [_ H1 H2 _]. split; [exact H1 | exact H2]. Qed.

(** Count is the number of canonical representatives, i.e. (by C17_find: representatives are
    canonical, and two canonical elements of one class coincide) the number of classes. *)
Theorem C17_count :
  forall (i : impl) (n : nat) (ops : list (Z * Z)),
    count (run i n ops) = Z.of_nat (length (filter (canonical (run i n ops)) (iota n))).
Proof. intros. apply (g_count _ _ _ (Good_run i n ops)). Qed.

(** Out-of-range arguments change no state at all. *)
Theorem C17_invalid_union_noop :
  forall (i : impl) (n : nat) (ops : list (Z * Z)) (p q : Z),
    is_valid n p = false \/ is_valid n q = false ->
    union (run i n ops) p q = run i n ops.
Proof.
  intros i n ops p q H. apply union_invalid_noop.
  now rewrite (g_len _ _ _ (Good_run i n ops)).
Qed.

(** The three implementations agree on every observable query. *)
Theorem C17_implementations_agree :
  forall (i j : impl) (n : nat) (ops : list (Z * Z)) (p q : Z),
    connected (run i n ops) p q = connected (run j n ops) p q.
Proof.
  intros. apply Bool.eq_true_iff_eq. now rewrite !C17_connected_iff_closure.
Qed.

(** Non-vacuity: a concrete history with a chain, an ignored invalid union and a merge of trees. *)
Example C17_example :
  let ops := [(0,1); (2,3); (-1,2); (1,3); (4,9)] in
  map (fun i => (count (run i 5 ops), connected (run i 5 ops) 0 2, connected (run i 5 ops) 0 4,
                 find (run i 5 ops) 5)) [QF; QU; WQU]
  = [(2, true, false, NotFound); (2, true, false, NotFound); (2, true, false, NotFound)].
Proof. vm_compute. reflexivity. Qed.

Print Assumptions C17_connected_iff_closure.
Print Assumptions C17_find.
Print Assumptions C17_count.
Print Assumptions C17_invalid_union_noop.
Print Assumptions C17_implementations_agree.
