(** C02 — hash tables behave as a map for any hash function, options and history.
    (first stage: the model and its non-vacuity examples; the refinement theorems follow) *)
From Algo.C02 Require Import Model.

(** Non-vacuity: one history on each of the four tables under the constant hash function
    (every key collides): put 40 keys (all tables grow at least once), delete and revive some. *)
Definition ex_hist (kd : kind) : res (nat * list (option nat)) :=
  let eqb := Nat.eqb in
  let hash := fun _ : nat => 0%N in
  let minlf := match kd with Chain => {| lf_num := 2; lf_den := 1 |} | _ => {| lf_num := 1; lf_den := 8 |} end in
  let maxlf := match kd with Chain => {| lf_num := 10; lf_den := 1 |} | _ => {| lf_num := 1; lf_den := 2 |} end in
  let idl := fun l : list nat => l in
  let putk := fun (r : res (table nat nat)) k => bind r (fun t => put nat nat eqb hash maxlf idl t k (k + 100)) in
  let delk := fun (r : res (table nat nat)) k =>
                bind r (fun t => bind (delete nat nat eqb hash minlf maxlf idl t k) (fun p => Ok (fst p))) in
  let t1 := fold_left putk (seq 0 41) (create nat nat kd 0) in
  let t2 := fold_left delk [3; 5; 7] t1 in
  let t3 := fold_left putk [5] t2 in
  bind t3 (fun t => bind (get nat nat eqb hash t 5) (fun g5 => bind (get nat nat eqb hash t 7) (fun g7 =>
    bind (get nat nat eqb hash t 40) (fun g40 => Ok (size nat nat t, [g5; g7; g40]))))).

Example C02_example :
  map ex_hist [Chain; Linear; Quadratic; Double]
  = repeat (Ok (39, [Some 105; None; Some 140])) 4.
Proof. vm_compute. reflexivity. Qed.
