(** C02 — hash tables behave as a map for any hash function, options and history.
    Statements only; proofs live in C02/.

    [run K V eqb eqv hash minlf maxlf orc kd cap ops] (C02/Spec.v) creates two tables of kind [kd] with
    initial capacity [cap] (0 = default) and executes the history [ops] — Put, Get, Delete, DeleteAll,
    Size, IsEmpty, All on either table and [Equal] of one against the other — on the model of
    C02/Model.v; [orc i j] is the permutation drawn by the j-th [All()] inside the i-th operation.
    [run_spec] executes the same history on two abstract maps (duplicate-free association lists).
    [outs_match]: the outputs agree pointwise (All up to permutation) and no model output is a
    failure ([RFail]: Panic or Hang). *)
From Coq Require Import List NArith Permutation.
From Algo.C02 Require Import Model Spec ProofsChain ProofsLinear ProofsPrime ProofsQuad ProofsDouble ProofsGap.
Import ListNotations.

(** Separate chaining: full refinement, for every key/value type with a decidable equality, every
    hash function, all options with maxLF*4 >= 1 — no relation between minLF and maxLF is needed: when
    maxLF < 2*minLF the table rebuilt by a shrink grows again while entries are re-inserted (a resize
    nested in a resize), which the proof covers (nesting never goes deeper: the inner growth re-inserts
    only the entries accumulated so far, whose load in the doubled table is below maxLF/2) — the
    default or any power-of-two capacity >= 4, every iteration oracle and every history. *)
Theorem C02_refines_chain :
  forall (K V : Type) (eqb : K -> K -> bool) (eqv : V -> V -> bool) (hash : K -> N) (minlf maxlf : lf),
    (forall a b, eqb a b = true <-> a = b) ->
    valid_chain minlf maxlf ->
    forall (cap : nat), valid_cap_chain cap ->
    forall (orc : nat -> nat -> list nat -> list nat), (forall i j l, Permutation (orc i j l) l) ->
    forall ops : list (op K V),
      outs_match K V (run K V eqb eqv hash minlf maxlf orc Chain cap ops) (run_spec K V eqb eqv ops).
Proof. intros. apply chain_refines; auto. Qed.

(** Linear probing: full refinement — including the cluster re-insertion loop of Delete — for every
    key/value type with a decidable equality, every hash function, all options with
    maxLF <= 1/2 and maxLF*31 >= 1 (any minLF: nested resizes during a shrink are covered),
    the default or any power-of-two capacity >= 32, every iteration oracle and every history. *)
Theorem C02_refines_linear :
  forall (K V : Type) (eqb : K -> K -> bool) (eqv : V -> V -> bool) (hash : K -> N) (minlf maxlf : lf),
    (forall a b, eqb a b = true <-> a = b) ->
    valid_open minlf maxlf ->
    forall (cap : nat), valid_cap_linear cap ->
    forall (orc : nat -> nat -> list nat -> list nat), (forall i j l, Permutation (orc i j l) l) ->
    forall ops : list (op K V),
      outs_match K V (run K V eqb eqv hash minlf maxlf orc Linear cap ops) (run_spec K V eqb eqv ops).
Proof. intros. apply linear_refines; auto. Qed.

(** Quadratic probing with soft deletion (after the fixes of D02, D03, D03b).  The full statement: *)
Definition C02_refines_quadratic_full : Prop :=
  forall (K V : Type) (eqb : K -> K -> bool) (eqv : V -> V -> bool) (hash : K -> N) (minlf maxlf : lf),
    (forall a b, eqb a b = true <-> a = b) ->
    valid_soft minlf maxlf ->
    forall (cap : nat), valid_cap_prime cap ->
    forall (orc : nat -> nat -> list nat -> list nat), (forall i j l, Permutation (orc i j l) l) ->
    forall ops : list (op K V),
      outs_match K V (run K V eqb eqv hash minlf maxlf orc Quadratic cap ops) (run_spec K V eqb eqv ops).

(** Proved: the full statement under one number-theoretic hypothesis, [prime_gap] (Bertrand's postulate
    restricted to n >= 31: there is a prime in [n, 2n+1]), which is what makes the search loop of
    [smallestPrimeLargerThan] terminate within the model's fuel.  Everything else is proved: [isPrime]
    is sound, the first (m+1)/2 quadratic probes of a prime-sized table are pairwise distinct, fewer than
    (m+1)/2 slots are ever non-nil (live + soft-deleted), n counts the live entries, keys are pairwise
    distinct, every entry is reachable along its probe sequence, resizes never nest.
    Options ([valid_soft]): maxLF <= 1/2 and maxLF*31 >= 1 — any minLF: when the table rebuilt by a
    shrink grows again while entries are re-inserted (maxLF < 2*minLF, or e.g. (3/16, 3/8) at m = 107,
    n = 20: new size 53, the 20th re-insertion grows it) every inner step is an ordinary Put on a table
    satisfying the invariant, and the nesting stops there.  Capacities: the default or any prime >= 31.
    Excluded, and outside the property's domain ("bounds no looser than the defaults"): maxLF > 1/2
    (see [C02_quadratic_maxlf_above_half_hangs] below: the code itself hangs) and maxLF*31 < 1.
    The hypothesis is checked at run time: the correspondence compares
    the table size after every resize with the implementation's. *)
Theorem C02_refines_quadratic_partial : prime_gap -> C02_refines_quadratic_full.
Proof. intros G K V eqb eqv hash minlf maxlf He Hv cap Hc orc Ho ops. apply quad_refines; auto. Qed.

(** The same without any hypothesis, for histories of bounded length: a Put grows the table only when
    (n+1)/m >= maxLF and n is at most the number of operations so far, so a history of [length ops]
    operations only needs primes in [2m, 4m+1] for 2m <= 2*(length ops)/maxLF; the prime gap is checked
    by computation up to [gap_bound] = 2^31 (C02/ProofsGap.v).  With the default maxLF = 1/2 this covers
    every history of up to 2^29 operations. *)
Theorem C02_refines_quadratic_bounded :
  forall (K V : Type) (eqb : K -> K -> bool) (eqv : V -> V -> bool) (hash : K -> N) (minlf maxlf : lf),
    (forall a b, eqb a b = true <-> a = b) ->
    valid_soft minlf maxlf ->
    forall (cap : nat), valid_cap_prime cap ->
    forall (orc : nat -> nat -> list nat -> list nat), (forall i j l, Permutation (orc i j l) l) ->
    forall ops : list (op K V),
      2 * lf_den maxlf * length ops <= lf_num maxlf * gap_bound ->
      outs_match K V (run K V eqb eqv hash minlf maxlf orc Quadratic cap ops) (run_spec K V eqb eqv ops).
Proof.
  intros K V eqb eqv hash minlf maxlf He Hv cap Hc orc Ho ops Hl.
  apply (quad_refines_gen K V eqb eqv hash minlf maxlf He Hv gap_bound (length ops) prime_gap_checked Hl); auto.
Qed.

(** Double hashing with soft deletion (after the fixes of D02, D03): same shape; options ([valid_dbl]):
    maxLF <= 1/2, maxLF*31 >= 1, any minLF.  Proved in addition to
    the items listed for quadratic probing: the step h2 computed by [probe] is never a multiple of the
    prime size, so the m probes h1 + i*h2 are pairwise distinct, and (live + soft-deleted) < m always. *)
Definition C02_refines_double_full : Prop :=
  forall (K V : Type) (eqb : K -> K -> bool) (eqv : V -> V -> bool) (hash : K -> N) (minlf maxlf : lf),
    (forall a b, eqb a b = true <-> a = b) ->
    valid_dbl minlf maxlf ->
    forall (cap : nat), valid_cap_prime cap ->
    forall (orc : nat -> nat -> list nat -> list nat), (forall i j l, Permutation (orc i j l) l) ->
    forall ops : list (op K V),
      outs_match K V (run K V eqb eqv hash minlf maxlf orc Double cap ops) (run_spec K V eqb eqv ops).

Theorem C02_refines_double_partial : prime_gap -> C02_refines_double_full.
Proof. intros G K V eqb eqv hash minlf maxlf He Hv cap Hc orc Ho ops. apply double_refines; auto. Qed.

Theorem C02_refines_double_bounded :
  forall (K V : Type) (eqb : K -> K -> bool) (eqv : V -> V -> bool) (hash : K -> N) (minlf maxlf : lf),
    (forall a b, eqb a b = true <-> a = b) ->
    valid_dbl minlf maxlf ->
    forall (cap : nat), valid_cap_prime cap ->
    forall (orc : nat -> nat -> list nat -> list nat), (forall i j l, Permutation (orc i j l) l) ->
    forall ops : list (op K V),
      2 * lf_den maxlf * length ops <= lf_num maxlf * gap_bound ->
      outs_match K V (run K V eqb eqv hash minlf maxlf orc Double cap ops) (run_spec K V eqb eqv ops).
Proof.
  intros K V eqb eqv hash minlf maxlf He Hv cap Hc orc Ho ops Hl.
  apply (double_refines_gen K V eqb eqv hash minlf maxlf He Hv gap_bound (length ops) prime_gap_checked Hl); auto.
Qed.

(** [gap_bound] is 2^31 *)
Example C02_gap_bound_value : N.of_nat gap_bound = 2147483648%N.
Proof. exact gap_bound_N. Qed.

(** The instances of [prime_gap] for every size up to [gap_bound] = 2^31 are checked by computation. *)
Theorem C02_prime_gap_checked : prime_gap_upto gap_bound.
Proof. exact prime_gap_checked. Qed.

(** Non-vacuity: one history on each of the four tables under the constant hash function
    (every key collides): put 40 keys (all tables grow at least once), delete and revive some. *)
Definition ex_hist (kd : kind) : res (nat * list (option nat)) :=
  let eqb := Nat.eqb in
  let hash := fun _ : nat => 0%N in
  let minlf := match kd with Chain => {| lf_num := 2; lf_den := 1 |} | _ => {| lf_num := 1; lf_den := 8 |} end in
  let maxlf := match kd with Chain => {| lf_num := 10; lf_den := 1 |} | _ => {| lf_num := 1; lf_den := 2 |} end in
  let idl := fun l : list nat => l in
  let putk := fun (r : res (table nat nat)) k => bind r (fun t => put nat nat eqb hash maxlf idl t k (k + 100)) in
  let delk := fun (r : res (table nat nat)) k =>
                bind r (fun t => bind (delete nat nat eqb hash minlf maxlf idl t k) (fun p => Ok (fst p))) in
  let t1 := fold_left putk (seq 0 41) (create nat nat kd 0) in
  let t2 := fold_left delk [3; 5; 7] t1 in
  let t3 := fold_left putk [5] t2 in
  bind t3 (fun t => bind (get nat nat eqb hash t 5) (fun g5 => bind (get nat nat eqb hash t 7) (fun g7 =>
    bind (get nat nat eqb hash t 40) (fun g40 => Ok (size nat nat t, [g5; g7; g40]))))).

Example C02_example :
  map ex_hist [Chain; Linear; Quadratic; Double]
  = repeat (Ok (39, [Some 105; None; Some 140])) 4.
Proof. vm_compute. reflexivity. Qed.

(** the options and capacities of the theorems are inhabited by the defaults *)
Example C02_chain_defaults_valid :
  valid_chain {| lf_num := 2; lf_den := 1 |} {| lf_num := 10; lf_den := 1 |} /\ valid_cap_chain 0 /\ valid_cap_chain 64.
Proof.
  split; [unfold valid_chain; simpl; repeat split; auto with arith|].
  split; [left; reflexivity|right; exists 6; split; auto with arith].
Qed.

Example C02_open_defaults_valid :
  valid_open {| lf_num := 1; lf_den := 8 |} {| lf_num := 1; lf_den := 2 |} /\ valid_cap_linear 0 /\ valid_cap_linear 128.
Proof.
  split; [unfold valid_open; simpl; repeat split; auto with arith|].
  split; [left; reflexivity|right; exists 7; split; auto with arith].
Qed.

Example C02_soft_defaults_valid :
  valid_soft {| lf_num := 1; lf_den := 8 |} {| lf_num := 1; lf_den := 2 |} /\
  valid_soft {| lf_num := 3; lf_den := 16 |} {| lf_num := 3; lf_den := 8 |} /\
  valid_soft {| lf_num := 3; lf_den := 8 |} {| lf_num := 1; lf_den := 2 |} /\
  valid_dbl {| lf_num := 1; lf_den := 4 |} {| lf_num := 3; lf_den := 8 |} /\
  valid_cap_prime 0 /\ valid_cap_prime 67.
Proof.
  split; [unfold valid_soft; simpl; repeat split; auto 20 with arith|].
  split; [unfold valid_soft; simpl; repeat split; auto 20 with arith|].
  split; [unfold valid_soft; simpl; repeat split; auto 20 with arith|].
  split; [unfold valid_dbl; simpl; repeat split; auto 20 with arith|].
  split; [left; reflexivity|right; split; [|reflexivity]].
  repeat constructor.
Qed.

(** Why maxLF <= 1/2 is needed for quadratic probing (outside the property's domain, which only admits
    bounds no looser than the defaults): with maxLF = 9/10 and a constant hash the 17th Put finds none of
    the 16 slots its probe sequence can reach empty, and never returns — in the model and in the code. *)
Example C02_quadratic_maxlf_above_half_hangs :
  let put := fun (r : res (table nat nat)) k =>
               bind r (fun t => put nat nat Nat.eqb (fun _ => 0%N) {| lf_num := 9; lf_den := 10 |} (fun l => l) t k k) in
  fold_left put (seq 0 16) (create nat nat Quadratic 0) <> Hang /\
  fold_left put (seq 0 17) (create nat nat Quadratic 0) = Hang.
Proof. vm_compute. split; [discriminate|reflexivity]. Qed.

Print Assumptions C02_refines_chain.
Print Assumptions C02_refines_linear.
Print Assumptions C02_refines_quadratic_partial.
Print Assumptions C02_refines_double_partial.
Print Assumptions C02_refines_quadratic_bounded.
Print Assumptions C02_refines_double_bounded.
Print Assumptions C02_prime_gap_checked.
