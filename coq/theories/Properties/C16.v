(** C16 — sets obey set algebra across all implementations, powersets and partitions.
    (first stage: executable sanity facts; the theorems follow) *)
From Algo.C16 Require Import Model.

Example C16_bell_values : map bell [0;1;2;3;4;5;6] = [1;1;2;5;15;52;203].
Proof. vm_compute. reflexivity. Qed.

Print Assumptions C16_bell_values.
