(** C16 — sets obey set algebra across all implementations, powersets and partitions.
    Statements only; proofs are in C16/Proofs*.v.

    Vocabulary (C16/Spec.v): a mathematical finite set is a duplicate-free list [S];
    [repr k S l] says that the member sequence [l] of a set of kind [k] (unordered, stable,
    sorted) represents [S]: [l = S] (order of insertion) for the unordered and the stable set,
    the comparator-sorted permutation of [S] for the sorted set.  [inv s] = [s] is duplicate
    free, and sorted if its kind is [Sorted].  The element type has an equality function that
    decides Leibniz equality; every sorted set carries its own comparator ([Sorted c] uses [cmp c]),
    each a strict total order consistent with equality, so ascending, descending and
    magnitude-returning comparators may be mixed freely in one program;
    the oracle [draw] behind the unordered set's random iteration is arbitrary. *)
From Coq Require Import Permutation Sorted.
From Algo.C16 Require Import Model Spec ProofsList ProofsSet ProofsHeap ProofsProg ProofsPower ProofsPart.
Local Open Scope Z_scope.

Section C16.
  Variable A : Type.
  Variable eqb : A -> A -> bool.
  Variable cmp : nat -> A -> A -> Z.   (* [cmp c] is the comparator of the sorted sets of kind [Sorted c] *)
  Variable draw : nat -> nat.
  Hypothesis eqb_spec : forall x y, eqb x y = true <-> x = y.
  Hypothesis cmp_eq : forall c x y, cmp c x y = 0 <-> x = y.
  Hypothesis cmp_anti : forall c x y, cmp c x y < 0 <-> 0 < cmp c y x.
  Hypothesis cmp_trans : forall c x y z, cmp c x y < 0 -> cmp c y z < 0 -> cmp c x z < 0.

  (** After any history of Add/Remove/RemoveAll (any arguments) each implementation represents
      the mathematical set computed by the specification; nothing panics or hangs. *)
  Theorem C16_history_refines :
    forall (k : kind) (h : list (mut A)),
      exists l, vrun_hist A eqb cmp (vnew A k) h = Ok (mkv k l) /\ repr A cmp k (s_run A eqb h) l.
  Proof. intros; eapply history_refines; eauto. Qed.

  (** Every query of a set that represents [S] answers as the mathematical set does:
      Contains, Size, IsEmpty, All (a permutation for every oracle; exactly the insertion order
      for the stable set; exactly the comparator order for the sorted set), AnyMatch, AllMatch,
      FirstMatch (some member satisfying the predicate iff one exists). *)
  Theorem C16_queries :
    forall (k : kind) (S l : list A), repr A cmp k S l ->
      (forall vs, vcontains A eqb cmp (mkv k l) vs = Ok (forallb (fun v => existsb (fun m => eqb m v) S) vs)) /\
      vsize A (mkv k l) = length S /\
      visEmpty A (mkv k l) = Nat.eqb (length S) 0 /\
      (forall t, exists r t', vall A draw (mkv k l) t = Ok (r, t') /\ Permutation r S /\
                              (k = Stable -> r = S) /\
                              (forall c, k = Sorted c -> StronglySorted (ltc (cmp c)) r)) /\
      (forall p, vanyMatch A (mkv k l) p = existsb p S) /\
      (forall p, vallMatch A (mkv k l) p = forallb p S) /\
      (forall p, match vfirstMatch A (mkv k l) p with
                 | Some x => In x S /\ p x = true
                 | None => forall x, In x S -> p x = false
                 end).
  Proof. intros; eapply queries_repr; eauto. Qed.

  (** Equal / IsSubset / IsSuperset between any two implementations — including two sorted sets
      ordered by different comparators ([k1 = Sorted c1], [k2 = Sorted c2]) — decide set equality
      and inclusion of the represented sets. *)
  Theorem C16_comparisons :
    forall k1 S1 l1 k2 S2 l2 t, repr A cmp k1 S1 l1 -> repr A cmp k2 S2 l2 ->
      (exists b, vequal A eqb cmp (mkv k1 l1) (mkv k2 l2) = Ok b /\ (b = true <-> set_equiv A S1 S2)) /\
      (exists b t', visSubset A eqb cmp draw (mkv k1 l1) (mkv k2 l2) t = Ok (b, t') /\ (b = true <-> incl S1 S2)) /\
      (exists b t', visSuperset A eqb cmp draw (mkv k1 l1) (mkv k2 l2) t = Ok (b, t') /\ (b = true <-> incl S2 S1)).
  Proof. intros; eapply comparisons_repr; eauto. Qed.

  (** Union / Intersection / Difference with any number and any mix of implementations as
      arguments return a well-formed set of the receiver's kind denoting the union, the
      intersection, the difference; a stable (or unordered) receiver's members keep their order
      (union appends, intersection and difference filter). *)
  Theorem C16_union :
    forall (s : vset A) (sets : list (vset A)) t, inv A cmp s -> Forall (inv A cmp) sets ->
      exists u t', vunion A eqb cmp draw s sets t = Ok (u, t') /\ inv A cmp u /\ vk u = vk s /\
        (forall x, In x (vm u) <-> In x (vm s) \/ exists r, In r sets /\ In x (vm r)) /\
        (linear (vk s) -> exists ext, vm u = vm s ++ ext).
  Proof. intros; eapply vunion_spec; eauto. Qed.

  Theorem C16_intersection :
    forall (s : vset A) (sets : list (vset A)), inv A cmp s -> Forall (inv A cmp) sets ->
      exists u, vintersection A eqb cmp s sets = Ok u /\ inv A cmp u /\ vk u = vk s /\
        (forall x, In x (vm u) <-> In x (vm s) /\ forall r, In r sets -> In x (vm r)) /\
        (linear (vk s) -> exists f, vm u = filter f (vm s)).
  Proof. intros; eapply vintersection_spec; eauto. Qed.

  Theorem C16_difference :
    forall (s : vset A) (sets : list (vset A)) t, inv A cmp s -> Forall (inv A cmp) sets ->
      exists u t', vdifference A eqb cmp draw s sets t = Ok (u, t') /\ inv A cmp u /\ vk u = vk s /\
        (forall x, In x (vm u) <-> In x (vm s) /\ forall r, In r sets -> ~ In x (vm r)) /\
        (linear (vk s) -> exists f, vm u = filter f (vm s)).
  Proof. intros; eapply vdifference_spec; eauto. Qed.

  (** Powerset, for every oracle: 2^n members; each a well-formed set of the operand's kind
      and a subset of the operand; pairwise different as sets; every subset of the operand
      (given as a duplicate-free list) occurs. *)
  Theorem C16_powerset :
    forall (s : vset A) (t : nat), inv A cmp s ->
      exists PS t', powerset A eqb cmp draw (S (length (vm s))) s t = Ok (PS, t') /\ vk PS = Unordered /\
        length (vm PS) = (2 ^ length (vm s))%nat /\
        Forall (fun a => inv A cmp a /\ vk a = vk s /\ incl (vm a) (vm s)) (vm PS) /\
        distinct A (vm PS) /\
        (forall l, NoDup l -> incl l (vm s) -> exists a, In a (vm PS) /\ set_equiv A (vm a) l).
  Proof. intros; eapply powerset_spec; eauto. Qed.

  (** Partitions, for every oracle: Bell(n) members (Bell numbers by the Stirling recurrence the
      code follows: exactly stirling2 n j members have j blocks); each member is a partition of
      the operand — blocks are well-formed non-empty sets of the operand's kind, pairwise
      disjoint, covering exactly the operand; members are pairwise different partitions; and
      every partition of the operand (given abstractly as non-empty pairwise disjoint covering
      lists) occurs: some member has, as sets, exactly its blocks. *)
  Theorem C16_partitions :
    forall (s : vset A) (t : nat), inv A cmp s ->
      exists Ps t', partitions A eqb cmp draw (S (length (vm s))) s t = Ok (Ps, t') /\ vk Ps = Unordered /\
        length (vm Ps) = bell (length (vm s)) /\
        (forall j, cnt A j (vm Ps) = stirling2 (length (vm s)) j) /\
        Forall (goodpart A cmp (vk s) (vm s)) (vm Ps) /\
        pdistinct A (vm Ps) /\
        complete A (vm s) (vm Ps).
  Proof.
    intros s t Hs.
    destruct (partitions_spec A eqb cmp draw eqb_spec cmp_eq cmp_anti cmp_trans (S (length (vm s))) s t Hs (le_n _))
      as (Ps & t' & H & K & F & D & C & B & Com).
    exists Ps, t'. split; [exact H|]. split; [exact K|]. split; [|auto].
    eapply (partitions_count A eqb cmp draw); eauto.
  Qed.

  (** *** The heap layer: Go slices on a store of backing arrays, any growth policy of append.
      [abs h] reads every object of heap [h] as a set value; [good h] = no two objects share a
      backing array, every slice header lies within its array, and every object is a
      well-formed set.  [hexec]/[hrun] run commands on the heap layer, [vexec]/[vrun] the same
      commands on set values, where operands are looked up and never changed. *)
  Local Open Scope nat_scope.
  Variable zero : A.
  Variable grow : nat -> nat -> nat.
  Hypothesis grow_ok : forall c n, n <= grow c n.

  (** Any command (Add/Remove/RemoveAll, every query, Clone, CloneEmpty, Union/Intersection/
      Difference with any number and mix of operands, SelectMatch, PartitionMatch) on a reachable
      heap whose references exist: succeeds (no panic), returns what the value layer returns on
      the abstraction, keeps the heap reachable, and modifies no object other than the receiver of
      a mutator — in particular no operand of Union/Intersection/Difference/Equal/IsSubset/... *)
  Theorem C16_no_operand_modified :
    forall (c : cmd A) (h : heap A), good A cmp h -> hvalid A h c ->
      exists o h', hexec A zero grow eqb cmp draw h c = Ok (o, h') /\ good A cmp h' /\
        vexec A eqb cmp draw (mkvs A (abs A h) (tick h)) c = Ok (o, mkvs A (abs A h') (tick h')) /\
        length (objs h) <= length (objs h') /\
        (forall y, y < length (objs h) -> target A c <> Some y ->
                   nth_error (abs A h') y = nth_error (abs A h) y).
  Proof. intros; eapply hexec_good; eauto. Qed.

  (** Every well-scoped program from the empty heap runs without panic and yields exactly the
      outputs and final set values of the value layer. *)
  Theorem C16_heap_refines_values :
    forall (cs : list (cmd A)), scoped A 0 cs ->
      exists outs h', hrun A zero grow eqb cmp draw (empty_heap A) cs = Ok (outs, h') /\ good A cmp h' /\
        vrun A eqb cmp draw (mkvs A [] 0) cs = Ok (outs, mkvs A (abs A h') (tick h')).
  Proof. intros cs H. eapply (hrun_good A zero grow eqb cmp draw); eauto. apply good_empty. Qed.

  (** End to end on the heap layer: after New and any history of Add/Remove/RemoveAll on that
      object the heap holds one well-formed object whose member slice represents the
      mathematical set of the history (insertion order / comparator order as for [repr]). *)
  Theorem C16_heap_history :
    forall (k : kind) (hist : list (mut A)),
      exists h' l, hrun A zero grow eqb cmp draw (empty_heap A) (CNew A k :: map (cmd_of_mut A) hist)
                   = Ok (ORef A 0 :: map (fun _ => OUnit A) hist, h') /\
        good A cmp h' /\ abs A h' = [mkv k l] /\ repr A cmp k (s_run A eqb hist) l.
  Proof. intros; eapply heap_history; eauto. Qed.

  (** Clone is independent of its source: the clone is a new object with the same members whose
      backing array is shared with no other object; any sequence of Add/Remove/RemoveAll applied
      to the clone leaves the source's value unchanged, and vice versa. *)
  Theorem C16_clone_independent :
    forall (h : heap A) (r : nat), good A cmp h -> r < length (objs h) ->
      exists c h1, h_clone A zero h r = Ok (c, h1) /\ good A cmp h1 /\ c = length (objs h) /\ c <> r /\
        nth_error (abs A h1) r = nth_error (abs A h) r /\
        nth_error (abs A h1) c = option_map (vclone A) (nth_error (abs A h) r) /\
        shared_arrays A h1 = [] /\
        (forall cs, targets A c cs ->
           exists outs h2, hrun A zero grow eqb cmp draw h1 cs = Ok (outs, h2) /\ good A cmp h2 /\
                           nth_error (abs A h2) r = nth_error (abs A h) r) /\
        (forall cs, targets A r cs ->
           exists outs h2, hrun A zero grow eqb cmp draw h1 cs = Ok (outs, h2) /\ good A cmp h2 /\
                           nth_error (abs A h2) c = nth_error (abs A h1) c).
  Proof. intros; eapply clone_independent; eauto. Qed.

  (** On every reachable heap no two objects share a backing array (the observable the harness
      checks through the VerifMembers hook). *)
  Theorem C16_no_shared_arrays : forall h : heap A, good A cmp h -> shared_arrays A h = [].
  Proof. intros h [W _]. now apply wfh_no_shared. Qed.
End C16.

(** Non-vacuity: Go [int] with the natural order satisfies the laws; a concrete history. *)
Example C16_example :
  let h := [MAdd Z [3;1;2]%Z; MRemove Z [1]%Z; MAdd Z [0;3]%Z] in
  map (fun k => match vrun_hist Z Z.eqb cmpsZ (vnew Z k) h with Ok s => vm s | _ => [] end)
      [Unordered; Stable; Sorted 0; Sorted 1; Sorted 3]
  = [[3;2;0]; [3;2;0]; [0;2;3]; [3;2;0]; [0;2;3]]%Z.
Proof. vm_compute. reflexivity. Qed.

Example C16_powerset_partitions_example :
  let s := mkv (Sorted 0) [1;2;3]%Z in
  (match powerset Z Z.eqb cmpsZ draw_id 4 s 0 with Ok (PS, _) => map (@vm Z) (vm PS) | _ => [] end,
   match partitions Z Z.eqb cmpsZ draw_id 4 s 0 with Ok (Ps, _) => map (fun P => map (@vm Z) (vm P)) (vm Ps) | _ => [] end)
  = ([[]; [1]; [2]; [1;2]; [3]; [1;3]; [2;3]; [1;2;3]],
     [[[1];[2];[3]]; [[1;2];[3]]; [[2];[1;3]]; [[1];[2;3]]; [[1;2;3]]])%Z.
Proof. vm_compute. reflexivity. Qed.

(** Non-vacuity of the mixed-comparator case: an ascending and a descending sorted set with the
    same members are Equal in both directions, each is a subset of the other, and a set of sets
    keeps only one of them. *)
Example C16_mixed_comparators_example :
  let a := mkv (Sorted 0) [1;2;3]%Z in          (* ascending, comparator returns -1/0/1 *)
  let d := mkv (Sorted 4) [3;2;1]%Z in          (* descending, comparator returns b-a *)
  (vequal Z Z.eqb cmpsZ a d, vequal Z Z.eqb cmpsZ d a,
   visSubset Z Z.eqb cmpsZ draw_id a d 0, visSuperset Z Z.eqb cmpsZ draw_id a d 0,
   match vadd (vset Z) (set_eq Z Z.eqb cmpsZ) nocmp (vnew (vset Z) Unordered) [a; d] with Ok s => length (vm s) | _ => 0%nat end)
  = (Ok true, Ok true, Ok (true, 0%nat), Ok (true, 0%nat), 1%nat).
Proof. vm_compute. reflexivity. Qed.

Example C16_bell_values : (map bell [0;1;2;3;4;5;6] = [1;1;2;5;15;52;203])%nat.
Proof. vm_compute. reflexivity. Qed.

Print Assumptions C16_history_refines.
Print Assumptions C16_queries.
Print Assumptions C16_comparisons.
Print Assumptions C16_union.
Print Assumptions C16_intersection.
Print Assumptions C16_difference.
Print Assumptions C16_powerset.
Print Assumptions C16_partitions.
Print Assumptions C16_no_operand_modified.
Print Assumptions C16_heap_refines_values.
Print Assumptions C16_heap_history.
Print Assumptions C16_clone_independent.
Print Assumptions C16_no_shared_arrays.
