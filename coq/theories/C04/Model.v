(** C04 — executable model of heap/binary.go, heap/binomial.go, heap/fibonacci.go
    (the non-indexed heaps of moorara/algo).

    Transcription conventions
    - Go [int] sizes, indices, orders and degrees are [nat]; comparator results are [Z]
      ([cmpKey(a,b) > 0], [< 0], [== 0], [<= 0] are tested exactly as in the Go code).
    - The binary heap's slice [heap []*KeyValue] is a [list (option (K*V))]; [None] is a nil
      pointer.  An index out of range or the dereference of a nil slot is the result [Panic].
    - A binomial tree node (LCRS in Go) is [BNode key val order children], children in sibling
      order from the [child] pointer; the root list is the sibling list from [head].
    - A Fibonacci node is [FNode key val degree children], children in ring order ([next])
      starting at the [child] pointer; the root ring is the list that starts at [h.ext].
      Inside [consolidate], where the Go code compares and stores node pointers
      ([y != x], [roots[d] = x], [curr == stop]), the root nodes are numbered by their position
      in the ring at entry and these numbers play the role of the pointers.
    - Loops without a structural argument run on fuel; exhaustion is the result [Hang].
    - [Merge] shares the nodes of the argument heap with the receiver; the pool marks the argument
      heap dead and every later use of it is answered [OSkip] (outside the property's domain).
    No proofs here. *)
From Coq Require Export List ZArith Bool Arith.
Export ListNotations.

Inductive res (A : Type) : Type := Ok (a : A) | Panic | Hang.
Arguments Ok {A} a.
Arguments Panic {A}.
Arguments Hang {A}.

Definition bind {A B : Type} (r : res A) (f : A -> res B) : res B :=
  match r with Ok a => f a | Panic => Panic | Hang => Hang end.
Notation "x <- r ;; k" := (bind r (fun x => k)) (at level 61, r at next level, right associativity).
Notation "' pat <- r ;; k" := (bind r (fun x => match x with pat => k end))
  (at level 61, pat pattern, r at next level, right associativity).

Fixpoint upd {A : Type} (l : list A) (i : nat) (x : A) : list A :=
  match l, i with
  | [], _ => []
  | _ :: t, O => x :: t
  | h :: t, S i' => h :: upd t i' x
  end.

(** * The size of the degree table of the Fibonacci heap

    Go: [int(math.Log(float64(n))/math.Log(φ)) + 1], i.e. [1 + max {d | φ^d <= n}] for [n >= 1].
    With Fibonacci and Lucas numbers [2 φ^d = L_d + F_d √5], so
    [φ^d <= n  <->  L_d <= 2n /\ 5 F_d² <= (2n - L_d)²].  The agreement of this exact definition
    with the float64 expression is swept by the harness on every run. *)
Fixpoint phi_count (fuel : nat) (n : Z) (f l f' l' : Z) : nat :=
  match fuel with
  | O => O
  | S fu =>
      if ((l' <=? 2 * n) && (5 * f' * f' <=? (2 * n - l') * (2 * n - l')))%Z
      then S (phi_count fu n f' l' (f + f')%Z (l + l')%Z)
      else O
  end.

Definition max_degree_z (n : Z) : nat :=
  S (phi_count (2 * Z.to_nat (Z.log2 n) + 2) n 0 2 1 1).

Definition max_degree (n : nat) : nat := max_degree_z (Z.of_nat n).

Section Model.
  Variables K V : Type.
  Variable cmp : K -> K -> Z.       (* generic.CompareFunc[K] *)
  Variable eqv : V -> V -> bool.    (* generic.EqualFunc[V]   *)

  Definition entry : Type := (K * V)%type.

  Definition has_key (key : K) (e : entry) : bool := (cmp (fst e) key =? 0)%Z.
  Definition has_val (val : V) (e : entry) : bool := eqv (snd e) val.

  (** * Operations and outputs *)
  Inductive act : Type :=
  | Insert (k : K) (v : V) | Delete | Peek | DeleteAll | Size | IsEmpty
  | ContainsKey (k : K) | ContainsValue (v : V)
  | Merge (j : nat).

  Inductive out : Type :=
  | ONone                        (* the method returns nothing *)
  | OEntry (e : option entry)    (* (key, val, true) or (_, _, false) *)
  | ONat (n : nat)
  | OBool (b : bool)
  | OPanic | OHang
  | OSkip.                       (* op outside the domain: dead/absent heap, self-merge, not mergeable *)

  (** * Binary heap (heap/binary.go) *)
  Definition arr : Type := list (option entry).
  Record bheap : Type := { b_n : nat; b_arr : arr }.

  Definition aget (a : arr) (i : nat) : res entry :=
    match nth_error a i with Some (Some e) => Ok e | _ => Panic end.
  Definition aset (a : arr) (i : nat) (x : option entry) : res arr :=
    if i <? length a then Ok (upd a i x) else Panic.

  (** [newH := make(…, size); copy(newH, h.heap)] *)
  Definition resize (a : arr) (size : nat) : arr :=
    firstn size a ++ repeat None (size - length a).

  Definition b_new (size : nat) : bheap := {| b_n := 0; b_arr := repeat None (S size) |}.

  (** [for k = h.n; k > 1 && cmp(heap[k/2].Key, key) > 0; k /= 2 { heap[k] = heap[k/2] }] *)
  Fixpoint swim (fuel : nat) (key : K) (k : nat) (a : arr) : res (nat * arr) :=
    if k <=? 1 then Ok (k, a) else
    match fuel with
    | O => Hang
    | S f =>
        p <- aget a (k / 2) ;;
        if (cmp (fst p) key >? 0)%Z
        then a' <- aset a k (Some p) ;; swim f key (k / 2) a'
        else Ok (k, a)
    end.

  Definition b_insert (key : K) (val : V) (h : bheap) : res bheap :=
    let a := b_arr h in
    let a := if b_n h =? length a - 1 then resize a (length a * 2) else a in
    let n := S (b_n h) in
    '(k, a) <- swim n key n a ;;
    a <- aset a k (Some (key, val)) ;;
    Ok {| b_n := n; b_arr := a |}.

  (** [for k, j = 1, 2; j <= h.n; k, j = j, 2*j { … }] with [n] already decremented *)
  Fixpoint sink (fuel n : nat) (kv : entry) (k j : nat) (a : arr) : res (nat * arr) :=
    if n <? j then Ok (k, a) else
    match fuel with
    | O => Hang
    | S f =>
        j' <- (if j <? n
               then e1 <- aget a (j + 1) ;; e0 <- aget a j ;;
                    Ok (if (cmp (fst e1) (fst e0) <? 0)%Z then j + 1 else j)
               else Ok j) ;;
        ej <- aget a j' ;;
        if (cmp (fst kv) (fst ej) <? 0)%Z then Ok (k, a)
        else a' <- aset a k (Some ej) ;; sink f n kv j' (2 * j') a'
    end.

  Definition b_delete (h : bheap) : res (bheap * option entry) :=
    if b_n h =? 0 then Ok (h, None) else
    let a := b_arr h in
    ext <- aget a 1 ;;
    kv <- aget a (b_n h) ;;
    let n := b_n h - 1 in
    '(k, a) <- sink (S n) n kv 1 2 a ;;
    a <- aset a k (Some kv) ;;
    a <- aset a (n + 1) None ;;
    let a := if n <? length a / 4 then resize a (length a / 2) else a in
    Ok ({| b_n := n; b_arr := a |}, Some ext).

  Definition b_delete_all (h : bheap) : bheap :=
    {| b_n := 0; b_arr := repeat None (length (b_arr h)) |}.

  Definition b_peek (h : bheap) : res (option entry) :=
    if b_n h =? 0 then Ok None else e <- aget (b_arr h) 1 ;; Ok (Some e).

  (** [for k := 1; k <= h.n; k++ { if pred(heap[k]) { return true } }; return false] *)
  Fixpoint b_scan (p : entry -> bool) (a : arr) (k cnt : nat) : res bool :=
    match cnt with
    | O => Ok false
    | S c => e <- aget a k ;; if p e then Ok true else b_scan p a (S k) c
    end.

  Definition b_act (a : act) (h : bheap) : res (bheap * out) :=
    match a with
    | Insert k v => h' <- b_insert k v h ;; Ok (h', ONone)
    | Delete => '(h', e) <- b_delete h ;; Ok (h', OEntry e)
    | Peek => e <- b_peek h ;; Ok (h, OEntry e)
    | DeleteAll => Ok (b_delete_all h, ONone)
    | Size => Ok (h, ONat (b_n h))
    | IsEmpty => Ok (h, OBool (b_n h =? 0))
    | ContainsKey k => b <- b_scan (has_key k) (b_arr h) 1 (b_n h) ;; Ok (h, OBool b)
    | ContainsValue v => b <- b_scan (has_val v) (b_arr h) 1 (b_n h) ;; Ok (h, OBool b)
    | Merge _ => Ok (h, OSkip)      (* binary is a Heap, not a MergeableHeap *)
    end.

  (** [verify()] of binary.go (the package's own integrity check, used by its tests):
      slot 0 is nil, slots 1..n are not, the slots above n are nil, no parent comes after a child.
      An index out of range (the Go code would panic) counts as [false]. *)
  Definition is_nil (a : arr) (i : nat) : bool :=
    match nth_error a i with Some None => true | _ => false end.
  Definition is_full (a : arr) (i : nat) : bool :=
    match nth_error a i with Some (Some _) => true | _ => false end.
  Definition key_gt (a : arr) (i j : nat) : bool :=   (* cmp(heap[i].Key, heap[j].Key) > 0 *)
    match nth_error a i, nth_error a j with
    | Some (Some x), Some (Some y) => (cmp (fst x) (fst y) >? 0)%Z
    | _, _ => true
    end.
  Definition b_verify (h : bheap) : bool :=
    let a := b_arr h in
    let n := b_n h in
    is_nil a 0
    && forallb (is_full a) (seq 1 n)
    && forallb (is_nil a) (seq (n + 1) (length a - (n + 1)))
    && forallb (fun k => (if 2 * k <=? n then negb (key_gt a k (2 * k)) else true)
                         && (if 2 * k + 1 <=? n then negb (key_gt a k (2 * k + 1)) else true))
               (seq 1 n).

  (** * Binomial heap (heap/binomial.go) *)
  Inductive btree : Type := BNode (k : K) (v : V) (order : nat) (children : list btree).
  Definition bt_key (t : btree) : K := match t with BNode k _ _ _ => k end.
  Definition bt_val (t : btree) : V := match t with BNode _ v _ _ => v end.
  Definition bt_order (t : btree) : nat := match t with BNode _ _ o _ => o end.
  Definition bt_children (t : btree) : list btree := match t with BNode _ _ _ c => c end.
  Definition bt_entry (t : btree) : entry := (bt_key t, bt_val t).

  Record nheap : Type := { n_n : nat; n_head : list btree }.
  Definition n_new : nheap := {| n_n := 0; n_head := [] |}.

  (** [merge]: merge sort of two root lists by order; on equal orders the tree of [h2] goes first. *)
  Fixpoint n_merge (l1 : list btree) : list btree -> list btree :=
    fix aux (l2 : list btree) : list btree :=
      match l1, l2 with
      | [], _ => l2
      | _, [] => l1
      | t1 :: r1, t2 :: r2 =>
          if bt_order t1 <? bt_order t2 then t1 :: n_merge r1 l2 else t2 :: aux r2
      end.

  (** [link(child, parent)]: child becomes the left-most child of parent, parent.order++ *)
  Definition n_link (child parent : btree) : btree :=
    match parent with BNode k v o cs => BNode k v (S o) (child :: cs) end.

  (** the scan of [consolidate]: [curr], and the list that starts at [next] *)
  Fixpoint n_cons (curr : btree) (rest : list btree) : list btree :=
    match rest with
    | [] => [curr]
    | next :: rest' =>
        if negb (bt_order curr =? bt_order next)
           || match rest' with s :: _ => bt_order s =? bt_order curr | [] => false end
        then curr :: n_cons next rest'                                  (* cases 1 and 2 *)
        else if (cmp (bt_key next) (bt_key curr) >? 0)%Z
        then n_cons (n_link next curr) rest'                            (* case 3 *)
        else n_cons (n_link curr next) rest'                            (* case 4 *)
    end.

  Definition n_consolidate (l : list btree) : list btree :=
    match l with [] => [] | c :: r => n_cons c r end.

  Definition n_union (h1 h2 : list btree) : list btree := n_consolidate (n_merge h1 h2).

  (** [findExt]: the first root whose key is extremal, with the roots before and after it *)
  Fixpoint n_find_ext (t : btree) (l : list btree) : list btree * btree * list btree :=
    match l with
    | [] => ([], t, [])
    | u :: r =>
        let '(pre, e, post) := n_find_ext u r in
        if (cmp (bt_key e) (bt_key t) <? 0)%Z then (t :: pre, e, post) else ([], t, l)
    end.

  Definition n_insert (key : K) (val : V) (h : nheap) : nheap :=
    {| n_n := S (n_n h); n_head := n_union (n_head h) [BNode key val 0 []] |}.

  Definition n_merge_heaps (h hh : nheap) : nheap :=
    {| n_n := n_n h + n_n hh; n_head := n_union (n_head h) (n_head hh) |}.

  Definition n_delete (h : nheap) : nheap * option entry :=
    match n_head h with
    | [] => (h, None)
    | t :: l =>
        let '(pre, e, post) := n_find_ext t l in
        (* childrenToRootList reverses the child list *)
        ({| n_n := n_n h - 1; n_head := n_union (pre ++ post) (rev (bt_children e)) |},
         Some (bt_entry e))
    end.

  Definition n_peek (h : nheap) : option entry :=
    match n_head h with
    | [] => None
    | t :: l => let '(_, e, _) := n_find_ext t l in Some (bt_entry e)
    end.

  (** [traverse(VLR)] with short-circuit: is there a node satisfying [p]? *)
  Fixpoint bt_exists (p : entry -> bool) (t : btree) : bool :=
    match t with
    | BNode k v _ cs => p (k, v) || (fix go (l : list btree) : bool :=
                                       match l with [] => false | c :: r => bt_exists p c || go r end) cs
    end.
  Definition n_exists (p : entry -> bool) (l : list btree) : bool := existsb (bt_exists p) l.

  Definition n_is_empty (h : nheap) : bool := match n_head h with [] => true | _ => false end.

  Definition n_act (a : act) (h : nheap) : res (nheap * out) :=
    match a with
    | Insert k v => Ok (n_insert k v h, ONone)
    | Delete => let '(h', e) := n_delete h in Ok (h', OEntry e)
    | Peek => Ok (h, OEntry (n_peek h))
    | DeleteAll => Ok (n_new, ONone)
    | Size => Ok (h, ONat (n_n h))
    | IsEmpty => Ok (h, OBool (n_is_empty h))
    | ContainsKey k => Ok (h, OBool (n_exists (has_key k) (n_head h)))
    | ContainsValue v => Ok (h, OBool (n_exists (has_val v) (n_head h)))
    | Merge _ => Ok (h, OSkip)      (* handled by the pool *)
    end.

  (** [verify()] / [verifyBinomialTree] of binomial.go: root orders strictly increasing; every
      child comes after its parent, the i-th child (from 1) has order [n.order - i], recursively *)
  Fixpoint bt_verify (t : btree) : bool :=
    match t with
    | BNode k v o cs =>
        (fix go (i : nat) (l : list btree) : bool :=
           match l with
           | [] => true
           | c :: r => negb (cmp k (bt_key c) >? 0)%Z
                       && ((i <=? o) && (bt_order c =? o - i))
                       && bt_verify c && go (S i) r
           end) 1 cs
    end.
  Fixpoint orders_increase (l : list btree) : bool :=
    match l with
    | a :: ((b :: _) as r) => (bt_order a <? bt_order b) && orders_increase r
    | _ => true
    end.
  Definition n_verify (h : nheap) : bool :=
    orders_increase (n_head h) && forallb bt_verify (n_head h).

  (** * Fibonacci heap (heap/fibonacci.go) *)
  Inductive ftree : Type := FNode (k : K) (v : V) (degree : nat) (children : list ftree).
  Definition ft_key (t : ftree) : K := match t with FNode k _ _ _ => k end.
  Definition ft_val (t : ftree) : V := match t with FNode _ v _ _ => v end.
  Definition ft_degree (t : ftree) : nat := match t with FNode _ _ d _ => d end.
  Definition ft_children (t : ftree) : list ftree := match t with FNode _ _ _ c => c end.
  Definition ft_entry (t : ftree) : entry := (ft_key t, ft_val t).

  Record fheap : Type := { f_n : nat; f_ring : list ftree }.   (* ring from h.ext; [] is nil *)
  Definition f_new : fheap := {| f_n := 0; f_ring := [] |}.

  (** [h.insert(h.ext, n); h.ext = h.pickExt(h.ext, n)]: n goes in front of (= last seen from)
      the old extremum, and becomes the entry point only if its key is strictly better. *)
  Definition f_insert (key : K) (val : V) (h : fheap) : fheap :=
    let n := FNode key val 0 [] in
    {| f_n := S (f_n h);
       f_ring := match f_ring h with
                 | [] => [n]
                 | e :: _ => if (cmp (ft_key e) key <=? 0)%Z then f_ring h ++ [n] else n :: f_ring h
                 end |}.

  (** [meld(h1, h2)] seen from [h1]: h1 … h1.prev, h2.next … h2.prev, h2 *)
  Definition f_meld (r1 r2 : list ftree) : list ftree :=
    match r1, r2 with
    | [], _ => r2
    | _, [] => r1
    | _, b :: t2 => r1 ++ t2 ++ [b]
    end.

  (** [h.meld(h.ext, hh.ext); h.ext = h.pickExt(h.ext, hh.ext); h.n += hh.n] *)
  Definition f_merge_heaps (h hh : fheap) : fheap :=
    {| f_n := f_n h + f_n hh;
       f_ring := match f_ring h, f_ring hh with
                 | [], r2 => r2
                 | r1, [] => r1
                 | a :: _, b :: t2 =>
                     if (cmp (ft_key a) (ft_key b) <=? 0)%Z then f_ring h ++ t2 ++ [b]
                     else b :: f_ring h ++ t2
                 end |}.

  (** [link(child, parent)]: [parent.child = insert(parent.child, child)] returns the new node,
      so the new child is the entry point of the child ring; [parent.degree++]. *)
  Definition f_link (child parent : ftree) : ftree :=
    match parent with FNode k v d cs => FNode k v (S d) (child :: cs) end.

  (** ** consolidate.  Ring elements carry the number that stands for their address. *)
  Definition iring : Type := list (nat * ftree).

  Fixpoint r_find (i : nat) (r : iring) : option ftree :=
    match r with [] => None | (j, t) :: r' => if i =? j then Some t else r_find i r' end.
  Fixpoint r_remove (i : nat) (r : iring) : iring :=
    match r with [] => [] | (j, t) :: r' => if i =? j then r' else (j, t) :: r_remove i r' end.
  Fixpoint r_replace (i : nat) (t' : ftree) (r : iring) : iring :=
    match r with
    | [] => []
    | (j, t) :: r' => if i =? j then (j, t') :: r' else (j, t) :: r_replace i t' r'
    end.
  Fixpoint r_split (i : nat) (r : iring) : iring * iring :=
    match r with
    | [] => ([], [])
    | (j, t) :: r' => if i =? j then ([], r) else let '(a, b) := r_split i r' in ((j, t) :: a, b)
    end.
  (** the same ring, listed from node [i] *)
  Definition r_rotate_to (i : nat) (r : iring) : iring := let '(a, b) := r_split i r in b ++ a.
  (** [i.next] *)
  Definition r_next (i : nat) (r : iring) : nat :=
    match r_rotate_to i r with _ :: (j, _) :: _ => j | _ => i end.

  Record cstate : Type := {
    c_ring : iring;                 (* the root ring, listed from [stop] *)
    c_pos : nat;                    (* [curr] (= [x]) is the element at this position *)
    c_tab : list (option nat);      (* [roots] *)
    c_ext : nat                     (* [h.ext] *)
  }.

  Inductive cstep_result : Type :=
  | CLinked (s : cstate)            (* one iteration of the inner loop: two trees were linked *)
  | CAdvanced (s : cstate)          (* [roots[x.degree] = x; curr = curr.next], not back at [stop] *)
  | CFinished (s : cstate)          (* … and [curr == stop] *)
  | CFailed.                        (* index out of range / nil dereference *)

  Definition cstep (s : cstate) : cstep_result :=
    match nth_error (c_ring s) (c_pos s) with
    | None => CFailed
    | Some (xi, xt) =>
        let d := ft_degree xt in
        match nth_error (c_tab s) d with
        | None => CFailed                                   (* roots[x.degree]: index out of range *)
        | Some oy =>
            match (match oy with Some yi => if yi =? xi then None else Some yi | None => None end) with
            | Some yi =>                                    (* y != nil && y != x *)
                match r_find yi (c_ring s) with
                | None => CFailed
                | Some yt =>
                    let tab := upd (c_tab s) d None in      (* roots[x.degree] = nil *)
                    if (cmp (ft_key xt) (ft_key yt) >? 0)%Z then
                      (* h.ext = cut(h.ext, x); link(x, y); x = y; stop, curr = x, x *)
                      CLinked {| c_ring := r_rotate_to yi (r_replace yi (f_link xt yt) (r_remove xi (c_ring s)));
                                 c_pos := 0; c_tab := tab;
                                 c_ext := if c_ext s =? xi then r_next xi (c_ring s) else c_ext s |}
                    else
                      (* h.ext = cut(h.ext, y); link(y, x); stop, curr = x, x *)
                      CLinked {| c_ring := r_rotate_to xi (r_replace xi (f_link yt xt) (r_remove yi (c_ring s)));
                                 c_pos := 0; c_tab := tab;
                                 c_ext := if c_ext s =? yi then r_next yi (c_ring s) else c_ext s |}
                end
            | None =>                                       (* roots[x.degree] = x *)
                let s' := {| c_ring := c_ring s; c_pos := S (c_pos s);
                             c_tab := upd (c_tab s) d (Some xi); c_ext := c_ext s |} in
                if S (c_pos s) =? length (c_ring s) then CFinished s' else CAdvanced s'
            end
        end
    end.

  (** every link shortens the ring by one (outer fuel); between two links [curr] advances at
      most once around the ring (inner fuel, refilled with [m] after a link). *)
  Fixpoint c_inner (k : cstate -> res cstate) (fuel2 : nat) (s : cstate) : res cstate :=
    match fuel2 with
    | O => Hang
    | S f2 =>
        match cstep s with
        | CLinked s' => k s'
        | CAdvanced s' => c_inner k f2 s'
        | CFinished s' => Ok s'
        | CFailed => Panic
        end
    end.

  Fixpoint c_loop (m fuel1 : nat) (s : cstate) : res cstate :=
    match fuel1 with
    | O => Hang
    | S f1 => c_inner (c_loop m f1) m s
    end.

  (** [for _, r := range roots { if r != nil { h.ext = pickExt(h.ext, r) } }] *)
  Definition c_pick (ring : iring) (acc : res nat) (r : option nat) : res nat :=
    match r with
    | None => acc
    | Some ri =>
        e <- acc ;;
        match r_find e ring, r_find ri ring with
        | Some et, Some rt => Ok (if (cmp (ft_key et) (ft_key rt) <=? 0)%Z then e else ri)
        | _, _ => Panic
        end
    end.

  Definition f_consolidate (n : nat) (ring : list ftree) : res (list ftree) :=
    let m := length ring in
    let s0 := {| c_ring := combine (seq 0 m) ring; c_pos := 0;
                 c_tab := repeat None (max_degree n); c_ext := 0 |} in
    s <- c_loop (S m) (S m) s0 ;;
    e <- fold_left (c_pick (c_ring s)) (c_tab s) (Ok (c_ext s)) ;;
    Ok (map snd (r_rotate_to e (c_ring s))).

  Definition f_delete (h : fheap) : res (fheap * option entry) :=
    match f_ring h with
    | [] => Ok (h, None)
    | e :: rest =>
        (* h.ext = cut(h.ext, ext); if ext.child != nil { h.ext = meld(h.ext, ext.child) } *)
        let r1 := f_meld rest (ft_children e) in
        let n := f_n h - 1 in
        match r1 with
        | [] => Ok ({| f_n := n; f_ring := [] |}, Some (ft_entry e))
        | _ => r <- f_consolidate n r1 ;; Ok ({| f_n := n; f_ring := r |}, Some (ft_entry e))
        end
    end.

  Definition f_peek (h : fheap) : option entry :=
    match f_ring h with [] => None | e :: _ => Some (ft_entry e) end.

  Fixpoint ft_exists (p : entry -> bool) (t : ftree) : bool :=
    match t with
    | FNode k v _ cs => p (k, v) || (fix go (l : list ftree) : bool :=
                                       match l with [] => false | c :: r => ft_exists p c || go r end) cs
    end.
  Definition f_exists (p : entry -> bool) (l : list ftree) : bool := existsb (ft_exists p) l.

  Definition f_is_empty (h : fheap) : bool := match f_ring h with [] => true | _ => false end.

  Definition f_act (a : act) (h : fheap) : res (fheap * out) :=
    match a with
    | Insert k v => Ok (f_insert k v h, ONone)
    | Delete => '(h', e) <- f_delete h ;; Ok (h', OEntry e)
    | Peek => Ok (h, OEntry (f_peek h))
    | DeleteAll => Ok (f_new, ONone)
    | Size => Ok (h, ONat (f_n h))
    | IsEmpty => Ok (h, OBool (f_is_empty h))
    | ContainsKey k => Ok (h, OBool (f_exists (has_key k) (f_ring h)))
    | ContainsValue v => Ok (h, OBool (f_exists (has_val v) (f_ring h)))
    | Merge _ => Ok (h, OSkip)      (* handled by the pool *)
    end.

  (** [verify()] / [verifyTree] of fibonacci.go: no degree above [maxDegree()], every child comes
      after its parent and has no larger degree, and [h.ext] is what a scan with [pickExt]
      around the ring selects (it stays at [h.ext] iff no root comes strictly before it) *)
  Fixpoint ft_verify (maxD : nat) (t : ftree) : bool :=
    match t with
    | FNode k v d cs =>
        (d <=? maxD)
        && (fix go (l : list ftree) : bool :=
              match l with
              | [] => true
              | c :: r => negb (cmp k (ft_key c) >? 0)%Z && (ft_degree c <=? d)
                          && ft_verify maxD c && go r
              end) cs
    end.
  Definition f_verify (h : fheap) : bool :=
    match f_ring h with
    | [] => true
    | e :: _ =>
        forallb (ft_verify (max_degree (f_n h))) (f_ring h)
        && forallb (fun t => (cmp (ft_key e) (ft_key t) <=? 0)%Z) (f_ring h)
    end.

  (** * Uniform interface: a pool of heaps of one implementation *)
  Inductive impl : Type := Binary | Binomial | Fibonacci.
  Inductive heap : Type := HB (h : bheap) | HN (h : nheap) | HF (h : fheap).

  Definition h_new (i : impl) (size : nat) : heap :=
    match i with Binary => HB (b_new size) | Binomial => HN n_new | Fibonacci => HF f_new end.

  Definition h_act (a : act) (h : heap) : res (heap * out) :=
    match h with
    | HB b => '(b', o) <- b_act a b ;; Ok (HB b', o)
    | HN b => '(b', o) <- n_act a b ;; Ok (HN b', o)
    | HF b => '(b', o) <- f_act a b ;; Ok (HF b', o)
    end.

  (** [h.Merge(hh)]; [None] when the receiver is not mergeable or the dynamic types differ *)
  Definition h_merge (h hh : heap) : option heap :=
    match h, hh with
    | HN a, HN b => Some (HN (n_merge_heaps a b))
    | HF a, HF b => Some (HF (f_merge_heaps a b))
    | _, _ => None
    end.

  Definition h_verify (h : heap) : bool :=
    match h with HB b => b_verify b | HN b => n_verify b | HF b => f_verify b end.

  Definition hop : Type := (nat * act)%type.      (* (index of the receiver in the pool, operation) *)
  Definition pool : Type := list (option heap).   (* [None]: dead (panicked, hung, or merged away) *)

  Definition p_step (p : pool) (o : hop) : pool * out :=
    let '(i, a) := o in
    match nth_error p i with
    | Some (Some h) =>
        match a with
        | Merge j =>
            if i =? j then (p, OSkip) else
            match nth_error p j with
            | Some (Some hh) =>
                match h_merge h hh with
                | Some h' => (upd (upd p i (Some h')) j None, ONone)
                | None => (p, OSkip)
                end
            | _ => (p, OSkip)
            end
        | _ =>
            match h_act a h with
            | Ok (h', r) => (upd p i (Some h'), r)
            | Panic => (upd p i None, OPanic)
            | Hang => (upd p i None, OHang)
            end
        end
    | _ => (p, OSkip)
    end.

  Fixpoint p_run (p : pool) (ops : list hop) : list out :=
    match ops with
    | [] => []
    | o :: ops' => let '(p', r) := p_step p o in r :: p_run p' ops'
    end.

  (** the pool after a history *)
  Fixpoint p_final (p : pool) (ops : list hop) : pool :=
    match ops with
    | [] => p
    | o :: ops' => p_final (fst (p_step p o)) ops'
    end.

  Definition p_init (i : impl) (sizes : list nat) : pool := map (fun s => Some (h_new i s)) sizes.

  (** the outputs of a history on a pool of [length sizes] heaps of implementation [i]
      ([sizes]: the initial sizes, used by the binary heap only) *)
  Definition run (i : impl) (sizes : list nat) (ops : list hop) : list out :=
    p_run (p_init i sizes) ops.
End Model.

Arguments Insert {K V} k v.
Arguments Delete {K V}.
Arguments Peek {K V}.
Arguments DeleteAll {K V}.
Arguments Size {K V}.
Arguments IsEmpty {K V}.
Arguments ContainsKey {K V} k.
Arguments ContainsValue {K V} v.
Arguments Merge {K V} j.
Arguments ONone {K V}.
Arguments OEntry {K V} e.
Arguments ONat {K V} n.
Arguments OBool {K V} b.
Arguments OPanic {K V}.
Arguments OHang {K V}.
Arguments OSkip {K V}.
Arguments HB {K V} h.
Arguments HN {K V} h.
Arguments HF {K V} h.
Arguments BNode {K V} k v order children.
Arguments FNode {K V} k v degree children.
