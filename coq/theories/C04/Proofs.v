(** C04 — whole-history simulation theorems, assembled from the per-heap refinement lemmas. *)
From Coq Require Import Permutation Lia.
From Algo.C04 Require Import Model Spec ProofsCommon ProofsBinary ProofsBinomial ProofsBinomialShape ProofsFib ProofsMaxDeg.

Section Top.
  Context {K V : Type} (cmp : K -> K -> Z) (eqv : V -> V -> bool) (TO : TotalOrder K cmp).

  Definition all_live (sizes : list nat) : list bool := map (fun _ => true) sizes.
  Definition empty_bags (sizes : list nat) : spool K V := map (fun _ => Some []) sizes.

  (** ** binary heap *)
  Definition hinv_bin (h : heap K V) : Prop := match h with HB b => binv cmp b | _ => False end.
  Definition hbag_bin (h : heap K V) : bag K V := match h with HB b => bbag b | _ => [] end.

  Lemma act_ok_bin h a :
    hinv_bin h -> not_merge a ->
    exists h' r, h_act K V cmp eqv a h = Ok (h', r) /\ hinv_bin h' /\
                 spec_step K V cmp eqv (hbag_bin h) a r (hbag_bin h').
  Proof.
    destruct h as [b| |]; simpl; try tauto. intros Hi Hn.
    destruct (b_act_ok cmp eqv TO b a Hi Hn) as (b' & r & -> & Hi' & Hs). simpl.
    exists (HB b'), r. auto.
  Qed.

  Theorem binary_simulates sizes ops :
    well_scoped K V false (all_live sizes) ops = true ->
    accepts K V cmp eqv (empty_bags sizes) ops (run K V cmp eqv Binary sizes ops).
  Proof.
    intros Hws. unfold run.
    replace (empty_bags sizes) with (pabs hbag_bin (p_init K V Binary sizes))
      by (unfold pabs, p_init, empty_bags; rewrite map_map; reflexivity).
    apply pool_simulation with (mergeable := false) (hinv := hinv_bin).
    - apply act_ok_bin.
    - discriminate.
    - intros i h Hi. unfold p_init in Hi. rewrite nth_error_map in Hi.
      destruct (nth_error sizes i); [|discriminate]. injection Hi as <-. apply binv_new.
    - unfold plive, p_init. rewrite map_map. exact Hws.
  Qed.

  (** ** binomial heap *)
  Definition hinv_bnm (h : heap K V) : Prop :=
    match h with HN b => ninv cmp b /\ nshape b | _ => False end.
  Definition hbag_bnm (h : heap K V) : bag K V := match h with HN b => nbag b | _ => [] end.

  Lemma act_ok_bnm h a :
    hinv_bnm h -> not_merge a ->
    exists h' r, h_act K V cmp eqv a h = Ok (h', r) /\ hinv_bnm h' /\
                 spec_step K V cmp eqv (hbag_bnm h) a r (hbag_bnm h').
  Proof.
    destruct h as [|b|]; simpl; try tauto. intros [Hi Hsh] Hn.
    destruct (n_act_ok cmp eqv TO b a Hi Hn) as (b' & r & Hact & Hi' & Hs).
    pose proof (n_act_shape cmp eqv b a b' r Hsh Hact) as Hsh'. rewrite Hact. simpl.
    exists (HN b'), r. split; [reflexivity|]. split; [split; assumption | exact Hs].
  Qed.

  Lemma merge_ok_bnm h hh :
    hinv_bnm h -> hinv_bnm hh ->
    exists h', h_merge K V cmp h hh = Some h' /\ hinv_bnm h' /\
               Permutation (hbag_bnm h') (hbag_bnm h ++ hbag_bnm hh).
  Proof.
    destruct h as [|a|], hh as [|b|]; simpl; try tauto. intros [Ha Hsa] [Hb Hsb].
    destruct (n_merge_heaps_ok cmp TO a b Ha Hb) as [Hi Hp].
    eexists. split; [reflexivity|]. simpl. split; [split; [exact Hi | now apply n_merge_heaps_shape] | exact Hp].
  Qed.

  Theorem binomial_simulates sizes ops :
    well_scoped K V true (all_live sizes) ops = true ->
    accepts K V cmp eqv (empty_bags sizes) ops (run K V cmp eqv Binomial sizes ops).
  Proof.
    intros Hws. unfold run.
    replace (empty_bags sizes) with (pabs hbag_bnm (p_init K V Binomial sizes))
      by (unfold pabs, p_init, empty_bags; rewrite map_map; reflexivity).
    apply pool_simulation with (mergeable := true) (hinv := hinv_bnm).
    - apply act_ok_bnm.
    - intros _. apply merge_ok_bnm.
    - intros i h Hi. unfold p_init in Hi. rewrite nth_error_map in Hi.
      destruct (nth_error sizes i); [|discriminate]. injection Hi as <-.
      split; [apply ninv_new | apply nshape_new].
    - unfold plive, p_init. rewrite map_map. exact Hws.
  Qed.

  (** ** Fibonacci heap *)
  Definition hinv_fib (h : heap K V) : Prop := match h with HF b => finv cmp b | _ => False end.
  Definition hbag_fib (h : heap K V) : bag K V := match h with HF b => fbag b | _ => [] end.

  Lemma act_ok_fib h a :
    hinv_fib h -> not_merge a ->
    exists h' r, h_act K V cmp eqv a h = Ok (h', r) /\ hinv_fib h' /\
                 spec_step K V cmp eqv (hbag_fib h) a r (hbag_fib h').
  Proof.
    destruct h as [| |b]; simpl; try tauto. intros Hi Hn.
    destruct (f_act_ok cmp eqv TO maxdeg_ok b a Hi Hn) as (b' & r & -> & Hi' & Hs). simpl.
    exists (HF b'), r. auto.
  Qed.

  Lemma merge_ok_fib h hh :
    hinv_fib h -> hinv_fib hh ->
    exists h', h_merge K V cmp h hh = Some h' /\ hinv_fib h' /\
               Permutation (hbag_fib h') (hbag_fib h ++ hbag_fib hh).
  Proof.
    destruct h as [| |a], hh as [| |b]; simpl; try tauto. intros Ha Hb.
    destruct (f_merge_heaps_ok cmp TO a b Ha Hb) as [Hi Hp].
    eexists. split; [reflexivity|]. simpl. auto.
  Qed.

  Theorem fibonacci_simulates sizes ops :
    well_scoped K V true (all_live sizes) ops = true ->
    accepts K V cmp eqv (empty_bags sizes) ops (run K V cmp eqv Fibonacci sizes ops).
  Proof.
    intros Hws. unfold run.
    replace (empty_bags sizes) with (pabs hbag_fib (p_init K V Fibonacci sizes))
      by (unfold pabs, p_init, empty_bags; rewrite map_map; reflexivity).
    apply pool_simulation with (mergeable := true) (hinv := hinv_fib).
    - apply act_ok_fib.
    - intros _. apply merge_ok_fib.
    - intros i h Hi. unfold p_init in Hi. rewrite nth_error_map in Hi.
      destruct (nth_error sizes i); [|discriminate]. injection Hi as <-. apply finv_new.
    - unfold plive, p_init. rewrite map_map. exact Hws.
  Qed.

  (** ** all implementations at once *)
  Definition mergeable (i : impl) : bool := match i with Binary => false | _ => true end.

  Theorem all_simulate (i : impl) sizes ops :
    well_scoped K V (mergeable i) (all_live sizes) ops = true ->
    accepts K V cmp eqv (empty_bags sizes) ops (run K V cmp eqv i sizes ops).
  Proof.
    destruct i; simpl; [apply binary_simulates | apply binomial_simulates | apply fibonacci_simulates].
  Qed.

  (** ** the invariants hold in every reachable state *)
  Lemma init_pinv i (hinv : heap K V -> Prop) sizes :
    (forall s, hinv (h_new K V i s)) -> pinv hinv (p_init K V i sizes).
  Proof.
    intros H j h Hj. unfold p_init in Hj. rewrite nth_error_map in Hj.
    destruct (nth_error sizes j); [|discriminate]. injection Hj as <-. apply H.
  Qed.

  Lemma init_plive i sizes : plive (p_init K V i sizes) = all_live sizes.
  Proof. unfold plive, p_init, all_live. now rewrite map_map. Qed.

  Theorem binary_invariant sizes ops :
    well_scoped K V false (all_live sizes) ops = true ->
    forall i h, nth_error (p_final K V cmp eqv (p_init K V Binary sizes) ops) i = Some (Some h) -> hinv_bin h.
  Proof.
    intros Hws. apply (pool_invariant cmp eqv false hinv_bin hbag_bin act_ok_bin).
    - discriminate.
    - apply init_pinv. intros s. apply binv_new.
    - now rewrite init_plive.
  Qed.

  Theorem binomial_invariant sizes ops :
    well_scoped K V true (all_live sizes) ops = true ->
    forall i h, nth_error (p_final K V cmp eqv (p_init K V Binomial sizes) ops) i = Some (Some h) -> hinv_bnm h.
  Proof.
    intros Hws. apply (pool_invariant cmp eqv true hinv_bnm hbag_bnm act_ok_bnm).
    - intros _. apply merge_ok_bnm.
    - apply init_pinv. intros s. split; [apply ninv_new | apply nshape_new].
    - now rewrite init_plive.
  Qed.

  Theorem fibonacci_invariant sizes ops :
    well_scoped K V true (all_live sizes) ops = true ->
    forall i h, nth_error (p_final K V cmp eqv (p_init K V Fibonacci sizes) ops) i = Some (Some h) -> hinv_fib h.
  Proof.
    intros Hws. apply (pool_invariant cmp eqv true hinv_fib hbag_fib act_ok_fib).
    - intros _. apply merge_ok_fib.
    - apply init_pinv. intros s. apply finv_new.
    - now rewrite init_plive.
  Qed.

  (** the package's own [verify()] answers true in every reachable state *)
  Theorem verify_true (i : impl) sizes ops :
    well_scoped K V (mergeable i) (all_live sizes) ops = true ->
    forall j h, nth_error (p_final K V cmp eqv (p_init K V i sizes) ops) j = Some (Some h) ->
                h_verify K V cmp h = true.
  Proof.
    intros Hws j h Hj. destruct i; simpl in Hws.
    - pose proof (binary_invariant sizes ops Hws j h Hj) as H. destruct h; simpl in H; try tauto.
      now apply b_verify_ok.
    - pose proof (binomial_invariant sizes ops Hws j h Hj) as H. destruct h; simpl in H; try tauto.
      destruct H as [[Hh _] Hs]. now apply n_verify_ok.
    - pose proof (fibonacci_invariant sizes ops Hws j h Hj) as H. destruct h; simpl in H; try tauto.
      now apply (f_verify_ok cmp maxdeg_ok).
  Qed.

  (** the root orders of a reachable binomial heap are the positions of the one-bits of [n] *)
  Theorem binomial_bits sizes ops :
    well_scoped K V true (all_live sizes) ops = true ->
    forall i b, nth_error (p_final K V cmp eqv (p_init K V Binomial sizes) ops) i = Some (Some (HN b)) ->
      n_n K V b = sum2 (ords (n_head K V b)) /\ Sorted.StronglySorted lt (ords (n_head K V b)).
  Proof.
    intros Hws i b Hi. destruct (binomial_invariant sizes ops Hws i _ Hi) as [[Hh Hn] Hs].
    split; [apply nshape_size; assumption | exact (proj1 Hs)].
  Qed.
End Top.

(** min and max orientation *)
Theorem both_orientations {K V : Type} (cmp : K -> K -> Z) (eqv : V -> V -> bool) (TO : TotalOrder K cmp)
        (i : impl) sizes ops :
  well_scoped K V (mergeable i) (all_live sizes) ops = true ->
  accepts K V cmp eqv (empty_bags sizes) ops (run K V cmp eqv i sizes ops) /\
  accepts K V (fun a b => cmp b a) eqv (empty_bags sizes) ops (run K V (fun a b => cmp b a) eqv i sizes ops).
Proof.
  intros H. split.
  - now apply all_simulate.
  - apply all_simulate; [apply TotalOrder_reverse; exact TO | exact H].
Qed.

(** what an accepted Delete / Peek / Size / Merge means, spelled out *)
Section Meaning.
  Context {K V : Type} (cmp : K -> K -> Z) (eqv : V -> V -> bool).

  Lemma delete_meaning B e B' :
    spec_step K V cmp eqv B Delete (OEntry (Some e)) B' ->
    In e B /\ (forall x, In x B -> (cmp (fst e) (fst x) <= 0)%Z) /\ Permutation B (e :: B').
  Proof.
    intros H. inversion H; subst. repeat split; auto.
    eapply Permutation_in; [symmetry; eassumption | now left].
  Qed.

  Lemma delete_none_meaning B B' : spec_step K V cmp eqv B Delete (OEntry None) B' -> B = [] /\ B' = [].
  Proof. intros H. inversion H; subst. auto. Qed.

  Lemma peek_meaning B e B' :
    spec_step K V cmp eqv B Peek (OEntry (Some e)) B' ->
    In e B /\ (forall x, In x B -> (cmp (fst e) (fst x) <= 0)%Z) /\ B' = B.
  Proof. intros H. inversion H; subst. auto. Qed.

  Lemma size_meaning B n B' : spec_step K V cmp eqv B Size (ONat n) B' -> n = length B /\ B' = B.
  Proof. intros H. inversion H; subst. auto. Qed.

  Lemma contains_key_meaning B k b B' :
    spec_step K V cmp eqv B (ContainsKey k) (OBool b) B' ->
    (b = true <-> exists e, In e B /\ (cmp (fst e) k = 0)%Z) /\ B' = B.
  Proof.
    intros H. inversion H; subst. split; [|reflexivity].
    rewrite existsb_exists. unfold has_key. split.
    - intros (e & He & Hk). exists e. split; [exact He | now apply Z.eqb_eq].
    - intros (e & He & Hk). exists e. split; [exact He | now apply Z.eqb_eq].
  Qed.

  Lemma merge_meaning P i j r P' :
    pspec_step K V cmp eqv P (i, Merge j) r P' ->
    exists Bi Bj B', i <> j /\ nth_error P i = Some (Some Bi) /\ nth_error P j = Some (Some Bj) /\
                    Permutation B' (Bi ++ Bj) /\ r = ONone /\ P' = upd (upd P i (Some B')) j None.
  Proof.
    intros H. inversion H; subst.
    - match goal with Hs : spec_step _ _ _ _ _ (Merge _) _ _ |- _ => inversion Hs end.
    - eauto 10.
  Qed.
End Meaning.
