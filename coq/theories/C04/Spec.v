(** C04 — specification: a heap is a finite multiset (bag) of (key, value) entries.

    The abstract state of one heap is a [list entry] read up to permutation; [Peek]/[Delete] may
    answer ANY held entry whose key is extremal.  The abstract state of a pool is a list of
    [option bag] ([None]: the heap was consumed as the argument of a [Merge]).  There is
    deliberately no rule for an operation that addresses a dead or absent heap, for a self-merge,
    or for [Merge] on a non-mergeable heap: such histories are outside the property
    ([well_scoped] characterises the others).

    [check_trace] is an executable acceptor for this specification (used, after extraction, to
    judge the outputs of the Go implementation); it is proved sound in Proofs.v. *)
From Coq Require Import Permutation Lia.
From Algo.C04 Require Import Model.
Open Scope Z_scope.

Section Spec.
  Variables K V : Type.
  Variable cmp : K -> K -> Z.
  Variable eqv : V -> V -> bool.

  (** the comparator laws: a total (pre)order given by the sign of [cmp] *)
  Record TotalOrder : Prop := {
    cmp_antisym : forall a b, Z.sgn (cmp a b) = - Z.sgn (cmp b a);
    cmp_trans : forall a b c, cmp a b <= 0 -> cmp b c <= 0 -> cmp a c <= 0
  }.

  Definition bag : Type := list (entry K V).

  (** [k] comes first (is minimal for a min-heap comparator, maximal for a reversed one) *)
  Definition extremal (k : K) (B : bag) : Prop := forall e, In e B -> cmp k (fst e) <= 0.

  Inductive spec_step : bag -> act K V -> out K V -> bag -> Prop :=
  | SS_insert B k v B' :
      Permutation B' ((k, v) :: B) -> spec_step B (Insert k v) ONone B'
  | SS_delete_empty :
      spec_step [] Delete (OEntry None) []
  | SS_delete B e B' :
      Permutation B (e :: B') -> extremal (fst e) B -> spec_step B Delete (OEntry (Some e)) B'
  | SS_peek_empty :
      spec_step [] Peek (OEntry None) []
  | SS_peek B e :
      In e B -> extremal (fst e) B -> spec_step B Peek (OEntry (Some e)) B
  | SS_delete_all B :
      spec_step B DeleteAll ONone []
  | SS_size B :
      spec_step B Size (ONat (length B)) B
  | SS_is_empty B :
      spec_step B IsEmpty (OBool (Nat.eqb (length B) 0)) B
  | SS_contains_key B k :
      spec_step B (ContainsKey k) (OBool (existsb (has_key K V cmp k) B)) B
  | SS_contains_value B v :
      spec_step B (ContainsValue v) (OBool (existsb (has_val K V eqv v) B)) B.

  Definition spool : Type := list (option bag).

  Inductive pspec_step : spool -> hop K V -> out K V -> spool -> Prop :=
  | PS_act P i a r B B' :
      nth_error P i = Some (Some B) -> spec_step B a r B' ->
      pspec_step P (i, a) r (upd P i (Some B'))
  | PS_merge P i j Bi Bj B' :
      i <> j -> nth_error P i = Some (Some Bi) -> nth_error P j = Some (Some Bj) ->
      Permutation B' (Bi ++ Bj) ->
      pspec_step P (i, Merge j) ONone (upd (upd P i (Some B')) j None).

  (** the outputs [outs] are allowed by the bag specification for the history [ops] from [P] *)
  Inductive accepts : spool -> list (hop K V) -> list (out K V) -> Prop :=
  | A_nil P : accepts P [] []
  | A_cons P o r P' ops outs :
      pspec_step P o r P' -> accepts P' ops outs -> accepts P (o :: ops) (r :: outs).

  (** histories inside the property: every operation addresses a live heap of the pool, the
      argument of [Merge] is another live heap (and is dead afterwards), [Merge] only on
      mergeable implementations *)
  Fixpoint well_scoped (mergeable : bool) (live : list bool) (ops : list (hop K V)) : bool :=
    match ops with
    | [] => true
    | (i, a) :: ops' =>
        nth i live false &&
        match a with
        | Merge j => mergeable && negb (Nat.eqb i j) && nth j live false
                     && well_scoped mergeable (upd live j false) ops'
        | _ => well_scoped mergeable live ops'
        end
    end.

  (** * executable acceptor *)
  Variable eqe : entry K V -> entry K V -> bool.     (* decides equality of entries *)

  Fixpoint remove1 (e : entry K V) (B : bag) : option bag :=
    match B with
    | [] => None
    | x :: B' => if eqe e x then Some B'
                 else match remove1 e B' with Some B'' => Some (x :: B'') | None => None end
    end.

  Definition is_extremal (k : K) (B : bag) : bool := forallb (fun e => cmp k (fst e) <=? 0) B.

  Definition check_step (B : bag) (a : act K V) (r : out K V) : option bag :=
    match a, r with
    | Insert k v, ONone => Some ((k, v) :: B)
    | Delete, OEntry None => match B with [] => Some [] | _ => None end
    | Delete, OEntry (Some e) => if is_extremal (fst e) B then remove1 e B else None
    | Peek, OEntry None => match B with [] => Some [] | _ => None end
    | Peek, OEntry (Some e) => if is_extremal (fst e) B && existsb (eqe e) B then Some B else None
    | DeleteAll, ONone => Some []
    | Size, ONat n => if Nat.eqb n (length B) then Some B else None
    | IsEmpty, OBool b => if Bool.eqb b (Nat.eqb (length B) 0) then Some B else None
    | ContainsKey k, OBool b => if Bool.eqb b (existsb (has_key K V cmp k) B) then Some B else None
    | ContainsValue v, OBool b => if Bool.eqb b (existsb (has_val K V eqv v) B) then Some B else None
    | _, _ => None
    end.

  Definition check_pstep (P : spool) (o : hop K V) (r : out K V) : option spool :=
    let '(i, a) := o in
    match nth_error P i with
    | Some (Some B) =>
        match a with
        | Merge j =>
            if Nat.eqb i j then None else
            match nth_error P j, r with
            | Some (Some Bj), ONone => Some (upd (upd P i (Some (B ++ Bj))) j None)
            | _, _ => None
            end
        | _ => match check_step B a r with Some B' => Some (upd P i (Some B')) | None => None end
        end
    | _ => None
    end.

  Fixpoint check_trace (P : spool) (ops : list (hop K V)) (outs : list (out K V)) : bool :=
    match ops, outs with
    | [], [] => true
    | o :: ops', r :: outs' =>
        match check_pstep P o r with Some P' => check_trace P' ops' outs' | None => false end
    | _, _ => false
    end.
End Spec.

Arguments cmp_antisym {K cmp}.
Arguments cmp_trans {K cmp}.
