(** C04 — the binomial heap refines the bag specification.
    For the property only heap order and the entry count matter; the shape of the forest
    (binomial trees, strictly increasing root orders) is proved separately below. *)
From Coq Require Import Permutation Lia.
From Algo.C04 Require Import Model Spec ProofsCommon.
Open Scope nat_scope.

Section Binomial.
  Context {K V : Type} (cmp : K -> K -> Z) (eqv : V -> V -> bool) (TO : TotalOrder K cmp).
  Notation entry := (entry K V).
  Notation btree := (btree K V).

  Fixpoint bt_entries (t : btree) : list entry :=
    match t with BNode k v _ cs => (k, v) :: flat_map bt_entries cs end.
  Definition entries (l : list btree) : list entry := flat_map bt_entries l.

  Lemma btree_ind' (P : btree -> Prop) :
    (forall k v o cs, Forall P cs -> P (BNode k v o cs)) -> forall t, P t.
  Proof.
    intros H. fix IH 1. intros [k v o cs]. apply H.
    induction cs as [|c cs IHcs]; constructor; [apply IH | exact IHcs].
  Qed.

  (** heap order: the key of a node precedes the keys of its children, everywhere *)
  Inductive hord : btree -> Prop :=
  | hord_node k v o cs :
      Forall (fun c => (cmp k (bt_key K V c) <= 0)%Z) cs -> Forall hord cs -> hord (BNode k v o cs).

  Lemma bt_entries_key t : In (bt_entry K V t) (bt_entries t).
  Proof. destruct t; simpl. now left. Qed.

  Lemma hord_root_first t : hord t -> forall e, In e (bt_entries t) -> (cmp (bt_key K V t) (fst e) <= 0)%Z.
  Proof.
    induction t as [k v o cs IH] using btree_ind'. intros Hh e He.
    inversion Hh as [k' v' o' cs' Hk Hc]; subst. simpl in *.
    destruct He as [<-|He]; [simpl; rewrite (cmp_refl cmp TO); lia|].
    apply in_flat_map in He as (c & Hc1 & Hc2).
    rewrite Forall_forall in IH, Hk, Hc.
    eapply (cmp_le_trans cmp TO); [apply Hk; exact Hc1 | apply IH; auto].
  Qed.

  Lemma entries_app l1 l2 : entries (l1 ++ l2) = entries l1 ++ entries l2.
  Proof. apply flat_map_app. Qed.

  Lemma entries_rev l : Permutation (entries (rev l)) (entries l).
  Proof. unfold entries. apply Permutation_flat_map. symmetry. apply Permutation_rev. Qed.

  (** ** merge *)
  Lemma entries_cons t l : entries (t :: l) = bt_entries t ++ entries l.
  Proof. reflexivity. Qed.

  Lemma n_merge_cons t1 r1 t2 r2 :
    n_merge K V (t1 :: r1) (t2 :: r2) =
    if bt_order K V t1 <? bt_order K V t2 then t1 :: n_merge K V r1 (t2 :: r2)
    else t2 :: n_merge K V (t1 :: r1) r2.
  Proof. reflexivity. Qed.

  Lemma n_merge_nil_r l1 : n_merge K V l1 [] = l1.
  Proof. now destruct l1. Qed.

  Lemma n_merge_nil_l l2 : n_merge K V [] l2 = l2.
  Proof. now destruct l2. Qed.

  Lemma n_merge_spec l1 : forall l2,
    Permutation (entries (n_merge K V l1 l2)) (entries l1 ++ entries l2) /\
    (Forall hord l1 -> Forall hord l2 -> Forall hord (n_merge K V l1 l2)).
  Proof.
    induction l1 as [|t1 r1 IH1]; intros l2.
    - rewrite n_merge_nil_l. simpl. auto.
    - induction l2 as [|t2 r2 IH2].
      + rewrite n_merge_nil_r. simpl. rewrite app_nil_r. auto.
      + rewrite n_merge_cons. destruct (bt_order K V t1 <? bt_order K V t2).
        * destruct (IH1 (t2 :: r2)) as [Hp Hf]. split.
          -- rewrite (entries_cons t1), (entries_cons t1 r1), Hp, app_assoc. reflexivity.
          -- intros H1 H2. inversion H1; subst. constructor; auto.
        * destruct IH2 as [Hp Hf]. split.
          -- rewrite (entries_cons t2), (entries_cons t2 r2), Hp.
             set (A := entries (t1 :: r1)).
             rewrite app_assoc, (Permutation_app_comm (bt_entries t2) A), <- app_assoc. reflexivity.
          -- intros H1 H2. inversion H2; subst. constructor; auto.
  Qed.

  (** ** link and consolidate *)
  Lemma n_link_entries c p :
    Permutation (bt_entries (n_link K V c p)) (bt_entries p ++ bt_entries c).
  Proof.
    destruct p as [k v o cs]. simpl. apply perm_skip. apply Permutation_app_comm.
  Qed.

  Lemma n_link_hord c p :
    hord c -> hord p -> (cmp (bt_key K V p) (bt_key K V c) <= 0)%Z -> hord (n_link K V c p).
  Proof.
    intros Hc Hp Hle. destruct p as [k v o cs]. inversion Hp; subst. simpl in *.
    constructor; constructor; auto.
  Qed.

  Lemma n_link_key c p : bt_key K V (n_link K V c p) = bt_key K V p.
  Proof. now destruct p. Qed.

  Lemma n_cons_spec rest : forall curr,
    Permutation (entries (n_cons K V cmp curr rest)) (bt_entries curr ++ entries rest) /\
    (hord curr -> Forall hord rest -> Forall hord (n_cons K V cmp curr rest)).
  Proof.
    induction rest as [|next rest' IH]; intros curr.
    - simpl. rewrite app_nil_r. split; [reflexivity | intros; constructor; auto].
    - simpl n_cons.
      destruct (negb (bt_order K V curr =? bt_order K V next)
                || match rest' with s :: _ => bt_order K V s =? bt_order K V curr | [] => false end).
      + destruct (IH next) as [Hp Hf]. split.
        * simpl. apply Permutation_app_head. exact Hp.
        * intros H1 H2. inversion H2; subst. constructor; auto.
      + destruct (Z.gtb_spec (cmp (bt_key K V next) (bt_key K V curr)) 0) as [Hgt|Hle].
        * destruct (IH (n_link K V next curr)) as [Hp Hf]. split.
          -- rewrite Hp, n_link_entries. simpl. now rewrite <- app_assoc.
          -- intros H1 H2. inversion H2; subst. apply Hf; auto.
             apply n_link_hord; auto.
             pose proof (cmp_gt_lt cmp TO (bt_key K V next) (bt_key K V curr) ltac:(lia)). lia.
        * destruct (IH (n_link K V curr next)) as [Hp Hf]. split.
          -- rewrite Hp, n_link_entries. simpl. rewrite <- app_assoc.
             rewrite !app_assoc. apply Permutation_app_tail. apply Permutation_app_comm.
          -- intros H1 H2. inversion H2; subst. apply Hf; auto.
             apply n_link_hord; auto.
  Qed.

  Lemma n_union_spec l1 l2 :
    Permutation (entries (n_union K V cmp l1 l2)) (entries l1 ++ entries l2) /\
    (Forall hord l1 -> Forall hord l2 -> Forall hord (n_union K V cmp l1 l2)).
  Proof.
    unfold n_union, n_consolidate. destruct (n_merge_spec l1 l2) as [Hp Hf].
    destruct (n_merge K V l1 l2) as [|c r] eqn:E.
    - split; [exact Hp | constructor].
    - destruct (n_cons_spec r c) as [Hp' Hf']. split.
      + rewrite Hp'. exact Hp.
      + intros H1 H2. specialize (Hf H1 H2). inversion Hf; subst. auto.
  Qed.

  (** ** findExt *)
  Lemma n_find_ext_spec l : forall t pre e post,
    n_find_ext K V cmp t l = (pre, e, post) ->
    t :: l = pre ++ e :: post /\
    forall x, In x (t :: l) -> (cmp (bt_key K V e) (bt_key K V x) <= 0)%Z.
  Proof.
    induction l as [|u r IH]; intros t pre e post H.
    - simpl in H. injection H as <- <- <-. split; [reflexivity|].
      intros x [<-|[]]. rewrite (cmp_refl cmp TO). lia.
    - simpl in H. destruct (n_find_ext K V cmp u r) as [[pre' e'] post'] eqn:E.
      destruct (IH u pre' e' post' E) as [Hsplit Hmin].
      destruct (Z.ltb_spec (cmp (bt_key K V e') (bt_key K V t)) 0) as [Hlt|Hge];
        injection H as <- <- <-.
      + split; [simpl; now rewrite Hsplit|].
        intros x [<-|Hx]; [lia | now apply Hmin].
      + split; [reflexivity|].
        intros x [<-|Hx]; [rewrite (cmp_refl cmp TO); lia|].
        eapply (cmp_le_trans cmp TO); [|apply Hmin; exact Hx].
        apply (cmp_nlt_le cmp TO). lia.
  Qed.

  (** ** traversal *)
  Lemma bt_exists_spec p t : bt_exists K V p t = existsb p (bt_entries t).
  Proof.
    induction t as [k v o cs IH] using btree_ind'. simpl. f_equal.
    induction cs as [|c cs IHcs]; [reflexivity|].
    inversion IH; subst. simpl. rewrite existsb_app. f_equal; auto.
  Qed.

  Lemma n_exists_spec p l : n_exists K V p l = existsb p (entries l).
  Proof.
    unfold n_exists, entries. induction l as [|t l IH]; [reflexivity|].
    simpl. now rewrite existsb_app, bt_exists_spec, IH.
  Qed.

  (** ** invariant and abstraction *)
  Definition ninv (h : nheap K V) : Prop :=
    Forall hord (n_head K V h) /\ n_n K V h = length (entries (n_head K V h)).
  Definition nbag (h : nheap K V) : list entry := entries (n_head K V h).

  Lemma ninv_new : ninv (n_new K V).
  Proof. split; [constructor | reflexivity]. Qed.

  Lemma forest_min l e :
    Forall hord l -> In e l -> (forall x, In x l -> (cmp (bt_key K V e) (bt_key K V x) <= 0)%Z) ->
    extremal K V cmp (fst (bt_entry K V e)) (entries l).
  Proof.
    intros Hh He Hmin x Hx. apply in_flat_map in Hx as (t & Ht & Hxt). simpl.
    rewrite Forall_forall in Hh.
    eapply (cmp_le_trans cmp TO); [apply Hmin; exact Ht | apply hord_root_first; auto].
  Qed.

  Lemma n_merge_heaps_ok a b :
    ninv a -> ninv b ->
    ninv (n_merge_heaps K V cmp a b) /\ Permutation (nbag (n_merge_heaps K V cmp a b)) (nbag a ++ nbag b).
  Proof.
    intros [Ha Hna] [Hb Hnb]. unfold n_merge_heaps, ninv, nbag. simpl.
    destruct (n_union_spec (n_head K V a) (n_head K V b)) as [Hp Hf].
    repeat split; auto.
    rewrite (Permutation_length Hp), app_length. lia.
  Qed.

  Lemma n_act_ok h a :
    ninv h -> not_merge a ->
    exists h' r, n_act K V cmp eqv a h = Ok (h', r) /\ ninv h' /\
                 spec_step K V cmp eqv (nbag h) a r (nbag h').
  Proof.
    intros Hinv Hnm. pose proof Hinv as [Hh Hn].
    destruct a as [k v| | | | | |k|v|j]; simpl.
    - (* Insert *)
      eexists _, _. split; [reflexivity|].
      destruct (n_union_spec (n_head K V h) [BNode k v 0 []]) as [Hp Hf].
      assert (Hsingle : Forall hord [BNode k v 0 []]) by (repeat constructor).
      split.
      + split; simpl; [auto|]. rewrite (Permutation_length Hp), app_length. simpl. lia.
      + constructor. unfold nbag; simpl. rewrite Hp. simpl.
        rewrite Permutation_app_comm. reflexivity.
    - (* Delete *)
      unfold n_delete. destruct (n_head K V h) as [|t l] eqn:Eh.
      + exists h, (OEntry None). split; [reflexivity|]. split; [exact Hinv|].
        unfold nbag. rewrite Eh. constructor.
      + destruct (n_find_ext K V cmp t l) as [[pre e] post] eqn:Ef.
        destruct (n_find_ext_spec l t pre e post Ef) as [Hsplit Hmin].
        destruct (n_union_spec (pre ++ post) (rev (bt_children K V e))) as [Hp Hf].
        assert (Hall : Forall hord (pre ++ e :: post)) by (rewrite <- Hsplit; exact Hh).
        apply Forall_app in Hall as [Hpre Hpost]. inversion Hpost as [|e' post' He Hpost']; subst e' post'.
        assert (Hch : Forall hord (rev (bt_children K V e))).
        { apply Forall_rev. destruct e; simpl. now inversion He. }
        assert (Hent : Permutation (entries (t :: l))
                         (bt_entry K V e :: entries (pre ++ post) ++ entries (rev (bt_children K V e)))).
        { rewrite Hsplit, !entries_app, entries_rev. simpl.
          destruct e as [ek ev eo ecs]; simpl. fold (entries ecs).
          rewrite <- Permutation_middle. apply perm_skip.
          rewrite <- !app_assoc. apply Permutation_app_head. apply Permutation_app_comm. }
        eexists _, _. split; [reflexivity|]. split.
        * split; simpl.
          -- apply Hf; [apply Forall_app; auto | exact Hch].
          -- rewrite (Permutation_length Hp), Hn, (Permutation_length Hent). simpl. lia.
        * unfold nbag; simpl. rewrite Eh. constructor.
          -- rewrite Hp. exact Hent.
          -- apply forest_min; auto. rewrite Hsplit. apply in_elt.
    - (* Peek *)
      unfold n_peek. destruct (n_head K V h) as [|t l] eqn:Eh.
      + exists h, (OEntry None). split; [reflexivity|]. split; [exact Hinv|].
        unfold nbag. rewrite Eh. constructor.
      + destruct (n_find_ext K V cmp t l) as [[pre e] post] eqn:Ef.
        destruct (n_find_ext_spec l t pre e post Ef) as [Hsplit Hmin].
        exists h, (OEntry (Some (bt_entry K V e))). split; [reflexivity|].
        split; [exact Hinv|].
        unfold nbag. rewrite Eh. constructor.
        * apply in_flat_map. exists e. split; [rewrite Hsplit; apply in_elt | apply bt_entries_key].
        * apply forest_min; auto. rewrite Hsplit. apply in_elt.
    - (* DeleteAll *)
      exists (n_new K V), ONone. split; [reflexivity|]. split; [apply ninv_new | constructor].
    - (* Size *)
      exists h, (ONat (n_n K V h)). split; [reflexivity|]. split; [exact Hinv|].
      rewrite Hn. constructor.
    - (* IsEmpty *)
      exists h, (OBool (n_is_empty K V h)). split; [reflexivity|]. split; [exact Hinv|].
      replace (n_is_empty K V h) with (length (nbag h) =? 0); [constructor|].
      unfold n_is_empty, nbag. destruct (n_head K V h) as [|[k v o cs] l]; reflexivity.
    - (* ContainsKey *)
      exists h, (OBool (n_exists K V (has_key K V cmp k) (n_head K V h))).
      split; [reflexivity|]. split; [exact Hinv|]. rewrite n_exists_spec. constructor.
    - (* ContainsValue *)
      exists h, (OBool (n_exists K V (has_val K V eqv v) (n_head K V h))).
      split; [reflexivity|]. split; [exact Hinv|]. rewrite n_exists_spec. constructor.
    - destruct Hnm.
  Qed.
End Binomial.
