(** C04 — the Fibonacci heap refines the bag specification.
    Invariant of a heap: every tree is heap-ordered and has at least [2^degree] nodes (no
    decrease-key in the non-indexed variant, so trees are only ever linked, never cut), the
    entry point of the root ring has an extremal key, and [n] is the number of nodes.
    [consolidate] is shown to terminate within its fuel, to stay inside the degree table
    (given [2^d <= n -> d < max_degree n], proved in ProofsMaxDeg.v), to keep the multiset and
    to leave an extremal root at the entry point. *)
From Coq Require Import Permutation Lia.
From Algo.C04 Require Import Model Spec ProofsCommon.
Open Scope nat_scope.
Local Arguments max_degree : simpl never.

Section Fib.
  Context {K V : Type} (cmp : K -> K -> Z) (eqv : V -> V -> bool) (TO : TotalOrder K cmp).
  Notation entry := (entry K V).
  Notation ftree := (ftree K V).
  Notation iring := (iring K V).

  (** the size of the degree table suffices for trees with [2^degree] nodes *)
  Hypothesis maxdeg_ok : forall d n, 2 ^ d <= n -> d < max_degree n.

  Fixpoint ft_entries (t : ftree) : list entry :=
    match t with FNode k v _ cs => (k, v) :: flat_map ft_entries cs end.
  Definition fentries (l : list ftree) : list entry := flat_map ft_entries l.

  Lemma ftree_ind' (P : ftree -> Prop) :
    (forall k v d cs, Forall P cs -> P (FNode k v d cs)) -> forall t, P t.
  Proof.
    intros H. fix IH 1. intros [k v d cs]. apply H.
    induction cs as [|c cs IHcs]; constructor; [apply IH | exact IHcs].
  Qed.

  (** heap order, weight, and the degrees of the children: a node of degree [d] has children
      of degrees [d-1, …, 0] in ring order from the child pointer (without decrease-key the trees
      of a Fibonacci heap are binomial trees) *)
  Inductive fgood : ftree -> Prop :=
  | fgood_node k v d cs :
      Forall (fun c => (cmp k (ft_key K V c) <= 0)%Z) cs -> Forall fgood cs ->
      2 ^ d <= S (length (fentries cs)) ->
      map (ft_degree K V) cs = rev (seq 0 d) ->
      fgood (FNode k v d cs).

  Lemma ft_entries_key t : In (ft_entry K V t) (ft_entries t).
  Proof. destruct t; simpl. now left. Qed.

  Lemma fgood_root_first t : fgood t -> forall e, In e (ft_entries t) -> (cmp (ft_key K V t) (fst e) <= 0)%Z.
  Proof.
    induction t as [k v d cs IH] using ftree_ind'. intros Hh e He.
    inversion Hh as [k' v' d' cs' Hk Hc Hw Hdeg]; subst. simpl in *.
    destruct He as [<-|He]; [simpl; rewrite (cmp_refl cmp TO); lia|].
    apply in_flat_map in He as (c & Hc1 & Hc2).
    rewrite Forall_forall in IH, Hk, Hc.
    eapply (cmp_le_trans cmp TO); [apply Hk; exact Hc1 | apply IH; auto].
  Qed.

  Lemma fgood_weight t : fgood t -> 2 ^ ft_degree K V t <= length (ft_entries t).
  Proof. intros H. inversion H; subst. simpl. assumption. Qed.

  Lemma fgood_children t : fgood t -> Forall fgood (ft_children K V t).
  Proof. intros H. inversion H; subst. simpl. assumption. Qed.

  Lemma f_link_entries c p :
    Permutation (ft_entries (f_link K V c p)) (ft_entries p ++ ft_entries c).
  Proof. destruct p as [k v d cs]. simpl. apply perm_skip. apply Permutation_app_comm. Qed.

  Lemma f_link_key c p : ft_key K V (f_link K V c p) = ft_key K V p.
  Proof. now destruct p. Qed.

  Lemma f_link_good c p :
    fgood c -> fgood p -> (cmp (ft_key K V p) (ft_key K V c) <= 0)%Z ->
    ft_degree K V c = ft_degree K V p -> fgood (f_link K V c p).
  Proof.
    intros Hc Hp Hle Hd. pose proof (fgood_weight c Hc) as Hwc.
    destruct p as [k v d cs]. inversion Hp; subst. simpl in Hd, Hle, Hwc.
    unfold f_link. constructor; [constructor; auto | constructor; auto | |].
    - unfold fentries in *. simpl. rewrite app_length. rewrite Hd in Hwc. lia.
    - rewrite seq_S, rev_app_distr. simpl. congruence.
  Qed.

  Lemma fgood_child_degrees t :
    fgood t -> map (ft_degree K V) (ft_children K V t) = rev (seq 0 (ft_degree K V t)).
  Proof. intros H. inversion H; subst. simpl. assumption. Qed.

  Lemma ft_exists_spec p t : ft_exists K V p t = existsb p (ft_entries t).
  Proof.
    induction t as [k v d cs IH] using ftree_ind'. simpl. f_equal.
    induction cs as [|c cs IHcs]; [reflexivity|].
    inversion IH; subst. simpl. rewrite existsb_app. f_equal; auto.
  Qed.

  Lemma f_exists_spec p l : f_exists K V p l = existsb p (fentries l).
  Proof.
    unfold f_exists, fentries. induction l as [|t l IH]; [reflexivity|].
    simpl. now rewrite existsb_app, ft_exists_spec, IH.
  Qed.

  Lemma fentries_app l1 l2 : fentries (l1 ++ l2) = fentries l1 ++ fentries l2.
  Proof. apply flat_map_app. Qed.

  Lemma fentries_perm l1 l2 : Permutation l1 l2 -> Permutation (fentries l1) (fentries l2).
  Proof. apply Permutation_flat_map. Qed.

  (** * rings with addresses *)
  Definition ids (r : iring) : list nat := map fst r.
  Definition trees (r : iring) : list ftree := map snd r.

  Lemma r_find_in i t r : r_find K V i r = Some t -> In (i, t) r.
  Proof.
    induction r as [|[j u] r IH]; simpl; [discriminate|].
    destruct (Nat.eqb_spec i j) as [->|Hne]; intros H.
    - injection H as <-. now left.
    - right. auto.
  Qed.

  Lemma in_r_find i t r : NoDup (ids r) -> In (i, t) r -> r_find K V i r = Some t.
  Proof.
    induction r as [|[j u] r IH]; simpl; intros Hnd Hin; [tauto|].
    inversion Hnd as [|? ? Hnotin Hnd']; subst.
    destruct Hin as [Heq|Hin].
    - injection Heq as -> ->. now rewrite Nat.eqb_refl.
    - destruct (Nat.eqb_spec i j) as [->|Hne]; [|auto].
      exfalso. apply Hnotin. change j with (fst (j, t)). now apply in_map.
  Qed.

  Lemma r_find_none i r : r_find K V i r = None -> ~ In i (ids r).
  Proof.
    induction r as [|[j u] r IH]; simpl; [tauto|].
    destruct (Nat.eqb_spec i j) as [->|Hne]; [discriminate|]. intros H [Hj|Hin]; [congruence | now apply IH].
  Qed.

  Lemma r_remove_perm i t r : r_find K V i r = Some t -> Permutation r ((i, t) :: r_remove K V i r).
  Proof.
    induction r as [|[j u] r IH]; simpl; [discriminate|].
    destruct (Nat.eqb_spec i j) as [->|Hne]; intros H.
    - injection H as <-. reflexivity.
    - rewrite (IH H) at 1. apply perm_swap.
  Qed.

  Lemma r_replace_perm i t t' r :
    r_find K V i r = Some t -> Permutation (r_replace K V i t' r) ((i, t') :: r_remove K V i r).
  Proof.
    induction r as [|[j u] r IH]; simpl; [discriminate|].
    destruct (Nat.eqb_spec i j) as [->|Hne]; intros H.
    - reflexivity.
    - rewrite (IH H). apply perm_swap.
  Qed.

  Lemma r_find_remove_neq i j r : i <> j -> r_find K V i (r_remove K V j r) = r_find K V i r.
  Proof.
    intros Hne. induction r as [|[k u] r IH]; simpl; [reflexivity|].
    destruct (Nat.eqb_spec j k) as [->|Hjk].
    - destruct (Nat.eqb_spec i k); [congruence | reflexivity].
    - simpl. now rewrite IH.
  Qed.

  Lemma r_split_app i r : forall a b, r_split K V i r = (a, b) -> r = a ++ b.
  Proof.
    induction r as [|[j u] r IH]; simpl; intros a b H.
    - now injection H as <- <-.
    - destruct (Nat.eqb_spec i j) as [->|Hne].
      + now injection H as <- <-.
      + destruct (r_split K V i r) as [a' b'] eqn:E. injection H as <- <-.
        simpl. f_equal. now apply IH.
  Qed.

  Lemma r_split_head i t r : r_find K V i r = Some t ->
    exists a b, r_split K V i r = (a, (i, t) :: b).
  Proof.
    induction r as [|[j u] r IH]; simpl; [discriminate|].
    destruct (Nat.eqb_spec i j) as [->|Hne]; intros H.
    - injection H as <-. eauto.
    - destruct (IH H) as (a & b & ->). eauto.
  Qed.

  Lemma r_rotate_perm i r : Permutation (r_rotate_to K V i r) r.
  Proof.
    unfold r_rotate_to. destruct (r_split K V i r) as [a b] eqn:E.
    rewrite (r_split_app _ _ _ _ E). apply Permutation_app_comm.
  Qed.

  Lemma r_rotate_head i t r : r_find K V i r = Some t -> exists rest, r_rotate_to K V i r = (i, t) :: rest.
  Proof.
    intros H. unfold r_rotate_to. destruct (r_split_head _ _ _ H) as (a & b & ->). simpl. eauto.
  Qed.

  Lemma ids_perm r1 r2 : Permutation r1 r2 -> Permutation (ids r1) (ids r2).
  Proof. apply Permutation_map. Qed.

  Lemma trees_perm r1 r2 : Permutation r1 r2 -> Permutation (trees r1) (trees r2).
  Proof. apply Permutation_map. Qed.

  (** [i.next] is another node of the ring when the ring has at least two nodes *)
  Lemma r_next_in i t r :
    NoDup (ids r) -> r_find K V i r = Some t -> 2 <= length r ->
    In (r_next K V i r) (ids r) /\ r_next K V i r <> i.
  Proof.
    intros Hnd Hf Hlen. unfold r_next.
    destruct (r_rotate_head _ _ _ Hf) as (rest & Hrot).
    pose proof (r_rotate_perm i r) as Hp. rewrite Hrot in *.
    destruct rest as [|[j u] rest].
    - apply Permutation_length in Hp. simpl in Hp. lia.
    - split.
      + eapply Permutation_in; [apply ids_perm; exact Hp|]. simpl. auto.
      + assert (Hnd' : NoDup (ids ((i, t) :: (j, u) :: rest))).
        { eapply Permutation_NoDup; [symmetry; apply ids_perm; exact Hp | exact Hnd]. }
        simpl in Hnd'. inversion Hnd' as [|? ? Hnotin _]; subst. simpl in Hnotin. intuition.
  Qed.

  (** cutting node [a] out of the ring and replacing node [b] by the linked tree *)
  Lemma link_ring a b ta tb tb' r :
    a <> b -> r_find K V a r = Some ta -> r_find K V b r = Some tb ->
    exists R0, Permutation r ((a, ta) :: (b, tb) :: R0) /\
               Permutation (r_rotate_to K V b (r_replace K V b tb' (r_remove K V a r))) ((b, tb') :: R0) /\
               r_find K V b (r_rotate_to K V b (r_replace K V b tb' (r_remove K V a r))) = Some tb'.
  Proof.
    intros Hne Ha Hb.
    assert (Hb1 : r_find K V b (r_remove K V a r) = Some tb) by (rewrite r_find_remove_neq; auto).
    exists (r_remove K V b (r_remove K V a r)). split; [|split].
    - rewrite (r_remove_perm _ _ _ Ha) at 1. apply perm_skip. now apply r_remove_perm.
    - rewrite r_rotate_perm. now apply r_replace_perm with (t := tb).
    - assert (Hrep : r_find K V b (r_replace K V b tb' (r_remove K V a r)) = Some tb').
      { clear - Hb1. induction (r_remove K V a r) as [|[j u] r' IH]; simpl in *; [discriminate|].
        destruct (Nat.eqb_spec b j) as [->|Hne]; simpl.
        - now rewrite Nat.eqb_refl.
        - destruct (Nat.eqb_spec b j); [congruence|]. auto. }
      destruct (r_rotate_head _ _ _ Hrep) as (rest & ->). simpl. now rewrite Nat.eqb_refl.
  Qed.

  (** * consolidate *)
  Lemma flat_map_length_in {A B} (f : A -> list B) x l : In x l -> length (f x) <= length (flat_map f l).
  Proof.
    induction l as [|y l IH]; simpl; [tauto|]. rewrite app_length.
    intros [->|H]; [lia | specialize (IH H); lia].
  Qed.

  (** what holds of ring, table and [h.ext] throughout, for a heap of [n] entries with bag [B] *)
  Record ccore (n : nat) (B : list entry) (ring : iring) (tab : list (option nat)) (ext : nat) : Prop := {
    cc_nodup : NoDup (ids ring);
    cc_tab : forall d i, nth_error tab d = Some (Some i) -> exists t, In (i, t) ring /\ ft_degree K V t = d;
    cc_good : Forall fgood (trees ring);
    cc_bag : Permutation (fentries (trees ring)) B;
    cc_len : length tab = max_degree n;
    cc_n : length B = n;
    cc_ext : In ext (ids ring)
  }.

  (** the first [p] nodes of the ring (from [stop]) are recorded in the table *)
  Definition seen (ring : iring) (tab : list (option nat)) (p : nat) : Prop :=
    forall j i t, j < p -> nth_error ring j = Some (i, t) ->
                  nth_error tab (ft_degree K V t) = Some (Some i).

  Definition cinv (n : nat) (B : list entry) (s : cstate K V) : Prop :=
    ccore n B (c_ring K V s) (c_tab K V s) (c_ext K V s) /\
    c_pos K V s < length (c_ring K V s) /\
    seen (c_ring K V s) (c_tab K V s) (c_pos K V s).

  Definition cfinal (n : nat) (B : list entry) (s : cstate K V) : Prop :=
    ccore n B (c_ring K V s) (c_tab K V s) (c_ext K V s) /\
    seen (c_ring K V s) (c_tab K V s) (length (c_ring K V s)).

  Lemma in_trees i t (r : iring) : In (i, t) r -> In t (trees r).
  Proof. intros H. change t with (snd (i, t)). now apply in_map. Qed.

  Lemma in_ids i t (r : iring) : In (i, t) r -> In i (ids r).
  Proof. intros H. change i with (fst (i, t)). now apply in_map. Qed.

  Lemma degree_in_range n B ring tab ext i t :
    ccore n B ring tab ext -> In (i, t) ring -> ft_degree K V t < length tab.
  Proof.
    intros C Hin. rewrite (cc_len _ _ _ _ _ C). apply maxdeg_ok.
    pose proof (cc_good _ _ _ _ _ C) as Hg. rewrite Forall_forall in Hg.
    etransitivity; [apply fgood_weight, Hg, (in_trees _ _ _ Hin)|].
    rewrite <- (cc_n _ _ _ _ _ C), <- (Permutation_length (cc_bag _ _ _ _ _ C)).
    apply (flat_map_length_in ft_entries), (in_trees _ _ _ Hin).
  Qed.

  Lemma in_unique (r : iring) i t t' : NoDup (ids r) -> In (i, t) r -> In (i, t') r -> t = t'.
  Proof.
    intros Hnd H1 H2. apply (in_r_find _ _ _ Hnd) in H1. apply (in_r_find _ _ _ Hnd) in H2. congruence.
  Qed.

  Lemma link_preserves n B ring tab ext a b ta tb d :
    ccore n B ring tab ext -> a <> b -> In (a, ta) ring -> In (b, tb) ring ->
    ft_degree K V ta = d -> ft_degree K V tb = d ->
    (cmp (ft_key K V tb) (ft_key K V ta) <= 0)%Z ->
    ccore n B (r_rotate_to K V b (r_replace K V b (f_link K V ta tb) (r_remove K V a ring)))
          (upd tab d None) (if ext =? a then r_next K V a ring else ext) /\
    S (length (r_rotate_to K V b (r_replace K V b (f_link K V ta tb) (r_remove K V a ring)))) = length ring /\
    1 <= length (r_rotate_to K V b (r_replace K V b (f_link K V ta tb) (r_remove K V a ring))).
  Proof.
    intros C Hab Ha Hb Hda Hdb Hle.
    pose proof (cc_nodup _ _ _ _ _ C) as Hnd.
    pose proof (in_r_find _ _ _ Hnd Ha) as Hfa. pose proof (in_r_find _ _ _ Hnd Hb) as Hfb.
    destruct (link_ring a b ta tb (f_link K V ta tb) ring Hab Hfa Hfb) as (R0 & Hp1 & Hp2 & Hf2).
    set (ring' := r_rotate_to K V b (r_replace K V b (f_link K V ta tb) (r_remove K V a ring))) in *.
    assert (Hnd1 : NoDup (a :: b :: ids R0)).
    { eapply Permutation_NoDup; [apply (ids_perm _ _ Hp1) | exact Hnd]. }
    assert (Hgood : Forall fgood (ta :: tb :: trees R0)).
    { eapply Permutation_Forall; [apply (trees_perm _ _ Hp1) | exact (cc_good _ _ _ _ _ C)]. }
    inversion Hgood as [|? ? Hga Hgood']; subst. inversion Hgood' as [|? ? Hgb Hg0]; subst.
    split; [split|split].
    - eapply Permutation_NoDup; [symmetry; apply (ids_perm _ _ Hp2)|]. simpl. now inversion Hnd1.
    - intros d' i Hi. destruct (Nat.eq_dec (ft_degree K V ta) d') as [<-|Hne].
      + exfalso. destruct (Nat.lt_ge_cases (ft_degree K V ta) (length tab)) as [Hlt|Hge].
        * rewrite nth_error_upd_eq in Hi by assumption. discriminate.
        * rewrite upd_oob in Hi by assumption. apply nth_error_None in Hge. congruence.
      + rewrite nth_error_upd_neq in Hi by assumption.
        destruct (cc_tab _ _ _ _ _ C d' i Hi) as (t & Hin & Hdt). exists t. split; [|exact Hdt].
        eapply Permutation_in in Hin; [|exact Hp1].
        destruct Hin as [E|[E|Hin]]; [injection E as <- <-; congruence | injection E as <- <-; congruence |].
        eapply Permutation_in; [symmetry; exact Hp2 | now right].
    - eapply Permutation_Forall; [symmetry; apply (trees_perm _ _ Hp2)|]. simpl.
      constructor; [|assumption]. apply f_link_good; auto; congruence.
    - rewrite (fentries_perm _ _ (trees_perm _ _ Hp2)).
      rewrite <- (cc_bag _ _ _ _ _ C), (fentries_perm _ _ (trees_perm _ _ Hp1)).
      change (Permutation (ft_entries (f_link K V ta tb) ++ fentries (trees R0))
                          (ft_entries ta ++ ft_entries tb ++ fentries (trees R0))).
      rewrite f_link_entries. rewrite <- !app_assoc.
      rewrite (app_assoc (ft_entries tb)), (Permutation_app_comm (ft_entries tb)), <- app_assoc. reflexivity.
    - rewrite upd_length. exact (cc_len _ _ _ _ _ C).
    - exact (cc_n _ _ _ _ _ C).
    - assert (Hids' : forall x, x <> a -> In x (ids ring) -> In x (ids ring')).
      { intros x Hxa Hx. eapply Permutation_in in Hx; [|apply (ids_perm _ _ Hp1)].
        eapply Permutation_in; [symmetry; apply (ids_perm _ _ Hp2)|].
        simpl in *. destruct Hx as [Hx|Hx]; [congruence | exact Hx]. }
      destruct (Nat.eqb_spec ext a) as [->|Hne].
      + assert (Hlen : 2 <= length ring) by (rewrite (Permutation_length Hp1); simpl; lia).
        destruct (r_next_in a ta ring Hnd Hfa Hlen) as [Hin Hneq]. now apply Hids'.
      + apply Hids'; [exact Hne | exact (cc_ext _ _ _ _ _ C)].
    - rewrite (Permutation_length Hp2), (Permutation_length Hp1). reflexivity.
    - rewrite (Permutation_length Hp2). simpl. lia.
  Qed.

  Lemma nth_error_ids (r : iring) j i t : nth_error r j = Some (i, t) -> nth_error (ids r) j = Some i.
  Proof. intros H. unfold ids. now rewrite nth_error_map, H. Qed.

  Lemma cstep_ok n B s :
    cinv n B s ->
    match cstep K V cmp s with
    | CFailed _ _ => False
    | CLinked _ _ s' => cinv n B s' /\ S (length (c_ring K V s')) = length (c_ring K V s)
    | CAdvanced _ _ s' => cinv n B s' /\ c_ring K V s' = c_ring K V s /\ c_pos K V s' = S (c_pos K V s)
    | CFinished _ _ s' => cfinal n B s'
    end.
  Proof.
    intros (C & Hpos & Hseen). destruct s as [ring pos tab ext]; simpl in *.
    unfold cstep; simpl.
    destruct (nth_error ring pos) as [[xi xt]|] eqn:Ex; [|apply nth_error_None in Ex; lia].
    pose proof (nth_error_In _ _ Ex) as Hxin.
    pose proof (degree_in_range _ _ _ _ _ _ _ C Hxin) as Hd.
    destruct (nth_error tab (ft_degree K V xt)) as [oy|] eqn:Ey; [|apply nth_error_None in Ey; lia].
    pose proof (cc_nodup _ _ _ _ _ C) as Hnd.
    destruct (match oy with Some yi => if yi =? xi then None else Some yi | None => None end) as [yi|] eqn:Eoy.
    - (* y != nil && y != x : link *)
      assert (Hoy : oy = Some yi /\ yi <> xi).
      { destruct oy as [y|]; [|discriminate]. destruct (Nat.eqb_spec y xi); [discriminate|].
        injection Eoy as <-. auto. }
      destruct Hoy as [-> Hne].
      destruct (cc_tab _ _ _ _ _ C _ _ Ey) as (yt & Hyin & Hyd).
      rewrite (in_r_find _ _ _ Hnd Hyin).
      destruct (Z.gtb_spec (cmp (ft_key K V xt) (ft_key K V yt)) 0) as [Hgt|Hle].
      + destruct (link_preserves n B ring tab ext xi yi xt yt (ft_degree K V xt) C) as (C' & Hlen & Hpos'); auto.
        { pose proof (cmp_gt_lt cmp TO (ft_key K V xt) (ft_key K V yt) ltac:(lia)). lia. }
        simpl. split; [|exact Hlen]. split; [exact C'|]. simpl. split; [lia|]. intros j i t Hj; lia.
      + destruct (link_preserves n B ring tab ext yi xi yt xt (ft_degree K V xt) C) as (C' & Hlen & Hpos'); auto.
        simpl. split; [|exact Hlen]. split; [exact C'|]. simpl. split; [lia|]. intros j i t Hj; lia.
    - (* roots[x.degree] = x ; advance *)
      assert (Hoy : oy = None \/ oy = Some xi).
      { destruct oy as [y|]; [|auto]. destruct (Nat.eqb_spec y xi); [subst; auto | discriminate]. }
      assert (C' : ccore n B ring (upd tab (ft_degree K V xt) (Some xi)) ext).
      { destruct C as [c1 c2 c3 c4 c5 c6 c7]. split; auto.
        - intros d' i Hi. destruct (Nat.eq_dec (ft_degree K V xt) d') as [<-|Hne].
          + rewrite nth_error_upd_eq in Hi by assumption. injection Hi as <-. eauto.
          + rewrite nth_error_upd_neq in Hi by assumption. eauto.
        - now rewrite upd_length. }
      assert (Hseen' : seen ring (upd tab (ft_degree K V xt) (Some xi)) (S pos)).
      { intros j i t Hj Hjt. destruct (Nat.eq_dec j pos) as [->|Hjp].
        - rewrite Ex in Hjt. injection Hjt as <- <-. now apply nth_error_upd_eq.
        - assert (Hold : nth_error tab (ft_degree K V t) = Some (Some i)) by (eapply Hseen; eauto; lia).
          destruct (Nat.eq_dec (ft_degree K V xt) (ft_degree K V t)) as [Heq|Hneq].
          + exfalso. rewrite <- Heq, Ey in Hold. injection Hold as ->.
            destruct Hoy as [|Hoy]; [discriminate|]. injection Hoy as ->.
            apply Hjp. eapply (proj1 (NoDup_nth_error (ids ring)) Hnd).
            * apply nth_error_Some. rewrite (nth_error_ids _ _ _ _ Hjt). discriminate.
            * now rewrite (nth_error_ids _ _ _ _ Hjt), (nth_error_ids _ _ _ _ Ex).
          + now rewrite nth_error_upd_neq. }
      change (match length ring with 0 => false | S m' => pos =? m' end) with (S pos =? length ring).
      destruct (Nat.eqb_spec (S pos) (length ring)) as [Heq|Hneq]; simpl.
      + split; [exact C'|]. simpl. rewrite <- Heq. exact Hseen'.
      + split; [|auto]. split; [exact C'|]. simpl. split; [lia | exact Hseen'].
  Qed.

  (** ** the loop terminates within its fuel *)
  Lemma c_inner_ok n B L (k : cstate K V -> res (cstate K V)) :
    (forall s', cinv n B s' -> length (c_ring K V s') < L ->
                exists s'', k s' = Ok s'' /\ cfinal n B s'') ->
    forall f2 s, cinv n B s -> length (c_ring K V s) <= L ->
                 length (c_ring K V s) - c_pos K V s <= f2 ->
                 exists s', c_inner K V cmp k f2 s = Ok s' /\ cfinal n B s'.
  Proof.
    intros Hk. induction f2 as [|f2 IH]; intros s Hinv HL Hf.
    - destruct Hinv as (_ & Hpos & _). lia.
    - simpl. pose proof (cstep_ok n B s Hinv) as Hstep.
      destruct (cstep K V cmp s) as [s'|s'|s'|].
      + destruct Hstep as [Hinv' Hlen]. apply Hk; [exact Hinv' | lia].
      + destruct Hstep as (Hinv' & Hring & Hpos'). apply IH; [exact Hinv' | rewrite Hring; exact HL |].
        rewrite Hring, Hpos'. lia.
      + eauto.
      + destruct Hstep.
  Qed.

  Lemma c_loop_ok n B m : forall f1 s,
    cinv n B s -> length (c_ring K V s) <= f1 -> length (c_ring K V s) <= m ->
    exists s', c_loop K V cmp m f1 s = Ok s' /\ cfinal n B s'.
  Proof.
    induction f1 as [|f1 IH]; intros s Hinv H1 Hm.
    - destruct Hinv as (_ & Hpos & _). lia.
    - simpl. apply c_inner_ok with (n := n) (B := B) (L := length (c_ring K V s)); auto; [|lia].
      intros s' Hinv' Hlt. apply IH; [exact Hinv' | lia | lia].
  Qed.

  (** ** the final choice of the extremum *)
  Lemma c_pick_fold (ring : iring) : NoDup (ids ring) -> forall tab e et,
    In (e, et) ring ->
    (forall i, In (Some i) tab -> exists t, In (i, t) ring) ->
    exists e' et',
      fold_left (c_pick K V cmp ring) tab (Ok e) = Ok e' /\ In (e', et') ring /\
      (cmp (ft_key K V et') (ft_key K V et) <= 0)%Z /\
      forall i t, In (Some i) tab -> In (i, t) ring -> (cmp (ft_key K V et') (ft_key K V t) <= 0)%Z.
  Proof.
    intros Hnd. induction tab as [|r tab IH]; intros e et He Htab.
    - exists e, et. simpl. repeat split; auto.
      + rewrite (cmp_refl cmp TO). lia.
      + intros i t [].
    - simpl fold_left. destruct r as [ri|].
      + destruct (Htab ri (or_introl eq_refl)) as [rt Hrt].
        unfold c_pick at 2. simpl bind.
        rewrite (in_r_find _ _ _ Hnd He), (in_r_find _ _ _ Hnd Hrt).
        destruct (Z.leb_spec (cmp (ft_key K V et) (ft_key K V rt)) 0) as [Hle|Hgt].
        * destruct (IH e et He (fun i Hi => Htab i (or_intror Hi))) as (e' & et' & Hfold & Hin & Hle' & Hall).
          exists e', et'. repeat split; auto.
          intros i t [Heq|Hi] Hit; [|eauto].
          injection Heq as ->. rewrite (in_unique _ _ _ _ Hnd Hit Hrt).
          eapply (cmp_le_trans cmp TO); eassumption.
        * destruct (IH ri rt Hrt (fun i Hi => Htab i (or_intror Hi))) as (e' & et' & Hfold & Hin & Hle' & Hall).
          exists e', et'. repeat split; auto.
          -- eapply (cmp_le_trans cmp TO); [exact Hle'|].
             pose proof (cmp_gt_lt cmp TO (ft_key K V et) (ft_key K V rt) ltac:(lia)). lia.
          -- intros i t [Heq|Hi] Hit; [|eauto].
             injection Heq as ->. now rewrite (in_unique _ _ _ _ Hnd Hit Hrt).
      + unfold c_pick at 2.
        destruct (IH e et He (fun i Hi => Htab i (or_intror Hi))) as (e' & et' & Hfold & Hin & Hle' & Hall).
        exists e', et'. repeat split; auto.
        intros i t [Heq|Hi] Hit; [discriminate | eauto].
  Qed.

  (** after the loop every root is recorded under its degree: the degrees are pairwise distinct *)
  Lemma seen_all_distinct (ring : iring) tab :
    NoDup (ids ring) -> seen ring tab (length ring) ->
    NoDup (map (fun it => ft_degree K V (snd it)) ring).
  Proof.
    intros Hnd Hseen. apply NoDup_nth_error. intros i j Hi Heq.
    rewrite map_length in Hi. rewrite !nth_error_map in Heq.
    destruct (nth_error ring i) as [[a t]|] eqn:Ei; [|apply nth_error_None in Ei; lia].
    destruct (nth_error ring j) as [[a' t']|] eqn:Ej; [|discriminate].
    simpl in Heq. injection Heq as Hdeg.
    pose proof (Hseen i a t Hi Ei) as H1.
    assert (Hj : j < length ring) by (apply nth_error_Some; rewrite Ej; discriminate).
    pose proof (Hseen j a' t' Hj Ej) as H2.
    rewrite Hdeg in H1. rewrite H1 in H2. injection H2 as <-.
    apply (proj1 (NoDup_nth_error (ids ring)) Hnd).
    - unfold ids. now rewrite map_length.
    - now rewrite (nth_error_ids _ _ _ _ Ei), (nth_error_ids _ _ _ _ Ej).
  Qed.

  Definition head_min (ring : list ftree) : Prop :=
    match ring with
    | [] => True
    | e :: _ => forall t, In t ring -> (cmp (ft_key K V e) (ft_key K V t) <= 0)%Z
    end.

  Lemma combine_fst {A B} (l1 : list A) : forall (l2 : list B),
    length l1 = length l2 -> map fst (combine l1 l2) = l1.
  Proof. induction l1; destruct l2; simpl; intros; try lia; f_equal; auto. Qed.

  Lemma combine_snd {A B} (l1 : list A) : forall (l2 : list B),
    length l1 = length l2 -> map snd (combine l1 l2) = l2.
  Proof. induction l1; destruct l2; simpl; intros; try lia; f_equal; auto. Qed.

  Lemma f_consolidate_ok n ring :
    ring <> [] -> Forall fgood ring -> length (fentries ring) = n ->
    exists ring', f_consolidate K V cmp n ring = Ok ring' /\ Forall fgood ring' /\
                  Permutation (fentries ring') (fentries ring) /\ head_min ring' /\ ring' <> [] /\
                  NoDup (map (ft_degree K V) ring').
  Proof.
    intros Hne Hgood Hn. unfold f_consolidate.
    set (m := length ring).
    assert (Hm : 1 <= m) by (unfold m; destruct ring; simpl; [congruence | lia]).
    set (ring0 := combine (seq 0 m) ring).
    assert (Hids : ids ring0 = seq 0 m) by (apply combine_fst; now rewrite seq_length).
    assert (Htrees : trees ring0 = ring) by (apply combine_snd; now rewrite seq_length).
    assert (Hlen0 : length ring0 = m) by (unfold ring0; rewrite combine_length, seq_length; lia).
    set (s0 := {| c_ring := ring0; c_pos := 0; c_tab := repeat None (max_degree n); c_ext := 0 |}).
    assert (Hinv0 : cinv n (fentries ring) s0).
    { split; [split|split]; unfold s0; cbn [c_ring c_pos c_tab c_ext].
      - rewrite Hids. apply seq_NoDup.
      - intros d i Hi. apply nth_error_In, repeat_spec in Hi. discriminate.
      - now rewrite Htrees.
      - now rewrite Htrees.
      - apply repeat_length.
      - exact Hn.
      - rewrite Hids. apply in_seq. lia.
      - lia.
      - intros j i t Hj. lia. }
    destruct (c_loop_ok n (fentries ring) (S m) (S m) s0 Hinv0) as (s & Hloop & C & Hseen);
      [unfold s0; cbn [c_ring]; lia | unfold s0; cbn [c_ring]; lia |].
    rewrite Hloop. simpl bind.
    pose proof (cc_nodup _ _ _ _ _ C) as Hnd.
    pose proof (cc_ext _ _ _ _ _ C) as Hext.
    apply in_map_iff in Hext as ([e0 et0] & He0 & Hin0). simpl in He0. subst e0.
    destruct (c_pick_fold (c_ring K V s) Hnd (c_tab K V s) (c_ext K V s) et0 Hin0) as (e & et & Hfold & Hin & _ & Hall).
    { intros i Hi. apply In_nth_error in Hi as [d Hd].
      destruct (cc_tab _ _ _ _ _ C d i Hd) as (t & Ht & _). eauto. }
    rewrite Hfold. simpl bind.
    destruct (r_rotate_head _ _ _ (in_r_find _ _ _ Hnd Hin)) as (rest & Hrot).
    pose proof (r_rotate_perm e (c_ring K V s)) as Hperm.
    pose proof (seen_all_distinct _ _ Hnd Hseen) as Hdist.
    eexists. split; [reflexivity|]. rewrite Hrot in *. split; [|split; [|split; [|split]]].
    - eapply Permutation_Forall; [symmetry; apply (trees_perm _ _ Hperm) | exact (cc_good _ _ _ _ _ C)].
    - fold (trees ((e, et) :: rest)). rewrite (fentries_perm _ _ (trees_perm _ _ Hperm)).
      exact (cc_bag _ _ _ _ _ C).
    - simpl. intros t Ht.
      assert (Ht' : In t (trees ((e, et) :: rest))) by exact Ht.
      apply in_map_iff in Ht' as ([i t'] & Heq & Hit). simpl in Heq. subst t'.
      eapply Permutation_in in Hit; [|exact Hperm].
      destruct (In_nth_error _ _ Hit) as [j Hj].
      apply (Hall i t); [|exact Hit].
      eapply nth_error_In, Hseen; [|exact Hj]. apply nth_error_Some. rewrite Hj. discriminate.
    - discriminate.
    - eapply Permutation_NoDup; [|exact Hdist].
      fold (trees ((e, et) :: rest)). unfold trees. rewrite !map_map.
      symmetry. apply Permutation_map. exact Hperm.
  Qed.

  (** * invariant and abstraction of the heap *)
  Definition finv (h : fheap K V) : Prop :=
    Forall fgood (f_ring K V h) /\ f_n K V h = length (fentries (f_ring K V h)) /\ head_min (f_ring K V h).
  Definition fbag (h : fheap K V) : list entry := fentries (f_ring K V h).

  Lemma finv_new : finv (f_new K V).
  Proof. repeat split; simpl; auto. Qed.

  Lemma ring_min ring e rest :
    ring = e :: rest -> Forall fgood ring -> head_min ring ->
    extremal K V cmp (fst (ft_entry K V e)) (fentries ring).
  Proof.
    intros -> Hg Hm x Hx. apply in_flat_map in Hx as (t & Ht & Hxt). simpl.
    rewrite Forall_forall in Hg.
    eapply (cmp_le_trans cmp TO); [apply Hm; exact Ht | apply fgood_root_first; auto].
  Qed.

  Lemma fgood_leaf k v : fgood (FNode k v 0 []).
  Proof. constructor; simpl; auto. Qed.

  (** consequence checked by the package's [verify()]: a child's degree is below its parent's *)
  Lemma fgood_child_degree_lt t c :
    fgood t -> In c (ft_children K V t) -> ft_degree K V c < ft_degree K V t.
  Proof.
    intros Ht Hc. pose proof (fgood_child_degrees t Ht) as Hd.
    apply (in_map (ft_degree K V)) in Hc. rewrite Hd in Hc.
    apply in_rev, in_seq in Hc. lia.
  Qed.

  Lemma f_insert_ok k v h :
    finv h -> finv (f_insert K V cmp k v h) /\ Permutation (fbag (f_insert K V cmp k v h)) ((k, v) :: fbag h).
  Proof.
    intros (Hg & Hn & Hm). unfold finv, fbag, f_insert. simpl.
    destruct (f_ring K V h) as [|e rest] eqn:Er.
    - split; [split; [|split]|].
      + constructor; [apply fgood_leaf | constructor].
      + simpl in *. lia.
      + simpl. intros t [<-|[]]. simpl. rewrite (cmp_refl cmp TO). lia.
      + reflexivity.
    - destruct (Z.leb_spec (cmp (ft_key K V e) k) 0) as [Hle|Hgt].
      + rewrite fentries_app. split; [split; [|split]|].
        * apply Forall_app. split; [exact Hg | constructor; [apply fgood_leaf | constructor]].
        * rewrite app_length, Hn. simpl. lia.
        * simpl. simpl in Hm. intros t Ht. change (In t ((e :: rest) ++ [FNode k v 0 []])) in Ht.
          apply in_app_or in Ht as [Ht|[<-|[]]]; [now apply Hm | exact Hle].
        * simpl. rewrite Permutation_app_comm. reflexivity.
      + split; [split; [|split]|].
        * constructor; [apply fgood_leaf | exact Hg].
        * simpl. simpl in Hn. lia.
        * simpl. simpl in Hm. intros t [<-|Ht].
          -- simpl. rewrite (cmp_refl cmp TO). lia.
          -- eapply (cmp_le_trans cmp TO); [|apply Hm; exact Ht].
             pose proof (cmp_gt_lt cmp TO (ft_key K V e) k ltac:(lia)). simpl. lia.
        * reflexivity.
  Qed.

  Lemma f_merge_heaps_ok a b :
    finv a -> finv b ->
    finv (f_merge_heaps K V cmp a b) /\ Permutation (fbag (f_merge_heaps K V cmp a b)) (fbag a ++ fbag b).
  Proof.
    intros (Hga & Hna & Hma) (Hgb & Hnb & Hmb). unfold finv, fbag, f_merge_heaps. simpl.
    destruct (f_ring K V a) as [|x r1] eqn:Ea.
    - simpl in *. rewrite Hna. simpl. repeat split; auto.
    - destruct (f_ring K V b) as [|y t2] eqn:Eb.
      + simpl in Hnb. rewrite Hnb, Nat.add_0_r, app_nil_r. repeat split; auto.
      + inversion Hgb as [|? ? Hgy Hgt2]; subst.
        assert (Hperm : Permutation ((x :: r1) ++ t2 ++ [y]) ((x :: r1) ++ y :: t2)).
        { apply Permutation_app_head. rewrite Permutation_app_comm. reflexivity. }
        destruct (Z.leb_spec (cmp (ft_key K V x) (ft_key K V y)) 0) as [Hle|Hgt].
        * split; [split; [|split]|].
          -- eapply Permutation_Forall; [symmetry; exact Hperm|]. apply Forall_app; split; auto.
          -- rewrite (Permutation_length (fentries_perm _ _ Hperm)), fentries_app, app_length. lia.
          -- simpl. intros t Ht. change (In t ((x :: r1) ++ t2 ++ [y])) in Ht.
             eapply Permutation_in in Ht; [|exact Hperm].
             apply in_app_or in Ht as [Ht|Ht]; [now apply Hma|].
             eapply (cmp_le_trans cmp TO); [exact Hle | now apply Hmb].
          -- rewrite (fentries_perm _ _ Hperm), fentries_app. reflexivity.
        * assert (Hyx : (cmp (ft_key K V y) (ft_key K V x) <= 0)%Z).
          { pose proof (cmp_gt_lt cmp TO (ft_key K V x) (ft_key K V y) ltac:(lia)). lia. }
          assert (Hperm2 : Permutation (y :: (x :: r1) ++ t2) ((x :: r1) ++ y :: t2)) by apply Permutation_middle.
          split; [split; [|split]|].
          -- eapply Permutation_Forall; [symmetry; exact Hperm2|]. apply Forall_app; split; auto.
          -- rewrite (Permutation_length (fentries_perm _ _ Hperm2)), fentries_app, app_length. lia.
          -- simpl. intros t Ht. change (In t (y :: (x :: r1) ++ t2)) in Ht.
             eapply Permutation_in in Ht; [|exact Hperm2].
             apply in_app_or in Ht as [Ht|Ht]; [|now apply Hmb].
             eapply (cmp_le_trans cmp TO); [exact Hyx | now apply Hma].
          -- rewrite (fentries_perm _ _ Hperm2), fentries_app. reflexivity.
  Qed.

  Lemma f_meld_perm r1 r2 : Permutation (f_meld K V r1 r2) (r1 ++ r2).
  Proof.
    unfold f_meld. destruct r1 as [|a r1]; [reflexivity|].
    destruct r2 as [|b t2]; [now rewrite app_nil_r|].
    apply Permutation_app_head. rewrite Permutation_app_comm. reflexivity.
  Qed.

  Lemma f_delete_ok h :
    finv h -> exists h' r, f_delete K V cmp h = Ok (h', r) /\ finv h' /\
                           spec_step K V cmp eqv (fbag h) Delete (OEntry r) (fbag h').
  Proof.
    intros Hinv. pose proof Hinv as (Hg & Hn & Hm). unfold f_delete.
    destruct (f_ring K V h) as [|e rest] eqn:Er.
    - exists h, None. split; [reflexivity|]. split; [exact Hinv|]. unfold fbag. rewrite Er. constructor.
    - set (r1 := f_meld K V rest (ft_children K V e)).
      inversion Hg as [|? ? Hge Hgrest]; subst.
      assert (Hp1 : Permutation r1 (rest ++ ft_children K V e)) by apply f_meld_perm.
      assert (Hg1 : Forall fgood r1).
      { eapply Permutation_Forall; [symmetry; exact Hp1|]. apply Forall_app; split; auto.
        now apply fgood_children. }
      assert (Hbag : Permutation (fentries (e :: rest)) (ft_entry K V e :: fentries r1)).
      { rewrite (fentries_perm _ _ Hp1), fentries_app. destruct e as [k v d cs]. simpl.
        apply perm_skip. apply Permutation_app_comm. }
      assert (Hn1 : f_n K V h - 1 = length (fentries r1)).
      { rewrite Hn, (Permutation_length Hbag). simpl. lia. }
      assert (Hext : extremal K V cmp (fst (ft_entry K V e)) (fentries (e :: rest))).
      { eapply ring_min; eauto. }
      destruct r1 as [|a r1'] eqn:E1.
      + eexists _, _. split; [reflexivity|]. split.
        * repeat split; simpl; auto.
        * unfold fbag. rewrite Er. simpl f_ring. constructor; [exact Hbag | exact Hext].
      + destruct (f_consolidate_ok (f_n K V h - 1) (a :: r1')) as (ring' & Hc & Hg' & Hp' & Hm' & Hne' & _);
          [discriminate | exact Hg1 | now rewrite Hn1 |].
        rewrite Hc. simpl bind.
        eexists _, _. split; [reflexivity|]. split.
        * repeat split; simpl; auto. now rewrite (Permutation_length Hp').
        * unfold fbag. rewrite Er. simpl f_ring. constructor; [|exact Hext].
          rewrite Hp'. exact Hbag.
  Qed.

  (** a Delete leaves at most one root per degree *)
  Lemma f_delete_consolidates h h' e :
    finv h -> f_delete K V cmp h = Ok (h', Some e) -> NoDup (map (ft_degree K V) (f_ring K V h')).
  Proof.
    intros (Hg & Hn & Hm) H. unfold f_delete in H.
    destruct (f_ring K V h) as [|x rest] eqn:Er; [discriminate|].
    inversion Hg as [|? ? Hgx Hgrest]; subst.
    pose proof (f_meld_perm rest (ft_children K V x)) as Hp1.
    assert (Hg1 : Forall fgood (f_meld K V rest (ft_children K V x))).
    { eapply Permutation_Forall; [symmetry; exact Hp1|]. apply Forall_app; split; auto.
      now apply fgood_children. }
    destruct (f_meld K V rest (ft_children K V x)) as [|a r1'] eqn:E1.
    - injection H as <- _. simpl. constructor.
    - destruct (f_consolidate_ok (length (fentries (a :: r1'))) (a :: r1')) as (ring' & Hc & _ & _ & _ & _ & Hd);
        [discriminate | exact Hg1 | reflexivity |].
      assert (Hlen : f_n K V h - 1 = length (fentries (a :: r1'))).
      { rewrite Hn, (Permutation_length (fentries_perm _ _ Hp1)), fentries_app.
        destruct x as [k v d cs]. simpl. unfold fentries. rewrite !app_length. simpl. lia. }
      rewrite Hlen, Hc in H. simpl in H. injection H as <- _. simpl. exact Hd.
  Qed.

  (** the package's [verify()] (transcribed as [f_verify]) answers true *)
  Lemma ft_verify_ok n t :
    fgood t -> length (ft_entries t) <= n -> ft_verify K V cmp (max_degree n) t = true.
  Proof.
    induction t as [k v d cs IH] using ftree_ind'. intros Hg Hsz.
    inversion Hg as [? ? ? ? Hk Hc Hw Hdeg]; subst. simpl in Hsz.
    assert (Hdd : Forall (fun c => ft_degree K V c <= d) cs).
    { apply Forall_forall. intros c Hin. apply (in_map (ft_degree K V)) in Hin.
      rewrite Hdeg in Hin. apply in_rev, in_seq in Hin. lia. }
    assert (Hss : Forall (fun c => length (ft_entries c) <= n) cs).
    { apply Forall_forall. intros c Hin. pose proof (flat_map_length_in ft_entries c cs Hin). lia. }
    simpl. apply andb_true_iff. split.
    - apply Nat.leb_le. apply Nat.lt_le_incl, maxdeg_ok. unfold fentries in Hw. lia.
    - clear Hg Hw Hdeg Hsz.
      induction cs as [|c cs IHcs]; [reflexivity|].
      inversion IH; inversion Hk; inversion Hc; inversion Hdd; inversion Hss; subst.
      repeat (apply andb_true_iff; split); auto.
      + apply negb_true_iff. rewrite Z.gtb_ltb. apply Z.ltb_ge. assumption.
      + now apply Nat.leb_le.
  Qed.

  Lemma f_verify_ok h : finv h -> f_verify K V cmp h = true.
  Proof.
    intros (Hg & Hn & Hm). unfold f_verify. destruct (f_ring K V h) as [|e rest] eqn:Er; [reflexivity|].
    apply andb_true_iff. split.
    - apply forallb_forall. intros t Ht. rewrite Forall_forall in Hg. apply ft_verify_ok; [auto|].
      rewrite Hn. apply (flat_map_length_in ft_entries). exact Ht.
    - apply forallb_forall. intros t Ht. apply Z.leb_le. now apply Hm.
  Qed.

  Lemma f_act_ok h a :
    finv h -> not_merge a ->
    exists h' r, f_act K V cmp eqv a h = Ok (h', r) /\ finv h' /\
                 spec_step K V cmp eqv (fbag h) a r (fbag h').
  Proof.
    intros Hinv Hnm. pose proof Hinv as (Hg & Hn & Hm).
    destruct a as [k v| | | | | |k|v|j]; simpl.
    - destruct (f_insert_ok k v h Hinv) as [Hi Hp].
      eexists _, _. split; [reflexivity|]. split; [exact Hi | now constructor].
    - destruct (f_delete_ok h Hinv) as (h' & r & -> & Hi & Hs). simpl. eauto.
    - exists h, (OEntry (f_peek K V h)). split; [reflexivity|]. split; [exact Hinv|].
      unfold f_peek, fbag. destruct (f_ring K V h) as [|e rest] eqn:Er.
      + constructor.
      + constructor.
        * apply in_flat_map. exists e. split; [now left | apply ft_entries_key].
        * eapply ring_min; eauto.
    - exists (f_new K V), ONone. split; [reflexivity|]. split; [apply finv_new | constructor].
    - exists h, (ONat (f_n K V h)). split; [reflexivity|]. split; [exact Hinv|]. rewrite Hn. constructor.
    - exists h, (OBool (f_is_empty K V h)). split; [reflexivity|]. split; [exact Hinv|].
      replace (f_is_empty K V h) with (length (fbag h) =? 0); [constructor|].
      unfold f_is_empty, fbag. destruct (f_ring K V h) as [|[k v d cs] l]; reflexivity.
    - exists h, (OBool (f_exists K V (has_key K V cmp k) (f_ring K V h))).
      split; [reflexivity|]. split; [exact Hinv|]. rewrite f_exists_spec. constructor.
    - exists h, (OBool (f_exists K V (has_val K V eqv v) (f_ring K V h))).
      split; [reflexivity|]. split; [exact Hinv|]. rewrite f_exists_spec. constructor.
    - destruct Hnm.
  Qed.
End Fib.
