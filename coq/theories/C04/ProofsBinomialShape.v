(** C04 — shape of the binomial heap: in every reachable state the root list has strictly
    increasing orders and every tree is a binomial tree (a node of order [o] has exactly the
    children of orders [o-1, …, 0], in this order).  Together with heap order (ProofsBinomial.v)
    this is what the package's own [verify()] checks.  The delicate part is [consolidate] on the
    output of [merge]: orders non-decreasing, every order at most twice, and the deferral when
    three trees of one order meet. *)
From Coq Require Import Permutation Lia Sorted.
From Algo.C04 Require Import Model Spec ProofsCommon ProofsBinomial.
Open Scope nat_scope.

Section Shape.
  Context {K V : Type} (cmp : K -> K -> Z) (eqv : V -> V -> bool).
  Notation btree := (btree K V).
  Notation ord := (bt_order K V).

  Inductive bshape : btree -> Prop :=
  | bshape_node k v o cs :
      map ord cs = rev (seq 0 o) -> Forall bshape cs -> bshape (BNode k v o cs).

  Definition ords (l : list btree) : list nat := map ord l.
  Definition incr (l : list btree) : Prop := StronglySorted lt (ords l).

  Lemma bshape_leaf k v : bshape (BNode k v 0 []).
  Proof. constructor; [reflexivity | constructor]. Qed.

  Lemma n_link_shape c p : bshape c -> bshape p -> ord c = ord p -> bshape (n_link K V c p).
  Proof.
    intros Hc Hp Ho. destruct p as [k v o cs]. inversion Hp; subst. simpl in Ho.
    unfold n_link. constructor; [|constructor; auto].
    rewrite seq_S, rev_app_distr. simpl. congruence.
  Qed.

  Lemma n_link_ord c p : ord (n_link K V c p) = S (ord p).
  Proof. now destruct p. Qed.

  (** ** merge: sorted, every order at most twice *)
  Lemma n_merge_perm l1 : forall l2, Permutation (n_merge K V l1 l2) (l1 ++ l2).
  Proof.
    induction l1 as [|t1 r1 IH1]; intros l2.
    - destruct l2; reflexivity.
    - induction l2 as [|t2 r2 IH2].
      + simpl. now rewrite app_nil_r.
      + change (n_merge K V (t1 :: r1) (t2 :: r2)) with
          (if ord t1 <? ord t2 then t1 :: n_merge K V r1 (t2 :: r2) else t2 :: n_merge K V (t1 :: r1) r2).
        destruct (ord t1 <? ord t2).
        * simpl. apply perm_skip. apply IH1.
        * rewrite IH2. apply Permutation_middle.
  Qed.

  Lemma hdrel_merge a l1 : forall l2,
    HdRel le a (ords l1) -> HdRel le a (ords l2) -> HdRel le a (ords (n_merge K V l1 l2)).
  Proof.
    intros l2 H1 H2. destruct l1 as [|t1 r1]; [destruct l2; exact H2|].
    destruct l2 as [|t2 r2]; [exact H1|].
    change (n_merge K V (t1 :: r1) (t2 :: r2)) with
      (if ord t1 <? ord t2 then t1 :: n_merge K V r1 (t2 :: r2) else t2 :: n_merge K V (t1 :: r1) r2).
    destruct (ord t1 <? ord t2); simpl; constructor.
    - now inversion H1.
    - now inversion H2.
  Qed.

  Lemma n_merge_sorted l1 : forall l2,
    Sorted le (ords l1) -> Sorted le (ords l2) -> Sorted le (ords (n_merge K V l1 l2)).
  Proof.
    induction l1 as [|t1 r1 IH1]; intros l2 H1 H2.
    - destruct l2; exact H2.
    - induction l2 as [|t2 r2 IH2]; [exact H1|].
      change (n_merge K V (t1 :: r1) (t2 :: r2)) with
        (if ord t1 <? ord t2 then t1 :: n_merge K V r1 (t2 :: r2) else t2 :: n_merge K V (t1 :: r1) r2).
      destruct (Nat.ltb_spec (ord t1) (ord t2)) as [Hlt|Hge].
      + simpl. inversion H1; subst. constructor.
        * apply IH1; assumption.
        * apply hdrel_merge; [assumption | constructor; lia].
      + simpl. inversion H2; subst. constructor.
        * apply IH2; assumption.
        * apply (hdrel_merge (ord t2) (t1 :: r1) r2); [constructor; lia | assumption].
  Qed.

  Lemma sorted_lt_le l : StronglySorted lt l -> Sorted le l.
  Proof.
    intros H. apply StronglySorted_Sorted.
    induction H; constructor; auto. eapply Forall_impl; [|eassumption]. intros; simpl in *; lia.
  Qed.

  Lemma sorted_lt_count l o : StronglySorted lt l -> count_occ Nat.eq_dec l o <= 1.
  Proof.
    induction 1 as [|a l Hs IH Hall]; simpl; [lia|].
    destruct (Nat.eq_dec a o) as [->|Hne]; [|exact IH].
    assert (count_occ Nat.eq_dec l o = 0); [|lia].
    apply count_occ_not_In. intros Hin. rewrite Forall_forall in Hall. apply Hall in Hin. lia.
  Qed.

  (** what [merge] hands to [consolidate] *)
  Definition twice (l : list nat) : Prop := forall o, count_occ Nat.eq_dec l o <= 2.

  Lemma n_merge_twice l1 l2 : incr l1 -> incr l2 -> twice (ords (n_merge K V l1 l2)).
  Proof.
    intros H1 H2 o. unfold ords.
    assert (Hp : Permutation (map ord (n_merge K V l1 l2)) (map ord l1 ++ map ord l2)).
    { rewrite <- map_app. apply Permutation_map, n_merge_perm. }
    rewrite (proj1 (Permutation_count_occ Nat.eq_dec _ _) Hp o), count_occ_app.
    pose proof (sorted_lt_count _ o H1). pose proof (sorted_lt_count _ o H2). unfold ords in *. lia.
  Qed.

  (** ** consolidate *)
  (** state of the scan: [c] is the order of [curr], [l] the orders from [next] on *)
  Definition scan_ok (c : nat) (l : list nat) : Prop := StronglySorted le (c :: l) /\ twice l.

  (** the order every output tree is guaranteed to reach *)
  Definition lo (c : nat) (l : list nat) : nat :=
    match l with
    | n :: l' => if negb (c =? n) || match l' with s :: _ => s =? c | [] => false end then c else S c
    | [] => c
    end.

  Lemma lo_ge c l : c <= lo c l.
  Proof.
    unfold lo. destruct l as [|n l']; [lia|].
    destruct (negb (c =? n) || match l' with s :: _ => s =? c | [] => false end); lia.
  Qed.

  Lemma twice_tail a l : twice (a :: l) -> twice l.
  Proof. intros H o. specialize (H o). simpl in H. destruct (Nat.eq_dec a o); lia. Qed.

  Lemma n_cons_shape rest : forall curr,
    scan_ok (ord curr) (ords rest) -> bshape curr -> Forall bshape rest ->
    Forall bshape (n_cons K V cmp curr rest) /\
    incr (n_cons K V cmp curr rest) /\
    Forall (fun t => lo (ord curr) (ords rest) <= ord t) (n_cons K V cmp curr rest).
  Proof.
    induction rest as [|next rest' IH]; intros curr [Hs Ht] Hc Hr.
    - simpl. repeat split; repeat constructor. auto.
    - inversion Hr as [|? ? Hn Hr']; subst.
      inversion Hs as [|? ? Hs' Hall]; subst.
      inversion Hall as [|? ? Hcn Hall']; subst.
      assert (Hscan' : scan_ok (ord next) (ords rest')) by (split; [exact Hs' | eapply twice_tail; exact Ht]).
      simpl n_cons. unfold lo; simpl ords.
      destruct (negb (ord curr =? ord next) || match rest' with s :: _ => ord s =? ord curr | [] => false end) eqn:Econd.
      + (* cases 1 and 2: curr stays, the scan moves on *)
        destruct (IH next Hscan' Hn Hr') as (Hb & Hi & Hlo).
        assert (Econd' : negb (ord curr =? ord next) || match ords rest' with s :: _ => s =? ord curr | [] => false end = true).
        { destruct rest'; exact Econd. }
        rewrite Econd'.
        assert (Hgt : Forall (fun t => ord curr < ord t) (n_cons K V cmp next rest')).
        { apply orb_true_iff in Econd as [Hne|Hthree].
          - apply negb_true_iff, Nat.eqb_neq in Hne.
            eapply Forall_impl; [|exact Hlo]. intros t Ht'. cbv beta in Ht'.
            pose proof (lo_ge (ord next) (ords rest')). lia.
          - (* three trees of this order: next and its sibling will be linked *)
            destruct rest' as [|s rest'']; [discriminate|]. apply Nat.eqb_eq in Hthree.
            destruct (Nat.eq_dec (ord curr) (ord next)) as [Heq|Hne].
            + eapply Forall_impl; [|exact Hlo]. intros t Ht'.
              assert (Hlo' : lo (ord next) (ords (s :: rest'')) = S (ord next)).
              { unfold lo. simpl ords. rewrite <- Heq, <- Hthree, Nat.eqb_refl. simpl.
                destruct rest'' as [|c3 rest3]; [reflexivity|]. simpl.
                destruct (Nat.eqb_spec (ord c3) (ord s)) as [E3|]; [|reflexivity].
                exfalso. assert (Hn' : ord next = ord s) by congruence.
                specialize (Ht (ord s)). unfold ords in Ht. simpl in Ht. rewrite Hn', E3 in Ht.
                destruct (Nat.eq_dec (ord s) (ord s)) as [_|Hx]; [lia | now apply Hx]. }
              rewrite Hlo' in Ht'. lia.
            + eapply Forall_impl; [|exact Hlo]. intros t Ht'.
              pose proof (lo_ge (ord next) (ords (s :: rest''))). cbv beta in Ht'. lia. }
        repeat split.
        * constructor; assumption.
        * unfold incr, ords. simpl. constructor; [exact Hi|].
          apply Forall_map. exact Hgt.
        * constructor; [lia|]. eapply Forall_impl; [|exact Hgt]. intros; simpl in *; lia.
      + (* cases 3 and 4: link *)
        apply orb_false_iff in Econd as [Heq Hnot]. apply negb_false_iff, Nat.eqb_eq in Heq.
        assert (Econd' : negb (ord curr =? ord next) || match ords rest' with s :: _ => s =? ord curr | [] => false end = false).
        { rewrite Heq, Nat.eqb_refl. simpl. destruct rest'; [reflexivity|]. simpl. rewrite <- Heq. exact Hnot. }
        rewrite Econd'.
        assert (Hup : Forall (le (S (ord curr))) (ords rest')).
        { inversion Hs' as [|? ? Hs'' Hall'']; subst.
          destruct rest' as [|s rest'']; [constructor|].
          apply Nat.eqb_neq in Hnot. simpl in *.
          inversion Hall'' as [|? ? Hns _]; subst.
          inversion Hs'' as [|? ? _ Hall3]; subst.
          constructor; [lia|]. eapply Forall_impl; [|exact Hall3]. intros; simpl in *; lia. }
        assert (Hs'' : StronglySorted le (ords rest')) by (now inversion Hs').
        destruct (Z.gtb_spec (cmp (bt_key K V next) (bt_key K V curr)) 0).
        * destruct (IH (n_link K V next curr)) as (Hb & Hi & Hlo).
          -- rewrite n_link_ord. split; [constructor; assumption | eapply twice_tail; exact Ht].
          -- apply n_link_shape; auto.
          -- exact Hr'.
          -- repeat split; auto. eapply Forall_impl; [|exact Hlo]. intros t Ht'. cbv beta in Ht'.
             rewrite n_link_ord in Ht'.
             pose proof (lo_ge (S (ord curr)) (ords rest')). lia.
        * destruct (IH (n_link K V curr next)) as (Hb & Hi & Hlo).
          -- rewrite n_link_ord, <- Heq. split; [constructor; assumption | eapply twice_tail; exact Ht].
          -- apply n_link_shape; auto.
          -- exact Hr'.
          -- repeat split; auto. eapply Forall_impl; [|exact Hlo]. intros t Ht'. cbv beta in Ht'.
             rewrite n_link_ord, <- Heq in Ht'.
             pose proof (lo_ge (S (ord curr)) (ords rest')). lia.
  Qed.

  Lemma n_union_shape l1 l2 :
    incr l1 -> incr l2 -> Forall bshape l1 -> Forall bshape l2 ->
    incr (n_union K V cmp l1 l2) /\ Forall bshape (n_union K V cmp l1 l2).
  Proof.
    intros H1 H2 Hb1 Hb2. unfold n_union, n_consolidate.
    pose proof (n_merge_sorted l1 l2 (sorted_lt_le _ H1) (sorted_lt_le _ H2)) as Hsorted.
    pose proof (n_merge_twice l1 l2 H1 H2) as Htw.
    assert (Hb : Forall bshape (n_merge K V l1 l2)).
    { eapply Permutation_Forall; [symmetry; apply n_merge_perm|]. apply Forall_app; auto. }
    destruct (n_merge K V l1 l2) as [|c r].
    - split; constructor.
    - inversion Hb; subst.
      destruct (n_cons_shape r c) as (Hbs & Hi & _); auto.
      split.
      + apply Sorted_StronglySorted; [intros x y z; lia | exact Hsorted].
      + eapply twice_tail; exact Htw.
  Qed.

  (** ** the operations *)
  Definition nshape (h : nheap K V) : Prop := incr (n_head K V h) /\ Forall bshape (n_head K V h).

  Lemma nshape_new : nshape (n_new K V).
  Proof. split; constructor. Qed.

  Lemma seq_sorted s n : StronglySorted lt (seq s n).
  Proof.
    revert s; induction n; intros s; simpl; constructor; auto.
    apply Forall_forall. intros x Hx. apply in_seq in Hx. lia.
  Qed.

  Lemma sorted_app_remove (l1 : list nat) a l2 :
    StronglySorted lt (l1 ++ a :: l2) -> StronglySorted lt (l1 ++ l2).
  Proof.
    induction l1 as [|x l1 IH]; simpl; intros H.
    - now inversion H.
    - inversion H as [|? ? Hs Hall]; subst. constructor; [auto|].
      rewrite Forall_forall in *. intros y Hy. apply Hall.
      apply in_app_or in Hy as [Hy|Hy]; apply in_or_app; [now left | right; now right].
  Qed.

  Lemma n_find_ext_split l : forall t pre e post,
    n_find_ext K V cmp t l = (pre, e, post) -> t :: l = pre ++ e :: post.
  Proof.
    induction l as [|u r IH]; intros t pre e post H; simpl in H.
    - now injection H as <- <- <-.
    - destruct (n_find_ext K V cmp u r) as [[pre' e'] post'] eqn:E.
      pose proof (IH u pre' e' post' E) as Hsplit.
      destruct (cmp (bt_key K V e') (bt_key K V t) <? 0)%Z; injection H as <- <- <-.
      + simpl. now rewrite Hsplit.
      + reflexivity.
  Qed.

  Lemma n_act_shape h a h' r :
    nshape h -> n_act K V cmp eqv a h = Ok (h', r) -> nshape h'.
  Proof.
    intros [Hi Hb] H.
    destruct a as [k v| | | | | |k|v|j]; simpl in H; try (injection H as <- <-; split; assumption).
    - injection H as <- <-. unfold nshape; simpl.
      apply n_union_shape; auto.
      + unfold incr; simpl. repeat constructor.
      + constructor; [apply bshape_leaf | constructor].
    - unfold n_delete in H. destruct (n_head K V h) as [|t l] eqn:Eh.
      + injection H as <- <-. unfold nshape. rewrite Eh. split; constructor.
      + destruct (n_find_ext K V cmp t l) as [[pre e] post] eqn:Ef.
        injection H as <- <-. unfold nshape; simpl.
        pose proof (n_find_ext_split _ _ _ _ _ Ef) as Hsplit. rewrite Hsplit in *.
        apply Forall_app in Hb as [Hbpre Hbpost]. inversion Hbpost as [|? ? Hbe Hbpost']; subst.
        apply n_union_shape.
        * unfold incr, ords in *. rewrite map_app in *. simpl in Hi.
          eapply sorted_app_remove; exact Hi.
        * unfold incr, ords. rewrite map_rev. destruct e as [ek ev eo ecs]. inversion Hbe; subst. simpl.
          match goal with H : map ord ecs = _ |- _ => rewrite H end.
          rewrite rev_involutive. apply seq_sorted.
        * apply Forall_app; auto.
        * apply Forall_rev. destruct e; simpl. now inversion Hbe.
    - injection H as <- <-. apply nshape_new.
  Qed.

  (** ** sizes: a binomial tree of order [o] has [2^o] nodes, so the strictly increasing root
      orders are the positions of the one-bits of [n] *)
  Definition sum2 (l : list nat) : nat := fold_right (fun x a => 2 ^ x + a) 0 l.

  Lemma sum2_desc o : sum2 (rev (seq 0 o)) + 1 = 2 ^ o.
  Proof.
    induction o as [|o IH]; [reflexivity|].
    rewrite seq_S, rev_app_distr. simpl rev. simpl app. simpl sum2. fold (sum2 (rev (seq 0 o))).
    rewrite Nat.pow_succ_r'. lia.
  Qed.

  Lemma flat_entries_size cs :
    Forall (fun c => length (bt_entries c) = 2 ^ ord c) cs ->
    length (flat_map bt_entries cs) = sum2 (map ord cs).
  Proof.
    induction 1 as [|c cs Hc _ IH]; [reflexivity|].
    simpl. rewrite app_length, Hc, IH. reflexivity.
  Qed.

  Lemma bshape_size t : bshape t -> length (bt_entries t) = 2 ^ ord t.
  Proof.
    induction t as [k v o cs IH] using btree_ind'. intros Hs. inversion Hs as [? ? ? ? Hord Hcs]; subst.
    simpl. rewrite flat_entries_size.
    - rewrite Hord. pose proof (sum2_desc o). lia.
    - rewrite Forall_forall in *. intros c Hc. apply IH; auto.
  Qed.

  Lemma nshape_size h :
    nshape h -> n_n K V h = length (entries (n_head K V h)) -> n_n K V h = sum2 (ords (n_head K V h)).
  Proof.
    intros [_ Hb] ->. unfold entries. apply flat_entries_size.
    eapply Forall_impl; [|exact Hb]. intros t. apply bshape_size.
  Qed.

  (** ** the package's [verify()] (transcribed as [n_verify]) answers true *)
  Lemma rev_seq_S m : rev (seq 0 (S m)) = m :: rev (seq 0 m).
  Proof. rewrite seq_S, rev_app_distr. reflexivity. Qed.

  Lemma bt_verify_ok t : hord cmp t -> bshape t -> bt_verify K V cmp t = true.
  Proof.
    induction t as [k v o cs IH] using btree_ind'. intros Hh Hs.
    inversion Hh as [? ? ? ? Hk Hhc]; subst. inversion Hs as [? ? ? ? Hord Hsc]; subst.
    simpl. set (i := 1). assert (Hi : 1 <= i) by (unfold i; lia).
    assert (Hm : map ord cs = rev (seq 0 (S o - i))) by (unfold i; replace (S o - 1) with o by lia; exact Hord).
    clearbody i. clear Hh Hs Hord. revert i Hi Hm.
    induction cs as [|c cs IHcs]; intros i Hi Hm; [reflexivity|].
    inversion IH as [|? ? IHc IHrest]; subst. inversion Hk as [|? ? Hkc Hkrest]; subst.
    inversion Hhc as [|? ? Hhc1 Hhrest]; subst. inversion Hsc as [|? ? Hsc1 Hsrest]; subst.
    destruct (S o - i) as [|m] eqn:Em; [discriminate|].
    rewrite rev_seq_S in Hm. simpl in Hm. injection Hm as Hc Hrest.
    assert (Hio : i <= o) by lia. assert (Hm' : m = o - i) by lia. subst m.
    repeat (apply andb_true_iff; split).
    - apply negb_true_iff. rewrite Z.gtb_ltb. apply Z.ltb_ge. exact Hkc.
    - now apply Nat.leb_le.
    - now apply Nat.eqb_eq.
    - now apply IHc.
    - apply IHcs; auto; try lia. replace (S o - S i) with (ord c) by lia. exact Hrest.
  Qed.

  Lemma orders_increase_ok l : incr l -> orders_increase K V l = true.
  Proof.
    unfold incr, ords. induction l as [|a [|b r] IH]; intros H; [reflexivity | reflexivity|].
    simpl in H. inversion H as [|? ? Hs Hall]; subst. inversion Hall; subst.
    change (orders_increase K V (a :: b :: r)) with ((ord a <? ord b) && orders_increase K V (b :: r)).
    apply andb_true_iff. split; [now apply Nat.ltb_lt | now apply IH].
  Qed.

  Lemma n_verify_ok h : Forall (hord cmp) (n_head K V h) -> nshape h -> n_verify K V cmp h = true.
  Proof.
    intros Hh [Hi Hb]. unfold n_verify. apply andb_true_iff. split.
    - now apply orders_increase_ok.
    - apply forallb_forall. intros t Ht. rewrite Forall_forall in Hh, Hb. apply bt_verify_ok; auto.
  Qed.

  Lemma n_merge_heaps_shape a b : nshape a -> nshape b -> nshape (n_merge_heaps K V cmp a b).
  Proof. intros [Hia Hba] [Hib Hbb]. unfold nshape; simpl. now apply n_union_shape. Qed.
End Shape.
