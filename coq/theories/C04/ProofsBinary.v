(** C04 — the binary heap refines the bag specification (every operation, every reachable state). *)
From Coq Require Import Permutation Lia FinFun.
From Algo.C04 Require Import Model Spec ProofsCommon.
Open Scope nat_scope.
Local Arguments Nat.div : simpl never.
Local Arguments Nat.modulo : simpl never.
Local Arguments Nat.mul : simpl never.

Section Binary.
  Context {K V : Type} (cmp : K -> K -> Z) (eqv : V -> V -> bool) (TO : TotalOrder K cmp).
  Notation entry := (entry K V).
  Notation arr := (arr K V).

  (** slot [i] of the array; [None] for nil and for an index out of range *)
  Definition sl (a : arr) (i : nat) : option entry :=
    match nth_error a i with Some x => x | None => None end.

  Lemma aget_ok a i e : sl a i = Some e -> aget K V a i = Ok e.
  Proof. unfold sl, aget. destruct (nth_error a i) as [[x|]|]; congruence. Qed.

  Lemma aset_ok a i x : i < length a -> aset K V a i x = Ok (upd a i x).
  Proof. unfold aset. intros H. apply Nat.ltb_lt in H. now rewrite H. Qed.

  Lemma sl_upd_eq a i x : i < length a -> sl (upd a i x) i = x.
  Proof. intros H. unfold sl. now rewrite nth_error_upd_eq. Qed.

  Lemma sl_upd_neq a i j x : i <> j -> sl (upd a i x) j = sl a j.
  Proof. intros H. unfold sl. now rewrite nth_error_upd_neq. Qed.

  Lemma sl_oob a i : length a <= i -> sl a i = None.
  Proof. intros H. unfold sl. apply nth_error_None in H. now rewrite H. Qed.

  Lemma nth_error_firstn_lt {A} (l : list A) n i : i < n -> nth_error (firstn n l) i = nth_error l i.
  Proof.
    revert n i; induction l as [|x l IH]; intros n i H.
    - now rewrite firstn_nil.
    - destruct n; [lia|]. destruct i; simpl; [reflexivity|]. apply IH. lia.
  Qed.

  Lemma sl_resize a size i : i < size -> sl (resize K V a size) i = sl a i.
  Proof.
    intros H. unfold resize, sl.
    destruct (Nat.lt_ge_cases i (length a)) as [Hi|Hi].
    - rewrite nth_error_app1 by (rewrite firstn_length; lia).
      now rewrite nth_error_firstn_lt.
    - rewrite nth_error_app2 by (rewrite firstn_length; lia).
      rewrite firstn_length, Nat.min_r by lia.
      rewrite nth_error_repeat by lia.
      apply nth_error_None in Hi. now rewrite Hi.
  Qed.

  Lemma resize_length a size : length (resize K V a size) = size.
  Proof. unfold resize. rewrite app_length, firstn_length, repeat_length. lia. Qed.

  Definition le_opt (x y : option entry) : Prop :=
    match x, y with Some a, Some b => (cmp (fst a) (fst b) <= 0)%Z | _, _ => False end.

  Lemma le_opt_trans x y z : le_opt x y -> le_opt y z -> le_opt x z.
  Proof.
    destruct x, y, z; simpl; try tauto. apply (cmp_le_trans cmp TO).
  Qed.

  Lemma le_opt_refl e : le_opt (Some e) (Some e).
  Proof. simpl. rewrite (cmp_refl cmp TO). lia. Qed.

  Definition filled (a : arr) (n : nat) : Prop :=
    forall i, 1 <= i <= n -> exists e, sl a i = Some e.
  Definition ordered (a : arr) (n : nat) : Prop :=
    forall i, 2 <= i <= n -> le_opt (sl a (i / 2)) (sl a i).
  (** every edge except the one into [k] / except those out of [k] *)
  Definition ord_except_in (a : arr) (n k : nat) : Prop :=
    forall i, 2 <= i <= n -> i <> k -> le_opt (sl a (i / 2)) (sl a i).
  Definition ord_except_out (a : arr) (n k : nat) : Prop :=
    forall i, 2 <= i <= n -> i / 2 <> k -> le_opt (sl a (i / 2)) (sl a i).
  (** the parent of [k] precedes the children of [k] *)
  Definition grand (a : arr) (n k : nat) : Prop :=
    forall i, 2 <= i <= n -> i / 2 = k -> 2 <= k -> le_opt (sl a (k / 2)) (sl a i).

  Definition cell (a : arr) (i : nat) : list entry :=
    match sl a i with Some e => [e] | None => [] end.
  Definition slots (a : arr) (s n : nat) : list entry := flat_map (cell a) (seq s n).

  Lemma slots_ext a b s n :
    (forall i, s <= i < s + n -> sl a i = sl b i) -> slots a s n = slots b s n.
  Proof.
    revert s; induction n; intros s H; simpl; [reflexivity|].
    unfold slots in *. simpl. unfold cell at 1 3. rewrite (H s) by lia. f_equal.
    apply IHn. intros; apply H; lia.
  Qed.

  Lemma slots_S a s n : slots a s (S n) = slots a s n ++ cell a (s + n).
  Proof. unfold slots. rewrite seq_S, flat_map_app. simpl. now rewrite app_nil_r. Qed.

  Lemma slots_cons a s n : slots a s (S n) = cell a s ++ slots a (S s) n.
  Proof. reflexivity. Qed.

  Lemma in_slots a s n e : In e (slots a s n) <-> exists i, s <= i < s + n /\ sl a i = Some e.
  Proof.
    unfold slots. rewrite in_flat_map. split.
    - intros (i & Hi & He). apply in_seq in Hi. exists i. split; [lia|].
      unfold cell in He. destruct (sl a i); simpl in He; [|tauto]. destruct He; [now subst | tauto].
    - intros (i & Hi & He). exists i. split; [apply in_seq; lia|]. unfold cell. rewrite He. now left.
  Qed.

  Lemma slots_length a s n :
    (forall i, s <= i < s + n -> exists e, sl a i = Some e) -> length (slots a s n) = n.
  Proof.
    revert s; induction n; intros s H; [reflexivity|].
    rewrite slots_cons, app_length, IHn by (intros; apply H; lia).
    unfold cell. destruct (H s) as [e ->]; [lia|]. reflexivity.
  Qed.

  Lemma flat_map_map_comp {A B C} (f : B -> list C) (g : A -> B) l :
    flat_map f (map g l) = flat_map (fun x => f (g x)) l.
  Proof. induction l; simpl; congruence. Qed.

  Lemma flat_map_swap (f g : nat -> list entry) s n i j :
    s <= i < s + n -> s <= j < s + n ->
    g i = f j -> g j = f i -> (forall m, m <> i -> m <> j -> g m = f m) ->
    Permutation (flat_map g (seq s n)) (flat_map f (seq s n)).
  Proof.
    intros Hi Hj Hgi Hgj Hm.
    set (t := fun m => if m =? i then j else if m =? j then i else m).
    assert (Hg : forall m, g m = f (t m)).
    { intro m. unfold t. destruct (Nat.eqb_spec m i); [now subst|].
      destruct (Nat.eqb_spec m j); [now subst|]. now apply Hm. }
    rewrite (flat_map_ext _ _ Hg), <- (flat_map_map_comp f t).
    apply Permutation_flat_map.
    assert (Hinj : Injective t).
    { intros x y. unfold t.
      destruct (Nat.eqb_spec x i), (Nat.eqb_spec x j), (Nat.eqb_spec y i), (Nat.eqb_spec y j); lia. }
    apply NoDup_Permutation.
    - apply Injective_map_NoDup; [exact Hinj | apply seq_NoDup].
    - apply seq_NoDup.
    - intros x. rewrite in_map_iff. setoid_rewrite in_seq. split.
      + intros (y & <- & Hy). unfold t.
        destruct (Nat.eqb_spec y i); [lia|]. destruct (Nat.eqb_spec y j); lia.
      + intros Hx. exists (t x). split.
        * unfold t. destruct (Nat.eqb_spec x i) as [->|].
          -- rewrite Nat.eqb_refl. destruct (Nat.eqb_spec j i); congruence.
          -- destruct (Nat.eqb_spec x j) as [->|].
             ++ now rewrite Nat.eqb_refl.
             ++ destruct (Nat.eqb_spec x i); [lia|]. destruct (Nat.eqb_spec x j); [lia|]. reflexivity.
        * unfold t. destruct (Nat.eqb_spec x i); [lia|]. destruct (Nat.eqb_spec x j); lia.
  Qed.

  Lemma slots_swap (F F' : arr) n i j :
    1 <= i <= n -> 1 <= j <= n ->
    sl F' i = sl F j -> sl F' j = sl F i -> (forall m, m <> i -> m <> j -> sl F' m = sl F m) ->
    Permutation (slots F' 1 n) (slots F 1 n).
  Proof.
    intros Hi Hj H1 H2 H3. unfold slots. apply flat_map_swap with (i := i) (j := j); try lia.
    - unfold cell. now rewrite H1.
    - unfold cell. now rewrite H2.
    - intros m Hmi Hmj. unfold cell. now rewrite H3.
  Qed.

  (** ** swim *)
  Lemma swim_ok : forall fuel key val n k (a : arr),
    1 <= k <= n -> n < length a -> k <= fuel ->
    filled (upd a k (Some (key, val))) n ->
    ord_except_in (upd a k (Some (key, val))) n k ->
    grand (upd a k (Some (key, val))) n k ->
    exists k' a',
      swim K V cmp fuel key k a = Ok (k', a') /\ 1 <= k' <= n /\ length a' = length a /\
      filled (upd a' k' (Some (key, val))) n /\
      ordered (upd a' k' (Some (key, val))) n /\
      Permutation (slots (upd a' k' (Some (key, val))) 1 n) (slots (upd a k (Some (key, val))) 1 n) /\
      (forall m, m = 0 \/ n < m -> sl (upd a' k' (Some (key, val))) m = sl (upd a k (Some (key, val))) m).
  Proof.
    induction fuel as [|f IH]; intros key val n k a Hk Hlen Hfuel Hfill Hord Hgr.
    - lia.
    - simpl. destruct (Nat.leb_spec k 1) as [Hk1|Hk1].
      + (* k = 1: the loop ends *)
        assert (k = 1) by lia. subst k.
        exists 1, a. repeat split; try lia; auto.
        intros i Hi. apply Hord; lia.
      + set (F := upd a k (Some (key, val))) in *.
        assert (Hk2 : 1 <= k / 2 < k) by dlia.
        destruct (Hfill (k / 2)) as [p Hp]; [lia|].
        assert (Hpa : sl a (k / 2) = Some p).
        { unfold F in Hp. rewrite sl_upd_neq in Hp by lia. exact Hp. }
        rewrite (aget_ok _ _ _ Hpa). simpl.
        destruct (Z.gtb_spec (cmp (fst p) key) 0) as [Hgt|Hle].
        * (* the parent moves down, the hole moves up *)
          rewrite aset_ok by lia. simpl.
          set (a1 := upd a k (Some p)).
          set (F1 := upd a1 (k / 2) (Some (key, val))).
          assert (Hl1 : length a1 = length a) by apply upd_length.
          assert (E1 : sl F1 (k / 2) = Some (key, val)) by (unfold F1; apply sl_upd_eq; lia).
          assert (E2 : sl F1 k = Some p).
          { unfold F1, a1. rewrite sl_upd_neq by lia. apply sl_upd_eq; lia. }
          assert (E3 : forall m, m <> k -> m <> k / 2 -> sl F1 m = sl F m).
          { intros m H1 H2. unfold F1, a1, F. now rewrite !sl_upd_neq by lia. }
          assert (EF : sl F k = Some (key, val)) by (unfold F; apply sl_upd_eq; lia).
          assert (Hnew_p : le_opt (Some (key, val)) (Some p)).
          { simpl. pose proof (cmp_gt_lt cmp TO (fst p) key ltac:(lia)). lia. }
          destruct (IH key val n (k / 2) a1) as (k' & a' & Hsw & Hk' & Hl' & Hf' & Ho' & Hp' & Hfr');
            try lia.
          -- (* filled *)
             intros i Hi. destruct (Nat.eq_dec i k) as [->|Hik]; [eauto|].
             destruct (Nat.eq_dec i (k / 2)) as [->|Hik2]; [eauto|].
             fold F1. rewrite E3 by assumption. apply Hfill; lia.
          -- (* every edge except the one into k/2 *)
             intros i Hi Hne. fold F1.
             destruct (Nat.eq_dec i k) as [->|Hik].
             { rewrite E1, E2. exact Hnew_p. }
             destruct (Nat.eq_dec (i / 2) k) as [Hc|Hc].
             { (* child of k *)
               rewrite Hc, E2, E3 by dlia. rewrite <- Hp. apply Hgr; lia. }
             destruct (Nat.eq_dec (i / 2) (k / 2)) as [Hs|Hs].
             { (* sibling of k *)
               rewrite Hs, E1, E3 by dlia.
               eapply le_opt_trans; [exact Hnew_p|]. rewrite <- Hp, <- Hs. apply Hord; lia. }
             rewrite !E3 by dlia. apply Hord; lia.
          -- (* grandparent of the children of k/2 *)
             intros i Hi Hpar Hk4. fold F1.
             assert (E4 : sl F1 (k / 2 / 2) = sl F (k / 2 / 2)) by (apply E3; dlia).
             rewrite E4.
             destruct (Nat.eq_dec i k) as [->|Hik].
             { rewrite E2, <- Hp. apply Hord; dlia. }
             rewrite E3 by dlia.
             eapply le_opt_trans; [apply (Hord (k / 2)); dlia|]. rewrite <- Hpar. apply Hord; lia.
          -- exists k', a'. rewrite Hsw. repeat split; try lia; auto.
             ++ etransitivity; [exact Hp'|]. fold F1. fold F.
                apply slots_swap with (i := k) (j := k / 2); try lia.
                ** now rewrite E2, Hp.
                ** now rewrite E1, EF.
                ** intros m H1 H2. now apply E3.
             ++ intros m Hm. rewrite Hfr' by exact Hm. fold F1. apply E3; lia.
        * (* parent <= key: stop *)
          exists k, a. repeat split; try lia; auto.
          intros i Hi. destruct (Nat.eq_dec i k) as [->|Hik]; [|now apply Hord].
          fold F. rewrite Hp. unfold F. rewrite sl_upd_eq by lia. simpl. lia.
  Qed.

  (** ** sink *)
  Lemma sink_ok : forall fuel n kv k (a : arr),
    1 <= k -> k < length a -> n < length a -> n < k + fuel ->
    filled (upd a k (Some kv)) n ->
    ord_except_out (upd a k (Some kv)) n k ->
    grand (upd a k (Some kv)) n k ->
    exists k' a',
      sink K V cmp fuel n kv k (2 * k) a = Ok (k', a') /\ k <= k' /\ k' < length a /\
      length a' = length a /\
      filled (upd a' k' (Some kv)) n /\
      ordered (upd a' k' (Some kv)) n /\
      Permutation (slots (upd a' k' (Some kv)) 1 n) (slots (upd a k (Some kv)) 1 n) /\
      (forall m, m <> k -> m = 0 \/ n < m -> sl (upd a' k' (Some kv)) m = sl (upd a k (Some kv)) m) /\
      (n < k -> k' = k).
  Proof.
    induction fuel as [|f IH]; intros n kv k a Hk Hkl Hlen Hfuel Hfill Hord Hgr.
    - (* no fuel: then 2k > n and the loop is over *)
      simpl. destruct (Nat.ltb_spec n (2 * k)); [|lia].
      exists k, a. repeat split; try lia; auto.
      intros i Hi. apply Hord; [lia | dlia].
    - simpl sink. destruct (Nat.ltb_spec n (2 * k)) as [Hdone|Hmore].
      + exists k, a. repeat split; try lia; auto.
        intros i Hi. apply Hord; [lia | dlia].
      + set (F := upd a k (Some kv)) in *.
        assert (Ea : forall m, m <> k -> sl a m = sl F m).
        { intros m Hm. unfold F. now rewrite sl_upd_neq by lia. }
        assert (EF : sl F k = Some kv) by (unfold F; apply sl_upd_eq; lia).
        (* the smaller child j' *)
        assert (Hj : exists j' ej,
                   (if 2 * k <? n
                    then e1 <- aget K V a (2 * k + 1) ;; e0 <- aget K V a (2 * k) ;;
                         Ok (if (cmp (fst e1) (fst e0) <? 0)%Z then 2 * k + 1 else 2 * k)
                    else Ok (2 * k)) = Ok j' /\
                   (j' = 2 * k \/ j' = 2 * k + 1) /\ j' <= n /\ sl F j' = Some ej /\
                   forall c, 2 <= c <= n -> c / 2 = k -> le_opt (Some ej) (sl F c)).
        { destruct (Hfill (2 * k)) as [e0 He0]; [lia|].
          destruct (Nat.ltb_spec (2 * k) n) as [Htwo|Hone].
          - destruct (Hfill (2 * k + 1)) as [e1 He1]; [lia|].
            rewrite (aget_ok a (2 * k + 1) e1) by (rewrite Ea by lia; exact He1).
            rewrite (aget_ok a (2 * k) e0) by (rewrite Ea by lia; exact He0). simpl.
            destruct (Z.ltb_spec (cmp (fst e1) (fst e0)) 0) as [Hlt|Hge].
            + exists (2 * k + 1), e1. repeat split; try lia; auto.
              intros c Hc Hpar. assert (c = 2 * k \/ c = 2 * k + 1) as [->| ->] by dlia.
              * rewrite He0. simpl. lia.
              * rewrite He1. apply le_opt_refl.
            + exists (2 * k), e0. repeat split; try lia; auto.
              intros c Hc Hpar. assert (c = 2 * k \/ c = 2 * k + 1) as [->| ->] by dlia.
              * rewrite He0. apply le_opt_refl.
              * rewrite He1. simpl. apply (cmp_nlt_le cmp TO). lia.
          - exists (2 * k), e0. repeat split; try lia; auto.
            intros c Hc Hpar. assert (c = 2 * k) as -> by dlia.
            rewrite He0. apply le_opt_refl. }
        destruct Hj as (j' & ej & Hjeq & Hj' & Hjn & Hej & Hmin).
        rewrite Hjeq. cbn [bind].
        rewrite (aget_ok a j' ej) by (rewrite Ea by lia; exact Hej). cbn [bind].
        destruct (Z.ltb_spec (cmp (fst kv) (fst ej)) 0) as [Hlt|Hge].
        * (* kv precedes its smaller child: stop *)
          exists k, a. repeat split; try lia; auto.
          intros i Hi. destruct (Nat.eq_dec (i / 2) k) as [Hc|Hc]; [|now apply Hord].
          rewrite Hc. fold F. rewrite EF.
          eapply le_opt_trans; [|apply Hmin; [lia | exact Hc]]. simpl. lia.
        * (* the child moves up, the hole moves down *)
          rewrite aset_ok by lia. cbn [bind].
          set (a1 := upd a k (Some ej)).
          set (F1 := upd a1 j' (Some kv)).
          assert (Hl1 : length a1 = length a) by apply upd_length.
          assert (E1 : sl F1 j' = Some kv) by (unfold F1; apply sl_upd_eq; lia).
          assert (E2 : sl F1 k = Some ej).
          { unfold F1, a1. rewrite sl_upd_neq by lia. apply sl_upd_eq; lia. }
          assert (E3 : forall m, m <> k -> m <> j' -> sl F1 m = sl F m).
          { intros m H1 H2. unfold F1, a1, F. now rewrite !sl_upd_neq by lia. }
          assert (Hjk : j' / 2 = k) by dlia.
          assert (Hej_kv : le_opt (Some ej) (Some kv)).
          { simpl. apply (cmp_nlt_le cmp TO). lia. }
          destruct (IH n kv j' a1) as (k' & a' & Hsk & Hk' & Hkl' & Hl' & Hf' & Ho' & Hp' & Hfr' & _); try lia.
          -- intros i Hi. destruct (Nat.eq_dec i k) as [->|Hik]; [eauto|].
             destruct (Nat.eq_dec i j') as [->|Hij]; [eauto|].
             fold F1. rewrite E3 by assumption. apply Hfill; lia.
          -- (* every edge except those out of j' *)
             intros i Hi Hne. fold F1.
             destruct (Nat.eq_dec i j') as [->|Hij].
             { rewrite Hjk, E1, E2. exact Hej_kv. }
             destruct (Nat.eq_dec (i / 2) k) as [Hc|Hc].
             { (* the other child of k *)
               rewrite Hc, E2, E3 by dlia. apply Hmin; [lia | exact Hc]. }
             destruct (Nat.eq_dec i k) as [->|Hik].
             { (* the edge into k *)
               rewrite E2, E3 by dlia. rewrite <- Hej. apply Hgr; dlia. }
             rewrite !E3 by dlia. apply Hord; [lia | exact Hc].
          -- (* parent of j' (= k) precedes the children of j' *)
             intros i Hi Hpar Hj2. fold F1. rewrite Hjk, E2, E3 by dlia.
             rewrite <- Hej, <- Hpar. apply Hord; dlia.
          -- exists k', a'. rewrite Hsk. repeat split; try lia; auto.
             ++ etransitivity; [exact Hp'|]. fold F1. fold F.
                apply slots_swap with (i := k) (j := j'); try lia.
                ** now rewrite E2, Hej.
                ** now rewrite E1, EF.
                ** intros m H1 H2. now apply E3.
             ++ intros m Hmk Hm. rewrite Hfr' by lia. fold F1. apply E3; lia.
  Qed.

  (** ** invariant and abstraction *)
  (** exactly what the package's [verify()] checks, plus [n < len(heap)] *)
  Definition binv (h : bheap K V) : Prop :=
    b_n K V h < length (b_arr K V h) /\ filled (b_arr K V h) (b_n K V h) /\ ordered (b_arr K V h) (b_n K V h) /\
    sl (b_arr K V h) 0 = None /\ (forall m, b_n K V h < m -> sl (b_arr K V h) m = None).

  Lemma sl_repeat_none k m : sl (repeat None k) m = None.
  Proof.
    unfold sl. destruct (nth_error (repeat None k) m) as [x|] eqn:E; [|reflexivity].
    apply nth_error_In, repeat_spec in E. now subst.
  Qed.

  Lemma sl_resize_ge (a : arr) size m : size <= m -> sl (resize K V a size) m = None.
  Proof. intros H. apply sl_oob. now rewrite resize_length. Qed.
  Definition bbag (h : bheap K V) : list entry := slots (b_arr K V h) 1 (b_n K V h).

  Lemma binv_new size : binv (b_new K V size).
  Proof.
    unfold binv, b_new; cbn [b_n b_arr]. rewrite repeat_length.
    split; [lia|]. split; [intros i Hi; lia|]. split; [intros i Hi; lia|].
    split; [apply (sl_repeat_none (S size))|]. intros m _. apply (sl_repeat_none (S size)).
  Qed.

  Lemma bbag_new size : bbag (b_new K V size) = [].
  Proof. reflexivity. Qed.

  (** the package's [verify()] (transcribed as [b_verify]) answers true on every state that
      satisfies the invariant *)
  Lemma sl_some_nth (a : arr) i e : sl a i = Some e -> nth_error a i = Some (Some e).
  Proof. unfold sl. destruct (nth_error a i) as [[x|]|]; congruence. Qed.

  Lemma sl_none_nth (a : arr) i : i < length a -> sl a i = None -> nth_error a i = Some None.
  Proof.
    unfold sl. intros Hi. destruct (nth_error a i) as [[x|]|] eqn:E; try congruence.
    apply nth_error_None in E. lia.
  Qed.

  Lemma b_verify_ok h : binv h -> b_verify K V cmp h = true.
  Proof.
    intros (Hlen & Hf & Ho & Hz & Hnil). unfold b_verify.
    set (a := b_arr K V h) in *. set (n := b_n K V h) in *.
    assert (Hkey : forall k c, 1 <= k -> c <= n -> c / 2 = k -> 2 <= c -> key_gt K V cmp a k c = false).
    { intros k c Hk Hc Hpar Hc2. specialize (Ho c ltac:(lia)). rewrite Hpar in Ho.
      destruct (Hf k) as [x Hx]; [dlia|]. destruct (Hf c) as [y Hy]; [lia|].
      rewrite Hx, Hy in Ho. simpl in Ho. unfold key_gt.
      rewrite (sl_some_nth _ _ _ Hx), (sl_some_nth _ _ _ Hy).
      rewrite Z.gtb_ltb. apply Z.ltb_ge. exact Ho. }
    repeat (apply andb_true_iff; split).
    - unfold is_nil. rewrite (sl_none_nth a 0); [reflexivity | lia | exact Hz].
    - apply forallb_forall. intros i Hi. apply in_seq in Hi. destruct (Hf i) as [e He]; [lia|].
      unfold is_full. now rewrite (sl_some_nth _ _ _ He).
    - apply forallb_forall. intros i Hi. apply in_seq in Hi.
      unfold is_nil. rewrite (sl_none_nth a i); [reflexivity | lia | apply Hnil; lia].
    - apply forallb_forall. intros k Hk. apply in_seq in Hk.
      apply andb_true_iff; split.
      + destruct (Nat.leb_spec (2 * k) n); [|reflexivity]. rewrite Hkey; [reflexivity | lia | lia | dlia | lia].
      + destruct (Nat.leb_spec (2 * k + 1) n); [|reflexivity]. rewrite Hkey; [reflexivity | lia | lia | dlia | lia].
  Qed.

  Lemma root_first (a : arr) n : filled a n -> ordered a n -> forall i, 1 <= i <= n -> le_opt (sl a 1) (sl a i).
  Proof.
    intros Hf Ho i. induction i as [i IH] using lt_wf_ind. intros Hi.
    destruct (Nat.eq_dec i 1) as [->|Hne].
    - destruct (Hf 1 Hi) as [e ->]. apply le_opt_refl.
    - eapply le_opt_trans; [apply (IH (i / 2)); dlia | apply Ho; lia].
  Qed.

  Lemma root_extremal (a : arr) n e :
    filled a n -> ordered a n -> sl a 1 = Some e -> extremal K V cmp (fst e) (slots a 1 n).
  Proof.
    intros Hf Ho He x Hx. apply in_slots in Hx as (i & Hi & Hxi).
    pose proof (root_first a n Hf Ho i ltac:(lia)) as H. rewrite He, Hxi in H. exact H.
  Qed.

  Lemma b_insert_ok key val h :
    binv h -> exists h', b_insert K V cmp key val h = Ok h' /\ binv h' /\
                         Permutation (bbag h') ((key, val) :: bbag h).
  Proof.
    intros (Hlen & Hf & Ho & Hz & Hnil). unfold b_insert.
    set (a1 := if b_n K V h =? length (b_arr K V h) - 1 then resize K V (b_arr K V h) (length (b_arr K V h) * 2) else b_arr K V h).
    set (n := b_n K V h) in *.
    assert (Hsl : forall i, sl a1 i = sl (b_arr K V h) i).
    { intros i. unfold a1. destruct (n =? length (b_arr K V h) - 1); [|reflexivity].
      destruct (Nat.lt_ge_cases i (length (b_arr K V h) * 2)).
      - now apply sl_resize.
      - rewrite !sl_oob; [reflexivity | lia | rewrite resize_length; lia]. }
    assert (Hl1 : S n < length a1).
    { unfold a1. destruct (Nat.eqb_spec n (length (b_arr K V h) - 1)); [rewrite resize_length|]; lia. }
    set (F := upd a1 (S n) (Some (key, val))).
    assert (EF : forall m, m <> S n -> sl F m = sl (b_arr K V h) m).
    { intros m Hm. unfold F. rewrite sl_upd_neq by lia. apply Hsl. }
    destruct (swim_ok (S n) key val (S n) (S n) a1) as (k & a2 & Hsw & Hk & Hl2 & Hf2 & Ho2 & Hp2 & Hfr2); try lia.
    - intros i Hi. destruct (Nat.eq_dec i (S n)) as [->|Hne].
      + exists (key, val). apply sl_upd_eq. lia.
      + fold F. rewrite EF by assumption. apply Hf. lia.
    - intros i Hi Hne. fold F. rewrite !EF by dlia. apply Ho. lia.
    - intros i Hi Hpar. dlia.
    - rewrite Hsw. simpl. rewrite aset_ok by lia. simpl.
      eexists. split; [reflexivity|]. split.
      + unfold binv; simpl. rewrite upd_length.
        split; [lia|]. split; [assumption|]. split; [assumption|]. split.
        * rewrite Hfr2 by lia. fold F. rewrite EF by lia. exact Hz.
        * intros m Hm. rewrite Hfr2 by lia. fold F. rewrite EF by lia. apply Hnil. lia.
      + unfold bbag; simpl. etransitivity; [exact Hp2|]. fold F.
        rewrite (slots_S F 1 n). simpl.
        rewrite (slots_ext F (b_arr K V h) 1 n) by (intros; apply EF; lia).
        unfold cell, F. rewrite sl_upd_eq by lia.
        rewrite Permutation_app_comm. reflexivity.
  Qed.

  Lemma b_delete_ok h :
    binv h -> exists h' r, b_delete K V cmp h = Ok (h', r) /\ binv h' /\
                           spec_step K V cmp eqv (bbag h) Delete (OEntry r) (bbag h').
  Proof.
    intros Hinv. pose proof Hinv as (Hlen & Hf & Ho & Hz0 & Hnil). unfold b_delete.
    destruct (Nat.eqb_spec (b_n K V h) 0) as [Hz|Hnz].
    - exists h, None. split; [reflexivity|]. split; [exact Hinv|].
      unfold bbag. rewrite Hz. simpl. constructor.
    - set (a := b_arr K V h) in *. set (n := b_n K V h) in *.
      destruct (Hf 1) as [ext Hext]; [lia|].
      destruct (Hf n) as [kv Hkv]; [lia|].
      rewrite (aget_ok _ _ _ Hext), (aget_ok _ _ _ Hkv). cbn [bind].
      set (F := upd a 1 (Some kv)).
      assert (EF : forall m, m <> 1 -> sl F m = sl a m).
      { intros m Hm. unfold F. now rewrite sl_upd_neq by lia. }
      destruct (sink_ok (S (n - 1)) (n - 1) kv 1 a) as (k & a2 & Hsk & Hk & Hkl & Hl2 & Hf2 & Ho2 & Hp2 & Hfr2 & _);
        try lia.
      + intros i Hi. destruct (Nat.eq_dec i 1) as [->|Hne].
        * exists kv. apply sl_upd_eq. lia.
        * fold F. rewrite EF by assumption. apply Hf. lia.
      + intros i Hi Hne. fold F. rewrite !EF by dlia. apply Ho. lia.
      + intros i Hi Hpar Hk. lia.
      + change (2 * 1) with 2 in Hsk. rewrite Hsk. cbn [bind].
        rewrite aset_ok by lia. cbn [bind].
        rewrite aset_ok by (rewrite upd_length; lia). cbn [bind].
        set (a3 := upd a2 k (Some kv)) in *.
        set (a4 := upd a3 (n - 1 + 1) None).
        set (a5 := if n - 1 <? length a4 / 4 then resize K V a4 (length a4 / 2) else a4).
        assert (Hl4 : length a4 = length a) by (unfold a4, a3; rewrite !upd_length; exact Hl2).
        assert (E5 : forall i, i <= n - 1 -> sl a5 i = sl a3 i).
        { intros i Hi. unfold a5.
          destruct (Nat.ltb_spec (n - 1) (length a4 / 4)).
          - rewrite sl_resize by dlia. unfold a4. now rewrite sl_upd_neq by lia.
          - unfold a4. now rewrite sl_upd_neq by lia. }
        assert (Hl5 : n - 1 < length a5).
        { unfold a5. destruct (Nat.ltb_spec (n - 1) (length a4 / 4)); [rewrite resize_length; dlia | lia]. }
        exists {| b_n := n - 1; b_arr := a5 |}, (Some ext). split; [reflexivity|]. split.
        * unfold binv; simpl. split; [exact Hl5|]. split; [|split; [|split]].
          -- intros i Hi. rewrite E5 by lia. apply Hf2. lia.
          -- intros i Hi. rewrite !E5 by dlia. apply Ho2. lia.
          -- rewrite E5 by lia. unfold a3. rewrite Hfr2 by lia. fold F. rewrite EF by lia. exact Hz0.
          -- intros m Hm.
             assert (E4 : sl a4 m = None).
             { unfold a4. destruct (Nat.eq_dec m n) as [->|Hmn].
               - replace (n - 1 + 1) with n by lia. apply sl_upd_eq. unfold a3. rewrite upd_length. lia.
               - rewrite sl_upd_neq by lia. unfold a3. rewrite Hfr2 by lia. fold F. rewrite EF by lia.
                 apply Hnil. lia. }
             unfold a5. destruct (n - 1 <? length a4 / 4); [|exact E4].
             destruct (Nat.lt_ge_cases m (length a4 / 2)).
             ++ rewrite sl_resize by assumption. exact E4.
             ++ now apply sl_resize_ge.
        * unfold bbag; simpl. fold a n. constructor.
          -- rewrite (slots_ext a5 a3 1 (n - 1)) by (intros; apply E5; lia).
             rewrite Hp2. fold F.
             destruct (Nat.eq_dec n 1) as [Hn1|Hn1].
             ++ rewrite Hn1. simpl. unfold slots; simpl. unfold cell. rewrite Hext. reflexivity.
             ++ replace n with (S (S (n - 2))) at 1 by lia.
                rewrite slots_cons, slots_S. unfold cell at 1 2.
                replace (2 + (n - 2)) with n by lia. rewrite Hext, Hkv.
                replace (n - 1) with (S (n - 2)) by lia.
                rewrite slots_cons. unfold cell at 1. unfold F at 1. rewrite sl_upd_eq by lia.
                rewrite (slots_ext F a 2 (n - 2)) by (intros; apply EF; lia).
                simpl. apply perm_skip.
                rewrite Permutation_app_comm. reflexivity.
          -- eapply root_extremal; eassumption.
  Qed.

  Lemma b_peek_ok h :
    binv h -> exists r, b_peek K V h = Ok r /\ spec_step K V cmp eqv (bbag h) Peek (OEntry r) (bbag h).
  Proof.
    intros (Hlen & Hf & Ho & _ & _). unfold b_peek.
    destruct (Nat.eqb_spec (b_n K V h) 0) as [Hz|Hnz].
    - exists None. split; [reflexivity|]. unfold bbag. rewrite Hz. constructor.
    - destruct (Hf 1) as [ext Hext]; [lia|]. rewrite (aget_ok _ _ _ Hext). simpl.
      exists (Some ext). split; [reflexivity|]. constructor.
      + apply in_slots. exists 1. split; [lia | assumption].
      + eapply root_extremal; eassumption.
  Qed.

  Lemma b_scan_ok p (a : arr) : forall cnt k,
    (forall i, k <= i < k + cnt -> exists e, sl a i = Some e) ->
    b_scan K V p a k cnt = Ok (existsb p (slots a k cnt)).
  Proof.
    induction cnt as [|c IH]; intros k H; [reflexivity|].
    simpl b_scan. destruct (H k) as [e He]; [lia|]. rewrite (aget_ok _ _ _ He). cbn [bind].
    rewrite slots_cons. unfold cell. rewrite He. simpl.
    destruct (p e); [reflexivity|]. apply IH. intros; apply H; lia.
  Qed.

  Lemma b_act_ok h a :
    binv h -> not_merge a ->
    exists h' r, b_act K V cmp eqv a h = Ok (h', r) /\ binv h' /\
                 spec_step K V cmp eqv (bbag h) a r (bbag h').
  Proof.
    intros Hinv Hnm. pose proof Hinv as (Hlen & Hf & Ho & Hz & Hnil).
    destruct a as [k v| | | | | |k|v|j]; simpl.
    - destruct (b_insert_ok k v h Hinv) as (h' & -> & Hi' & Hp). simpl.
      exists h', ONone. split; [reflexivity|]. split; [assumption|]. now constructor.
    - destruct (b_delete_ok h Hinv) as (h' & r & -> & Hi' & Hs). simpl. eauto.
    - destruct (b_peek_ok h Hinv) as (r & -> & Hs). simpl. eauto.
    - exists (b_delete_all K V h), ONone. split; [reflexivity|]. split.
      + unfold binv, b_delete_all; cbn [b_n b_arr]. rewrite repeat_length.
        split; [lia|]. split; [intros i Hi; lia|]. split; [intros i Hi; lia|].
        split; [apply sl_repeat_none|]. intros m _. apply sl_repeat_none.
      + unfold bbag at 2; simpl. constructor.
    - exists h, (ONat (b_n K V h)). split; [reflexivity|]. split; [assumption|].
      replace (b_n K V h) with (length (bbag h)) at 1; [constructor|].
      apply slots_length. intros; apply Hf; lia.
    - exists h, (OBool (b_n K V h =? 0)). split; [reflexivity|]. split; [assumption|].
      replace (b_n K V h) with (length (bbag h)) at 1; [constructor|].
      apply slots_length. intros; apply Hf; lia.
    - rewrite b_scan_ok by (intros; apply Hf; lia). simpl.
      exists h, (OBool (existsb (has_key K V cmp k) (bbag h))). split; [reflexivity|]. split; [assumption|]. constructor.
    - rewrite b_scan_ok by (intros; apply Hf; lia). simpl.
      exists h, (OBool (existsb (has_val K V eqv v) (bbag h))). split; [reflexivity|]. split; [assumption|]. constructor.
    - destruct Hnm.
  Qed.
End Binary.
