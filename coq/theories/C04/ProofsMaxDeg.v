(** C04 — the degree table of the Fibonacci heap is large enough for trees with [2^degree]
    nodes: [2^d <= n -> d < max_degree n], where [max_degree n = 1 + max {d | φ^d <= n}] is
    computed with Fibonacci/Lucas numbers ([2 φ^d = L_d + F_d √5]).  The proof shows
    [φ^j <= 2^j] in the integer form [5 F_j² <= (2^(j+1) - L_j)²]. *)
From Coq Require Import ZArith Lia.
From Algo.C04 Require Import Model.
Open Scope Z_scope.

Lemma cross_le a b c d :
  0 <= a -> 0 <= b -> 0 <= c -> 0 <= d -> 5 * a * a <= c * c -> 5 * b * b <= d * d ->
  5 * a * b <= c * d.
Proof.
  intros Ha Hb Hc Hd H1 H2.
  apply Z.square_le_simpl_nonneg; [nia|].
  replace (5 * a * b * (5 * a * b)) with ((5 * a * a) * (5 * b * b)) by ring.
  replace (c * d * (c * d)) with ((c * c) * (d * d)) by ring.
  apply Z.mul_le_mono_nonneg; nia.
Qed.

(** [q = 2^j]; [(f,l)] and [(f',l')] are the Fibonacci/Lucas pairs of index [j] and [j+1] *)
Definition phi_inv (q f l f' l' : Z) : Prop :=
  0 < q /\ 0 <= f /\ 0 <= f' /\
  0 <= 2 * q - l /\ 5 * f * f <= (2 * q - l) * (2 * q - l) /\
  0 <= 4 * q - l' /\ 5 * f' * f' <= (4 * q - l') * (4 * q - l').

Lemma phi_inv_step q f l f' l' : phi_inv q f l f' l' -> phi_inv (2 * q) f' l' (f + f') (l + l').
Proof.
  intros (Hq & Hf & Hf' & Hu & Hfu & Hu' & Hfu'). unfold phi_inv.
  split; [lia|]. split; [lia|]. split; [lia|]. split; [lia|]. split; [|split; [lia|]].
  - replace (2 * (2 * q) - l') with (4 * q - l') by ring. exact Hfu'.
  - pose proof (cross_le f f' (2 * q - l) (4 * q - l') Hf Hf' Hu Hu' Hfu Hfu') as Hx.
    replace (4 * (2 * q) - (l + l')) with ((2 * q - l) + (4 * q - l') + 2 * q) by ring.
    set (u := 2 * q - l) in *. set (u' := 4 * q - l') in *.
    nia.
Qed.

Lemma phi_count_S fu n f l f' l' :
  phi_count (S fu) n f l f' l' =
  if (l' <=? 2 * n) && (5 * f' * f' <=? (2 * n - l') * (2 * n - l'))
  then S (phi_count fu n f' l' (f + f') (l + l')) else O.
Proof. reflexivity. Qed.

Lemma phi_count_lower : forall k fu n q f l f' l',
  phi_inv q f l f' l' -> q * 2 ^ Z.of_nat k <= n -> (k <= fu)%nat ->
  (k <= phi_count fu n f l f' l')%nat.
Proof.
  induction k as [|k IH]; intros fu n q f l f' l' Hinv Hn Hfu; [lia|].
  destruct fu as [|fu]; [lia|].
  rewrite Nat2Z.inj_succ, Z.pow_succ_r in Hn by lia.
  pose proof Hinv as (Hq & Hf & Hf' & Hu & Hfu2 & Hu' & Hfu').
  assert (Hpow : 1 <= 2 ^ Z.of_nat k) by (pose proof (Z.pow_pos_nonneg 2 (Z.of_nat k)); lia).
  rewrite phi_count_S.
  assert (H1 : l' <= 2 * n) by nia.
  assert (H2 : 5 * f' * f' <= (2 * n - l') * (2 * n - l')).
  { etransitivity; [exact Hfu'|]. apply Z.square_le_mono_nonneg; nia. }
  apply Z.leb_le in H1. apply Z.leb_le in H2. rewrite H1, H2. cbn [andb].
  apply le_n_S. apply IH with (q := 2 * q); [now apply phi_inv_step | nia | lia].
Qed.

Theorem maxdeg_ok : forall d n : nat, (2 ^ d <= n)%nat -> (d < max_degree n)%nat.
Proof.
  intros d n H. unfold max_degree, max_degree_z. apply le_n_S.
  assert (Hz : 2 ^ Z.of_nat d <= Z.of_nat n).
  { apply Nat2Z.inj_le in H. rewrite Nat2Z.inj_pow in H. exact H. }
  assert (Hpos : 0 < Z.of_nat n).
  { assert (0 < 2 ^ Z.of_nat d) by (apply Z.pow_pos_nonneg; lia). lia. }
  apply phi_count_lower with (q := 1).
  - unfold phi_inv. lia.
  - lia.
  - apply Z.log2_le_pow2 in Hz; [|exact Hpos]. lia.
Qed.
