(** C04 — lemmas shared by the three heap proofs: comparator laws, [upd], the generic
    pool-level simulation argument, soundness of the executable acceptor. *)
From Coq Require Import Permutation Lia.
From Algo.C04 Require Import Model Spec.
Open Scope Z_scope.

(** arithmetic with [/ 2] and [/ 4] on [nat]: name quotient and remainder, then [lia] *)
Ltac div_one x d :=
  let H1 := fresh "Hdm" in let H2 := fresh "Hmb" in
  assert (H1 : x = (d * (x / d) + x mod d)%nat) by (apply Nat.div_mod; discriminate);
  assert (H2 : (x mod d < d)%nat) by (apply Nat.mod_upper_bound; discriminate);
  let q := fresh "q" in let r := fresh "r" in
  set (q := (x / d)%nat) in *; set (r := (x mod d)%nat) in *; clearbody q r.
Ltac div_prep :=
  repeat match goal with
  | H : context [(?x / 2)%nat] |- _ => div_one x 2%nat
  | |- context [(?x / 2)%nat] => div_one x 2%nat
  | H : context [(?x / 4)%nat] |- _ => div_one x 4%nat
  | |- context [(?x / 4)%nat] => div_one x 4%nat
  end.
Ltac dlia := div_prep; lia.

Section Order.
  Context {K : Type} (cmp : K -> K -> Z) (TO : TotalOrder K cmp).

  Lemma cmp_refl a : cmp a a = 0.
  Proof. pose proof (cmp_antisym TO a a). destruct (cmp a a); simpl in *; lia. Qed.

  Lemma cmp_gt_lt a b : cmp a b > 0 -> cmp b a < 0.
  Proof. pose proof (cmp_antisym TO a b). destruct (cmp a b), (cmp b a); simpl in *; lia. Qed.

  Lemma cmp_lt_gt a b : cmp a b < 0 -> cmp b a > 0.
  Proof. pose proof (cmp_antisym TO a b). destruct (cmp a b), (cmp b a); simpl in *; lia. Qed.

  Lemma cmp_eq_sym a b : cmp a b = 0 -> cmp b a = 0.
  Proof. pose proof (cmp_antisym TO a b). destruct (cmp a b), (cmp b a); simpl in *; lia. Qed.

  Lemma cmp_nle_le a b : ~ cmp a b <= 0 -> cmp b a <= 0.
  Proof. intros. pose proof (cmp_gt_lt a b). lia. Qed.

  Lemma cmp_nlt_le a b : ~ cmp a b < 0 -> cmp b a <= 0.
  Proof. pose proof (cmp_antisym TO a b). destruct (cmp a b), (cmp b a); simpl in *; lia. Qed.

  Lemma cmp_le_trans a b c : cmp a b <= 0 -> cmp b c <= 0 -> cmp a c <= 0.
  Proof. apply (cmp_trans TO). Qed.

  Lemma cmp_total a b : cmp a b <= 0 \/ cmp b a <= 0.
  Proof. destruct (Z_le_gt_dec (cmp a b) 0); [now left | right]. pose proof (cmp_gt_lt a b). lia. Qed.

  (** the reversed comparator (max orientation) obeys the same laws *)
  Lemma TotalOrder_reverse : TotalOrder K (fun a b => cmp b a).
  Proof.
    split.
    - intros a b. pose proof (cmp_antisym TO b a). lia.
    - intros a b c H1 H2. apply (cmp_trans TO c b a); assumption.
  Qed.
End Order.

Section Upd.
  Context {A : Type}.
  Lemma upd_length (l : list A) i x : length (upd l i x) = length l.
  Proof. revert i; induction l; destruct i; simpl; auto. Qed.

  Lemma nth_error_upd_eq (l : list A) i x : (i < length l)%nat -> nth_error (upd l i x) i = Some x.
  Proof. revert i; induction l; destruct i; simpl; intros; try lia; auto. apply IHl. lia. Qed.

  Lemma nth_error_upd_neq (l : list A) i j x : i <> j -> nth_error (upd l i x) j = nth_error l j.
  Proof.
    revert i j; induction l; destruct i, j; simpl; intros; try congruence; auto.
  Qed.

  Lemma upd_oob (l : list A) i x : (length l <= i)%nat -> upd l i x = l.
  Proof. revert i; induction l; destruct i; simpl; intros; try lia; auto. f_equal. apply IHl. lia. Qed.
End Upd.

(** * From per-heap refinement lemmas to whole histories on a pool *)
Section Pool.
  Context {K V : Type} (cmp : K -> K -> Z) (eqv : V -> V -> bool).
  Notation heap := (heap K V).
  Notation bag := (bag K V).
  Notation act := (act K V).

  Variable mergeable : bool.
  Variable hinv : heap -> Prop.
  Variable hbag : heap -> bag.

  Definition not_merge (a : act) : Prop := match a with Merge _ => False | _ => True end.

  Hypothesis act_ok :
    forall h a, hinv h -> not_merge a ->
      exists h' r, h_act K V cmp eqv a h = Ok (h', r) /\ hinv h' /\
                   spec_step K V cmp eqv (hbag h) a r (hbag h').
  Hypothesis merge_ok :
    mergeable = true ->
    forall h hh, hinv h -> hinv hh ->
      exists h', h_merge K V cmp h hh = Some h' /\ hinv h' /\
                 Permutation (hbag h') (hbag h ++ hbag hh).

  Definition pinv (p : pool K V) : Prop :=
    forall i h, nth_error p i = Some (Some h) -> hinv h.
  Definition pabs (p : pool K V) : spool K V := map (option_map hbag) p.
  Definition plive (p : pool K V) : list bool :=
    map (fun o => match o with Some _ => true | None => false end) p.

  Lemma nth_plive p i : nth i (plive p) false = true -> exists h, nth_error p i = Some (Some h).
  Proof.
    unfold plive. revert i; induction p as [|o p IH]; intros i H.
    - destruct i; discriminate.
    - destruct i; simpl in *.
      + destruct o; [eauto | discriminate].
      + auto.
  Qed.

  Lemma pabs_nth p i h : nth_error p i = Some (Some h) -> nth_error (pabs p) i = Some (Some (hbag h)).
  Proof. intros H. unfold pabs. rewrite nth_error_map, H. reflexivity. Qed.

  Lemma pabs_upd p i o : pabs (upd p i o) = upd (pabs p) i (option_map hbag o).
  Proof. unfold pabs. revert i; induction p; destruct i; simpl; auto. now rewrite IHp. Qed.

  Lemma pabs_upd_some p i h : pabs (upd p i (Some h)) = upd (pabs p) i (Some (hbag h)).
  Proof. apply pabs_upd. Qed.
  Lemma pabs_upd_none p i : pabs (upd p i None) = upd (pabs p) i None.
  Proof. apply pabs_upd. Qed.

  Lemma plive_upd p i o :
    plive (upd p i o) = upd (plive p) i (match o with Some _ => true | None => false end).
  Proof. unfold plive. revert i; induction p; destruct i; simpl; auto. now rewrite IHp. Qed.

  Lemma plive_upd_same p i h h' : nth_error p i = Some (Some h) -> plive (upd p i (Some h')) = plive p.
  Proof.
    unfold plive. revert i; induction p as [|o p IH]; destruct i; simpl; intros H; auto.
    - injection H as ->. reflexivity.
    - now rewrite IH.
  Qed.

  Lemma pinv_upd p i h : pinv p -> hinv h -> pinv (upd p i (Some h)).
  Proof.
    intros Hp Hh j h' Hj. destruct (Nat.eq_dec i j) as [->|Hne].
    - destruct (Nat.lt_ge_cases j (length p)).
      + rewrite nth_error_upd_eq in Hj by assumption. now injection Hj as <-.
      + rewrite upd_oob in Hj by assumption. eauto.
    - rewrite nth_error_upd_neq in Hj by assumption. eauto.
  Qed.

  Lemma pinv_upd_none p i : pinv p -> pinv (upd p i None).
  Proof.
    intros Hp j h' Hj. destruct (Nat.eq_dec i j) as [->|Hne].
    - destruct (Nat.lt_ge_cases j (length p)).
      + rewrite nth_error_upd_eq in Hj by assumption. discriminate.
      + rewrite upd_oob in Hj by assumption. eauto.
    - rewrite nth_error_upd_neq in Hj by assumption. eauto.
  Qed.

  Theorem pool_simulation :
    forall ops p, pinv p -> well_scoped K V mergeable (plive p) ops = true ->
      accepts K V cmp eqv (pabs p) ops (p_run K V cmp eqv p ops).
  Proof.
    induction ops as [|[i a] ops IH]; intros p Hp Hws; simpl.
    - constructor.
    - simpl in Hws. apply andb_true_iff in Hws as [Hli Hws].
      destruct (nth_plive _ _ Hli) as [h Hh].
      pose proof (Hp _ _ Hh) as Hinv.
      unfold p_step. rewrite Hh.
      destruct a as [k v| | | | | |k|v|j];
        try (match goal with
             | |- context [h_act K V cmp eqv ?a h] =>
                 destruct (act_ok h a Hinv I) as (h' & r & Hact & Hinv' & Hstep); rewrite Hact;
                 econstructor;
                 [ eapply PS_act; [apply pabs_nth; exact Hh | exact Hstep]
                 | rewrite <- pabs_upd_some;
                   apply IH; [apply pinv_upd; assumption | erewrite plive_upd_same by eassumption; assumption] ]
             end).
      (* Merge j *)
      apply andb_true_iff in Hws as [Hws Hrest].
      apply andb_true_iff in Hws as [Hws Hlj].
      apply andb_true_iff in Hws as [Hm Hij].
      apply negb_true_iff in Hij. rewrite Hij.
      destruct (nth_plive _ _ Hlj) as [hh Hhh]. rewrite Hhh.
      destruct (merge_ok Hm h hh Hinv (Hp _ _ Hhh)) as (h' & Hmg & Hinv' & Hperm). rewrite Hmg.
      apply Nat.eqb_neq in Hij.
      econstructor.
      + eapply PS_merge; [exact Hij | apply pabs_nth; exact Hh | apply pabs_nth; exact Hhh | exact Hperm].
      + rewrite <- pabs_upd_some, <- pabs_upd_none. apply IH.
        * apply pinv_upd_none, pinv_upd; assumption.
        * rewrite plive_upd. erewrite plive_upd_same by eassumption. exact Hrest.
  Qed.

  (** the per-heap invariant holds for every live heap after every well-scoped history *)
  Theorem pool_invariant :
    forall ops p, pinv p -> well_scoped K V mergeable (plive p) ops = true ->
      pinv (p_final K V cmp eqv p ops).
  Proof.
    induction ops as [|[i a] ops IH]; intros p Hp Hws; simpl; [exact Hp|].
    simpl in Hws. apply andb_true_iff in Hws as [Hli Hws].
    destruct (nth_plive _ _ Hli) as [h Hh].
    pose proof (Hp _ _ Hh) as Hinv.
    rewrite Hh.
    destruct a as [k v| | | | | |k|v|j];
      try (match goal with
           | |- context [h_act K V cmp eqv ?a h] =>
               destruct (act_ok h a Hinv I) as (h' & r & Hact & Hinv' & Hstep); rewrite Hact; simpl;
               apply IH; [apply pinv_upd; assumption | erewrite plive_upd_same by eassumption; assumption]
           end).
    apply andb_true_iff in Hws as [Hws Hrest].
    apply andb_true_iff in Hws as [Hws Hlj].
    apply andb_true_iff in Hws as [Hm Hij].
    apply negb_true_iff in Hij. rewrite Hij.
    destruct (nth_plive _ _ Hlj) as [hh Hhh]. rewrite Hhh.
    destruct (merge_ok Hm h hh Hinv (Hp _ _ Hhh)) as (h' & Hmg & Hinv' & Hperm). rewrite Hmg. simpl.
    apply IH.
    - apply pinv_upd_none, pinv_upd; assumption.
    - rewrite plive_upd. erewrite plive_upd_same by eassumption. exact Hrest.
  Qed.
End Pool.

(** * The executable acceptor only accepts traces the specification allows *)
Section Checker.
  Context {K V : Type} (cmp : K -> K -> Z) (eqv : V -> V -> bool).
  Variable eqe : entry K V -> entry K V -> bool.
  Hypothesis eqe_eq : forall a b, eqe a b = true -> a = b.

  Lemma remove1_perm e B B' : remove1 K V eqe e B = Some B' -> Permutation B (e :: B').
  Proof.
    revert B'; induction B as [|x B IH]; simpl; intros B' H; [discriminate|].
    destruct (eqe e x) eqn:E.
    - apply eqe_eq in E. subst. now injection H as <-.
    - destruct (remove1 K V eqe e B) as [B''|]; [|discriminate]. injection H as <-.
      rewrite (IH _ eq_refl). apply perm_swap.
  Qed.

  Lemma is_extremal_sound k B : is_extremal K V cmp k B = true -> extremal K V cmp k B.
  Proof.
    unfold is_extremal, extremal. rewrite forallb_forall. intros H e He.
    apply H in He. now apply Z.leb_le in He.
  Qed.

  Lemma check_step_sound B a r B' :
    check_step K V cmp eqv eqe B a r = Some B' -> spec_step K V cmp eqv B a r B'.
  Proof.
    destruct a, r; simpl; try discriminate; intros H.
    - injection H as <-. constructor. apply Permutation_refl.
    - destruct e as [e|].
      + destruct (is_extremal K V cmp (fst e) B) eqn:E; [|discriminate].
        constructor; [now apply remove1_perm | now apply is_extremal_sound].
      + destruct B; [|discriminate]. injection H as <-. constructor.
    - destruct e as [e|].
      + destruct (is_extremal K V cmp (fst e) B) eqn:E; [|discriminate]. simpl in H.
        destruct (existsb (eqe e) B) eqn:E2; [|discriminate]. injection H as <-.
        apply existsb_exists in E2 as (x & Hin & Hx). apply eqe_eq in Hx. subst x.
        constructor; [assumption | now apply is_extremal_sound].
      + destruct B; [|discriminate]. injection H as <-. constructor.
    - injection H as <-. constructor.
    - destruct (Nat.eqb n (length B)) eqn:E; [|discriminate]. injection H as <-.
      apply Nat.eqb_eq in E. subst. constructor.
    - destruct (Bool.eqb b (Nat.eqb (length B) 0)) eqn:E; [|discriminate]. injection H as <-.
      apply Bool.eqb_prop in E. subst. constructor.
    - destruct (Bool.eqb b _) eqn:E; [|discriminate]. injection H as <-.
      apply Bool.eqb_prop in E. subst. constructor.
    - destruct (Bool.eqb b _) eqn:E; [|discriminate]. injection H as <-.
      apply Bool.eqb_prop in E. subst. constructor.
  Qed.

  Lemma check_pstep_sound P o r P' :
    check_pstep K V cmp eqv eqe P o r = Some P' -> pspec_step K V cmp eqv P o r P'.
  Proof.
    destruct o as [i a]. unfold check_pstep.
    destruct (nth_error P i) as [[B|]|] eqn:Hi; try discriminate.
    destruct a as [k v| | | | | |k|v|j];
      try (destruct (check_step K V cmp eqv eqe B _ r) as [B''|] eqn:Hc; [|discriminate];
           intros H; injection H as <-; eapply PS_act; [eassumption | now apply check_step_sound]).
    destruct (Nat.eqb i j) eqn:Hij; [discriminate|]. apply Nat.eqb_neq in Hij.
    destruct (nth_error P j) as [[Bj|]|] eqn:Hj; try discriminate.
    destruct r; try discriminate. intros H; injection H as <-.
    eapply PS_merge; eauto.
  Qed.

  Theorem check_trace_sound P ops outs :
    check_trace K V cmp eqv eqe P ops outs = true -> accepts K V cmp eqv P ops outs.
  Proof.
    revert P outs; induction ops as [|o ops IH]; intros P [|r outs]; simpl; try discriminate.
    - constructor.
    - destruct (check_pstep K V cmp eqv eqe P o r) as [P'|] eqn:Hc; [|discriminate].
      intros H. apply A_cons with (P' := P'); [now apply check_pstep_sound | now apply IH].
  Qed.

  (** ** … and it accepts every trace the specification allows (no false alarm), whatever
      order the entries of the bags are listed in *)
  Hypothesis eqe_refl : forall a, eqe a a = true.

  Lemma existsb_perm {A} (f : A -> bool) l l' : Permutation l l' -> existsb f l = existsb f l'.
  Proof.
    induction 1; simpl; auto.
    - now rewrite IHPermutation.
    - destruct (f x), (f y); reflexivity.
    - congruence.
  Qed.

  Lemma remove1_in e B : In e B -> exists B', remove1 K V eqe e B = Some B'.
  Proof.
    induction B as [|x B IH]; simpl; [tauto|]. intros [->|Hin].
    - rewrite eqe_refl. eauto.
    - destruct (eqe e x); [eauto|]. destruct (IH Hin) as [B' ->]. eauto.
  Qed.

  Lemma remove1_complete e B B' :
    Permutation B (e :: B') -> exists B'', remove1 K V eqe e B = Some B'' /\ Permutation B' B''.
  Proof.
    intros Hp. assert (Hin : In e B) by (eapply Permutation_in; [symmetry; exact Hp | now left]).
    destruct (remove1_in e B Hin) as [B'' Hr]. exists B''. split; [exact Hr|].
    apply remove1_perm in Hr. apply Permutation_cons_inv with (a := e).
    now rewrite <- Hp, <- Hr.
  Qed.

  Lemma is_extremal_complete k B : extremal K V cmp k B -> is_extremal K V cmp k B = true.
  Proof.
    intros H. unfold is_extremal. apply forallb_forall. intros e He. apply Z.leb_le. now apply H.
  Qed.

  Lemma extremal_perm k B B1 : Permutation B B1 -> extremal K V cmp k B -> extremal K V cmp k B1.
  Proof. intros Hp H e He. apply H. eapply Permutation_in; [symmetry; exact Hp | exact He]. Qed.

  Lemma check_step_complete B a r B' B1 :
    spec_step K V cmp eqv B a r B' -> Permutation B B1 ->
    exists B1', check_step K V cmp eqv eqe B1 a r = Some B1' /\ Permutation B' B1'.
  Proof.
    intros Hs Hp. inversion Hs; subst; simpl.
    - eexists. split; [reflexivity|]. rewrite H. now apply perm_skip.
    - apply Permutation_nil in Hp. subst. eauto.
    - rewrite (is_extremal_complete _ _ (extremal_perm _ _ _ Hp H0)).
      apply remove1_complete. now rewrite <- Hp.
    - apply Permutation_nil in Hp. subst. eauto.
    - rewrite (is_extremal_complete _ _ (extremal_perm _ _ _ Hp H0)). simpl.
      assert (Hex : existsb (eqe e) B1 = true).
      { apply existsb_exists. exists e. split; [eapply Permutation_in; eassumption | apply eqe_refl]. }
      rewrite Hex. eauto.
    - eauto.
    - rewrite (Permutation_length Hp), Nat.eqb_refl. eauto.
    - rewrite (Permutation_length Hp), Bool.eqb_reflx. eauto.
    - rewrite (existsb_perm _ _ _ Hp), Bool.eqb_reflx. eauto.
    - rewrite (existsb_perm _ _ _ Hp), Bool.eqb_reflx. eauto.
  Qed.

  (** pools whose bags agree up to the order of their entries *)
  Definition beq (x y : option (bag K V)) : Prop :=
    match x, y with Some a, Some b => Permutation a b | None, None => True | _, _ => False end.
  Definition peq (P P1 : spool K V) : Prop := Forall2 beq P P1.

  Lemma peq_nth P P1 i B : peq P P1 -> nth_error P i = Some (Some B) ->
    exists B1, nth_error P1 i = Some (Some B1) /\ Permutation B B1.
  Proof.
    intros H. revert i. induction H as [|x y P P1 Hxy _ IH]; intros i Hi.
    - destruct i; discriminate.
    - destruct i; simpl in *.
      + injection Hi as ->. destruct y as [b|]; simpl in Hxy; [eauto | tauto].
      + auto.
  Qed.

  Lemma peq_upd P P1 i x y : peq P P1 -> beq x y -> peq (upd P i x) (upd P1 i y).
  Proof.
    intros H. revert i. induction H as [|a b P P1 Hab HP IH]; intros i Hxy; destruct i; simpl; try constructor; auto.
    apply IH. exact Hxy.
  Qed.

  Lemma peq_refl P : peq P P.
  Proof. induction P as [|[b|] P IH]; constructor; simpl; auto. Qed.

  Lemma check_pstep_complete P o r P' P1 :
    pspec_step K V cmp eqv P o r P' -> peq P P1 ->
    exists P1', check_pstep K V cmp eqv eqe P1 o r = Some P1' /\ peq P' P1'.
  Proof.
    intros Hs Hp. inversion Hs; subst; unfold check_pstep.
    - destruct (peq_nth _ _ _ _ Hp H) as (B1 & -> & HB).
      destruct (check_step_complete _ _ _ _ _ H0 HB) as (B1' & Hc & HB').
      assert (Hnm : match a with Merge _ => False | _ => True end) by (inversion H0; exact I).
      destruct a; try tauto; rewrite Hc; eexists; (split; [reflexivity | apply peq_upd; assumption]).
    - destruct (peq_nth _ _ _ _ Hp H0) as (Bi1 & -> & HBi).
      destruct (peq_nth _ _ _ _ Hp H1) as (Bj1 & -> & HBj).
      apply Nat.eqb_neq in H. rewrite H.
      eexists. split; [reflexivity|]. apply peq_upd; [apply peq_upd; [assumption|] | exact I].
      simpl. rewrite H2. now apply Permutation_app.
  Qed.

  Theorem check_trace_complete P ops outs :
    accepts K V cmp eqv P ops outs -> forall P1, peq P P1 -> check_trace K V cmp eqv eqe P1 ops outs = true.
  Proof.
    induction 1 as [|P o r P' ops outs Hstep _ IH]; intros P1 Hp; simpl; [reflexivity|].
    destruct (check_pstep_complete _ _ _ _ _ Hstep Hp) as (P1' & -> & Hp'). now apply IH.
  Qed.
End Checker.
