(** C09 — results pass Verify(): the symbol-declaration part always, the "every non-terminal
    has a production" part on the domain that excludes exactly the signature of D09c
    (a non-terminal that generates no non-empty string). *)
From Coq Require Import List Bool Arith Lia.
From Algo.Grammar Require Import CFG.
From Algo.C08 Require Import Model Spec ProofsBase ProofsLang1 ProofsLang2 ProofsLang3 ProofsLang4.
From Algo.C09 Require Import Model Proofs.
Import ListNotations.

Section Verify.
  Context {T N : Type}.
  Variable teqb : T -> T -> bool.
  Variable neqb : N -> N -> bool.
  Variable fresh : skind -> list N -> N -> option N.
  Hypothesis teqb_spec : forall x y, teqb x y = true <-> x = y.
  Hypothesis neqb_spec : forall x y, neqb x y = true <-> x = y.
  Hypothesis fresh_spec : forall k nts b x, fresh k nts b = Some x -> ~ In x nts.

  Notation prod := (production T N).
  Notation gram := (grammar T N).

  (** every non-terminal generates a non-empty terminal string *)
  Definition all_yield (G : gram) : Prop :=
    forall A, In A (nonterms G) -> exists w, w <> [] /\ gen (prods G) (Nt A) w.

  Theorem del_valid (G G' : gram) : wf G -> all_yield G -> del teqb neqb fresh G = Ok G' -> valid G'.
  Proof.
    intros Hwf Hy H.
    pose proof (ok_or_names_ok _ _ _ (del_total teqb neqb fresh teqb_spec neqb_spec fresh_spec G Hwf) H) as [_ Hwf'].
    split; auto.
    unfold del in H.
    destruct (nullable neqb (prods G)) as [nl| |] eqn:En; simpl in H; try discriminate.
    destruct (nullable_spec neqb neqb_spec _ _ En) as [_ Hnl].
    set (P2 := del_prods teqb neqb nl (prods G) []) in *.
    assert (HP2 : forall q, In q P2 <-> del_member nl (prods G) q).
    { intros q. unfold P2. rewrite In_del_prods; auto. split; auto. intros [[]|?]; auto. }
    destruct (del_forward (prods G) nl Hnl P2 HP2) as [Hf _].
    assert (Hold : forall A, In A (nonterms G) -> exists p, In p P2 /\ head p = A).
    { intros A HA. destruct (Hy A HA) as (w & Hw & Hg). apply Hf in Hg; auto.
      apply gen_nt_inv in Hg. destruct Hg as (p & Hp & Hh & _). eauto. }
    destruct (mem_n neqb (start G) nl).
    - destruct (add_new fresh Prime (nonterms G) (start G)) as [[s' nts']| |] eqn:Ea; simpl in H; try discriminate.
      inversion H; subst G'. clear H. simpl.
      destruct (add_new_spec fresh fresh_spec _ _ _ _ _ Ea) as [_ ->].
      intros A HA. apply in_app_iff in HA. destruct HA as [HA|[<-|[]]].
      + destruct (Hold A HA) as (p & Hp & Hh). exists p. split; auto. rewrite !In_add_p; auto.
      + exists (mkProd s' []). split; auto. rewrite !In_add_p; auto.
    - inversion H; subst G'. clear H. simpl. exact Hold.
  Qed.

  (** every non-terminal generates some terminal string *)
  Definition all_productive (G : gram) : Prop :=
    forall A, In A (nonterms G) -> exists w, gen (prods G) (Nt A) w.

  Theorem unit_valid (G G' : gram) : wf G -> all_productive G -> unit_elim teqb neqb G = Ok G' -> valid G'.
  Proof.
    intros Hwf Hy H.
    pose proof (ok_or_names_ok _ _ _ (unit_total teqb neqb teqb_spec neqb_spec G Hwf) H) as [_ Hwf'].
    split; auto.
    destruct (unit_lang teqb neqb teqb_spec neqb_spec G Hwf) as (G2 & H2 & _ & Hin & _ & Hn & _).
    rewrite H in H2. inversion H2; subst G2. clear H2.
    assert (Hcu := wf_closed_under G Hwf).
    (* a derivation from A starts with unit productions and then a non-unit one *)
    assert (Hg : (forall s w, gen (prods G) s w -> forall A, s = Nt A -> In A (nonterms G) ->
                    exists p, unit_reach (prods G) A (head p) /\ In p (prods G) /\ is_single p = false) /\
                 (forall u w, gens (prods G) u w -> forall B, u = [Nt B] -> In B (nonterms G) ->
                    exists p, unit_reach (prods G) B (head p) /\ In p (prods G) /\ is_single p = false)).
    { apply gen_gens_ind.
      - intros a A HA. discriminate.
      - intros p w Hp _ IH A HA HAn. inversion HA; subst A.
        destruct (is_single p) eqn:E.
        + destruct (is_single_body p E) as [B Hbd].
          destruct (IH B Hbd) as (p2 & Hr & Hp2 & Hs2).
          { apply (proj2 (Hcu p Hp)). rewrite Hbd. now left. }
          exists p2. split; auto. eapply unit_reach_trans; eauto.
          eapply reach_step with (p := p); [apply filter_In; auto|constructor; now left|rewrite Hbd; now left].
        + exists p. split; auto. constructor. now left.
      - intros B HB. discriminate.
      - intros s u w1 w2 _ IH1 _ _ B HB HBn. inversion HB; subst. apply (IH1 B eq_refl HBn). }
    rewrite Hn. intros A HA. destruct (Hy A HA) as (w & Hw).
    destruct (proj1 Hg _ _ Hw A eq_refl HA) as (p & Hr & Hp & Hs).
    exists (mkProd A (body p)). split; auto. apply Hin. exists A, p. auto.
  Qed.

  (** DEL keeps "every non-terminal generates a non-empty string" *)
  Lemma del_all_yield (G G' : gram) : wf G -> all_yield G -> del teqb neqb fresh G = Ok G' -> all_yield G'.
  Proof.
    intros Hwf Hy H. unfold del in H.
    destruct (nullable neqb (prods G)) as [nl| |] eqn:En; simpl in H; try discriminate.
    destruct (nullable_spec neqb neqb_spec _ _ En) as [_ Hnl].
    set (P2 := del_prods teqb neqb nl (prods G) []) in *.
    assert (HP2 : forall q, In q P2 <-> del_member nl (prods G) q).
    { intros q. unfold P2. rewrite In_del_prods; auto. split; auto. intros [[]|?]; auto. }
    destruct (del_forward (prods G) nl Hnl P2 HP2) as [Hf _].
    destruct (mem_n neqb (start G) nl).
    - destruct (add_new fresh Prime (nonterms G) (start G)) as [[s' nts']| |] eqn:Ea; simpl in H; try discriminate.
      inversion H; subst G'. clear H.
      destruct (add_new_spec fresh fresh_spec _ _ _ _ _ Ea) as [_ ->].
      set (P' := add_p teqb neqb (mkProd s' []) (add_p teqb neqb (mkProd s' [Nt (start G)]) P2)).
      assert (Hmono : forall s w, gen P2 s w -> gen P' s w).
      { assert (Hi : incl P2 P') by (intros q Hq; unfold P'; rewrite !In_add_p; auto).
        apply (proj1 (gen_mono P2 P' Hi)). }
      intros A HA. simpl in HA. apply in_app_iff in HA. destruct HA as [HA|[<-|[]]].
      + destruct (Hy A HA) as (w & Hw & Hg). exists w. split; [exact Hw|]. simpl. apply Hmono. now apply Hf.
      + destruct (Hy (start G) (proj1 Hwf)) as (w & Hw & Hg). exists w. split; [exact Hw|]. simpl.
        apply gen_nt_intro with (b := [Nt (start G)]).
        * unfold P'. rewrite !In_add_p; auto.
        * apply gens_single. apply Hmono. now apply Hf.
    - inversion H; subst G'. clear H. intros A HA. simpl in *.
      destruct (Hy A HA) as (w & Hw & Hg). exists w. split; [exact Hw|]. now apply Hf.
  Qed.

  Theorem unreachable_valid (G G' : gram) : valid G -> unreachable_elim teqb neqb G = Ok G' -> valid G'.
  Proof.
    intros [Hwf Hall] H.
    pose proof (ok_or_names_ok _ _ _ (unreachable_total teqb neqb teqb_spec neqb_spec G Hwf) H) as [_ Hwf'].
    split; auto.
    unfold unreachable_elim in H.
    destruct (reach neqb (prods G) [start G]) as [rn| |] eqn:Er; simpl in H; try discriminate.
    inversion H; subst G'. clear H. simpl.
    destruct (reach_spec neqb neqb_spec (prods G) [start G] rn) as [_ Hr]; auto.
    { constructor; [intros []|constructor]. }
    intros A HA.
    assert (HAn : In A (nonterms G)).
    { apply Hr in HA. destruct Hwf as [Hs Hp]. induction HA as [A HA|p B Hp' _ _ HB].
      - destruct HA as [<-|[]]. exact Hs.
      - destruct (Hp p Hp') as [_ Hb]. apply (Hb (Nt B) HB). }
    destruct (Hall A HAn) as (p & Hp & Hh). exists p. split; auto.
    apply filter_In. split; auto. apply (mem_n_In neqb neqb_spec). now rewrite Hh.
  Qed.

  (** EliminateCycles passes Verify() when every non-terminal of the input generates a non-empty
      string (the domain that excludes the signature of D09c) *)
  Theorem cycles_valid (G G' : gram) : wf G -> all_yield G -> cycles_elim teqb neqb fresh G = Ok G' -> valid G'.
  Proof.
    intros Hwf Hy H. unfold cycles_elim in H.
    destruct (del teqb neqb fresh G) as [G1| |] eqn:H1; simpl in H; try discriminate.
    destruct (unit_elim teqb neqb G1) as [G2| |] eqn:H2; simpl in H; try discriminate.
    pose proof (ok_or_names_ok _ _ _ (del_total teqb neqb fresh teqb_spec neqb_spec fresh_spec G Hwf) H1) as [_ Hwf1].
    pose proof (del_all_yield G G1 Hwf Hy H1) as Hy1.
    assert (Hp1 : all_productive G1) by (intros A HA; destruct (Hy1 A HA) as (w & _ & Hg); eauto).
    pose proof (unit_valid G1 G2 Hwf1 Hp1 H2) as Hv2.
    exact (unreachable_valid G2 G' Hv2 H).
  Qed.
End Verify.
