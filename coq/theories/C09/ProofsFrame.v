(** C09 — frame property on the slice store: the bodies/aux loop of EliminateEmptyProductions
    never writes into a backing array that existed before the call (whatever the growth policy,
    before and after fix D08a), so everything the receiver holds denotes the same values
    afterwards; with [String.Append] (the fixed code) the loop computes exactly the bodies of the
    value-level model; with the built-in [append] (the code before the fix) it does not. *)
From Coq Require Import List Arith Bool Lia.
From Algo.Grammar Require Import CFG.
From Algo.C08 Require Import Model.
From Algo.C09 Require Import SliceHeap.
Import ListNotations.

Section Frame.
  Context {E : Type}.
  Variable d : E.
  Notation store := (@store E).

  Lemma length_upd_cell (a : list E) i x : length (upd_cell a i x) = length a.
  Proof. revert i. induction a as [|y a IH]; intros [|i]; simpl; auto. Qed.

  Lemma length_upd_arr (st : store) k i x : length (upd_arr st k i x) = length st.
  Proof. revert k. induction st as [|a st IH]; intros [|k]; simpl; auto. Qed.

  Lemma nth_upd_arr_other (st : store) k i x j : j <> k -> nth j (upd_arr st k i x) [] = nth j st [].
  Proof.
    revert k j. induction st as [|a st IH]; intros [|k] [|j] H; simpl; auto; try congruence.
  Qed.

  (** a header the loop may append to: its array was allocated during the call, or it is full *)
  Definition own (n0 : nat) (h : hdr) : Prop := n0 <= arr h \/ cap h <= len h.

  (** the first [n0] arrays are unchanged *)
  Definition untouched (n0 : nat) (st st' : store) : Prop :=
    n0 <= length st' /\ forall i, i < n0 -> nth i st' [] = nth i st [].

  Lemma untouched_trans n0 st1 st2 st3 : untouched n0 st1 st2 -> untouched n0 st2 st3 -> untouched n0 st1 st3.
  Proof. intros [_ H1] [L2 H2]. split; auto. intros i Hi. rewrite H2, H1; auto. Qed.

  Definition app_ok (n0 : nat) (app : store -> hdr -> E -> store * hdr) : Prop :=
    forall st h x, n0 <= length st -> own n0 h ->
      untouched n0 st (fst (app st h x)) /\ own n0 (snd (app st h x)).

  Lemma append_ok n0 grow : app_ok n0 (append d grow).
  Proof.
    intros st h x Hn Ho. unfold append. destruct (len h <? cap h) eqn:El; simpl.
    - apply Nat.ltb_lt in El. destruct Ho as [Ho|Ho]; [|lia].
      split; [split|left; auto].
      + now rewrite length_upd_arr.
      + intros i Hi. apply nth_upd_arr_other. lia.
    - split; [split|left; simpl; auto].
      + rewrite app_length. simpl. lia.
      + intros i Hi. apply app_nth1. lia.
  Qed.

  Lemma append_copy_ok n0 : app_ok n0 append_copy.
  Proof.
    intros st h x Hn Ho. unfold append_copy. simpl. split; [split|left; simpl; auto].
    - rewrite app_length. simpl. lia.
    - intros i Hi. apply app_nth1. lia.
  Qed.

  Section WithApp.
    Variable n0 : nat.
    Variable app : store -> hdr -> E -> store * hdr.
    Hypothesis Happ : app_ok n0 app.

    Lemma h_expand_aux_frame nb s : forall bodies st st' hs,
      n0 <= length st -> Forall (own n0) bodies ->
      h_expand_aux app nb s bodies st = (st', hs) ->
      untouched n0 st st' /\ Forall (own n0) hs.
    Proof.
      induction bodies as [|β bs IH]; simpl; intros st st' hs Hn Ho H.
      - inversion H; subst. split; [split; auto|constructor].
      - inversion Ho as [|? ? Hβ Hbs]; subst.
        destruct (app st β s) as [st1 β'] eqn:Ea.
        destruct (Happ st β s Hn Hβ) as [Hu1 Ho1]. rewrite Ea in Hu1, Ho1. simpl in *.
        destruct (h_expand_aux app nb s bs st1) as [st2 rest] eqn:Er.
        inversion H; subst. clear H.
        destruct (IH st1 st' rest (proj1 Hu1) Hbs Er) as [Hu2 Ho2].
        split; [eapply untouched_trans; eauto|].
        apply Forall_app. split; [destruct nb; auto|constructor; auto].
    Qed.

    Lemma h_expand_frame nullf : forall b bodies st st' hs,
      n0 <= length st -> Forall (own n0) bodies ->
      h_expand app nullf b bodies st = (st', hs) ->
      untouched n0 st st' /\ Forall (own n0) hs.
    Proof.
      induction b as [|s b IH]; simpl; intros bodies st st' hs Hn Ho H.
      - inversion H; subst. split; [split; auto|auto].
      - destruct (h_expand_aux app (nullf s) s bodies st) as [st1 bs1] eqn:Ea.
        destruct (h_expand_aux_frame _ _ _ _ _ _ Hn Ho Ea) as [Hu1 Ho1].
        destruct (IH _ _ _ _ (proj1 Hu1) Ho1 H) as [Hu2 Ho2].
        split; auto. eapply untouched_trans; eauto.
    Qed.

    Opaque h_expand.
    Lemma h_del_prods_frame {N} nullf : forall (ps : list (N * hdr)) st out st' out',
      n0 <= length st -> h_del_prods app nullf ps st out = (st', out') -> untouched n0 st st'.
    Proof.
      induction ps as [|[A hb] ps IH]; simpl; intros st out st' out' Hn H.
      - inversion H; subst. split; auto.
      - destruct (read st hb) as [|x b]; [eapply IH; eauto|].
        destruct (h_expand app nullf (x :: b) [empty_slice] st) as [st1 hs] eqn:Ee.
        assert (Ho : Forall (own n0) [empty_slice]) by (constructor; [right; simpl; lia|constructor]).
        destruct (h_expand_frame nullf _ _ _ _ _ Hn Ho Ee) as [Hu1 _].
        eapply untouched_trans; eauto. eapply IH; [apply Hu1|eauto].
    Qed.
    Transparent h_expand.
  End WithApp.

  Lemma read_untouched n0 (st st' : store) h : untouched n0 st st' -> arr h < n0 -> read st' h = read st h.
  Proof. intros [_ H] Ha. unfold read. now rewrite H. Qed.

  (** the receiver: every header it holds points into the store as it was before the call *)
  Theorem del_frame {N} (app : store -> hdr -> E -> store * hdr) nullf (ps G : list (N * hdr)) st out st' out' :
    app_ok (length st) app ->
    h_del_prods app nullf ps st out = (st', out') ->
    (forall p, In p G -> arr (snd p) < length st) ->
    den st' G = den st G.
  Proof.
    intros Happ H HG. pose proof (h_del_prods_frame (length st) app Happ nullf ps st out st' out' (le_n _) H) as Hu.
    unfold den. apply map_ext_in. intros p Hp. f_equal. eapply read_untouched; eauto.
  Qed.

  (** * the fixed code computes the bodies of the value-level model *)
  Definition hvalid (st : store) (h : hdr) : Prop := len h = 0 \/ arr h < length st.

  Lemma read_ext (st e : store) h : hvalid st h -> read (st ++ e) h = read st h.
  Proof.
    intros [H|H]; unfold read; [now rewrite H|]. now rewrite app_nth1.
  Qed.

  Lemma hvalid_ext (st e : store) h : hvalid st h -> hvalid (st ++ e) h.
  Proof. intros [H|H]; [now left|right; rewrite app_length; lia]. Qed.

  Lemma read_length (st : store) h : length (read st h) <= len h.
  Proof. unfold read. apply firstn_le_length. Qed.

  Lemma read_append_copy (st : store) h x :
    read (fst (append_copy st h x)) (snd (append_copy st h x)) = read st h ++ [x].
  Proof.
    unfold append_copy. cbn [fst snd]. unfold read at 1. cbn [arr off len]. rewrite nth_middle. cbn [skipn].
    apply firstn_all2. rewrite app_length. simpl. pose proof (read_length st h). lia.
  Qed.

  Lemma h_expand_aux_copy nb s : forall bodies st st' hs,
    Forall (hvalid st) bodies -> h_expand_aux append_copy nb s bodies st = (st', hs) ->
    (exists e, st' = st ++ e) /\ Forall (hvalid st') hs /\
    map (read st') hs = p_expand_aux nb s (map (read st) bodies).
  Proof.
    induction bodies as [|β bs IH]; simpl; intros st st' hs Hv H.
    - inversion H; subst. split; [exists []; now rewrite app_nil_r|]. split; auto.
    - inversion Hv as [|? ? Hβ Hbs]; subst.
      set (st1 := st ++ [read st β ++ [s]]) in *.
      set (β' := mkHdr (length st) 0 (S (len β)) (S (len β))) in *.
      destruct (h_expand_aux append_copy nb s bs st1) as [st2 rest] eqn:Er.
      inversion H; subst. clear H.
      assert (Hbs1 : Forall (hvalid st1) bs) by (eapply Forall_impl; [|exact Hbs]; intros; now apply hvalid_ext).
      destruct (IH st1 st' rest Hbs1 Er) as ((e & He) & Hvr & Hmap).
      assert (Hβ1 : hvalid st1 β) by (now apply hvalid_ext).
      assert (Hβ'1 : hvalid st1 β') by (right; unfold st1; rewrite app_length; simpl; lia).
      split; [exists ([read st β ++ [s]] ++ e); rewrite He; unfold st1; now rewrite <- app_assoc|].
      split.
      + apply Forall_app. split.
        * destruct nb; auto. constructor; auto. rewrite He. now apply hvalid_ext.
        * constructor; auto. rewrite He. now apply hvalid_ext.
      + rewrite map_app. simpl. f_equal.
        * destruct nb; simpl; auto. f_equal. rewrite He, read_ext; auto. unfold st1. now apply read_ext.
        * f_equal.
          -- rewrite He, read_ext; auto. apply (read_append_copy st β s).
          -- rewrite Hmap. f_equal. apply map_ext_in. intros h Hh. unfold st1. apply read_ext.
             rewrite Forall_forall in Hbs. auto.
  Qed.

  Theorem h_expand_copy nullf : forall b bodies st st' hs,
    Forall (hvalid st) bodies -> h_expand append_copy nullf b bodies st = (st', hs) ->
    (exists e, st' = st ++ e) /\ Forall (hvalid st') hs /\
    map (read st') hs = p_expand nullf b (map (read st) bodies).
  Proof.
    induction b as [|s b IH]; simpl; intros bodies st st' hs Hv H.
    - inversion H; subst. split; [exists []; now rewrite app_nil_r|auto].
    - destruct (h_expand_aux append_copy (nullf s) s bodies st) as [st1 bs1] eqn:Ea.
      destruct (h_expand_aux_copy _ _ _ _ _ _ Hv Ea) as ((e1 & He1) & Hv1 & Hm1).
      destruct (IH _ _ _ _ Hv1 H) as ((e2 & He2) & Hv2 & Hm2).
      split; [exists (e1 ++ e2); rewrite He2, He1; now rewrite app_assoc|]. split; auto.
      now rewrite Hm2, Hm1.
  Qed.

  (** operations that only allocate ([String.Append], [String.Concat], [make]+[copy]) extend the
      store; whatever was readable before reads the same afterwards.  Every other transformation
      builds its bodies with these and with sub-slicing (which does not touch the store). *)
  Theorem den_ext {N} (st e : store) (G : list (N * hdr)) :
    (forall p, In p G -> hvalid st (snd p)) -> den (st ++ e) G = den st G.
  Proof.
    intros HG. unfold den. apply map_ext_in. intros p Hp. f_equal. apply read_ext. auto.
  Qed.

  Lemma append_copy_ext (st : store) h x : exists e, fst (append_copy st h x) = st ++ e.
  Proof. unfold append_copy. simpl. eauto. Qed.
End Frame.

(** the value-level loop is the [expand] of the model *)
Lemma p_expand_aux_model {T N} nb (s : symbol T N) bodies : p_expand_aux nb s bodies = expand_aux nb s bodies.
Proof. induction bodies as [|b bs IH]; simpl; [reflexivity|]. rewrite IH. reflexivity. Qed.

Lemma p_expand_model {T N} (neqb : N -> N -> bool) nl (b : sentential T N) : forall bodies,
  p_expand (nullable_sym neqb nl) b bodies = expand neqb nl b bodies.
Proof. induction b as [|s b IH]; simpl; intros bodies; [reflexivity|]. rewrite p_expand_aux_model. apply IH. Qed.
