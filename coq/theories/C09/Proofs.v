(** C09 — post-conditions of the transformations (on the model) and correctness of the
    syntactic checkers. *)
From Coq Require Import List Bool Arith Lia.
From Algo.Grammar Require Import CFG.
From Algo.C08 Require Import Model Spec ProofsBase ProofsLang1 ProofsLang2 ProofsLang3 ProofsLang4.
From Algo.C09 Require Import Model.
Import ListNotations.

Section Post.
  Context {T N : Type}.
  Variable teqb : T -> T -> bool.
  Variable neqb : N -> N -> bool.
  Variable t2n : T -> N.
  Variable fresh : skind -> list N -> N -> option N.
  Hypothesis teqb_spec : forall x y, teqb x y = true <-> x = y.
  Hypothesis neqb_spec : forall x y, neqb x y = true <-> x = y.
  Hypothesis fresh_spec : forall k nts b x, fresh k nts b = Some x -> ~ In x nts.

  Notation sym := (symbol T N).
  Notation prod := (production T N).
  Notation gram := (grammar T N).

  (** * the checker [verify] is Verify(): it decides [valid]; [verify_symbols] decides [wf] *)
  Lemma mem_t_In x l : mem_t teqb x l = true <-> In x l.
  Proof. apply memb_In, teqb_spec. Qed.

  Lemma sym_declared_spec (G : gram) s : sym_declared teqb neqb G s = true <-> declared G s.
  Proof. destruct s; simpl; [apply mem_t_In|apply (mem_n_In neqb neqb_spec)]. Qed.

  Theorem verify_symbols_spec (G : gram) : verify_symbols teqb neqb G = true <-> wf G.
  Proof.
    unfold verify_symbols, wf. rewrite andb_true_iff, forallb_forall, (mem_n_In neqb neqb_spec).
    split; intros [H1 H2]; split; auto.
    - intros p Hp. specialize (H2 p Hp). apply andb_true_iff in H2. destruct H2 as [H2 H3].
      split; [now apply (mem_n_In neqb neqb_spec)|]. rewrite forallb_forall in H3.
      intros s Hs. apply sym_declared_spec. auto.
    - intros p Hp. destruct (H2 p Hp) as [H3 H4]. apply andb_true_iff. split.
      + now apply (mem_n_In neqb neqb_spec).
      + apply forallb_forall. intros s Hs. apply sym_declared_spec. auto.
  Qed.

  Lemma has_prod_spec (ps : list prod) A : has_prod neqb ps A = true <-> exists p, In p ps /\ head p = A.
  Proof.
    unfold has_prod. rewrite existsb_exists. split; intros (p & Hp & H); exists p; split; auto; now apply neqb_spec.
  Qed.

  Theorem verify_spec (G : gram) : verify teqb neqb G = true <-> valid G.
  Proof.
    unfold verify, valid. rewrite !andb_true_iff, verify_symbols_spec, forallb_forall. split.
    - intros [[H1 _] H3]. split; auto. intros A HA. apply has_prod_spec. auto.
    - intros [H1 H2]. split; [split; auto|].
      + apply has_prod_spec. apply H2. apply H1.
      + intros A HA. apply has_prod_spec. auto.
  Qed.

  (** * syntactic checkers against their definitions *)
  Theorem no_unit_spec (G : gram) :
    no_unit G = true <-> forall p B, In p (prods G) -> body p <> [Nt B].
  Proof.
    unfold no_unit. rewrite forallb_forall. split.
    - intros H p B Hp Hb. specialize (H p Hp). unfold is_single in H. rewrite Hb in H. discriminate.
    - intros H p Hp. apply negb_true_iff. destruct (is_single p) eqn:E; auto.
      destruct (is_single_body p E) as [B Hb]. exfalso. eapply H; eauto.
  Qed.

  (** CNF: every production is A -> B C, A -> a, or S -> ε *)
  Definition cnf_prod (G : gram) (p : prod) : Prop :=
    (exists B C, body p = [Nt B; Nt C]) \/ (exists a, body p = [Tm a]) \/ (body p = [] /\ head p = start G).

  Theorem is_cnf_spec (G : gram) : is_cnf neqb G = true <-> forall p, In p (prods G) -> cnf_prod G p.
  Proof.
    unfold is_cnf. rewrite forallb_forall. split; intros H p Hp; specialize (H p Hp).
    - apply orb_true_iff in H. destruct H as [H|H]; [apply orb_true_iff in H; destruct H as [H|H]|].
      + left. unfold is_cnf_binary in H. destruct (body p) as [|[a|B] [|[a'|C] [|? ?]]]; try discriminate. eauto.
      + right. left. unfold is_cnf_terminal in H. destruct (body p) as [|[a|B] [|? ?]]; try discriminate. eauto.
      + right. right. apply andb_true_iff in H. destruct H as [H1 H2]. apply neqb_spec in H2.
        unfold is_empty in H1. destruct (body p); [auto|discriminate].
    - destruct H as [(B & C & Hb)|[(a & Hb)|[Hb Hh]]].
      + unfold is_cnf_binary. now rewrite Hb.
      + unfold is_cnf_terminal. rewrite Hb. now rewrite orb_true_r.
      + unfold is_empty. rewrite Hb, Hh. simpl. rewrite (proj2 (neqb_spec _ _) eq_refl). now rewrite !orb_true_r.
  Qed.

  (** * post-conditions on the model *)

  (** UNIT leaves no unit production *)
  Theorem unit_post (G G' : gram) : wf G -> unit_elim teqb neqb G = Ok G' -> no_unit G' = true.
  Proof.
    intros Hwf H.
    destruct (unit_lang teqb neqb teqb_spec neqb_spec G Hwf) as (G2 & H2 & _ & Hin & _).
    rewrite H in H2. inversion H2; subst G2. clear H2.
    unfold no_unit. apply forallb_forall. intros q Hq. apply Hin in Hq.
    destruct Hq as (A & p & _ & _ & _ & Hs & ->). unfold is_single in *. simpl. now rewrite Hs.
  Qed.

  Lemma body_has_n_spec A (b : list sym) : body_has_n teqb neqb A b = true <-> In (Nt A) b.
  Proof.
    unfold body_has_n. rewrite existsb_exists. split.
    - intros (s & Hs & H). apply (sym_eqb_spec teqb neqb teqb_spec neqb_spec) in H. now subst.
    - intros H. exists (Nt A). split; auto. now apply (sym_eqb_spec teqb neqb teqb_spec neqb_spec).
  Qed.

  Lemma start_not_on_right_spec (G : gram) :
    start_not_on_right teqb neqb G = true <-> forall p, In p (prods G) -> ~ In (Nt (start G)) (body p).
  Proof.
    unfold start_not_on_right. rewrite negb_true_iff. split.
    - intros H p Hp Hb. assert (existsb (fun p => body_has_n teqb neqb (start G) (body p)) (prods G) = true).
      { apply existsb_exists. exists p. split; auto. now apply body_has_n_spec. } congruence.
    - intros H. destruct (existsb _ (prods G)) eqn:E; auto. apply existsb_exists in E.
      destruct E as (p & Hp & Hb). apply body_has_n_spec in Hb. exfalso. eapply H; eauto.
  Qed.

  (** DEL leaves no ε-production except for a fresh start symbol *)
  Theorem del_post (G G' : gram) : wf G -> del teqb neqb fresh G = Ok G' ->
    no_empty_except_fresh_start teqb neqb G' = true.
  Proof.
    intros Hwf H. unfold del in H.
    destruct (nullable neqb (prods G)) as [nl| |] eqn:En; simpl in H; try discriminate.
    set (P2 := del_prods teqb neqb nl (prods G) []) in *.
    assert (HP2 : forall q, In q P2 -> del_member nl (prods G) q).
    { intros q Hq. unfold P2 in Hq. apply In_del_prods in Hq; auto. destruct Hq as [[]|?]; auto. }
    assert (Hne : forall q, In q P2 -> is_empty q = false).
    { intros q Hq. destruct (HP2 q Hq) as (p & _ & _ & Hn & _). unfold is_empty. destruct (body q); congruence. }
    unfold no_empty_except_fresh_start.
    destruct (mem_n neqb (start G) nl).
    - destruct (add_new fresh Prime (nonterms G) (start G)) as [[s' nts']| |] eqn:Ea; simpl in H; try discriminate.
      inversion H; subst G'. clear H.
      destruct (add_new_spec fresh fresh_spec _ _ _ _ _ Ea) as [Hfresh _].
      assert (Hsr : start_not_on_right teqb neqb
                (mkGrammar (terms G) nts' (add_p teqb neqb (mkProd s' []) (add_p teqb neqb (mkProd s' [Nt (start G)]) P2)) s') = true).
      { apply start_not_on_right_spec. simpl. intros q Hq Hb. rewrite !In_add_p in Hq; auto.
        destruct Hq as [->|[->|Hq]]; simpl in Hb.
        - destruct Hb.
        - destruct Hb as [Hb|[]]. inversion Hb; subst. apply Hfresh. apply Hwf.
        - destruct (HP2 q Hq) as (p & Hp & _ & _ & Hs). apply Hfresh.
          apply (proj2 (wf_closed_under G Hwf p Hp)). eapply sub_incl; eauto. }
      apply forallb_forall. simpl. intros q Hq. rewrite !In_add_p in Hq; auto.
      destruct Hq as [->|[->|Hq]]; simpl.
      + rewrite Hsr. now rewrite (proj2 (neqb_spec _ _) eq_refl).
      + reflexivity.
      + now rewrite (Hne q Hq).
    - inversion H; subst G'. clear H. apply forallb_forall. simpl. intros q Hq. now rewrite (Hne q Hq).
  Qed.
End Post.
