(** C09 — EliminateCycles leaves no cycle: the result has no unit production, an ε-production
    only for a start symbol that occurs in no body, hence the unit/nullable graph evaluated by
    the checker [no_cycle] has no edge at all.  Also: [left_factored] against its definition. *)
From Coq Require Import List Bool Arith Lia.
From Algo.Grammar Require Import CFG.
From Algo.C08 Require Import Model Spec ProofsBase ProofsLang1 ProofsLang2 ProofsLang3 ProofsLang4.
From Algo.C09 Require Import Model Proofs ProofsCNF.
Import ListNotations.

Section Cycles.
  Context {T N : Type}.
  Variable teqb : T -> T -> bool.
  Variable neqb : N -> N -> bool.
  Variable fresh : skind -> list N -> N -> option N.
  Hypothesis teqb_spec : forall x y, teqb x y = true <-> x = y.
  Hypothesis neqb_spec : forall x y, neqb x y = true <-> x = y.
  Hypothesis fresh_spec : forall k nts b x, fresh k nts b = Some x -> ~ In x nts.

  Notation sym := (symbol T N).
  Notation prod := (production T N).
  Notation gram := (grammar T N).

  Theorem left_factored_spec (G : gram) :
    left_factored teqb neqb G = true <->
    forall p q s b1 b2, In p (prods G) -> In q (prods G) -> head p = head q ->
      body p = s :: b1 -> body q = s :: b2 -> p = q.
  Proof.
    unfold left_factored. rewrite forallb_forall. split.
    - intros H p q s b1 b2 Hp Hq Hh Hb1 Hb2. specialize (H p Hp). rewrite forallb_forall in H. specialize (H q Hq).
      apply orb_true_iff in H. destruct H as [H|H]; [|now apply (prod_eqb_spec teqb neqb teqb_spec neqb_spec)].
      apply negb_true_iff in H. apply andb_false_iff in H. destruct H as [H|H].
      + rewrite Hh, (proj2 (neqb_spec _ _) eq_refl) in H. discriminate.
      + unfold first_eqb in H. rewrite Hb1, Hb2 in H.
        rewrite (proj2 (sym_eqb_spec teqb neqb teqb_spec neqb_spec s s) eq_refl) in H. discriminate.
    - intros H p Hp. apply forallb_forall. intros q Hq.
      destruct (neqb (head p) (head q) && first_eqb teqb neqb p q) eqn:E; [|reflexivity]. simpl.
      apply andb_true_iff in E. destruct E as [E1 E2]. apply neqb_spec in E1.
      unfold first_eqb in E2. destruct (body p) as [|s b1] eqn:Eb1; [discriminate|].
      destruct (body q) as [|s' b2] eqn:Eb2; [discriminate|].
      apply (sym_eqb_spec teqb neqb teqb_spec neqb_spec) in E2. subst s'.
      apply (prod_eqb_spec teqb neqb teqb_spec neqb_spec). eapply H; eauto.
  Qed.

  (** only the start symbol can be nullable when ε-productions are confined to a start symbol
      that occurs in no body *)
  Lemma eps_only_start_nullable (G : gram) : eps_only_start G ->
    (forall s w, gen (prods G) s w -> w = [] ->
       s = Nt (start G) /\ forall q, In q (prods G) -> ~ In (Nt (start G)) (body q)) /\
    (forall u w, gens (prods G) u w -> w = [] ->
       u = [] \/ (In (Nt (start G)) u /\ forall q, In q (prods G) -> ~ In (Nt (start G)) (body q))).
  Proof.
    intros He. apply gen_gens_ind.
    - intros a H. discriminate.
    - intros p w Hp _ IH Hw. destruct (IH Hw) as [Hb|[Hin Hsnr]].
      + destruct (He p Hp Hb) as [Hh Hsnr]. rewrite Hh. auto.
      + exfalso. eapply Hsnr; eauto.
    - intros _. now left.
    - intros s u w1 w2 _ IH1 _ _ Hw. apply app_eq_nil in Hw. destruct Hw as [Hw1 _].
      destruct (IH1 Hw1) as [-> Hsnr]. right. split; [now left|auto].
  Qed.

  Lemma no_edges (G : gram) nl : eps_only_start G -> no_unit G = true ->
    (forall A, In A nl <-> gen (prods G) (Nt A) []) ->
    forall p, In p (prods G) -> forall pre post, body p = pre ++ post ->
      unit_edges_body neqb nl (head p) pre post = [].
  Proof.
    intros He Hnu Hnl p Hp.
    assert (Hall : forall u, all_nullable neqb nl u = true -> incl u (body p) -> u = []).
    { intros u Hu Hi. destruct u as [|s u]; auto. simpl in Hu. apply andb_true_iff in Hu. destruct Hu as [Hs _].
      destruct s as [a|B]; [discriminate|]. apply (mem_n_In neqb neqb_spec) in Hs. apply Hnl in Hs.
      destruct (proj1 (eps_only_start_nullable G He) _ _ Hs eq_refl) as [E Hsnr]. inversion E; subst B.
      exfalso. apply (Hsnr p Hp). apply Hi. now left. }
    intros pre post. revert pre. induction post as [|s post IH]; intros pre Hb; simpl; auto.
    rewrite (IH (pre ++ [s])) by (now rewrite <- app_assoc). rewrite app_nil_r.
    destruct s as [a|B]; auto.
    destruct (all_nullable neqb nl pre) eqn:E1; simpl; auto.
    destruct (all_nullable neqb nl post) eqn:E2; simpl; auto.
    exfalso. assert (pre = []) by (apply Hall; auto; rewrite Hb; intros x Hx; apply in_or_app; now left).
    assert (post = []) by (apply Hall; auto; rewrite Hb; intros x Hx; apply in_or_app; right; now right).
    subst. simpl in Hb. apply (proj1 (no_unit_spec G) Hnu p B Hp Hb).
  Qed.

  Theorem no_cycle_of_shape (G : gram) : eps_only_start G -> no_unit G = true -> no_cycle neqb G = true.
  Proof.
    intros He Hnu. unfold no_cycle.
    destruct (nullable_total neqb neqb_spec (prods G)) as [nl Hn]. rewrite Hn.
    destruct (nullable_spec neqb neqb_spec _ _ Hn) as [_ Hnl].
    assert (E : flat_map (fun p => unit_edges_body neqb nl (head p) [] (body p)) (prods G) = []).
    { assert (Hsub : forall l, incl l (prods G) -> flat_map (fun p => unit_edges_body neqb nl (head p) [] (body p)) l = []).
      { induction l as [|p l IH]; simpl; intros Hl; auto.
        rewrite (no_edges G nl He Hnu Hnl p (Hl p (or_introl eq_refl)) [] (body p) eq_refl).
        apply IH. intros x Hx. apply Hl. now right. }
      apply Hsub, incl_refl. }
    rewrite E. reflexivity.
  Qed.

  (** the shape is established by DEL; UNIT and Unreachable keep it *)
  Lemma cycles_shape (G G' : gram) : wf G -> cycles_elim teqb neqb fresh G = Ok G' ->
    eps_only_start G' /\ no_unit G' = true.
  Proof.
    intros Hwf H. unfold cycles_elim in H.
    apply bind_ok in H. destruct H as (G1 & H1 & H).
    apply bind_ok in H. destruct H as (G2 & H2 & H).
    pose proof (ok_or_names_ok _ _ _ (del_total teqb neqb fresh teqb_spec neqb_spec fresh_spec G Hwf) H1) as [_ Hwf1].
    pose proof (del_post teqb neqb fresh teqb_spec neqb_spec fresh_spec G G1 Hwf H1) as Hpost.
    assert (He1 : eps_only_start G1).
    { unfold no_empty_except_fresh_start in Hpost. rewrite forallb_forall in Hpost.
      intros p Hp Hb. specialize (Hpost p Hp). unfold is_empty in Hpost. rewrite Hb in Hpost. simpl in Hpost.
      apply andb_true_iff in Hpost. destruct Hpost as [Ha Hb']. apply neqb_spec in Ha. split; auto.
      now apply (start_not_on_right_spec teqb neqb teqb_spec neqb_spec). }
    destruct (unit_lang teqb neqb teqb_spec neqb_spec G1 Hwf1) as (G2' & H2' & _ & Hin & _ & _ & Hst).
    rewrite H2 in H2'. inversion H2'; subst G2'. clear H2'.
    pose proof (unit_post teqb neqb teqb_spec neqb_spec G1 G2 Hwf1 H2) as Hnu2.
    assert (He2 : eps_only_start G2).
    { intros q Hq Hb. apply Hin in Hq. destruct Hq as (A & p & _ & Hr & Hp & _ & ->). simpl in *.
      destruct (He1 p Hp Hb) as [Hh Hsnr]. rewrite Hst. split.
      - rewrite Hh in Hr. eapply unit_reach_start; eauto.
      - intros q' Hq'. apply Hin in Hq'. destruct Hq' as (A' & p' & _ & _ & Hp' & _ & ->). simpl. auto. }
    unfold unreachable_elim in H. apply bind_ok in H. destruct H as (rn & _ & H). inversion H; subst G'. clear H.
    split.
    - intros q Hq Hb. simpl in *. apply filter_In in Hq. destruct Hq as [Hq _].
      destruct (He2 q Hq Hb) as [Hh Hsnr]. split; auto.
      intros q' Hq'. apply filter_In in Hq'. apply Hsnr, Hq'.
    - unfold no_unit in *. rewrite forallb_forall in *. simpl. intros q Hq. apply filter_In in Hq. apply Hnu2, Hq.
  Qed.

  Theorem cycles_post (G G' : gram) : wf G -> cycles_elim teqb neqb fresh G = Ok G' -> no_cycle neqb G' = true.
  Proof.
    intros Hwf H. destruct (cycles_shape G G' Hwf H) as [He Hnu]. now apply no_cycle_of_shape.
  Qed.
End Cycles.
