(** C09 — post-condition checkers (boolean functions on grammars) for the transformations
    modelled in [Algo.C08.Model].  They are evaluated by the driver on the grammars RETURNED BY
    THE GO CODE, and the theorems of Properties/C09.v state them for the model's results.
    The transformations themselves, [verify] and [verify_symbols] are in C08/Model.v.
    No proofs here. *)
From Algo.C08 Require Export Model.

Section Checkers.
  Context {T N : Type}.
  Variable teqb : T -> T -> bool.
  Variable neqb : N -> N -> bool.

  Notation sym := (symbol T N).
  Notation prod := (production T N).
  Notation gram := (grammar T N).

  (** IsCNF of cfg.go: A -> B C, A -> a, or S -> ε *)
  Definition is_cnf (G : gram) : bool :=
    forallb (fun p => is_cnf_binary p || is_cnf_terminal p || (is_empty p && neqb (head p) (start G))) (prods G).

  (** the independent (textbook) check: additionally the start symbol occurs in no body *)
  Definition start_not_on_right (G : gram) : bool :=
    negb (existsb (fun p => body_has_n teqb neqb (start G) (body p)) (prods G)).
  Definition is_cnf_strict (G : gram) : bool := is_cnf G && start_not_on_right G.

  (** no ε-production, except for a start symbol that occurs in no body *)
  Definition no_empty_except_fresh_start (G : gram) : bool :=
    forallb (fun p => negb (is_empty p) || (neqb (head p) (start G) && start_not_on_right G)) (prods G).

  Definition no_unit (G : gram) : bool := forallb (fun p => negb (is_single p)) (prods G).

  (** every non-terminal and every head is reachable from the start symbol, every terminal
      occurs in a production *)
  Definition all_reachable (G : gram) : bool :=
    match reach neqb (prods G) [start G] with
    | Ok rn =>
      forallb (fun A => mem_n neqb A rn) (nonterms G) &&
      forallb (fun p => mem_n neqb (head p) rn) (prods G) &&
      forallb (fun t => existsb (fun p => body_has_t teqb neqb t (body p)) (prods G)) (terms G)
    | _ => false
    end.

  (** edges of a derivation graph as unit pseudo-productions *)
  Definition edge (A B : N) : prod := mkProd A [Nt B].

  (** A -> B for every A -> α B β with α and β nullable: A =>+ A iff A is on a cycle *)
  Fixpoint unit_edges_body (nl : list N) (A : N) (pre post : sentential T N) : list prod :=
    match post with
    | [] => []
    | s :: post' =>
      (match s with
       | Nt B => if all_nullable neqb nl pre && all_nullable neqb nl post' then [edge A B] else []
       | Tm _ => []
       end) ++ unit_edges_body nl A (pre ++ [s]) post'
    end.

  (** A -> B for every A -> α B β with α nullable: A =>+ A γ iff A is on a cycle *)
  Fixpoint left_edges_body (nl : list N) (A : N) (b : sentential T N) : list prod :=
    match b with
    | [] => []
    | Tm _ :: _ => []
    | Nt B :: b' => edge A B :: (if mem_n neqb B nl then left_edges_body nl A b' else [])
    end.

  (** no node is reachable from one of its successors *)
  Definition acyclic (es : list prod) : bool :=
    forallb (fun e =>
               match reach neqb es (nts_of (body e)) with
               | Ok r => negb (mem_n neqb (head e) r)
               | _ => false
               end) es.

  Definition no_cycle (G : gram) : bool :=
    match nullable neqb (prods G) with
    | Ok nl => acyclic (flat_map (fun p => unit_edges_body nl (head p) [] (body p)) (prods G))
    | _ => false
    end.

  Definition no_left_recursion (G : gram) : bool :=
    match nullable neqb (prods G) with
    | Ok nl => acyclic (flat_map (fun p => left_edges_body nl (head p) (body p)) (prods G))
    | _ => false
    end.

  (** no two different alternatives of a head start with the same symbol
      (= no two alternatives share a non-empty common prefix) *)
  Definition first_eqb (p q : prod) : bool :=
    match body p, body q with
    | s :: _, s' :: _ => sym_eqb teqb neqb s s'
    | _, _ => false
    end.

  Definition left_factored (G : gram) : bool :=
    forallb (fun p =>
               forallb (fun q => negb (neqb (head p) (head q) && first_eqb p q) || prod_eqb teqb neqb p q)
                       (prods G)) (prods G).

  (** the first head that violates [left_factored], for the classification of D09b *)
  Definition lf_offender (G : gram) : option prod :=
    find (fun p => existsb (fun q => neqb (head p) (head q) && first_eqb p q && negb (prod_eqb teqb neqb p q))
                           (prods G)) (prods G).

  (** the group test of D09b: no alternative of head A stands alone, i.e. every alternative
      shares its first symbol with another alternative of A (then LeftFactor leaves A as it is) *)
  Definition no_singleton_group (G : gram) (A : N) : bool :=
    let aps := get neqb A (prods G) in
    match aps with
    | [] => false
    | _ => forallb (fun p => existsb (fun q => first_eqb p q && negb (prod_eqb teqb neqb p q)) aps) aps
    end.

  (** the receiver is unchanged: equal as sets (Go's [Equal]) *)
  Definition subset_b {A} (e : A -> A -> bool) (l1 l2 : list A) : bool := forallb (fun x => memb e x l2) l1.
  Definition set_eqb {A} (e : A -> A -> bool) (l1 l2 : list A) : bool := subset_b e l1 l2 && subset_b e l2 l1.
  Definition gram_eqb (G1 G2 : gram) : bool :=
    set_eqb teqb (terms G1) (terms G2) && set_eqb neqb (nonterms G1) (nonterms G2) &&
    set_eqb (prod_eqb teqb neqb) (prods G1) (prods G2) && neqb (start G1) (start G2).

  (** classification for D09c: X generates some non-empty terminal string.
      [gen_pass]: productive-with-non-empty-yield fixed point over (nullable ∪ yielding). *)
  Definition yields_body (nl yl : list N) (b : sentential T N) : bool :=
    forallb (fun s => match s with Tm _ => true | Nt A => mem_n neqb A nl || mem_n neqb A yl end) b &&
    existsb (fun s => match s with Tm _ => true | Nt A => mem_n neqb A yl end) b.

  Fixpoint yield_pass (nl : list N) (ps : list prod) (yl : list N) (upd : bool) : list N * bool :=
    match ps with
    | [] => (yl, upd)
    | p :: ps' =>
      if mem_n neqb (head p) yl then yield_pass nl ps' yl upd
      else if yields_body nl yl (body p) then yield_pass nl ps' (yl ++ [head p]) true
      else yield_pass nl ps' yl upd
    end.

  Definition yielding (ps : list prod) : res (list N) :=
    do nl <- nullable neqb ps;
    fixloop (fun yl => yield_pass nl ps yl false) (S (length ps)) [].
End Checkers.
