(** C09 — the checker [no_left_recursion] is sound for the derivation semantics:
    if it answers true, no non-terminal A has a derivation A =>+ A α (direct or indirect). *)
From Coq Require Import List Bool Arith Lia Relations.
From Algo.Grammar Require Import CFG.
From Algo.C08 Require Import Model Spec ProofsBase ProofsLang1.
From Algo.C09 Require Import Model Proofs.
Import ListNotations.

Lemma app_eq_mid {A} (a b pre post : list A) s : a ++ b = pre ++ s :: post ->
  (exists a2, a = pre ++ s :: a2 /\ post = a2 ++ b) \/ (exists b1, pre = a ++ b1 /\ b = b1 ++ s :: post).
Proof.
  revert pre. induction a as [|x a IH]; simpl; intros pre H.
  - right. exists pre. auto.
  - destruct pre as [|y pre]; simpl in H.
    + inversion H; subst. left. exists a. auto.
    + inversion H as [[Hx H']]. subst y. destruct (IH pre H') as [(a2 & -> & ->)|(b1 & -> & ->)].
      * left. exists a2. auto.
      * right. exists b1. auto.
Qed.

Section LRSound.
  Context {T N : Type}.
  Variable neqb : N -> N -> bool.
  Hypothesis neqb_spec : forall x y, neqb x y = true <-> x = y.

  Notation sym := (symbol T N).
  Notation prod := (production T N).
  Notation gram := (grammar T N).

  Variable G : gram.
  Let P := prods G.

  (** [u] derives the empty string *)
  Definition nullstr (u : list sym) : Prop := gens P u [].

  Lemma nullstr_app a b : nullstr (a ++ b) <-> nullstr a /\ nullstr b.
  Proof.
    unfold nullstr. split.
    - intros H. apply gens_split in H. destruct H as (w1 & w2 & Hw & H1 & H2).
      symmetry in Hw. apply app_eq_nil in Hw. destruct Hw as [-> ->]. auto.
    - intros [H1 H2]. change (@nil T) with (@nil T ++ []). now apply gens_app.
  Qed.

  Lemma nullstr_nil : nullstr [].
  Proof. constructor. Qed.

  Lemma nullstr_nt p : In p P -> nullstr (body p) -> nullstr [Nt (head p)].
  Proof. intros Hp Hb. apply gens_single. now constructor. Qed.

  Lemma all_nullable_of_nullstr nl (u : list sym) : (forall A, In A nl <-> gen P (Nt A) []) ->
    nullstr u -> all_nullable neqb nl u = true.
  Proof.
    intros Hnl. induction u as [|s u IH]; intros H; auto.
    apply gens_cons_inv in H. destruct H as (w1 & w2 & Hw & H1 & H2).
    symmetry in Hw. apply app_eq_nil in Hw. destruct Hw as [-> ->].
    destruct s as [a|A]; [apply gen_tm_inv in H1; discriminate|].
    simpl. rewrite IH by exact H2. rewrite andb_true_r. apply (mem_n_In neqb neqb_spec). now apply Hnl.
  Qed.

  (** left-corner relation: C -> β D γ with β deriving ε *)
  Definition LC (C D : N) : Prop :=
    exists p β γ, In p P /\ head p = C /\ body p = β ++ Nt D :: γ /\ nullstr β.

  (** where does the left-most symbol of a derived sentential form come from? *)
  Lemma lc_track n : forall u B v', derivesN G n u (Nt B :: v') ->
    exists pre C post, u = pre ++ Nt C :: post /\ nullstr pre /\ clos_refl_trans N LC C B.
  Proof.
    induction n as [|n IH]; intros u B v' H.
    - inversion H; subst. exists [], B, v'. repeat split; [apply nullstr_nil|apply rt_refl].
    - inversion H as [|n' a b c Hst Hrest]; subst.
      destruct Hst as [x y p Hp].
      destruct (IH _ _ _ Hrest) as (pre1 & C1 & post1 & Hu1 & Hn1 & Hlc).
      apply app_eq_mid in Hu1. destruct Hu1 as [(x2 & -> & Hpost)|(m1 & -> & Hm)].
      + (* inside x *)
        exists pre1, C1, (x2 ++ Nt (head p) :: y). rewrite <- app_assoc. simpl. auto.
      + apply nullstr_app in Hn1. destruct Hn1 as [Hx Hm1].
        apply app_eq_mid in Hm. destruct Hm as [(b2 & Hb & Hpost)|(y1 & -> & Hy)].
        * (* inside the body of p *)
          exists x, (head p), y. repeat split; auto.
          eapply rt_trans; [apply rt_step|exact Hlc].
          exists p, m1, b2. auto.
        * (* inside y *)
          apply nullstr_app in Hm1. destruct Hm1 as [Hb Hy1].
          exists (x ++ Nt (head p) :: y1), C1, post1. rewrite Hy. rewrite <- app_assoc. simpl.
          split; [reflexivity|]. split; auto.
          apply nullstr_app. split; auto.
          change (Nt (head p) :: y1) with ([Nt (head p)] ++ y1). apply nullstr_app. split; auto.
          now apply nullstr_nt.
  Qed.

  Lemma In_left_edges nl A : forall (β : list sym) D γ,
    all_nullable neqb nl β = true -> In (edge A D) (left_edges_body neqb nl A (β ++ Nt D :: γ)).
  Proof.
    induction β as [|s β IH]; simpl; intros D γ H.
    - now left.
    - destruct s as [a|B]; simpl in H; [discriminate|].
      apply andb_true_iff in H. destruct H as [H1 H2]. right. rewrite H1. now apply IH.
  Qed.

  Theorem no_left_recursion_sound : no_left_recursion neqb G = true ->
    forall A α n, ~ derivesN G (S n) [Nt A] (Nt A :: α).
  Proof.
    unfold no_left_recursion. fold P.
    destruct (nullable neqb P) as [nl| |] eqn:En; try discriminate.
    destruct (nullable_spec neqb neqb_spec _ _ En) as [_ Hnl].
    set (es := flat_map (fun p => left_edges_body neqb nl (head p) (body p)) P).
    intros Hac A α n H.
    inversion H as [|n' a b c Hst Hrest]; subst.
    inversion Hst as [x y p Hp Hx Hb]. destruct x as [|s x]; simpl in Hx.
    2:{ destruct x; discriminate. }
    inversion Hx as [[HA Hy]]. subst y. rewrite app_nil_r in *. simpl in *.
    destruct (lc_track _ _ _ _ Hrest) as (pre & C & post & Hbody & Hpre & Hlc).
    assert (Hedge : forall X Y, LC X Y -> In (edge X Y) es).
    { intros X Y (q & β & γ & Hq & Hh & Hbq & Hβ). unfold es. apply in_flat_map. exists q. split; auto.
      rewrite Hbq, Hh. apply In_left_edges. now apply all_nullable_of_nullstr. }
    assert (HAC : In (edge (head p) C) es).
    { apply Hedge. exists p, pre, post. split; [exact Hp|]. split; [reflexivity|]. split; [now rewrite Hb|exact Hpre]. }
    unfold acyclic in Hac. rewrite forallb_forall in Hac. specialize (Hac _ HAC). simpl in Hac.
    destruct (reach neqb es [C]) as [r| |] eqn:Er; try discriminate.
    destruct (reach_spec neqb neqb_spec es [C] r) as [_ Hr]; auto.
    { constructor; [intros []|constructor]. }
    apply negb_true_iff in Hac. apply (memb_false neqb neqb_spec) in Hac. apply Hac. apply Hr.
    rewrite HA.
    assert (Hreach : forall X Y, clos_refl_trans N LC X Y -> reachable es [C] X -> reachable es [C] Y).
    { intros X Y HXY. induction HXY as [X Y HLC|X|X Y Z _ IH1 _ IH2]; auto.
      intros HX. eapply reach_step with (p := edge X Y); [now apply Hedge|exact HX|now left]. }
    apply (Hreach C A Hlc). constructor. now left.
  Qed.

  (** * cycles: A =>+ A *)
  Definition UC (C D : N) : Prop :=
    exists p β γ, In p P /\ head p = C /\ body p = β ++ Nt D :: γ /\ nullstr β /\ nullstr γ.

  Lemma uc_track n : forall u B, derivesN G n u [Nt B] ->
    exists pre C post, u = pre ++ Nt C :: post /\ nullstr pre /\ nullstr post /\ clos_refl_trans N UC C B.
  Proof.
    induction n as [|n IH]; intros u B H.
    - inversion H; subst. exists [], B, []. repeat split; try apply nullstr_nil. apply rt_refl.
    - inversion H as [|n' a b c Hst Hrest]; subst.
      destruct Hst as [x y p Hp].
      destruct (IH _ _ Hrest) as (pre1 & C1 & post1 & Hu1 & Hn1 & Hn2 & Huc).
      apply app_eq_mid in Hu1. destruct Hu1 as [(x2 & -> & Hpost)|(m1 & -> & Hm)].
      + (* inside x *)
        rewrite Hpost in Hn2. apply nullstr_app in Hn2. destruct Hn2 as [Hx2 Hby].
        apply nullstr_app in Hby. destruct Hby as [Hb Hy].
        exists pre1, C1, (x2 ++ Nt (head p) :: y). rewrite <- app_assoc. simpl.
        split; [reflexivity|]. split; auto. split; auto.
        apply nullstr_app. split; auto.
        change (Nt (head p) :: y) with ([Nt (head p)] ++ y). apply nullstr_app. split; auto. now apply nullstr_nt.
      + apply nullstr_app in Hn1. destruct Hn1 as [Hx Hm1].
        apply app_eq_mid in Hm. destruct Hm as [(b2 & Hb & Hpost)|(y1 & -> & Hy)].
        * (* inside the body of p *)
          rewrite Hpost in Hn2. apply nullstr_app in Hn2. destruct Hn2 as [Hb2 Hy].
          exists x, (head p), y. repeat split; auto.
          eapply rt_trans; [apply rt_step|exact Huc].
          exists p, m1, b2. auto 6.
        * (* inside y *)
          apply nullstr_app in Hm1. destruct Hm1 as [Hb Hy1].
          exists (x ++ Nt (head p) :: y1), C1, post1. rewrite Hy. rewrite <- app_assoc. simpl.
          split; [reflexivity|]. split; auto.
          apply nullstr_app. split; auto.
          change (Nt (head p) :: y1) with ([Nt (head p)] ++ y1). apply nullstr_app. split; auto.
          now apply nullstr_nt.
  Qed.

  Lemma all_nullable_app nl (a b : list sym) :
    all_nullable neqb nl (a ++ b) = all_nullable neqb nl a && all_nullable neqb nl b.
  Proof. unfold all_nullable. apply forallb_app. Qed.

  Lemma In_unit_edges nl A : forall (β pre0 : list sym) D γ,
    all_nullable neqb nl (pre0 ++ β) = true -> all_nullable neqb nl γ = true ->
    In (edge A D) (unit_edges_body neqb nl A pre0 (β ++ Nt D :: γ)).
  Proof.
    induction β as [|s β IH]; simpl; intros pre0 D γ H1 H2.
    - rewrite app_nil_r in H1. rewrite H1, H2. simpl. now left.
    - apply in_or_app. right. apply IH; auto. now rewrite <- app_assoc.
  Qed.

  Theorem no_cycle_sound : no_cycle neqb G = true -> forall A n, ~ derivesN G (S n) [Nt A] [Nt A].
  Proof.
    unfold no_cycle. fold P.
    destruct (nullable neqb P) as [nl| |] eqn:En; try discriminate.
    destruct (nullable_spec neqb neqb_spec _ _ En) as [_ Hnl].
    set (es := flat_map (fun p => unit_edges_body neqb nl (head p) [] (body p)) P).
    intros Hac A n H.
    inversion H as [|n' a b c Hst Hrest]; subst.
    inversion Hst as [x y p Hp Hx Hb]. destruct x as [|s x]; simpl in Hx.
    2:{ destruct x; discriminate. }
    inversion Hx as [[HA Hy]]. subst y. rewrite app_nil_r in *. simpl in *.
    destruct (uc_track _ _ _ Hrest) as (pre & C & post & Hbody & Hpre & Hpost & Huc).
    assert (Hedge : forall X Y, UC X Y -> In (edge X Y) es).
    { intros X Y (q & β & γ & Hq & Hh & Hbq & Hβ & Hγ). unfold es. apply in_flat_map. exists q. split; auto.
      rewrite Hbq, Hh. apply In_unit_edges; simpl; now apply all_nullable_of_nullstr. }
    assert (HAC : In (edge (head p) C) es).
    { apply Hedge. exists p, pre, post. split; [exact Hp|]. split; [reflexivity|]. split; [now rewrite Hb|auto]. }
    unfold acyclic in Hac. rewrite forallb_forall in Hac. specialize (Hac _ HAC). simpl in Hac.
    destruct (reach neqb es [C]) as [r| |] eqn:Er; try discriminate.
    destruct (reach_spec neqb neqb_spec es [C] r) as [_ Hr]; auto.
    { constructor; [intros []|constructor]. }
    apply negb_true_iff in Hac. apply (memb_false neqb neqb_spec) in Hac. apply Hac. apply Hr.
    rewrite HA.
    assert (Hreach : forall X Y, clos_refl_trans N UC X Y -> reachable es [C] X -> reachable es [C] Y).
    { intros X Y HXY. induction HXY as [X Y HLC|X|X Y Z _ IH1 _ IH2]; auto.
      intros HX. eapply reach_step with (p := edge X Y); [now apply Hedge|exact HX|now left]. }
    apply (Hreach C A Huc). constructor. now left.
  Qed.

  (** * completeness: the checkers answer true whenever the semantic property holds *)
  Lemma forallb_false_exists {A} (f : A -> bool) l : forallb f l = false -> exists x, In x l /\ f x = false.
  Proof.
    induction l as [|x l IH]; simpl; [discriminate|]. intros H. apply andb_false_iff in H.
    destruct H as [H|H]; [exists x; auto|]. destruct (IH H) as (y & Hy & Hf). exists y. auto.
  Qed.

  Lemma nullstr_derives (u : list sym) : nullstr u -> derives G u [].
  Proof. intros H. apply (proj2 (gen_derives G)) in H. exact H. Qed.

  Lemma all_nullable_nullstr nl (u : list sym) : (forall A, In A nl <-> gen P (Nt A) []) ->
    all_nullable neqb nl u = true -> nullstr u.
  Proof. intros Hnl H. eapply all_nullable_gens; eauto. intros A HA. now apply Hnl. Qed.

  Lemma step_prod p : In p P -> derivesN G 1 [Nt (head p)] (body p).
  Proof.
    intros Hp. econstructor; [|constructor].
    pose proof (step_intro G [] [] p Hp) as H. simpl in H. now rewrite app_nil_r in H.
  Qed.

  Lemma LC_derives X Y : LC X Y -> exists γ n, derivesN G (S n) [Nt X] (Nt Y :: γ).
  Proof.
    intros (p & β & γ & Hp & Hh & Hb & Hβ). exists γ.
    assert (Hd : derives G (body p) (Nt Y :: γ)).
    { rewrite Hb. change (Nt Y :: γ) with ([] ++ Nt Y :: γ). apply derives_app; [now apply nullstr_derives|apply derives_refl]. }
    apply derives_derivesN in Hd. destruct Hd as [n Hd]. exists n.
    rewrite <- Hh. change (S n) with (1 + n). eapply derivesN_trans; [apply step_prod; auto|exact Hd].
  Qed.

  Lemma LCstar_derives X Y : clos_refl_trans N LC X Y -> exists γ, derives G [Nt X] (Nt Y :: γ).
  Proof.
    intros H. induction H as [X Y HLC|X|X Y Z _ [γ1 IH1] _ [γ2 IH2]].
    - destruct (LC_derives X Y HLC) as (γ & n & Hd). exists γ. eapply derivesN_derives; eauto.
    - exists []. apply derives_refl.
    - exists (γ2 ++ γ1). eapply derives_trans; [exact IH1|].
      change (Nt Y :: γ1) with ([Nt Y] ++ γ1). change (Nt Z :: γ2 ++ γ1) with ((Nt Z :: γ2) ++ γ1).
      apply derives_app; [exact IH2|apply derives_refl].
  Qed.

  Lemma In_left_edges_inv nl A : forall (b : list sym) e, In e (left_edges_body neqb nl A b) ->
    exists β D γ, b = β ++ Nt D :: γ /\ all_nullable neqb nl β = true /\ e = edge A D.
  Proof.
    induction b as [|[a|B] b IH]; simpl; intros e He; try destruct He.
    - exists [], B, b. auto.
    - destruct (mem_n neqb B nl) eqn:Em; [|destruct H].
      destruct (IH e H) as (β & D & γ & -> & Hn & ->). exists (Nt B :: β), D, γ. simpl. rewrite Em, Hn. auto.
  Qed.

  Theorem no_left_recursion_complete :
    (forall A α n, ~ derivesN G (S n) [Nt A] (Nt A :: α)) -> no_left_recursion neqb G = true.
  Proof.
    intros Hsem. unfold no_left_recursion. fold P.
    destruct (nullable_total neqb neqb_spec P) as [nl Hn]. rewrite Hn.
    destruct (nullable_spec neqb neqb_spec _ _ Hn) as [_ Hnl].
    set (es := flat_map (fun p => left_edges_body neqb nl (head p) (body p)) P).
    destruct (acyclic neqb es) eqn:Eac; auto. exfalso.
    assert (Hes : forall e, In e es -> exists X Y, e = edge X Y /\ LC X Y).
    { intros e He. apply in_flat_map in He. destruct He as (p & Hp & He).
      apply In_left_edges_inv in He. destruct He as (β & D & γ & Hb & Hn' & ->).
      exists (head p), D. split; auto. exists p, β, γ. repeat split; auto. eapply all_nullable_nullstr; eauto. }
    unfold acyclic in Eac. apply forallb_false_exists in Eac. destruct Eac as (e & He & Hf).
    destruct (Hes e He) as (X & Y & -> & HLC). simpl in Hf.
    destruct (reach_total neqb neqb_spec es [Y]) as [r Hr].
    { constructor; [intros []|constructor]. } { simpl; lia. }
    rewrite Hr in Hf.
    destruct (reach_spec neqb neqb_spec es [Y] r) as [_ Hspec]; auto.
    { constructor; [intros []|constructor]. }
    apply negb_false_iff in Hf. apply (mem_n_In neqb neqb_spec) in Hf. apply Hspec in Hf.
    assert (Hpath : forall Z, reachable es [Y] Z -> clos_refl_trans N LC Y Z).
    { intros Z HZ. induction HZ as [Z HZ|p Z Hp _ IH HZ].
      - destruct HZ as [<-|[]]. apply rt_refl.
      - destruct (Hes p Hp) as (X' & Y' & -> & HLC'). simpl in *. destruct HZ as [HZ|[]]. inversion HZ; subst.
        eapply rt_trans; [exact IH|now apply rt_step]. }
    destruct (LC_derives X Y HLC) as (γ0 & n & Hd0).
    destruct (LCstar_derives Y X (Hpath X Hf)) as (γ1 & Hd1).
    assert (Hd2 : derives G (Nt Y :: γ0) (Nt X :: γ1 ++ γ0)).
    { change (Nt Y :: γ0) with ([Nt Y] ++ γ0). change (Nt X :: γ1 ++ γ0) with ((Nt X :: γ1) ++ γ0).
      apply derives_app; [exact Hd1|apply derives_refl]. }
    apply derives_derivesN in Hd2. destruct Hd2 as [m Hd2].
    apply (Hsem X (γ1 ++ γ0) (n + m)). change (S (n + m)) with (S n + m). eapply derivesN_trans; eauto.
  Qed.

  Lemma UC_derives X Y : UC X Y -> exists n, derivesN G (S n) [Nt X] [Nt Y].
  Proof.
    intros (p & β & γ & Hp & Hh & Hb & Hβ & Hγ).
    assert (Hd : derives G (body p) [Nt Y]).
    { rewrite Hb. change [Nt Y] with ([] ++ [Nt Y] ++ (@nil sym)). change (Nt Y :: γ) with ([Nt Y] ++ γ).
      apply derives_app; [now apply nullstr_derives|]. apply derives_app; [apply derives_refl|now apply nullstr_derives]. }
    apply derives_derivesN in Hd. destruct Hd as [n Hd]. exists n.
    rewrite <- Hh. change (S n) with (1 + n). eapply derivesN_trans; [apply step_prod; auto|exact Hd].
  Qed.

  Lemma UCstar_derives X Y : clos_refl_trans N UC X Y -> derives G [Nt X] [Nt Y].
  Proof.
    intros H. induction H as [X Y HUC|X|X Y Z _ IH1 _ IH2].
    - destruct (UC_derives X Y HUC) as (n & Hd). eapply derivesN_derives; eauto.
    - apply derives_refl.
    - eapply derives_trans; eauto.
  Qed.

  Lemma In_unit_edges_inv nl A : forall (post pre : list sym) e, In e (unit_edges_body neqb nl A pre post) ->
    exists β D γ, post = β ++ Nt D :: γ /\ all_nullable neqb nl (pre ++ β) = true /\
                  all_nullable neqb nl γ = true /\ e = edge A D.
  Proof.
    induction post as [|s post IH]; simpl; intros pre e He; [destruct He|].
    apply in_app_iff in He. destruct He as [He|He].
    - destruct s as [a|B]; [destruct He|].
      destruct (all_nullable neqb nl pre && all_nullable neqb nl post) eqn:E; [|destruct He].
      destruct He as [<-|[]]. apply andb_true_iff in E. destruct E as [E1 E2].
      exists [], B, post. rewrite app_nil_r. auto.
    - destruct (IH _ _ He) as (β & D & γ & -> & H1 & H2 & ->). exists (s :: β), D, γ.
      rewrite <- app_assoc in H1. simpl in H1. auto.
  Qed.

  Theorem no_cycle_complete : (forall A n, ~ derivesN G (S n) [Nt A] [Nt A]) -> no_cycle neqb G = true.
  Proof.
    intros Hsem. unfold no_cycle. fold P.
    destruct (nullable_total neqb neqb_spec P) as [nl Hn]. rewrite Hn.
    destruct (nullable_spec neqb neqb_spec _ _ Hn) as [_ Hnl].
    set (es := flat_map (fun p => unit_edges_body neqb nl (head p) [] (body p)) P).
    destruct (acyclic neqb es) eqn:Eac; auto. exfalso.
    assert (Hes : forall e, In e es -> exists X Y, e = edge X Y /\ UC X Y).
    { intros e He. apply in_flat_map in He. destruct He as (p & Hp & He).
      apply In_unit_edges_inv in He. destruct He as (β & D & γ & Hb & Hn1 & Hn2 & ->). simpl in Hn1.
      exists (head p), D. split; auto. exists p, β, γ. repeat split; auto; eapply all_nullable_nullstr; eauto. }
    unfold acyclic in Eac. apply forallb_false_exists in Eac. destruct Eac as (e & He & Hf).
    destruct (Hes e He) as (X & Y & -> & HUC). simpl in Hf.
    destruct (reach_total neqb neqb_spec es [Y]) as [r Hr].
    { constructor; [intros []|constructor]. } { simpl; lia. }
    rewrite Hr in Hf.
    destruct (reach_spec neqb neqb_spec es [Y] r) as [_ Hspec]; auto.
    { constructor; [intros []|constructor]. }
    apply negb_false_iff in Hf. apply (mem_n_In neqb neqb_spec) in Hf. apply Hspec in Hf.
    assert (Hpath : forall Z, reachable es [Y] Z -> clos_refl_trans N UC Y Z).
    { intros Z HZ. induction HZ as [Z HZ|p Z Hp _ IH HZ].
      - destruct HZ as [<-|[]]. apply rt_refl.
      - destruct (Hes p Hp) as (X' & Y' & -> & HUC'). simpl in *. destruct HZ as [HZ|[]]. inversion HZ; subst.
        eapply rt_trans; [exact IH|now apply rt_step]. }
    destruct (UC_derives X Y HUC) as (n & Hd0).
    pose proof (UCstar_derives Y X (Hpath X Hf)) as Hd1.
    apply derives_derivesN in Hd1. destruct Hd1 as [m Hd1].
    apply (Hsem X (n + m)). change (S (n + m)) with (S n + m). eapply derivesN_trans; eauto.
  Qed.
End LRSound.
