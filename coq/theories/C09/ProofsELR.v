(** C09 — EliminateLeftRecursion leaves no left recursion: the checker [no_left_recursion]
    (left-corner graph with nullable skipping is acyclic) holds of the model's result, for every
    order that enumerates the non-terminals of the cycle-free grammar exactly once.

    Invariants of the loop over the ordered non-terminals A_0 .. A_n ([earlier] = processed):
    ε-productions only for primed non-terminals and for a start symbol that occurs in no body;
    no unit production with an original head; the first symbol of a body is never a primed
    non-terminal, nor is the second one after a non-terminal (original heads); and for a
    processed head A_i every body starts with a terminal, with an A_j later in the order, or with
    a non-terminal that has no production at all (the nil guards of fix D08b). *)
From Coq Require Import List Bool Arith Lia.
From Algo.Grammar Require Import CFG.
From Algo.C08 Require Import Model Spec ProofsBase ProofsLang1 ProofsLang2 ProofsLang3 ProofsLang4 ProofsLF ProofsELR.
From Algo.C09 Require Import Model Proofs ProofsCNF ProofsCycles.
Import ListNotations.

Section ELRPost.
  Context {T N : Type}.
  Variable teqb : T -> T -> bool.
  Variable neqb : N -> N -> bool.
  Variable fresh : skind -> list N -> N -> option N.
  Hypothesis teqb_spec : forall x y, teqb x y = true <-> x = y.
  Hypothesis neqb_spec : forall x y, neqb x y = true <-> x = y.
  Hypothesis fresh_spec : forall k nts b x, fresh k nts b = Some x -> ~ In x nts.

  Notation sym := (symbol T N).
  Notation prod := (production T N).
  Notation gram := (grammar T N).

  (** * acyclicity from a rank function *)
  Lemma acyclic_of_rank (es : list prod) (r : N -> nat) :
    (forall e, In e es -> exists B, body e = [Nt B] /\ r (head e) < r B) ->
    acyclic neqb es = true.
  Proof.
    intros Hr. unfold acyclic. apply forallb_forall. intros e He.
    destruct (Hr e He) as (B & Hb & Hlt). rewrite Hb. simpl.
    destruct (reach_total neqb neqb_spec es [B]) as [rs Hrs].
    { constructor; [intros []|constructor]. } { simpl; lia. }
    rewrite Hrs.
    destruct (reach_spec neqb neqb_spec es [B] rs) as [_ Hspec]; auto.
    { constructor; [intros []|constructor]. }
    apply negb_true_iff. apply (memb_false neqb neqb_spec). intros Hin. apply Hspec in Hin.
    assert (Hmono : forall C, reachable es [B] C -> r B <= r C).
    { intros C HC. induction HC as [C HC|p C Hp _ IH HC].
      - destruct HC as [<-|[]]. lia.
      - destruct (Hr p Hp) as (B' & Hb' & Hlt'). rewrite Hb' in HC. destruct HC as [HC|[]]. inversion HC; subst. lia. }
    specialize (Hmono _ Hin). lia.
  Qed.

  (** * position in the order *)
  Fixpoint idx (l : list N) (A : N) : nat :=
    match l with [] => 0 | x :: l' => if neqb A x then 0 else S (idx l' A) end.

  Lemma idx_lt l A : In A l -> idx l A < length l.
  Proof.
    induction l as [|x l IH]; simpl; [intros []|]. intros H.
    destruct (neqb A x) eqn:E; [lia|]. destruct H as [->|H]; [|specialize (IH H); lia].
    rewrite (proj2 (neqb_spec _ _) eq_refl) in E. discriminate.
  Qed.

  Lemma idx_app_l l1 l2 A : In A l1 -> idx (l1 ++ l2) A = idx l1 A.
  Proof.
    induction l1 as [|x l1 IH]; simpl; [intros []|]. intros H.
    destruct (neqb A x) eqn:E; auto. destruct H as [->|H]; [|now rewrite IH].
    rewrite (proj2 (neqb_spec _ _) eq_refl) in E. discriminate.
  Qed.

  Lemma idx_app_r l1 l2 A : ~ In A l1 -> idx (l1 ++ l2) A = length l1 + idx l2 A.
  Proof.
    induction l1 as [|x l1 IH]; simpl; auto. intros H.
    destruct (neqb A x) eqn:E; [apply neqb_spec in E; subst; exfalso; apply H; now left|].
    rewrite IH; auto.
  Qed.

  Lemma idx_mid l1 A l2 : ~ In A l1 -> idx (l1 ++ A :: l2) A = length l1.
  Proof. intros H. rewrite idx_app_r; auto. simpl. rewrite (proj2 (neqb_spec _ _) eq_refl). lia. Qed.

  Lemma NoDup_app_disj {A} (l1 l2 : list A) x : NoDup (l1 ++ l2) -> In x l1 -> In x l2 -> False.
  Proof.
    induction l1 as [|y l1 IH]; simpl; intros Hnd H1 H2; [destruct H1|].
    inversion Hnd as [|? ? Hy Hnd']; subst. destruct H1 as [->|H1]; [|eauto].
    apply Hy. apply in_or_app. now right.
  Qed.

  Lemma idx_after l1 A l2 B : NoDup (l1 ++ A :: l2) -> In B l2 -> length l1 < idx (l1 ++ A :: l2) B.
  Proof.
    intros Hnd HB.
    assert (HB1 : ~ In B l1) by (intros H; eapply NoDup_app_disj; eauto; now right).
    assert (HBA : B <> A).
    { intros ->. apply NoDup_remove_2 in Hnd. apply Hnd. apply in_or_app. now right. }
    rewrite idx_app_r; auto. simpl. destruct (neqb B A) eqn:E; [apply neqb_spec in E; congruence|]. lia.
  Qed.

  Lemma idx_before l1 A l2 B : In B l1 -> idx (l1 ++ A :: l2) B < length l1.
  Proof. intros HB. rewrite idx_app_l; auto. now apply idx_lt. Qed.

  (** * the invariants *)
  Section Inv.
    Variable nts1 : list N.        (* the non-terminals of the cycle-free grammar ("original") *)
    Variable start1 : N.
    Variable epsS : Prop.          (* the start symbol has an ε-production *)
    Variable ord : list N.
    Hypothesis ord_nodup : NoDup ord.
    Hypothesis ord_complete : forall A, In A nts1 <-> In A ord.
    Hypothesis start_orig : In start1 nts1.

    Definition orig (B : N) : Prop := In B nts1.
    Definition firstNT (q : prod) (B : N) : Prop := exists rest, body q = Nt B :: rest.

    (** per-production invariants *)
    Record Jp (q : prod) : Prop := {
      j_eps : body q = [] -> ~ orig (head q) \/ (head q = start1 /\ epsS);
      j_start : epsS -> ~ In (Nt start1) (body q);
      j_unit : orig (head q) -> forall B, body q <> [Nt B];
      j_first : forall B, firstNT q B -> orig B;
      j_second : orig (head q) -> forall B C rest, body q = Nt B :: Nt C :: rest -> orig C
    }.

    (** rank condition of a processed head *)
    Definition rankok (ps : list prod) (q : prod) : Prop :=
      forall B, firstNT q B -> idx ord (head q) < idx ord B \/ get neqb B ps = [].

    Lemma Jp_nonempty_orig q : Jp q -> orig (head q) -> head q <> start1 \/ ~ epsS -> body q <> [].
    Proof.
      intros HJ Ho Hs Hb. destruct (j_eps q HJ Hb) as [H|[H1 H2]]; [contradiction|]. destruct Hs; contradiction.
    Qed.

    (** the body of a production that is substituted into a body starting with its head is not
        empty *)
    Lemma subst_body_nonempty p r Aj γ : Jp p -> Jp r -> orig Aj -> head r = Aj -> body p = Nt Aj :: γ -> body r <> [].
    Proof.
      intros Hp Hr Ho Hh Hb. apply (Jp_nonempty_orig r Hr); [now rewrite Hh|].
      destruct (neqb (head r) start1) eqn:E.
      - apply neqb_spec in E. right. intros He. apply (j_start p Hp He). rewrite Hb, <- Hh, E. now left.
      - left. intros H. rewrite H, (proj2 (neqb_spec _ _) eq_refl) in E. discriminate.
    Qed.

    Lemma Jp_subst p r Ai Aj γ : Jp p -> Jp r -> orig Ai -> orig Aj -> head r = Aj -> body p = Nt Aj :: γ ->
      Jp (mkProd Ai (body r ++ γ)).
    Proof.
      intros Hp Hr HAi HAj Hh Hb.
      assert (Hne : body r <> []) by (apply (subst_body_nonempty p r Aj γ); auto).
      destruct (body r) as [|s δ] eqn:Eδ; [congruence|].
      split; simpl.
      - discriminate.
      - intros He Hin. destruct Hin as [Hin|Hin].
        + apply (j_start r Hr He). rewrite Eδ. now left.
        + apply in_app_iff in Hin. destruct Hin as [Hin|Hin].
          * apply (j_start r Hr He). rewrite Eδ. now right.
          * apply (j_start p Hp He). rewrite Hb. now right.
      - intros _ B HB. destruct δ as [|s2 δ]; simpl in HB.
        + destruct γ as [|g γ]; [|discriminate]. inversion HB as [Hs]. subst s.
          apply (j_unit r Hr) with (B := B); [now rewrite Hh|exact Eδ].
        + discriminate.
      - intros B (rest & HB). inversion HB as [[Hs Hrest]]. subst s. apply (j_first r Hr). exists δ. exact Eδ.
      - intros _ B C rest HB. inversion HB as [[Hs HB']]; subst s.
        destruct δ as [|s2 δ]; simpl in HB'.
        + exfalso. apply (j_unit r Hr) with (B := B); [now rewrite Hh|exact Eδ].
        + inversion HB' as [[Hs2 Hrest]]. subst s2. apply (j_second r Hr) with (B := B) (rest := δ); [now rewrite Hh|exact Eδ].
    Qed.

    Lemma rankok_subst (ps : list prod) p r Ai Aj γ : Jp p -> Jp r -> orig Aj -> head r = Aj -> body p = Nt Aj :: γ ->
      forall B, firstNT (mkProd Ai (body r ++ γ)) B -> firstNT r B.
    Proof.
      intros Hp Hr HAj Hh Hb B (rest & HB). simpl in HB.
      assert (Hne : body r <> []) by (apply (subst_body_nonempty p r Aj γ); auto).
      destruct (body r) as [|s δ] eqn:Eδ; [congruence|]. inversion HB as [[Hs Hrest]]. subst s. now exists δ.
    Qed.
    (** ** the substitution loop as a set *)
    Lemma subst_prods_char Ai Aj (aj : list prod) : forall aiaj ps,
      (forall p, In p aiaj -> starts_with teqb neqb Aj p = true) ->
      (forall p r, In p aiaj -> In r aj -> starts_with teqb neqb Aj (mkProd Ai (body r ++ tl (body p))) = false) ->
      forall q, In q (subst_prods teqb neqb Ai aiaj aj ps) <->
        (In q ps /\ ~ In q aiaj) \/ (exists p r, In p aiaj /\ In r aj /\ q = mkProd Ai (body r ++ tl (body p))).
    Proof.
      induction aiaj as [|p aiaj IH]; simpl; intros ps Hst Hnew q.
      - split; [intros H; left; split; auto|]. intros [[H _]|(p & r & [] & _)]; auto.
      - rewrite IH; [|intros; apply Hst; now right|intros; apply Hnew; auto].
        rewrite In_add_ps, in_map_iff, (In_remove_p teqb neqb teqb_spec neqb_spec); auto. split.
        + intros [[[(r & <- & Hr)|[Hq Hne]] Hni]|(p' & r & Hp' & Hr & ->)].
          * right. exists p, r. auto.
          * left. split; auto. intros [E|Hin]; [congruence|contradiction].
          * right. exists p', r. auto.
        + intros [[Hq Hni]|(p' & r & [<-|Hp'] & Hr & ->)].
          * left. split; [right; split; auto; intros ->; apply Hni; now left|]. intros H. apply Hni. now right.
          * left. split; [left; exists r; auto|].
            intros Hin. specialize (Hst _ (or_intror Hin)). rewrite (Hnew p r (or_introl eq_refl) Hr) in Hst. discriminate.
          * right. exists p', r. auto.
    Qed.

    (** ** state of step i: [handled] is the part of [earlier] already substituted into A_i *)
    Record Si (earlier handled : list N) (Ai : N) (ps : list prod) : Prop := {
      si_jp : forall q, In q ps -> Jp q;
      si_rank : forall q, In q ps -> In (head q) earlier -> rankok ps q;
      si_k : forall q, In q ps -> head q = Ai -> forall B, firstNT q B -> ~ In B handled \/ get neqb B ps = []
    }.

    Lemma starts_with_firstNT Aj (q : prod) : starts_with teqb neqb Aj q = true <-> firstNT q Aj.
    Proof. apply (starts_with_spec teqb neqb teqb_spec neqb_spec). Qed.

    Lemma elr_subst_Si earlier handled rest Ai Aj todo ps :
      earlier = handled ++ Aj :: rest -> ord = earlier ++ Ai :: todo ->
      Si earlier handled Ai ps -> Si earlier (handled ++ [Aj]) Ai (elr_subst teqb neqb Ai Aj ps).
    Proof.
      intros Hearlier Hord [Hjp Hrank Hk].
      assert (HAj_e : In Aj earlier) by (rewrite Hearlier; apply in_or_app; right; now left).
      assert (HAi_ne : ~ In Ai earlier).
      { rewrite Hord in ord_nodup. apply NoDup_remove_2 in ord_nodup. intros H. apply ord_nodup. apply in_or_app. now left. }
      assert (HoAi : orig Ai) by (apply ord_complete; rewrite Hord; apply in_or_app; right; now left).
      assert (HoAj : orig Aj) by (apply ord_complete; rewrite Hord; apply in_or_app; now left).
      assert (Hord' : ord = handled ++ Aj :: (rest ++ Ai :: todo)).
      { rewrite Hord, Hearlier, <- app_assoc. reflexivity. }
      assert (HnAj : ~ In Aj handled).
      { pose proof ord_nodup as Hnd. rewrite Hord' in Hnd. apply NoDup_remove_2 in Hnd.
        intros H. apply Hnd. apply in_or_app. now left. }
      assert (Hidx : forall B, In B (handled ++ [Aj]) -> idx ord B <= idx ord Aj).
      { intros B HB. rewrite Hord'. rewrite (idx_mid handled Aj); auto.
        apply in_app_iff in HB. destruct HB as [HB|[<-|[]]].
        - pose proof (idx_before handled Aj (rest ++ Ai :: todo) B HB). lia.
        - rewrite idx_mid; auto. }
      unfold elr_subst.
      destruct (get neqb Ai ps) as [|a ai] eqn:Ea.
      { split; auto. intros q Hq Hh. exfalso.
        assert (In q (get neqb Ai ps)) by (apply (In_get neqb neqb_spec); auto). rewrite Ea in H. destruct H. }
      destruct (get neqb Aj ps) as [|b aj] eqn:Eb.
      { split; auto. intros q Hq Hh B HB.
        destruct (neqb B Aj) eqn:E.
        - apply neqb_spec in E. subst B. now right.
        - destruct (Hk q Hq Hh B HB) as [H|H]; auto. left. intros Hin. apply in_app_iff in Hin.
          destruct Hin as [Hin|[Hin|[]]]; [contradiction|]. subst. rewrite (proj2 (neqb_spec _ _) eq_refl) in E. discriminate. }
      set (aiaj := filter (starts_with teqb neqb Aj) (a :: ai)).
      assert (Haiaj : forall p, In p aiaj <-> In p ps /\ head p = Ai /\ firstNT p Aj).
      { intros p. unfold aiaj. rewrite filter_In, <- Ea, (In_get neqb neqb_spec), starts_with_firstNT. tauto. }
      assert (Haj : forall r, In r (b :: aj) <-> In r ps /\ head r = Aj).
      { intros r. rewrite <- Eb. apply (In_get neqb neqb_spec). }
      assert (HajNE : get neqb Aj ps <> []) by (rewrite Eb; discriminate).
      assert (Hnew : forall p r, In p aiaj -> In r (b :: aj) ->
                starts_with teqb neqb Aj (mkProd Ai (body r ++ tl (body p))) = false).
      { intros p r Hp Hr. apply Haiaj in Hp. destruct Hp as (Hp & Hph & (γ & Hpb)). apply Haj in Hr. destruct Hr as [Hr Hrh].
        destruct (starts_with teqb neqb Aj (mkProd Ai (body r ++ tl (body p)))) eqn:E; auto. exfalso.
        apply starts_with_firstNT in E. rewrite Hpb in E. simpl in E.
        apply (rankok_subst ps p r Ai Aj γ (Hjp p Hp) (Hjp r Hr) HoAj Hrh Hpb) in E.
        assert (Hre : In (head r) earlier) by (now rewrite Hrh).
        destruct (Hrank r Hr Hre Aj E) as [H|H]; [rewrite Hrh in H; lia|contradiction]. }
      assert (Hst : forall p, In p aiaj -> starts_with teqb neqb Aj p = true).
      { intros p Hp. apply filter_In in Hp. apply Hp. }
      assert (Hchar := subst_prods_char Ai Aj (b :: aj) aiaj ps Hst Hnew).
      assert (Hstable : forall B, get neqb B ps = [] -> get neqb B (subst_prods teqb neqb Ai aiaj (b :: aj) ps) = []).
      { intros B HB. destruct (get neqb B (subst_prods teqb neqb Ai aiaj (b :: aj) ps)) as [|q l] eqn:E; auto. exfalso.
        assert (Hq : In q (get neqb B (subst_prods teqb neqb Ai aiaj (b :: aj) ps))) by (rewrite E; now left).
        apply (In_get neqb neqb_spec) in Hq. destruct Hq as [Hq Hh]. apply Hchar in Hq.
        destruct Hq as [[Hq _]|(p & r & _ & _ & ->)].
        - assert (In q (get neqb B ps)) by (apply (In_get neqb neqb_spec); auto). rewrite HB in H. destruct H.
        - simpl in Hh. subst B. rewrite Ea in HB. discriminate. }
      split.
      - intros q Hq. apply Hchar in Hq. destruct Hq as [[Hq _]|(p & r & Hp & Hr & ->)]; auto.
        apply Haiaj in Hp. destruct Hp as (Hp & Hph & (γ & Hpb)). apply Haj in Hr. destruct Hr as [Hr Hrh].
        rewrite Hpb. simpl. apply (Jp_subst p r Ai Aj γ); auto.
      - intros q Hq Hh. apply Hchar in Hq. destruct Hq as [[Hq _]|(p & r & _ & _ & ->)].
        + intros B HB. destruct (Hrank q Hq Hh B HB) as [H|H]; auto.
        + simpl in Hh. contradiction.
      - intros q Hq Hh B HB. apply Hchar in Hq. destruct Hq as [[Hq Hni]|(p & r & Hp & Hr & ->)].
        + destruct (Hk q Hq Hh B HB) as [H|H]; auto. left. intros Hin. apply in_app_iff in Hin.
          destruct Hin as [Hin|[Hin|[]]]; [contradiction|]. subst B.
          apply Hni. apply Haiaj. auto.
        + apply Haiaj in Hp. destruct Hp as (Hp & Hph & (γ & Hpb)). apply Haj in Hr. destruct Hr as [Hr Hrh].
          rewrite Hpb in HB. simpl in HB.
          apply (rankok_subst ps p r Ai Aj γ (Hjp p Hp) (Hjp r Hr) HoAj Hrh Hpb) in HB.
          assert (Hre : In (head r) earlier) by (now rewrite Hrh).
          destruct (Hrank r Hr Hre B HB) as [H|H]; [|right; auto].
          left. intros Hin. apply Hidx in Hin. rewrite Hrh in H. lia.
    Qed.
    Lemma fold_subst_Si earlier Ai todo : ord = earlier ++ Ai :: todo ->
      forall rest handled ps, earlier = handled ++ rest -> Si earlier handled Ai ps ->
      Si earlier earlier Ai (fold_left (fun ps Aj => elr_subst teqb neqb Ai Aj ps) rest ps).
    Proof.
      intros Hord. induction rest as [|Aj rest IH]; intros handled ps He HS; simpl.
      - rewrite app_nil_r in He. now subst.
      - apply (IH (handled ++ [Aj])).
        + rewrite <- app_assoc. exact He.
        + eapply elr_subst_Si; eauto.
    Qed.

    (** loop invariant *)
    Definition LI (e : list N) (ps : list prod) : Prop :=
      (forall q, In q ps -> Jp q) /\ (forall q, In q ps -> In (head q) e -> rankok ps q).

    Lemma is_lr_firstNT (q : prod) : is_left_recursive teqb neqb q = true <-> firstNT q (head q).
    Proof. apply (is_left_recursive_spec teqb neqb teqb_spec neqb_spec). Qed.

    Lemma Jp_prime_eps A' : ~ orig A' -> Jp (mkProd A' []).
    Proof.
      intros H. split; simpl.
      - intros _. now left.
      - intros _ [].
      - intros Ho. contradiction.
      - intros B (rest & HB). discriminate.
      - intros Ho. contradiction.
    Qed.

    Lemma Jp_alpha p A A' α : Jp p -> head p = A -> orig A -> body p = Nt A :: α -> ~ orig A' -> Jp (mkProd A' (α ++ [Nt A'])).
    Proof.
      intros HJ Hh HoA Hb HA'.
      assert (HneS : A' <> start1) by (intros ->; contradiction).
      assert (Hα : α <> []) by (intros ->; apply (j_unit p HJ) with (B := A); [now rewrite Hh|exact Hb]).
      destruct α as [|s α']; [congruence|].
      split; simpl.
      - discriminate.
      - intros He [Hin|Hin].
        + apply (j_start p HJ He). rewrite Hb. right. now left.
        + apply in_app_iff in Hin. destruct Hin as [Hin|[Hin|[]]].
          * apply (j_start p HJ He). rewrite Hb. right. now right.
          * inversion Hin. congruence.
      - intros Ho. contradiction.
      - intros B (rest & HB). inversion HB as [[Hs Hrest]]. subst s.
        apply (j_second p HJ) with (B := A) (rest := α'); [now rewrite Hh|exact Hb].
      - intros Ho. contradiction.
    Qed.

    Lemma Jp_beta p A A' : Jp p -> head p = A -> orig A -> body p <> [] -> ~ orig A' -> Jp (mkProd A (body p ++ [Nt A'])).
    Proof.
      intros HJ Hh HoA Hne HA'.
      assert (HneS : A' <> start1) by (intros ->; contradiction).
      destruct (body p) as [|s β] eqn:Eb; [congruence|].
      split; simpl.
      - discriminate.
      - intros He [Hin|Hin].
        + apply (j_start p HJ He). rewrite Eb. now left.
        + apply in_app_iff in Hin. destruct Hin as [Hin|[Hin|[]]].
          * apply (j_start p HJ He). rewrite Eb. now right.
          * inversion Hin. congruence.
      - intros _ B HB. destruct β; discriminate.
      - intros B (rest & HB). inversion HB as [[Hs Hrest]]. subst s. apply (j_first p HJ). now exists β.
      - intros _ B C rest HB. inversion HB as [[Hs HB']]. subst s.
        destruct β as [|s2 β']; simpl in HB'.
        + exfalso. apply (j_unit p HJ) with (B := B); [now rewrite Hh|exact Eb].
        + inversion HB' as [[Hs2 Hrest]]. subst s2. apply (j_second p HJ) with (B := B) (rest := β'); [now rewrite Hh|exact Eb].
    Qed.

    Lemma elr_immediate_LI earlier Ai todo nts ps : ord = earlier ++ Ai :: todo ->
      incl nts1 nts -> (forall q, In q ps -> In (head q) nts) -> Si earlier earlier Ai ps ->
      ok_or_names (elr_immediate teqb neqb fresh Ai (nts, ps))
        (fun st' => incl nts (fst st') /\ (forall q, In q (snd st') -> In (head q) (fst st')) /\
                    LI (earlier ++ [Ai]) (snd st')).
    Proof.
      intros Hord Hn1 Hheads [Hjp Hrank Hk].
      assert (HAi_ne : ~ In Ai earlier).
      { pose proof ord_nodup as Hnd. rewrite Hord in Hnd. apply NoDup_remove_2 in Hnd. intros H. apply Hnd. apply in_or_app. now left. }
      assert (HidxA : idx ord Ai = length earlier) by (rewrite Hord; apply idx_mid; auto).
      assert (Hlater : forall B, orig B -> ~ In B earlier -> B <> Ai -> idx ord Ai < idx ord B).
      { intros B HB Hne HneA. apply ord_complete in HB. rewrite Hord in HB. apply in_app_iff in HB.
        destruct HB as [HB|[HB|HB]]; [contradiction|congruence|].
        rewrite HidxA. rewrite Hord. apply idx_after; auto. now rewrite <- Hord. }
      unfold elr_immediate.
      destruct (existsb (is_left_recursive teqb neqb) (get neqb Ai ps)) eqn:Eex.
      2:{ simpl. split; [apply incl_refl|]. split; auto. split; auto.
          intros q Hq Hh B HB. apply in_app_iff in Hh. destruct Hh as [Hh|[Hh|[]]]; [now apply Hrank|].
          destruct (Hk q Hq (eq_sym Hh) B HB) as [H|H]; auto. left. rewrite <- Hh. apply Hlater; auto.
          - apply (j_first q (Hjp q Hq) B HB).
          - intros ->. assert (Hlr : is_left_recursive teqb neqb q = true) by (apply is_lr_firstNT; now rewrite <- Hh).
            assert (Hex : existsb (is_left_recursive teqb neqb) (get neqb Ai ps) = true).
            { apply existsb_exists. exists q. split; auto. apply (In_get neqb neqb_spec). auto. }
            congruence. }
      assert (HoA : orig Ai) by (apply ord_complete; rewrite Hord; apply in_or_app; right; now left).
      eapply ok_or_names_bind; [apply add_new_total; auto|].
      intros [A' nts'] [HA' Hn]. simpl in HA', Hn. subst nts'. simpl.
      set (aps := get neqb Ai ps).
      set (lr := filter (is_left_recursive teqb neqb) aps).
      set (nonlr := filter (fun p => negb (is_left_recursive teqb neqb p)) aps).
      match goal with |- _ /\ (forall q, In q ?X -> _) /\ _ => set (ps' := X) end.
      assert (Hps' : forall q, In q ps' <->
        q = mkProd A' [] \/ (exists p, In p lr /\ q = mkProd A' (tl (body p) ++ [Nt A'])) \/
        (exists p, In p nonlr /\ q = mkProd Ai (body p ++ [Nt A'])) \/ (In q ps /\ head q <> Ai)).
      { intros q. unfold ps'. rewrite In_add_p, !In_add_ps, !in_map_iff, (In_remove_head neqb neqb_spec); auto.
        split.
        - intros [->|[(p & <- & Hp)|[(p & <- & Hp)|H]]]; eauto 6.
        - intros [->|[(p & Hp & ->)|[(p & Hp & ->)|H]]]; eauto 6. }
      assert (Hlr : forall p, In p lr -> In p ps /\ head p = Ai /\ exists α, body p = Nt Ai :: α).
      { intros p Hp. apply filter_In in Hp. destruct Hp as [H1 H2]. apply (In_get neqb neqb_spec) in H1. destruct H1 as [H1 Hh].
        apply is_lr_firstNT in H2. rewrite Hh in H2. auto. }
      assert (Hnl : forall p, In p nonlr -> In p ps /\ head p = Ai /\ ~ firstNT p Ai).
      { intros p Hp. apply filter_In in Hp. destruct Hp as [H1 H2]. apply (In_get neqb neqb_spec) in H1. destruct H1 as [H1 Hh].
        repeat split; auto. intros H. apply negb_true_iff in H2. rewrite <- Hh in H. apply is_lr_firstNT in H. congruence. }
      assert (HpA' : ~ orig A') by (intros H; apply HA'; now apply Hn1).
      assert (HA'ne : A' <> start1 \/ True) by (now right).
      (* Ai is not an ε-start: it has a left-recursive production, which mentions Ai *)
      assert (HlrEx : exists p, In p lr).
      { apply existsb_exists in Eex. destruct Eex as (p & Hp & Hl). exists p. apply filter_In. auto. }
      assert (HnotEpsStart : Ai = start1 -> ~ epsS).
      { intros -> He. destruct HlrEx as (p & Hp). destruct (Hlr p Hp) as (Hpp & _ & (α & Hb)).
        apply (j_start p (Hjp p Hpp) He). rewrite Hb. now left. }
      assert (Hbeta : forall p, In p nonlr -> body p <> []).
      { intros p Hp. destruct (Hnl p Hp) as (Hpp & Hh & _). apply (Jp_nonempty_orig p (Hjp p Hpp)); [now rewrite Hh|].
        destruct (neqb Ai start1) eqn:E; [apply neqb_spec in E; right; auto|].
        left. rewrite Hh. intros ->. rewrite (proj2 (neqb_spec _ _) eq_refl) in E. discriminate. }
      assert (Hstable : forall B, orig B -> get neqb B ps = [] -> get neqb B ps' = []).
      { intros B HoB HB. destruct (get neqb B ps') as [|q l] eqn:E; auto. exfalso.
        assert (Hq : In q (get neqb B ps')) by (rewrite E; now left).
        apply (In_get neqb neqb_spec) in Hq. destruct Hq as [Hq Hh]. apply Hps' in Hq.
        destruct Hq as [->|[(p & Hp & ->)|[(p & Hp & ->)|[Hq _]]]]; simpl in Hh.
        - subst B. contradiction.
        - subst B. contradiction.
        - subst B. destruct HlrEx as (p0 & Hp0). destruct (Hlr p0 Hp0) as (Hpp & Hh0 & _).
          assert (In p0 (get neqb Ai ps)) by (apply (In_get neqb neqb_spec); auto). rewrite HB in H. destruct H.
        - assert (In q (get neqb B ps)) by (apply (In_get neqb neqb_spec); auto). rewrite HB in H. destruct H. }
      split; [intros x Hx; apply in_or_app; now left|]. split; [|split].
      - intros q Hq. apply Hps' in Hq. destruct Hq as [->|[(p & Hp & ->)|[(p & Hp & ->)|[Hq _]]]]; simpl.
        + apply in_or_app; right; now left.
        + apply in_or_app; right; now left.
        + apply in_or_app. left. destruct (Hnl p Hp) as (Hpp & Hh & _). rewrite <- Hh. auto.
        + apply in_or_app. left. auto.
      - (* Jp *)
        intros q Hq. apply Hps' in Hq. destruct Hq as [->|[(p & Hp & ->)|[(p & Hp & ->)|[Hq _]]]]; auto.
        + now apply Jp_prime_eps.
        + destruct (Hlr p Hp) as (Hpp & Hh & (α & Hb)). rewrite Hb. simpl.
          apply (Jp_alpha p Ai A' α); auto.
        + destruct (Hnl p Hp) as (Hpp & Hh & _). apply (Jp_beta p Ai A'); auto.
      - (* rank *)
        intros q Hq Hh B HB. apply Hps' in Hq.
        assert (Hearlier_orig : forall X, In X (earlier ++ [Ai]) -> orig X).
        { intros X HX. apply ord_complete. rewrite Hord. apply in_app_iff in HX. apply in_or_app.
          destruct HX as [HX|[<-|[]]]; [now left|right; now left]. }
        destruct Hq as [->|[(p & Hp & ->)|[(p & Hp & ->)|[Hq Hne]]]]; simpl in *.
        + exfalso. apply HpA'. auto.
        + exfalso. apply HpA'. auto.
        + destruct (Hnl p Hp) as (Hpp & Hph & Hnf).
          assert (HBp : firstNT p B).
          { destruct HB as (rest & HB'). destruct (body p) as [|s β] eqn:Eb; [exfalso; eapply Hbeta; eauto|].
            simpl in HB'. inversion HB' as [[Hs Hrest]]. subst s. now exists β. }
          assert (HoB : orig B) by (apply (j_first p (Hjp p Hpp) B HBp)).
          destruct (Hk p Hpp Hph B HBp) as [H|H]; [|right; auto].
          left. apply Hlater; auto. intros ->. contradiction.
        + assert (HoB : orig B) by (apply (j_first q (Hjp q Hq) B HB)).
          apply in_app_iff in Hh. destruct Hh as [Hh|[Hh|[]]]; [|congruence].
          destruct (Hrank q Hq Hh B HB) as [H|H]; auto.
    Qed.
    (** heads stay inside [nts] during the substitution phase *)
    Lemma subst_prods_heads (H : N -> Prop) Ai (aj : list prod) : H Ai -> forall aiaj ps,
      (forall q, In q ps -> H (head q)) -> forall q, In q (subst_prods teqb neqb Ai aiaj aj ps) -> H (head q).
    Proof.
      intros HAi. induction aiaj as [|p aiaj IH]; simpl; intros ps Hps; auto.
      apply IH. intros q Hq. apply In_add_ps in Hq; auto. destruct Hq as [Hq|Hq].
      - apply in_map_iff in Hq. destruct Hq as (r & <- & _). exact HAi.
      - apply (In_remove_p teqb neqb teqb_spec neqb_spec) in Hq. apply Hps, Hq.
    Qed.

    Lemma elr_subst_heads (H : N -> Prop) Ai Aj ps :
      (forall q, In q ps -> H (head q)) -> forall q, In q (elr_subst teqb neqb Ai Aj ps) -> H (head q).
    Proof.
      intros Hps. unfold elr_subst.
      destruct (get neqb Ai ps) as [|a ai] eqn:Ea; auto.
      destruct (get neqb Aj ps) as [|b aj]; auto.
      apply subst_prods_heads; auto.
      assert (Ha : In a (get neqb Ai ps)) by (rewrite Ea; now left).
      apply (In_get neqb neqb_spec) in Ha. destruct Ha as [Ha <-]. auto.
    Qed.

    Lemma fold_subst_heads (H : N -> Prop) Ai : forall rest ps,
      (forall q, In q ps -> H (head q)) ->
      forall q, In q (fold_left (fun ps Aj => elr_subst teqb neqb Ai Aj ps) rest ps) -> H (head q).
    Proof.
      induction rest as [|Aj rest IH]; simpl; intros ps Hps; auto.
      apply IH. now apply elr_subst_heads.
    Qed.

    Lemma elr_loop_LI : forall todo earlier nts ps, ord = earlier ++ todo ->
      incl nts1 nts -> (forall q, In q ps -> In (head q) nts) -> LI earlier ps ->
      ok_or_names (elr_loop teqb neqb fresh earlier todo (nts, ps)) (fun st' => LI ord (snd st')).
    Proof.
      induction todo as [|Ai todo IH]; intros earlier nts ps Hord Hn1 Hheads HLI.
      - simpl. rewrite app_nil_r in Hord. now subst.
      - simpl.
        assert (HS0 : Si earlier [] Ai ps).
        { destruct HLI as [H1 H2]. split; auto. }
        pose proof (fold_subst_Si earlier Ai todo Hord earlier [] ps eq_refl HS0) as HS1.
        set (ps1 := fold_left (fun ps Aj => elr_subst teqb neqb Ai Aj ps) earlier ps) in *.
        assert (Hheads1 : forall q, In q ps1 -> In (head q) nts).
        { apply (fold_subst_heads (fun X => In X nts) Ai earlier ps Hheads). }
        eapply ok_or_names_bind; [apply (elr_immediate_LI earlier Ai todo nts ps1 Hord Hn1 Hheads1 HS1)|].
        intros [nts2 ps2] (Hi2 & Hh2 & HLI2). simpl in *.
        apply (IH (earlier ++ [Ai]) nts2 ps2); auto.
        + rewrite <- app_assoc. exact Hord.
        + eapply incl_tran; eauto.
    Qed.

    (** * from the invariants to the checker *)
    Lemma left_edges_first nl A (b : list sym) :
      (forall B rest, b = Nt B :: rest -> mem_n neqb B nl = false) ->
      left_edges_body neqb nl A b = match b with Nt B :: _ => [edge A B] | _ => [] end.
    Proof.
      intros H. destruct b as [|[a|B] rest]; simpl; auto. now rewrite (H B rest eq_refl).
    Qed.

    Lemma no_left_recursion_of_LI (G' : gram) : LI ord (prods G') ->
      (forall q B, In q (prods G') -> firstNT q B -> ~ gen (prods G') (Nt B) []) ->
      no_left_recursion neqb G' = true.
    Proof.
      intros [HJ HR] Hnn. unfold no_left_recursion.
      destruct (nullable_total neqb neqb_spec (prods G')) as [nl Hn]. rewrite Hn.
      destruct (nullable_spec neqb neqb_spec _ _ Hn) as [_ Hnl].
      set (ps' := prods G') in *.
      set (r := fun X : N => if mem_n neqb X nts1
                             then (match get neqb X ps' with [] => S (length ord) | _ => S (idx ord X) end)
                             else 0).
      apply acyclic_of_rank with (r := r).
      intros e He. apply in_flat_map in He. destruct He as (q & Hq & He).
      rewrite left_edges_first in He.
      2:{ intros B rest Hb. apply (memb_false neqb neqb_spec). intros Hin. apply Hnl in Hin.
          apply (Hnn q B Hq); auto. now exists rest. }
      destruct (body q) as [|[a|B] rest] eqn:Eb; [destruct He|destruct He|]. destruct He as [<-|[]].
      exists B. split; [reflexivity|]. simpl.
      assert (HfB : firstNT q B) by (now exists rest).
      assert (HoB : orig B) by (apply (j_first q (HJ q Hq) B HfB)).
      unfold r. rewrite (proj2 (mem_n_In neqb neqb_spec B nts1) HoB).
      destruct (mem_n neqb (head q) nts1) eqn:Eh.
      - apply (mem_n_In neqb neqb_spec) in Eh.
        assert (Hq' : In q (get neqb (head q) ps')) by (apply (In_get neqb neqb_spec); auto).
        destruct (get neqb (head q) ps') as [|x l] eqn:Eg; [destruct Hq'|].
        assert (Hhord : In (head q) ord) by (now apply ord_complete).
        pose proof (idx_lt ord (head q) Hhord) as Hlt.
        destruct (HR q Hq Hhord B HfB) as [H|H].
        + destruct (get neqb B ps'); lia.
        + rewrite H. lia.
      - destruct (get neqb B ps'); lia.
    Qed.
  End Inv.

  (** * the theorem *)
  Theorem elr_post (order : gram -> list N) (G G' : gram) : wf G ->
    (forall G1, NoDup (order G1) /\ forall A, In A (nonterms G1) <-> In A (order G1)) ->
    left_recursion_elim teqb neqb fresh order G = Ok G' -> no_left_recursion neqb G' = true.
  Proof.
    intros Hwf Hord H. unfold left_recursion_elim in H.
    apply bind_ok in H. destruct H as (G1 & H1 & H).
    apply bind_ok in H. destruct H as ([nts' ps'] & Hloop & H). inversion H; subst G'. clear H.
    pose proof (ok_or_names_ok _ _ _ (cycles_total teqb neqb fresh teqb_spec neqb_spec fresh_spec G Hwf) H1) as [_ Hwf1].
    destruct (cycles_shape teqb neqb fresh teqb_spec neqb_spec fresh_spec G G1 Hwf H1) as [He1 Hnu1].
    destruct (Hord G1) as [Hnd Hcomp].
    set (epsS := exists p, In p (prods G1) /\ body p = []).
    assert (Hstart : In (start G1) (nonterms G1)) by apply Hwf1.
    (* initial invariant *)
    assert (HLI0 : LI (nonterms G1) (start G1) epsS (order G1) [] (prods G1)).
    { split; [|intros q _ []].
      intros q Hq. destruct Hwf1 as [_ Hp]. destruct (Hp q Hq) as [Hh Hb]. split.
      - intros Hbq. right. split; [apply (He1 q Hq Hbq)|]. exists q. auto.
      - intros (p0 & Hp0 & Hb0). apply (proj2 (He1 p0 Hp0 Hb0)); auto.
      - intros _ B HbB. apply (proj1 (no_unit_spec G1) Hnu1 q B Hq HbB).
      - intros B (rest & HbB). apply (Hb (Nt B)). rewrite HbB. now left.
      - intros _ B C rest HbB. apply (Hb (Nt C)). rewrite HbB. right. now left. }
    pose proof (elr_loop_LI (nonterms G1) (start G1) epsS (order G1) Hnd Hcomp Hstart
                  (order G1) [] (nonterms G1) (prods G1) eq_refl (incl_refl _)
                  (fun q Hq => proj1 (proj2 Hwf1 q Hq)) HLI0) as HL.
    rewrite Hloop in HL. simpl in HL.
    (* language equivalence on the original non-terminals *)
    assert (Hg1 : forall q, In q (prods G1) -> pgood (terms G1) (nonterms G1) q).
    { intros q Hq. destruct Hwf1 as [_ Hp]. destruct (Hp q Hq) as [Hh Hb]. split; [exact Hh|].
      intros s Hs. specialize (Hb s Hs). destruct s; exact Hb. }
    pose proof (elr_loop_spec teqb neqb fresh teqb_spec neqb_spec fresh_spec (terms G1) (order G1) []
                  (nonterms G1) (prods G1) Hnd Hg1) as Heq.
    rewrite Hloop in Heq. simpl in Heq. destruct Heq as (_ & _ & Heq).
    apply (no_left_recursion_of_LI (nonterms G1) (start G1) epsS (order G1) Hcomp); auto.
    simpl. intros q B Hq HfB Hgen.
    destruct HL as [HJ _].
    assert (HoB : In B (nonterms G1)) by (apply (j_first _ _ _ q (HJ q Hq) B HfB)).
    apply (Heq B [] HoB) in Hgen.
    destruct (proj1 (eps_only_start_nullable G1 He1) _ _ Hgen eq_refl) as [E Hsnr]. inversion E; subst B.
    (* the start symbol is nullable, hence has an ε-production *)
    assert (HepsS : epsS).
    { apply gen_nt_inv in Hgen. destruct Hgen as (p & Hp & Hh & Hb).
      destruct (body p) as [|s rest] eqn:Eb; [exists p; auto|]. exfalso.
      apply gens_cons_inv in Hb. destruct Hb as (w1 & w2 & Hw & Hs & _).
      symmetry in Hw. apply app_eq_nil in Hw. destruct Hw as [-> _].
      destruct (proj1 (eps_only_start_nullable G1 He1) _ _ Hs eq_refl) as [-> _].
      apply (Hsnr p Hp). rewrite Eb. now left. }
    apply (j_start _ _ _ q (HJ q Hq) HepsS). destruct HfB as (rest & Hb). rewrite Hb. now left.
  Qed.
End ELRPost.
