(** C09 — the result of ChomskyNormalForm is in Chomsky normal form, and the result of
    EliminateUnreachableProductions contains only reachable symbols. *)
From Coq Require Import List Bool Arith Lia.
From Algo.Grammar Require Import CFG.
From Algo.C08 Require Import Model Spec ProofsBase ProofsLang1 ProofsLang2 ProofsLang3 ProofsLang4.
From Algo.C09 Require Import Model Proofs.
Import ListNotations.

Lemma bind_ok {A B} (r : res A) (f : A -> res B) b : bind r f = Ok b -> exists a, r = Ok a /\ f a = Ok b.
Proof. destruct r as [a| |]; simpl; try discriminate. eauto. Qed.

Section CNF.
  Context {T N : Type}.
  Variable teqb : T -> T -> bool.
  Variable neqb : N -> N -> bool.
  Variable t2n : T -> N.
  Variable fresh : skind -> list N -> N -> option N.
  Hypothesis teqb_spec : forall x y, teqb x y = true <-> x = y.
  Hypothesis neqb_spec : forall x y, neqb x y = true <-> x = y.
  Hypothesis fresh_spec : forall k nts b x, fresh k nts b = Some x -> ~ In x nts.

  Notation sym := (symbol T N).
  Notation prod := (production T N).
  Notation gram := (grammar T N).

  Definition no_term (b : list sym) : Prop := forall t, ~ In (Tm t) b.
  Definition solitary_prod (p : prod) : Prop := (exists a, body p = [Tm a]) \/ no_term (body p).
  Definition shape_prod (p : prod) : Prop :=
    (exists a, body p = [Tm a]) \/ (no_term (body p) /\ length (body p) <= 2).

  Lemma no_term_app (a b : list sym) : no_term a -> no_term b -> no_term (a ++ b).
  Proof. intros Ha Hb t H. apply in_app_iff in H. destruct H; [eapply Ha|eapply Hb]; eauto. Qed.

  Lemma all_add_p (Q : prod -> Prop) p l :
    Q p -> (forall q, In q l -> Q q) -> forall q, In q (add_p teqb neqb p l) -> Q q.
  Proof. intros Hp Hl q Hq. apply In_add_p in Hq; auto. destruct Hq as [->|Hq]; auto. Qed.

  (** ** TERM: terminals become solitary *)
  Lemma term_body_solitary : forall b newb s nb s',
    term_body teqb neqb t2n fresh b newb s = Ok (nb, s') ->
    no_term newb -> (forall q, In q (ts_prods s) -> solitary_prod q) ->
    no_term nb /\ (forall q, In q (ts_prods s') -> solitary_prod q).
  Proof.
    induction b as [|x b IH]; intros newb s nb s' H Hn Hs.
    - simpl in H. inversion H; subst. auto.
    - destruct x as [t|A]; simpl in H.
      + assert (Hn' : forall n, no_term (newb ++ [Nt n])).
        { intros n. apply no_term_app; auto. intros t' [H'|[]]. discriminate. }
        destruct (store_find teqb t (ts_store s)) as [n|].
        * apply (IH _ _ _ _ H); auto. simpl. apply (all_add_p solitary_prod); auto. left. simpl. eauto.
        * apply bind_ok in H. destruct H as ([n nts'] & _ & H).
          apply (IH _ _ _ _ H); auto. simpl. apply (all_add_p solitary_prod); auto. left. simpl. eauto.
      + apply (IH _ _ _ _ H); auto. apply no_term_app; auto. intros t' [H'|[]]. discriminate.
  Qed.

  Lemma term_prods_solitary : forall ps s s',
    term_prods teqb neqb t2n fresh ps s = Ok s' ->
    (forall q, In q (ts_prods s) -> solitary_prod q) -> forall q, In q (ts_prods s') -> solitary_prod q.
  Proof.
    induction ps as [|p ps IH]; intros s s' H Hs.
    - simpl in H. inversion H; subst. auto.
    - simpl in H. destruct (is_cnf_terminal p) eqn:E.
      + apply (IH _ _ H). simpl. apply (all_add_p solitary_prod); auto. left.
        unfold is_cnf_terminal in E. destruct (body p) as [|[a|B] [|? ?]]; try discriminate. eauto.
      + apply bind_ok in H. destruct H as ([nb s1] & Hb & H).
        destruct (term_body_solitary _ _ _ _ _ Hb) as [Hnb Hs1]; auto; [intros t []|].
        apply (IH _ _ H). simpl. apply (all_add_p solitary_prod); auto. right. exact Hnb.
  Qed.

  Lemma term_solitary (G G' : gram) : cnf_term teqb neqb t2n fresh G = Ok G' ->
    forall q, In q (prods G') -> solitary_prod q.
  Proof.
    unfold cnf_term. intros H. apply bind_ok in H. destruct H as (s & Hs & H). inversion H; subst G'. simpl.
    eapply term_prods_solitary; eauto. intros q [].
  Qed.

  (** ** BIN: bodies of length <= 2, terminals stay solitary *)
  Lemma bin_chain_shape A : forall b hd st st',
    bin_chain teqb neqb fresh A hd b st = Ok st' -> no_term b ->
    (forall q, In q (snd st) -> shape_prod q) -> forall q, In q (snd st') -> shape_prod q.
  Proof.
    induction b as [|x b IH]; intros hd st st' H Hn Hs.
    - simpl in H. inversion H; subst. simpl. apply (all_add_p shape_prod); auto. right. simpl. split; auto.
    - destruct b as [|y [|z b'']].
      + simpl in H. inversion H; subst. simpl. apply (all_add_p shape_prod); auto. right. simpl. split; auto.
      + simpl in H. inversion H; subst. simpl. apply (all_add_p shape_prod); auto. right. simpl. split; auto.
      + set (b' := y :: z :: b'') in *.
        change (bin_chain teqb neqb fresh A hd (x :: b') st) with
          (do xn <- add_new fresh Numeric (fst st) A;
           let (hn, nts') := (xn : N * list N) in
           bin_chain teqb neqb fresh A hn b' (nts', add_p teqb neqb (mkProd hd [x; Nt hn]) (snd st))) in H.
        apply bind_ok in H. destruct H as ([hn nts'] & _ & H).
        apply (IH _ _ _ H).
        * intros t Ht. apply (Hn t). now right.
        * simpl. apply (all_add_p shape_prod); auto. right. simpl. split; auto.
          intros t [Ht|[Ht|[]]]; [|discriminate]. apply (Hn t). left. exact Ht.
  Qed.

  Lemma bin_prods_shape : forall ps st st',
    bin_prods teqb neqb fresh ps st = Ok st' -> (forall p, In p ps -> solitary_prod p) ->
    (forall q, In q (snd st) -> shape_prod q) -> forall q, In q (snd st') -> shape_prod q.
  Proof.
    induction ps as [|p ps IH]; intros st st' H Hsol Hs.
    - simpl in H. inversion H; subst. auto.
    - simpl in H.
      assert (Hsol' : forall p0, In p0 ps -> solitary_prod p0) by (intros; apply Hsol; now right).
      destruct (is_cnf_binary p || is_cnf_terminal p || is_empty p || is_single p) eqn:E.
      + apply (IH _ _ H); auto. simpl. apply (all_add_p shape_prod); auto.
        unfold is_cnf_binary, is_cnf_terminal, is_empty, is_single in E. unfold shape_prod.
        destruct (body p) as [|[a|B] [|[a'|C] [|? ?]]]; simpl in *; try discriminate; eauto.
        * right. split; [intros t []|lia].
        * right. split; [intros t [Ht|[]]; discriminate|lia].
        * right. split; [intros t [Ht|[Ht|[]]]; discriminate|lia].
      + apply bind_ok in H. destruct H as (st1 & Hc & H).
        apply (IH _ _ H); auto. eapply bin_chain_shape; eauto.
        destruct (Hsol p (or_introl eq_refl)) as [(a & Hb)|Hn]; auto.
        unfold is_cnf_terminal in E. rewrite Hb in E. simpl in E. rewrite orb_true_r in E. discriminate.
  Qed.

  Lemma bin_shape (G G' : gram) : cnf_bin teqb neqb fresh G = Ok G' ->
    (forall p, In p (prods G) -> solitary_prod p) -> forall q, In q (prods G') -> shape_prod q.
  Proof.
    unfold cnf_bin. intros H Hs. apply bind_ok in H. destruct H as (st & Hst & H). inversion H; subst G'. simpl.
    eapply bin_prods_shape; eauto. intros q [].
  Qed.

  (** ** DEL keeps the shape; ε only for a start symbol that occurs in no body *)
  Lemma sub_length nl (b b' : list sym) : sub nl b b' -> length b' <= length b.
  Proof. intros H. induction H; simpl; lia. Qed.

  Lemma sub_shape nl (p q : prod) : sub nl (body p) (body q) -> body q <> [] -> shape_prod p -> shape_prod q.
  Proof.
    intros Hs Hne [(a & Hb)|[Hn Hl]].
    - rewrite Hb in Hs. inversion Hs as [|s b0 b0' Hs'|]; subst. inversion Hs'; subst. left. eauto.
    - right. split.
      + intros t Ht. apply (Hn t). eapply sub_incl; eauto.
      + apply sub_length in Hs. lia.
  Qed.

  Definition eps_only_start (G : gram) : Prop :=
    forall p, In p (prods G) -> body p = [] ->
      head p = start G /\ forall q, In q (prods G) -> ~ In (Nt (start G)) (body q).

  Lemma del_shape (G G' : gram) : wf G -> del teqb neqb fresh G = Ok G' ->
    (forall p, In p (prods G) -> shape_prod p) ->
    (forall q, In q (prods G') -> shape_prod q) /\ eps_only_start G'.
  Proof.
    intros Hwf H Hs.
    pose proof (del_post teqb neqb fresh teqb_spec neqb_spec fresh_spec G G' Hwf H) as Hpost.
    split.
    - unfold del in H.
      destruct (nullable neqb (prods G)) as [nl| |] eqn:En; simpl in H; try discriminate.
      set (P2 := del_prods teqb neqb nl (prods G) []) in *.
      assert (HP2 : forall q, In q P2 -> shape_prod q).
      { intros q Hq. unfold P2 in Hq. apply In_del_prods in Hq; auto. destruct Hq as [[]|(p & Hp & _ & Hne & Hsub)].
        eapply sub_shape; eauto. }
      destruct (mem_n neqb (start G) nl).
      + destruct (add_new fresh Prime (nonterms G) (start G)) as [[s' nts']| |]; simpl in H; try discriminate.
        inversion H; subst G'. simpl. apply (all_add_p shape_prod); [|apply (all_add_p shape_prod); auto].
        * right. simpl. split; [intros t []|lia].
        * right. simpl. split; [intros t [Ht|[]]; discriminate|lia].
      + inversion H; subst G'. simpl. auto.
    - unfold no_empty_except_fresh_start in Hpost. rewrite forallb_forall in Hpost.
      intros p Hp Hb. specialize (Hpost p Hp). unfold is_empty in Hpost. rewrite Hb in Hpost. simpl in Hpost.
      apply andb_true_iff in Hpost. destruct Hpost as [H1 H2]. apply neqb_spec in H1. split; auto.
      now apply (start_not_on_right_spec teqb neqb teqb_spec neqb_spec).
  Qed.

  (** ** UNIT then gives Chomsky normal form *)
  Lemma unit_reach_start (P : list prod) A S :
    (forall q, In q P -> ~ In (Nt S) (body q)) -> unit_reach P A S -> A = S.
  Proof.
    intros Hn H. remember S as B eqn:EB. revert EB. induction H as [B HB|p B Hp _ _ HB]; intros ->.
    - destruct HB as [<-|[]]. reflexivity.
    - apply filter_In in Hp. destruct Hp as [Hp _]. exfalso. eapply Hn; eauto.
  Qed.

  Lemma unit_cnf (G G' : gram) : wf G -> unit_elim teqb neqb G = Ok G' ->
    (forall p, In p (prods G) -> shape_prod p) -> eps_only_start G ->
    forall q, In q (prods G') -> cnf_prod G' q.
  Proof.
    intros Hwf H Hs He.
    destruct (unit_lang teqb neqb teqb_spec neqb_spec G Hwf) as (G2 & H2 & _ & Hin & _ & _ & Hst).
    rewrite H in H2. inversion H2; subst G2. clear H2.
    intros q Hq. apply Hin in Hq. destruct Hq as (A & p & HA & Hr & Hp & Hsg & ->).
    unfold cnf_prod. simpl. rewrite Hst.
    destruct (Hs p Hp) as [(a & Hb)|[Hn Hl]]; [right; left; eauto|].
    unfold is_single in Hsg.
    destruct (body p) as [|[a|B] [|[a'|C] [|? ?]]] eqn:Eb; simpl in Hl; try lia; try discriminate.
    - right. right. split; auto. destruct (He p Hp Eb) as [Hh Hnr]. rewrite Hh in Hr.
      eapply unit_reach_start; eauto.
    - exfalso. apply (Hn a). now left.
    - exfalso. apply (Hn a). now left.
    - exfalso. apply (Hn a). now left.
    - exfalso. apply (Hn a'). right. now left.
    - left. eauto.
  Qed.

  (** ** ChomskyNormalForm reaches Chomsky normal form *)
  Theorem chomsky_post (G G' : gram) : wf G -> chomsky teqb neqb t2n fresh G = Ok G' ->
    is_cnf neqb G' = true.
  Proof.
    intros Hwf H. unfold chomsky in H.
    apply bind_ok in H. destruct H as (G1 & H1 & H).
    apply bind_ok in H. destruct H as (G2 & H2 & H).
    apply bind_ok in H. destruct H as (G3 & H3 & H).
    apply bind_ok in H. destruct H as (G4 & H4 & H).
    apply bind_ok in H. destruct H as (G5 & H5 & H).
    pose proof (ok_or_names_ok _ _ _ (start_total teqb neqb fresh teqb_spec neqb_spec fresh_spec G Hwf) H1) as [_ Hwf1].
    pose proof (ok_or_names_ok _ _ _ (term_total teqb neqb t2n fresh teqb_spec neqb_spec fresh_spec G1 Hwf1) H2) as [_ Hwf2].
    pose proof (ok_or_names_ok _ _ _ (bin_total teqb neqb fresh teqb_spec neqb_spec fresh_spec G2 Hwf2) H3) as [_ Hwf3].
    pose proof (ok_or_names_ok _ _ _ (del_total teqb neqb fresh teqb_spec neqb_spec fresh_spec G3 Hwf3) H4) as [_ Hwf4].
    pose proof (term_solitary G1 G2 H2) as S2.
    pose proof (bin_shape G2 G3 H3 S2) as S3.
    destruct (del_shape G3 G4 Hwf3 H4 S3) as [S4 E4].
    pose proof (unit_cnf G4 G5 Hwf4 H5 S4 E4) as C5.
    unfold unreachable_elim in H. apply bind_ok in H. destruct H as (rn & _ & H). inversion H; subst G'.
    apply (is_cnf_spec neqb neqb_spec). simpl. intros q Hq. apply filter_In in Hq. destruct Hq as [Hq _].
    exact (C5 q Hq).
  Qed.

  (** ** EliminateUnreachableProductions: everything left is reachable *)
  Theorem unreachable_post (G G' : gram) : unreachable_elim teqb neqb G = Ok G' ->
    all_reachable teqb neqb G' = true.
  Proof.
    intros H. unfold unreachable_elim in H. apply bind_ok in H. destruct H as (rn & Hrn & H).
    inversion H; subst G'. clear H.
    destruct (reach_spec neqb neqb_spec (prods G) [start G] rn) as [_ Hr]; auto.
    { constructor; [intros []|constructor]. }
    set (P' := filter (fun p => mem_n neqb (head p) rn) (prods G)).
    unfold all_reachable. simpl. fold P'.
    destruct (reach_total neqb neqb_spec P' [start G]) as [rn' Hrn'].
    { constructor; [intros []|constructor]. } { simpl; lia. }
    rewrite Hrn'.
    destruct (reach_spec neqb neqb_spec P' [start G] rn') as [_ Hr']; auto.
    { constructor; [intros []|constructor]. }
    assert (Hsame : forall A, reachable (prods G) [start G] A -> reachable P' [start G] A).
    { intros A HA. induction HA as [A HA|p B Hp Hh IH HB]; [now constructor|].
      eapply reach_step with (p := p); eauto. apply filter_In. split; auto.
      apply (mem_n_In neqb neqb_spec). now apply Hr. }
    rewrite !andb_true_iff. repeat split.
    - apply forallb_forall. intros A HA. apply (mem_n_In neqb neqb_spec). apply Hr'. apply Hsame. now apply Hr.
    - apply forallb_forall. intros p Hp. apply (mem_n_In neqb neqb_spec). apply Hr'. apply Hsame. apply Hr.
      apply filter_In in Hp. destruct Hp as [_ Hp]. now apply (mem_n_In neqb neqb_spec) in Hp.
    - apply forallb_forall. intros t Ht. apply filter_In in Ht. apply Ht.
  Qed.

  (** ** START: the start symbol occurs in no body *)
  Theorem start_post (G G' : gram) : wf G -> cnf_start teqb neqb fresh G = Ok G' ->
    start_not_on_right teqb neqb G' = true.
  Proof.
    intros Hwf H. unfold cnf_start in H.
    destruct (existsb (fun p => body_has_n teqb neqb (start G) (body p)) (prods G)) eqn:E.
    - destruct (add_new fresh Prime (nonterms G) (start G)) as [[s' nts']| |] eqn:Ea; simpl in H; try discriminate.
      inversion H; subst G'. clear H.
      destruct (add_new_spec fresh fresh_spec _ _ _ _ _ Ea) as [Hfresh _].
      apply (start_not_on_right_spec teqb neqb teqb_spec neqb_spec). simpl.
      intros q Hq Hin. apply In_add_p in Hq; auto. destruct Hq as [->|Hq]; simpl in Hin.
      + destruct Hin as [Hin|[]]. inversion Hin; subst. apply Hfresh. apply Hwf.
      + apply Hfresh. apply (proj2 (wf_closed_under G Hwf q Hq)). exact Hin.
    - inversion H; subst G'. unfold start_not_on_right. now rewrite E.
  Qed.
End CNF.
