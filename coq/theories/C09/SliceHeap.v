(** C09 — Go slices on an explicit store, for the frame property ("the receiver is equal to a
    clone taken before the call") at the site where it is at stake: the bodies/aux loop of
    EliminateEmptyProductions, which builds bodies with [append(β, sym)] before fix D08a and with
    [β.Append(sym)] (copy) after it.

    A store is a list of backing arrays (an array = the list of its cells, its length is its
    capacity).  A slice header is {arr; off; len; cap}.  [append] writes IN PLACE when len < cap —
    this is what makes two slices with a common backing array interfere — and otherwise allocates
    a new array whose capacity is chosen by an arbitrary growth policy [grow cap need >= need].
    [append_copy] is Go's [String.Append]: always a new array of exactly the needed size.
    No proofs here. *)
From Coq Require Export List Arith Bool.
From Algo.C08 Require Export Model.
Export ListNotations.

Section SliceHeap.
  Context {E : Type}.
  Variable d : E.                          (* the zero value filling unused capacity *)

  Record hdr := mkHdr { arr : nat; off : nat; len : nat; cap : nat }.
  Definition store := list (list E).

  Definition read (st : store) (h : hdr) : list E :=
    firstn (len h) (skipn (off h) (nth (arr h) st [])).

  Fixpoint upd_cell (a : list E) (i : nat) (x : E) : list E :=
    match a, i with
    | [], _ => []
    | _ :: t, O => x :: t
    | y :: t, S i' => y :: upd_cell t i' x
    end.

  Fixpoint upd_arr (st : store) (k i : nat) (x : E) : store :=
    match st, k with
    | [], _ => []
    | a :: t, O => upd_cell a i x :: t
    | a :: t, S k' => a :: upd_arr t k' i x
    end.

  (** the empty slice [E = String[Symbol]{}]: no capacity *)
  Definition empty_slice : hdr := mkHdr 0 0 0 0.

  (** Go's built-in [append(h, x)] *)
  Definition append (grow : nat -> nat -> nat) (st : store) (h : hdr) (x : E) : store * hdr :=
    if len h <? cap h then
      (upd_arr st (arr h) (off h + len h) x, mkHdr (arr h) (off h) (S (len h)) (cap h))
    else
      let c := grow (cap h) (S (len h)) in
      (st ++ [read st h ++ x :: repeat d (c - S (len h))], mkHdr (length st) 0 (S (len h)) c).

  (** [String.Append]: make + copy *)
  Definition append_copy (st : store) (h : hdr) (x : E) : store * hdr :=
    (st ++ [read st h ++ [x]], mkHdr (length st) 0 (S (len h)) (S (len h))).

  (** Go's growth for small slices: double *)
  Definition grow_double (c need : nat) : nat := Nat.max need (2 * c).

  (** the bodies/aux loop of EliminateEmptyProductions for one production body *)
  Fixpoint h_expand_aux (app : store -> hdr -> E -> store * hdr) (nb : bool) (s : E)
           (bodies : list hdr) (st : store) : store * list hdr :=
    match bodies with
    | [] => (st, [])
    | β :: bs =>
      let (st1, β') := app st β s in
      let (st2, rest) := h_expand_aux app nb s bs st1 in
      (st2, (if nb then [β] else []) ++ β' :: rest)
    end.

  Fixpoint h_expand (app : store -> hdr -> E -> store * hdr) (nullf : E -> bool) (b : list E)
           (bodies : list hdr) (st : store) : store * list hdr :=
    match b with
    | [] => (st, bodies)
    | s :: b' => let (st1, bs1) := h_expand_aux app (nullf s) s bodies st in h_expand app nullf b' bs1 st1
    end.

  (** the same loop on values (it is [Algo.C08.Model.expand] with the nullable test abstracted) *)
  Fixpoint p_expand_aux (nb : bool) (s : E) (bodies : list (list E)) : list (list E) :=
    match bodies with
    | [] => []
    | b :: bs => (if nb then [b] else []) ++ (b ++ [s]) :: p_expand_aux nb s bs
    end.

  Fixpoint p_expand (nullf : E -> bool) (b : list E) (bodies : list (list E)) : list (list E) :=
    match b with
    | [] => bodies
    | s :: b' => p_expand nullf b' (p_expand_aux (nullf s) s bodies)
    end.

  (** the whole production loop: the receiver is a list of (head, body header) over the store *)
  Fixpoint h_del_prods {N} (app : store -> hdr -> E -> store * hdr) (nullf : E -> bool)
           (ps : list (N * hdr)) (st : store) (out : list (N * hdr)) : store * list (N * hdr) :=
    match ps with
    | [] => (st, out)
    | (A, hb) :: ps' =>
      match read st hb with
      | [] => h_del_prods app nullf ps' st out
      | b =>
        let (st1, hs) := h_expand app nullf b [empty_slice] st in
        h_del_prods app nullf ps' st1
                    (out ++ map (fun h => (A, h)) (filter (fun h => negb (len h =? 0)) hs))
      end
    end.

  (** what a list of (head, header) denotes *)
  Definition den {N} (st : store) (ps : list (N * hdr)) : list (N * list E) :=
    map (fun p => (fst p, read st (snd p))) ps.
End SliceHeap.
