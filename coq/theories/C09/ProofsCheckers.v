(** C09 — correctness of the remaining syntactic checkers:
    [no_empty_except_fresh_start] and [all_reachable] against their definitions. *)
From Coq Require Import List Bool Arith Lia.
From Algo.Grammar Require Import CFG.
From Algo.C08 Require Import Model Spec ProofsBase ProofsLang1.
From Algo.C09 Require Import Model Proofs ProofsCNF.
Import ListNotations.

Section Checkers.
  Context {T N : Type}.
  Variable teqb : T -> T -> bool.
  Variable neqb : N -> N -> bool.
  Hypothesis teqb_spec : forall x y, teqb x y = true <-> x = y.
  Hypothesis neqb_spec : forall x y, neqb x y = true <-> x = y.

  Notation gram := (grammar T N).

  Theorem no_empty_spec (G : gram) :
    no_empty_except_fresh_start teqb neqb G = true <-> eps_only_start G.
  Proof.
    unfold no_empty_except_fresh_start, eps_only_start. rewrite forallb_forall. split.
    - intros H p Hp Hb. specialize (H p Hp). unfold is_empty in H. rewrite Hb in H. simpl in H.
      apply andb_true_iff in H. destruct H as [H1 H2]. apply neqb_spec in H1. split; auto.
      now apply (start_not_on_right_spec teqb neqb teqb_spec neqb_spec).
    - intros H p Hp. unfold is_empty. destruct (body p) eqn:Eb; simpl; auto.
      destruct (H p Hp Eb) as [Hh Hs]. rewrite Hh, (proj2 (neqb_spec _ _) eq_refl). simpl.
      now apply (start_not_on_right_spec teqb neqb teqb_spec neqb_spec).
  Qed.

  Lemma body_has_t_spec t (b : sentential T N) : body_has_t teqb neqb t b = true <-> In (Tm t) b.
  Proof.
    unfold body_has_t. rewrite existsb_exists. split.
    - intros (s & Hs & H). apply (sym_eqb_spec teqb neqb teqb_spec neqb_spec) in H. now subst.
    - intros H. exists (Tm t). split; auto. now apply (sym_eqb_spec teqb neqb teqb_spec neqb_spec).
  Qed.

  (** every non-terminal and every head is reachable from the start symbol through the
      productions, and every terminal occurs in a production *)
  Theorem all_reachable_spec (G : gram) :
    all_reachable teqb neqb G = true <->
    (forall A, In A (nonterms G) -> reachable (prods G) [start G] A) /\
    (forall p, In p (prods G) -> reachable (prods G) [start G] (head p)) /\
    (forall t, In t (terms G) -> exists p, In p (prods G) /\ In (Tm t) (body p)).
  Proof.
    unfold all_reachable.
    destruct (reach_total neqb neqb_spec (prods G) [start G]) as [rn Hrn].
    { constructor; [intros []|constructor]. } { simpl; lia. }
    rewrite Hrn.
    destruct (reach_spec neqb neqb_spec (prods G) [start G] rn) as [_ Hr]; auto.
    { constructor; [intros []|constructor]. }
    rewrite !andb_true_iff, !forallb_forall. split.
    - intros [[H1 H2] H3]. repeat split.
      + intros A HA. apply Hr. apply (mem_n_In neqb neqb_spec). auto.
      + intros p Hp. apply Hr. apply (mem_n_In neqb neqb_spec). auto.
      + intros t Ht. specialize (H3 t Ht). apply existsb_exists in H3. destruct H3 as (p & Hp & Hb).
        exists p. split; auto. now apply body_has_t_spec.
    - intros (H1 & H2 & H3). repeat split.
      + intros A HA. apply (mem_n_In neqb neqb_spec). apply Hr. auto.
      + intros p Hp. apply (mem_n_In neqb neqb_spec). apply Hr. auto.
      + intros t Ht. destruct (H3 t Ht) as (p & Hp & Hb). apply existsb_exists. exists p. split; auto.
        now apply body_has_t_spec.
  Qed.
End Checkers.
