(** C08/C09 — concrete instances (names = byte strings) of the checkers and of the bounded
    membership oracle, for extraction.  No proofs here. *)
From Algo.C08 Require Export Names Recognise.
From Algo.C09 Require Export Model.

Fixpoint name_cmp (a b : name) : comparison :=
  match a, b with
  | [], [] => Eq
  | [], _ :: _ => Lt
  | _ :: _, [] => Gt
  | x :: a', y :: b' => match N.compare x y with Eq => name_cmp a' b' | c => c end
  end.

Definition c_is_cnf : cgram -> bool := is_cnf name_eqb.
Definition c_is_cnf_strict : cgram -> bool := is_cnf_strict name_eqb name_eqb.
Definition c_no_empty : cgram -> bool := no_empty_except_fresh_start name_eqb name_eqb.
Definition c_no_unit : cgram -> bool := @no_unit name name.
Definition c_all_reachable : cgram -> bool := all_reachable name_eqb name_eqb.
Definition c_no_cycle : cgram -> bool := no_cycle name_eqb.
Definition c_no_left_recursion : cgram -> bool := no_left_recursion name_eqb.
Definition c_left_factored : cgram -> bool := left_factored name_eqb name_eqb.
Definition c_lf_offender : cgram -> option (production name name) := lf_offender name_eqb name_eqb.
Definition c_no_singleton_group : cgram -> name -> bool := no_singleton_group name_eqb name_eqb.
Definition c_gram_eqb : cgram -> cgram -> bool := gram_eqb name_eqb name_eqb.
Definition c_yielding (G : cgram) : res (list name) := yielding name_eqb (prods G).

Definition c_bounded_lang (k fuel : nat) (G : cgram) : option (list (name * list (list name))) :=
  bounded_lang name_cmp name_eqb k fuel (prods G).
Definition c_lookup : name -> list (name * list (list name)) -> list (list name) := lookup name_eqb.
Definition c_lang_subset : list (list name) -> list (list name) -> bool := lang_subset name_cmp.
Definition c_lang_diff (a b : list (list name)) : list (list name) :=
  filter (fun w => negb (memb (str_eqb name_cmp) w b)) a.
