(** C09 — Verify() of the results of LeftFactor, EliminateLeftRecursion and ChomskyNormalForm on
    the domain that excludes the signature of D09c (every non-terminal of the input generates a
    non-empty string).  LeftFactor needs no restriction at all. *)
From Coq Require Import List Bool Arith Lia.
From Algo.Grammar Require Import CFG.
From Algo.C08 Require Import Model Spec ProofsBase ProofsLang1 ProofsLang2 ProofsLang3 ProofsLang4 ProofsLF ProofsELR.
From Algo.C09 Require Import Model Proofs ProofsCNF ProofsVerify.
Import ListNotations.

Section Verify2.
  Context {T N : Type}.
  Variable teqb : T -> T -> bool.
  Variable neqb : N -> N -> bool.
  Variable t2n : T -> N.
  Variable fresh : skind -> list N -> N -> option N.
  Hypothesis teqb_spec : forall x y, teqb x y = true <-> x = y.
  Hypothesis neqb_spec : forall x y, neqb x y = true <-> x = y.
  Hypothesis fresh_spec : forall k nts b x, fresh k nts b = Some x -> ~ In x nts.

  Notation sym := (symbol T N).
  Notation prod := (production T N).
  Notation gram := (grammar T N).

  Definition hasprod (ps : list prod) (X : N) : Prop := exists q, In q ps /\ head q = X.

  Lemma hasprod_mono ps ps' X : incl ps ps' -> hasprod ps X -> hasprod ps' X.
  Proof. intros Hi (q & Hq & Hh). exists q. auto. Qed.

  Lemma add_new_ok k nts b x nts' : add_new fresh k nts b = Ok (x, nts') -> nts' = nts ++ [x].
  Proof. unfold add_new. destruct (fresh k nts b); [|discriminate]. intros H. now inversion H. Qed.

  Lemma incl_add_ps l (ps : list prod) : incl ps (add_ps teqb neqb l ps).
  Proof. intros q Hq. apply In_add_ps; auto. Qed.

  Lemma incl_add_p p (ps : list prod) : incl ps (add_p teqb neqb p ps).
  Proof. intros q Hq. apply In_add_p; auto. Qed.

  (** * LeftFactor *)
  Lemma lf_prefix_groups_hasprod A : forall pgs st st',
    lf_prefix_groups teqb neqb fresh A pgs st = Ok st' -> (forall g, In g pgs -> snd g <> []) ->
    incl (snd st) (snd st') /\ incl (fst st) (fst st') /\
    (forall X, In X (fst st') -> ~ In X (fst st) -> hasprod (snd st') X) /\
    (pgs <> [] -> hasprod (snd st') A).
  Proof.
    induction pgs as [|[k sufs] pgs IH]; intros st st' H Hne.
    - simpl in H. inversion H; subst. split; [apply incl_refl|]. split; [apply incl_refl|]. split; [intros; contradiction|congruence].
    - simpl in H. apply bind_ok in H. destruct H as ([A' nts'] & Ha & H).
      apply add_new_ok in Ha. subst nts'.
      set (ps1 := add_p teqb neqb (mkProd A (key_body k ++ [Nt A'])) (snd st)) in *.
      set (ps2 := add_ps teqb neqb (map (fun suf => mkProd A' suf) sufs) ps1) in *.
      destruct (IH _ _ H) as (Hi1 & Hi2 & Hnew & _); [intros; apply Hne; now right|]. simpl in *.
      assert (Hps : incl (snd st) ps2) by (eapply incl_tran; [apply incl_add_p|apply incl_add_ps]).
      assert (HA' : hasprod ps2 A').
      { assert (Hs : sufs <> []) by (apply (Hne (k, sufs)); now left).
        destruct sufs as [|suf0 ?]; [congruence|]. exists (mkProd A' suf0). split; auto.
        unfold ps2. apply In_add_ps; auto. left. now left. }
      split; [eapply incl_tran; eauto|]. split.
      { intros X HX. apply Hi2. apply in_or_app. now left. }
      split.
      + intros X HX HnX. destruct (mem_n neqb X (fst st ++ [A'])) eqn:Em.
        * apply (mem_n_In neqb neqb_spec) in Em. apply in_app_iff in Em. destruct Em as [Hin|[<-|[]]]; [contradiction|].
          eapply hasprod_mono; eauto.
        * apply (memb_false neqb neqb_spec) in Em. now apply Hnew.
      + intros _. exists (mkProd A (key_body k ++ [Nt A'])). split; auto. apply Hi1.
        unfold ps2. apply incl_add_ps. unfold ps1. apply In_add_p; auto.
  Qed.

  Lemma lf_head_hasprod A st st' : lf_head teqb neqb fresh A st = Ok st' ->
    incl (fst st) (fst st') /\
    (forall X, hasprod (snd st) X -> hasprod (snd st') X) /\
    (forall X, In X (fst st') -> ~ In X (fst st) -> hasprod (snd st') X).
  Proof.
    unfold lf_head. intros H.
    match type of H with context [match ?X with [] => _ | _ :: _ => _ end] => remember X as pgs eqn:Epgs end.
    match type of H with context [match pgs with [] => _ | _ :: _ => match ?X with [] => _ | _ :: _ => _ end end] => remember X as alts eqn:Ealts end.
    assert (Htriv : Ok st = Ok st' -> incl (fst st) (fst st') /\
              (forall X, hasprod (snd st) X -> hasprod (snd st') X) /\
              (forall X, In X (fst st') -> ~ In X (fst st) -> hasprod (snd st') X)).
    { intros E. inversion E; subst. repeat split; auto using incl_refl. intros; contradiction. }
    destruct pgs as [|pg0 pgs0]; [auto|]. destruct alts as [|alt0 alts0]; [auto|]. clear Htriv.
    apply bind_ok in H. destruct H as (st1 & H1 & H). inversion H; subst st'. clear H. simpl.
    apply lf_prefix_groups_hasprod in H1.
    2:{ intros g Hg. rewrite Epgs in Hg. apply filter_In in Hg. destruct Hg as [_ Hl].
        destruct (snd g); simpl in Hl; [discriminate|discriminate]. }
    destruct H1 as (Hi1 & Hi2 & Hnew & HA). simpl in *.
    split; auto. split.
    - intros X (q & Hq & Hh). destruct (neqb X A) eqn:E.
      + apply neqb_spec in E. rewrite E. eapply hasprod_mono; [apply incl_add_ps|]. apply HA. discriminate.
      + exists q. split; auto. apply incl_add_ps. apply Hi1. apply (In_remove_head neqb neqb_spec). split; auto.
        rewrite Hh. intros ->. rewrite (proj2 (neqb_spec _ _) eq_refl) in E. discriminate.
    - intros X HX HnX. eapply hasprod_mono; [apply incl_add_ps|]. now apply Hnew.
  Qed.

  Lemma lf_heads_hasprod : forall hs st st', lf_heads teqb neqb fresh hs st = Ok st' ->
    (forall X, In X (fst st) -> hasprod (snd st) X) -> forall X, In X (fst st') -> hasprod (snd st') X.
  Proof.
    induction hs as [|A hs IH]; intros st st' H Hall.
    - simpl in H. inversion H; subst. auto.
    - simpl in H. apply bind_ok in H. destruct H as (st1 & H1 & H).
      destruct (lf_head_hasprod A st st1 H1) as (Hi & Hold & Hnew).
      apply (IH _ _ H). intros X HX.
      destruct (mem_n neqb X (fst st)) eqn:Em.
      + apply (mem_n_In neqb neqb_spec) in Em. auto.
      + apply (memb_false neqb neqb_spec) in Em. auto.
  Qed.

  (** LeftFactor returns a valid grammar for every valid grammar *)
  Theorem left_factor_valid (G G' : gram) : valid G -> left_factor teqb neqb fresh G = Ok G' -> valid G'.
  Proof.
    intros [Hwf Hall] H.
    pose proof (ok_or_names_ok _ _ _ (left_factor_total teqb neqb fresh teqb_spec neqb_spec fresh_spec G Hwf) H) as [_ Hwf'].
    split; auto. unfold left_factor in H. apply bind_ok in H. destruct H as (st & Hst & H). inversion H; subst G'. simpl.
    intros A HA.
    assert (Hall0 : forall X, In X (fst (nonterms G, prods G)) -> hasprod (snd (nonterms G, prods G)) X).
    { simpl. intros X HX. destruct (Hall X HX) as (p & Hp & Hh). exists p. auto. }
    destruct (lf_heads_hasprod _ _ _ Hst Hall0 A HA) as (q & Hq & Hh). exists q. auto.
  Qed.

  (** * productivity through UNIT and Unreachable (non-terminal level) *)
  Definition productive (ps : list prod) (A : N) : Prop := exists w, gen ps (Nt A) w.

  Lemma unit_productive (G G' : gram) : wf G -> unit_elim teqb neqb G = Ok G' ->
    forall A, In A (nonterms G) -> productive (prods G) A -> productive (prods G') A.
  Proof.
    intros Hwf H.
    destruct (unit_lang teqb neqb teqb_spec neqb_spec G Hwf) as (G2 & H2 & _ & Hin & _).
    rewrite H in H2. inversion H2; subst G2. clear H2.
    assert (Hcu := wf_closed_under G Hwf).
    assert (Hg : (forall s w, gen (prods G) s w -> (forall A, s = Nt A -> In A (nonterms G)) -> gen (prods G') s w) /\
                 (forall u w, gens (prods G) u w -> (forall A, In (Nt A) u -> In A (nonterms G)) -> gens (prods G') u w)).
    { apply gen_gens_ind.
      - intros; constructor.
      - intros p w' Hp _ IH Hs.
        assert (HA : In (head p) (nonterms G)) by (now apply Hs).
        specialize (IH (proj2 (Hcu p Hp))).
        destruct (is_single p) eqn:E.
        + destruct (is_single_body p E) as [B Hb]. rewrite Hb in IH. apply gens_single in IH.
          apply gen_nt_inv in IH. destruct IH as (q & Hq & Hqh & Hqb).
          apply Hin in Hq. destruct Hq as (B' & p2 & HB' & Hr & Hp2 & Hs2 & ->). simpl in *. subst B'.
          apply gen_nt_intro with (b := body p2); auto.
          apply Hin. exists (head p), p2. repeat split; auto.
          eapply unit_reach_trans; eauto.
          eapply reach_step with (p := p); [apply filter_In; auto|constructor; now left|rewrite Hb; now left].
        + apply gen_nt_intro with (b := body p); auto.
          apply Hin. exists (head p), p. repeat split; auto. constructor. now left.
      - intros; constructor.
      - intros s u w1 w2 _ IH1 _ IH2 Hs. constructor.
        + apply IH1. intros A ->. apply Hs. now left.
        + apply IH2. intros A HA. apply Hs. now right. }
    intros A HA (w & Hw). exists w. apply (proj1 Hg _ _ Hw). intros A' E. inversion E; subst. exact HA.
  Qed.

  Lemma unreachable_productive (G G' : gram) : unreachable_elim teqb neqb G = Ok G' ->
    forall A, In A (nonterms G') -> productive (prods G) A -> productive (prods G') A.
  Proof.
    intros H. unfold unreachable_elim in H. apply bind_ok in H. destruct H as (rn & Hrn & H).
    inversion H; subst G'. clear H. simpl.
    destruct (reach_spec neqb neqb_spec (prods G) [start G] rn) as [_ Hr]; auto.
    { constructor; [intros []|constructor]. }
    set (P' := filter (fun p => mem_n neqb (head p) rn) (prods G)).
    assert (Hgen : (forall s w, gen (prods G) s w -> (forall A, s = Nt A -> In A rn) -> gen P' s w) /\
                   (forall u w, gens (prods G) u w -> (forall A, In (Nt A) u -> In A rn) -> gens P' u w)).
    { apply gen_gens_ind.
      - intros; constructor.
      - intros p w' Hp _ IH Hs. constructor.
        + apply filter_In. split; auto. apply (mem_n_In neqb neqb_spec). now apply Hs.
        + apply IH. intros A HA. apply Hr. eapply reach_step; eauto. apply Hr. now apply Hs.
      - intros; constructor.
      - intros s u w1 w2 _ IH1 _ IH2 Hs. constructor.
        + apply IH1. intros A ->. apply Hs. now left.
        + apply IH2. intros A HA. apply Hs. now right. }
    intros A HA (w & Hw). exists w. apply (proj1 Hgen _ _ Hw). intros A' E. inversion E; subst. exact HA.
  Qed.

  (** after EliminateCycles every non-terminal is productive (on the D09c-free domain) *)
  Lemma cycles_productive (G G' : gram) : wf G -> all_yield G -> cycles_elim teqb neqb fresh G = Ok G' ->
    forall A, In A (nonterms G') -> productive (prods G') A.
  Proof.
    intros Hwf Hy H. unfold cycles_elim in H.
    apply bind_ok in H. destruct H as (G1 & H1 & H). apply bind_ok in H. destruct H as (G2 & H2 & H).
    pose proof (ok_or_names_ok _ _ _ (del_total teqb neqb fresh teqb_spec neqb_spec fresh_spec G Hwf) H1) as [_ Hwf1].
    pose proof (del_all_yield teqb neqb fresh teqb_spec neqb_spec fresh_spec G G1 Hwf Hy H1) as Hy1.
    destruct (unit_lang teqb neqb teqb_spec neqb_spec G1 Hwf1) as (G2' & H2' & _ & _ & _ & Hn2 & _).
    rewrite H2 in H2'. inversion H2'; subst G2'. clear H2'.
    intros A HA. apply (unreachable_productive G2 G' H A HA).
    assert (HA2 : In A (nonterms G2)).
    { unfold unreachable_elim in H. apply bind_ok in H. destruct H as (rn & Hrn & H). inversion H; subst G'. simpl in HA.
      pose proof (ok_or_names_ok _ _ _ (unit_total teqb neqb teqb_spec neqb_spec G1 Hwf1) H2) as [_ Hwf2].
      destruct (reach_spec neqb neqb_spec (prods G2) [start G2] rn) as [_ Hr]; auto.
      { constructor; [intros []|constructor]. }
      apply Hr in HA. destruct Hwf2 as [Hs Hp]. induction HA as [A HA|p B Hp' _ _ HB].
      - destruct HA as [<-|[]]. exact Hs.
      - destruct (Hp p Hp') as [_ Hb]. apply (Hb (Nt B) HB). }
    rewrite Hn2 in HA2. apply (unit_productive G1 G2 Hwf1 H2 A HA2).
    destruct (Hy1 A HA2) as (w & _ & Hg). now exists w.
  Qed.

  (** * EliminateLeftRecursion *)
  Lemma subst_prods_keep Ai (aj : list prod) : forall aiaj ps,
    (forall p, In p aiaj -> head p = Ai) ->
    forall q, In q ps -> head q <> Ai -> In q (subst_prods teqb neqb Ai aiaj aj ps).
  Proof.
    induction aiaj as [|p aiaj IH]; simpl; intros ps Hh q Hq Hne; auto.
    apply IH; auto. apply incl_add_ps. apply (In_remove_p teqb neqb teqb_spec neqb_spec). split; [exact Hq|].
    intros ->. apply Hne. apply Hh. now left.
  Qed.

  Lemma elr_subst_keep Ai Aj (ps : list prod) q : In q ps -> head q <> Ai -> In q (elr_subst teqb neqb Ai Aj ps).
  Proof.
    intros Hq Hne. unfold elr_subst.
    destruct (get neqb Ai ps) as [|a ai] eqn:Ea; auto. destruct (get neqb Aj ps) as [|b aj]; auto.
    apply subst_prods_keep; auto. intros p Hp. apply filter_In in Hp. destruct Hp as [Hp _].
    rewrite <- Ea in Hp. now apply (In_get neqb neqb_spec) in Hp.
  Qed.

  Lemma fold_subst_keep Ai : forall earlier (ps : list prod) q, In q ps -> head q <> Ai ->
    In q (fold_left (fun ps Aj => elr_subst teqb neqb Ai Aj ps) earlier ps).
  Proof. induction earlier as [|Aj e IH]; simpl; intros ps q Hq Hne; auto. apply IH; auto. now apply elr_subst_keep. Qed.

  Lemma elr_immediate_keep A st st' : elr_immediate teqb neqb fresh A st = Ok st' ->
    incl (fst st) (fst st') /\
    (forall q, In q (snd st) -> head q <> A -> In q (snd st')) /\
    (forall X, In X (fst st') -> ~ In X (fst st) -> hasprod (snd st') X).
  Proof.
    unfold elr_immediate. destruct st as [nts ps]. intros H.
    destruct (existsb (is_left_recursive teqb neqb) (get neqb A ps)).
    2:{ inversion H; subst. repeat split; auto using incl_refl. intros; contradiction. }
    apply bind_ok in H. destruct H as ([A' nts'] & Ha & H). apply add_new_ok in Ha. subst nts'.
    inversion H; subst st'. clear H. simpl. split; [intros x Hx; apply in_or_app; now left|]. split.
    - intros q Hq Hne. apply incl_add_p. apply incl_add_ps. apply incl_add_ps.
      apply (In_remove_head neqb neqb_spec). auto.
    - intros X HX HnX. apply in_app_iff in HX. destruct HX as [HX|[<-|[]]]; [contradiction|].
      exists (mkProd A' []). split; auto. apply In_add_p; auto.
  Qed.

  Lemma elr_loop_keep : forall todo earlier st st', elr_loop teqb neqb fresh earlier todo st = Ok st' ->
    incl todo (fst st) ->
    incl (fst st) (fst st') /\
    (forall q, In q (snd st) -> ~ In (head q) todo -> In q (snd st')) /\
    (forall X, In X (fst st') -> ~ In X (fst st) -> hasprod (snd st') X).
  Proof.
    induction todo as [|Ai todo IH]; intros earlier st st' H Hsub.
    - simpl in H. inversion H; subst. repeat split; auto using incl_refl. intros; contradiction.
    - cbn [elr_loop] in H. apply bind_ok in H. destruct H as (st1 & H1 & H).
      destruct (elr_immediate_keep Ai _ _ H1) as (Hi1 & Hk1 & Hn1). cbn [fst snd] in *.
      destruct (IH _ _ _ H) as (Hi2 & Hk2 & Hn2).
      { intros x Hx. apply Hi1. apply Hsub. now right. }
      split; [eapply incl_tran; eauto|]. split.
      + intros q Hq Hnt. apply Hk2; [|intros Hin; apply Hnt; now right].
        apply Hk1; [|intros E; apply Hnt; now left]. apply fold_subst_keep; auto. intros E; apply Hnt; now left.
      + intros X HX HnX. destruct (mem_n neqb X (fst st1)) eqn:Em.
        * apply (mem_n_In neqb neqb_spec) in Em. destruct (Hn1 X Em HnX) as (q & Hq & Hh).
          exists q. split; auto. apply Hk2; auto. rewrite Hh. intros Hin. apply HnX. apply Hsub. now right.
        * apply (memb_false neqb neqb_spec) in Em. auto.
  Qed.

  Theorem left_recursion_elim_valid (order : gram -> list N) (G G' : gram) : wf G -> all_yield G ->
    (forall G1, NoDup (order G1) /\ incl (order G1) (nonterms G1)) ->
    left_recursion_elim teqb neqb fresh order G = Ok G' -> valid G'.
  Proof.
    intros Hwf Hy Hord H.
    pose proof (ok_or_names_ok _ _ _ (left_recursion_elim_total teqb neqb fresh teqb_spec neqb_spec fresh_spec order G Hwf (fun G1 => proj1 (Hord G1))) H) as [_ Hwf'].
    split; auto.
    unfold left_recursion_elim in H. apply bind_ok in H. destruct H as (G1 & H1 & H).
    apply bind_ok in H. destruct H as ([nts' ps'] & Hloop & H). inversion H; subst G'. clear H. simpl.
    pose proof (ok_or_names_ok _ _ _ (cycles_total teqb neqb fresh teqb_spec neqb_spec fresh_spec G Hwf) H1) as [_ Hwf1].
    pose proof (cycles_productive G G1 Hwf Hy H1) as Hp1.
    destruct (Hord G1) as [Hnd Hsub].
    assert (Hg1 : forall q, In q (prods G1) -> pgood (terms G1) (nonterms G1) q).
    { intros q Hq. destruct Hwf1 as [_ Hp]. destruct (Hp q Hq) as [Hh Hb]. split; [exact Hh|].
      intros s Hs. specialize (Hb s Hs). destruct s; exact Hb. }
    pose proof (elr_loop_spec teqb neqb fresh teqb_spec neqb_spec fresh_spec (terms G1) (order G1) []
                  (nonterms G1) (prods G1) Hnd Hg1) as Heq.
    rewrite Hloop in Heq. simpl in Heq. destruct Heq as (_ & _ & Heq).
    destruct (elr_loop_keep _ _ _ _ Hloop Hsub) as (_ & _ & Hnew). simpl in *.
    intros A HA. destruct (mem_n neqb A (nonterms G1)) eqn:Em.
    - apply (mem_n_In neqb neqb_spec) in Em. destruct (Hp1 A Em) as (w & Hw).
      apply (Heq A w Em) in Hw. apply gen_nt_inv in Hw. destruct Hw as (p & Hp & Hh & _). exists p. auto.
    - apply (memb_false neqb neqb_spec) in Em. destruct (Hnew A HA Em) as (q & Hq & Hh). exists q. auto.
  Qed.

  (** * ChomskyNormalForm: START, TERM and BIN keep "every non-terminal generates a non-empty string" *)
  Definition yields (ps : list prod) (s : sym) : Prop := exists w, w <> [] /\ gen ps s w.

  Lemma yields_tm ps a : yields ps (Tm a).
  Proof. exists [a]. split; [discriminate|constructor]. Qed.

  Lemma gens_yield ps (b : list sym) : (forall s, In s b -> yields ps s) -> b <> [] ->
    exists w, w <> [] /\ gens ps b w.
  Proof.
    induction b as [|s b IH]; intros Hy Hne; [congruence|].
    destruct (Hy s (or_introl eq_refl)) as (w1 & Hw1 & Hg1).
    destruct b as [|s2 b'].
    - exists w1. split; auto. now apply gens_single.
    - destruct IH as (w2 & _ & Hg2); [intros; apply Hy; now right|discriminate|].
      exists (w1 ++ w2). split; [destruct w1; [congruence|discriminate]|]. now constructor.
  Qed.

  Lemma all_yield_body (G : gram) : wf G -> all_yield G -> forall p, In p (prods G) ->
    forall s, In s (body p) -> yields (prods G) s.
  Proof.
    intros Hwf Hy p Hp s Hs. destruct s as [a|B]; [apply yields_tm|].
    apply Hy. destruct Hwf as [_ H]. destruct (H p Hp) as [_ Hb]. apply (Hb (Nt B) Hs).
  Qed.

  Lemma start_all_yield (G G' : gram) : wf G -> all_yield G -> cnf_start teqb neqb fresh G = Ok G' -> all_yield G'.
  Proof.
    intros Hwf Hy H. unfold cnf_start in H.
    destruct (existsb _ (prods G)); [|inversion H; subst; auto].
    apply bind_ok in H. destruct H as ([s' nts'] & Ha & H). apply add_new_ok in Ha. subst nts'.
    inversion H; subst G'. clear H. intros A HA. simpl in *.
    assert (Hm : forall s w, gen (prods G) s w -> gen (add_p teqb neqb (mkProd s' [Nt (start G)]) (prods G)) s w).
    { apply (proj1 (gen_mono _ _ (incl_add_p _ _))). }
    apply in_app_iff in HA. destruct HA as [HA|[<-|[]]].
    - destruct (Hy A HA) as (w & Hw & Hg). exists w. split; auto.
    - destruct (Hy (start G) (proj1 Hwf)) as (w & Hw & Hg). exists w. split; auto.
      apply gen_nt_intro with (b := [Nt (start G)]); [apply In_add_p; auto|]. apply gens_single. auto.
  Qed.

  (** TERM: the non-terminals it introduces have a production X -> t *)
  Lemma term_body_fresh : forall b newb s nb s',
    term_body teqb neqb t2n fresh b newb s = Ok (nb, s') ->
    incl (ts_prods s) (ts_prods s') /\ incl (ts_nts s) (ts_nts s') /\
    forall X, In X (ts_nts s') -> ~ In X (ts_nts s) -> exists t, In (mkProd X [Tm t]) (ts_prods s').
  Proof.
    induction b as [|x b IH]; intros newb s nb s' H.
    - simpl in H. inversion H; subst. repeat split; auto using incl_refl. intros; contradiction.
    - destruct x as [t|A]; simpl in H.
      + destruct (store_find teqb t (ts_store s)) as [n|].
        * destruct (IH _ _ _ _ H) as (Hi1 & Hi2 & Hn). simpl in *.
          split; [eapply incl_tran; [apply incl_add_p|exact Hi1]|]. split; auto.
        * apply bind_ok in H. destruct H as ([n nts'] & Ha & H). apply add_new_ok in Ha. subst nts'.
          destruct (IH _ _ _ _ H) as (Hi1 & Hi2 & Hn). simpl in *.
          split; [eapply incl_tran; [apply incl_add_p|exact Hi1]|].
          split; [intros x Hx; apply Hi2; apply in_or_app; now left|].
          intros X HX HnX. destruct (mem_n neqb X (ts_nts s ++ [n])) eqn:Em.
          -- apply (mem_n_In neqb neqb_spec) in Em. apply in_app_iff in Em. destruct Em as [Em|[<-|[]]]; [contradiction|].
             exists t. apply Hi1. apply In_add_p; auto.
          -- apply (memb_false neqb neqb_spec) in Em. auto.
      + apply (IH _ _ _ _ H).
  Qed.

  Lemma term_prods_fresh : forall ps s s', term_prods teqb neqb t2n fresh ps s = Ok s' ->
    incl (ts_prods s) (ts_prods s') /\ incl (ts_nts s) (ts_nts s') /\
    forall X, In X (ts_nts s') -> ~ In X (ts_nts s) -> exists t, In (mkProd X [Tm t]) (ts_prods s').
  Proof.
    induction ps as [|p ps IH]; intros s s' H.
    - simpl in H. inversion H; subst. repeat split; auto using incl_refl. intros; contradiction.
    - simpl in H. destruct (is_cnf_terminal p).
      + destruct (IH _ _ H) as (Hi1 & Hi2 & Hn). simpl in *.
        split; [eapply incl_tran; [apply incl_add_p|exact Hi1]|]. split; auto.
      + apply bind_ok in H. destruct H as ([nb s1] & Hb & H).
        destruct (term_body_fresh _ _ _ _ _ Hb) as (Hb1 & Hb2 & Hbn).
        destruct (IH _ _ H) as (Hi1 & Hi2 & Hn). simpl in *.
        split; [eapply incl_tran; [exact Hb1|eapply incl_tran; [apply incl_add_p|exact Hi1]]|].
        split; [eapply incl_tran; eauto|].
        intros X HX HnX. destruct (mem_n neqb X (ts_nts s1)) eqn:Em.
        * apply (mem_n_In neqb neqb_spec) in Em. destruct (Hbn X Em HnX) as (t & Ht). exists t.
          apply Hi1. apply In_add_p; auto.
        * apply (memb_false neqb neqb_spec) in Em. auto.
  Qed.

  Lemma term_all_yield (G G' : gram) : wf G -> all_yield G -> cnf_term teqb neqb t2n fresh G = Ok G' -> all_yield G'.
  Proof.
    intros Hwf Hy H.
    pose proof (term_forward teqb neqb t2n fresh teqb_spec neqb_spec fresh_spec G Hwf G' H) as Hf.
    unfold cnf_term in H. apply bind_ok in H. destruct H as (s' & Hs & H). inversion H; subst G'. clear H. simpl in *.
    destruct (term_prods_fresh _ _ _ Hs) as (_ & _ & Hn). simpl in Hn.
    intros A HA. simpl in HA. destruct (mem_n neqb A (nonterms G)) eqn:Em.
    - apply (mem_n_In neqb neqb_spec) in Em. destruct (Hy A Em) as (w & Hw & Hg). exists w. split; auto.
    - apply (memb_false neqb neqb_spec) in Em. destruct (Hn A HA Em) as (t & Ht).
      exists [t]. split; [discriminate|]. apply gen_nt_intro with (b := [Tm t]); auto. apply gens_single. constructor.
  Qed.

  (** BIN: a non-terminal it introduces is implied by a non-empty piece of an original body *)
  Lemma bin_chain_fresh A : forall b hd st st', bin_chain teqb neqb fresh A hd b st = Ok st' ->
    incl (snd st) (snd st') /\ incl (fst st) (fst st') /\ impl_by (snd st') hd b /\
    forall X, In X (fst st') -> ~ In X (fst st) -> exists b', b' <> [] /\ incl b' b /\ impl_by (snd st') X b'.
  Proof.
    induction b as [|x b IH]; intros hd st st' H.
    - simpl in H. inversion H; subst. simpl. split; [apply incl_add_p|]. split; [apply incl_refl|].
      split; [apply impl_by_prod; apply In_add_p; auto|intros; contradiction].
    - destruct b as [|y [|z b'']].
      + simpl in H. inversion H; subst. simpl. split; [apply incl_add_p|]. split; [apply incl_refl|].
        split; [apply impl_by_prod; apply In_add_p; auto|intros; contradiction].
      + simpl in H. inversion H; subst. simpl. split; [apply incl_add_p|]. split; [apply incl_refl|].
        split; [apply impl_by_prod; apply In_add_p; auto|intros; contradiction].
      + set (b' := y :: z :: b'') in *.
        change (bin_chain teqb neqb fresh A hd (x :: b') st) with
          (do xn <- add_new fresh Numeric (fst st) A;
           let (hn, nts') := (xn : N * list N) in
           bin_chain teqb neqb fresh A hn b' (nts', add_p teqb neqb (mkProd hd [x; Nt hn]) (snd st))) in H.
        apply bind_ok in H. destruct H as ([hn nts'] & Ha & H). apply add_new_ok in Ha. subst nts'.
        destruct (IH _ _ _ H) as (Hi1 & Hi2 & Himp & Hn). simpl in *.
        split; [eapply incl_tran; [apply incl_add_p|exact Hi1]|].
        split; [intros u Hu; apply Hi2; apply in_or_app; now left|].
        split.
        * intros out' Ho w Hw. apply gens_cons_inv in Hw. destruct Hw as (w1 & w2 & -> & Hx & Hb').
          apply gen_nt_intro with (b := [x; Nt hn]).
          -- apply Ho, Hi1. apply In_add_p; auto.
          -- constructor; auto. apply gens_single. now apply Himp.
        * intros X HX HnX. destruct (mem_n neqb X (fst st ++ [hn])) eqn:Em.
          -- apply (mem_n_In neqb neqb_spec) in Em. apply in_app_iff in Em. destruct Em as [Em|[<-|[]]]; [contradiction|].
             exists b'. split; [discriminate|]. split; [intros u Hu; now right|exact Himp].
          -- apply (memb_false neqb neqb_spec) in Em. destruct (Hn X HX Em) as (b2 & H1 & H2 & H3).
             exists b2. split; auto. split; auto. intros u Hu. right. auto.
  Qed.

  Lemma bin_prods_fresh : forall ps st st', bin_prods teqb neqb fresh ps st = Ok st' ->
    incl (snd st) (snd st') /\ incl (fst st) (fst st') /\
    forall X, In X (fst st') -> ~ In X (fst st) ->
      exists b' p, b' <> [] /\ In p ps /\ incl b' (body p) /\ impl_by (snd st') X b'.
  Proof.
    induction ps as [|p ps IH]; intros st st' H.
    - simpl in H. inversion H; subst. repeat split; auto using incl_refl. intros; contradiction.
    - simpl in H. destruct (is_cnf_binary p || is_cnf_terminal p || is_empty p || is_single p).
      + destruct (IH _ _ H) as (Hi1 & Hi2 & Hn). simpl in *.
        split; [eapply incl_tran; [apply incl_add_p|exact Hi1]|]. split; auto.
        intros X HX HnX. destruct (Hn X HX HnX) as (b' & q & H1 & H2 & H3 & H4). exists b', q.
        split; [exact H1|]. split; [now right|]. split; [exact H3|exact H4].
      + apply bind_ok in H. destruct H as (st1 & Hc & H).
        destruct (bin_chain_fresh _ _ _ _ _ Hc) as (Hc1 & Hc2 & _ & Hcn).
        destruct (IH _ _ H) as (Hi1 & Hi2 & Hn).
        split; [eapply incl_tran; eauto|]. split; [eapply incl_tran; eauto|].
        intros X HX HnX. destruct (mem_n neqb X (fst st1)) eqn:Em.
        * apply (mem_n_In neqb neqb_spec) in Em. destruct (Hcn X Em HnX) as (b' & H1 & H2 & H3).
          exists b', p. split; [exact H1|]. split; [now left|]. split; [exact H2|]. eapply impl_by_mono; eauto.
        * apply (memb_false neqb neqb_spec) in Em. destruct (Hn X HX Em) as (b' & q & H1 & H2 & H3 & H4).
          exists b', q. split; [exact H1|]. split; [now right|]. split; [exact H3|exact H4].
  Qed.

  Lemma bin_all_yield (G G' : gram) : wf G -> all_yield G -> cnf_bin teqb neqb fresh G = Ok G' -> all_yield G'.
  Proof.
    intros Hwf Hy H.
    pose proof (bin_forward teqb neqb fresh teqb_spec neqb_spec fresh_spec G Hwf G' H) as Hf.
    unfold cnf_bin in H. apply bind_ok in H. destruct H as (st' & Hs & H). inversion H; subst G'. clear H. simpl in *.
    destruct (bin_prods_fresh _ _ _ Hs) as (_ & _ & Hn). simpl in Hn.
    intros A HA. simpl in HA. destruct (mem_n neqb A (nonterms G)) eqn:Em.
    - apply (mem_n_In neqb neqb_spec) in Em. destruct (Hy A Em) as (w & Hw & Hg). exists w. split; auto.
    - apply (memb_false neqb neqb_spec) in Em. destruct (Hn A HA Em) as (b' & p & Hne & Hp & Hi & Himp).
      destruct (gens_yield (snd st') b') as (w & Hw & Hg); auto.
      { intros s Hs'. destruct (all_yield_body G Hwf Hy p Hp s (Hi s Hs')) as (w & Hw & Hg). exists w. split; auto. }
      exists w. split; auto. apply (Himp _ (incl_refl _)). exact Hg.
  Qed.

  (** ChomskyNormalForm passes Verify() on the D09c-free domain *)
  Theorem chomsky_valid (G G' : gram) : wf G -> all_yield G -> chomsky teqb neqb t2n fresh G = Ok G' -> valid G'.
  Proof.
    intros Hwf Hy H. unfold chomsky in H.
    apply bind_ok in H. destruct H as (G1 & H1 & H).
    apply bind_ok in H. destruct H as (G2 & H2 & H).
    apply bind_ok in H. destruct H as (G3 & H3 & H).
    apply bind_ok in H. destruct H as (G4 & H4 & H).
    apply bind_ok in H. destruct H as (G5 & H5 & H).
    pose proof (ok_or_names_ok _ _ _ (start_total teqb neqb fresh teqb_spec neqb_spec fresh_spec G Hwf) H1) as [_ Hwf1].
    pose proof (ok_or_names_ok _ _ _ (term_total teqb neqb t2n fresh teqb_spec neqb_spec fresh_spec G1 Hwf1) H2) as [_ Hwf2].
    pose proof (ok_or_names_ok _ _ _ (bin_total teqb neqb fresh teqb_spec neqb_spec fresh_spec G2 Hwf2) H3) as [_ Hwf3].
    pose proof (ok_or_names_ok _ _ _ (del_total teqb neqb fresh teqb_spec neqb_spec fresh_spec G3 Hwf3) H4) as [_ Hwf4].
    pose proof (start_all_yield G G1 Hwf Hy H1) as Hy1.
    pose proof (term_all_yield G1 G2 Hwf1 Hy1 H2) as Hy2.
    pose proof (bin_all_yield G2 G3 Hwf2 Hy2 H3) as Hy3.
    pose proof (del_all_yield teqb neqb fresh teqb_spec neqb_spec fresh_spec G3 G4 Hwf3 Hy3 H4) as Hy4.
    assert (Hp4 : all_productive G4) by (intros A HA; destruct (Hy4 A HA) as (w & _ & Hg); eauto).
    pose proof (unit_valid teqb neqb teqb_spec neqb_spec G4 G5 Hwf4 Hp4 H5) as Hv5.
    exact (unreachable_valid teqb neqb teqb_spec neqb_spec G5 G' Hv5 H).
  Qed.
End Verify2.
