(** C15 — proofs: the invariants of C15/Spec.v hold after every history. *)
From Algo.C01 Require Import Model Spec SpecFacts ProofsQuery ProofsRun ProofsAVL ProofsRB Proofs.
From Algo.C15 Require Import Spec.
From Coq Require Import Lia.
Open Scope Z_scope.
Arguments inorder {K V} n : simpl never.

Section AVL15.
  Context {K V : Type}.
  Variable cmp : K -> K -> Z.
  Hypothesis TO : TotalOrder cmp.
  Notation tree := (tree K V).

  Lemma avl_inv_balanced (t : tree) : avl_inv t -> balanced t /\ cached_heights_ok t.
  Proof.
    induction t as [|l IHl k v s h c r IHr]; cbn [avl_inv balanced cached_heights_ok]; [auto|].
    intros (_ & Hh & Hb & Hl & Hr). destruct (IHl Hl), (IHr Hr).
    rewrite <- !(cheight_height l), <- !(cheight_height r) by auto. repeat split; auto; lia.
  Qed.

  Theorem avl_after_history (h : list (mut K V)) :
    exists t, build cmp AVL h = Ok t /\
      balanced t /\ cached_heights_ok t /\ Height AVL t = height t /\ avl_check t = true.
  Proof.
    destruct (avl_build_inv cmp TO h) as [t [E1 [_ I]]]. exists t. split; [exact E1|].
    destruct (avl_inv_balanced t I). repeat split; auto.
    - cbn [Height]. now apply cheight_height.
    - now apply avl_inv_check.
  Qed.

  (** the boolean checker run by the correspondence is sound for the propositions *)
  Lemma avl_check_sound (t : tree) : avl_check t = true -> balanced t /\ cached_heights_ok t.
  Proof.
    induction t as [|l IHl k v s h c r IHr]; cbn [avl_check balanced cached_heights_ok]; [auto|].
    intros H. repeat (apply andb_true_iff in H; destruct H as [H ?]).
    destruct (IHl ltac:(assumption)), (IHr ltac:(assumption)).
    apply Z.eqb_eq in H. apply Z.leb_le in H2, H3. repeat split; auto; lia.
  Qed.
End AVL15.

Section RB15.
  Context {K V : Type}.
  Variable cmp : K -> K -> Z.
  Hypothesis TO : TotalOrder cmp.
  Notation tree := (tree K V).

  Lemma rbt_height (t : tree) n : rbt t n -> height t <= 2 * n + (if isRed t then 1 else 0).
  Proof.
    induction 1 as [|l k v s h r n Hl IHl Hr IHr Bl Br|l k v s h r n Hl IHl Hr IHr Br]; cbn [height isRed].
    - lia.
    - rewrite Bl in IHl. rewrite Br in IHr. lia.
    - rewrite Br in IHr. destruct (isRed l); lia.
  Qed.

  Lemma count_nonneg (t : tree) : 0 <= count t.
  Proof. induction t; cbn [count]; lia. Qed.

  Lemma rbt_count (t : tree) n : rbt t n -> 2 ^ n <= count t + 1.
  Proof.
    induction 1 as [|l k v s h r n Hl IHl Hr IHr Bl Br|l k v s h r n Hl IHl Hr IHr Br]; cbn [count].
    - simpl. lia.
    - pose proof (count_nonneg r). lia.
    - pose proof (rbt_nonneg _ _ Hl). replace (n + 1) with (Z.succ n) by lia. rewrite Z.pow_succ_r by assumption. lia.
  Qed.

  Lemma sizes_count (t : tree) : sizes_ok t -> size t = count t.
  Proof.
    induction t as [|l IHl k v s h c r IHr]; cbn [sizes_ok size count]; [reflexivity|].
    intros (-> & Hl & Hr). rewrite IHl, IHr by auto. reflexivity.
  Qed.

  (** the logarithmic height bound *)
  Lemma rb_log_bound (t : tree) n :
    rbt t n -> isRed t = false -> height t <= 2 * Z.log2 (count t + 1).
  Proof.
    intros HR HB. pose proof (rbt_height t n HR) as H1. rewrite HB in H1.
    pose proof (rbt_count t n HR) as H2. pose proof (count_nonneg t).
    assert (n <= Z.log2 (count t + 1)) by (apply Z.log2_le_pow2; lia). lia.
  Qed.

  Lemma rbt_props (t : tree) n : rbt t n -> black_paths t n /\ no_right_red t /\ no_red_red t.
  Proof.
    induction 1 as [|l k v s h r n Hl IHl Hr IHr Bl Br|l k v s h r n Hl IHl Hr IHr Br];
      cbn [no_right_red no_red_red].
    - repeat split; constructor.
    - destruct IHl as (?&?&?), IHr as (?&?&?). repeat split; auto. now constructor.
    - destruct IHl as (?&?&?), IHr as (?&?&?). repeat split; auto; [now constructor|discriminate].
  Qed.

  Lemma rbt_black_height (t : tree) n : rbt t n -> black_height t = Some n.
  Proof.
    induction 1 as [|l k v s h r n Hl IHl Hr IHr Bl Br|l k v s h r n Hl IHl Hr IHr Br]; cbn [black_height].
    - reflexivity.
    - rewrite IHl, IHr, Z.eqb_refl. reflexivity.
    - rewrite IHl, IHr, Z.eqb_refl. reflexivity.
  Qed.

  Lemma rbt_colors_ok (t : tree) n : rbt t n -> rb_colors_ok t = true.
  Proof.
    induction 1 as [|l k v s h r n Hl IHl Hr IHr Bl Br|l k v s h r n Hl IHl Hr IHr Br]; cbn [rb_colors_ok].
    - reflexivity.
    - rewrite IHl, IHr, Bl, Br. reflexivity.
    - rewrite IHl, IHr, Br. reflexivity.
  Qed.

  (** everything C15 says about a red-black table, from the table-level invariant *)
  Lemma rb_ok_props (t : tree) :
    rb_ok cmp t ->
    black_balanced t /\ no_right_red t /\ no_red_red t /\ root_black t /\
    height t <= 2 * Z.log2 (size t + 1) /\ Height RB t = height t /\ rb_check t = true.
  Proof.
    intros (HS & HZ & HB & n & HR). destruct (rbt_props t n HR) as (P1 & P2 & P3).
    split; [exists n; exact P1|]. split; [exact P2|]. split; [exact P3|]. split; [exact HB|].
    split; [rewrite sizes_count by auto; eapply rb_log_bound; eauto|]. split; [reflexivity|].
    unfold rb_check. rewrite HB, (rbt_colors_ok t n HR), (rbt_black_height t n HR). reflexivity.
  Qed.

  Theorem rb_after_put_history (h : list (mut K V)) :
    forallb put_only h = true ->
    exists t, build cmp RB h = Ok t /\
      black_balanced t /\ no_right_red t /\ no_red_red t /\ root_black t /\
      height t <= 2 * Z.log2 (size t + 1) /\ Height RB t = height t /\ rb_check t = true.
  Proof.
    intros HA. destruct (rb_build_inv_put cmp TO h HA) as [t [E1 [_ I]]].
    exists t. split; [exact E1|]. now apply rb_ok_props.
  Qed.
End RB15.
