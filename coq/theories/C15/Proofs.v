(** C15 — proofs: the invariants of C15/Spec.v hold after every history. *)
From Algo.C01 Require Import Model Spec SpecFacts ProofsQuery ProofsRun ProofsAVL Proofs.
From Algo.C15 Require Import Spec.
From Coq Require Import Lia.
Open Scope Z_scope.
Arguments inorder {K V} n : simpl never.

Section AVL15.
  Context {K V : Type}.
  Variable cmp : K -> K -> Z.
  Hypothesis TO : TotalOrder cmp.
  Notation tree := (tree K V).

  Lemma avl_inv_balanced (t : tree) : avl_inv t -> balanced t /\ cached_heights_ok t.
  Proof.
    induction t as [|l IHl k v s h c r IHr]; cbn [avl_inv balanced cached_heights_ok]; [auto|].
    intros (_ & Hh & Hb & Hl & Hr). destruct (IHl Hl), (IHr Hr).
    rewrite <- !(cheight_height l), <- !(cheight_height r) by auto. repeat split; auto; lia.
  Qed.

  Theorem avl_after_history (h : list (mut K V)) :
    exists t, build cmp AVL h = Ok t /\
      balanced t /\ cached_heights_ok t /\ Height AVL t = height t /\ avl_check t = true.
  Proof.
    destruct (avl_build_inv cmp TO h) as [t [E1 [_ I]]]. exists t. split; [exact E1|].
    destruct (avl_inv_balanced t I). repeat split; auto.
    - cbn [Height]. now apply cheight_height.
    - now apply avl_inv_check.
  Qed.

  (** the boolean checker run by the correspondence is sound for the propositions *)
  Lemma avl_check_sound (t : tree) : avl_check t = true -> balanced t /\ cached_heights_ok t.
  Proof.
    induction t as [|l IHl k v s h c r IHr]; cbn [avl_check balanced cached_heights_ok]; [auto|].
    intros H. repeat (apply andb_true_iff in H; destruct H as [H ?]).
    destruct (IHl ltac:(assumption)), (IHr ltac:(assumption)).
    apply Z.eqb_eq in H. apply Z.leb_le in H2, H3. repeat split; auto; lia.
  Qed.
End AVL15.
