(** C15 — proofs: the invariants of C15/Spec.v hold after every history. *)
From Algo.C01 Require Import Model Spec SpecFacts ProofsQuery ProofsRun ProofsAVL ProofsRB ProofsRBDel Proofs.
From Algo.C15 Require Import Spec.
From Coq Require Import Lia.
Open Scope Z_scope.
Arguments inorder {K V} n : simpl never.

Section AVL15.
  Context {K V : Type}.
  Variable cmp : K -> K -> Z.
  Hypothesis TO : TotalOrder cmp.
  Notation tree := (tree K V).

  Lemma avl_inv_balanced (t : tree) : avl_inv t -> balanced t /\ cached_heights_ok t.
  Proof.
    induction t as [|l IHl k v s h c r IHr]; cbn [avl_inv balanced cached_heights_ok]; [auto|].
    intros (_ & Hh & Hb & Hl & Hr). destruct (IHl Hl), (IHr Hr).
    rewrite <- !(cheight_height l), <- !(cheight_height r) by auto. repeat split; auto; lia.
  Qed.

  Theorem avl_after_history (h : list (mut K V)) :
    exists t, build cmp AVL h = Ok t /\
      balanced t /\ cached_heights_ok t /\ Height AVL t = height t /\ avl_check t = true.
  Proof.
    destruct (avl_build_inv cmp TO h) as [t [E1 [_ I]]]. exists t. split; [exact E1|].
    destruct (avl_inv_balanced t I). repeat split; auto.
    - cbn [Height]. now apply cheight_height.
    - now apply avl_inv_check.
  Qed.

  (** the boolean checker run by the correspondence is sound for the propositions *)
  Lemma avl_check_sound (t : tree) : avl_check t = true -> balanced t /\ cached_heights_ok t.
  Proof.
    induction t as [|l IHl k v s h c r IHr]; cbn [avl_check balanced cached_heights_ok]; [auto|].
    intros H. repeat (apply andb_true_iff in H; destruct H as [H ?]).
    destruct (IHl ltac:(assumption)), (IHr ltac:(assumption)).
    apply Z.eqb_eq in H. apply Z.leb_le in H2, H3. repeat split; auto; lia.
  Qed.
End AVL15.

Section RB15.
  Context {K V : Type}.
  Variable cmp : K -> K -> Z.
  Hypothesis TO : TotalOrder cmp.
  Notation tree := (tree K V).

  Lemma rbt_height (t : tree) n : rbt t n -> height t <= 2 * n + (if isRed t then 1 else 0).
  Proof.
    induction 1 as [|l k v s h r n Hl IHl Hr IHr Bl Br|l k v s h r n Hl IHl Hr IHr Br]; cbn [height isRed].
    - lia.
    - rewrite Bl in IHl. rewrite Br in IHr. lia.
    - rewrite Br in IHr. destruct (isRed l); lia.
  Qed.

  Lemma count_nonneg (t : tree) : 0 <= count t.
  Proof. induction t; cbn [count]; lia. Qed.

  Lemma rbt_count (t : tree) n : rbt t n -> 2 ^ n <= count t + 1.
  Proof.
    induction 1 as [|l k v s h r n Hl IHl Hr IHr Bl Br|l k v s h r n Hl IHl Hr IHr Br]; cbn [count].
    - simpl. lia.
    - pose proof (count_nonneg r). lia.
    - pose proof (rbt_nonneg _ _ Hl). replace (n + 1) with (Z.succ n) by lia. rewrite Z.pow_succ_r by assumption. lia.
  Qed.

  Lemma sizes_count (t : tree) : sizes_ok t -> size t = count t.
  Proof.
    induction t as [|l IHl k v s h c r IHr]; cbn [sizes_ok size count]; [reflexivity|].
    intros (-> & Hl & Hr). rewrite IHl, IHr by auto. reflexivity.
  Qed.

  (** the logarithmic height bound *)
  Lemma rb_log_bound (t : tree) n :
    rbt t n -> isRed t = false -> height t <= 2 * Z.log2 (count t + 1).
  Proof.
    intros HR HB. pose proof (rbt_height t n HR) as H1. rewrite HB in H1.
    pose proof (rbt_count t n HR) as H2. pose proof (count_nonneg t).
    assert (n <= Z.log2 (count t + 1)) by (apply Z.log2_le_pow2; lia). lia.
  Qed.

  Lemma rbt_props (t : tree) n : rbt t n -> black_paths t n /\ no_right_red t /\ no_red_red t.
  Proof.
    induction 1 as [|l k v s h r n Hl IHl Hr IHr Bl Br|l k v s h r n Hl IHl Hr IHr Br];
      cbn [no_right_red no_red_red].
    - repeat split; constructor.
    - destruct IHl as (?&?&?), IHr as (?&?&?). repeat split; auto. now constructor.
    - destruct IHl as (?&?&?), IHr as (?&?&?). repeat split; auto; [now constructor|discriminate].
  Qed.

  Lemma rbt_black_height (t : tree) n : rbt t n -> black_height t = Some n.
  Proof.
    induction 1 as [|l k v s h r n Hl IHl Hr IHr Bl Br|l k v s h r n Hl IHl Hr IHr Br]; cbn [black_height].
    - reflexivity.
    - rewrite IHl, IHr, Z.eqb_refl. reflexivity.
    - rewrite IHl, IHr, Z.eqb_refl. reflexivity.
  Qed.

  Lemma rbt_colors_ok (t : tree) n : rbt t n -> rb_colors_ok t = true.
  Proof.
    induction 1 as [|l k v s h r n Hl IHl Hr IHr Bl Br|l k v s h r n Hl IHl Hr IHr Br]; cbn [rb_colors_ok].
    - reflexivity.
    - rewrite IHl, IHr, Bl, Br. reflexivity.
    - rewrite IHl, IHr, Br. reflexivity.
  Qed.

  (** everything C15 says about a red-black table, from the table-level invariant *)
  Lemma rb_ok_props (t : tree) :
    rb_ok cmp t ->
    black_balanced t /\ no_right_red t /\ no_red_red t /\ root_black t /\
    height t <= 2 * Z.log2 (size t + 1) /\ Height RB t = height t /\ rb_check t = true.
  Proof.
    intros (HS & HZ & HB & n & HR). destruct (rbt_props t n HR) as (P1 & P2 & P3).
    split; [exists n; exact P1|]. split; [exact P2|]. split; [exact P3|]. split; [exact HB|].
    split; [rewrite sizes_count by auto; eapply rb_log_bound; eauto|]. split; [reflexivity|].
    unfold rb_check. rewrite HB, (rbt_colors_ok t n HR), (rbt_black_height t n HR). reflexivity.
  Qed.

  Theorem rb_after_history (h : list (mut K V)) :
    exists t, build cmp RB h = Ok t /\
      black_balanced t /\ no_right_red t /\ no_red_red t /\ root_black t /\
      height t <= 2 * Z.log2 (size t + 1) /\ Height RB t = height t /\ rb_check t = true.
  Proof.
    destruct (rb_build_inv cmp TO h) as [t [E1 [_ I]]].
    exists t. split; [exact E1|]. now apply rb_ok_props.
  Qed.

  (** soundness of the boolean checker the correspondence runs on the node dump *)
  Lemma black_height_sound (t : tree) n : black_height t = Some n -> black_paths t n.
  Proof.
    revert n. induction t as [|l IHl k v s h c r IHr]; intros n; cbn [black_height].
    - intros [= <-]. constructor.
    - destruct (black_height l) as [a|]; [|discriminate]. destruct (black_height r) as [b|]; [|discriminate].
      destruct (Z.eqb_spec a b) as [->|]; [|discriminate]. destruct c; intros [= <-]; constructor; auto.
  Qed.

  Lemma rb_colors_ok_sound (t : tree) : rb_colors_ok t = true -> no_right_red t /\ no_red_red t.
  Proof.
    induction t as [|l IHl k v s h c r IHr]; cbn [rb_colors_ok no_right_red no_red_red]; [auto|].
    intros H. repeat (apply andb_true_iff in H; destruct H as [H ?]).
    destruct (IHl ltac:(assumption)), (IHr ltac:(assumption)).
    apply negb_true_iff in H, H2. repeat split; auto.
    intros ->. cbn [andb] in H2. exact H2.
  Qed.

  Lemma rb_check_sound (t : tree) :
    rb_check t = true -> black_balanced t /\ no_right_red t /\ no_red_red t /\ root_black t.
  Proof.
    unfold rb_check. intros H. repeat (apply andb_true_iff in H; destruct H as [H ?]).
    apply negb_true_iff in H. destruct (rb_colors_ok_sound t ltac:(assumption)).
    destruct (black_height t) as [n|] eqn:E; [|discriminate].
    split; [exists n; now apply black_height_sound|]. auto.
  Qed.
End RB15.

(** ** the shape is determined by the pre-order and in-order traversals *)
Section Shape.
  Context {K V : Type}.
  Variable cmp : K -> K -> Z.
  Hypothesis TO : TotalOrder cmp.
  Notation tree := (tree K V).

  Lemma split_at_ok x (a b : list K) x' :
    cmp x x' = 0 -> Forall (fun y => cmp x y <> 0) a -> split_at cmp x (a ++ x' :: b) = Some (a, b).
  Proof.
    intros E. induction 1 as [|y a Hy _ IH]; simpl.
    - rewrite E. reflexivity.
    - destruct (Z.eqb_spec (cmp x y) 0); [contradiction|]. now rewrite IH.
  Qed.

  Lemma shape_height_of (t : tree) : shape_height (shape_of t) = height t.
  Proof. induction t as [|l IHl k v s h c r IHr]; cbn [shape_of shape_height height]; congruence. Qed.

  Lemma olist_length o (t : tree) : o <> OtherOrder -> length (olist o t) = length (inorder t).
  Proof. intros. apply Permutation.Permutation_length, olist_perm; auto. Qed.

  Lemma rebuild_ok (t : tree) : forall fuel,
    sorted cmp (inorder t) -> (length (olist VLR t) <= fuel)%nat ->
    rebuild cmp fuel (map fst (olist VLR t)) (map fst (inorder t)) = Some (shape_of t).
  Proof.
    induction t as [|l IHl k v s h c r IHr]; intros fuel HS HF.
    - destruct fuel; reflexivity.
    - destruct (sorted_node cmp TO _ _ _ _ _ _ _ HS) as [Sl Sr].
      rewrite inorder_node in *. cbn [olist] in *. cbn [length] in HF.
      destruct fuel as [|f]; [lia|]. cbn [map rebuild fst]. rewrite !map_app. cbn [map fst].
      apply (sorted_mid cmp TO) in HS. destruct HS as (_ & _ & HL & _).
      rewrite (split_at_ok k (map fst (inorder l)) (map fst (inorder r)) k (cmp_refl TO k)).
      2:{ apply Forall_forall. intros y Hy. apply in_map_iff in Hy. destruct Hy as [e [<- He]].
          rewrite Forall_forall in HL. specialize (HL e He). apply (cmp_antisym TO) in HL. lia. }
      rewrite map_length, <- (olist_length VLR l) by discriminate. rewrite <- (map_length fst (olist VLR l)).
      rewrite firstn_app, Nat.sub_diag, firstn_all, firstn_O, app_nil_r.
      rewrite skipn_app, Nat.sub_diag, skipn_all, skipn_O. cbn [app].
      rewrite app_length in HF.
      rewrite IHl, IHr by (auto; lia). reflexivity.
  Qed.

  Theorem shape_from_traversals_ok (t : tree) :
    sorted cmp (inorder t) ->
    shape_from_traversals cmp (trav_list VLR t) (trav_list LVR t) = Some (shape_of t).
  Proof.
    intros HS. unfold shape_from_traversals. rewrite !trav_list_olist, olist_LVR, <- inorder_olist.
    now apply rebuild_ok.
  Qed.
End Shape.

Section HeightAll.
  Context {K V : Type}.
  Variable cmp : K -> K -> Z.
  Hypothesis TO : TotalOrder cmp.
  Notation tree := (tree K V).

  (** Height() is the height of the shape that the public traversals reveal *)
  Definition height_ok (i : impl) (t : tree) : Prop :=
    exists sh, shape_from_traversals cmp (trav_list VLR t) (trav_list LVR t) = Some sh /\
               Height i t = shape_height sh.

  Theorem bst_height_ok (h : list (mut K V)) :
    exists t, build cmp BST h = Ok t /\ height_ok BST t.
  Proof.
    destruct (build_ok cmp BST _ _ (ProofsBST.bst_refines cmp TO) h (forallb_true h)) as [t [E1 [_ [HS _]]]].
    exists t. split; [exact E1|]. exists (shape_of t). split; [now apply shape_from_traversals_ok|].
    now rewrite shape_height_of.
  Qed.

  Theorem avl_height_ok (h : list (mut K V)) :
    exists t, build cmp AVL h = Ok t /\ height_ok AVL t.
  Proof.
    destruct (build_ok cmp AVL _ _ (avl_refines cmp TO) h (forallb_true h)) as [t [E1 [_ [HS HI]]]].
    exists t. split; [exact E1|]. exists (shape_of t). split; [now apply shape_from_traversals_ok|].
    rewrite shape_height_of. cbn [Height]. now apply cheight_height.
  Qed.

  Theorem height_ok_all (i : impl) (h : list (mut K V)) :
    exists t, build cmp i h = Ok t /\ height_ok i t.
  Proof.
    destruct (build_ok cmp i _ _ (refines_all cmp TO i) h (forallb_true h)) as [t [E1 [_ I]]].
    exists t. split; [exact E1|]. exists (shape_of t).
    split; [apply shape_from_traversals_ok; auto; exact (inv_sorted _ _ _ _ (refines_all cmp TO i) t I)|].
    rewrite shape_height_of. destruct i; cbn [Height]; try reflexivity.
    apply cheight_height. apply I.
  Qed.
  (** everything C15 says, per implementation, from the table-level invariant *)
  Definition c15_props (i : impl) (t : tree) : Prop :=
    match i with
    | BST => True
    | AVL => balanced t /\ cached_heights_ok t /\ avl_check t = true
    | RB => black_balanced t /\ no_right_red t /\ no_red_red t /\ root_black t /\
            height t <= 2 * Z.log2 (size t + 1) /\ rb_check t = true
    end /\ height_ok i t.

  Lemma inv_c15 (i : impl) (t : tree) : inv_of cmp i t -> c15_props i t.
  Proof.
    intros HI. split.
    - destruct i; cbn [inv_of] in HI; [exact I|..].
      + destruct HI as [_ HI]. destruct (avl_inv_balanced t HI). repeat split; auto. now apply avl_inv_check.
      + destruct (rb_ok_props cmp t HI) as (?&?&?&?&?&?&?). repeat split; auto.
    - exists (shape_of t).
      split; [apply shape_from_traversals_ok; auto; exact (inv_sorted _ _ _ _ (refines_all cmp TO i) t HI)|].
      rewrite shape_height_of. destruct i; cbn [Height]; try reflexivity.
      apply cheight_height. apply HI.
  Qed.

  (** the invariants also hold when the history continues on a SelectMatch / PartitionMatch result *)
  Theorem selection_c15 (i : impl) (h : list (mut K V)) p (h2 : list (mut K V)) :
    exists t t' t'', build cmp i h = Ok t /\ SelectMatch cmp i p t = Ok t' /\
      build_from cmp i t' h2 = Ok t'' /\ c15_props i t''.
  Proof.
    destruct (selection_all cmp (fun _ _ => true) TO i h p h2 [] eq_refl) as (t & t' & t'' & E1 & E2 & E3 & I & _).
    exists t, t', t''. repeat split; auto; now apply inv_c15.
  Qed.

  Theorem partition_c15 (i : impl) (h : list (mut K V)) p (second : bool) (h2 : list (mut K V)) :
    exists t ta tb t'', build cmp i h = Ok t /\ PartitionMatch cmp i p t = (Ok ta, Ok tb) /\
      build_from cmp i (if second then tb else ta) h2 = Ok t'' /\ c15_props i t''.
  Proof.
    destruct (partition_all cmp (fun _ _ => true) TO i h p second h2 [] eq_refl) as (t & ta & tb & t'' & E1 & E2 & E3 & I & _).
    exists t, ta, tb, t''. repeat split; auto; now apply inv_c15.
  Qed.
End HeightAll.
