(** C15 — the structural invariants as propositions over the shared tree model of C01. *)
From Algo.C01 Require Import Model.
Open Scope Z_scope.

Section Inv.
  Context {K V : Type}.
  Notation tree := (tree K V).

  (** AVL: real subtree heights differ by at most one at every node *)
  Fixpoint balanced (t : tree) : Prop :=
    match t with
    | Leaf => True
    | Node l _ _ _ _ _ r => -1 <= height l - height r <= 1 /\ balanced l /\ balanced r
    end.

  (** AVL: every cached height is the real height of its subtree *)
  Fixpoint cached_heights_ok (t : tree) : Prop :=
    match t with
    | Leaf => True
    | Node l _ _ _ h _ r => h = 1 + Z.max (height l) (height r) /\ cached_heights_ok l /\ cached_heights_ok r
    end.

  (** red-black: every root-to-leaf path has [n] black links *)
  Inductive black_paths : tree -> Z -> Prop :=
  | bp_leaf : black_paths Leaf 0
  | bp_red l k v s h r n : black_paths l n -> black_paths r n -> black_paths (Node l k v s h true r) n
  | bp_black l k v s h r n : black_paths l n -> black_paths r n -> black_paths (Node l k v s h false r) (n + 1).
  Definition black_balanced (t : tree) : Prop := exists n, black_paths t n.

  (** no right-leaning red link *)
  Fixpoint no_right_red (t : tree) : Prop :=
    match t with
    | Leaf => True
    | Node l _ _ _ _ _ r => isRed r = false /\ no_right_red l /\ no_right_red r
    end.

  (** no two red links in a row *)
  Fixpoint no_red_red (t : tree) : Prop :=
    match t with
    | Leaf => True
    | Node l _ _ _ _ c r => (c = true -> isRed l = false) /\ no_red_red l /\ no_red_red r
    end.

  Definition root_black (t : tree) : Prop := isRed t = false.

  (** number of keys, from the shape *)
  Fixpoint count (t : tree) : Z :=
    match t with Leaf => 0 | Node l _ _ _ _ _ r => 1 + count l + count r end.
End Inv.
