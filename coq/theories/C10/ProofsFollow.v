(** C10 — ComputeFOLLOW: complete for every grammar, sound when the heads of all productions are
    reachable from the start symbol. *)
From Coq Require Import List Arith Bool Lia.
From Algo.C10 Require Import Model Spec Sat ProofsFirst.
Import ListNotations.

(** * where does a symbol of [x ++ m ++ y] sit? *)
Lemma split2 {A} (m : list A) : forall u a v y, u ++ a :: v = m ++ y ->
  (exists m2, m = u ++ a :: m2 /\ v = m2 ++ y) \/ (exists y1, y = y1 ++ a :: v /\ u = m ++ y1).
Proof.
  induction m as [|c m IH]; intros u a v y H; simpl in H.
  - right. exists u. auto.
  - destruct u as [|c' u]; simpl in H; inversion H; subst.
    + left. exists m. auto.
    + destruct (IH u a v y H2) as [[m2 [-> ->]]|[y1 [-> ->]]].
      * left. exists m2. auto.
      * right. exists y1. auto.
Qed.

Lemma split3 {A} (u : list A) a v x m y : u ++ a :: v = x ++ m ++ y ->
  (exists x2, x = u ++ a :: x2 /\ v = x2 ++ m ++ y) \/
  (exists m1 m2, m = m1 ++ a :: m2 /\ u = x ++ m1 /\ v = m2 ++ y) \/
  (exists y1, y = y1 ++ a :: v /\ u = x ++ m ++ y1).
Proof.
  intros H. destruct (split2 x u a v (m ++ y) H) as [[x2 [-> ->]]|[y1 [E ->]]].
  - left. exists x2. auto.
  - symmetry in E. destruct (split2 m y1 a v y E) as [[m2 [-> ->]]|[y2 [-> ->]]].
    + right. left. exists y1, m2. auto.
    + right. right. exists y2. auto.
Qed.

Section Follow.
  Variable G : gram.
  Variable fi : list fact.
  Hypothesis fi_sound : first_sound G fi.
  Hypothesis fi_closed : first_closed G fi.
  Hypothesis fi_univ : incl fi (first_universe G).

  Definition heads_reachable : Prop := forall p, In p (prods G) -> reachable G (head p).

  (** ** extension *)
  Lemma follow_body_extends A b st : extends st (follow_body fi A b st).
  Proof.
    revert st; induction b as [|[c|B] b IH]; intros st; simpl; [apply extends_refl | apply IH |].
    eapply extends_trans; [|apply IH].
    eapply extends_trans; [apply add_terms_extends|].
    destruct (snd (first_str fi b)); [apply add_all_extends | apply extends_refl].
  Qed.

  Lemma follow_pass_extends l st : extends st (follow_pass l fi st).
  Proof. apply (fold_extends (fun st p => follow_body fi (head p) (body p) st)). intros; apply follow_body_extends. Qed.

  (** ** soundness *)
  Definition follow_sound (st : list fact) : Prop :=
    forall A x, In (A, x) st ->
      match x with Some a => follow_sem G A a | None => follow_end G A end.

  Lemma derives_into_body u v p pre B beta beta' :
    derives G [S_ G] (u ++ Nt (head p) :: v) -> In p (prods G) ->
    body p = pre ++ Nt B :: beta -> derives G beta beta' ->
    derives G [S_ G] ((u ++ pre) ++ Nt B :: beta' ++ v).
  Proof.
    intros H Hp Hb Hbeta. eapply derives_trans; [exact H|].
    eapply derives_trans; [apply derives_step, (step_intro G u v p Hp)|].
    rewrite Hb.
    replace (u ++ (pre ++ Nt B :: beta) ++ v) with ((u ++ pre ++ [Nt B]) ++ beta ++ v)
      by (rewrite <- !app_assoc; reflexivity).
    replace ((u ++ pre) ++ Nt B :: beta' ++ v) with ((u ++ pre ++ [Nt B]) ++ beta' ++ v)
      by (rewrite <- !app_assoc; reflexivity).
    now apply derives_ctx.
  Qed.

  Lemma follow_body_sound p : In p (prods G) -> reachable G (head p) ->
    forall b pre st, body p = pre ++ b -> follow_sound st ->
                     follow_sound (follow_body fi (head p) b st).
  Proof.
    intros Hp [u0 [v0 Hreach]]. induction b as [|[c|B] b IH]; intros pre st Hb Hs; simpl; [exact Hs | |].
    - apply (IH (pre ++ [Tm c])); [now rewrite <- app_assoc | exact Hs].
    - destruct (first_str_spec fi b) as [F1 F2].
      set (st1 := add_terms B (fst (first_str fi b)) st).
      assert (Hs1 : follow_sound st1).
      { intros A x Hx. apply add_terms_In in Hx. destruct Hx as [[a [Ha E]]|Hx]; [|now apply Hs].
        inversion E; subst A x. apply F1 in Ha.
        destruct (fstr_sound G fi b a fi_sound Ha) as [delta Hd].
        exists (u0 ++ pre), (delta ++ v0).
        apply (derives_into_body u0 v0 p pre B b (Tm a :: delta) Hreach Hp Hb Hd). }
      set (st2 := if snd (first_str fi b) then add_all fact_eqb (map (fun x => (B, x)) (set_of st1 (head p))) st1 else st1).
      assert (Hs2 : follow_sound st2).
      { unfold st2. destruct (snd (first_str fi b)) eqn:E; [|exact Hs1].
        assert (Hn : derives G b []) by (apply (nstr_sound G fi); [exact fi_sound | now apply F2]).
        intros A x Hx. apply (add_all_In fact_eqb fact_eqb_eq) in Hx. destruct Hx as [Hx|Hx]; [|now apply Hs1].
        apply in_map_iff in Hx. destruct Hx as [y [E' Hy]]. inversion E'; subst A x.
        apply set_of_In in Hy. specialize (Hs1 _ _ Hy). destruct y as [a|].
        - destruct Hs1 as [u [v H]]. exists (u ++ pre), v.
          apply (derives_into_body u (Tm a :: v) p pre B b [] H Hp Hb Hn).
        - destruct Hs1 as [u H]. exists (u ++ pre).
          pose proof (derives_into_body u [] p pre B b [] H Hp Hb Hn) as H'. exact H'. }
      apply (IH (pre ++ [Nt B])); [now rewrite <- app_assoc | exact Hs2].
  Qed.

  Lemma follow_fold_sound l st :
    heads_reachable -> incl l (prods G) -> follow_sound st ->
    follow_sound (fold_left (fun st p => follow_body fi (head p) (body p) st) l st).
  Proof.
    intros Hr. revert st; induction l as [|p l IH]; intros st Hl Hs; simpl; [exact Hs|].
    apply IH; [intros x Hx; apply Hl; now right|].
    apply (follow_body_sound p (Hl p (or_introl eq_refl)) (Hr p (Hl p (or_introl eq_refl))) (body p) []); auto.
  Qed.

  Lemma follow_init_sound : follow_sound [(start G, None)].
  Proof.
    intros A x [E|[]]. inversion E; subst. exists []. apply derives_refl.
  Qed.

  (** ** closure at a fixpoint *)
  Lemma follow_body_fixed A b st :
    follow_body fi A b st = st ->
    forall b1 B b2, b = b1 ++ Nt B :: b2 ->
      (forall a, fstr fi b2 a -> In (B, Some a) st)
      /\ (nstr fi b2 -> forall x, In (A, x) st -> In (B, x) st).
  Proof.
    revert st; induction b as [|[c|B'] b IH]; intros st H b1 B b2 Hb; simpl in H.
    - destruct b1; discriminate.
    - destruct b1 as [|s b1]; simpl in Hb; inversion Hb; subst. now apply (IH st H b1 B b2).
    - destruct (first_str_spec fi b) as [F1 F2].
      set (st1 := add_terms B' (fst (first_str fi b)) st) in *.
      set (st2 := if snd (first_str fi b) then add_all fact_eqb (map (fun x => (B', x)) (set_of st1 A)) st1 else st1) in *.
      assert (X1 : extends st st1) by apply add_terms_extends.
      assert (X2 : extends st1 st2)
        by (unfold st2; destruct (snd (first_str fi b)); [apply add_all_extends | apply extends_refl]).
      assert (X3 : extends st2 st) by (pose proof (follow_body_extends A b st2) as Hx; now rewrite H in Hx).
      assert (E1 : st1 = st).
      { apply extends_antisym; [exact X1|]. eapply extends_trans; eassumption. }
      assert (E2 : st2 = st).
      { apply extends_antisym; [eapply extends_trans; eassumption | exact X3]. }
      assert (Fa : forall a, fstr fi b a -> In (B', Some a) st).
      { intros a Ha. rewrite <- E1. apply add_terms_In. left. exists a. split; [now apply F1 | reflexivity]. }
      assert (Fb : nstr fi b -> forall x, In (A, x) st -> In (B', x) st).
      { intros Hn x Hx. apply F2 in Hn. unfold st2 in E2. rewrite Hn, E1 in E2.
        apply (add_all_id fact_eqb fact_eqb_eq) in E2. apply E2. apply in_map. now apply set_of_In. }
      rewrite E2 in H. clear X1 X2 X3 E1 E2. clearbody st2. clear st2. clearbody st1. clear st1.
      destruct b1 as [|s b1]; simpl in Hb; inversion Hb; subst.
      + split; assumption.
      + now apply (IH st H b1 B b2).
  Qed.

  Definition follow_closed (st : list fact) : Prop :=
    forall p, In p (prods G) -> forall b1 B b2, body p = b1 ++ Nt B :: b2 ->
      (forall a, fstr fi b2 a -> In (B, Some a) st)
      /\ (nstr fi b2 -> forall x, In (head p, x) st -> In (B, x) st).

  Lemma follow_fixed_closed l st :
    (forall p, In p (prods G) -> In p l) -> follow_pass l fi st = st -> follow_closed st.
  Proof.
    intros Hl Hfix p Hp. apply Hl in Hp. apply follow_body_fixed.
    apply (fold_fixed (fun st p => follow_body fi (head p) (body p) st)
             (fun s q => follow_body_extends (head q) (body q) s) _ _ Hfix p Hp).
  Qed.

  (** ** completeness at a fixpoint: every sentential form derived from S respects the table *)
  Definition fol_ok (st : list fact) (gamma : list sym) : Prop :=
    forall u B v, gamma = u ++ Nt B :: v ->
      (forall a, fstr fi v a -> In (B, Some a) st) /\ (nstr fi v -> In (B, None) st).

  Lemma follow_complete_form st :
    follow_closed st -> In (start G, None) st ->
    forall gamma, clos_refl_trans_n1 _ (step G) [S_ G] gamma -> fol_ok st gamma.
  Proof.
    intros Hc Hst gamma H. induction H as [|gamma' gamma Hstep _ IH].
    - intros u B v E. destruct u as [|s u]; simpl in E.
      + inversion E; subst. split; [simpl; tauto | auto].
      + inversion E. destruct u; discriminate.
    - destruct Hstep as [x y p Hp]. intros u B v E.
      destruct (fi_closed p Hp) as [C1 C2].
      destruct (split3 u (Nt B) v x (body p) y (eq_sym E)) as [[x2 [-> ->]]|[[m1 [m2 [Em [-> ->]]]]|[y1 [-> ->]]]].
      + destruct (IH u B (x2 ++ Nt (head p) :: y)) as [I1 I2]; [now rewrite <- app_assoc|].
        split.
        * intros a Ha. apply I1. rewrite !fstr_app in Ha. rewrite fstr_app. simpl. specialize (C1 a). tauto.
        * intros Hn. apply I2. rewrite !nstr_app in Hn. rewrite nstr_app. simpl. tauto.
      + destruct (Hc p Hp m1 B m2 Em) as [K1 K2].
        destruct (IH x (head p) y eq_refl) as [I1 I2].
        split.
        * intros a Ha. rewrite fstr_app in Ha. destruct Ha as [Ha|[Hn Ha]]; [now apply K1|].
          apply K2; auto.
        * intros Hn. rewrite nstr_app in Hn. destruct Hn as [Hn1 Hn2]. apply K2; auto.
      + apply (IH (x ++ Nt (head p) :: y1) B v). rewrite <- !app_assoc. reflexivity.
  Qed.

  Lemma follow_complete st A :
    follow_closed st -> In (start G, None) st ->
    (forall a, follow_sem G A a -> In (A, Some a) st) /\ (follow_end G A -> In (A, None) st).
  Proof.
    intros Hc Hst. split.
    - intros a [u [v H]]. apply clos_rt_rtn1 in H.
      destruct (follow_complete_form st Hc Hst _ H u A (Tm a :: v) eq_refl) as [I _].
      apply I. simpl. now left.
    - intros [u H]. apply clos_rt_rtn1 in H.
      destruct (follow_complete_form st Hc Hst _ H u A [] eq_refl) as [_ I]. now apply I.
  Qed.

  (** ** the table is the least set closed under the three FOLLOW rules (every grammar) *)
  Inductive followI : nat -> option nat -> Prop :=
  | fI_start : followI (start G) None
  | fI_first p b1 B b2 a :
      In p (prods G) -> body p = b1 ++ Nt B :: b2 -> fstr fi b2 a -> followI B (Some a)
  | fI_inherit p b1 B b2 x :
      In p (prods G) -> body p = b1 ++ Nt B :: b2 -> nstr fi b2 -> followI (head p) x -> followI B x.

  Definition follow_ruled (st : list fact) : Prop := forall A x, In (A, x) st -> followI A x.

  Lemma follow_body_ruled p : In p (prods G) ->
    forall b pre st, body p = pre ++ b -> follow_ruled st -> follow_ruled (follow_body fi (head p) b st).
  Proof.
    intros Hp. induction b as [|[c|B] b IH]; intros pre st Hb Hs; simpl; [exact Hs | |].
    - apply (IH (pre ++ [Tm c])); [now rewrite <- app_assoc | exact Hs].
    - destruct (first_str_spec fi b) as [F1 F2].
      set (st1 := add_terms B (fst (first_str fi b)) st).
      assert (Hs1 : follow_ruled st1).
      { intros A x Hx. apply add_terms_In in Hx. destruct Hx as [[a [Ha E]]|Hx]; [|now apply Hs].
        inversion E; subst A x. apply F1 in Ha. now apply (fI_first p pre B b a). }
      set (st2 := if snd (first_str fi b) then add_all fact_eqb (map (fun x => (B, x)) (set_of st1 (head p))) st1 else st1).
      assert (Hs2 : follow_ruled st2).
      { unfold st2. destruct (snd (first_str fi b)) eqn:E; [|exact Hs1].
        intros A x Hx. apply (add_all_In fact_eqb fact_eqb_eq) in Hx. destruct Hx as [Hx|Hx]; [|now apply Hs1].
        apply in_map_iff in Hx. destruct Hx as [y [E' Hy]]. inversion E'; subst A x.
        apply set_of_In in Hy. apply (fI_inherit p pre B b y Hp Hb); [now apply F2 | now apply Hs1]. }
      apply (IH (pre ++ [Nt B])); [now rewrite <- app_assoc | exact Hs2].
  Qed.

  Lemma follow_fold_ruled l st :
    incl l (prods G) -> follow_ruled st ->
    follow_ruled (fold_left (fun st p => follow_body fi (head p) (body p) st) l st).
  Proof.
    revert st; induction l as [|p l IH]; intros st Hl Hs; simpl; [exact Hs|].
    apply IH; [intros x Hx; apply Hl; now right|].
    apply (follow_body_ruled p (Hl p (or_introl eq_refl)) (body p) []); auto.
  Qed.

  Lemma follow_closed_contains st :
    follow_closed st -> In (start G, None) st -> forall A x, followI A x -> In (A, x) st.
  Proof.
    intros Hc Hst A x H. induction H as [|p b1 B b2 a Hp Hb Ha | p b1 B b2 x Hp Hb Hn _ IH].
    - exact Hst.
    - destruct (Hc p Hp b1 B b2 Hb) as [K _]. now apply K.
    - destruct (Hc p Hp b1 B b2 Hb) as [_ K]. now apply K.
  Qed.

  (** ** termination *)
  Definition body_nts (b : list sym) : list nat :=
    flat_map (fun s => match s with Nt B => [B] | Tm _ => [] end) b.
  Definition bnts : list nat := flat_map (fun p => body_nts (body p)) (prods G).
  Definition follow_universe : list fact :=
    list_prod (start G :: bnts) (None :: map Some (bterms G)).

  Lemma body_nts_In b B : In B (body_nts b) <-> In (Nt B) b.
  Proof.
    unfold body_nts. rewrite in_flat_map. split.
    - intros [[c|C] [H1 H2]]; simpl in H2; [destruct H2 | destruct H2 as [->|[]]; exact H1].
    - intros H. exists (Nt B). split; [exact H | now left].
  Qed.

  Lemma body_nts_length b : length (body_nts b) <= length b.
  Proof.
    unfold body_nts. induction b as [|[a|A] b IH]; simpl;
      [apply le_n | apply le_S; exact IH | apply le_n_S; exact IH].
  Qed.

  Lemma bnts_length : length bnts <= body_len_sum G.
  Proof.
    unfold bnts, body_len_sum. induction (prods G) as [|p l IH]; simpl; [apply le_n|].
    rewrite app_length. apply Nat.add_le_mono; [apply body_nts_length | exact IH].
  Qed.

  Lemma bnts_In p B : In p (prods G) -> In (Nt B) (body p) -> In B bnts.
  Proof. intros Hp HB. unfold bnts. apply in_flat_map. exists p. split; [exact Hp | now apply body_nts_In]. Qed.

  Lemma in_funiverse A x :
    In A (start G :: bnts) -> (match x with Some a => In a (bterms G) | None => True end) ->
    In (A, x) follow_universe.
  Proof.
    intros HA Hx. apply in_prod; [exact HA|]. destruct x as [a|]; [right; now apply in_map | now left].
  Qed.

  Lemma funiverse_inv A x : In (A, x) follow_universe ->
    In A (start G :: bnts) /\ match x with Some a => In a (bterms G) | None => True end.
  Proof.
    intros H. apply in_prod_iff in H. destruct H as [H1 H2]. split; [exact H1|].
    destruct x as [a|]; [|exact I]. destruct H2 as [H2|H2]; [discriminate|].
    apply in_map_iff in H2. destruct H2 as [b [E Hb]]. now inversion E; subst.
  Qed.

  Lemma fstr_bterms p b a : In p (prods G) -> incl b (body p) -> fstr fi b a -> In a (bterms G).
  Proof.
    intros Hp. induction b as [|X b IH]; simpl; [tauto|]. intros Hb [H|[_ H]].
    - destruct X as [c|C]; simpl in H.
      + subst c. apply (bterms_In G p); [exact Hp | apply Hb; now left].
      + apply fi_univ in H. now apply universe_inv in H.
    - apply IH; [intros x Hx; apply Hb; now right | exact H].
  Qed.

  Lemma follow_body_inv p : In p (prods G) ->
    forall b st, incl b (body p) -> NoDup st -> incl st follow_universe ->
      NoDup (follow_body fi (head p) b st) /\ incl (follow_body fi (head p) b st) follow_universe.
  Proof.
    intros Hp. induction b as [|[c|B] b IH]; intros st Hb Hn Hi; simpl; [auto | |].
    - apply IH; auto. intros x Hx; apply Hb; now right.
    - destruct (first_str_spec fi b) as [F1 _].
      assert (HB : In B (start G :: bnts)) by (right; apply (bnts_In p); [exact Hp | apply Hb; now left]).
      assert (Hb' : incl b (body p)) by (intros x Hx; apply Hb; now right).
      set (st1 := add_terms B (fst (first_str fi b)) st).
      assert (Hn1 : NoDup st1) by (apply add_all_NoDup; [apply fact_eqb_eq | exact Hn]).
      assert (Hi1 : incl st1 follow_universe).
      { intros f Hf. apply add_terms_In in Hf. destruct Hf as [[a [Ha ->]]|Hf]; [|now apply Hi].
        apply in_funiverse; [exact HB|]. apply F1 in Ha. now apply (fstr_bterms p b). }
      set (st2 := if snd (first_str fi b) then add_all fact_eqb (map (fun x => (B, x)) (set_of st1 (head p))) st1 else st1).
      assert (Hn2 : NoDup st2)
        by (unfold st2; destruct (snd (first_str fi b)); [apply add_all_NoDup; [apply fact_eqb_eq | exact Hn1] | exact Hn1]).
      assert (Hi2 : incl st2 follow_universe).
      { unfold st2; destruct (snd (first_str fi b)); [|exact Hi1].
        intros f Hf. apply (add_all_In fact_eqb fact_eqb_eq) in Hf. destruct Hf as [Hf|Hf]; [|now apply Hi1].
        apply in_map_iff in Hf. destruct Hf as [y [<- Hy]]. apply set_of_In in Hy.
        apply Hi1, funiverse_inv in Hy. apply in_funiverse; [exact HB | apply Hy]. }
      apply IH; auto.
  Qed.

  Lemma follow_fold_inv l st :
    incl l (prods G) -> NoDup st -> incl st follow_universe ->
    NoDup (fold_left (fun st p => follow_body fi (head p) (body p) st) l st)
    /\ incl (fold_left (fun st p => follow_body fi (head p) (body p) st) l st) follow_universe.
  Proof.
    revert st; induction l as [|p l IH]; intros st Hl Hn Hi; simpl; [auto|].
    destruct (follow_body_inv p (Hl p (or_introl eq_refl)) (body p) st (incl_refl _) Hn Hi) as [Hn' Hi'].
    apply IH; auto. intros x Hx; apply Hl; now right.
  Qed.

  Variable O : oracle.
  Hypothesis HO : orders_ok G (o_follow O).

  Let passes := fun i => follow_pass (o_follow O i) fi.
  Let passes_ext : forall i s, extends s (passes i s) := fun i s => follow_pass_extends _ s.
  Let HO1 : forall j, incl (o_follow O j) (prods G) := fun j p Hp => proj1 (HO j p) Hp.
  Let HO2 : forall j p, In p (prods G) -> In p (o_follow O j) := fun j p Hp => proj2 (HO j p) Hp.

  Lemma follow_table_terminates : follow_table G O fi <> None.
  Proof.
    unfold follow_table.
    apply (sat_loop_terminates passes passes_ext follow_universe).
    - intros j x Hn Hi. apply follow_fold_inv; auto.
    - constructor; [intros [] | constructor].
    - intros x [<-|[]]. apply in_funiverse; [now left | exact I].
    - unfold follow_universe, follow_fuel, fact. rewrite prod_length. simpl. rewrite map_length.
      pose proof (bterms_length G). pose proof bnts_length.
      assert (S (length bnts) * S (length (bterms G)) <= S (body_len_sum G) * S (body_len_sum G))
        by (apply Nat.mul_le_mono; lia).
      lia.
  Qed.

  (** ** the theorem on the table *)
  Theorem follow_table_props :
    exists st, follow_table G O fi = Some st /\
      (forall A, (forall a, follow_sem G A a -> In (A, Some a) st) /\ (follow_end G A -> In (A, None) st)) /\
      (heads_reachable -> follow_sound st) /\
      follow_closed st /\ In (start G, None) st /\ incl st follow_universe /\
      (forall A x, In (A, x) st <-> followI A x).
  Proof.
    destruct (follow_table G O fi) as [st|] eqn:E; [|now destruct follow_table_terminates].
    exists st. split; [reflexivity|]. unfold follow_table in E.
    assert (Hc : follow_closed st).
    { destruct (sat_loop_fix passes passes_ext _ _ _ _ E) as [j Hj].
      apply (follow_fixed_closed (o_follow O j)); [apply HO2 | exact Hj]. }
    assert (Hst : In (start G, None) st).
    { eapply (sat_loop_inv passes (fun x => In (start G, None) x)); [| |exact E].
      - intros j x Hx. now apply (extends_incl _ _ (passes_ext j x)).
      - now left. }
    split; [|split; [|split; [|split; [|split]]]]; auto.
    - intros A. now apply follow_complete.
    - intros Hr. eapply (sat_loop_inv passes follow_sound); [| apply follow_init_sound | exact E].
      intros j x Hx. apply follow_fold_sound; auto.
    - assert (HP : NoDup st /\ incl st follow_universe); [|apply HP].
      eapply (sat_loop_inv passes (fun x => NoDup x /\ incl x follow_universe)); [| |exact E].
      + intros j x H. apply (follow_fold_inv (o_follow O j) x (HO1 j) (proj1 H) (proj2 H)).
      + split; [constructor; [intros [] | constructor]|].
        intros x [<-|[]]. apply in_funiverse; [now left | exact I].
    - intros A x. split; [|now apply follow_closed_contains].
      revert A x. change (follow_ruled st).
      eapply (sat_loop_inv passes follow_ruled); [| |exact E].
      + intros j y Hy. apply follow_fold_ruled; auto.
      + intros A x [H|[]]. inversion H; subst. constructor.
  Qed.
End Follow.
