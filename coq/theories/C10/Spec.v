(** C10 — specification vocabulary: valid grammars, reachability, productivity, and the semantic
    characterisations of nullable / FIRST / FOLLOW in terms of derivations of the shared base. *)
From Algo.C10 Require Export Model.

(** what [Verify()] accepts, plus: the production list is a set *)
Definition valid (G : gram) : Prop := verify G = true /\ nodup_prods (prods G) = true.

(** an iteration oracle enumerates, in every pass of every loop, exactly the productions
    (any permutation, with or without repetitions) *)
Definition orders_ok (G : gram) (o : orders) : Prop := forall i p, In p (o i) <-> In p (prods G).
Definition oracle_ok (G : gram) (O : oracle) : Prop :=
  orders_ok G (o_null O) /\ orders_ok G (o_first O) /\ orders_ok G (o_follow O).

Definition S_ (G : gram) : sym := Nt (start G).

Definition reachable (G : gram) (A : nat) : Prop :=
  exists u v, derives G [S_ G] (u ++ Nt A :: v).
Definition all_reachable (G : gram) : Prop := forall A, In A (nonterms G) -> reachable G A.

Definition productive (G : gram) (A : nat) : Prop := exists w : list nat, derives G [Nt A] (map Tm w).
Definition all_productive (G : gram) : Prop := forall A, In A (nonterms G) -> productive G A.

(** A ⇒* ε *)
Definition nullable_nt (G : gram) (A : nat) : Prop := derives G [Nt A] [].
(** a can begin a sentential form derived from α *)
Definition first_sem (G : gram) (alpha : list sym) (a : nat) : Prop :=
  exists beta, derives G alpha (Tm a :: beta).
Definition nullable_str (G : gram) (alpha : list sym) : Prop := derives G alpha [].
(** a can appear immediately after A in a sentential form derived from the start symbol *)
Definition follow_sem (G : gram) (A a : nat) : Prop :=
  exists u v, derives G [S_ G] (u ++ Nt A :: Tm a :: v).
(** A can end a sentential form derived from the start symbol *)
Definition follow_end (G : gram) (A : nat) : Prop :=
  exists u, derives G [S_ G] (u ++ [Nt A]).

(** every cell of the table holds at most one production *)
Definition table_deterministic (t : table) : Prop :=
  forall A a, length (cell_prods t A a) <= 1.
