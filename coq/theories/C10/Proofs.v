(** C10 — the property-level theorems: the public entry points against the derivation semantics. *)
From Coq Require Import List Arith Bool Lia Permutation.
From Algo.C10 Require Import Model Spec Sat ProofsNullable ProofsFirst ProofsFollow ProofsTable.
Import ListNotations.

(** * what [Verify()] guarantees *)
Section Valid.
  Variable G : gram.
  Hypothesis HV : valid G.

  Lemma valid_start : In (start G) (nonterms G).
  Proof.
    destruct HV as [H _]. unfold verify in H. repeat (apply andb_true_iff in H; destruct H as [H ?]).
    now apply mem_In.
  Qed.

  Lemma valid_prod p : In p (prods G) ->
    In (head p) (nonterms G) /\ forall s, In s (body p) -> known G s = true.
  Proof.
    intros Hp. destruct HV as [H _]. unfold verify in H. apply andb_true_iff in H. destruct H as [_ H].
    rewrite forallb_forall in H. specialize (H p Hp). apply andb_true_iff in H. destruct H as [H1 H2].
    split; [now apply mem_In|]. now rewrite forallb_forall in H2.
  Qed.

  Lemma valid_has_prod A : In A (nonterms G) -> exists p, In p (prods G) /\ head p = A.
  Proof.
    intros HA. destruct HV as [H _]. unfold verify in H.
    apply andb_true_iff in H. destruct H as [H _]. apply andb_true_iff in H. destruct H as [_ H].
    rewrite forallb_forall in H. specialize (H A HA). apply existsb_exists in H.
    destruct H as [p [Hp E]]. apply Nat.eqb_eq in E. eauto.
  Qed.

  Lemma nodup_prods_NoDup (l : list prod) : nodup_prods l = true -> NoDup l.
  Proof.
    induction l as [|p l IH]; simpl; [constructor|]. intros H. apply andb_true_iff in H. destruct H as [H1 H2].
    constructor; [|now apply IH]. apply (memb_false prod_eqb prod_eqb_eq). now destruct (memb prod_eqb p l).
  Qed.

  Lemma valid_NoDup : NoDup (prods G).
  Proof. apply nodup_prods_NoDup, HV. Qed.

  Lemma known_sentential gamma : derives G [S_ G] gamma -> forall s, In s gamma -> known G s = true.
  Proof.
    intros H. apply clos_rt_rtn1 in H. induction H as [|g' g Hstep _ IH].
    - intros s [<-|[]]. simpl. apply mem_In, valid_start.
    - destruct Hstep as [u v p Hp]. intros s Hs. rewrite !in_app_iff in Hs.
      destruct Hs as [Hs|[Hs|Hs]].
      + apply IH. apply in_or_app. now left.
      + now apply (valid_prod p Hp).
      + apply IH. apply in_or_app. right. now right.
  Qed.

  Lemma bterms_terms a : In a (bterms G) -> In a (terms G).
  Proof.
    unfold bterms. rewrite in_flat_map. intros [p [Hp Ha]]. apply body_terms_In in Ha.
    destruct (valid_prod p Hp) as [_ H]. specialize (H _ Ha). now apply mem_In.
  Qed.
End Valid.

(** productive symbols make productive strings *)
Lemma productive_string (G : gram) v :
  (forall B, In (Nt B) v -> productive G B) -> exists w : list nat, derives G v (map Tm w).
Proof.
  induction v as [|s v IH]; intros H.
  - exists []. apply derives_refl.
  - destruct IH as [w Hw]; [intros B HB; apply H; now right|].
    destruct s as [a|B].
    + exists (a :: w). simpl. now apply derives_cons.
    + destruct (H B (or_introl eq_refl)) as [w1 Hw1]. exists (w1 ++ w). rewrite map_app.
      now apply (derives_app G [Nt B] (map Tm w1) v (map Tm w)).
Qed.

Lemma ForallOrdPairs_distinct {A} (R : A -> A -> Prop) (l : list A) :
  NoDup l -> (forall p q, In p l -> In q l -> p <> q -> R p q) -> ForallOrdPairs R l.
Proof.
  induction l as [|x l IH]; intros Hd H; [constructor|]. inversion Hd; subst. constructor.
  - apply Forall_forall. intros y Hy. apply H; [now left | now right | intros ->; contradiction].
  - apply IH; [assumption|]. intros p q Hp Hq. apply H; now right.
Qed.

(** * everything about one grammar *)
Section Main.
  Variable G : gram.
  Variable O : oracle.
  Hypothesis HO : oracle_ok G O.
  Let HOn : orders_ok G (o_null O) := proj1 HO.
  Let HOf : orders_ok G (o_first O) := proj1 (proj2 HO).
  Let HOo : orders_ok G (o_follow O) := proj2 (proj2 HO).

  (** the analysis never runs out of fuel, and its components are the three tables *)
  Lemma analyse_total :
    exists nu fi fo,
      nullable G O = Some nu /\ first_table G O = Some fi /\ follow_table G O fi = Some fo /\
      analyse G O = Some (mkAnalysis nu fi fo (ll1_errors fi fo (prods G)) (table_build G fi fo)
                                   (conflicts G (table_build G fi fo))).
  Proof.
    destruct (nullable_exact G O HOn) as [nu [En _]].
    destruct (first_table_exact G O HOf) as [fi [Ef _]].
    destruct (first_table_props G O HOf fi Ef) as [F1 [F2 F3]].
    destruct (follow_table_props G fi F1 F2 F3 O HOo) as [fo [Eo _]].
    exists nu, fi, fo. unfold analyse. rewrite En, Ef, Eo. auto.
  Qed.

  (** ** nullable *)
  Theorem nullable_thm :
    exists nu, NullableNonTerminals G O = Some nu /\ forall A, In A nu <-> nullable_nt G A.
  Proof. apply nullable_exact, HOn. Qed.

  (** ** FIRST *)
  Theorem first_thm alpha :
    Forall (fun s => known G s = true) alpha ->
    exists ts e, FIRST G O alpha = Some (Ok (ts, e))
                 /\ (forall a, In a ts <-> first_sem G alpha a)
                 /\ (e = true <-> nullable_str G alpha).
  Proof.
    intros Hk. destruct (first_table_exact G O HOf) as [fi [Ef [X1 X2]]].
    destruct (first_str_go_spec G fi alpha [] Hk) as [ts [E Hts]].
    destruct (first_str_spec fi alpha) as [S1 S2].
    exists ts, (snd (first_str fi alpha)). unfold FIRST. rewrite Ef. split; [now rewrite E|]. split.
    - intros a. rewrite Hts, S1, X1. simpl. tauto.
    - now rewrite S2, X2.
  Qed.

  (** a symbol outside the grammar panics exactly when the scan reaches it *)
  Theorem first_panic_thm alpha X beta :
    Forall (fun s => known G s = true) alpha -> known G X = false ->
    FIRST G O (alpha ++ X :: beta) = Some Panic <-> nullable_str G alpha.
  Proof.
    intros Hk HX. destruct (first_table_exact G O HOf) as [fi [Ef [_ X2]]]. unfold FIRST. rewrite Ef.
    rewrite <- X2. clear X2 Ef. generalize (@nil nat) as acc.
    induction Hk as [|Y alpha HY _ IH]; intros acc; simpl.
    - rewrite HX. tauto.
    - rewrite HY. destruct (first_sym_eps fi Y) eqn:E.
      + rewrite IH. apply first_sym_eps_true in E. tauto.
      + split; [discriminate|]. intros [H _]. apply first_sym_eps_true in H. congruence.
  Qed.

  (** ** FOLLOW *)
  Theorem follow_complete_thm A :
    In A (nonterms G) ->
    exists ts e, FOLLOW G O A = Some (Ok (ts, e))
                 /\ (forall a, follow_sem G A a -> In a ts) /\ (follow_end G A -> e = true).
  Proof.
    intros HA. destruct (first_table_exact G O HOf) as [fi [Ef _]].
    destruct (first_table_props G O HOf fi Ef) as [F1 [F2 F3]].
    destruct (follow_table_props G fi F1 F2 F3 O HOo) as [fo [Eo [Hc _]]].
    exists (terms_of fo A), (flag_of fo A). unfold FOLLOW, follow_go. rewrite Ef, Eo.
    apply mem_In in HA. rewrite HA. split; [reflexivity|]. split.
    - intros a Ha. apply terms_of_In. now apply Hc.
    - intros He. apply flag_of_true. now apply Hc.
  Qed.

  Theorem follow_thm A :
    valid G -> all_reachable G -> In A (nonterms G) ->
    exists ts e, FOLLOW G O A = Some (Ok (ts, e))
                 /\ (forall a, In a ts <-> follow_sem G A a) /\ (e = true <-> follow_end G A).
  Proof.
    intros HV Hr HA. destruct (first_table_exact G O HOf) as [fi [Ef _]].
    destruct (first_table_props G O HOf fi Ef) as [F1 [F2 F3]].
    destruct (follow_table_props G fi F1 F2 F3 O HOo) as [fo [Eo [Hc [Hs _]]]].
    assert (Hs' : follow_sound G fo).
    { apply Hs. intros p Hp. apply Hr. now apply (valid_prod G HV p Hp). }
    exists (terms_of fo A), (flag_of fo A). unfold FOLLOW, follow_go. rewrite Ef, Eo.
    apply mem_In in HA. rewrite HA. split; [reflexivity|]. split.
    - intros a. rewrite terms_of_In. split; [apply (Hs' A (Some a)) | apply Hc].
    - rewrite flag_of_true. split; [apply (Hs' A None) | apply Hc].
  Qed.

  Theorem follow_panic_thm A : ~ In A (nonterms G) -> FOLLOW G O A = Some Panic.
  Proof.
    intros HA. destruct (first_table_exact G O HOf) as [fi [Ef _]].
    destruct (first_table_props G O HOf fi Ef) as [F1 [F2 F3]].
    destruct (follow_table_props G fi F1 F2 F3 O HOo) as [fo [Eo _]].
    unfold FOLLOW, follow_go. rewrite Ef, Eo.
    destruct (mem A (nonterms G)) eqn:E; [apply mem_In in E; contradiction | reflexivity].
  Qed.

  (** ** the table and IsLL1 *)
  Lemma conflicts_true t :
    conflicts G t = true <->
    exists A a, In A (nonterms G) /\ In a (lookaheads G) /\ 1 < length (cell_prods t A a).
  Proof.
    unfold conflicts. rewrite existsb_exists. split.
    - intros [A [HA H]]. apply existsb_exists in H. destruct H as [a [Ha H]].
      apply Nat.ltb_lt in H. eauto.
    - intros [A [a [HA [Ha H]]]]. exists A. split; [exact HA|]. apply existsb_exists.
      exists a. split; [exact Ha | now apply Nat.ltb_lt].
  Qed.

  Section WithTables.
    Variables fi fo : list fact.
    Hypothesis Ef : first_table G O = Some fi.
    Hypothesis Eo : follow_table G O fi = Some fo.
    Let t := table_build G fi fo.

    (** a conflict always comes with an IsLL1 error (for every grammar) *)
    Lemma conflict_implies_ll1_error :
      (exists A a, 1 < length (cell_prods t A a)) -> ll1_errors fi fo (prods G) <> 0.
    Proof.
      intros [A [x Hl]] Hz. apply ll1_errors_zero in Hz.
      destruct (two_in_cell _ (table_build_NoDup G fi fo A x) Hl) as [p [q [Hp [Hq Hne]]]].
      apply table_build_cell in Hp, Hq. destruct Hp as [Hp [Ep Sp]], Hq as [Hq [Eq Sq]].
      destruct (ForallOrdPairs_In Hz p q Hp Hq) as [E|[R|R]]; [contradiction| |].
      - apply (shared_cell_not_ok fi fo p q x); [congruence | assumption | assumption | apply R; congruence].
      - apply (shared_cell_not_ok fi fo q p x); [congruence | assumption | assumption | apply R; congruence].
    Qed.

    Hypothesis HV : valid G.

    (** under Verify(), Conflicts() scans every cell that can hold a production *)
    Lemma cell_in_scan A x q : In q (cell_prods t A x) -> In A (nonterms G) /\ In x (lookaheads G).
    Proof.
      intros H. apply table_build_cell in H. destruct H as [Hq [E Hs]]. subst A.
      destruct (first_table_props G O HOf fi Ef) as [F1 [F2 F3]].
      destruct (follow_table_props G fi F1 F2 F3 O HOo) as [fo' [Eo' [_ [_ [_ [_ [Hu _]]]]]]].
      rewrite Eo in Eo'. inversion Eo'; subst fo'.
      split; [now apply (valid_prod G HV q Hq)|].
      unfold lookaheads. apply in_or_app. apply select_In in Hs.
      destruct Hs as [[a [-> Ha]]|[_ Hx]].
      - left. apply in_map. apply (bterms_terms G HV). apply (fstr_bterms G fi F3 q (body q) a Hq (incl_refl _) Ha).
      - apply Hu, funiverse_inv in Hx. destruct Hx as [_ Hx]. destruct x as [a|]; [|right; now left].
        left. apply in_map. now apply (bterms_terms G HV).
    Qed.

    Lemma conflicts_false_deterministic : conflicts G t = false <-> table_deterministic t.
    Proof.
      split.
      - intros Hc A x. destruct (le_lt_dec (length (cell_prods t A x)) 1) as [|Hl]; [assumption|].
        exfalso. assert (Hne : exists q, In q (cell_prods t A x))
          by (destruct (cell_prods t A x) as [|q l]; [simpl in Hl; lia | exists q; now left]).
        destruct Hne as [q Hq]. destruct (cell_in_scan A x q Hq) as [HA Hx].
        assert (conflicts G t = true) by (apply conflicts_true; eauto). congruence.
      - intros Hd. destruct (conflicts G t) eqn:E; [|reflexivity].
        apply conflicts_true in E. destruct E as [A [a [_ [_ Hl]]]]. specialize (Hd A a). lia.
    Qed.

    Hypothesis HR : all_reachable G.
    Hypothesis HP : all_productive G.

    (** FOLLOW(A) is inhabited when everything is reachable and productive *)
    Lemma follow_inhabited A : In A (nonterms G) -> exists x, In (A, x) fo.
    Proof.
      intros HA. destruct (first_table_props G O HOf fi Ef) as [F1 [F2 F3]].
      destruct (follow_table_props G fi F1 F2 F3 O HOo) as [fo' [Eo' [Hc _]]].
      rewrite Eo in Eo'. inversion Eo'; subst fo'.
      destruct (HR A HA) as [u [v Hd]].
      destruct (productive_string G v) as [w Hw].
      { intros B HB. apply HP. pose proof (known_sentential G HV _ Hd (Nt B)) as K.
        apply mem_In. apply K. apply in_or_app. right. now right. }
      assert (Hd' : derives G [S_ G] (u ++ Nt A :: map Tm w)).
      { eapply derives_trans; [exact Hd|].
        apply (derives_app G u u (Nt A :: v) (Nt A :: map Tm w)); [apply derives_refl | now apply derives_cons]. }
      destruct w as [|a w]; simpl in Hd'.
      - exists None. apply Hc. now exists u.
      - exists (Some a). apply Hc. now exists u, (map Tm w).
    Qed.

    Lemma deterministic_implies_ll1 : table_deterministic t -> ll1_errors fi fo (prods G) = 0.
    Proof.
      intros Hd. apply ll1_errors_zero.
      apply ForallOrdPairs_distinct; [apply (valid_NoDup G HV)|].
      intros p q Hp Hq Hne E.
      assert (Share : forall x, In x (select fi fo p) -> In x (select fi fo q) -> False).
      { intros x Sp Sq. apply Hne.
        apply (proj1 (cell_le_1 _ (table_build_NoDup G fi fo (head p) x)) (Hd (head p) x));
          apply table_build_cell; auto. }
      unfold pair_ok. repeat split.
      - intros a Ha Hb. apply (Share (Some a)); apply select_In; left; eauto.
      - intros Hn1 Hn2. destruct (follow_inhabited (head p)) as [x Hx]; [now apply (valid_prod G HV p Hp)|].
        apply (Share x); apply select_In; right; [auto | rewrite <- E; auto].
      - intros Hn a Ha Hf. apply (Share (Some a)); apply select_In; [right; auto | left; eauto].
      - intros Hn a Ha Hf. apply (Share (Some a)); apply select_In; [left; eauto | right; rewrite <- E; auto].
    Qed.
  End WithTables.

  Theorem ll1_conflict_thm t :
    BuildParsingTable G O = Some (t, true) -> IsLL1 G O = Some false.
  Proof.
    destruct analyse_total as [nu [fi [fo [En [Ef [Eo Ea]]]]]].
    unfold BuildParsingTable, IsLL1. rewrite Ea. simpl. intros H. inversion H as [[Ht Hc]].
    apply conflicts_true in Hc. destruct Hc as [A [a [_ [_ Hl]]]].
    destruct (ll1_errors fi fo (prods G) =? 0) eqn:E; [|reflexivity].
    apply Nat.eqb_eq in E. exfalso. apply (conflict_implies_ll1_error fi fo); eauto.
  Qed.

  Theorem table_cells_thm :
    valid G -> exists t c, BuildParsingTable G O = Some (t, c) /\ (c = false <-> table_deterministic t).
  Proof.
    intros HV. destruct analyse_total as [nu [fi [fo [En [Ef [Eo Ea]]]]]].
    unfold BuildParsingTable. rewrite Ea. simpl. eexists. eexists. split; [reflexivity|].
    now apply conflicts_false_deterministic.
  Qed.

  Theorem ll1_iff_thm :
    valid G -> all_reachable G -> all_productive G ->
    exists t c, BuildParsingTable G O = Some (t, c) /\ (IsLL1 G O = Some true <-> c = false)
                /\ (c = false <-> table_deterministic t).
  Proof.
    intros HV HR HP. destruct analyse_total as [nu [fi [fo [En [Ef [Eo Ea]]]]]].
    unfold BuildParsingTable, IsLL1. rewrite Ea. simpl. eexists. eexists. split; [reflexivity|].
    pose proof (conflicts_false_deterministic fi fo Ef Eo HV) as D. split; [|exact D]. split.
    - intros H. inversion H as [H']. apply Nat.eqb_eq in H'.
      destruct (conflicts G (table_build G fi fo)) eqn:C; [|reflexivity].
      exfalso. apply conflicts_true in C. destruct C as [A [a [_ [_ Hl]]]].
      apply (conflict_implies_ll1_error fi fo); eauto.
    - intros C. apply D in C. rewrite (deterministic_implies_ll1 fi fo Ef Eo HV HR HP C). reflexivity.
  Qed.

  Theorem analyse_terminates : analyse G O <> None.
  Proof. destruct analyse_total as [nu [fi [fo [_ [_ [_ Ea]]]]]]. rewrite Ea. discriminate. Qed.
End Main.

(** * independence of the order in which productions are listed (Go iterates in random order) *)
Lemma derives_same_prods (G G' : gram) :
  (forall p, In p (prods G) <-> In p (prods G')) -> forall x y, derives G x y -> derives G' x y.
Proof.
  intros H x y D. induction D as [x y Hs | x | x y z _ IH1 _ IH2].
  - apply derives_step. destruct Hs as [u v p Hp]. constructor. now apply H.
  - apply derives_refl.
  - eapply derives_trans; eauto.
Qed.

Theorem order_independent (G G' : gram) (O O' : oracle) :
  oracle_ok G O -> oracle_ok G' O' ->
  Permutation (prods G) (prods G') ->
  forall nu nu', NullableNonTerminals G O = Some nu -> NullableNonTerminals G' O' = Some nu' ->
  forall A, In A nu <-> In A nu'.
Proof.
  intros HO HO' HP nu nu' E E' A.
  destruct (nullable_thm G O HO) as [n1 [E1 H1]]. destruct (nullable_thm G' O' HO') as [n2 [E2 H2]].
  rewrite E in E1. rewrite E' in E2. inversion E1; inversion E2; subst.
  rewrite H1, H2. unfold nullable_nt.
  assert (X : forall p, In p (prods G) <-> In p (prods G')).
  { intros p. split; apply Permutation_in; [exact HP | now apply Permutation_sym]. }
  split; apply derives_same_prods; [exact X | intros p; symmetry; apply X].
Qed.

(** the identity oracle, used by the extracted model *)
Lemma id_oracle_ok G : oracle_ok G (id_oracle G).
Proof. repeat split; auto. Qed.

Lemma permutation_oracle_ok (G : gram) (O : oracle) :
  (forall i, Permutation (o_null O i) (prods G)) ->
  (forall i, Permutation (o_first O i) (prods G)) ->
  (forall i, Permutation (o_follow O i) (prods G)) -> oracle_ok G O.
Proof.
  intros H1 H2 H3. repeat split; intros Hp;
    first [ eapply Permutation_in; [apply H1|exact Hp] | eapply Permutation_in; [apply Permutation_sym, H1|exact Hp]
          | eapply Permutation_in; [apply H2|exact Hp] | eapply Permutation_in; [apply Permutation_sym, H2|exact Hp]
          | eapply Permutation_in; [apply H3|exact Hp] | eapply Permutation_in; [apply Permutation_sym, H3|exact Hp] ].
Qed.
