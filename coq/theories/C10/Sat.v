(** C10 — generic lemmas: duplicate-free lists as sets, extension, and the saturation loop. *)
From Coq Require Import List Arith Bool Lia.
From Algo.C10 Require Import Model.
Import ListNotations.

(** * boolean equalities *)
Lemma sym_eqb_eq (x y : sym) : sym_eqb x y = true <-> x = y.
Proof.
  destruct x, y; simpl; try (split; [discriminate | congruence]);
    rewrite Nat.eqb_eq; split; congruence.
Qed.

Lemma body_eqb_eq (x y : list sym) : body_eqb x y = true <-> x = y.
Proof.
  revert y; induction x as [|a x IH]; intros [|b y]; simpl; try (split; [discriminate|congruence]).
  - tauto.
  - rewrite andb_true_iff, sym_eqb_eq, IH. split; [intros [-> ->]; reflexivity | intros H; inversion H; auto].
Qed.

Lemma prod_eqb_eq (p q : prod) : prod_eqb p q = true <-> p = q.
Proof.
  destruct p as [h b], q as [h' b']; unfold prod_eqb; simpl.
  rewrite andb_true_iff, Nat.eqb_eq, body_eqb_eq. split; [intros [-> ->]; reflexivity | intros H; inversion H; auto].
Qed.

Lemma onat_eqb_eq (x y : option nat) : onat_eqb x y = true <-> x = y.
Proof.
  destruct x, y; simpl; try (split; [discriminate|congruence]); [|tauto].
  rewrite Nat.eqb_eq; split; congruence.
Qed.

Lemma fact_eqb_eq (x y : fact) : fact_eqb x y = true <-> x = y.
Proof.
  destruct x, y; unfold fact_eqb; simpl. rewrite andb_true_iff, Nat.eqb_eq, onat_eqb_eq.
  split; [intros [-> ->]; reflexivity | intros H; inversion H; auto].
Qed.

(** * sets *)
Definition extends {A} (l l' : list A) : Prop := exists n, l' = n ++ l.

Lemma extends_refl {A} (l : list A) : extends l l.
Proof. exists []; reflexivity. Qed.

Lemma extends_trans {A} (a b c : list A) : extends a b -> extends b c -> extends a c.
Proof. intros [n ->] [m ->]. exists (m ++ n). now rewrite app_assoc. Qed.

Lemma extends_length {A} (l l' : list A) : extends l l' -> length l <= length l'.
Proof. intros [n ->]. rewrite app_length. lia. Qed.

Lemma extends_same_length {A} (l l' : list A) : extends l l' -> length l' = length l -> l' = l.
Proof.
  intros [n ->] H. rewrite app_length in H. destruct n; [reflexivity | simpl in H; lia].
Qed.

Lemma extends_incl {A} (l l' : list A) : extends l l' -> incl l l'.
Proof. intros [n ->] x Hx. apply in_or_app; now right. Qed.

Lemma extends_antisym {A} (a b : list A) : extends a b -> extends b a -> b = a.
Proof.
  intros H1 H2. apply extends_same_length; [exact H1|].
  apply extends_length in H1, H2. lia.
Qed.

Section SetLemmas.
  Context {A : Type} (eqb : A -> A -> bool).
  Hypothesis eqb_eq : forall x y, eqb x y = true <-> x = y.

  Lemma memb_In x l : memb eqb x l = true <-> In x l.
  Proof.
    unfold memb. rewrite existsb_exists. split.
    - intros [y [Hy E]]. apply eqb_eq in E. now subst.
    - intros H. exists x. split; [exact H | now apply eqb_eq].
  Qed.

  Lemma memb_false x l : memb eqb x l = false <-> ~ In x l.
  Proof. rewrite <- memb_In. destruct (memb eqb x l); split; congruence. Qed.

  Lemma add_In x y l : In y (add eqb x l) <-> y = x \/ In y l.
  Proof.
    unfold add. destruct (memb eqb x l) eqn:E.
    - apply memb_In in E. split; [tauto | intros [->|]; auto].
    - simpl. split; intros [H|H]; auto.
  Qed.

  Lemma add_extends x l : extends l (add eqb x l).
  Proof. unfold add. destruct (memb eqb x l); [apply extends_refl | exists [x]; reflexivity]. Qed.

  Lemma add_NoDup x l : NoDup l -> NoDup (add eqb x l).
  Proof.
    intros H. unfold add. destruct (memb eqb x l) eqn:E; [exact H|].
    constructor; [now apply memb_false | exact H].
  Qed.

  Lemma add_all_In xs y l : In y (add_all eqb xs l) <-> In y xs \/ In y l.
  Proof.
    unfold add_all. revert l; induction xs as [|x xs IH]; intros l; simpl; [tauto|].
    rewrite IH, add_In. split; intros H; intuition (subst; auto).
  Qed.

  Lemma add_all_extends xs l : extends l (add_all eqb xs l).
  Proof.
    unfold add_all. revert l; induction xs as [|x xs IH]; intros l; simpl; [apply extends_refl|].
    eapply extends_trans; [apply add_extends | apply IH].
  Qed.

  Lemma add_all_NoDup xs l : NoDup l -> NoDup (add_all eqb xs l).
  Proof.
    unfold add_all. revert l; induction xs as [|x xs IH]; intros l H; simpl; [exact H|].
    apply IH. now apply add_NoDup.
  Qed.

  Lemma add_id x l : add eqb x l = l -> In x l.
  Proof. intros H. rewrite <- H. apply add_In. now left. Qed.

  Lemma add_all_id xs l : add_all eqb xs l = l -> incl xs l.
  Proof. intros H x Hx. rewrite <- H. apply add_all_In. now left. Qed.

  Lemma disjointb_true l1 l2 : disjointb eqb l1 l2 = true <-> forall x, In x l1 -> ~ In x l2.
  Proof.
    unfold disjointb. rewrite forallb_forall. split; intros H x Hx.
    - apply memb_false. specialize (H x Hx). now destruct (memb eqb x l2).
    - apply H, memb_false in Hx. now rewrite Hx.
  Qed.

  Lemma disjointb_false l1 l2 : disjointb eqb l1 l2 = false <-> exists x, In x l1 /\ In x l2.
  Proof.
    split.
    - intros H. unfold disjointb in H.
      induction l1 as [|a l1 IH]; simpl in H; [discriminate|].
      apply andb_false_iff in H. destruct H as [H|H].
      + exists a. split; [now left|]. apply memb_In. now destruct (memb eqb a l2).
      + destruct (IH H) as [x [H1 H2]]. exists x. split; [now right | exact H2].
    - intros [x [H1 H2]]. destruct (disjointb eqb l1 l2) eqn:E; [|reflexivity].
      exfalso. now apply (proj1 (disjointb_true l1 l2) E x).
  Qed.
End SetLemmas.

Lemma mem_In x l : mem x l = true <-> In x l.
Proof. apply memb_In, Nat.eqb_eq. Qed.

(** a fold of extending steps that returns its argument leaves every step idle *)
Lemma fold_extends {F P} (step : list F -> P -> list F) :
  (forall s p, extends s (step s p)) -> forall l s, extends s (fold_left step l s).
Proof.
  intros Hs l; induction l as [|p l IH]; intros s; simpl; [apply extends_refl|].
  eapply extends_trans; [apply Hs | apply IH].
Qed.

Lemma fold_fixed {F P} (step : list F -> P -> list F) :
  (forall s p, extends s (step s p)) ->
  forall l s, fold_left step l s = s -> forall p, In p l -> step s p = s.
Proof.
  intros Hs l; induction l as [|q l IH]; intros s H p Hp; [destruct Hp|].
  simpl in H.
  assert (E : step s q = s).
  { apply extends_antisym; [apply Hs|]. rewrite <- H at 2. apply fold_extends, Hs. }
  rewrite E in H. destruct Hp as [->|Hp]; [exact E | now apply IH].
Qed.

(** * the saturation loop (one pass function per iteration index) *)
Section Sat.
  Context {F : Type} (pass : nat -> list F -> list F).
  Hypothesis pass_ext : forall i s, extends s (pass i s).

  Lemma sat_loop_fix fuel : forall i s r, sat_loop fuel pass i s = Some r -> exists j, pass j r = r.
  Proof.
    induction fuel as [|k IH]; intros i s r; simpl; [discriminate|].
    destruct (length (pass i s) =? length s) eqn:E.
    - intros H; inversion H; subst r. apply Nat.eqb_eq in E.
      assert (pass i s = s) as -> by (apply extends_same_length; auto).
      exists i. apply extends_same_length; auto.
    - apply IH.
  Qed.

  Lemma sat_loop_inv (P : list F -> Prop) fuel : forall i s r,
    (forall j x, P x -> P (pass j x)) -> P s -> sat_loop fuel pass i s = Some r -> P r.
  Proof.
    induction fuel as [|k IH]; intros i s r HP Hs; simpl; [discriminate|].
    destruct (length (pass i s) =? length s).
    - intros H; inversion H; subst r. now apply HP.
    - apply IH; [exact HP | now apply HP].
  Qed.

  Lemma sat_loop_terminates (U : list F) fuel : forall i s,
    (forall j x, NoDup x -> incl x U -> NoDup (pass j x) /\ incl (pass j x) U) ->
    NoDup s -> incl s U -> length U < length s + fuel ->
    sat_loop fuel pass i s <> None.
  Proof.
    induction fuel as [|k IH]; intros i s HU Hn Hi Hl.
    - pose proof (NoDup_incl_length Hn Hi). lia.
    - simpl. destruct (length (pass i s) =? length s) eqn:E; [discriminate|].
      apply Nat.eqb_neq in E. destruct (HU i s Hn Hi) as [Hn' Hi'].
      apply IH; auto. pose proof (extends_length _ _ (pass_ext i s)). lia.
  Qed.
End Sat.
