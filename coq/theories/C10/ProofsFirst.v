(** C10 — ComputeFIRST: the table is exactly "terminals that can begin a sentential form derived
    from A" / "A derives ε", and FIRST(α) on strings is exact as well. *)
From Coq Require Import List Arith Bool Lia.
From Algo.C10 Require Import Model Spec Sat.
Import ListNotations.

(** * reading a table of facts *)
Lemma set_of_In st A x : In x (set_of st A) <-> In (A, x) st.
Proof.
  unfold set_of. rewrite in_map_iff. split.
  - intros [[B y] [E H]]. apply filter_In in H. destruct H as [H1 H2]. simpl in *.
    apply Nat.eqb_eq in H2. now subst.
  - intros H. exists (A, x). split; [reflexivity|]. apply filter_In. split; [exact H|]. simpl. apply Nat.eqb_refl.
Qed.

Lemma somes_In l a : In a (somes l) <-> In (Some a) l.
Proof.
  induction l as [|[b|] l IH]; simpl; [tauto| |].
  - rewrite IH. split; (intros [H|H]; [left; congruence | right; exact H]).
  - rewrite IH. split; [auto | intros [H|H]; [discriminate | exact H]].
Qed.

Lemma terms_of_In st A a : In a (terms_of st A) <-> In (A, Some a) st.
Proof. unfold terms_of. now rewrite somes_In, set_of_In. Qed.

Lemma flag_of_true st A : flag_of st A = true <-> In (A, None) st.
Proof. unfold flag_of. apply memb_In, fact_eqb_eq. Qed.

Lemma union_In l1 l2 a : In a (union l1 l2) <-> In a l1 \/ In a l2.
Proof. unfold union. rewrite (add_all_In Nat.eqb Nat.eqb_eq). tauto. Qed.

Lemma add_terms_In X ts st f : In f (add_terms X ts st) <-> (exists a, In a ts /\ f = (X, Some a)) \/ In f st.
Proof.
  unfold add_terms. rewrite (add_all_In fact_eqb fact_eqb_eq), in_map_iff.
  split; (intros [[a [H1 H2]]|H]; [left; exists a; auto | now right]).
Qed.

Lemma add_terms_extends X ts st : extends st (add_terms X ts st).
Proof. apply add_all_extends. Qed.

(** * FIRST of symbols and strings, as propositions on a table *)
Definition fsym (st : list fact) (X : sym) (a : nat) : Prop :=
  match X with Tm b => b = a | Nt B => In (B, Some a) st end.
Definition nsym (st : list fact) (X : sym) : Prop :=
  match X with Tm _ => False | Nt B => In (B, None) st end.

Fixpoint fstr (st : list fact) (alpha : list sym) (a : nat) : Prop :=
  match alpha with
  | [] => False
  | X :: alpha' => fsym st X a \/ (nsym st X /\ fstr st alpha' a)
  end.

Fixpoint nstr (st : list fact) (alpha : list sym) : Prop :=
  match alpha with
  | [] => True
  | X :: alpha' => nsym st X /\ nstr st alpha'
  end.

Lemma first_sym_terms_In st X a : In a (first_sym_terms st X) <-> fsym st X a.
Proof. destruct X as [b|B]; simpl; [intuition | apply terms_of_In]. Qed.

Lemma first_sym_eps_true st X : first_sym_eps st X = true <-> nsym st X.
Proof. destruct X as [b|B]; simpl; [split; [discriminate | tauto] | apply flag_of_true]. Qed.

Lemma fstr_app st u v a : fstr st (u ++ v) a <-> fstr st u a \/ (nstr st u /\ fstr st v a).
Proof. induction u as [|X u IH]; simpl; [tauto | rewrite IH; tauto]. Qed.

Lemma nstr_app st u v : nstr st (u ++ v) <-> nstr st u /\ nstr st v.
Proof. induction u as [|X u IH]; simpl; [tauto | rewrite IH; tauto]. Qed.

Lemma first_str_spec st alpha :
  (forall a, In a (fst (first_str st alpha)) <-> fstr st alpha a)
  /\ (snd (first_str st alpha) = true <-> nstr st alpha).
Proof.
  induction alpha as [|X alpha [IH1 IH2]]; simpl.
  - split; [tauto | tauto].
  - destruct (first_sym_eps st X) eqn:E; simpl.
    + apply first_sym_eps_true in E. split.
      * intros a. rewrite union_In, first_sym_terms_In, IH1. tauto.
      * rewrite IH2. tauto.
    + assert (~ nsym st X) by (rewrite <- first_sym_eps_true; congruence). split.
      * intros a. rewrite first_sym_terms_In. tauto.
      * split; [discriminate | tauto].
Qed.

Lemma fsym_mono st st' X a : incl st st' -> fsym st X a -> fsym st' X a.
Proof. intros H. destruct X; simpl; auto. Qed.
Lemma nsym_mono st st' X : incl st st' -> nsym st X -> nsym st' X.
Proof. intros H. destruct X; simpl; auto. Qed.

Section First.
  Variable G : gram.

  (** ** soundness *)
  Definition first_sound (st : list fact) : Prop :=
    forall A x, In (A, x) st ->
      match x with Some a => first_sem G [Nt A] a | None => nullable_nt G A end.

  Lemma fsym_sound st X a : first_sound st -> fsym st X a -> first_sem G [X] a.
  Proof.
    intros Hs H. destruct X as [b|B]; simpl in H.
    - subst. exists []. apply derives_refl.
    - apply (Hs B (Some a) H).
  Qed.

  Lemma nsym_sound st X : first_sound st -> nsym st X -> derives G [X] [].
  Proof. intros Hs H. destruct X as [b|B]; simpl in H; [destruct H | apply (Hs B None H)]. Qed.

  Lemma nstr_sound st alpha : first_sound st -> nstr st alpha -> derives G alpha [].
  Proof.
    intros Hs. induction alpha as [|X alpha IH]; simpl; [intros; apply derives_refl|].
    intros [H1 H2]. apply (derives_app G [X] [] alpha []); [now apply (nsym_sound st) | auto].
  Qed.

  Lemma fstr_sound st alpha a : first_sound st -> fstr st alpha a -> first_sem G alpha a.
  Proof.
    intros Hs. induction alpha as [|X alpha IH]; simpl; [tauto|].
    intros [H|[H1 H2]].
    - destruct (fsym_sound st X a Hs H) as [beta Hb]. exists (beta ++ alpha).
      apply (derives_app G [X] (Tm a :: beta) alpha alpha); [exact Hb | apply derives_refl].
    - destruct (IH H2) as [beta Hb]. exists beta.
      apply (derives_app G [X] [] alpha (Tm a :: beta)); [now apply (nsym_sound st) | exact Hb].
  Qed.

  Lemma first_body_sound p : In p (prods G) ->
    forall b pre st, body p = pre ++ b -> derives G pre [] -> first_sound st ->
                     first_sound (first_body (head p) b st).
  Proof.
    intros Hp. induction b as [|Y b IH]; intros pre st Hb Hpre Hs; simpl.
    - intros A x Hx. apply (add_In fact_eqb fact_eqb_eq) in Hx. destruct Hx as [E|Hx]; [|now apply Hs].
      inversion E; subst A x. rewrite app_nil_r in Hb.
      eapply derives_trans; [apply derives_prod; exact Hp | now rewrite Hb].
    - set (st1 := add_terms (head p) (first_sym_terms st Y) st).
      assert (Hs1 : first_sound st1).
      { intros A x Hx. apply add_terms_In in Hx. destruct Hx as [[a [Ha E]]|Hx]; [|now apply Hs].
        inversion E; subst A x. apply first_sym_terms_In in Ha.
        destruct (fsym_sound st Y a Hs Ha) as [beta Hbeta]. exists (beta ++ b).
        eapply derives_trans; [apply derives_prod; exact Hp|]. rewrite Hb.
        apply (derives_app G pre [] (Y :: b) (Tm a :: beta ++ b)); [exact Hpre|].
        apply (derives_app G [Y] (Tm a :: beta) b b); [exact Hbeta | apply derives_refl]. }
      destruct (first_sym_eps st1 Y) eqn:E; [|exact Hs1].
      apply (IH (pre ++ [Y])); [now rewrite <- app_assoc | | exact Hs1].
      apply (derives_app G pre [] [Y] []); [exact Hpre|].
      apply (nsym_sound st1); [exact Hs1 | now apply first_sym_eps_true].
  Qed.

  Lemma first_fold_sound l st :
    incl l (prods G) -> first_sound st ->
    first_sound (fold_left (fun st p => first_body (head p) (body p) st) l st).
  Proof.
    revert st; induction l as [|p l IH]; intros st Hl Hs; simpl; [exact Hs|].
    apply IH; [intros x Hx; apply Hl; now right|].
    apply (first_body_sound p (Hl p (or_introl eq_refl)) (body p) []); auto. apply derives_refl.
  Qed.

  Lemma first_pass_sound l st : incl l (prods G) -> first_sound st -> first_sound (first_pass l st).
  Proof. apply first_fold_sound. Qed.

  (** ** extension and closure at a fixpoint *)
  Lemma first_body_extends X b st : extends st (first_body X b st).
  Proof.
    revert st; induction b as [|Y b IH]; intros st; simpl; [apply add_extends|].
    destruct (first_sym_eps _ Y).
    - eapply extends_trans; [apply add_terms_extends | apply IH].
    - apply add_terms_extends.
  Qed.

  Lemma first_pass_extends l st : extends st (first_pass l st).
  Proof. apply (fold_extends (fun st p => first_body (head p) (body p) st)). intros; apply first_body_extends. Qed.

  Lemma first_body_fixed X b st :
    first_body X b st = st ->
    (forall a, fstr st b a -> In (X, Some a) st) /\ (nstr st b -> In (X, None) st).
  Proof.
    induction b as [|Y b IH]; simpl; intros H.
    - split; [tauto|]. intros _. now apply (add_id fact_eqb fact_eqb_eq).
    - set (st1 := add_terms X (first_sym_terms st Y) st) in *.
      assert (E1 : st1 = st).
      { apply extends_antisym; [apply add_terms_extends|].
        assert (Hx : extends st1 (if first_sym_eps st1 Y then first_body X b st1 else st1))
          by (destruct (first_sym_eps st1 Y); [apply first_body_extends | apply extends_refl]).
        now rewrite H in Hx. }
      assert (HY : forall a, fsym st Y a -> In (X, Some a) st).
      { intros a Ha. rewrite <- E1. apply add_terms_In. left. exists a. split; [now apply first_sym_terms_In | reflexivity]. }
      rewrite E1 in H. destruct (first_sym_eps st Y) eqn:E.
      + destruct (IH H) as [IH1 IH2]. split; [intros a [Ha|[_ Ha]]; auto | intros [_ Hn]; auto].
      + assert (~ nsym st Y) by (rewrite <- first_sym_eps_true; congruence).
        split; [intros a [Ha|[Hn _]]; [auto | tauto] | tauto].
  Qed.

  Definition first_closed (st : list fact) : Prop :=
    forall p, In p (prods G) ->
      (forall a, fstr st (body p) a -> In (head p, Some a) st)
      /\ (nstr st (body p) -> In (head p, None) st).

  Lemma first_fixed_closed l st :
    (forall p, In p (prods G) -> In p l) -> first_pass l st = st -> first_closed st.
  Proof.
    intros Hl Hfix p Hp. apply Hl in Hp. apply first_body_fixed.
    apply (fold_fixed (fun st p => first_body (head p) (body p) st)
             (fun s q => first_body_extends (head q) (body q) s) _ _ Hfix p Hp).
  Qed.

  (** ** completeness at a fixpoint *)
  Lemma first_complete_form st : first_closed st ->
    forall x y, clos_refl_trans_1n _ (step G) x y ->
      (forall a beta, y = Tm a :: beta -> fstr st x a) /\ (y = [] -> nstr st x).
  Proof.
    intros Hc x y H. induction H as [x | x z y Hstep _ [IH1 IH2]].
    - split; [intros a beta ->; simpl; now left | intros ->; exact I].
    - destruct Hstep as [u v p Hp]. destruct (Hc p Hp) as [C1 C2]. split.
      + intros a beta E. specialize (IH1 a beta E).
        rewrite !fstr_app in IH1. rewrite fstr_app. simpl. specialize (C1 a). tauto.
      + intros E. specialize (IH2 E). rewrite !nstr_app in IH2. rewrite nstr_app. simpl. tauto.
  Qed.

  Lemma fstr_complete st alpha a : first_closed st -> first_sem G alpha a -> fstr st alpha a.
  Proof.
    intros Hc [beta H]. apply clos_rt_rt1n in H.
    exact (proj1 (first_complete_form st Hc _ _ H) a beta eq_refl).
  Qed.

  Lemma nstr_complete st alpha : first_closed st -> nullable_str G alpha -> nstr st alpha.
  Proof.
    intros Hc H. apply clos_rt_rt1n in H.
    exact (proj2 (first_complete_form st Hc _ _ H) eq_refl).
  Qed.

  (** ** termination *)
  Definition body_terms (b : list sym) : list nat :=
    flat_map (fun s => match s with Tm a => [a] | Nt _ => [] end) b.
  Definition bterms : list nat := flat_map (fun p => body_terms (body p)) (prods G).
  Definition first_universe : list fact :=
    list_prod (map head (prods G)) (None :: map Some bterms).

  Lemma body_terms_In b a : In a (body_terms b) <-> In (Tm a) b.
  Proof.
    unfold body_terms. rewrite in_flat_map. split.
    - intros [[c|C] [H1 H2]]; simpl in H2; [destruct H2 as [->|[]]; exact H1 | destruct H2].
    - intros H. exists (Tm a). split; [exact H | now left].
  Qed.

  Lemma body_terms_length b : length (body_terms b) <= length b.
  Proof.
    unfold body_terms. induction b as [|[a|A] b IH]; simpl;
      [apply le_n | apply le_n_S; exact IH | apply le_S; exact IH].
  Qed.

  Lemma bterms_length : length bterms <= body_len_sum G.
  Proof.
    unfold bterms, body_len_sum. induction (prods G) as [|p l IH]; simpl; [apply le_n|].
    rewrite app_length. apply Nat.add_le_mono; [apply body_terms_length | exact IH].
  Qed.

  Lemma bterms_In p a : In p (prods G) -> In (Tm a) (body p) -> In a bterms.
  Proof. intros Hp Ha. unfold bterms. apply in_flat_map. exists p. split; [exact Hp | now apply body_terms_In]. Qed.

  Lemma in_universe A x :
    In A (map head (prods G)) -> (match x with Some a => In a bterms | None => True end) ->
    In (A, x) first_universe.
  Proof.
    intros HA Hx. apply in_prod; [exact HA|]. destruct x as [a|]; [right; now apply in_map | now left].
  Qed.

  Lemma universe_inv A a : In (A, Some a) first_universe -> In a bterms.
  Proof.
    intros H. apply in_prod_iff in H. destruct H as [_ [H|H]]; [discriminate|].
    apply in_map_iff in H. destruct H as [b [E Hb]]. now inversion E; subst.
  Qed.

  Lemma first_body_inv p : In p (prods G) ->
    forall b st, incl b (body p) -> NoDup st -> incl st first_universe ->
      NoDup (first_body (head p) b st) /\ incl (first_body (head p) b st) first_universe.
  Proof.
    intros Hp. assert (Hh : In (head p) (map head (prods G))) by now apply in_map.
    induction b as [|Y b IH]; intros st Hb Hn Hi; simpl.
    - split; [now apply add_NoDup; [apply fact_eqb_eq|]|].
      intros f Hf. apply (add_In fact_eqb fact_eqb_eq) in Hf. destruct Hf as [->|Hf]; [|now apply Hi].
      now apply in_universe.
    - set (st1 := add_terms (head p) (first_sym_terms st Y) st).
      assert (Hn1 : NoDup st1) by (apply add_all_NoDup; [apply fact_eqb_eq | exact Hn]).
      assert (Hi1 : incl st1 first_universe).
      { intros f Hf. apply add_terms_In in Hf. destruct Hf as [[a [Ha ->]]|Hf]; [|now apply Hi].
        apply in_universe; [exact Hh|]. apply first_sym_terms_In in Ha.
        destruct Y as [c|C]; simpl in Ha.
        - subst c. apply (bterms_In p); [exact Hp | apply Hb; now left].
        - apply Hi in Ha. now apply universe_inv in Ha. }
      destruct (first_sym_eps st1 Y); [|auto].
      apply IH; auto. intros x Hx; apply Hb; now right.
  Qed.

  Lemma first_fold_inv l st :
    incl l (prods G) -> NoDup st -> incl st first_universe ->
    NoDup (fold_left (fun st p => first_body (head p) (body p) st) l st)
    /\ incl (fold_left (fun st p => first_body (head p) (body p) st) l st) first_universe.
  Proof.
    revert st; induction l as [|p l IH]; intros st Hl Hn Hi; simpl; [auto|].
    destruct (first_body_inv p (Hl p (or_introl eq_refl)) (body p) st (incl_refl _) Hn Hi) as [Hn' Hi'].
    apply IH; auto. intros x Hx; apply Hl; now right.
  Qed.

  Variable O : oracle.
  Hypothesis HO : orders_ok G (o_first O).

  Let passes := fun i => first_pass (o_first O i).
  Let passes_ext : forall i s, extends s (passes i s) := fun i s => first_pass_extends _ s.
  Let HO1 : forall j, incl (o_first O j) (prods G) := fun j p Hp => proj1 (HO j p) Hp.
  Let HO2 : forall j p, In p (prods G) -> In p (o_first O j) := fun j p Hp => proj2 (HO j p) Hp.

  Lemma first_table_terminates : first_table G O <> None.
  Proof.
    unfold first_table.
    apply (sat_loop_terminates passes passes_ext first_universe).
    - intros j x Hn Hi. apply first_fold_inv; auto.
    - constructor.
    - intros x [].
    - unfold first_universe, first_fuel, fact. rewrite prod_length, map_length. simpl. rewrite map_length.
      pose proof bterms_length.
      assert (length (prods G) * S (length bterms) <= length (prods G) * S (body_len_sum G))
        by (apply Nat.mul_le_mono_l; lia).
      lia.
  Qed.

  Lemma first_table_props st :
    first_table G O = Some st -> first_sound st /\ first_closed st /\ incl st first_universe.
  Proof.
    intros E. unfold first_table in E. split; [|split].
    - eapply (sat_loop_inv passes first_sound); [| | exact E].
      + intros j x. apply first_pass_sound, HO1.
      + intros A x [].
    - destruct (sat_loop_fix passes passes_ext _ _ _ _ E) as [j Hj].
      apply (first_fixed_closed (o_first O j)); [apply HO2 | exact Hj].
    - assert (HP : NoDup st /\ incl st first_universe); [|apply HP].
      eapply (sat_loop_inv passes (fun x => NoDup x /\ incl x first_universe)); [| | exact E].
      + intros j x H. apply (first_fold_inv (o_first O j) x (HO1 j) (proj1 H) (proj2 H)).
      + split; [constructor | intros x []].
  Qed.

  (** ** the theorem on the table *)
  Theorem first_table_exact :
    exists st, first_table G O = Some st /\
      (forall alpha a, fstr st alpha a <-> first_sem G alpha a) /\
      (forall alpha, nstr st alpha <-> nullable_str G alpha).
  Proof.
    destruct (first_table G O) as [st|] eqn:E; [|now destruct first_table_terminates].
    exists st. split; [reflexivity|].
    destruct (first_table_props st E) as [Hs [Hc _]].
    split.
    - intros alpha a. split; [now apply fstr_sound | now apply fstr_complete].
    - intros alpha. split; [now apply nstr_sound | now apply nstr_complete].
  Qed.

  (** ** the closure FIRST(α) as the Go API returns it *)
  Lemma first_str_go_spec st alpha acc :
    Forall (fun s => known G s = true) alpha ->
    exists ts, first_str_go G st alpha acc = Ok (ts, snd (first_str st alpha))
               /\ forall a, In a ts <-> In a acc \/ In a (fst (first_str st alpha)).
  Proof.
    intros H. revert acc. induction H as [|X alpha HX _ IH]; intros acc; simpl.
    - exists acc. split; [reflexivity | tauto].
    - rewrite HX. destruct (first_sym_eps st X); simpl.
      + destruct (IH (union acc (first_sym_terms st X))) as [ts [E Hts]].
        exists ts. split; [exact E|]. intros a. rewrite Hts, !union_In. tauto.
      + eexists. split; [reflexivity|]. intros a. rewrite union_In. tauto.
  Qed.
End First.
