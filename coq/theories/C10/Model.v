(** C10 — executable model of grammar/cfg.go (Verify, NullableNonTerminals, ComputeFIRST,
    ComputeFOLLOW, IsLL1) and parser/predictive/parsing_table.go (BuildParsingTable,
    addProduction, setSync, Conflicts, IsEmpty, IsSync, GetProduction).

    Transcription conventions.
    - Terminals and non-terminals are [nat]; a grammar is [grammar nat nat] of the shared base
      [Algo.Grammar.CFG].  The endmarker [$] is not a terminal of any grammar (as the Go code
      assumes): a lookahead / FOLLOW member is an [option nat] with [None] = [$].
    - Go's sets (of terminals, of productions) are duplicate-free lists; every insertion goes
      through [add] (insert-if-absent), so [length] is the Go [Size()].
    - The three fixpoints are kept as sets of *facts*: [(A, Some a)] = "a is in the set of A",
      [(A, None)] = "ε ∈ FIRST(A)" resp. "$ ∈ FOLLOW(A)".  A pass walks the productions exactly as
      the Go loops do (per production, per body symbol, break at the first symbol whose FIRST has
      no ε), in the order an oracle prescribes for that pass (Go iterates in randomised
      hash-table order); C10's theorems hold for every oracle.  The Go loops run
      "until nothing changed", detected by set sizes / flags: here "the number of facts did not
      grow".  The loops run on fuel; exhaustion is the result [None] (a hang), and the
      theorems prove that it never happens.
    - A production set is keyed by structural equality ([prod_eqb]) like Go's [EqProduction].
    No proofs here. *)
From Coq Require Export List Arith Bool PeanoNat.
From Algo.Grammar Require Export CFG.
Export ListNotations.

Definition sym := symbol nat nat.
Definition prod := production nat nat.
Definition gram := grammar nat nat.

(** result of a call that can panic *)
Inductive res (A : Type) := Ok (a : A) | Panic.
Arguments Ok {A} a.
Arguments Panic {A}.

(** * equality tests *)
Definition sym_eqb (x y : sym) : bool :=
  match x, y with
  | Tm a, Tm b => a =? b
  | Nt a, Nt b => a =? b
  | _, _ => false
  end.

Fixpoint body_eqb (x y : list sym) : bool :=
  match x, y with
  | [], [] => true
  | a :: x', b :: y' => sym_eqb a b && body_eqb x' y'
  | _, _ => false
  end.

Definition prod_eqb (p q : prod) : bool := (head p =? head q) && body_eqb (body p) (body q).

Definition onat_eqb (x y : option nat) : bool :=
  match x, y with
  | Some a, Some b => a =? b
  | None, None => true
  | _, _ => false
  end.

Definition fact := (nat * option nat)%type.
Definition fact_eqb (x y : fact) : bool := (fst x =? fst y) && onat_eqb (snd x) (snd y).

(** * duplicate-free lists as sets *)
Section SetOps.
  Context {A : Type} (eqb : A -> A -> bool).
  Definition memb (x : A) (l : list A) : bool := existsb (eqb x) l.
  Definition add (x : A) (l : list A) : list A := if memb x l then l else x :: l.
  Definition add_all (xs : list A) (l : list A) : list A := fold_left (fun l x => add x l) xs l.
  Definition disjointb (l1 l2 : list A) : bool := forallb (fun x => negb (memb x l2)) l1.
End SetOps.

Definition mem (x : nat) (l : list nat) : bool := memb Nat.eqb x l.

(** * Verify *)
Definition known (G : gram) (s : sym) : bool :=
  match s with Tm a => mem a (terms G) | Nt B => mem B (nonterms G) end.

Definition verify (G : gram) : bool :=
  mem (start G) (nonterms G)
  && existsb (fun p => head p =? start G) (prods G)
  && forallb (fun n => existsb (fun p => head p =? n) (prods G)) (nonterms G)
  && forallb (fun p => mem (head p) (nonterms G) && forallb (known G) (body p)) (prods G).

(** the production list is a set (Go: [set.Set[*Production]] under [EqProduction]) *)
Fixpoint nodup_prods (l : list prod) : bool :=
  match l with
  | [] => true
  | p :: l' => negb (memb prod_eqb p l') && nodup_prods l'
  end.

(** * the saturation loop shared by the three fixpoints:
      [for updated := true; updated; { updated = false; pass }] *)
Fixpoint sat_loop {F : Type} (fuel : nat) (pass : nat -> list F -> list F) (i : nat) (s : list F)
  : option (list F) :=
  match fuel with
  | O => None
  | S k => let s' := pass i s in
           if length s' =? length s then Some s' else sat_loop k pass (S i) s'
  end.

(** Go walks the productions in the randomised order of its hash tables, a fresh order in every
    pass of every loop.  The order is an oracle: [o i] is the order of pass [i].  The theorems
    quantify over all oracles that enumerate exactly the productions ([oracle_ok] in Spec.v);
    the extracted model runs with [id_oracle] (the order of the production list). *)
Definition orders := nat -> list prod.
Record oracle := mkOracle { o_null : orders; o_first : orders; o_follow : orders }.
Definition id_oracle (G : gram) : oracle :=
  mkOracle (fun _ => prods G) (fun _ => prods G) (fun _ => prods G).

(** * NullableNonTerminals (cfg.go:344-372) *)
Definition all_nullable (nu : list nat) (b : list sym) : bool :=
  forallb (fun s => match s with Nt B => mem B nu | Tm _ => false end) b.

Definition null_step (nu : list nat) (p : prod) : list nat :=
  if mem (head p) nu then nu
  else if all_nullable nu (body p) then head p :: nu else nu.

Definition null_pass (l : list prod) (nu : list nat) : list nat := fold_left null_step l nu.

Definition nullable (G : gram) (O : oracle) : option (list nat) :=
  sat_loop (S (length (prods G))) (fun i => null_pass (o_null O i)) 0 [].

(** * ComputeFIRST (cfg.go:935-1006) *)
Definition set_of (st : list fact) (A : nat) : list (option nat) :=
  map snd (filter (fun f => fst f =? A) st).

Fixpoint somes (l : list (option nat)) : list nat :=
  match l with
  | [] => []
  | Some a :: l' => a :: somes l'
  | None :: l' => somes l'
  end.

Definition terms_of (st : list fact) (A : nat) : list nat := somes (set_of st A).
Definition flag_of (st : list fact) (A : nat) : bool := memb fact_eqb (A, None) st.

(** FIRST(Y) of one symbol as stored in [firstBySymbol]: a terminal has [{Y}] without ε *)
Definition first_sym_terms (st : list fact) (Y : sym) : list nat :=
  match Y with Tm a => [a] | Nt B => terms_of st B end.
Definition first_sym_eps (st : list fact) (Y : sym) : bool :=
  match Y with Tm _ => false | Nt B => flag_of st B end.

Definition add_terms (X : nat) (ts : list nat) (st : list fact) : list fact :=
  add_all fact_eqb (map (fun a => (X, Some a)) ts) st.

(** one production X → Y₁…Yₖ:  union FIRST(Yᵢ) into FIRST(X) while the Yᵢ before have ε *)
Fixpoint first_body (X : nat) (b : list sym) (st : list fact) : list fact :=
  match b with
  | [] => add fact_eqb (X, None) st
  | Y :: b' =>
      let st1 := add_terms X (first_sym_terms st Y) st in
      if first_sym_eps st1 Y then first_body X b' st1 else st1
  end.

Definition first_pass (l : list prod) (st : list fact) : list fact :=
  fold_left (fun st p => first_body (head p) (body p) st) l st.

Definition body_len_sum (G : gram) : nat := fold_right (fun p n => length (body p) + n) 0 (prods G).

(** at most |heads| · (|terminals in bodies| + 1) facts *)
Definition first_fuel (G : gram) : nat := S (length (prods G) * S (body_len_sum G)).

Definition first_table (G : gram) (O : oracle) : option (list fact) :=
  sat_loop (first_fuel G) (fun i => first_pass (o_first O i)) 0 [].

(** FIRST(α) for a string, on the final table (the closure returned by ComputeFIRST) *)
Definition union (l1 l2 : list nat) : list nat := add_all Nat.eqb l2 l1.

Fixpoint first_str (st : list fact) (alpha : list sym) : list nat * bool :=
  match alpha with
  | [] => ([], true)
  | X :: alpha' =>
      if first_sym_eps st X
      then let r := first_str st alpha' in (union (first_sym_terms st X) (fst r), snd r)
      else (first_sym_terms st X, false)
  end.

(** the closure itself: a symbol that is not in [firstBySymbol] panics, but only when the scan
    reaches it *)
Fixpoint first_str_go (G : gram) (st : list fact) (alpha : list sym) (acc : list nat)
  : res (list nat * bool) :=
  match alpha with
  | [] => Ok (acc, true)
  | X :: alpha' =>
      if known G X then
        let acc' := union acc (first_sym_terms st X) in
        if first_sym_eps st X then first_str_go G st alpha' acc' else Ok (acc', false)
      else Panic
  end.

(** * ComputeFOLLOW (cfg.go:1048-1117) *)
Fixpoint follow_body (fst_tbl : list fact) (A : nat) (b : list sym) (st : list fact) : list fact :=
  match b with
  | [] => st
  | Tm _ :: beta => follow_body fst_tbl A beta st
  | Nt B :: beta =>
      let fb := first_str fst_tbl beta in
      let st1 := add_terms B (fst fb) st in
      let st2 := if snd fb
                 then add_all fact_eqb (map (fun x => (B, x)) (set_of st1 A)) st1
                 else st1 in
      follow_body fst_tbl A beta st2
  end.

Definition follow_pass (l : list prod) (fst_tbl : list fact) (st : list fact) : list fact :=
  fold_left (fun st p => follow_body fst_tbl (head p) (body p) st) l st.

Definition follow_fuel (G : gram) : nat := S (S (body_len_sum G) * S (body_len_sum G)).

Definition follow_table (G : gram) (O : oracle) (fst_tbl : list fact) : option (list fact) :=
  sat_loop (follow_fuel G) (fun i => follow_pass (o_follow O i) fst_tbl) 0 [(start G, None)].

(** the closure returned by ComputeFOLLOW *)
Definition follow_go (G : gram) (fol : list fact) (A : nat) : res (list nat * bool) :=
  if mem A (nonterms G) then Ok (terms_of fol A, flag_of fol A) else Panic.

(** * IsLL1 (cfg.go:264-339): the three conditions for every unordered pair of distinct
      productions with the same head *)
Definition ll1_pair_errors (fst_tbl fol : list fact) (p q : prod) : nat :=
  let fa := first_str fst_tbl (body p) in
  let fb := first_str fst_tbl (body q) in
  let tf := terms_of fol (head p) in
  (if negb (disjointb Nat.eqb (fst fa) (fst fb)) || (snd fa && snd fb) then 1 else 0)
  + (if snd fa && negb (disjointb Nat.eqb (fst fb) tf) then 1 else 0)
  + (if snd fb && negb (disjointb Nat.eqb (fst fa) tf) then 1 else 0).

Fixpoint ll1_errors (fst_tbl fol : list fact) (l : list prod) : nat :=
  match l with
  | [] => 0
  | p :: l' =>
      fold_right (fun q n => (if head p =? head q then ll1_pair_errors fst_tbl fol p q else 0) + n) 0 l'
      + ll1_errors fst_tbl fol l'
  end.

(** * the predictive parsing table *)
Record entry := mkEntry { e_prods : list prod; e_sync : bool }.
Definition key := (nat * option nat)%type.
Definition table := list (key * entry).

Definition key_eqb (x y : key) : bool := fact_eqb x y.

Fixpoint get_entry (t : table) (k : key) : option entry :=
  match t with
  | [] => None
  | (k', e) :: t' => if key_eqb k k' then Some e else get_entry t' k
  end.

Fixpoint set_entry (t : table) (k : key) (e : entry) : table :=
  match t with
  | [] => [(k, e)]
  | (k', e') :: t' => if key_eqb k k' then (k, e) :: t' else (k', e') :: set_entry t' k e
  end.

Definition ensure_entry (t : table) (k : key) : entry :=
  match get_entry t k with Some e => e | None => mkEntry [] false end.

Definition add_production (t : table) (A : nat) (a : option nat) (p : prod) : table :=
  let e := ensure_entry t (A, a) in
  if e_sync e then set_entry t (A, a) e
  else set_entry t (A, a) (mkEntry (add prod_eqb p (e_prods e)) (e_sync e)).

Definition set_sync (t : table) (A : nat) (a : option nat) : table :=
  let e := ensure_entry t (A, a) in
  if length (e_prods e) =? 0 then set_entry t (A, a) (mkEntry (e_prods e) true)
  else set_entry t (A, a) e.

(** the lookaheads a production A → α is entered under *)
Definition select (fst_tbl fol : list fact) (p : prod) : list (option nat) :=
  let fa := first_str fst_tbl (body p) in
  map Some (fst fa) ++ (if snd fa then set_of fol (head p) else []).

Definition table_add_prod (fst_tbl fol : list fact) (t : table) (p : prod) : table :=
  fold_left (fun t a => add_production t (head p) a p) (select fst_tbl fol p) t.

Definition table_sync (fol : list fact) (t : table) (A : nat) : table :=
  fold_left (fun t a => set_sync t A a) (set_of fol A) t.

Definition table_build (G : gram) (fst_tbl fol : list fact) : table :=
  fold_left (table_sync fol) (nonterms G)
    (fold_left (table_add_prod fst_tbl fol) (prods G) []).

Definition lookaheads (G : gram) : list (option nat) := map Some (terms G) ++ [None].

Definition cell_prods (t : table) (A : nat) (a : option nat) : list prod :=
  match get_entry t (A, a) with Some e => e_prods e | None => [] end.

(** Conflicts(): some cell of nonTerminals × terminals holds more than one production *)
Definition conflicts (G : gram) (t : table) : bool :=
  existsb (fun A => existsb (fun a => 1 <? length (cell_prods t A a)) (lookaheads G)) (nonterms G).

Definition is_empty (t : table) (A : nat) (a : option nat) : bool :=
  length (cell_prods t A a) =? 0.

Definition is_sync (t : table) (A : nat) (a : option nat) : bool :=
  match get_entry t (A, a) with
  | Some e => (length (e_prods e) =? 0) && e_sync e
  | None => false
  end.

Definition get_production (t : table) (A : nat) (a : option nat) : option prod :=
  match cell_prods t A a with [p] => Some p | _ => None end.

(** * everything computed for one grammar.  [None] = some fixpoint loop ran out of fuel (hang) *)
Record analysis := mkAnalysis {
  an_nullable : list nat;
  an_first : list fact;
  an_follow : list fact;
  an_ll1_errors : nat;
  an_table : table;
  an_conflict : bool }.

Definition analyse (G : gram) (O : oracle) : option analysis :=
  match nullable G O, first_table G O with
  | Some nu, Some fi =>
      match follow_table G O fi with
      | Some fo =>
          let t := table_build G fi fo in
          Some (mkAnalysis nu fi fo (ll1_errors fi fo (prods G)) t (conflicts G t))
      | None => None
      end
  | _, _ => None
  end.

(** the public entry points, as the Go API exposes them *)
Definition NullableNonTerminals (G : gram) (O : oracle) : option (list nat) := nullable G O.

Definition FIRST (G : gram) (O : oracle) (alpha : list sym) : option (res (list nat * bool)) :=
  match first_table G O with
  | Some fi => Some (first_str_go G fi alpha [])
  | None => None
  end.

Definition FOLLOW (G : gram) (O : oracle) (A : nat) : option (res (list nat * bool)) :=
  match first_table G O with
  | Some fi => match follow_table G O fi with
               | Some fo => Some (follow_go G fo A)
               | None => None
               end
  | None => None
  end.

(** [Some true] = nil error *)
Definition IsLL1 (G : gram) (O : oracle) : option bool :=
  match analyse G O with Some a => Some (an_ll1_errors a =? 0) | None => None end.

(** [Some (t, false)] = table with nil error *)
Definition BuildParsingTable (G : gram) (O : oracle) : option (table * bool) :=
  match analyse G O with Some a => Some (an_table a, an_conflict a) | None => None end.
