(** C10 — the predictive table: content of every cell, Conflicts(), and the IsLL1 conditions. *)
From Coq Require Import List Arith Bool Lia.
From Algo.C10 Require Import Model Spec Sat ProofsFirst ProofsFollow.
Import ListNotations.

(** * the association list *)
Lemma key_eqb_eq (x y : key) : key_eqb x y = true <-> x = y.
Proof. apply fact_eqb_eq. Qed.

Lemma key_eqb_refl k : key_eqb k k = true.
Proof. now apply key_eqb_eq. Qed.

Lemma get_set_entry t k e k' :
  get_entry (set_entry t k e) k' = if key_eqb k' k then Some e else get_entry t k'.
Proof.
  induction t as [|[k0 e0] t IH]; simpl.
  - reflexivity.
  - destruct (key_eqb k k0) eqn:E0; simpl.
    + apply key_eqb_eq in E0. subst k0. destruct (key_eqb k' k); reflexivity.
    + destruct (key_eqb k' k0) eqn:E1.
      * apply key_eqb_eq in E1. subst k0.
        destruct (key_eqb k' k) eqn:E; [|reflexivity].
        apply key_eqb_eq in E. subst. rewrite key_eqb_refl in E0. discriminate.
      * exact IH.
Qed.

Definition no_sync (t : table) : Prop := forall k e, get_entry t k = Some e -> e_sync e = false.

Lemma add_production_cell t A a p :
  no_sync t ->
  no_sync (add_production t A a p)
  /\ forall A' a', cell_prods (add_production t A a p) A' a' =
                   if key_eqb (A', a') (A, a) then add prod_eqb p (cell_prods t A a)
                   else cell_prods t A' a'.
Proof.
  intros Hn. unfold add_production, ensure_entry, cell_prods.
  destruct (get_entry t (A, a)) as [e|] eqn:E.
  - rewrite (Hn _ _ E). split.
    + intros k e'. rewrite get_set_entry. destruct (key_eqb k (A, a)); [|apply Hn].
      intros H; inversion H; subst; reflexivity.
    + intros A' a'. rewrite get_set_entry. now destruct (key_eqb (A', a') (A, a)).
  - simpl. split.
    + intros k e'. rewrite get_set_entry. destruct (key_eqb k (A, a)); [|apply Hn].
      intros H; inversion H; subst; reflexivity.
    + intros A' a'. rewrite get_set_entry. now destruct (key_eqb (A', a') (A, a)).
Qed.

Lemma set_sync_cell t A a A' a' : cell_prods (set_sync t A a) A' a' = cell_prods t A' a'.
Proof.
  unfold set_sync, ensure_entry, cell_prods.
  destruct (get_entry t (A, a)) as [e|] eqn:E; simpl.
  - destruct (length (e_prods e) =? 0); rewrite get_set_entry;
      (destruct (key_eqb (A', a') (A, a)) eqn:K; [apply key_eqb_eq in K; inversion K; subst; now rewrite E | reflexivity]).
  - rewrite get_set_entry.
    destruct (key_eqb (A', a') (A, a)) eqn:K; [apply key_eqb_eq in K; inversion K; subst; now rewrite E | reflexivity].
Qed.

Section Table.
  Variable G : gram.
  Variables fi fo : list fact.

  (** the lookaheads of a production *)
  Lemma select_In p x :
    In x (select fi fo p) <->
    (exists a, x = Some a /\ fstr fi (body p) a) \/ (nstr fi (body p) /\ In (head p, x) fo).
  Proof.
    unfold select. destruct (first_str_spec fi (body p)) as [F1 F2].
    rewrite in_app_iff, in_map_iff. split.
    - intros [[a [<- Ha]]|H].
      + left. exists a. split; [reflexivity | now apply F1].
      + destruct (snd (first_str fi (body p))) eqn:E; [|destruct H].
        right. split; [now apply F2 | now apply set_of_In].
    - intros [[a [-> Ha]]|[Hn Hx]].
      + left. exists a. split; [reflexivity | now apply F1].
      + right. apply F2 in Hn. rewrite Hn. now apply set_of_In.
  Qed.

  (** ** phase 1: addProduction for every production and every lookahead *)
  Definition good (t : table) : Prop := no_sync t /\ forall A x, NoDup (cell_prods t A x).

  Lemma add_production_good t A a p :
    good t ->
    good (add_production t A a p)
    /\ forall A' x q, In q (cell_prods (add_production t A a p) A' x) <->
                      In q (cell_prods t A' x) \/ (q = p /\ A' = A /\ x = a).
  Proof.
    intros [Hn Hd]. destruct (add_production_cell t A a p Hn) as [Hn' Hc]. split; [split; [exact Hn'|]|].
    - intros A' x. rewrite Hc. destruct (key_eqb (A', x) (A, a)); [|apply Hd].
      apply add_NoDup; [apply prod_eqb_eq | apply Hd].
    - intros A' x q. rewrite Hc. destruct (key_eqb (A', x) (A, a)) eqn:K.
      + apply key_eqb_eq in K. inversion K; subst. rewrite (add_In prod_eqb prod_eqb_eq). tauto.
      + split; [tauto|]. intros [H|[-> [-> ->]]]; [exact H|]. rewrite key_eqb_refl in K. discriminate.
  Qed.

  Lemma add_lookaheads_cell p l : forall t,
    good t ->
    good (fold_left (fun t a => add_production t (head p) a p) l t)
    /\ forall A x q, In q (cell_prods (fold_left (fun t a => add_production t (head p) a p) l t) A x) <->
                     In q (cell_prods t A x) \/ (q = p /\ A = head p /\ In x l).
  Proof.
    induction l as [|a l IH]; intros t Hg; simpl.
    - split; [exact Hg|]. intros; tauto.
    - destruct (add_production_good t (head p) a p Hg) as [Hg1 H1].
      destruct (IH _ Hg1) as [Hg2 H2]. split; [exact Hg2|].
      intros A x q. rewrite H2, H1. split; intros H; intuition (subst; auto).
  Qed.

  Lemma add_prods_cell l : forall t,
    good t ->
    good (fold_left (table_add_prod fi fo) l t)
    /\ forall A x q, In q (cell_prods (fold_left (table_add_prod fi fo) l t) A x) <->
                     In q (cell_prods t A x) \/ (In q l /\ head q = A /\ In x (select fi fo q)).
  Proof.
    induction l as [|p l IH]; intros t Hg; simpl.
    - split; [exact Hg|]. intros; tauto.
    - destruct (add_lookaheads_cell p (select fi fo p) t Hg) as [Hg1 H1].
      destruct (IH _ Hg1) as [Hg2 H2]. split; [exact Hg2|].
      intros A x q. rewrite H2. unfold table_add_prod. rewrite H1.
      split; intros H; intuition (subst; auto).
  Qed.

  (** ** phase 2: setSync never touches the productions *)
  Lemma table_sync_cell A : forall t A' x, cell_prods (table_sync fo t A) A' x = cell_prods t A' x.
  Proof.
    unfold table_sync. induction (set_of fo A) as [|a l IH]; intros t A' x; simpl; [reflexivity|].
    now rewrite IH, set_sync_cell.
  Qed.

  Lemma table_syncs_cell l : forall t A' x, cell_prods (fold_left (table_sync fo) l t) A' x = cell_prods t A' x.
  Proof.
    induction l as [|A l IH]; intros t A' x; simpl; [reflexivity|]. now rewrite IH, table_sync_cell.
  Qed.

  (** ** the cells of the finished table *)
  Theorem table_build_cell A x q :
    In q (cell_prods (table_build G fi fo) A x) <->
    In q (prods G) /\ head q = A /\ In x (select fi fo q).
  Proof.
    unfold table_build. rewrite table_syncs_cell.
    assert (Hg : good []) by (split; [intros k e H; discriminate | intros; constructor]).
    destruct (add_prods_cell (prods G) [] Hg) as [_ H]. rewrite H. simpl. tauto.
  Qed.

  Theorem table_build_NoDup A x : NoDup (cell_prods (table_build G fi fo) A x).
  Proof.
    unfold table_build. rewrite table_syncs_cell.
    assert (Hg : good []) by (split; [intros k e H; discriminate | intros; constructor]).
    destruct (add_prods_cell (prods G) [] Hg) as [[_ Hd] _]. apply Hd.
  Qed.

  (** a cell with more than one production holds two different ones *)
  Lemma two_in_cell (l : list prod) : NoDup l -> 1 < length l -> exists p q, In p l /\ In q l /\ p <> q.
  Proof.
    intros Hd Hl. destruct l as [|p [|q l]]; simpl in Hl; try lia.
    exists p, q. split; [now left | split; [right; now left|]].
    intros ->. inversion Hd; subst. apply H1. now left.
  Qed.

  Lemma cell_le_1 (l : list prod) : NoDup l -> (length l <= 1 <-> forall p q, In p l -> In q l -> p = q).
  Proof.
    intros Hd. split.
    - intros Hl p q Hp Hq. destruct l as [|x [|y l]]; simpl in *.
      + destruct Hp.
      + destruct Hp as [<-|[]], Hq as [<-|[]]; reflexivity.
      + lia.
    - intros H. destruct (le_lt_dec (length l) 1) as [|Hl]; [assumption|].
      destruct (two_in_cell l Hd Hl) as [p [q [Hp [Hq Hne]]]]. now destruct Hne; apply H.
  Qed.

  (** ** the LL(1) conditions on a pair of alternatives *)
  Definition pair_ok (p q : prod) : Prop :=
    (forall a, fstr fi (body p) a -> fstr fi (body q) a -> False)
    /\ (nstr fi (body p) -> nstr fi (body q) -> False)
    /\ (nstr fi (body p) -> forall a, fstr fi (body q) a -> In (head p, Some a) fo -> False)
    /\ (nstr fi (body q) -> forall a, fstr fi (body p) a -> In (head p, Some a) fo -> False).

  Lemma disjointb_nat l1 l2 : disjointb Nat.eqb l1 l2 = true <-> forall x, In x l1 -> In x l2 -> False.
  Proof. rewrite (disjointb_true Nat.eqb Nat.eqb_eq). unfold not. tauto. Qed.

  Lemma ll1_pair_errors_zero p q : ll1_pair_errors fi fo p q = 0 <-> pair_ok p q.
  Proof.
    unfold ll1_pair_errors, pair_ok.
    destruct (first_str_spec fi (body p)) as [P1 P2]. destruct (first_str_spec fi (body q)) as [Q1 Q2].
    set (tp := fst (first_str fi (body p))) in *. set (ep := snd (first_str fi (body p))) in *.
    set (tq := fst (first_str fi (body q))) in *. set (eq := snd (first_str fi (body q))) in *.
    assert (D1 : disjointb Nat.eqb tp tq = true <-> (forall a, fstr fi (body p) a -> fstr fi (body q) a -> False)).
    { rewrite disjointb_nat. split; intros H a; [rewrite <- P1, <- Q1 | rewrite P1, Q1]; apply H. }
    assert (D2 : disjointb Nat.eqb tq (terms_of fo (head p)) = true <->
                 (forall a, fstr fi (body q) a -> In (head p, Some a) fo -> False)).
    { rewrite disjointb_nat. split; intros H a; [rewrite <- Q1, <- terms_of_In | rewrite Q1, terms_of_In]; apply H. }
    assert (D3 : disjointb Nat.eqb tp (terms_of fo (head p)) = true <->
                 (forall a, fstr fi (body p) a -> In (head p, Some a) fo -> False)).
    { rewrite disjointb_nat. split; intros H a; [rewrite <- P1, <- terms_of_In | rewrite P1, terms_of_In]; apply H. }
    rewrite <- D1, <- D2, <- D3, <- P2, <- Q2.
    destruct (disjointb Nat.eqb tp tq), ep, eq, (disjointb Nat.eqb tq (terms_of fo (head p))),
      (disjointb Nat.eqb tp (terms_of fo (head p))); simpl;
      (split; [try discriminate; intros _; repeat split; congruence | intros [H1 [H2 [H3 H4]]]; try reflexivity; exfalso; auto]).
  Qed.

  Definition ll1_rel (p q : prod) : Prop := head p = head q -> pair_ok p q.

  Lemma ll1_inner_zero p l :
    fold_right (fun q n => (if head p =? head q then ll1_pair_errors fi fo p q else 0) + n) 0 l = 0
    <-> Forall (ll1_rel p) l.
  Proof.
    induction l as [|q l IH]; simpl; [split; [constructor | reflexivity]|].
    rewrite Nat.eq_add_0, IH. split.
    - intros [H1 H2]. constructor; [|exact H2]. intros E. apply Nat.eqb_eq in E. rewrite E in H1.
      now apply ll1_pair_errors_zero.
    - intros H. inversion H; subst. split; [|assumption].
      destruct (head p =? head q) eqn:E; [|reflexivity]. apply Nat.eqb_eq in E. now apply ll1_pair_errors_zero, H2.
  Qed.

  Lemma ll1_errors_zero l : ll1_errors fi fo l = 0 <-> ForallOrdPairs ll1_rel l.
  Proof.
    induction l as [|p l IH]; simpl; [split; [constructor | reflexivity]|].
    rewrite Nat.eq_add_0, ll1_inner_zero, IH. split.
    - intros [H1 H2]. now constructor.
    - intros H. inversion H; subst. auto.
  Qed.

  Lemma pair_ok_sym p q : head p = head q -> pair_ok p q -> pair_ok q p.
  Proof.
    intros E [H1 [H2 [H3 H4]]]. unfold pair_ok. rewrite <- E.
    repeat split; intros; eauto.
  Qed.

  (** two alternatives that share a cell violate the conditions *)
  Lemma shared_cell_not_ok p q x :
    head p = head q -> In x (select fi fo p) -> In x (select fi fo q) -> ~ pair_ok p q.
  Proof.
    intros E Hp Hq [H1 [H2 [H3 H4]]]. apply select_In in Hp, Hq. rewrite <- E in Hq.
    destruct Hp as [[a [-> Ha]]|[Hn Hf]]; destruct Hq as [[b [Eb Hb]]|[Hn' Hf']].
    - inversion Eb; subst. eauto.
    - eauto.
    - subst x. eauto.
    - eauto.
  Qed.
End Table.
