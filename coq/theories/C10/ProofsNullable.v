(** C10 — NullableNonTerminals is exactly the set of non-terminals deriving the empty string. *)
From Coq Require Import List Arith Bool Lia.
From Algo.C10 Require Import Model Spec Sat.
Import ListNotations.

Section Nullable.
  Variable G : gram.

  (** every symbol of [b] is a non-terminal of [nu] *)
  Lemma all_nullable_spec nu b :
    all_nullable nu b = true <-> Forall (fun s => exists B, s = Nt B /\ In B nu) b.
  Proof.
    unfold all_nullable. rewrite forallb_forall, Forall_forall. split; intros H s Hs.
    - specialize (H s Hs). destruct s as [a|B]; [discriminate|]. exists B. split; [reflexivity | now apply mem_In].
    - destruct (H s Hs) as [B [-> HB]]. now apply mem_In.
  Qed.

  Lemma null_step_extends nu p : extends nu (null_step nu p).
  Proof.
    unfold null_step. destruct (mem (head p) nu); [apply extends_refl|].
    destruct (all_nullable nu (body p)); [exists [head p]; reflexivity | apply extends_refl].
  Qed.

  Lemma null_pass_extends l nu : extends nu (null_pass l nu).
  Proof. apply fold_extends, null_step_extends. Qed.

  (** ** soundness *)
  Definition null_sound (nu : list nat) : Prop := forall A, In A nu -> nullable_nt G A.

  Lemma all_nullable_derives nu b :
    null_sound nu -> all_nullable nu b = true -> derives G b [].
  Proof.
    intros Hs H. apply all_nullable_spec in H.
    induction H as [|s b [B [-> HB]] _ IH]; [apply derives_refl|].
    apply (derives_app G [Nt B] [] b []); [now apply Hs | exact IH].
  Qed.

  Lemma null_step_sound nu p : In p (prods G) -> null_sound nu -> null_sound (null_step nu p).
  Proof.
    intros Hp Hs. unfold null_step. destruct (mem (head p) nu); [exact Hs|].
    destruct (all_nullable nu (body p)) eqn:E; [|exact Hs].
    intros A [<-|HA]; [|now apply Hs].
    eapply derives_trans; [apply derives_prod; exact Hp | now apply (all_nullable_derives nu)].
  Qed.

  Lemma null_fold_sound l nu :
    incl l (prods G) -> null_sound nu -> null_sound (fold_left null_step l nu).
  Proof.
    revert nu; induction l as [|p l IH]; intros nu Hl Hs; simpl; [exact Hs|].
    apply IH; [intros x Hx; apply Hl; now right|].
    apply null_step_sound; [apply Hl; now left | exact Hs].
  Qed.

  Lemma null_pass_sound l nu : incl l (prods G) -> null_sound nu -> null_sound (null_pass l nu).
  Proof. apply null_fold_sound. Qed.

  (** ** completeness at a fixpoint *)
  Definition null_closed (nu : list nat) : Prop :=
    forall p, In p (prods G) -> all_nullable nu (body p) = true -> In (head p) nu.

  Lemma null_fixed_closed l nu :
    (forall p, In p (prods G) -> In p l) -> null_pass l nu = nu -> null_closed nu.
  Proof.
    intros Hl Hfix p Hp Hb. apply Hl in Hp.
    pose proof (fold_fixed null_step null_step_extends _ _ Hfix p Hp) as E.
    unfold null_step in E. destruct (mem (head p) nu) eqn:M; [now apply mem_In|].
    rewrite Hb in E. exfalso.
    assert (L : length (head p :: nu) = length nu) by now rewrite E. simpl in L. lia.
  Qed.

  Lemma all_nullable_app nu a b :
    all_nullable nu (a ++ b) = all_nullable nu a && all_nullable nu b.
  Proof. unfold all_nullable. apply forallb_app. Qed.

  Lemma null_complete_form nu :
    null_closed nu ->
    forall x y, clos_refl_trans_1n _ (step G) x y -> y = [] -> all_nullable nu x = true.
  Proof.
    intros Hfix x y H. induction H as [x | x z y Hstep _ IH]; intros ->; [reflexivity|].
    specialize (IH eq_refl). destruct Hstep as [u v p Hp].
    rewrite !all_nullable_app in IH. apply andb_true_iff in IH. destruct IH as [Hu Hv].
    apply andb_true_iff in Hv. destruct Hv as [Hb Hv].
    rewrite all_nullable_app. simpl. rewrite Hu, Hv. simpl. rewrite andb_true_r.
    apply mem_In. now apply Hfix.
  Qed.

  Lemma null_complete nu A : null_closed nu -> nullable_nt G A -> In A nu.
  Proof.
    intros Hfix H. apply clos_rt_rt1n in H.
    pose proof (null_complete_form nu Hfix _ _ H eq_refl) as E.
    simpl in E. rewrite andb_true_r in E. now apply mem_In.
  Qed.

  (** ** termination: the fuel of [nullable] is never exhausted *)
  Lemma null_step_inv nu p :
    In p (prods G) ->
    NoDup nu -> incl nu (map head (prods G)) ->
    NoDup (null_step nu p) /\ incl (null_step nu p) (map head (prods G)).
  Proof.
    intros Hp Hn Hi. unfold null_step. destruct (mem (head p) nu) eqn:M; [auto|].
    destruct (all_nullable nu (body p)); [|auto]. split.
    - constructor; [|exact Hn]. intros HA. apply mem_In in HA. congruence.
    - intros x [<-|Hx]; [now apply in_map | now apply Hi].
  Qed.

  Lemma null_fold_inv l nu :
    incl l (prods G) -> NoDup nu -> incl nu (map head (prods G)) ->
    NoDup (fold_left null_step l nu) /\ incl (fold_left null_step l nu) (map head (prods G)).
  Proof.
    revert nu; induction l as [|p l IH]; intros nu Hl Hn Hi; simpl; [auto|].
    destruct (null_step_inv nu p (Hl p (or_introl eq_refl)) Hn Hi) as [Hn' Hi'].
    apply IH; auto. intros x Hx; apply Hl; now right.
  Qed.

  Variable O : oracle.
  Hypothesis HO : orders_ok G (o_null O).

  Lemma nullable_terminates : nullable G O <> None.
  Proof.
    unfold nullable.
    apply (sat_loop_terminates (fun i => null_pass (o_null O i)) (fun i => null_pass_extends _) (map head (prods G))).
    - intros j x Hn Hi. apply null_fold_inv; auto. intros p Hp. now apply (HO j).
    - constructor.
    - intros x [].
    - rewrite map_length. simpl. lia.
  Qed.

  (** ** the theorem *)
  Theorem nullable_exact :
    exists nu, nullable G O = Some nu /\ forall A, In A nu <-> nullable_nt G A.
  Proof.
    destruct (nullable G O) as [nu|] eqn:E; [|now destruct nullable_terminates].
    exists nu. split; [reflexivity|]. intros A. unfold nullable in E. split.
    - revert A. change (null_sound nu).
      eapply (sat_loop_inv (fun i => null_pass (o_null O i)) null_sound); [| | exact E].
      + intros j x. apply null_pass_sound. intros p Hp. now apply (HO j).
      + intros A [].
    - apply null_complete.
      destruct (sat_loop_fix (fun i => null_pass (o_null O i)) (fun i => null_pass_extends _) _ _ _ _ E) as [j Hj].
      apply (null_fixed_closed (o_null O j)); [|exact Hj]. intros p Hp. now apply (HO j).
  Qed.
End Nullable.
