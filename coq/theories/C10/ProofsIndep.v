(** C10 — the observable results do not depend on the iteration oracle (for every grammar):
    the fact tables computed under two oracles have the same members, hence the same nullable set,
    the same FIRST(α) and FOLLOW(A) results, the same IsLL1 verdict and the same table verdict. *)
From Coq Require Import List Arith Bool Lia.
From Algo.C10 Require Import Model Spec Sat ProofsNullable ProofsFirst ProofsFollow ProofsTable Proofs.
Import ListNotations.

Definition same_facts (s s' : list fact) : Prop := forall f, In f s <-> In f s'.

(** * reading equivalent tables *)
Section Read.
  Variables s s' : list fact.
  Hypothesis HE : same_facts s s'.

  Lemma fsym_equiv X a : fsym s X a <-> fsym s' X a.
  Proof. destruct X; simpl; [tauto | apply HE]. Qed.

  Lemma nsym_equiv X : nsym s X <-> nsym s' X.
  Proof. destruct X; simpl; [tauto | apply HE]. Qed.

  Lemma fstr_equiv alpha a : fstr s alpha a <-> fstr s' alpha a.
  Proof. induction alpha as [|X alpha IH]; simpl; [tauto | rewrite IH, fsym_equiv, nsym_equiv; tauto]. Qed.

  Lemma nstr_equiv alpha : nstr s alpha <-> nstr s' alpha.
  Proof. induction alpha as [|X alpha IH]; simpl; [tauto | rewrite IH, nsym_equiv; tauto]. Qed.

  Lemma first_sym_eps_equiv X : first_sym_eps s X = first_sym_eps s' X.
  Proof. apply eq_true_iff_eq. rewrite !first_sym_eps_true. apply nsym_equiv. Qed.

  Lemma first_sym_terms_equiv X a : In a (first_sym_terms s X) <-> In a (first_sym_terms s' X).
  Proof. rewrite !first_sym_terms_In. apply fsym_equiv. Qed.

  Lemma terms_of_equiv A a : In a (terms_of s A) <-> In a (terms_of s' A).
  Proof. rewrite !terms_of_In. apply HE. Qed.

  Lemma flag_of_equiv A : flag_of s A = flag_of s' A.
  Proof. apply eq_true_iff_eq. rewrite !flag_of_true. apply HE. Qed.
End Read.

(** results of the FIRST / FOLLOW closures, compared as sets *)
Definition res_equiv (r r' : option (res (list nat * bool))) : Prop :=
  match r, r' with
  | Some (Ok (ts, e)), Some (Ok (ts', e')) => (forall a, In a ts <-> In a ts') /\ e = e'
  | Some Panic, Some Panic => True
  | _, _ => False
  end.

Lemma first_str_go_equiv G s s' : same_facts s s' ->
  forall alpha acc acc', (forall a, In a acc <-> In a acc') ->
    res_equiv (Some (first_str_go G s alpha acc)) (Some (first_str_go G s' alpha acc')).
Proof.
  intros HE. induction alpha as [|X alpha IH]; intros acc acc' Ha; simpl.
  - split; [exact Ha | reflexivity].
  - destruct (known G X); [|exact I].
    rewrite (first_sym_eps_equiv s s' HE X).
    assert (Hu : forall a, In a (union acc (first_sym_terms s X)) <-> In a (union acc' (first_sym_terms s' X))).
    { intros a. rewrite !union_In, Ha, (first_sym_terms_equiv s s' HE). tauto. }
    destruct (first_sym_eps s' X); [apply IH, Hu | split; [exact Hu | reflexivity]].
Qed.

Lemma ForallOrdPairs_equiv {A} (R R' : A -> A -> Prop) l :
  (forall x y, R x y <-> R' x y) -> ForallOrdPairs R l -> ForallOrdPairs R' l.
Proof.
  intros H. induction 1 as [|x l Hx _ IH]; constructor; [|exact IH].
  eapply Forall_impl; [|exact Hx]. intros y. apply H.
Qed.

Lemma two_distinct_long (l : list prod) p q : In p l -> In q l -> p <> q -> 1 < length l.
Proof.
  intros Hp Hq Hne. destruct l as [|x [|y l]]; simpl in *; [tauto | | lia].
  destruct Hp as [->|[]], Hq as [->|[]]. congruence.
Qed.

Section Indep.
  Variable G : gram.
  Variables O O' : oracle.
  Hypothesis HO : oracle_ok G O.
  Hypothesis HO' : oracle_ok G O'.

  Variables fi fi' fo fo' : list fact.
  Hypothesis Ef : first_table G O = Some fi.
  Hypothesis Ef' : first_table G O' = Some fi'.
  Hypothesis Eo : follow_table G O fi = Some fo.
  Hypothesis Eo' : follow_table G O' fi' = Some fo'.

  Lemma first_tables_same : same_facts fi fi'.
  Proof.
    destruct (first_table_exact G O (proj1 (proj2 HO))) as [s [E [X1 X2]]].
    destruct (first_table_exact G O' (proj1 (proj2 HO'))) as [s' [E' [Y1 Y2]]].
    rewrite Ef in E. rewrite Ef' in E'. inversion E; inversion E'; subst s s'.
    intros [A [a|]].
    - specialize (X1 [Nt A] a). specialize (Y1 [Nt A] a). simpl in X1, Y1. tauto.
    - specialize (X2 [Nt A]). specialize (Y2 [Nt A]). simpl in X2, Y2. tauto.
  Qed.

  Lemma followI_equiv A x : followI G fi A x -> followI G fi' A x.
  Proof.
    pose proof first_tables_same as HE.
    induction 1 as [|p b1 B b2 a Hp Hb Ha | p b1 B b2 x Hp Hb Hn _ IH].
    - constructor.
    - apply (fI_first G fi' p b1 B b2 a Hp Hb). now apply (fstr_equiv fi fi' HE).
    - apply (fI_inherit G fi' p b1 B b2 x Hp Hb); [now apply (nstr_equiv fi fi' HE) | exact IH].
  Qed.
End Indep.

Section Indep2.
  Variable G : gram.
  Variables O O' : oracle.
  Hypothesis HO : oracle_ok G O.
  Hypothesis HO' : oracle_ok G O'.

  Variables fi fi' fo fo' : list fact.
  Hypothesis Ef : first_table G O = Some fi.
  Hypothesis Ef' : first_table G O' = Some fi'.
  Hypothesis Eo : follow_table G O fi = Some fo.
  Hypothesis Eo' : follow_table G O' fi' = Some fo'.

  Let HEf : same_facts fi fi' := first_tables_same G O O' HO HO' fi fi' Ef Ef'.

  Lemma follow_tables_same : same_facts fo fo'.
  Proof.
    destruct (first_table_props G O (proj1 (proj2 HO)) fi Ef) as [F1 [F2 F3]].
    destruct (first_table_props G O' (proj1 (proj2 HO')) fi' Ef') as [F1' [F2' F3']].
    destruct (follow_table_props G fi F1 F2 F3 O (proj2 (proj2 HO))) as [s [E [_ [_ [_ [_ [_ L]]]]]]].
    destruct (follow_table_props G fi' F1' F2' F3' O' (proj2 (proj2 HO'))) as [s' [E' [_ [_ [_ [_ [_ L']]]]]]].
    rewrite Eo in E. rewrite Eo' in E'. inversion E; inversion E'; subst s s'.
    intros [A x]. rewrite L, L'. split.
    - apply (followI_equiv G O O' HO HO' fi fi' Ef Ef').
    - apply (followI_equiv G O' O HO' HO fi' fi Ef' Ef).
  Qed.

  Let HEo : same_facts fo fo' := follow_tables_same.

  Lemma select_equiv p x : In x (select fi fo p) <-> In x (select fi' fo' p).
  Proof.
    rewrite !select_In. rewrite (nstr_equiv fi fi' HEf). rewrite (HEo (head p, x)).
    split; (intros [[a [E H]]|H]; [left; exists a; split; [exact E|]; now apply (fstr_equiv fi fi' HEf) | now right]).
  Qed.

  Lemma cell_equiv A x q :
    In q (cell_prods (table_build G fi fo) A x) <-> In q (cell_prods (table_build G fi' fo') A x).
  Proof. rewrite !table_build_cell, select_equiv. tauto. Qed.

  Lemma cell_long_equiv A x :
    1 < length (cell_prods (table_build G fi fo) A x) -> 1 < length (cell_prods (table_build G fi' fo') A x).
  Proof.
    intros Hl. destruct (two_in_cell _ (table_build_NoDup G fi fo A x) Hl) as [p [q [Hp [Hq Hne]]]].
    apply cell_equiv in Hp, Hq. now apply (two_distinct_long _ p q).
  Qed.

  Lemma pair_ok_equiv p q : pair_ok fi fo p q -> pair_ok fi' fo' p q.
  Proof.
    unfold pair_ok. intros [H1 [H2 [H3 H4]]].
    repeat split; intros;
      repeat match goal with
             | H : fstr fi' _ _ |- _ => apply (fstr_equiv fi fi' HEf) in H
             | H : nstr fi' _ |- _ => apply (nstr_equiv fi fi' HEf) in H
             | H : In _ fo' |- _ => apply HEo in H
             end; eauto.
  Qed.
End Indep2.

(** * the theorem *)
Theorem oracle_independent (G : gram) (O O' : oracle) :
  oracle_ok G O -> oracle_ok G O' ->
  (forall nu nu', NullableNonTerminals G O = Some nu -> NullableNonTerminals G O' = Some nu' ->
                  forall A, In A nu <-> In A nu')
  /\ (forall alpha, res_equiv (FIRST G O alpha) (FIRST G O' alpha))
  /\ (forall A, res_equiv (FOLLOW G O A) (FOLLOW G O' A))
  /\ IsLL1 G O = IsLL1 G O'
  /\ (forall t c t' c', BuildParsingTable G O = Some (t, c) -> BuildParsingTable G O' = Some (t', c') -> c = c').
Proof.
  intros HO HO'.
  destruct (analyse_total G O HO) as [nu [fi [fo [En [Ef [Eo Ea]]]]]].
  destruct (analyse_total G O' HO') as [nu' [fi' [fo' [En' [Ef' [Eo' Ea']]]]]].
  pose proof (first_tables_same G O O' HO HO' fi fi' Ef Ef') as HEf.
  pose proof (follow_tables_same G O O' HO HO' fi fi' fo fo' Ef Ef' Eo Eo') as HEo.
  split; [|split; [|split; [|split]]].
  - intros n1 n2 E1 E2 A.
    destruct (nullable_thm G O HO) as [m1 [M1 H1]]. destruct (nullable_thm G O' HO') as [m2 [M2 H2]].
    rewrite E1 in M1. rewrite E2 in M2. inversion M1; inversion M2; subst. now rewrite H1, H2.
  - intros alpha. unfold FIRST. rewrite Ef, Ef'. apply first_str_go_equiv; [exact HEf | tauto].
  - intros A. unfold FOLLOW, follow_go. rewrite Ef, Ef', Eo, Eo'.
    destruct (mem A (nonterms G)); [|exact I]. split.
    + intros a. now apply terms_of_equiv.
    + now apply flag_of_equiv.
  - unfold IsLL1. rewrite Ea, Ea'. simpl. f_equal. apply eq_true_iff_eq.
    rewrite !Nat.eqb_eq, !ll1_errors_zero. split; apply ForallOrdPairs_equiv; intros p q; unfold ll1_rel;
      (split; intros H E; specialize (H E));
      first [ now apply (pair_ok_equiv G O O' HO HO' fi fi' fo fo' Ef Ef' Eo Eo')
            | now apply (pair_ok_equiv G O' O HO' HO fi' fi fo' fo Ef' Ef Eo' Eo) ].
  - intros t c t' c'. unfold BuildParsingTable. rewrite Ea, Ea'. simpl.
    intros H H'. inversion H; inversion H'; subst. apply eq_true_iff_eq.
    rewrite !conflicts_true. split; intros [A [a [HA [Ha Hl]]]]; exists A, a; (split; [exact HA|]); (split; [exact Ha|]).
    + now apply (cell_long_equiv G O O' HO HO' fi fi' fo fo' Ef Ef' Eo Eo').
    + now apply (cell_long_equiv G O' O HO' HO fi' fi fo' fo Ef' Ef Eo' Eo).
Qed.
