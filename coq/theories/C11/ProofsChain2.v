(** C11 — SLR conflict-free => LALR conflict-free on the modelled constructions (no precedence). *)
From Coq Require Import List ZArith Bool Arith Lia.
From Algo.Grammar Require Import CFG.
From Algo.C11 Require Import Model ModelPrec ModelSLR ModelLR1 Proofs ProofsLR0 ProofsSLR ProofsCLR ProofsLALR ProofsPrec ProofsChain.
Import ListNotations.

(** ** A. the LR(0) CLOSURE is closed (its fuel suffices) *)

Section Closed0.
  Variable ps : list prod.

  Definition closed0 (S : list item) : Prop :=
    forall it B p, In it S -> dot_symbol it = Some (Nt B) -> In p ps -> head p = B -> In (p, 0) S.

  Definition cstep (J : list item) (i : item) : list item :=
    match dot_symbol i with
    | Some (Nt B) => fold_left (fun J' p => if Nat.eqb (head p) B then add_item (p, 0) J' else J') ps J
    | _ => J
    end.

  Lemma closure_pass_eq I : closure_pass ps I = fold_left cstep I I.
  Proof. reflexivity. Qed.

  (** a set obtained from [I] by appending items that are new and of the form (p, 0), p in ps *)
  Definition ext (I J : list item) : Prop :=
    exists ex, J = I ++ ex /\ forall e, In e ex -> ~ In e I /\ snd e = 0 /\ In (fst e) ps.

  Lemma ext_refl I : ext I I.
  Proof. exists []. rewrite app_nil_r. split; [reflexivity|intros e []]. Qed.

  Lemma ext_add I J p : ext I J -> In p ps -> ext I (add_item (p, 0) J).
  Proof.
    intros [ex [E H]] Hp. unfold add_item. destruct (mem_item (p, 0) J) eqn:Em; [exists ex; auto|].
    exists (ex ++ [(p, 0)]). split; [subst J; now rewrite app_assoc|].
    intros e He. apply in_app_or in He as [He|[He|[]]]; [now apply H|]. subst e. simpl.
    split; [|auto]. intros Hin. assert (In (p, 0) J) by (subst J; apply in_or_app; now left).
    apply In_mem_item in H0. congruence.
  Qed.

  Lemma ext_cstep I J i : ext I J -> ext I (cstep J i).
  Proof.
    intros H. unfold cstep. destruct (dot_symbol i) as [[a|B]|]; auto.
    assert (Hgen : forall l J', (forall p, In p l -> In p ps) -> ext I J' ->
      ext I (fold_left (fun J' p => if Nat.eqb (head p) B then add_item (p, 0) J' else J') l J')).
    { induction l as [|p l IH]; intros J' Hl HJ; simpl; auto.
      apply IH; [intros q Hq; apply Hl; now right|].
      destruct (Nat.eqb (head p) B); auto. apply ext_add; auto. apply Hl. now left. }
    apply Hgen; auto.
  Qed.

  Lemma ext_pass I : ext I (closure_pass ps I).
  Proof.
    rewrite closure_pass_eq. apply fold_preserve; [|apply ext_refl]. intros c b. apply ext_cstep.
  Qed.

  Lemma cstep_incl J i : incl J (cstep J i).
  Proof.
    unfold cstep. destruct (dot_symbol i) as [[a|B]|]; try apply incl_refl. apply inner_fold_incl.
  Qed.

  Lemma cstep_adds J i B p : dot_symbol i = Some (Nt B) -> In p ps -> head p = B -> In (p, 0) (cstep J i).
  Proof.
    intros Hd Hp Hh. unfold cstep. rewrite Hd.
    apply (fold_establish _ (fun J' => In (p, 0) J') _ p Hp).
    - intros c. rewrite Hh, Nat.eqb_refl. apply add_item_In'. now right.
    - intros c b' Hc. destruct (Nat.eqb (head b') B); auto. now apply add_item_incl.
  Qed.

  Lemma pass_adds I it B p : In it I -> dot_symbol it = Some (Nt B) -> In p ps -> head p = B ->
    In (p, 0) (closure_pass ps I).
  Proof.
    intros Hit Hd Hp Hh. rewrite closure_pass_eq.
    apply (fold_establish _ (fun J => In (p, 0) J) _ it Hit).
    - intros c. eapply cstep_adds; eauto.
    - intros c b' Hc. now apply cstep_incl.
  Qed.

  Lemma stable_closed I : length (closure_pass ps I) = length I -> closed0 I.
  Proof.
    intros Hlen it B p Hit Hd Hp Hh.
    pose proof (pass_adds I it B p Hit Hd Hp Hh) as Hin.
    destruct (ext_pass I) as [ex [E _]]. rewrite E in Hlen, Hin. rewrite app_length in Hlen.
    destruct ex; [now rewrite app_nil_r in Hin|simpl in Hlen; lia].
  Qed.

  (** the number of productions whose initial item is still missing *)
  Definition missing (I : list item) : nat := length (filter (fun p => negb (mem_item (p, 0) I)) ps).

  Lemma filter_length_lt {A} (f g : A -> bool) (l : list A) :
    (forall x, f x = true -> g x = true) -> (exists x, In x l /\ g x = true /\ f x = false) ->
    length (filter f l) < length (filter g l).
  Proof.
    intros Himp. induction l as [|y l IH]; intros [x [Hx [Hg Hf]]]; [destruct Hx|]. simpl.
    assert (Hle : length (filter f l) <= length (filter g l)).
    { clear -Himp. induction l as [|z l IHl]; simpl; auto.
      destruct (f z) eqn:Ef; [rewrite (Himp _ Ef); simpl; lia|destruct (g z); simpl; lia]. }
    destruct Hx as [Hx|Hx].
    - subst y. rewrite Hg, Hf. simpl. lia.
    - assert (IH' := IH (ex_intro _ x (conj Hx (conj Hg Hf)))).
      destruct (f y) eqn:Ef; [rewrite (Himp _ Ef); simpl; lia|destruct (g y); simpl; lia].
  Qed.

  Lemma pass_progress I : length (closure_pass ps I) <> length I -> missing (closure_pass ps I) < missing I.
  Proof.
    intros Hlen. destruct (ext_pass I) as [ex [E Hex]].
    destruct ex as [|e ex]; [rewrite E, app_nil_r in Hlen; congruence|].
    destruct (Hex e (or_introl eq_refl)) as [Hn [H0 Hp]].
    unfold missing. apply filter_length_lt.
    - intros p Hf. apply negb_true_iff in Hf. apply negb_true_iff.
      destruct (mem_item (p, 0) I) eqn:Em; auto.
      apply mem_item_In in Em. assert (In (p, 0) (closure_pass ps I)) by (rewrite E; apply in_or_app; now left).
      apply In_mem_item in H. congruence.
    - exists (fst e). split; [exact Hp|]. destruct e as [p d]. simpl in *. subst d. split.
      + apply negb_true_iff. destruct (mem_item (p, 0) I) eqn:Em; auto. apply mem_item_In in Em. contradiction.
      + apply negb_false_iff. apply In_mem_item. rewrite E. apply in_or_app. right. now left.
  Qed.

  Lemma closure_iter_closed fuel : forall I, missing I < fuel -> closed0 (closure_iter fuel ps I).
  Proof.
    induction fuel as [|f IH]; intros I Hm; [lia|]. simpl.
    destruct (Nat.eqb_spec (length (closure_pass ps I)) (length I)) as [E|E].
    - now apply stable_closed.
    - apply IH. pose proof (pass_progress I E). lia.
  Qed.

  Theorem closure_closed I : closed0 (closure ps I).
  Proof.
    apply closure_iter_closed. unfold missing.
    assert (H : forall (f : prod -> bool) l, length (filter f l) <= length l).
    { intros f l. induction l as [|y l IHl]; simpl; auto. destruct (f y); simpl; lia. }
    specialize (H (fun p => negb (mem_item (p, 0) I)) ps). lia.
  Qed.
End Closed0.

(** ** B. the cores of an LR(1) CLOSURE stay inside a closed LR(0) set *)

Section Cores1.
  Variable nt : nat.
  Variable nl : list nat.
  Variable fe : fenv.
  Variable ps : list prod.
  Variable S0 : list item.
  Hypothesis Hclosed : closed0 ps S0.

  Definition cores_in (I : list item1) : Prop := forall x, In x I -> In (core_of x) S0.

  Lemma step1_cores J i : cores_in J -> In (core_of i) S0 -> cores_in (step1 nl fe ps J i).
  Proof.
    intros HJ Hi. unfold step1. destruct (dot_symbol (core_of i)) as [[a|B]|] eqn:Ed; auto.
    set (las := first_la nl fe _ _).
    assert (Hgen : forall l J', (forall p, In p l -> In p ps) -> cores_in J' ->
      cores_in (fold_left (fun J' p => if Nat.eqb (head p) B then fold_left (fun J'' b => add_item1 (p, 0, b) J'') las J' else J') l J')).
    { induction l as [|p l IH]; intros J' Hl HJ'; simpl; auto.
      apply IH; [intros q Hq; apply Hl; now right|].
      destruct (Nat.eqb_spec (head p) B) as [E|E]; auto.
      intros x Hx. apply las_fold_items in Hx as [Hx|Hx]; [now apply HJ'|].
      rewrite Hx. eapply Hclosed; eauto. apply Hl. now left. }
    apply Hgen; auto.
  Qed.

  Lemma closure1_pass_cores I : cores_in I -> cores_in (closure1_pass nl fe ps I).
  Proof.
    intros HI. rewrite closure1_pass_eq.
    assert (Hgen : forall l J, (forall i, In i l -> In (core_of i) S0) -> cores_in J -> cores_in (fold_left (step1 nl fe ps) l J)).
    { induction l as [|i l IH]; intros J Hl HJ; simpl; auto.
      apply IH; [intros i' Hi'; apply Hl; now right|]. apply step1_cores; auto. apply Hl. now left. }
    apply Hgen; auto.
  Qed.

  Lemma closure1_cores I : cores_in I -> cores_in (closure1 nt nl fe ps I).
  Proof.
    unfold closure1. generalize (S (length ps * S nt)). intros fuel. revert I.
    induction fuel as [|f IH]; intros I HI; simpl; auto.
    destruct (Nat.eqb (length (closure1_pass nl fe ps I)) (length I)); auto.
    apply IH. now apply closure1_pass_cores.
  Qed.
End Cores1.

(** ** C/D. every canonical LR(1) state has its cores inside a state of the LR(0) collection *)

Definition valid_syms (G : gram) : Prop :=
  (forall p c, In p (prods G) -> In (Tm c) (body p) -> In c (terms G)) /\
  (forall p A, In p (prods G) -> In (Nt A) (body p) -> In A (nonterms G)) /\
  In (start G) (nonterms G).

Lemma valid_syms_aug G : valid_syms G ->
  forall p X, In p (prods (augment G)) -> In X (body p) -> In X (symbols_of (augment G)).
Proof.
  intros [H1 [H2 H3]] p X Hp HX. unfold symbols_of. apply in_or_app.
  change (nonterms (augment G)) with (fresh_nt G :: nonterms G). change (terms (augment G)) with (terms G).
  change (prods (augment G)) with (aug_prod G :: prods G) in Hp.
  destruct Hp as [Hp|Hp].
  - subst p. simpl in HX. destruct HX as [HX|[]]. subst X. right. apply in_map. now right.
  - destruct X as [c|A]; [left; apply in_map; eauto|right; apply in_map; right; eauto].
Qed.

Section CoresInLR0.
  Variable G : gram.
  Hypothesis Hvalid : valid_syms G.
  Variable fuel0 : nat.
  Variable C0 : list (list item).
  Hypothesis HC0 : canonical fuel0 G = Some C0.
  Let c := ctx_of G.
  Let ps := prods (augment G).
  Let aug := aug_prod G.
  Let syms := symbols_of (augment G).

  Lemma reach1_in_lr0 I : reach1 G I -> exists J, In J C0 /\ forall it, In it I -> In (core_of it) J.
  Proof.
    destruct (C_coll G fuel0 C0 HC0) as [[t Et] Hcl]. destruct Et as [Et _].
    induction 1 as [|I X HI [J [HJ Hsub]] Hne].
    - exists (closure ps [(aug, 0)]). split; [rewrite Et; now left|].
      apply (closure1_cores _ _ _ ps); [apply closure_closed|].
      intros x [Hx|[]]. subst x. unfold core_of. simpl. apply closure_incl. now left.
    - destruct (goto1_nonempty_kernel G _ _ Hne) as [Eg Hk].
      destruct (reach1_spelled G _ HI) as [l Hl].
      (* X is a declared symbol *)
      assert (HX : In X syms).
      { destruct (goto1_kernel I X) as [|k0 K] eqn:Ek; [congruence|].
        assert (Hin : In k0 (goto1_kernel I X)) by (rewrite Ek; now left).
        apply goto1_kernel_items in Hin as [d [_ [Hi Hn]]].
        destruct (Hl _ Hi) as [Hp _].
        apply nth_error_In in Hn. apply (valid_syms_aug G Hvalid (fst (core_of k0))); [exact Hp|exact Hn]. }
      (* the advanced cores are in GOTO0(J, X) *)
      assert (Hker : forall x, In x (goto1_kernel I X) -> In (core_of x) (goto_kernel J X)).
      { intros [[p n] a] Hx. apply goto1_kernel_items in Hx as [d [Hd [Hi Hn]]].
        unfold core_of, la_of in *. cbn [fst snd] in *. subst n.
        pose proof (Hsub _ Hi) as HiJ. unfold core_of in HiJ. cbn [fst snd] in HiJ.
        exact (goto_kernel_has J X (p, d) HiJ Hn). }
      assert (Hk0 : goto_kernel J X <> []).
      { destruct (goto1_kernel I X) as [|k0 K] eqn:Ek; [congruence|].
        intros E. specialize (Hker k0 (or_introl eq_refl)). rewrite E in Hker. destruct Hker. }
      assert (Eg0 : goto ps J X = closure ps (goto_kernel J X)).
      { unfold goto. destruct (goto_kernel J X); [congruence|reflexivity]. }
      assert (Hsub' : forall it, In it (goto1 c I X) -> In (core_of it) (goto ps J X)).
      { unfold c. rewrite Eg, Eg0. apply (closure1_cores _ _ _ ps); [apply closure_closed|].
        intros x Hx. apply closure_incl. now apply Hker. }
      assert (Hne0 : goto ps J X <> []).
      { destruct (goto1 c I X) as [|y Y] eqn:Ey; [exfalso; apply Hne; exact Ey|].
        intros E. specialize (Hsub' y (or_introl eq_refl)). rewrite E in Hsub'. destruct Hsub'. }
      destruct (Hcl J X HJ HX) as [Hg|[k Hidx]]; [contradiction|].
      apply index_of_spec in Hidx as [_ [J' [Hn He]]]. rewrite Nat.sub_0_r in Hn.
      exists J'. split; [eapply nth_error_In; eauto|].
      intros it Hit. apply (itemset_eqb_spec _ _ He). now apply Hsub'.
  Qed.
End CoresInLR0.

(** ** E. FOLLOW: the round-robin result is closed under the FOLLOW rules once a pass adds nothing *)

Lemma fold_size_acc {A} (g : A -> nat) : forall (e : list A) n,
  fold_left (fun k x => k + g x) e n = n + fold_left (fun k x => k + g x) e 0.
Proof.
  induction e as [|x e IH]; intros n; simpl; [lia|]. rewrite (IH (n + g x)), (IH (g x)). lia.
Qed.

Definition ltotal (e : lenv) : nat := fold_left (fun k x => k + length (snd x)) e 0.

Lemma lenv_size_eq e : lenv_size e = length e + ltotal e.
Proof. unfold lenv_size, ltotal. apply fold_size_acc. Qed.

Lemma ltotal_cons x e : ltotal (x :: e) = length (snd x) + ltotal e.
Proof. unfold ltotal. simpl. apply fold_size_acc. Qed.

Lemma mem_look_In a l : mem_look a l = true <-> In a l.
Proof.
  unfold mem_look. rewrite existsb_exists. split.
  - intros [b [Hb E]]. apply look_eqb_eq in E. now subst.
  - intros H. exists a. split; auto. apply look_eqb_refl.
Qed.

Lemma add_look_spec a l : (In a l -> add_look a l = l) /\ (~ In a l -> add_look a l = a :: l).
Proof.
  unfold add_look. split; intros H.
  - apply mem_look_In in H. now rewrite H.
  - destruct (mem_look a l) eqn:E; [apply mem_look_In in E; contradiction|reflexivity].
Qed.

Lemma look_eq_dec (a b : look) : {a = b} + {a <> b}.
Proof. unfold look in *. decide equality. apply Nat.eq_dec. Qed.

Lemma union_look_spec : forall ts l,
  length l <= length (union_look ts l) /\ incl l (union_look ts l) /\
  (length (union_look ts l) = length l -> union_look ts l = l /\ incl ts l).
Proof.
  unfold union_look. induction ts as [|t ts IH]; intros l; simpl.
  - split; [lia|]. split; [apply incl_refl|]. intros _. split; [reflexivity|intros x []].
  - destruct (IH (add_look t l)) as [H1 [H2 H3]].
    destruct (in_dec look_eq_dec t l) as [Hin|Hin].
    + rewrite (proj1 (add_look_spec t l) Hin) in *. split; [exact H1|]. split; [exact H2|].
      intros E. destruct (H3 E) as [E1 E2]. split; auto. intros x [Hx|Hx]; [now subst|now apply E2].
    + rewrite (proj2 (add_look_spec t l) Hin) in *. simpl in H1. split; [lia|]. split.
      * intros x Hx. apply H2. now right.
      * intros E. lia.
Qed.

Lemma ladd_spec : forall e B ts,
  lenv_size e <= lenv_size (ladd e B ts) /\
  (forall A a, In a (lget e A) -> In a (lget (ladd e B ts) A)) /\
  (lenv_size (ladd e B ts) = lenv_size e -> ladd e B ts = e /\ incl ts (lget e B)).
Proof.
  induction e as [|[B' l] e IH]; intros B ts; simpl.
  - rewrite !lenv_size_eq, ltotal_cons. change (ltotal []) with 0. simpl. split; [lia|]. split; [intros A a []|]. intros E. lia.
  - destruct (Nat.eqb_spec B B') as [E|E].
    + subst B'. destruct (union_look_spec ts l) as [H1 [H2 H3]].
      rewrite !lenv_size_eq, !ltotal_cons. simpl. split; [lia|]. split.
      * intros A a. destruct (Nat.eqb A B); auto.
      * intros Es. assert (El : length (union_look ts l) = length l) by lia.
        destruct (H3 El) as [E1 E2]. rewrite E1. auto.
    + destruct (IH B ts) as [H1 [H2 H3]].
      rewrite !lenv_size_eq, !ltotal_cons in *. simpl. split; [lia|]. split.
      * intros A a. destruct (Nat.eqb A B'); auto.
      * intros Es. assert (Es' : length (ladd e B ts) + ltotal (ladd e B ts) = length e + ltotal e) by lia.
        destruct (H3 Es') as [E1 E2]. rewrite E1. split; [reflexivity|].
        destruct (Nat.eqb_spec B B'); [contradiction|exact E2].
Qed.

Section Follow.
  Variable nl : list nat.
  Variable fe : fenv.

  (** the FOLLOW rules for the occurrence of [B] in [A -> alpha B beta], in the environment [e] *)
  Definition rule_ok (e : lenv) (A B : nat) (beta : list sym) : Prop :=
    incl (map Some (first_str nl fe beta)) (lget e B) /\
    (nullable_str nl beta = true -> incl (lget e A) (lget e B)).

  Lemma follow_body_spec A : forall b e,
    lenv_size e <= lenv_size (follow_body nl fe A b e) /\
    (forall A' a, In a (lget e A') -> In a (lget (follow_body nl fe A b e) A')) /\
    (lenv_size (follow_body nl fe A b e) = lenv_size e ->
       follow_body nl fe A b e = e /\
       forall alpha B beta, b = alpha ++ Nt B :: beta -> rule_ok e A B beta).
  Proof.
    induction b as [|[t|B] r IH]; intros e; simpl.
    - split; [lia|]. split; [auto|]. intros _. split; [reflexivity|]. intros [|? ?] B beta E; discriminate.
    - destruct (IH e) as [H1 [H2 H3]]. split; [exact H1|]. split; [exact H2|].
      intros Es. destruct (H3 Es) as [E1 E2]. split; [exact E1|].
      intros [|x alpha] B beta E; [discriminate|]. inversion E; subst. eapply E2; eauto.
    - remember (ladd e B (map Some (first_str nl fe r))) as e1 eqn:De1.
      remember (if nullable_str nl r then ladd e1 B (lget e1 A) else e1) as e2 eqn:De2.
      destruct (ladd_spec e B (map Some (first_str nl fe r))) as [L1 [L2 L3]]. rewrite <- De1 in L1, L2, L3.
      assert (M : lenv_size e1 <= lenv_size e2 /\ (forall A' a, In a (lget e1 A') -> In a (lget e2 A')) /\
                  (lenv_size e2 = lenv_size e1 -> e2 = e1 /\ (nullable_str nl r = true -> incl (lget e1 A) (lget e1 B)))).
      { rewrite De2. destruct (nullable_str nl r).
        - destruct (ladd_spec e1 B (lget e1 A)) as [K1 [K2 K3]]. split; [exact K1|]. split; [exact K2|].
          intros Es. destruct (K3 Es) as [E1 E2]. auto.
        - split; [lia|]. split; [auto|]. intros _. split; [reflexivity|discriminate]. }
      destruct M as [M1 [M2 M3]]. destruct (IH e2) as [H1 [H2 H3]].
      split; [lia|]. split; [intros A' a Ha; apply H2, M2, L2, Ha|].
      intros Es. assert (Es2 : lenv_size (follow_body nl fe A r e2) = lenv_size e2) by lia.
      assert (Es1 : lenv_size e2 = lenv_size e1) by lia. assert (Es0 : lenv_size e1 = lenv_size e) by lia.
      destruct (H3 Es2) as [E1 E2]. destruct (M3 Es1) as [E3 E4]. destruct (L3 Es0) as [E5 E6].
      rewrite E1, E3, E5. split; [reflexivity|].
      intros [|x alpha] B0 beta E.
      + inversion E; subst. split; [exact E6|]. rewrite E5 in E4. exact E4.
      + inversion E; subst. rewrite E3, E5 in E2. eapply E2; eauto.
  Qed.

  Variable ps : list prod.

  Lemma follow_pass_spec : forall l e,
    lenv_size e <= lenv_size (fold_left (fun e' p => follow_body nl fe (head p) (body p) e') l e) /\
    (forall A a, In a (lget e A) -> In a (lget (fold_left (fun e' p => follow_body nl fe (head p) (body p) e') l e) A)) /\
    (lenv_size (fold_left (fun e' p => follow_body nl fe (head p) (body p) e') l e) = lenv_size e ->
       forall p alpha B beta, In p l -> body p = alpha ++ Nt B :: beta -> rule_ok e (head p) B beta).
  Proof.
    induction l as [|q l IH]; intros e; simpl.
    - split; [lia|]. split; [auto|]. intros _ p alpha B beta [].
    - destruct (follow_body_spec (head q) (body q) e) as [F1 [F2 F3]].
      destruct (IH (follow_body nl fe (head q) (body q) e)) as [H1 [H2 H3]].
      split; [lia|]. split; [intros A a Ha; apply H2, F2, Ha|].
      intros Es.
      assert (Eq : lenv_size (follow_body nl fe (head q) (body q) e) = lenv_size e) by lia.
      destruct (F3 Eq) as [E1 E2]. rewrite E1 in H3.
      intros p alpha B beta [Hp|Hp] Hb; [subst p; eapply E2; eauto|]. eapply H3; eauto. rewrite E1 in Es. exact Es.
  Qed.

  Lemma fix_size_mono (f : lenv -> lenv) (Hf : forall e A a, In a (lget e A) -> In a (lget (f e) A)) fuel :
    forall e A a, In a (lget e A) -> In a (lget (fix_size fuel lenv_size f e) A).
  Proof.
    induction fuel as [|k IH]; intros e A a Ha; simpl; auto.
    destruct (Nat.eqb (lenv_size (f e)) (lenv_size e)); auto.
  Qed.
End Follow.

(** ** E3. every lookahead of an item of a canonical LR(1) state is in FOLLOW of the item's head *)

Lemma nth_error_split_skipn {A} (l : list A) : forall d x, nth_error l d = Some x -> l = firstn d l ++ x :: skipn (S d) l.
Proof.
  induction l as [|y l IH]; intros [|d] x H; simpl in H; try discriminate.
  - inversion H; subst. reflexivity.
  - simpl. f_equal. now apply IH.
Qed.

Lemma las_fold_items2 p : forall las J x,
  In x (fold_left (fun J'' b => add_item1 (p, 0, b) J'') las J) -> In x J \/ exists b, In b las /\ x = (p, 0, b).
Proof.
  induction las as [|b las IH]; intros J x H; simpl in H; auto.
  apply IH in H as [H|[b' [Hb E]]].
  - apply add_item1_In in H as [H|H]; auto. right. exists b. split; [now left|exact H].
  - right. exists b'. split; [now right|exact E].
Qed.

Section FollowInv.
  Variable G : gram.
  Let G' := augment G.
  Let nl := nullables G'.
  Let fe := firsts G'.
  Let ps := prods G'.
  Let F := follows G'.
  Let c := ctx_of G.
  (** the FOLLOW fixpoint was reached (one more pass adds nothing) *)
  Hypothesis Hfix : lenv_size (follow_pass nl fe ps F) = lenv_size F.

  Lemma follow_rules p alpha B beta : In p ps -> body p = alpha ++ Nt B :: beta -> rule_ok nl fe F (head p) B beta.
  Proof.
    intros Hp Hb. destruct (follow_pass_spec nl fe ps F) as [_ [_ H3]]. exact (H3 Hfix p alpha B beta Hp Hb).
  Qed.

  Lemma follow_start : In None (lget F (fresh_nt G)).
  Proof.
    unfold F, follows. apply fix_size_mono.
    - intros e A a Ha. destruct (follow_pass_spec (nullables G') (firsts G') (prods G') e) as [_ [H2 _]]. now apply H2.
    - simpl. rewrite Nat.eqb_refl. now left.
  Qed.

  Definition good1 (I : list item1) : Prop :=
    forall it, In it I -> In (fst (fst it)) ps /\ In (la_of it) (lget F (head (fst (fst it)))).

  Lemma step1_good J i : good1 J -> In (fst (fst i)) ps -> In (la_of i) (lget F (head (fst (fst i)))) ->
    good1 (step1 nl fe ps J i).
  Proof.
    intros HJ Hip Hil. unfold step1. destruct (dot_symbol (core_of i)) as [[a|B]|] eqn:Ed; auto.
    unfold dot_symbol, core_of in Ed. cbn [fst snd] in Ed.
    pose proof (nth_error_split_skipn _ _ _ Ed) as Hsplit.
    destruct (follow_rules _ _ _ _ Hip Hsplit) as [R1 R2].
    set (las := first_la nl fe _ _).
    assert (Hlas : forall b, In b las -> In b (lget F B)).
    { intros b. unfold las, first_la.
      match goal with |- context [if ?cnd then _ else _] => destruct cnd eqn:En end; intros Hb.
      - apply in_app_or in Hb as [Hb|[Hb|[]]]; [now apply R1|]. subst b. now apply R2.
      - now apply R1. }
    assert (Hgen : forall l J', (forall p, In p l -> In p ps) -> good1 J' ->
      good1 (fold_left (fun J' p => if Nat.eqb (head p) B then fold_left (fun J'' b => add_item1 (p, 0, b) J'') las J' else J') l J')).
    { induction l as [|p l IH]; intros J' Hl HJ'; simpl; auto.
      apply IH; [intros q Hq; apply Hl; now right|].
      destruct (Nat.eqb_spec (head p) B) as [E|E]; auto.
      intros x Hx. apply las_fold_items2 in Hx as [Hx|[b [Hb Ex]]]; [now apply HJ'|].
      subst x. unfold la_of. cbn [fst snd]. split; [apply Hl; now left|]. rewrite E. now apply Hlas. }
    apply Hgen; auto.
  Qed.

  Lemma closure1_iter_good fuel : forall I, good1 I -> good1 (closure1_iter fuel nl fe ps I).
  Proof.
    induction fuel as [|f IH]; intros I HI; simpl; auto.
    destruct (Nat.eqb (length (closure1_pass nl fe ps I)) (length I)); auto.
    apply IH. rewrite closure1_pass_eq.
    assert (Hgen : forall l J, (forall i, In i l -> In (fst (fst i)) ps /\ In (la_of i) (lget F (head (fst (fst i))))) ->
                   good1 J -> good1 (fold_left (step1 nl fe ps) l J)).
    { induction l as [|i l IHl]; intros J Hl HJ; simpl; auto.
      apply IHl; [intros i' Hi'; apply Hl; now right|].
      destruct (Hl i (or_introl eq_refl)). now apply step1_good. }
    apply Hgen; auto.
  Qed.

  Lemma closure1_good nt I : good1 I -> good1 (closure1 nt nl fe ps I).
  Proof. apply closure1_iter_good. Qed.

  Lemma reach1_good I : reach1 G I -> good1 I.
  Proof.
    induction 1 as [|I X HI IH Hne].
    - apply (closure1_good (c_nterms c)). intros it [E|[]]. subst it. unfold la_of. cbn [fst snd].
      split; [now left|]. apply follow_start.
    - destruct (goto1_nonempty_kernel G _ _ Hne) as [Eg _]. rewrite Eg.
      apply (closure1_good (c_nterms c)). intros [[p n] a] Hx.
      apply goto1_kernel_items in Hx as [d [Hd [Hi _]]]. unfold core_of, la_of in *. cbn [fst snd] in *.
      exact (IH _ Hi).
  Qed.
End FollowInv.

(** ** F. the cells of the SLR table: well-formed, and complete w.r.t. the items of the states *)

Section ItemActions0.
  Variable G : gram.
  Variable ps : list prod.
  Variable fo : lenv.
  Variable C : list (list item).
  Variable i : Z.
  Variable I : list item.

  Lemma ia0_wf cells it : cells_wf cells -> cells_wf (item_actions G ps fo C i I cells it).
  Proof.
    intros H. unfold item_actions.
    set (c1 := match dot_symbol it with
               | Some (Tm a) => cell_add cells i (Some a) (Shift (state_of C (goto ps I (Tm a)))) | _ => cells end).
    assert (H1 : cells_wf c1) by (unfold c1; destruct (dot_symbol it) as [[a|A]|]; auto using cell_add_wf).
    destruct (is_complete it); auto.
    destruct (Nat.eqb (head (fst it)) (fresh_nt G)); [now apply cell_add_wf|].
    apply fold_preserve; auto. intros c0 b Hc. now apply cell_add_wf.
  Qed.

  Lemma ia0_mono cells it s a x : has cells s a x -> has (item_actions G ps fo C i I cells it) s a x.
  Proof.
    intros H. unfold item_actions.
    set (c1 := match dot_symbol it with
               | Some (Tm a) => cell_add cells i (Some a) (Shift (state_of C (goto ps I (Tm a)))) | _ => cells end).
    assert (H1 : has c1 s a x) by (unfold c1; destruct (dot_symbol it) as [[b|A]|]; auto using has_cell_add_mono).
    destruct (is_complete it); auto.
    destruct (Nat.eqb (head (fst it)) (fresh_nt G)); [now apply has_cell_add_mono|].
    apply (fold_preserve _ (fun c0 => has c0 s a x)); auto. intros c0 b Hc. now apply has_cell_add_mono.
  Qed.

  Lemma ia0_shift cells it t : dot_symbol it = Some (Tm t) ->
    has (item_actions G ps fo C i I cells it) i (Some t) (Shift (state_of C (goto ps I (Tm t)))).
  Proof.
    intros Hd. unfold item_actions. rewrite Hd.
    assert (H1 : has (cell_add cells i (Some t) (Shift (state_of C (goto ps I (Tm t))))) i (Some t)
                     (Shift (state_of C (goto ps I (Tm t))))) by apply has_cell_add_same.
    destruct (is_complete it); auto.
    destruct (Nat.eqb (head (fst it)) (fresh_nt G)); [now apply has_cell_add_mono|].
    apply (fold_preserve _ (fun c0 => has c0 i (Some t) (Shift (state_of C (goto ps I (Tm t)))))); auto.
    intros c0 b Hc. now apply has_cell_add_mono.
  Qed.

  Lemma ia0_accept cells it : is_complete it = true -> head (fst it) = fresh_nt G ->
    has (item_actions G ps fo C i I cells it) i None Accept.
  Proof. intros Hc Hh. unfold item_actions. rewrite Hc, Hh, Nat.eqb_refl. apply has_cell_add_same. Qed.

  Lemma ia0_reduce cells it a : is_complete it = true -> head (fst it) <> fresh_nt G ->
    In a (lget fo (head (fst it))) -> has (item_actions G ps fo C i I cells it) i a (Reduce (fst it)).
  Proof.
    intros Hc Hh Ha. unfold item_actions. rewrite Hc.
    destruct (Nat.eqb_spec (head (fst it)) (fresh_nt G)); [contradiction|].
    apply (fold_establish _ (fun c0 => has c0 i a (Reduce (fst it))) _ a Ha).
    - intros c0. apply has_cell_add_same.
    - intros c0 b Hc0. now apply has_cell_add_mono.
  Qed.
End ItemActions0.

Definition contrib0 (it : item) (fresh : nat) (fo : lenv) (a : look) (x : action) : Prop :=
  (exists t, dot_symbol it = Some (Tm t) /\ a = Some t /\ proj x = Shift 0) \/
  (is_complete it = true /\ head (fst it) = fresh /\ a = None /\ x = Accept) \/
  (is_complete it = true /\ head (fst it) <> fresh /\ In a (lget fo (head (fst it))) /\ x = Reduce (fst it)).

Lemma slr_cells G fuel C r : canonical fuel G = Some C -> slr_raw fuel G = Some r ->
  cells_wf (r_action r) /\
  forall k J it a x, nth_error C k = Some J -> In it J -> contrib0 it (fresh_nt G) (follows (augment G)) a x ->
    exists x', has (r_action r) (Z.of_nat k) a x' /\ proj x' = proj x.
Proof.
  intros HC. unfold slr_raw. rewrite HC. intros H. inversion H; subst r; clear H. cbn [r_action]. split.
  - apply fold_preserve; [|apply cells_wf_nil]. intros cells sI Hc.
    apply fold_preserve; auto. intros cells' it Hc'. now apply ia0_wf.
  - intros k J it a x Hk Hit Hx.
    pose proof (combine_seq_nth Z.of_nat C 0 k J Hk) as Hidx. simpl in Hidx.
    set (ps := prods (augment G)). set (fo := follows (augment G)).
    assert (Hone : forall cells, exists x', has (item_actions G ps fo C (Z.of_nat k) J cells it) (Z.of_nat k) a x' /\ proj x' = proj x).
    { intros cells. destruct Hx as [[t [Hd [Ea Ex]]]|[[Hc [Hh [Ea Ex]]]|[Hc [Hh [Ha Ex]]]]].
      - subst a. eexists. split; [now apply ia0_shift|]. now rewrite Ex.
      - subst a x. exists Accept. split; [now apply ia0_accept|reflexivity].
      - subst x. exists (Reduce (fst it)). split; [now apply ia0_reduce|reflexivity]. }
    set (Q := fun cells => exists x', has cells (Z.of_nat k) a x' /\ proj x' = proj x).
    change (Q (fold_left (fun cells sI => fold_left (item_actions G ps fo C (fst sI) (snd sI)) (snd sI) cells)
                 (combine (map Z.of_nat (seq 0 (length C))) C) [])).
    apply (fold_establish _ Q _ (Z.of_nat k, J)); auto.
    + intros cells. cbn [fst snd]. apply (fold_establish _ Q _ it); auto.
      intros c0 b' [x' [H1 H2]]. exists x'. split; auto. now apply ia0_mono.
    + intros c0 b' Hq. apply fold_preserve; auto.
      intros c1 b'' [x' [H1 H2]]. exists x'. split; auto. now apply ia0_mono.
Qed.

(** ** G. SLR conflict-free => LALR conflict-free *)

Section SlrLalr.
  Variable G : gram.
  Hypothesis Hvalid : valid_syms G.
  Hypothesis Hfix : lenv_size (follow_pass (nullables (augment G)) (firsts (augment G)) (prods (augment G)) (follows (augment G)))
                    = lenv_size (follows (augment G)).
  Variable fuel0 fuel1 : nat.
  Variable C1 : list (list item1).
  Hypothesis HC1 : canonical1 fuel1 G = Some C1.
  Let c := ctx_of G.
  Let reps := reps_of C1.

  Definition soundL (s : Z) (a : look) (x : action) : Prop :=
    exists k R it, s = Z.of_nat k /\ nth_error reps k = Some R /\ In it (merge_class C1 R) /\
      contrib1 it (fresh_nt G) a x /\
      forall t, x = Shift t -> t = class_of reps (goto1 c R (Tm match a with Some c => c | None => 0 end)).

  Lemma lalr_cells_sound r : lalr_raw fuel1 G = Some r -> cells_ok soundL (r_action r).
  Proof.
    unfold lalr_raw. rewrite HC1. intros H. inversion H; subst r; clear H. cbn [r_action].
    apply fold_cells_ok; [|intros s a l x []].
    intros cells [s R] Hin Hc. apply idxL_spec in Hin as [k [Es Hk]]. subst s. cbn [fst snd].
    apply fold_cells_ok; auto. intros cells' it Hit Hc'. apply ia_sound; auto.
    intros a x Hx Ht. exists k, R, it. repeat split; auto.
  Qed.

  Theorem slr_ok_lalr_ok t0 : build_slr fuel0 G [] = BuiltOk t0 -> exists t1, build_lalr fuel1 G [] = BuiltOk t1.
  Proof.
    intros HS.
    assert (ES : build_slr fuel0 G [] = finish (slr_raw fuel0 G) []) by reflexivity. rewrite ES in HS.
    destruct (slr_raw fuel0 G) as [rS|] eqn:ErS; [|discriminate].
    destruct (canonical fuel0 G) as [C0|] eqn:EC0; [|unfold slr_raw in ErS; rewrite EC0 in ErS; discriminate].
    destruct (slr_cells G fuel0 C0 rS EC0 ErS) as [HwfS HhasS].
    assert (HsS : small_cells (r_action rS)) by (apply finish_nil_ok; [apply HwfS|eauto]).
    unfold build_lalr.
    assert (EL : exists rL, lalr_raw fuel1 G = Some rL) by (unfold lalr_raw; rewrite HC1; eauto).
    destruct EL as [rL EL]. rewrite EL.
    destruct (lalr_cells G fuel1 C1 HC1 rL EL) as [HwfL _].
    pose proof (lalr_cells_sound rL EL) as HsndL.
    apply finish_nil_ok; [apply HwfL|].
    intros s a l Hin. destruct l as [|x [|y l]]; simpl; try lia. exfalso.
    assert (Hne : x <> y).
    { pose proof (proj2 HwfL s a _ Hin) as Hd. inversion Hd as [|? ? Hnin _]; subst.
      intros E. apply Hnin. subst. now left. }
    destruct (HsndL s a _ x Hin (or_introl eq_refl)) as [k [R [itx [Es [Hk [Hitx [Hx Htx]]]]]]].
    destruct (HsndL s a _ y Hin (or_intror (or_introl eq_refl))) as [k' [R' [ity [Es' [Hk' [Hity [Hy Hty]]]]]]].
    subst s. apply Nat2Z.inj in Es'. subst k'. fold reps in Hk, Hk'. rewrite Hk in Hk'. inversion Hk'; subst R'.
    assert (Hp : proj x <> proj y).
    { destruct x as [tx|px|], y as [ty|py|]; simpl; try discriminate; try congruence.
      exfalso. apply Hne. rewrite (Htx tx eq_refl), (Hty ty eq_refl). reflexivity. }
    (* the LR(0) state that contains the cores of the class *)
    pose proof (reps_nth_reach G fuel1 C1 HC1 k R Hk) as HR.
    destruct (reach1_in_lr0 G Hvalid fuel0 C0 EC0 R HR) as [J [HJ Hsub]].
    apply In_nth_error in HJ as [j Hj].
    assert (Hmap : forall it b z, In it (merge_class C1 R) -> contrib1 it (fresh_nt G) b z ->
                   In (core_of it) J /\ contrib0 (core_of it) (fresh_nt G) (follows (augment G)) b z).
    { intros it b z Hit Hz. split.
      - destruct (M_core C1 it R Hit) as [w [Hw Ew]]. rewrite <- Ew. now apply Hsub.
      - destruct Hz as [[t [Hd [Ea Ex]]]|[[Hc [Hh [Hl [Ea Ex]]]]|[Hc [Hh [Ea Ex]]]]].
        + left. exists t. auto.
        + right. left. auto.
        + right. right. repeat split; auto. subst b.
          apply merge_class_In in Hit as [I [HI [_ HitI]]].
          pose proof (coll1_reach G C1 (proj1 (C1_coll G fuel1 C1 HC1)) I HI) as HrI.
          destruct (reach1_good G Hfix I HrI it HitI) as [_ Hla]. exact Hla. }
    destruct (Hmap itx a x Hitx Hx) as [Hjx Hcx]. destruct (Hmap ity a y Hity Hy) as [Hjy Hcy].
    destruct (HhasS j J _ a x Hj Hjx Hcx) as [x' [Hx' Px]].
    destruct (HhasS j J _ a y Hj Hjy Hcy) as [y' [Hy' Py]].
    assert (Hne' : x' <> y') by (intros E; apply Hp; rewrite <- Px, <- Py, E; reflexivity).
    destruct (has_two _ _ _ _ _ HwfS Hx' Hy' Hne') as [l' [Hl' Hlen]].
    pose proof (HsS _ _ _ Hl'). lia.
  Qed.
End SlrLalr.
