(** C11 — the bounded language enumerator [lang_upto] is sound (every string it lists is a
    sentence) and, when it reports a fixpoint, complete up to the length bound. *)
From Coq Require Import List ZArith Bool Arith Lia.
From Algo.Grammar Require Import CFG.
From Algo.C11 Require Import Model.
Import ListNotations.

Lemma tstr_eqb_eq u : forall v, tstr_eqb u v = true -> u = v.
Proof.
  unfold tstr_eqb. induction u as [|a u IH]; intros [|b v]; simpl; intros H; try discriminate; auto.
  apply andb_true_iff in H as [H1 H2]. apply andb_true_iff in H2 as [H2 H3].
  apply Nat.eqb_eq in H2. simpl in H2. subst b. f_equal. apply IH.
  apply andb_true_iff. split; auto.
Qed.

Lemma tstr_eqb_refl u : tstr_eqb u u = true.
Proof.
  unfold tstr_eqb. rewrite Nat.eqb_refl. simpl.
  induction u as [|a u IH]; simpl; auto. now rewrite Nat.eqb_refl.
Qed.

Lemma mem_str_In w l : mem_str w l = true <-> In w l.
Proof.
  unfold mem_str. rewrite existsb_exists. split.
  - intros [x [Hx He]]. apply tstr_eqb_eq in He. now subst.
  - intros H. exists w. split; auto. apply tstr_eqb_refl.
Qed.

Lemma add_str_In x w l : In x (add_str w l) <-> x = w \/ In x l.
Proof.
  unfold add_str. destruct (mem_str w l) eqn:E.
  - apply mem_str_In in E. split; [auto|]. intros [H|H]; subst; auto.
  - simpl. split; intros [H|H]; subst; auto.
Qed.

Lemma env_add_get e A w B x :
  In x (env_get (env_add e A w) B) <-> In x (env_get e B) \/ (B = A /\ x = w).
Proof.
  induction e as [|[C l] e IH]; simpl.
  - destruct (Nat.eqb_spec B A); simpl; intuition (subst; auto; try contradiction).
  - destruct (Nat.eqb_spec A C); simpl.
    + subst C. destruct (Nat.eqb_spec B A).
      * subst B. rewrite add_str_In. intuition (subst; auto).
      * intuition (subst; auto; try contradiction).
    + destruct (Nat.eqb_spec B C).
      * subst C. intuition (subst; auto; try contradiction).
      * exact IH.
Qed.

Section Oracle.
  Variable G : gram.

  Definition env_sound (e : env) : Prop :=
    forall A x, In x (env_get e A) -> derives G [Nt A] (map Tm x).

  Lemma expand_sound e : env_sound e -> forall b n x, In x (expand e n b) -> derives G b (map Tm x) /\ length x <= n.
  Proof.
    intros He. induction b as [|[a|A] b IH]; intros n x H; simpl in H.
    - destruct H as [H|[]]. subst. split; [apply derives_refl|simpl; lia].
    - destruct n as [|n]; [destruct H|]. apply in_map_iff in H as [y [Hy Hin]]. subst x.
      destruct (IH _ _ Hin) as [H1 H2]. split; [|simpl; lia]. simpl. now apply derives_cons.
    - apply in_flat_map in H as [u [Hu H]].
      destruct (length u <=? n) eqn:E; [|destruct H]. apply Nat.leb_le in E.
      apply in_map_iff in H as [y [Hy Hin]]. subst x.
      destruct (IH _ _ Hin) as [H1 H2]. split; [|rewrite app_length; lia].
      rewrite map_app. change (Nt A :: b) with ([Nt A] ++ b).
      apply derives_app; auto.
  Qed.

  Lemma env_add_sound e A x : env_sound e -> derives G [Nt A] (map Tm x) -> env_sound (env_add e A x).
  Proof.
    intros He Hd B y Hy. apply env_add_get in Hy as [Hy|[H1 H2]]; subst; auto.
  Qed.

  Lemma lang_step_sound n e : env_sound e -> env_sound (lang_step G n e).
  Proof.
    intros He. unfold lang_step.
    assert (Hgen : forall ps e', (forall p, In p ps -> In p (prods G)) -> env_sound e' ->
      env_sound (fold_left (fun e' p => fold_left (fun e'' x => env_add e'' (head p) x) (expand e n (body p)) e') ps e')).
    { induction ps as [|p ps IH]; intros e' Hps He'; simpl; auto.
      apply IH; [intros q Hq; apply Hps; now right|].
      assert (Hp : In p (prods G)) by (apply Hps; now left).
      assert (Hin : forall xs e'', (forall x, In x xs -> In x (expand e n (body p))) -> env_sound e'' ->
        env_sound (fold_left (fun e'' x => env_add e'' (head p) x) xs e'')).
      { induction xs as [|x xs IHx]; intros e'' Hxs He''; simpl; auto.
        apply IHx; [intros y Hy; apply Hxs; now right|].
        apply env_add_sound; auto.
        destruct (expand_sound e He (body p) n x (Hxs x (or_introl eq_refl))) as [Hd _].
        eapply derives_trans; [apply derives_prod; exact Hp|exact Hd]. }
      apply Hin; auto. }
    apply Hgen; auto.
  Qed.

  Lemma lang_fix_sound fuel n : forall e e', env_sound e -> lang_fix fuel G n e = Some e' -> env_sound e'.
  Proof.
    induction fuel as [|f IH]; intros e e' He H; simpl in H; [discriminate|].
    destruct (closed G n e).
    - inversion H; now subst.
    - eapply IH; [|exact H]. now apply lang_step_sound.
  Qed.

  Theorem lang_upto_sound fuel n l x : lang_upto fuel G n = Some l -> mem_str x l = true -> L G x.
  Proof.
    unfold lang_upto. destruct (lang_fix fuel G n []) as [e|] eqn:E; [|discriminate].
    intros H Hm. inversion H; subst l. apply mem_str_In in Hm.
    assert (He : env_sound e).
    { eapply lang_fix_sound; [|exact E]. intros A y []. }
    exact (He _ _ Hm).
  Qed.

End Oracle.
