(** C11 — the bounded language enumerator [lang_upto] is sound (every string it lists is a
    sentence) and, when it reports a fixpoint, complete up to the length bound. *)
From Coq Require Import List ZArith Bool Arith Lia.
From Algo.Grammar Require Import CFG.
From Algo.C11 Require Import Model.
From Algo.C11 Require Proofs.
Import ListNotations.

Lemma tstr_eqb_eq u : forall v, tstr_eqb u v = true -> u = v.
Proof.
  unfold tstr_eqb. induction u as [|a u IH]; intros [|b v]; simpl; intros H; try discriminate; auto.
  apply andb_true_iff in H as [H1 H2]. apply andb_true_iff in H2 as [H2 H3].
  apply Nat.eqb_eq in H2. simpl in H2. subst b. f_equal. apply IH.
  apply andb_true_iff. split; auto.
Qed.

Lemma tstr_eqb_refl u : tstr_eqb u u = true.
Proof.
  unfold tstr_eqb. rewrite Nat.eqb_refl. simpl.
  induction u as [|a u IH]; simpl; auto. now rewrite Nat.eqb_refl.
Qed.

Lemma mem_str_In w l : mem_str w l = true <-> In w l.
Proof.
  unfold mem_str. rewrite existsb_exists. split.
  - intros [x [Hx He]]. apply tstr_eqb_eq in He. now subst.
  - intros H. exists w. split; auto. apply tstr_eqb_refl.
Qed.

Lemma add_str_In x w l : In x (add_str w l) <-> x = w \/ In x l.
Proof.
  unfold add_str. destruct (mem_str w l) eqn:E.
  - apply mem_str_In in E. split; [auto|]. intros [H|H]; subst; auto.
  - simpl. split; intros [H|H]; subst; auto.
Qed.

Lemma env_add_get e A w B x :
  In x (env_get (env_add e A w) B) <-> In x (env_get e B) \/ (B = A /\ x = w).
Proof.
  induction e as [|[C l] e IH]; simpl.
  - destruct (Nat.eqb_spec B A); simpl; intuition (subst; auto; try contradiction).
  - destruct (Nat.eqb_spec A C); simpl.
    + subst C. destruct (Nat.eqb_spec B A).
      * subst B. rewrite add_str_In. intuition (subst; auto).
      * intuition (subst; auto; try contradiction).
    + destruct (Nat.eqb_spec B C).
      * subst C. intuition (subst; auto; try contradiction).
      * exact IH.
Qed.

Section Oracle.
  Variable G : gram.

  Definition env_sound (e : env) : Prop :=
    forall A x, In x (env_get e A) -> derives G [Nt A] (map Tm x).

  Lemma expand_sound e : env_sound e -> forall b n x, In x (expand e n b) -> derives G b (map Tm x) /\ length x <= n.
  Proof.
    intros He. induction b as [|[a|A] b IH]; intros n x H; simpl in H.
    - destruct H as [H|[]]. subst. split; [apply derives_refl|simpl; lia].
    - destruct n as [|n]; [destruct H|]. apply in_map_iff in H as [y [Hy Hin]]. subst x.
      destruct (IH _ _ Hin) as [H1 H2]. split; [|simpl; lia]. simpl. now apply derives_cons.
    - apply in_flat_map in H as [u [Hu H]].
      destruct (length u <=? n) eqn:E; [|destruct H]. apply Nat.leb_le in E.
      apply in_map_iff in H as [y [Hy Hin]]. subst x.
      destruct (IH _ _ Hin) as [H1 H2]. split; [|rewrite app_length; lia].
      rewrite map_app. change (Nt A :: b) with ([Nt A] ++ b).
      apply derives_app; auto.
  Qed.

  Lemma env_add_sound e A x : env_sound e -> derives G [Nt A] (map Tm x) -> env_sound (env_add e A x).
  Proof.
    intros He Hd B y Hy. apply env_add_get in Hy as [Hy|[H1 H2]]; subst; auto.
  Qed.

  Lemma lang_step_sound n e : env_sound e -> env_sound (lang_step G n e).
  Proof.
    intros He. unfold lang_step.
    assert (Hgen : forall ps e', (forall p, In p ps -> In p (prods G)) -> env_sound e' ->
      env_sound (fold_left (fun e' p => fold_left (fun e'' x => env_add e'' (head p) x) (expand e n (body p)) e') ps e')).
    { induction ps as [|p ps IH]; intros e' Hps He'; simpl; auto.
      apply IH; [intros q Hq; apply Hps; now right|].
      assert (Hp : In p (prods G)) by (apply Hps; now left).
      assert (Hin : forall xs e'', (forall x, In x xs -> In x (expand e n (body p))) -> env_sound e'' ->
        env_sound (fold_left (fun e'' x => env_add e'' (head p) x) xs e'')).
      { induction xs as [|x xs IHx]; intros e'' Hxs He''; simpl; auto.
        apply IHx; [intros y Hy; apply Hxs; now right|].
        apply env_add_sound; auto.
        destruct (expand_sound e He (body p) n x (Hxs x (or_introl eq_refl))) as [Hd _].
        eapply derives_trans; [apply derives_prod; exact Hp|exact Hd]. }
      apply Hin; auto. }
    apply Hgen; auto.
  Qed.

  Lemma lang_fix_sound fuel n : forall e e', env_sound e -> lang_fix fuel G n e = Some e' -> env_sound e'.
  Proof.
    induction fuel as [|f IH]; intros e e' He H; simpl in H; [discriminate|].
    destruct (closed G n e).
    - inversion H; now subst.
    - eapply IH; [|exact H]. now apply lang_step_sound.
  Qed.

  Theorem lang_upto_sound fuel n l x : lang_upto fuel G n = Some l -> mem_str x l = true -> L G x.
  Proof.
    unfold lang_upto. destruct (lang_fix fuel G n []) as [e|] eqn:E; [|discriminate].
    intros H Hm. inversion H; subst l. apply mem_str_In in Hm.
    assert (He : env_sound e).
    { eapply lang_fix_sound; [|exact E]. intros A y []. }
    exact (He _ _ Hm).
  Qed.

  (** ** Completeness up to the length bound, at a fixpoint *)

  Lemma step_app_inv a b c : step G (a ++ b) c ->
    (exists a', c = a' ++ b /\ step G a a') \/ (exists b', c = a ++ b' /\ step G b b').
  Proof.
    intros H. inversion H as [u v p Hp E1 E2]. subst c.
    apply app_eq_app in E1 as [l [[E3 E4]|[E3 E4]]].
    - (* u = a ++ l : the redex lies in b *)
      right. subst u. exists (l ++ body p ++ v). split; [now rewrite <- app_assoc|].
      rewrite E4. now constructor.
    - (* a = u ++ l *)
      destruct l as [|x l].
      + right. rewrite app_nil_r in E3. subst a. simpl in E4. subst b.
        exists (body p ++ v). split; [reflexivity|].
        exact (step_intro G [] v p Hp).
      + left. simpl in E4. inversion E4; subst x v. subst a.
        exists (u ++ body p ++ l). split; [now rewrite <- !app_assoc|]. now constructor.
  Qed.

  Lemma derivesN_app_inv m : forall a b c, derivesN G m (a ++ b) c ->
    exists c1 c2 m1 m2, c = c1 ++ c2 /\ derivesN G m1 a c1 /\ derivesN G m2 b c2 /\ m1 + m2 = m.
  Proof.
    induction m as [|m IH]; intros a b c H.
    - inversion H; subst. exists a, b, 0, 0. repeat split; constructor.
    - inversion H as [|n x y z Hs Hd]; subst.
      apply step_app_inv in Hs as [[a' [E Hs]]|[b' [E Hs]]]; subst y.
      + destruct (IH _ _ _ Hd) as [c1 [c2 [m1 [m2 [E [H1 [H2 Hm]]]]]]].
        exists c1, c2, (S m1), m2. repeat split; auto; [econstructor; eauto|lia].
      + destruct (IH _ _ _ Hd) as [c1 [c2 [m1 [m2 [E [H1 [H2 Hm]]]]]]].
        exists c1, c2, m1, (S m2). repeat split; auto; [econstructor; eauto|lia].
  Qed.

  Lemma derivesN_terminal m a c : derivesN G m [Tm a] c -> c = [Tm a] /\ m = 0.
  Proof.
    intros H. inversion H as [|n x y z Hs Hd]; subst; auto.
    inversion Hs as [u v p Hp E1 E2]. destruct u as [|? [|? ?]]; discriminate.
  Qed.

  (** [x] is a concatenation of one known string per symbol of [b] *)
  Inductive matches (e : env) : list sym -> list nat -> Prop :=
  | m_nil : matches e [] []
  | m_tm a b x : matches e b x -> matches e (Tm a :: b) (a :: x)
  | m_nt A b u x : In u (env_get e A) -> matches e b x -> matches e (Nt A :: b) (u ++ x).

  Lemma expand_complete e b x : matches e b x -> forall n, length x <= n -> In x (expand e n b).
  Proof.
    induction 1 as [|a b x Hm IH|A b u x Hu Hm IH]; intros n Hn; simpl.
    - now left.
    - destruct n as [|n]; simpl in Hn; [lia|]. apply in_map. apply IH. lia.
    - rewrite app_length in Hn. apply in_flat_map. exists u. split; auto.
      assert (E : (length u <=? n) = true) by (apply Nat.leb_le; lia). rewrite E.
      apply in_map. apply IH. lia.
  Qed.

  Section Closed.
    Variable n : nat.
    Variable e : env.
    Hypothesis Hclosed : closed G n e = true.

    Definition complete_upto (k : nat) : Prop :=
      forall j, j <= k -> forall A x, derivesN G j [Nt A] (map Tm x) -> length x <= n -> In x (env_get e A).

    Lemma derivesN_matches k : complete_upto k ->
      forall b m x, m <= k -> derivesN G m b (map Tm x) -> length x <= n -> matches e b x.
    Proof.
      intros Hk. induction b as [|X b IH]; intros m x Hm Hd Hn.
      - inversion Hd as [|? ? ? ? Hs]; subst.
        + destruct x; [constructor|discriminate].
        + inversion Hs as [u v p Hp E1 E2]. destruct u; discriminate.
      - change (X :: b) with ([X] ++ b) in Hd.
        apply derivesN_app_inv in Hd as [c1 [c2 [m1 [m2 [E [H1 [H2 Hsum]]]]]]].
        apply map_eq_app in E as [x1 [x2 [Ex [E1 E2]]]]. subst x c1 c2.
        rewrite app_length in Hn.
        assert (Hb : matches e b x2) by (apply (IH m2); [lia|exact H2|lia]).
        destruct X as [a|A].
        + apply derivesN_terminal in H1 as [H1 _].
          destruct x1 as [|a' [|? ?]]; try discriminate. inversion H1; subst a'.
          simpl. now constructor.
        + constructor; auto. apply (Hk m1); [lia|exact H1|lia].
    Qed.

    Lemma closed_complete k : complete_upto k.
    Proof.
      induction k as [|k IH]; intros j Hj A x Hd Hn.
      - assert (j = 0) by lia. subst j. inversion Hd as [E|]; subst. destruct x; discriminate.
      - destruct (Nat.eq_dec j (S k)) as [->|Hne]; [|apply (IH j); auto; lia].
        inversion Hd as [|m y z c Hs Hd']; subst.
        inversion Hs as [u v p Hp E1 E2].
        destruct u as [|? [|? ?]]; try discriminate. simpl in E1. inversion E1; subst A v. clear E1.
        simpl in E2. rewrite app_nil_r in E2. subst z.
        assert (Hm : matches e (body p) x) by (eapply (derivesN_matches k IH); [|exact Hd'|exact Hn]; lia).
        apply expand_complete with (n := n) in Hm; [|exact Hn].
        unfold closed in Hclosed. rewrite forallb_forall in Hclosed. specialize (Hclosed p Hp).
        rewrite forallb_forall in Hclosed. apply mem_str_In. now apply Hclosed.
    Qed.
  End Closed.

  Lemma lang_fix_closed fuel n : forall e e', lang_fix fuel G n e = Some e' -> closed G n e' = true.
  Proof.
    induction fuel as [|f IH]; intros e e' H; simpl in H; [discriminate|].
    destruct (closed G n e) eqn:E.
    - inversion H; now subst.
    - eapply IH; eauto.
  Qed.

  Theorem lang_upto_complete fuel n l x :
    lang_upto fuel G n = Some l -> L G x -> length x <= n -> mem_str x l = true.
  Proof.
    unfold lang_upto. destruct (lang_fix fuel G n []) as [e|] eqn:E; [|discriminate].
    intros H HL Hn. inversion H; subst l. apply mem_str_In.
    apply lang_fix_closed in E. unfold L in HL. apply derives_derivesN in HL as [k Hk].
    exact (closed_complete n e E k k (le_n _) _ _ Hk Hn).
  Qed.

End Oracle.

(** ** Membership witnesses *)

Lemma split_first_nt_spec form : forall pre A suf,
  split_first_nt form = Some (pre, A, suf) -> form = map Tm pre ++ Nt A :: suf.
Proof.
  induction form as [|[a|B] form IH]; intros pre A suf H; simpl in H; try discriminate.
  - destruct (split_first_nt form) as [[[pre' A'] suf']|]; [|discriminate].
    inversion H; subst. simpl. f_equal. now apply IH.
  - inversion H; subst. reflexivity.
Qed.

Lemma lm_replay_derives G ps : forall form f,
  (forall p, In p ps -> In p (prods G)) -> lm_replay ps form = Some f -> derives G form f.
Proof.
  induction ps as [|p ps IH]; intros form f Hps H; simpl in H.
  - inversion H; subst. apply derives_refl.
  - destruct (split_first_nt form) as [[[pre A] suf]|] eqn:E; [|discriminate].
    destruct (Nat.eqb_spec A (head p)) as [->|]; [|discriminate].
    apply split_first_nt_spec in E. subst form.
    eapply derives_trans.
    + apply derives_step. apply step_intro. apply Hps. now left.
    + apply IH; [intros q Hq; apply Hps; now right|exact H].
Qed.

Theorem lm_check_sound G ps w : lm_check G ps w = true -> L G w.
Proof.
  unfold lm_check. intros H. apply andb_true_iff in H as [H1 H2].
  destruct (lm_replay ps [Nt (start G)]) as [f|] eqn:E; [|discriminate].
  apply Proofs.str_eqb_eq in H2. subst f. unfold L.
  apply (lm_replay_derives G ps); [|exact E].
  intros p Hp. rewrite forallb_forall in H1. apply Proofs.existsb_prod_In. now apply H1.
Qed.
