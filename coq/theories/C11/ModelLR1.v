(** C11 — model of the LR(1) automaton (parser/lr/automaton.go: calculator1.CLOSURE, GOTO,
    Canonical over LR(1) items), of the canonical LR(1) table construction
    (parser/lr/canonical/parsing_table.go) and of LALR(1) tables.  No proofs in this file.

    The LALR(1) table is modelled by its textbook definition — merge the canonical LR(1)
    states that have the same LR(0) core — and not by the kernel/propagation algorithm of
    parser/lr/lookahead (ComputeLALR1Kernels, findSuperset); a correct implementation of the
    latter yields the same table up to state numbering, which is what the tie compares. *)
From Coq Require Import List ZArith Bool Arith.
From Algo.Grammar Require Import CFG.
From Algo.C11 Require Import Model ModelPrec ModelSLR.
Import ListNotations.

Definition item1 := (prod * nat * look)%type.

Definition core_of (i : item1) : item := (fst (fst i), snd (fst i)).
Definition la_of (i : item1) : look := snd i.

Definition item1_eqb (i j : item1) : bool := item_eqb (core_of i) (core_of j) && look_eqb (la_of i) (la_of j).
Definition mem_item1 (i : item1) (I : list item1) : bool := existsb (item1_eqb i) I.
Definition add_item1 (i : item1) (I : list item1) : list item1 := if mem_item1 i I then I else I ++ [i].

(** FIRST(beta a) as lookaheads *)
Definition first_la (nl : list nat) (fe : fenv) (beta : list sym) (a : look) : list look :=
  let f := map Some (first_str nl fe beta) in
  if nullable_str nl beta then f ++ [a] else f.

(** one pass of CLOSURE for LR(1) items *)
Definition closure1_pass (nl : list nat) (fe : fenv) (ps : list prod) (I : list item1) : list item1 :=
  fold_left (fun J i =>
    match dot_symbol (core_of i) with
    | Some (Nt B) =>
        let las := first_la nl fe (skipn (S (snd (fst i))) (body (fst (fst i)))) (la_of i) in
        fold_left (fun J' p =>
          if Nat.eqb (head p) B
          then fold_left (fun J'' b => add_item1 (p, 0, b) J'') las J'
          else J') ps J
    | _ => J
    end) I I.

Fixpoint closure1_iter (fuel : nat) (nl : list nat) (fe : fenv) (ps : list prod) (I : list item1) : list item1 :=
  match fuel with
  | O => I
  | S f =>
      let J := closure1_pass nl fe ps I in
      if Nat.eqb (length J) (length I) then I else closure1_iter f nl fe ps J
  end.

(** a pass that changes something adds a dot-0 item [B -> . gamma, b]: at most |ps| * (|T| + 1) of them *)
Definition closure1 (nterms : nat) (nl : list nat) (fe : fenv) (ps : list prod) (I : list item1) : list item1 :=
  closure1_iter (S (length ps * S nterms)) nl fe ps I.

Definition goto1_kernel (I : list item1) (X : sym) : list item1 :=
  fold_left (fun J i =>
    if sym_eq_opt (dot_symbol (core_of i)) X then add_item1 (fst (fst i), S (snd (fst i)), la_of i) J else J) I [].

Record lr1_ctx := mkCtx { c_nterms : nat; c_nl : list nat; c_fe : fenv; c_ps : list prod }.

Definition goto1 (c : lr1_ctx) (I : list item1) (X : sym) : list item1 :=
  match goto1_kernel I X with
  | [] => []
  | K => closure1 (c_nterms c) (c_nl c) (c_fe c) (c_ps c) K
  end.

Definition subset_items1 (I J : list item1) : bool := forallb (fun i => mem_item1 i J) I.
Definition itemset1_eqb (I J : list item1) : bool := subset_items1 I J && subset_items1 J I.

Fixpoint index_of1 (J : list item1) (C : list (list item1)) (k : nat) : option nat :=
  match C with
  | [] => None
  | I0 :: r => if itemset1_eqb I0 J then Some k else index_of1 J r (S k)
  end.

Definition canonical1_pass (c : lr1_ctx) (syms : list sym) (C : list (list item1)) : list (list item1) :=
  fold_left (fun C' I =>
    fold_left (fun C'' X =>
      match goto1 c I X with
      | [] => C''
      | J => match index_of1 J C'' 0 with Some _ => C'' | None => C'' ++ [J] end
      end) syms C') C C.

Fixpoint canonical1_iter (fuel : nat) (c : lr1_ctx) (syms : list sym) (C : list (list item1)) : option (list (list item1)) :=
  match fuel with
  | O => None
  | S f =>
      let C' := canonical1_pass c syms C in
      if Nat.eqb (length C') (length C) then Some C else canonical1_iter f c syms C'
  end.

Definition ctx_of (G : gram) : lr1_ctx :=
  let G' := augment G in
  mkCtx (length (terms G)) (nullables G') (firsts G') (prods G').

Definition canonical1 (fuel : nat) (G : gram) : option (list (list item1)) :=
  let c := ctx_of G in
  canonical1_iter fuel c (symbols_of (augment G))
    [closure1 (c_nterms c) (c_nl c) (c_fe c) (c_ps c) [(aug_prod G, 0, None)]].

(** ** Tables from a collection of LR(1) item sets with a transition function *)

Definition item1_actions (G : gram) (target : sym -> Z) (i : Z)
    (cells : list (Z * look * list action)) (it : item1) : list (Z * look * list action) :=
  let c1 :=
    match dot_symbol (core_of it) with
    | Some (Tm a) => cell_add cells i (Some a) (Shift (target (Tm a)))
    | _ => cells
    end in
  if is_complete (core_of it) then
    if Nat.eqb (head (fst (fst it))) (fresh_nt G)
    then (match la_of it with None => cell_add c1 i None Accept | Some _ => c1 end)
    else cell_add c1 i (la_of it) (Reduce (fst (fst it)))
  else c1.

Definition state_of1 (C : list (list item1)) (J : list item1) : Z :=
  match J with
  | [] => (-1)%Z
  | _ => match index_of1 J C 0 with Some k => Z.of_nat k | None => (-1)%Z end
  end.

Definition clr_raw (fuel : nat) (G : gram) : option raw_table :=
  match canonical1 fuel G with
  | None => None
  | Some C =>
      let c := ctx_of G in
      let idx := combine (map Z.of_nat (seq 0 (length C))) C in
      let acts := fold_left (fun cells sI =>
                    fold_left (item1_actions G (fun X => state_of1 C (goto1 c (snd sI) X)) (fst sI)) (snd sI) cells) idx [] in
      let gotos := flat_map (fun sI =>
                    flat_map (fun A =>
                      match state_of1 C (goto1 c (snd sI) (Nt A)) with
                      | Zneg _ => []
                      | t => [(fst sI, A, t)]
                      end) (nonterms G)) idx in
      Some (mkRaw (length C) acts gotos)
  end.

(** ** LALR(1): merge the LR(1) states with equal cores *)

Definition cores (I : list item1) : list item := fold_left (fun l i => add_item (core_of i) l) I [].

Definition same_core (I J : list item1) : bool := itemset_eqb (cores I) (cores J).

(** index of the class: the first representative with that core *)
Fixpoint class_index (J : list item1) (reps : list (list item1)) (k : nat) : option nat :=
  match reps with
  | [] => None
  | I0 :: r => if same_core I0 J then Some k else class_index J r (S k)
  end.

(** representatives: the first LR(1) state of every core, in order of occurrence *)
Definition reps_of (C : list (list item1)) : list (list item1) :=
  fold_left (fun rs J => match class_index J rs 0 with Some _ => rs | None => rs ++ [J] end) C [].

(** the merged state of a representative: the union of the LR(1) states with its core *)
Definition merge_class (C : list (list item1)) (R : list item1) : list item1 :=
  fold_left (fun m J => if same_core R J then fold_left (fun m' i => add_item1 i m') J m else m) C [].

Definition class_of (reps : list (list item1)) (J : list item1) : Z :=
  match J with
  | [] => (-1)%Z
  | _ => match class_index J reps 0 with Some k => Z.of_nat k | None => (-1)%Z end
  end.

(** GOTO of a merged state is the class of GOTO of its representative (all members have the
    same core, hence GOTOs with the same core) *)
Definition lalr_raw (fuel : nat) (G : gram) : option raw_table :=
  match canonical1 fuel G with
  | None => None
  | Some C =>
      let c := ctx_of G in
      let reps := reps_of C in
      let idx := combine (map Z.of_nat (seq 0 (length reps))) reps in
      let acts := fold_left (fun cells sR =>
                    fold_left (item1_actions G (fun X => class_of reps (goto1 c (snd sR) X)) (fst sR))
                              (merge_class C (snd sR)) cells) idx [] in
      let gotos := flat_map (fun sR =>
                    flat_map (fun A =>
                      match class_of reps (goto1 c (snd sR) (Nt A)) with
                      | Zneg _ => []
                      | t => [(fst sR, A, t)]
                      end) (nonterms G)) idx in
      Some (mkRaw (length reps) acts gotos)
  end.

Definition finish (r : option raw_table) (ls : levels) : build_result :=
  match r with
  | None => BuiltNoFuel
  | Some r =>
      if negb (levels_disjoint ls) then BuiltError else
      let '(acts, confl) := resolve_cells ls (r_action r) in
      match confl with
      | [] => BuiltOk (mkTable acts (r_goto r))
      | _ => BuiltConflict confl
      end
  end.

Definition build_clr (fuel : nat) (G : gram) (ls : levels) : build_result := finish (clr_raw fuel G) ls.
Definition build_lalr (fuel : nat) (G : gram) (ls : levels) : build_result := finish (lalr_raw fuel G) ls.
