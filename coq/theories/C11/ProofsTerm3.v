(** C11 — no infinite run of reductions, part 1: table-independent combinatorics.

    [rstep]/[rrun] are the reduce-only moves of the driver on a state stack for a fixed lookahead.
    Main result of this file ([long_infinite]): a reduce-only run that is longer than the number
    of stacks of bounded height over the finitely many states that can occur never stops — either
    a stack repeats (the run is periodic), or the stack grows above a state that repeats on top of
    itself (the run between the two occurrences does not look below the lower one and can be
    replayed for ever).  Also here: generation of terminal strings with an explicit size (number of
    nodes of the derivation forest), used to count the steps of the driver exactly. *)
From Coq Require Import List ZArith Bool Arith Lia.
From Algo.Grammar Require Import CFG.
From Algo.C11 Require Import Model Spec Proofs ProofsTerm ProofsGen.
Import ListNotations.

(** ** generation with sizes *)

Section GenN.
  Variable H : gram.

  Inductive genN : sym -> list nat -> nat -> Prop :=
  | genN_tm t : genN (Tm t) [t] 1
  | genN_nt p u n : In p (prods H) -> gensN (body p) u n -> genN (Nt (head p)) u (S n)
  with gensN : list sym -> list nat -> nat -> Prop :=
  | gensN_nil : gensN [] [] 0
  | gensN_cons X b u1 u2 n1 n2 : genN X u1 n1 -> gensN b u2 n2 -> gensN (X :: b) (u1 ++ u2) (n1 + n2).

  Scheme genN_mind := Induction for genN Sort Prop
    with gensN_mind := Induction for gensN Sort Prop.
  Combined Scheme genN_gensN_ind from genN_mind, gensN_mind.

  Lemma genN_gen : (forall X u n, genN X u n -> gen H X u) /\ (forall b u n, gensN b u n -> gens H b u).
  Proof. apply genN_gensN_ind; intros; econstructor; eauto. Qed.

  Lemma gen_genN : (forall X u, gen H X u -> exists n, genN X u n) /\ (forall b u, gens H b u -> exists n, gensN b u n).
  Proof.
    apply gen_gens_ind.
    - intros t. exists 1. constructor.
    - intros p u Hp _ [n Hn]. exists (S n). now constructor.
    - exists 0. constructor.
    - intros X b u1 u2 _ [n1 H1] _ [n2 H2]. exists (n1 + n2). now constructor.
  Qed.

  Lemma gensN_app b1 : forall b2 u1 u2 n1 n2, gensN b1 u1 n1 -> gensN b2 u2 n2 -> gensN (b1 ++ b2) (u1 ++ u2) (n1 + n2).
  Proof.
    induction b1 as [|X b1 IH]; intros b2 u1 u2 n1 n2 H1 H2.
    - inversion H1; subst. exact H2.
    - inversion H1 as [|X' b' v1 v2 m1 m2 Hg Hgs]; subst. simpl.
      rewrite <- app_assoc, <- Nat.add_assoc. constructor; auto.
  Qed.

  Lemma gensN_split b1 : forall b2 u n, gensN (b1 ++ b2) u n ->
    exists u1 u2 n1 n2, u = u1 ++ u2 /\ n = n1 + n2 /\ gensN b1 u1 n1 /\ gensN b2 u2 n2.
  Proof.
    induction b1 as [|X b1 IH]; intros b2 u n Hg.
    - exists [], u, 0, n. repeat split; auto. constructor.
    - simpl in Hg. inversion Hg as [|X' b' v1 v2 m1 m2 Hx Hgs]; subst.
      destruct (IH _ _ _ Hgs) as [w1 [w2 [k1 [k2 [E1 [E2 [G1 G2]]]]]]]. subst.
      exists (v1 ++ w1), w2, (m1 + k1), k2. repeat split; auto.
      + now rewrite app_assoc.
      + lia.
      + now constructor.
  Qed.

  Lemma gens_app b1 b2 u1 u2 : gens H b1 u1 -> gens H b2 u2 -> gens H (b1 ++ b2) (u1 ++ u2).
  Proof.
    intros H1 H2. destruct (proj2 gen_genN _ _ H1) as [n1 G1]. destruct (proj2 gen_genN _ _ H2) as [n2 G2].
    exact (proj2 genN_gen _ _ _ (gensN_app _ _ _ _ _ _ G1 G2)).
  Qed.

  Lemma gens_derives : (forall X u, gen H X u -> derives H [X] (map Tm u)) /\ (forall b u, gens H b u -> derives H b (map Tm u)).
  Proof.
    apply gen_gens_ind.
    - intros t. apply derives_refl.
    - intros p u Hp _ IH. eapply derives_trans; [apply derives_prod; exact Hp|exact IH].
    - apply derives_refl.
    - intros X b u1 u2 _ IH1 _ IH2. rewrite map_app. change (X :: b) with ([X] ++ b). now apply derives_app.
  Qed.

  Lemma derives_gens b u : derives H b (map Tm u) -> gens H b u.
  Proof. intros Hd. apply derives_derivesN in Hd as [n Hn]. eapply derivesN_gens; eauto. Qed.
End GenN.

(** ** lists: duplicates, enumeration of bounded lists *)

Section Dup.
  Context {A : Type}.
  Hypothesis eq_dec : forall x y : A, {x = y} + {x <> y}.

  Lemma In_nth_lt (x : A) l : In x l -> exists i, nth_error l i = Some x.
  Proof. apply In_nth_error. Qed.

  Lemma dup_or_nodup (l : list A) :
    NoDup l \/ exists i j x, i < j /\ nth_error l i = Some x /\ nth_error l j = Some x.
  Proof.
    induction l as [|a l IH]; [left; constructor|].
    destruct (in_dec eq_dec a l) as [Hin|Hnin].
    - right. apply In_nth_error in Hin as [j Hj]. exists 0, (S j), a. repeat split; auto. lia.
    - destruct IH as [Hnd|[i [j [x [Hij [Hi Hj]]]]]].
      + left. now constructor.
      + right. exists (S i), (S j), x. repeat split; auto. lia.
  Qed.

  Lemma pigeon_list (l L : list A) : incl l L -> length L < length l ->
    exists i j x, i < j /\ nth_error l i = Some x /\ nth_error l j = Some x.
  Proof.
    intros Hi Hl. destruct (dup_or_nodup l) as [Hnd|Hd]; auto.
    pose proof (NoDup_incl_length Hnd Hi). lia.
  Qed.

  Lemma pigeon_fun (f : nat -> A) (L : list A) n : (forall i, i <= n -> In (f i) L) -> length L <= n ->
    exists i j, i < j /\ j <= n /\ f i = f j.
  Proof.
    intros Hf Hl.
    destruct (pigeon_list (map f (seq 0 (S n))) L) as [i [j [x [Hij [Hi Hj]]]]].
    - intros y Hy. apply in_map_iff in Hy as [i [E Hi]]. subst y. apply in_seq in Hi. apply Hf. lia.
    - rewrite map_length, seq_length. lia.
    - assert (Hjl : j < S n).
      { assert (Hs : nth_error (map f (seq 0 (S n))) j <> None) by congruence.
        apply nth_error_Some in Hs. now rewrite map_length, seq_length in Hs. }
      exists i, j. repeat split; auto; try lia.
      rewrite nth_error_map in Hi, Hj.
      rewrite (nth_error_nth' (seq 0 (S n)) 0) in Hi by (rewrite seq_length; lia).
      rewrite (nth_error_nth' (seq 0 (S n)) 0) in Hj by (rewrite seq_length; lia).
      rewrite seq_nth in Hi, Hj by lia. simpl in Hi, Hj. congruence.
  Qed.

  (** all lists over [S0] of length at most [k] *)
  Fixpoint lists_upto (S0 : list A) (k : nat) : list (list A) :=
    match k with
    | O => [[]]
    | S k' => [] :: flat_map (fun l => map (fun s => s :: l) S0) (lists_upto S0 k')
    end.

  Lemma lists_upto_In S0 k : forall l, length l <= k -> (forall x, In x l -> In x S0) -> In l (lists_upto S0 k).
  Proof.
    induction k as [|k IH]; intros l Hl Hin.
    - destruct l; [now left|simpl in Hl; lia].
    - destruct l as [|a l]; [now left|]. right. apply in_flat_map. exists l. split.
      + apply IH; [simpl in Hl; lia|]. intros x Hx. apply Hin. now right.
      + apply (in_map (fun s => s :: l)). apply Hin. now left.
  Qed.
End Dup.

(** the last time a slowly growing function takes a value *)
Fixpoint last_at (h : nat -> nat) (m p : nat) : nat :=
  match m with
  | O => O
  | S m' => if Nat.eqb (h (S m')) p then S m' else last_at h m' p
  end.

Lemma last_at_spec h m : (forall t, t < m -> h (S t) <= S (h t)) -> forall p, h 0 <= p -> p <= h m ->
  h (last_at h m p) = p /\ last_at h m p <= m /\ forall t, last_at h m p < t -> t <= m -> p < h t.
Proof.
  induction m as [|m IH]; intros Hs p H0 Hm; simpl.
  - repeat split; try lia.
  - destruct (Nat.eqb_spec (h (S m)) p) as [E|E].
    + repeat split; auto. intros t H1 H2. lia.
    + assert (Hlt : p < h (S m)) by lia.
      pose proof (Hs m ltac:(lia)) as Hsm.
      destruct (IH (fun t Ht => Hs t ltac:(lia)) p H0 ltac:(lia)) as [I1 [I2 I3]].
      repeat split; auto. intros t H1 H2.
      destruct (Nat.eq_dec t (S m)) as [->|Hne]; auto. apply I3; lia.
Qed.

(** ** reduce-only moves *)

Section RRun.
  Variable tbl : table.
  Variable a : look.

  Definition rstep (st : list Z) : option (list Z) :=
    match find_action (t_action tbl) (peek st) a with
    | Some (Reduce p) =>
        let st' := skipn (length (body p)) st in
        Some (goto_or_err tbl (peek st') (head p) :: st')
    | _ => None
    end.

  Fixpoint rrun (m : nat) (st : list Z) : option (list Z) :=
    match m with
    | O => Some st
    | S m' => match rstep st with Some st' => rrun m' st' | None => None end
    end.

  Lemma rrun_add m1 : forall m2 st,
    rrun (m1 + m2) st = match rrun m1 st with Some st' => rrun m2 st' | None => None end.
  Proof.
    induction m1 as [|m1 IH]; intros m2 st; simpl; auto.
    destruct (rstep st); auto.
  Qed.

  Lemma rrun_S_r m st : rrun (S m) st = match rrun m st with Some st' => rstep st' | None => None end.
  Proof.
    replace (S m) with (m + 1) by lia. rewrite rrun_add. destruct (rrun m st) as [s|]; auto.
    simpl. destruct (rstep s); auto.
  Qed.

  Lemma rrun_prefix M st : rrun M st <> None -> forall m, m <= M -> rrun m st <> None.
  Proof.
    intros HM m Hle. replace M with (m + (M - m)) in HM by lia. rewrite rrun_add in HM.
    destruct (rrun m st); congruence.
  Qed.

  (** the driver follows the reduce-only run *)
  Lemma rrun_nsteps m : forall st st' inp out, hd_error inp = a -> rrun m st = Some st' ->
    exists out', nsteps tbl m (st, inp, out) = inl (st', inp, out').
  Proof.
    induction m as [|m IH]; intros st st' inp out Ha Hr; simpl in Hr.
    - inversion Hr; subst. exists out. reflexivity.
    - unfold rstep in Hr. simpl. unfold step. rewrite Ha.
      destruct (find_action (t_action tbl) (peek st) a) as [[t|p|]|]; try discriminate.
      apply (IH _ _ inp (EvProd p :: out) Ha Hr).
  Qed.

  (** the first move that is not a reduction *)
  Lemma rrun_first_stop M : forall st, rrun M st = None ->
    exists j st', j < M /\ rrun j st = Some st' /\ rstep st' = None.
  Proof.
    induction M as [|M IH]; intros st Hr; simpl in Hr; [discriminate|].
    destruct (rstep st) as [s1|] eqn:E.
    - destruct (IH _ Hr) as [j [st' [Hj [H1 H2]]]]. exists (S j), st'. repeat split; auto; try lia.
      simpl. now rewrite E.
    - exists 0, st. repeat split; auto. lia.
  Qed.

  Lemma rstep_length st st' : rstep st = Some st' -> 1 <= length st' /\ length st' <= S (length st).
  Proof.
    unfold rstep. destruct (find_action (t_action tbl) (peek st) a) as [[t|p|]|]; try discriminate.
    intros E. inversion E; subst. simpl. rewrite skipn_length. lia.
  Qed.

  (** states that can occur *)
  Definition targets : list Z := (-1)%Z :: map (fun e => snd e) (t_goto tbl).

  Lemma goto_or_err_target s A : In (goto_or_err tbl s A) targets.
  Proof.
    unfold goto_or_err, targets. destruct (find_goto (t_goto tbl) s A) as [t|] eqn:E; [|now left].
    right. apply find_goto_In in E. apply in_map_iff. exists (s, A, t). auto.
  Qed.

  Lemma In_skipn' {A} (x : A) n : forall l, In x (skipn n l) -> In x l.
  Proof. induction n as [|n IH]; intros [|y l] H; simpl in *; auto. Qed.

  Lemma rstep_states S0 st st' : incl targets S0 -> incl st S0 -> rstep st = Some st' -> incl st' S0.
  Proof.
    intros Ht Hs. unfold rstep. destruct (find_action (t_action tbl) (peek st) a) as [[t|p|]|]; try discriminate.
    intros E. inversion E; subst. intros x [Hx|Hx].
    - subst x. apply Ht. apply goto_or_err_target.
    - apply Hs. eapply In_skipn'; eauto.
  Qed.

  Lemma rrun_states S0 m : forall st st', incl targets S0 -> incl st S0 -> rrun m st = Some st' -> incl st' S0.
  Proof.
    induction m as [|m IH]; intros st st' Ht Hs Hr; simpl in Hr.
    - now inversion Hr; subst.
    - destruct (rstep st) as [s1|] eqn:E; [|discriminate].
      apply (IH s1 st' Ht); [|exact Hr]. exact (rstep_states S0 st s1 Ht Hs E).
  Qed.

  (** *** frame: a move that leaves the stack higher than [q :: rho] does not look below [q] *)
  Lemma peek_app_ne (y l : list Z) : y <> [] -> peek (y ++ l) = peek y.
  Proof. destruct y; [congruence|reflexivity]. Qed.

  Lemma frame_step y q rho z : rstep (y ++ q :: rho) = Some z -> length rho + 2 <= length z ->
    exists y', z = y' ++ q :: rho /\ y' <> [] /\ forall rho', rstep (y ++ q :: rho') = Some (y' ++ q :: rho').
  Proof.
    unfold rstep. intros Hr Hlen.
    assert (Hpk : forall rho', peek (y ++ q :: rho') = peek (y ++ [q])).
    { intros rho'. destruct y; reflexivity. }
    rewrite Hpk in Hr. destruct (find_action (t_action tbl) (peek (y ++ [q])) a) as [[t|p|]|] eqn:Ea; try discriminate.
    inversion Hr; subst z; clear Hr. set (k := length (body p)) in *.
    assert (Hk : k <= length y).
    { simpl in Hlen. rewrite skipn_length, app_length in Hlen. simpl in Hlen. lia. }
    assert (Hsk : forall rho', skipn k (y ++ q :: rho') = skipn k y ++ q :: rho').
    { intros rho'. rewrite skipn_app. replace (k - length y) with 0 by lia. reflexivity. }
    assert (Hpk2 : forall rho', peek (skipn k y ++ q :: rho') = peek (skipn k y ++ [q])).
    { intros rho'. destruct (skipn k y); reflexivity. }
    exists (goto_or_err tbl (peek (skipn k y ++ [q])) (head p) :: skipn k y). split; [|split].
    - rewrite Hsk, Hpk2. reflexivity.
    - discriminate.
    - intros rho'. rewrite Hpk, Ea. fold k. rewrite Hsk, Hpk2. reflexivity.
  Qed.

  Lemma frame_run q rho m : forall y z, rrun m (y ++ q :: rho) = Some z ->
    (forall t s, 1 <= t -> t <= m -> rrun t (y ++ q :: rho) = Some s -> length rho + 2 <= length s) ->
    exists y', z = y' ++ q :: rho /\ (1 <= m -> y' <> []) /\
      forall rho', rrun m (y ++ q :: rho') = Some (y' ++ q :: rho').
  Proof.
    induction m as [|m IH]; intros y z Hr Hh; simpl in Hr.
    - inversion Hr; subst. exists y. repeat split; auto. lia.
    - destruct (rstep (y ++ q :: rho)) as [s1|] eqn:E1; [|discriminate].
      assert (H1 : length rho + 2 <= length s1).
      { apply (Hh 1 s1); try lia. simpl. now rewrite E1. }
      destruct (frame_step _ _ _ _ E1 H1) as [y1 [Es1 [Hne1 Hall1]]]. subst s1.
      destruct (IH y1 z Hr) as [y' [Ez [Hne Hall]]].
      { intros t s Ht1 Ht2 Hs. apply (Hh (S t) s); try lia. simpl. now rewrite E1. }
      exists y'. split; [exact Ez|]. split.
      + intros _. destruct m as [|m]; [|apply Hne; lia].
        simpl in Hr. inversion Hr as [Ez']. rewrite Ez in Ez'. apply app_inv_tail in Ez'. now subst y'.
      + intros rho'. simpl. rewrite Hall1. apply Hall.
  Qed.

  (** *** periodic and pumping runs never stop *)
  Lemma cycle_infinite st m : 1 <= m -> rrun m st = Some st -> forall M, rrun M st <> None.
  Proof.
    intros Hm Hc.
    assert (Hk : forall c, rrun (c * m) st = Some st).
    { induction c as [|c IH]; [reflexivity|]. simpl. now rewrite rrun_add, Hc. }
    intros M. apply (rrun_prefix (M * m)); [rewrite Hk; discriminate|nia].
  Qed.

  Lemma pump_infinite q x m : 1 <= m -> (forall rho, rrun m (q :: rho) = Some (q :: x ++ q :: rho)) ->
    forall rho M, rrun M (q :: rho) <> None.
  Proof.
    intros Hm Hp.
    assert (Hk : forall c rho, rrun (c * m) (q :: rho) <> None).
    { induction c as [|c IH]; intros rho; [discriminate|]. simpl. rewrite rrun_add, Hp. apply IH. }
    intros rho M. apply (rrun_prefix (M * m)); [apply Hk|nia].
  Qed.

  (** *** the extraction *)
  Definition tr (st : list Z) (t : nat) : list Z := match rrun t st with Some s => s | None => [] end.

  Definition run_bound (st : list Z) : nat :=
    let S0 := st ++ targets in
    S (length (lists_upto S0 (length st + length S0 + 1))).

  Theorem long_infinite st B : st <> [] -> rrun B st <> None -> run_bound st <= B -> forall M, rrun M st <> None.
  Proof.
    intros Hne HB Hbound.
    set (S0 := st ++ targets) in *.
    set (n := length S0).
    set (Hmax := length st + n + 1).
    assert (Hdef : forall t, t <= B -> rrun t st = Some (tr st t)).
    { intros t Ht. unfold tr. pose proof (rrun_prefix B st HB t Ht) as H. destruct (rrun t st); congruence. }
    assert (Hst : forall t, t <= B -> incl (tr st t) S0).
    { intros t Ht. apply (rrun_states S0 t st); [intros x Hx; apply in_or_app; now right|intros x Hx; apply in_or_app; now left|now apply Hdef]. }
    assert (Hstep : forall t, t < B -> rstep (tr st t) = Some (tr st (S t))).
    { intros t Ht. pose proof (Hdef (S t) ltac:(lia)) as H. rewrite rrun_S_r, (Hdef t) in H by lia. exact H. }
    assert (Hfrom : forall t d, t + d <= B -> rrun d (tr st t) = Some (tr st (t + d))).
    { intros t d Htd. pose proof (Hdef (t + d) Htd) as H. rewrite rrun_add, (Hdef t) in H by lia. exact H. }
    assert (Hinf : forall t, t <= B -> (forall M, rrun M (tr st t) <> None) -> forall M, rrun M st <> None).
    { intros t Ht Hi M. apply (rrun_prefix (t + M)); [|lia]. rewrite rrun_add, (Hdef t Ht). apply Hi. }
    destruct (Forall_Exists_dec (fun s : list Z => length s <= Hmax) (fun s => le_dec (length s) Hmax)
                (map (tr st) (seq 0 (S B)))) as [Hall|Hex].
    - (* bounded height: a stack repeats *)
      destruct (pigeon_list (list_eq_dec Z.eq_dec) (map (tr st) (seq 0 (S B))) (lists_upto S0 Hmax)) as [i [j [s [Hij [Hi Hj]]]]].
      + intros s Hs. rewrite Forall_forall in Hall. pose proof (Hall s Hs) as Hl.
        apply in_map_iff in Hs as [t [E Ht]]. subst s. apply in_seq in Ht.
        apply lists_upto_In; auto. apply Hst. lia.
      + rewrite map_length, seq_length. unfold run_bound in Hbound. fold S0 n Hmax in Hbound. lia.
      + assert (Hjl : j < S B).
        { assert (Hs : nth_error (map (tr st) (seq 0 (S B))) j <> None) by congruence.
          apply nth_error_Some in Hs. now rewrite map_length, seq_length in Hs. }
        rewrite nth_error_map in Hi, Hj.
        rewrite (nth_error_nth' (seq 0 (S B)) 0) in Hi by (rewrite seq_length; lia).
        rewrite (nth_error_nth' (seq 0 (S B)) 0) in Hj by (rewrite seq_length; lia).
        rewrite seq_nth in Hi, Hj by lia. simpl in Hi, Hj. inversion Hi as [Ei]. inversion Hj as [Ej].
        apply (Hinf i ltac:(lia)). apply (cycle_infinite _ (j - i)); [lia|].
        rewrite (Hfrom i (j - i)) by lia. replace (i + (j - i)) with j by lia. congruence.
    - (* some stack is high: a state repeats on top of itself *)
      apply Exists_exists in Hex as [s [Hs Hhigh]].
      apply in_map_iff in Hs as [m [E Hm]]. subst s. apply in_seq in Hm.
      set (h := fun t => length (tr st t)).
      assert (Hh0 : h 0 = length st) by reflexivity.
      assert (Hhs : forall t, t < m -> h (S t) <= S (h t)).
      { intros t Ht. unfold h. pose proof (Hstep t ltac:(lia)) as H. apply rstep_length in H. lia. }
      set (tau := fun p => last_at h m (length st + p)).
      assert (Htau : forall p, p <= n -> h (tau p) = length st + p /\ tau p <= m /\
                       forall t, tau p < t -> t <= m -> length st + p < h t).
      { intros p Hp. apply last_at_spec; auto; try lia. unfold h. fold Hmax in Hhigh. unfold Hmax in Hhigh. lia. }
      destruct (pigeon_fun Z.eq_dec (fun p => peek (tr st (tau p))) S0 n) as [i [j [Hij [Hjn Epk]]]].
      + intros p Hp. destruct (Htau p Hp) as [T1 [T2 _]].
        pose proof (Hst (tau p) ltac:(lia)) as Hin. unfold h in T1.
        destruct (tr st (tau p)) as [|q r]; [simpl in T1; destruct st; [congruence|simpl in T1; lia]|].
        apply Hin. now left.
      + unfold n. lia.
      + destruct (Htau i ltac:(lia)) as [Ti1 [Ti2 Ti3]]. destruct (Htau j Hjn) as [Tj1 [Tj2 Tj3]].
        assert (Hlt : tau i < tau j).
        { destruct (Nat.lt_trichotomy (tau i) (tau j)) as [L|[L|L]]; auto.
          - rewrite L in Ti1. lia.
          - pose proof (Tj3 (tau i) L Ti2). lia. }
        apply (Hinf (tau i) ltac:(lia)).
        unfold h in Ti1. destruct (tr st (tau i)) as [|q rho] eqn:Eti; [simpl in Ti1; destruct st; [congruence|simpl in Ti1; lia]|].
        simpl in Ti1.
        set (d := tau j - tau i).
        assert (Hd : rrun d (q :: rho) = Some (tr st (tau j))).
        { rewrite <- Eti, (Hfrom (tau i) d) by (unfold d; lia). f_equal. f_equal. unfold d. lia. }
        destruct (frame_run q rho d [] (tr st (tau j)) Hd) as [y' [Ez [Hne' Hall]]].
        { intros t s Ht1 Ht2 Hs. simpl in Hs. rewrite <- Eti, (Hfrom (tau i) t) in Hs by (unfold d in Ht2; lia).
          inversion Hs; subst s. pose proof (Ti3 (tau i + t) ltac:(lia) ltac:(unfold d in Ht2; lia)) as H. unfold h in H. lia. }
        simpl in Epk. rewrite Ez in Epk.
        destruct y' as [|q' x]; [exfalso; apply Hne'; [unfold d; lia|reflexivity]|]. simpl in Epk. subst q'.
        apply (pump_infinite q x d); [unfold d; lia|]. intros rho'. exact (Hall rho').
  Qed.
End RRun.
