(** C11 — every table returned by the modelled SLR(1) construction (with or without
    precedence resolution) passes the certificate [table_ok]; hence, by [driver_sound], the LR
    driver over it accepts only sentences and emits rightmost derivations, for every grammar. *)
From Coq Require Import List ZArith Bool Arith Lia.
From Algo.Grammar Require Import CFG.
From Algo.C11 Require Import Model ModelPrec ModelSLR Proofs ProofsLR0.
Import ListNotations.

(** ** generic list facts *)

Lemma suffix_chain {A} (l p1 a p2 b : list A) :
  l = p1 ++ a -> l = p2 ++ b -> length b <= length a -> exists p, a = p ++ b.
Proof.
  intros H1 H2 Hl. rewrite H1 in H2. apply app_eq_app in H2 as [m [[E1 E2]|[E1 E2]]].
  - (* p1 = p2 ++ m, b = m ++ a *)
    subst b. rewrite app_length in Hl. destruct m; [|simpl in Hl; lia]. exists []. reflexivity.
  - exists m. exact E2.
Qed.

Lemma combine_seq_In {A} (f : nat -> Z) (l : list A) : forall a s x,
  In (s, x) (combine (map f (seq a (length l))) l) -> exists k, s = f (a + k) /\ nth_error l k = Some x.
Proof.
  induction l as [|y l IH]; intros a s x H; simpl in H; [destruct H|].
  destruct H as [H|H].
  - inversion H; subst. exists 0. split; [now rewrite Nat.add_0_r|reflexivity].
  - apply IH in H as [k [H1 H2]]. exists (S k). split; [now rewrite Nat.add_succ_r|exact H2].
Qed.

Lemma look_eqb_refl a : look_eqb a a = true.
Proof. destruct a; simpl; auto using Nat.eqb_refl. Qed.

(** ** cells with action sets *)

Section Cells.
  Variable P : Z -> look -> action -> Prop.

  Definition cells_ok (cells : list (Z * look * list action)) : Prop :=
    forall s a l x, In (s, a, l) cells -> In x l -> P s a x.

  Lemma cell_add_ok cells s a x : cells_ok cells -> P s a x -> cells_ok (cell_add cells s a x).
  Proof.
    intros Hc Hp. induction cells as [|[[s' a'] l'] cells IH]; simpl.
    - intros s0 a0 l0 x0 [H|[]] Hx. inversion H; subst. destruct Hx as [Hx|[]]. now subst.
    - assert (Hc' : cells_ok cells) by (intros s0 a0 l0 x0 H Hx; eapply Hc; [right; exact H|exact Hx]).
      destruct (Z.eqb s s' && look_eqb a a') eqn:E.
      + apply andb_true_iff in E as [E1 E2]. apply Z.eqb_eq in E1. apply look_eqb_eq in E2. subst s' a'.
        intros s0 a0 l0 x0 [H|H] Hx.
        * inversion H; subst. destruct (mem_action x l').
          -- eapply Hc; [left; reflexivity|exact Hx].
          -- apply in_app_or in Hx as [Hx|[Hx|[]]]; [eapply Hc; [left; reflexivity|exact Hx]|now subst].
        * eapply Hc; [right; exact H|exact Hx].
      + intros s0 a0 l0 x0 [H|H] Hx.
        * inversion H; subst. eapply Hc; [left; reflexivity|exact Hx].
        * eapply IH; eauto.
  Qed.

  Lemma fold_cells_ok {B} (f : list (Z * look * list action) -> B -> list (Z * look * list action)) (l : list B) :
    (forall cells b, In b l -> cells_ok cells -> cells_ok (f cells b)) ->
    forall cells, cells_ok cells -> cells_ok (fold_left f l cells).
  Proof.
    induction l as [|b l IH]; intros Hf cells Hc; simpl; auto.
    apply IH; [intros c b' Hb; apply Hf; now right|]. apply Hf; [now left|exact Hc].
  Qed.
End Cells.

(** resolution picks one of the actions of the cell *)
Lemma resolve_loop_In ls : forall ps mx m, resolve_loop ls ps mx = Some m -> m = mx \/ In m ps.
Proof.
  induction ps as [|p ps IH]; intros mx m H; simpl in H.
  - inversion H; now left.
  - destruct (compare ls p mx) as [c|]; [|discriminate].
    apply IH in H as [H|H]; [|right; now right].
    destruct (0 <? c)%Z; [right; left; now subst|now left].
Qed.

Lemma resolve_conflict_In ls a l x : resolve_conflict ls a l = Some x -> In x l.
Proof.
  unfold resolve_conflict. destruct l as [|x0 l]; [discriminate|]. cbn [map].
  set (ps := (x0, handle_of_action a x0) :: map (fun y => (y, handle_of_action a y)) l).
  destruct (resolve_loop ls ps (x0, handle_of_action a x0)) as [m|] eqn:E; [|discriminate].
  intros H. inversion H; subst x. apply resolve_loop_In in E as [E|E].
  - subst m. now left.
  - destruct E as [E|E]; [subst m; now left|].
    apply in_map_iff in E as [y [Ey Hy]]. subst m. simpl. now right.
Qed.

Lemma resolve_cells_In ls cells s a x :
  In (s, a, x) (fst (resolve_cells ls cells)) -> exists l, In (s, a, l) cells /\ In x l.
Proof.
  induction cells as [|[[s' a'] l'] cells IH]; simpl; [intros []|].
  destruct l' as [|x1 [|x2 l']].
  - intros H. apply IH in H as [l [H1 H2]]. exists l. split; [now right|exact H2].
  - simpl. intros [H|H].
    + inversion H; subst. exists [x]. split; [now left|now left].
    + apply IH in H as [l [H1 H2]]. exists l. split; [now right|exact H2].
  - destruct (resolve_conflict ls a' (x1 :: x2 :: l')) as [y|] eqn:E; simpl.
    + intros [H|H].
      * inversion H; subst. exists (x1 :: x2 :: l'). split; [now left|]. eapply resolve_conflict_In; eauto.
      * apply IH in H as [l [H1 H2]]. exists l. split; [now right|exact H2].
    + intros H. apply IH in H as [l [H1 H2]]. exists l. split; [now right|exact H2].
Qed.

(** ** inflationary folds: if the length did not change, no step changed anything *)

Section Infl.
  Context {X B : Type}.
  Variable f : list X -> B -> list X.
  Hypothesis Hinfl : forall c b, length c <= length (f c b).
  Hypothesis Hstab : forall c b, length (f c b) = length c -> f c b = c.

  Lemma infl_fold l : forall c, length c <= length (fold_left f l c).
  Proof.
    induction l as [|b l IH]; intros c; simpl; [lia|].
    specialize (IH (f c b)). specialize (Hinfl c b). lia.
  Qed.

  Lemma stable_fold l : forall c, length (fold_left f l c) = length c ->
    fold_left f l c = c /\ forall b, In b l -> f c b = c.
  Proof.
    induction l as [|b l IH]; intros c H; simpl in *; [split; [reflexivity|intros b []]|].
    pose proof (infl_fold l (f c b)) as H1. pose proof (Hinfl c b) as H2.
    assert (E : f c b = c) by (apply Hstab; lia).
    rewrite E in H. destruct (IH c H) as [H3 H4]. rewrite E. split; [exact H3|].
    intros b' [Hb|Hb]; [now subst|now apply H4].
  Qed.
End Infl.

(** ** set equality of item sets *)

Lemma item_eqb_refl i : item_eqb i i = true.
Proof.
  unfold item_eqb. destruct i as [p d]. simpl.
  unfold prod_eqb. now rewrite !Nat.eqb_refl, str_eqb_refl.
Qed.

Lemma In_mem_item i I : In i I -> mem_item i I = true.
Proof.
  intros H. unfold mem_item. apply existsb_exists. exists i. split; auto. apply item_eqb_refl.
Qed.

Lemma itemset_eqb_spec I J : itemset_eqb I J = true -> forall x, In x I <-> In x J.
Proof.
  unfold itemset_eqb, subset_items. intros H. apply andb_true_iff in H as [H1 H2].
  rewrite forallb_forall in H1, H2. intros x. split; intros Hx; apply mem_item_In; auto.
Qed.

Lemma index_of_spec J : forall C k0 k, index_of J C k0 = Some k ->
  k0 <= k /\ exists I, nth_error C (k - k0) = Some I /\ itemset_eqb I J = true.
Proof.
  induction C as [|I C IH]; intros k0 k H; simpl in H; [discriminate|].
  destruct (itemset_eqb I J) eqn:E.
  - inversion H; subst. split; [lia|]. rewrite Nat.sub_diag. exists I. auto.
  - apply IH in H as [Hle [I' [Hn He]]]. split; [lia|]. exists I'. split; auto.
    replace (k - k0) with (S (k - S k0)) by lia. exact Hn.
Qed.

Lemma state_of_spec C J t : state_of C J = t -> (0 <= t)%Z ->
  J <> [] /\ exists k I, t = Z.of_nat k /\ nth_error C k = Some I /\ itemset_eqb I J = true.
Proof.
  unfold state_of. intros H Ht. destruct J as [|j J]; [subst; lia|].
  split; [discriminate|].
  destruct (index_of (j :: J) C 0) as [k|] eqn:E; [|subst; lia].
  apply index_of_spec in E as [_ [I [Hn He]]]. rewrite Nat.sub_0_r in Hn.
  exists k, I. auto.
Qed.

Lemma is_suffix_complete u pre : is_suffix u (pre ++ u) = true.
Proof.
  unfold is_suffix. rewrite app_length. apply andb_true_iff. split.
  - apply Nat.leb_le. lia.
  - replace (length pre + length u - length u) with (length pre) by lia.
    rewrite skipn_app, Nat.sub_diag, skipn_all. simpl. apply str_eqb_refl.
Qed.

(** ** freshness of the augmented start symbol *)

Lemma list_max_ge l x : In x l -> x <= list_max l.
Proof.
  intros H. pose proof (proj1 (list_max_le l (list_max l)) (le_n _)) as HF.
  rewrite Forall_forall in HF. now apply HF.
Qed.

Lemma sym_nts_In A b : In (Nt A) b -> In A (sym_nts b).
Proof.
  intros H. unfold sym_nts. apply in_flat_map. exists (Nt A). split; [exact H|now left].
Qed.

Section Fresh.
  Variable G : gram.

  Lemma start_lt_fresh : start G < fresh_nt G.
  Proof. unfold fresh_nt. apply Nat.lt_succ_r. apply list_max_ge. unfold all_nts. now left. Qed.

  Lemma head_lt_fresh p : In p (prods G) -> head p < fresh_nt G.
  Proof.
    intros H. unfold fresh_nt. apply Nat.lt_succ_r. apply list_max_ge. unfold all_nts.
    right. apply in_or_app. right. apply in_flat_map. exists p. split; [exact H|now left].
  Qed.

  Lemma body_nt_lt_fresh p A : In p (prods G) -> In (Nt A) (body p) -> A < fresh_nt G.
  Proof.
    intros H HA. unfold fresh_nt. apply Nat.lt_succ_r. apply list_max_ge. unfold all_nts.
    right. apply in_or_app. right. apply in_flat_map. exists p. split; [exact H|].
    right. now apply sym_nts_In.
  Qed.

  Lemma fresh_not_in_bodies q : In q (prods (augment G)) -> ~ In (Nt (fresh_nt G)) (body q).
  Proof.
    simpl. intros [Hq|Hq] Hin.
    - subst q. simpl in Hin. destruct Hin as [Hin|[]]. inversion Hin as [E].
      pose proof start_lt_fresh. lia.
    - pose proof (body_nt_lt_fresh _ _ Hq Hin). lia.
  Qed.

  Lemma fresh_head q : In q (prods (augment G)) -> head q = fresh_nt G -> q = aug_prod G.
  Proof.
    simpl. intros [Hq|Hq] Hh; [now subst|]. pose proof (head_lt_fresh _ Hq). lia.
  Qed.
End Fresh.

(** ** CLOSURE again: the items it adds are [B -> . gamma] for a [B] that occurs in some body *)

Section Closure2.
  Variable ps : list prod.

  Definition all_in (I : list item) : Prop := forall y, In y I -> In (fst y) ps.

  Definition fresh2 (x : item) : Prop :=
    snd x = 0 /\ In (fst x) ps /\ exists q, In q ps /\ In (Nt (head (fst x))) (body q).

  Lemma inner_fold2 B : (exists q, In q ps /\ In (Nt B) (body q)) -> forall l J x,
    (forall p, In p l -> In p ps) ->
    In x (fold_left (fun J' p => if Nat.eqb (head p) B then add_item (p, 0) J' else J') l J) ->
    In x J \/ fresh2 x.
  Proof.
    intros HB. induction l as [|p l IH]; intros J x Hl H; simpl in H; auto.
    apply IH in H; [|intros q Hq; apply Hl; now right].
    destruct H as [H|H]; auto.
    destruct (Nat.eqb_spec (head p) B) as [E|E]; auto.
    apply add_item_In in H as [H|[H _]]; auto.
    right. subst x. split; [reflexivity|]. split; [apply Hl; now left|]. simpl fst. rewrite E. exact HB.
  Qed.

  Lemma closure_pass_items2 I x : all_in I -> In x (closure_pass ps I) -> In x I \/ fresh2 x.
  Proof.
    intros HI. unfold closure_pass.
    assert (Hgen : forall l J, (forall i, In i l -> In (fst i) ps) -> In x (fold_left (fun J i =>
       match dot_symbol i with
       | Some (Nt B) => fold_left (fun J' p => if Nat.eqb (head p) B then add_item (p, 0) J' else J') ps J
       | _ => J end) l J) -> In x J \/ fresh2 x).
    { induction l as [|i l IH]; intros J Hl H; simpl in H; auto.
      apply IH in H as [H|H]; auto; [|intros i' Hi'; apply Hl; now right].
      destruct (dot_symbol i) as [[a|B]|] eqn:Ed; auto.
      apply inner_fold2 in H; auto.
      exists (fst i). split; [apply Hl; now left|]. unfold dot_symbol in Ed. eapply nth_error_In; eauto. }
    apply Hgen. exact HI.
  Qed.

  Lemma closure_iter_items2 fuel : forall I x, all_in I -> In x (closure_iter fuel ps I) -> In x I \/ fresh2 x.
  Proof.
    induction fuel as [|f IH]; intros I x HI H; simpl in H; auto.
    destruct (Nat.eqb (length (closure_pass ps I)) (length I)); auto.
    apply IH in H as [H|H]; auto.
    - now apply closure_pass_items2.
    - intros y Hy. apply closure_pass_items2 in Hy as [Hy|[_ [Hy _]]]; auto.
  Qed.

  Lemma closure_items2 I x : all_in I -> In x (closure ps I) -> In x I \/ fresh2 x.
  Proof. apply closure_iter_items2. Qed.
End Closure2.

(** ** the canonical collection *)

Section Collection.
  Variable G : gram.
  Let ps := prods (augment G).
  Let aug := aug_prod G.
  Let I0 := closure ps [(aug, 0)].
  Variable syms : list sym.

  Lemma aug_in_ps : In aug ps.
  Proof. now left. Qed.

  Lemma I0_dots x : In x I0 -> snd x = 0.
  Proof. intros H. apply closure_items in H as [[H|[]]|[H _]]; [now subst|exact H]. Qed.

  Lemma I0_spelled : spelled ps [] I0.
  Proof.
    apply spelled_closure. intros x [Hx|[]]. subst x. simpl.
    split; [apply aug_in_ps|]. split; [lia|]. exists []. reflexivity.
  Qed.

  (** states reachable from the initial one by non-empty GOTOs *)
  Inductive reach : list item -> Prop :=
  | reach0 : reach I0
  | reachS I X : reach I -> goto ps I X <> [] -> reach (goto ps I X).

  Definition nonInit (J : list item) : Prop := exists I X, reach I /\ J = goto ps I X /\ J <> [].

  Lemma nonInit_reach J : nonInit J -> reach J.
  Proof. intros [I [X [H1 [H2 H3]]]]. subst J. now constructor. Qed.

  Lemma reach_spelled I : reach I -> exists l, spelled ps l I.
  Proof.
    induction 1 as [|I X HI [l Hl] Hne].
    - exists []. apply I0_spelled.
    - exists (l ++ [X]). now apply spelled_goto.
  Qed.

  Lemma spelled_all_in l I : spelled ps l I -> all_in ps I.
  Proof. intros H y Hy. now destruct (H y Hy). Qed.

  Lemma goto_nonempty_kernel I X : goto ps I X <> [] -> goto ps I X = closure ps (goto_kernel I X) /\ goto_kernel I X <> [].
  Proof.
    unfold goto. destruct (goto_kernel I X) as [|k K]; [congruence|]. intros _. split; [reflexivity|discriminate].
  Qed.

  (** items of a non-initial state: advanced items of the predecessor, or closure items *)
  Lemma nonInit_items J : nonInit J -> exists I X, reach I /\ J = goto ps I X /\
    forall x, In x J ->
      (exists d, snd x = S d /\ In (fst x, d) I /\ nth_error (body (fst x)) d = Some X) \/ fresh2 ps x.
  Proof.
    intros [I [X [HI [HJ Hne]]]]. exists I, X. split; [exact HI|]. split; [exact HJ|].
    subst J. destruct (goto_nonempty_kernel _ _ Hne) as [E _]. rewrite E.
    destruct (reach_spelled _ HI) as [l Hl].
    intros x Hx. apply closure_items2 in Hx as [Hx|Hx]; auto.
    - left. now apply goto_kernel_items.
    - intros y Hy. apply goto_kernel_items in Hy as [d [_ [Hin _]]].
      exact (spelled_all_in _ _ Hl _ Hin).
  Qed.

  Lemma fresh2_not_aug x : fresh2 ps x -> fst x <> aug.
  Proof.
    intros [_ [_ [q [Hq Hin]]]] E. rewrite E in Hin. simpl in Hin.
    exact (fresh_not_in_bodies G q Hq Hin).
  Qed.

  Lemma nonInit_no_aug0 J : nonInit J -> ~ In (aug, 0) J.
  Proof.
    intros HJ Hin. destruct (nonInit_items _ HJ) as [I [X [_ [_ Hx]]]].
    destruct (Hx _ Hin) as [[d [Hd _]]|Hf]; [simpl in Hd; discriminate|].
    now apply (fresh2_not_aug _ Hf).
  Qed.

  Lemma reach_aug0 I : reach I -> In (aug, 0) I -> I = I0.
  Proof.
    intros HI Hin. inversion HI as [|I' X HI' Hne E]; [reflexivity|]. exfalso.
    apply (nonInit_no_aug0 I); [|exact Hin]. exists I', X. subst I. auto.
  Qed.

  Lemma nonInit_kernel_item J : nonInit J -> exists x, In x J /\ snd x <> 0.
  Proof.
    intros [I [X [HI [HJ Hne]]]]. rewrite HJ in Hne. destruct (goto_nonempty_kernel _ _ Hne) as [E Hk].
    destruct (goto_kernel I X) as [|k K] eqn:Ek; [congruence|].
    exists k. split.
    - rewrite HJ, E. apply closure_incl. now left.
    - assert (Hin : In k (goto_kernel I X)) by (rewrite Ek; now left).
      apply goto_kernel_items in Hin as [d [Hd _]]. lia.
  Qed.

  (** the collection: the initial state first, then non-initial states *)
  Definition coll (C : list (list item)) : Prop := exists t, C = I0 :: t /\ Forall nonInit t.

  Lemma coll_reach C : coll C -> forall I, In I C -> reach I.
  Proof.
    intros [t [E Ht]] I HI. subst C. destruct HI as [HI|HI]; [subst; constructor|].
    rewrite Forall_forall in Ht. apply nonInit_reach. now apply Ht.
  Qed.

  Definition inner_step (I : list item) (C : list (list item)) (X : sym) : list (list item) :=
    match goto ps I X with
    | [] => C
    | J => match index_of J C 0 with Some _ => C | None => C ++ [J] end
    end.

  Definition outer_step (C : list (list item)) (I : list item) : list (list item) :=
    fold_left (inner_step I) syms C.

  Lemma canonical_pass_eq C : canonical_pass ps syms C = fold_left outer_step C C.
  Proof. reflexivity. Qed.

  Lemma inner_step_infl I C X : length C <= length (inner_step I C X).
  Proof.
    unfold inner_step. destruct (goto ps I X); [lia|]. destruct (index_of _ C 0); [lia|].
    rewrite app_length. simpl. lia.
  Qed.

  Lemma inner_step_stab I C X : length (inner_step I C X) = length C -> inner_step I C X = C.
  Proof.
    unfold inner_step. destruct (goto ps I X); auto. destruct (index_of _ C 0); auto.
    rewrite app_length. simpl. lia.
  Qed.

  Lemma outer_step_infl C I : length C <= length (outer_step C I).
  Proof. apply infl_fold. intros. apply inner_step_infl. Qed.

  Lemma outer_step_stab C I : length (outer_step C I) = length C -> outer_step C I = C.
  Proof.
    intros H. apply (stable_fold (inner_step I)) in H as [H _]; auto.
    - intros. apply inner_step_infl.
    - intros. now apply inner_step_stab.
  Qed.

  Lemma inner_step_coll I C X : reach I -> coll C -> coll (inner_step I C X).
  Proof.
    intros HI [t [E Ht]]. unfold inner_step. destruct (goto ps I X) as [|j J] eqn:Eg; [exists t; auto|].
    destruct (index_of (j :: J) C 0); [exists t; auto|].
    exists (t ++ [j :: J]). split; [subst C; reflexivity|].
    apply Forall_app. split; auto. constructor; [|constructor].
    exists I, X. rewrite Eg. repeat split; auto. discriminate.
  Qed.

  Lemma outer_step_coll C I : reach I -> coll C -> coll (outer_step C I).
  Proof.
    intros HI. unfold outer_step. revert C. induction syms as [|X l IH]; intros C HC; simpl; auto.
    apply IH. now apply inner_step_coll.
  Qed.

  Lemma canonical_pass_coll C : coll C -> coll (canonical_pass ps syms C).
  Proof.
    intros HC. rewrite canonical_pass_eq.
    assert (Hgen : forall l C', (forall I, In I l -> reach I) -> coll C' -> coll (fold_left outer_step l C')).
    { induction l as [|I l IH]; intros C' Hl HC'; simpl; auto.
      apply IH; [intros J HJ; apply Hl; now right|]. apply outer_step_coll; auto. apply Hl. now left. }
    apply Hgen; auto. apply coll_reach. exact HC.
  Qed.

  (** closed under GOTO *)
  Definition closed_coll (C : list (list item)) : Prop :=
    forall I X, In I C -> In X syms -> goto ps I X = [] \/ exists k, index_of (goto ps I X) C 0 = Some k.

  Lemma canonical_iter_result fuel : forall C C',
    coll C -> canonical_iter fuel ps syms C = Some C' -> coll C' /\ closed_coll C'.
  Proof.
    induction fuel as [|f IH]; intros C C' HC H; simpl in H; [discriminate|].
    destruct (Nat.eqb_spec (length (canonical_pass ps syms C)) (length C)) as [E|E].
    - inversion H; subst C'. split; [exact HC|].
      rewrite canonical_pass_eq in E.
      apply (stable_fold outer_step) in E as [_ E]; [|apply outer_step_infl|apply outer_step_stab].
      intros I X HI HX. specialize (E I HI). unfold outer_step in E.
      assert (E' : length (fold_left (inner_step I) syms C) = length C) by now rewrite E.
      apply (stable_fold (inner_step I)) in E' as [_ E']; [|intros; apply inner_step_infl|intros; now apply inner_step_stab].
      specialize (E' X HX). unfold inner_step in E'.
      destruct (goto ps I X) as [|j J]; [now left|]. right.
      destruct (index_of (j :: J) C 0) as [k|]; [eauto|].
      exfalso. apply (f_equal (@length _)) in E'. rewrite app_length in E'. simpl in E'. lia.
    - eapply IH; [|exact H]. now apply canonical_pass_coll.
  Qed.
End Collection.

(** ** labels: the longest part-before-the-dot of a state *)

Definition longer (best : list sym) (x : item) : list sym :=
  if length best <? length (prefix_of x) then prefix_of x else best.

Definition lp (I : list item) : list sym := fold_left longer I [].

Lemma lp_gen : forall l acc,
  (fold_left longer l acc = acc \/ exists x, In x l /\ fold_left longer l acc = prefix_of x) /\
  length acc <= length (fold_left longer l acc) /\
  forall x, In x l -> length (prefix_of x) <= length (fold_left longer l acc).
Proof.
  induction l as [|y l IH]; intros acc; simpl.
  - split; [now left|]. split; [lia|intros x []].
  - destruct (IH (longer acc y)) as [H1 [H2 H3]].
    assert (Hl : length acc <= length (longer acc y) /\ length (prefix_of y) <= length (longer acc y) /\
                 (longer acc y = acc \/ longer acc y = prefix_of y)).
    { unfold longer. destruct (length acc <? length (prefix_of y)) eqn:E.
      - apply Nat.ltb_lt in E. repeat split; auto; lia.
      - apply Nat.ltb_ge in E. repeat split; auto; lia. }
    destruct Hl as [Hl1 [Hl2 Hl3]]. split; [|split].
    + destruct H1 as [H1|[x [Hx H1]]].
      * destruct Hl3 as [Hl3|Hl3]; [left; congruence|right; exists y; split; [now left|congruence]].
      * right. exists x. split; [now right|exact H1].
    + lia.
    + intros x [Hx|Hx]; [subst; lia|now apply H3].
Qed.

Lemma lp_spec I :
  (lp I = [] \/ exists x, In x I /\ lp I = prefix_of x) /\ forall x, In x I -> length (prefix_of x) <= length (lp I).
Proof. unfold lp. destruct (lp_gen I []) as [H1 [_ H3]]. split; auto. Qed.

Lemma lp_chain ps l I : spelled ps l I -> forall x, In x I -> exists pre, lp I = pre ++ prefix_of x.
Proof.
  intros Hs x Hx. destruct (lp_spec I) as [[E|[y [Hy E]]] Hmax].
  - specialize (Hmax x Hx). rewrite E in Hmax. simpl in Hmax.
    destruct (prefix_of x); [|simpl in Hmax; lia]. exists []. now rewrite E.
  - destruct (Hs y Hy) as [_ [_ [p1 H1]]]. destruct (Hs x Hx) as [_ [_ [p2 H2]]].
    rewrite E. eapply suffix_chain; eauto. rewrite <- E. now apply Hmax.
Qed.

(** ** the theorem *)

Section Main.
  Variable G : gram.
  (** every terminal that occurs in a body is declared *)
  Hypothesis Hvalid : forall p c, In p (prods G) -> In (Tm c) (body p) -> In c (terms G).
  Variable fuel : nat.
  Variable C : list (list item).
  Hypothesis HC : canonical fuel G = Some C.

  Let ps := prods (augment G).
  Let aug := aug_prod G.
  Let syms := symbols_of (augment G).
  Let fo := follows (augment G).
  Let I0 := closure ps [(aug, 0)].
  Let lbl := map lp C.

  Lemma C_coll : coll G C /\ closed_coll G syms C.
  Proof.
    unfold canonical in HC. eapply canonical_iter_result; [|exact HC].
    exists []. split; [reflexivity|constructor].
  Qed.

  Lemma C_nth_reach k I : nth_error C k = Some I -> reach G I.
  Proof. intros H. eapply coll_reach; [apply C_coll|]. eapply nth_error_In; eauto. Qed.

  Lemma C_nth_0 : nth_error C 0 = Some I0.
  Proof. destruct C_coll as [[t [E _]] _]. now rewrite E. Qed.

  Lemma C_nth_nonInit k I : nth_error C (S k) = Some I -> nonInit G I.
  Proof.
    destruct C_coll as [[t [E Ht]] _]. rewrite E. simpl. intros H.
    rewrite Forall_forall in Ht. apply Ht. eapply nth_error_In; eauto.
  Qed.

  Lemma label_nth k I : nth_error C k = Some I -> label_of lbl (Z.of_nat k) = Some (lp I).
  Proof.
    intros H. unfold label_of, lbl.
    assert (E : (Z.of_nat k <? 0)%Z = false) by (apply Z.ltb_ge; lia). rewrite E.
    rewrite Nat2Z.id. now rewrite nth_error_map, H.
  Qed.

  Lemma goto_items I X : reach G I -> goto ps I X <> [] -> forall x, In x (goto ps I X) ->
    (exists d, snd x = S d /\ In (fst x, d) I /\ nth_error (body (fst x)) d = Some X) \/ fresh2 ps x.
  Proof.
    intros HI Hne x Hx. destruct (goto_nonempty_kernel G _ _ Hne) as [E _]. fold ps in E. rewrite E in Hx.
    destruct (reach_spelled G _ HI) as [l Hl]. fold ps in Hl.
    apply closure_items2 in Hx as [Hx|Hx]; auto.
    - left. now apply goto_kernel_items.
    - intros y Hy. apply goto_kernel_items in Hy as [d [_ [Hin _]]].
      now destruct (Hl _ Hin).
  Qed.

  Lemma goto_kernel_has I X it : In it I -> dot_symbol it = Some X -> In (fst it, S (snd it)) (goto_kernel I X).
  Proof.
    intros Hin Hd. unfold goto_kernel.
    assert (Hgen : forall l J, (In it l \/ In (fst it, S (snd it)) J) ->
      In (fst it, S (snd it)) (fold_left (fun J i => if sym_eq_opt (dot_symbol i) X then add_item (fst i, S (snd i)) J else J) l J)).
    { induction l as [|i l IH]; intros J H; simpl.
      - destruct H as [[]|H]; exact H.
      - apply IH. destruct H as [[H|H]|H].
        + subst i. right. unfold sym_eq_opt. rewrite Hd, sym_eqb_refl.
          unfold add_item. destruct (mem_item (fst it, S (snd it)) J) eqn:E.
          * now apply mem_item_In.
          * apply in_or_app. right. now left.
        + now left.
        + right. destruct (sym_eq_opt (dot_symbol i) X); auto. now apply add_item_incl. }
    apply Hgen. now left.
  Qed.

  Lemma goto_nonempty I X it : In it I -> dot_symbol it = Some X -> goto ps I X <> [].
  Proof.
    intros Hin Hd. pose proof (goto_kernel_has I X it Hin Hd) as Hk.
    unfold goto. destruct (goto_kernel I X) as [|k K] eqn:E; [destruct Hk|].
    intros Hc. assert (Hi : In k (closure ps (k :: K))) by (apply closure_incl; now left).
    rewrite Hc in Hi. destruct Hi.
  Qed.

  (** an accepting state contains the item S' -> S . *)
  Definition accept_states (tbl : table) : Prop :=
    forall s, has_accept tbl (Z.of_nat s) = true -> exists I', nth_error C s = Some I' /\ In (aug, 1) I'.

  Lemma aug1_origin I X : reach G I -> goto ps I X <> [] -> In (aug, 1) (goto ps I X) ->
    In (aug, 0) I /\ X = Nt (start G).
  Proof.
    intros HI Hne Hin. destruct (goto_items I X HI Hne _ Hin) as [[d [Hd [Hi Hn]]]|Hf].
    - simpl in Hd. inversion Hd; subst d. simpl in Hi, Hn. inversion Hn. auto.
    - exfalso. now apply (fresh2_not_aug G _ Hf).
  Qed.

  Lemma edge_ok_goto tbl k I X t : accept_states tbl ->
    nth_error C k = Some I -> state_of C (goto ps I X) = t -> (0 <= t)%Z ->
    edge_ok tbl lbl (Z.of_nat k) X t = true.
  Proof.
    intros HA Hk Ht Hpos.
    destruct (state_of_spec _ _ _ Ht Hpos) as [Hne [k' [I' [Et [Hk' Heq]]]]]. rewrite Et.
    pose proof (C_nth_reach _ _ Hk) as HI.
    pose proof (itemset_eqb_spec _ _ Heq) as Hset.
    unfold edge_ok. rewrite (label_nth _ _ Hk), (label_nth _ _ Hk').
    apply andb_true_iff. split; [apply andb_true_iff; split|].
    - (* the target is not the initial state *)
      apply negb_true_iff. apply Z.eqb_neq. intros E. assert (k' = 0) by lia. subst k'.
      rewrite C_nth_0 in Hk'. inversion Hk'; subst I'.
      destruct (nonInit_kernel_item G (goto ps I X)) as [x [Hx Hs]].
      { exists I, X. auto. }
      apply Hset in Hx. apply (I0_dots G) in Hx. contradiction.
    - (* label of the target is a suffix of label ++ [X] *)
      destruct (reach_spelled G _ HI) as [l Hl].
      destruct (lp_spec I') as [[E|[y [Hy E]]] _].
      + rewrite E. rewrite <- (app_nil_r (lp I ++ [X])). apply is_suffix_complete.
      + apply Hset in Hy. destruct (goto_items I X HI Hne _ Hy) as [[d [Hd [Hi Hn]]]|[Hf _]].
        * destruct (lp_chain _ _ _ Hl _ Hi) as [pre Hpre].
          rewrite E. unfold prefix_of at 1. rewrite Hd, (firstn_S_nth _ _ _ Hn).
          rewrite Hpre. unfold prefix_of. simpl fst. simpl snd. rewrite <- app_assoc. apply is_suffix_complete.
        * rewrite E. unfold prefix_of. rewrite Hf. simpl.
          rewrite <- (app_nil_r (lp I ++ [X])). apply is_suffix_complete.
    - (* accepting states are entered from state 0 only *)
      destruct (has_accept tbl (Z.of_nat k')) eqn:Ea; [|reflexivity]. simpl.
      destruct (HA _ Ea) as [I'' [Hk'' Hin]]. rewrite Hk' in Hk''. inversion Hk''; subst I''.
      apply Hset in Hin. destruct (aug1_origin I X HI Hne Hin) as [H0 _].
      destruct k as [|k]; [reflexivity|]. exfalso.
      exact (nonInit_no_aug0 G _ (C_nth_nonInit _ _ Hk) H0).
  Qed.

  (** what the construction enters into the cells *)
  Definition contributed (s : Z) (a : look) (x : action) : Prop :=
    exists k I it, s = Z.of_nat k /\ nth_error C k = Some I /\ In it I /\
      ((exists c, dot_symbol it = Some (Tm c) /\ a = Some c /\ x = Shift (state_of C (goto ps I (Tm c)))) \/
       (is_complete it = true /\ head (fst it) = fresh_nt G /\ a = None /\ x = Accept) \/
       (is_complete it = true /\ head (fst it) <> fresh_nt G /\ x = Reduce (fst it))).

  Lemma item_actions_ok k I cells it : nth_error C k = Some I -> In it I ->
    cells_ok contributed cells -> cells_ok contributed (item_actions G ps fo C (Z.of_nat k) I cells it).
  Proof.
    intros Hk Hin Hc. unfold item_actions.
    set (c1 := match dot_symbol it with
               | Some (Tm a) => cell_add cells (Z.of_nat k) (Some a) (Shift (state_of C (goto ps I (Tm a))))
               | _ => cells end).
    assert (Hc1 : cells_ok contributed c1).
    { unfold c1. destruct (dot_symbol it) as [[a|A]|] eqn:Ed; auto.
      apply cell_add_ok; auto. exists k, I, it. repeat split; auto. left. exists a. auto. }
    destruct (is_complete it) eqn:Ec; auto.
    destruct (Nat.eqb_spec (head (fst it)) (fresh_nt G)) as [Eh|Eh].
    - apply cell_add_ok; auto. exists k, I, it. repeat split; auto. right. left. auto.
    - apply fold_cells_ok; auto. intros cells' a _ Hc'. apply cell_add_ok; auto.
      exists k, I, it. repeat split; auto; try (right; right; auto).
  Qed.

  Lemma idx_spec s I : In (s, I) (combine (map Z.of_nat (seq 0 (length C))) C) ->
    exists k, s = Z.of_nat k /\ nth_error C k = Some I.
  Proof. intros H. apply combine_seq_In in H as [k [H1 H2]]. exists k. auto. Qed.

  Lemma raw_cells_ok r : slr_raw fuel G = Some r -> cells_ok contributed (r_action r).
  Proof.
    unfold slr_raw. rewrite HC. intros H. inversion H; subst r; clear H. simpl.
    apply fold_cells_ok; [|intros s a l x []].
    intros cells [s I] Hin Hc. apply idx_spec in Hin as [k [Es Hk]]. subst s. simpl.
    apply fold_cells_ok; auto. intros cells' it Hit Hc'. now apply item_actions_ok.
  Qed.

  Lemma raw_gotos r s A t : slr_raw fuel G = Some r -> In (s, A, t) (r_goto r) ->
    exists k I, s = Z.of_nat k /\ nth_error C k = Some I /\ t = state_of C (goto ps I (Nt A)) /\ (0 <= t)%Z.
  Proof.
    unfold slr_raw. rewrite HC. intros H. inversion H; subst r; clear H. cbn [r_goto].
    intros Hin. apply in_flat_map in Hin as [[s' I] [Hidx Hin]].
    apply in_flat_map in Hin as [A' [_ Hin]]. cbn [fst snd] in Hin. change (aug_prod G :: prods G) with ps in Hin.
    apply idx_spec in Hidx as [k [Es Hk]]. subst s'.
    destruct (state_of C (goto ps I (Nt A'))) as [|p|p] eqn:E; simpl in Hin.
    - destruct Hin as [Hin|[]]. inversion Hin; subst. exists k, I. rewrite E. repeat split; auto. lia.
    - destruct Hin as [Hin|[]]. inversion Hin; subst. exists k, I. rewrite E. repeat split; auto. lia.
    - destruct Hin.
  Qed.

  Lemma complete_prefix it : is_complete it = true -> prefix_of it = body (fst it).
  Proof. unfold is_complete, prefix_of. intros H. apply Nat.eqb_eq in H. rewrite H. apply firstn_all. Qed.

  Theorem slr_table_ok ls tbl : build_slr fuel G ls = BuiltOk tbl -> table_ok G tbl lbl = true.
  Proof.
    unfold build_slr. destruct (slr_raw fuel G) as [r|] eqn:Er; [|discriminate].
    destruct (negb (levels_disjoint ls)); [discriminate|].
    destruct (resolve_cells ls (r_action r)) as [acts confl] eqn:Ec.
    destruct confl; [|discriminate]. intros H. inversion H; subst tbl; clear H.
    pose proof (raw_cells_ok r Er) as Hraw.
    assert (Hent : forall s a x, In (s, a, x) acts -> contributed s a x).
    { intros s a x Hin. assert (Hin' : In (s, a, x) (fst (resolve_cells ls (r_action r)))) by now rewrite Ec.
      apply resolve_cells_In in Hin' as [l [H1 H2]]. eapply Hraw; eauto. }
    set (tbl := mkTable acts (r_goto r)).
    (* items with the fresh head are S' -> S *)
    assert (Haug : forall k I it, nth_error C k = Some I -> In it I -> head (fst it) = fresh_nt G -> fst it = aug).
    { intros k I it Hk Hin Hh. destruct (reach_spelled G _ (C_nth_reach _ _ Hk)) as [l Hl].
      destruct (Hl _ Hin) as [Hp _]. now apply fresh_head. }
    assert (HA : accept_states tbl).
    { intros s Hs. unfold has_accept in Hs. apply existsb_exists in Hs as [[[s' a] x] [Hin Hx]].
      destruct x; try discriminate. apply Z.eqb_eq in Hx. subst s'. simpl in Hin.
      destruct (Hent _ _ _ Hin) as [k [I [it [Es [Hk [Hit Hcase]]]]]].
      apply Nat2Z.inj in Es. subst k. exists I. split; auto.
      destruct Hcase as [[c [_ [_ Hx]]]|[[Hc [Hh _]]|[_ [_ Hx]]]]; try discriminate.
      pose proof (Haug _ _ _ Hk Hit Hh) as Ef. unfold is_complete in Hc. apply Nat.eqb_eq in Hc.
      rewrite Ef in Hc. simpl in Hc. destruct it as [p d]. simpl in *. subst p d. exact Hit. }
    unfold table_ok. apply andb_true_iff. split; [apply andb_true_iff; split|].
    - (* label of state 0 *)
      destruct C_coll as [[t [E _]] _]. unfold lbl. rewrite E. cbn [map].
      destruct (lp_spec (closure (prods (augment G)) [(aug_prod G, 0)])) as [[E0|[y [Hy E0]]] _]; rewrite E0; auto.
      apply (I0_dots G) in Hy. unfold prefix_of. now rewrite Hy.
    - (* ACTION entries *)
      apply forallb_forall. intros [[s a] x] Hin. simpl in Hin.
      destruct (Hent _ _ _ Hin) as [k [I [it [Es [Hk [Hit Hcase]]]]]]. subst s.
      pose proof (C_nth_reach _ _ Hk) as HI. destruct (reach_spelled G _ HI) as [l Hl].
      destruct (Hl _ Hit) as [Hp [Hle _]].
      destruct Hcase as [[c [Hd [Ea Ex]]]|[[Hc [Hh [Ea Ex]]]|[Hc [Hh Ex]]]]; subst x; unfold action_ok.
      + (* shift *)
        subst a.
        assert (Hne : goto ps I (Tm c) <> []) by (eapply goto_nonempty; eauto).
        assert (Hsym : In (Tm c) syms).
        { unfold syms, symbols_of. apply in_or_app. left. apply in_map. simpl.
          unfold dot_symbol in Hd. apply nth_error_In in Hd.
          destruct Hp as [Hp|Hp]; [rewrite <- Hp in Hd; simpl in Hd; destruct Hd as [Hd|[]]; discriminate|].
          eapply Hvalid; eauto. }
        destruct C_coll as [_ Hclosed].
        destruct (Hclosed I (Tm c) (nth_error_In _ _ Hk) Hsym) as [Hg|[k' Hidx]]; [contradiction|].
        assert (Hst : state_of C (goto ps I (Tm c)) = Z.of_nat k').
        { unfold state_of. fold ps in Hidx. rewrite Hidx. destruct (goto ps I (Tm c)); [contradiction|reflexivity]. }
        rewrite Hst. apply andb_true_iff. split.
        * eapply edge_ok_goto; eauto. lia.
        * destruct (has_accept tbl (Z.of_nat k')) eqn:Eacc; [|reflexivity]. exfalso.
          destruct (HA _ Eacc) as [I' [Hk' Hin']].
          destruct (state_of_spec _ _ _ Hst ltac:(lia)) as [_ [k2 [I2 [E2 [Hk2 Heq]]]]].
          apply Nat2Z.inj in E2. subst k2. rewrite Hk' in Hk2. inversion Hk2; subst I2.
          apply (itemset_eqb_spec _ _ Heq) in Hin'.
          destruct (aug1_origin I (Tm c) HI Hne Hin') as [_ Hx]. discriminate.
      + (* accept *)
        subst a. rewrite (label_nth _ _ Hk).
        pose proof (Haug _ _ _ Hk Hit Hh) as Ef.
        assert (Hit1 : In (aug, 1) I).
        { unfold is_complete in Hc. apply Nat.eqb_eq in Hc. rewrite Ef in Hc. simpl in Hc.
          destruct it as [p d]. simpl in *. now subst p d. }
        destruct k as [|k]; [rewrite C_nth_0 in Hk; inversion Hk; subst I; apply (I0_dots G) in Hit1; discriminate|].
        destruct (C_nth_nonInit _ _ Hk) as [Ip [X [HIp [EI HneI]]]]. fold ps in EI.
        rewrite EI in Hit1, HneI. destruct (aug1_origin Ip X HIp HneI Hit1) as [H0 EX].
        pose proof (reach_aug0 G _ HIp H0) as EIp. subst X.
        assert (Hsp : spelled ps ([] ++ [Nt (start G)]) I).
        { rewrite EI, EIp. apply spelled_goto. apply I0_spelled. }
        destruct (lp_spec I) as [[E|[y [Hy E]]] Hmax].
        * specialize (Hmax _ (eq_ind_r (fun J => In (aug, 1) J) Hit1 EI)). rewrite E in Hmax.
          unfold prefix_of in Hmax. simpl in Hmax. lia.
        * assert (Hm := Hmax _ (eq_ind_r (fun J => In (aug, 1) J) Hit1 EI)).
          unfold prefix_of in Hm at 1. simpl in Hm.
          destruct (Hsp _ Hy) as [_ [_ [pre Hpre]]]. simpl in Hpre.
          rewrite E. rewrite E in Hm.
          destruct pre as [|z pre].
          -- simpl in Hpre. rewrite <- Hpre. simpl. now rewrite Nat.eqb_refl.
          -- apply (f_equal (@length _)) in Hpre. simpl in Hpre. rewrite app_length in Hpre. lia.
      + (* reduce *)
        apply andb_true_iff. split.
        * apply existsb_exists. exists (fst it). split; [|unfold prod_eqb; now rewrite Nat.eqb_refl, str_eqb_refl].
          destruct Hp as [Hp|Hp]; [|exact Hp]. exfalso. apply Hh. now rewrite <- Hp.
        * rewrite (label_nth _ _ Hk). destruct (lp_chain _ _ _ Hl _ Hit) as [pre Hpre].
          rewrite Hpre, (complete_prefix _ Hc). apply is_suffix_complete.
    - (* GOTO entries *)
      apply forallb_forall. intros [[s A] t] Hin. simpl in Hin.
      destruct (raw_gotos r s A t Er Hin) as [k [I [Es [Hk [Et Hpos]]]]]. subst s.
      unfold goto_ok. eapply edge_ok_goto; eauto.
  Qed.
End Main.
