(** C11 — generation of terminal strings by symbols (big-step form of derivations), and the
    completeness of the computed nullable set and FIRST sets w.r.t. it. *)
From Coq Require Import List ZArith Bool Arith Lia.
From Algo.Grammar Require Import CFG.
From Algo.C11 Require Import Model ModelPrec ModelSLR Proofs ProofsSLR ProofsOracle ProofsChain ProofsChain2 ProofsFuel.
Import ListNotations.

Section Gen.
  Variable H : gram.

  (** [gen X u]: the symbol X derives the terminal string u; [gens b u]: the string b derives u *)
  Inductive gen : sym -> list nat -> Prop :=
  | gen_tm t : gen (Tm t) [t]
  | gen_nt p u : In p (prods H) -> gens (body p) u -> gen (Nt (head p)) u
  with gens : list sym -> list nat -> Prop :=
  | gens_nil : gens [] []
  | gens_cons X b u1 u2 : gen X u1 -> gens b u2 -> gens (X :: b) (u1 ++ u2).

  Scheme gen_mind := Induction for gen Sort Prop
    with gens_mind := Induction for gens Sort Prop.
  Combined Scheme gen_gens_ind from gen_mind, gens_mind.

  (** derivations give generations *)
  Lemma derivesN_gens : forall n b u, derivesN H n b (map Tm u) -> gens b u.
  Proof.
    induction n as [n IHn] using lt_wf_ind. intros b. revert n IHn.
    induction b as [|X b IHb]; intros n IHn u Hd.
    - inversion Hd as [|? ? ? ? Hs]; subst.
      + destruct u; [constructor|discriminate].
      + inversion Hs as [v w p Hp E1 E2]. destruct v; discriminate.
    - change (X :: b) with ([X] ++ b) in Hd.
      apply derivesN_app_inv in Hd as [c1 [c2 [m1 [m2 [E [H1 [H2 Hsum]]]]]]].
      apply map_eq_app in E as [u1 [u2 [Eu [E1 E2]]]]. subst u c1 c2.
      constructor.
      + destruct X as [t|A].
        * apply derivesN_terminal in H1 as [H1 _]. destruct u1 as [|t' [|? ?]]; try discriminate.
          inversion H1; subst. constructor.
        * inversion H1 as [E|m y z cc Hs Hd']; subst; [destruct u1; discriminate|].
          inversion Hs as [v w p Hp E1 E2]. destruct v as [|? [|? ?]]; try discriminate.
          simpl in E1. inversion E1; subst A w. simpl in E2. rewrite app_nil_r in E2. subst z.
          apply gen_nt; auto. apply (IHn m); [lia|exact Hd'].
      + apply (IHb m2); [|exact H2]. intros m Hm. apply IHn. lia.
  Qed.

  Lemma L_gen w : L H w -> gen (Nt (start H)) w.
  Proof.
    unfold L. intros Hd. apply derives_derivesN in Hd as [n Hn].
    apply derivesN_gens in Hn. inversion Hn as [|X b u1 u2 Hg Hgs]; subst.
    inversion Hgs; subst. now rewrite app_nil_r.
  Qed.
End Gen.

(** ** the nullable iteration stops at a fixpoint, which is closed under the nullable rule *)

Lemma iter_n_fix {A} (f : A -> A) n : forall x, f x = x -> iter_n n f x = x.
Proof. induction n as [|n IH]; intros x E; simpl; auto. rewrite E. now apply IH. Qed.

Section IterFix.
  Context {A : Type}.
  Variable size : A -> nat.
  Variable f : A -> A.
  Variable inv : A -> Prop.
  Variable M : nat.
  Hypothesis Hinv : forall x, inv x -> inv (f x).
  Hypothesis Hbound : forall x, inv x -> size x <= M.
  Hypothesis Hinfl : forall x, size x <= size (f x).
  Hypothesis Hstab : forall x, size (f x) = size x -> f x = x.

  Lemma iter_n_stable n : forall x, inv x -> M <= size x + n -> f (iter_n n f x) = iter_n n f x.
  Proof.
    induction n as [|n IH]; intros x Hx Hm; simpl.
    - apply Hstab. pose proof (Hbound _ (Hinv _ Hx)). pose proof (Hinfl x). lia.
    - destruct (Nat.eq_dec (size (f x)) (size x)) as [E|E].
      + apply Hstab in E. rewrite E. rewrite (iter_n_fix f n x E). exact E.
      + apply IH; [now apply Hinv|]. pose proof (Hinfl x). lia.
  Qed.
End IterFix.

Section NullFirst.
  Variable H : gram.
  Hypothesis h1 : forall p c, In p (prods H) -> In (Tm c) (body p) -> In c (terms H).
  Let ps := prods H.
  Let nl := nullables H.
  Let fe := firsts H.

  Definition nstep (l : list nat) (p : prod) : list nat := if nullable_str l (body p) then add_nat (head p) l else l.

  Lemma nstep_infl l p : length l <= length (nstep l p).
  Proof.
    unfold nstep. destruct (nullable_str l (body p)); [|lia].
    destruct (in_dec Nat.eq_dec (head p) l) as [Hin|Hin].
    - rewrite (proj1 (add_nat_spec _ _) Hin). lia.
    - rewrite (proj2 (add_nat_spec _ _) Hin). simpl. lia.
  Qed.

  Lemma nstep_stab l p : length (nstep l p) = length l -> nstep l p = l.
  Proof.
    unfold nstep. destruct (nullable_str l (body p)); auto.
    destruct (in_dec Nat.eq_dec (head p) l) as [Hin|Hin].
    - now rewrite (proj1 (add_nat_spec _ _) Hin).
    - rewrite (proj2 (add_nat_spec _ _) Hin). simpl. lia.
  Qed.

  Definition ninv (l : list nat) : Prop := NoDup l /\ incl l (map head ps).

  Lemma nstep_inv l p : In p ps -> ninv l -> ninv (nstep l p).
  Proof.
    intros Hp [H1 H2]. unfold nstep. destruct (nullable_str l (body p)); [|split; auto].
    destruct (in_dec Nat.eq_dec (head p) l) as [Hin|Hin].
    - rewrite (proj1 (add_nat_spec _ _) Hin). split; auto.
    - rewrite (proj2 (add_nat_spec _ _) Hin). split; [now constructor|].
      intros x [Hx|Hx]; [subst; now apply in_map|now apply H2].
  Qed.

  Lemma nullable_pass_eq l : nullable_pass ps l = fold_left nstep ps l.
  Proof. reflexivity. Qed.

  Lemma nullables_fix : nullable_pass ps nl = nl.
  Proof.
    unfold nl, nullables. fold ps.
    apply (iter_n_stable (@length nat) (nullable_pass ps) ninv (length ps)).
    - intros x Hx. rewrite nullable_pass_eq.
      assert (Hgen : forall l y, (forall p, In p l -> In p ps) -> ninv y -> ninv (fold_left nstep l y)).
      { induction l as [|p l IH]; intros y Hl Hy; simpl; auto.
        apply IH; [intros q Hq; apply Hl; now right|]. apply nstep_inv; auto. apply Hl. now left. }
      apply Hgen; auto.
    - intros x [H1 H2]. pose proof (NoDup_incl_len _ _ H1 H2) as Hl. now rewrite map_length in Hl.
    - intros x. rewrite nullable_pass_eq. apply infl_fold. apply nstep_infl.
    - intros x E. rewrite nullable_pass_eq in *.
      apply (stable_fold nstep) in E as [E _]; auto using nstep_infl, nstep_stab.
    - split; [constructor|intros x []].
    - simpl. lia.
  Qed.

  Lemma nullable_rule p : In p ps -> nullable_str nl (body p) = true -> In (head p) nl.
  Proof.
    intros Hp Hn. pose proof nullables_fix as E. rewrite nullable_pass_eq in E.
    assert (El : length (fold_left nstep ps nl) = length nl) by now rewrite E.
    apply (stable_fold nstep) in El as [_ El]; auto using nstep_infl, nstep_stab.
    specialize (El p Hp). unfold nstep in El. rewrite Hn in El.
    destruct (in_dec Nat.eq_dec (head p) nl) as [Hin|Hin]; auto.
    rewrite (proj2 (add_nat_spec _ _) Hin) in El. apply (f_equal (@length _)) in El. simpl in El. lia.
  Qed.

  (** completeness of the nullable set *)
  Lemma nullable_complete :
    (forall X u, gen H X u -> u = [] -> exists A, X = Nt A /\ In A nl) /\
    (forall b u, gens H b u -> u = [] -> nullable_str nl b = true).
  Proof.
    apply gen_gens_ind.
    - intros t E. discriminate.
    - intros p u Hp Hg IH E. exists (head p). split; auto. apply nullable_rule; auto.
    - reflexivity.
    - intros X b u1 u2 Hg IH1 Hgs IH2 E. apply app_eq_nil in E as [E1 E2].
      destruct (IH1 E1) as [A [EX HA]]. subst X. simpl. rewrite (IH2 E2).
      apply mem_nat_In in HA. now rewrite HA.
  Qed.

  (** ** FIRST: closed under its rule at the fixpoint, hence complete *)

  Definition fstep (e : fenv) (p : prod) : fenv := fadd e (head p) (first_str nl e (body p)).

  Lemma first_pass_eq e : first_pass nl ps e = fold_left fstep ps e.
  Proof. reflexivity. Qed.

  Lemma first_rule p : In p ps -> incl (first_str nl fe (body p)) (fget fe (head p)).
  Proof.
    intros Hp.
    assert (Hst : fenv_size (first_pass nl ps fe) = fenv_size fe).
    { unfold fe, nl, ps. apply firsts_stable; auto. }
    rewrite first_pass_eq in Hst.
    (* every step of the pass is the identity *)
    assert (Hgen : forall l e, fenv_size (fold_left fstep l e) = fenv_size e ->
                   forall q, In q l -> incl (first_str nl e (body q)) (fget e (head q))).
    { induction l as [|q0 l IH]; intros e E q Hq; [destruct Hq|]. simpl in E.
      destruct (fadd_spec e (head q0) (first_str nl e (body q0))) as [F1 [_ [_ F4]]].
      assert (Hle : fenv_size (fstep e q0) <= fenv_size (fold_left fstep l (fstep e q0))).
      { clear. generalize (fstep e q0). induction l as [|q1 l IHl]; intros e0; simpl; [lia|].
        destruct (fadd_spec e0 (head q1) (first_str nl e0 (body q1))) as [G1 _]. specialize (IHl (fstep e0 q1)). unfold fstep in *. lia. }
      unfold fstep in *. assert (E0 : fenv_size (fadd e (head q0) (first_str nl e (body q0))) = fenv_size e) by lia.
      destruct (F4 E0) as [E1 E2]. rewrite E1 in E.
      destruct Hq as [Hq|Hq]; [subst q; exact E2|]. apply IH; auto. }
    apply (Hgen ps fe Hst p Hp).
  Qed.

  Definition firstX (X : sym) : list nat := match X with Tm a => [a] | Nt A => fget fe A end.

  Lemma first_str_head X b t : In t (firstX X) -> In t (first_str nl fe (X :: b)).
  Proof.
    destruct X as [a|A]; simpl; auto. intros Ht. destruct (mem_nat A nl); auto.
    destruct (union_nat_spec (fget fe A) (first_str nl fe b)) as [_ [_ [U3 _]]]. now apply U3.
  Qed.

  Lemma first_complete :
    (forall X u, gen H X u -> forall t u', u = t :: u' -> In t (firstX X)) /\
    (forall b u, gens H b u -> forall t u', u = t :: u' -> In t (first_str nl fe b)).
  Proof.
    apply gen_gens_ind.
    - intros t t' u' E. inversion E. now left.
    - intros p u Hp Hg IH t u' E. simpl. apply (first_rule p Hp). eapply IH; eauto.
    - intros t u' E. discriminate.
    - intros X b u1 u2 Hg IH1 Hgs IH2 t u' E.
      destruct u1 as [|t1 u1].
      + simpl in E. destruct (proj1 nullable_complete X [] Hg eq_refl) as [A [EX HA]]. subst X. simpl.
        apply mem_nat_In in HA. rewrite HA.
        destruct (union_nat_spec (fget fe A) (first_str nl fe b)) as [_ [U2 _]]. apply U2. eapply IH2; eauto.
      + simpl in E. inversion E; subst. apply first_str_head. eapply IH1; eauto.
  Qed.
End NullFirst.
