(** C11 — model of parser/lr/precedence.go ([PrecedenceLevels.Precedence], [Compare]) and of
    [ParsingTable.resolveConflict] / [ResolveConflicts] (parser/lr/parsing_table.go), as they are
    after the nil-handle guard in [PrecedenceHandle.Equal].  No proofs in this file.

    The order in which Go iterates over the action set of a cell is random; the list order of
    the [actions] argument plays that role and the theorems quantify over it. *)
From Coq Require Import List ZArith Bool Arith.
From Algo.Grammar Require Import CFG.
From Algo.C11 Require Import Model.
Import ListNotations.

Inductive assoc := ANone | ALeft | ARight.

(** a precedence handle is a terminal or a production *)
Inductive handle := HTerm (a : look) | HProd (p : prod).

Definition handle_eqb (h k : handle) : bool :=
  match h, k with
  | HTerm a, HTerm b => look_eqb a b
  | HProd p, HProd q => prod_eqb p q
  | _, _ => false
  end.

(** nil handles (ACCEPT actions) are equal only to nil *)
Definition ohandle_eqb (h k : option handle) : bool :=
  match h, k with
  | None, None => true
  | Some x, Some y => handle_eqb x y
  | _, _ => false
  end.

Definition level := (assoc * list handle)%type.
Definition levels := list level.

Fixpoint first_terminal (b : list sym) : option nat :=
  match b with
  | [] => None
  | Tm a :: _ => Some a
  | Nt _ :: r => first_terminal r
  end.

(** PrecedenceHandleForProduction *)
Definition handle_of_prod (p : prod) : handle :=
  match first_terminal (body p) with
  | Some a => HTerm (Some a)
  | None => HProd p
  end.

(** the handle resolveConflict attaches to an action of ACTION[s,a] *)
Definition handle_of_action (a : look) (x : action) : option handle :=
  match x with
  | Shift _ => Some (HTerm a)
  | Reduce p => Some (handle_of_prod p)
  | Accept => None
  end.

Definition action_eqb (x y : action) : bool :=
  match x, y with
  | Shift s, Shift t => Z.eqb s t
  | Reduce p, Reduce q => prod_eqb p q
  | Accept, Accept => true
  | _, _ => false
  end.

(** PrecedenceLevels.Precedence: index of the first level that contains the handle *)
Fixpoint precedence_from (i : nat) (ls : levels) (h : option handle) : option (nat * assoc) :=
  match ls with
  | [] => None
  | (a, hs) :: r =>
      if existsb (fun k => ohandle_eqb (Some k) h) hs then Some (i, a) else precedence_from (S i) r h
  end.

Definition precedence (ls : levels) (h : option handle) : option (nat * assoc) := precedence_from 0 ls h.

Definition pair := (action * option handle)%type.

Definition pair_eqb (p q : pair) : bool := action_eqb (fst p) (fst q) && ohandle_eqb (snd p) (snd q).

Definition is_shift (x : action) := match x with Shift _ => true | _ => false end.
Definition is_reduce (x : action) := match x with Reduce _ => true | _ => false end.

(** PrecedenceLevels.Compare: [Some c] with c in {-1,0,1}, or [None] for the error result *)
Definition compare (ls : levels) (l r : pair) : option Z :=
  if pair_eqb l r then Some 0%Z else
  match precedence ls (snd l), precedence ls (snd r) with
  | Some (lo, la), Some (ro, _) =>
      if lo <? ro then Some 1%Z
      else if ro <? lo then Some (-1)%Z
      else match la with
           | ANone => None
           | ALeft =>
               if is_reduce (fst l) && is_shift (fst r) then Some 1%Z
               else if is_shift (fst l) && is_reduce (fst r) then Some (-1)%Z
               else None
           | ARight =>
               if is_shift (fst l) && is_reduce (fst r) then Some 1%Z
               else if is_reduce (fst l) && is_shift (fst r) then Some (-1)%Z
               else None
           end
  | _, _ => None
  end.

(** the max-finding loop of resolveConflict *)
Fixpoint resolve_loop (ls : levels) (ps : list pair) (mx : pair) : option pair :=
  match ps with
  | [] => Some mx
  | p :: r =>
      match compare ls p mx with
      | None => None
      | Some c => resolve_loop ls r (if (0 <? c)%Z then p else mx)
      end
  end.

(** resolveConflict(a, actions): [None] = "cannot determine precedence" *)
Definition resolve_conflict (ls : levels) (a : look) (actions : list action) : option action :=
  let ps := map (fun x => (x, handle_of_action a x)) actions in
  match ps with
  | [] => None
  | p0 :: _ => match resolve_loop ls ps p0 with Some m => Some (fst m) | None => None end
  end.

(** PrecedenceLevels.Verify: no handle in two levels *)
Fixpoint levels_disjoint (ls : levels) : bool :=
  match ls with
  | [] => true
  | (_, hs) :: r =>
      forallb (fun l' => negb (existsb (fun h => existsb (handle_eqb h) (snd l')) hs)) r && levels_disjoint r
  end.

(** ** Specification side for the operator grammars E -> E op E | ( E ) | id:
    how [id o1 id o2 id] must be grouped under the declaration [ls]
    ([Some true] = ((id o1 id) o2 id), [Some false] = (id o1 (id o2 id)), [None] = undetermined). *)
Definition level_of_op (ls : levels) (o : nat) : option (nat * assoc) := precedence ls (Some (HTerm (Some o))).

Definition group_left (ls : levels) (o1 o2 : nat) : option bool :=
  match level_of_op ls o1, level_of_op ls o2 with
  | Some (k1, a1), Some (k2, _) =>
      if k1 <? k2 then Some true
      else if k2 <? k1 then Some false
      else match a1 with ALeft => Some true | ARight => Some false | ANone => None end
  | _, _ => None
  end.
