(** C11 — every table returned by the modelled canonical LR(1) construction (with or without
    precedence resolution) passes the certificate [table_ok].  Same structure as ProofsSLR.v,
    with LR(1) items: the labels depend on the cores (production, dot) only. *)
From Coq Require Import List ZArith Bool Arith Lia.
From Algo.Grammar Require Import CFG.
From Algo.C11 Require Import Model ModelPrec ModelSLR ModelLR1 Proofs ProofsLR0 ProofsSLR.
Import ListNotations.

(** ** LR(1) item sets *)

Lemma item1_eqb_eq i j : item1_eqb i j = true -> i = j.
Proof.
  destruct i as [[p d] a], j as [[q e] b]. unfold item1_eqb, core_of, la_of. simpl. intros H.
  apply andb_true_iff in H as [H1 H2]. apply item_eqb_eq in H1. apply look_eqb_eq in H2.
  inversion H1; now subst.
Qed.

Lemma item1_eqb_refl i : item1_eqb i i = true.
Proof. unfold item1_eqb. now rewrite item_eqb_refl, look_eqb_refl. Qed.

Lemma mem_item1_In i I : mem_item1 i I = true -> In i I.
Proof.
  unfold mem_item1. intros H. apply existsb_exists in H as [j [Hj He]].
  apply item1_eqb_eq in He. now subst.
Qed.

Lemma In_mem_item1 i I : In i I -> mem_item1 i I = true.
Proof. intros H. apply existsb_exists. exists i. split; auto. apply item1_eqb_refl. Qed.

Lemma add_item1_In x i I : In x (add_item1 i I) -> In x I \/ x = i.
Proof.
  unfold add_item1. destruct (mem_item1 i I); auto. rewrite in_app_iff. simpl. intros [H|[H|[]]]; auto.
Qed.

Lemma add_item1_incl i I : incl I (add_item1 i I).
Proof. intros x Hx. unfold add_item1. destruct (mem_item1 i I); auto. apply in_or_app. now left. Qed.

Lemma add_item1_has i I : In i (add_item1 i I).
Proof.
  unfold add_item1. destruct (mem_item1 i I) eqn:E; [now apply mem_item1_In|apply in_or_app; right; now left].
Qed.

Lemma itemset1_eqb_spec I J : itemset1_eqb I J = true -> forall x, In x I <-> In x J.
Proof.
  unfold itemset1_eqb, subset_items1. intros H. apply andb_true_iff in H as [H1 H2].
  rewrite forallb_forall in H1, H2. intros x. split; intros Hx; apply mem_item1_In; auto.
Qed.

Lemma index_of1_spec J : forall C k0 k, index_of1 J C k0 = Some k ->
  k0 <= k /\ exists I, nth_error C (k - k0) = Some I /\ itemset1_eqb I J = true.
Proof.
  induction C as [|I C IH]; intros k0 k H; simpl in H; [discriminate|].
  destruct (itemset1_eqb I J) eqn:E.
  - inversion H; subst. split; [lia|]. rewrite Nat.sub_diag. exists I. auto.
  - apply IH in H as [Hle [I' [Hn He]]]. split; [lia|]. exists I'. split; auto.
    replace (k - k0) with (S (k - S k0)) by lia. exact Hn.
Qed.

Lemma state_of1_spec C J t : state_of1 C J = t -> (0 <= t)%Z ->
  J <> [] /\ exists k I, t = Z.of_nat k /\ nth_error C k = Some I /\ itemset1_eqb I J = true.
Proof.
  unfold state_of1. intros H Ht. destruct J as [|j J]; [subst; lia|].
  split; [discriminate|].
  destruct (index_of1 (j :: J) C 0) as [k|] eqn:E; [|subst; lia].
  apply index_of1_spec in E as [_ [I [Hn He]]]. rewrite Nat.sub_0_r in Hn.
  exists k, I. auto.
Qed.

(** ** CLOSURE for LR(1) items *)

Section Closure1.
  Variable nt : nat.
  Variable nl : list nat.
  Variable fe : fenv.
  Variable ps : list prod.

  Definition all_in1 (I : list item1) : Prop := forall y, In y I -> In (fst (core_of y)) ps.

  Definition step1 (J : list item1) (i : item1) : list item1 :=
    match dot_symbol (core_of i) with
    | Some (Nt B) =>
        let las := first_la nl fe (skipn (S (snd (fst i))) (body (fst (fst i)))) (la_of i) in
        fold_left (fun J' p =>
          if Nat.eqb (head p) B
          then fold_left (fun J'' b => add_item1 (p, 0, b) J'') las J'
          else J') ps J
    | _ => J
    end.

  Lemma closure1_pass_eq I : closure1_pass nl fe ps I = fold_left step1 I I.
  Proof. reflexivity. Qed.

  Lemma las_fold_items p : forall las J x,
    In x (fold_left (fun J'' b => add_item1 (p, 0, b) J'') las J) -> In x J \/ core_of x = (p, 0).
  Proof.
    induction las as [|b las IH]; intros J x H; simpl in H; auto.
    apply IH in H as [H|H]; auto. apply add_item1_In in H as [H|H]; auto. right. now subst.
  Qed.

  Lemma las_fold_incl p : forall las J, incl J (fold_left (fun J'' b => add_item1 (p, 0, b) J'') las J).
  Proof.
    induction las as [|b las IH]; intros J x Hx; simpl; auto. apply IH. now apply add_item1_incl.
  Qed.

  Lemma step1_items J i x : In (fst (core_of i)) ps -> In x (step1 J i) -> In x J \/ fresh2 ps (core_of x).
  Proof.
    intros Hi. unfold step1. destruct (dot_symbol (core_of i)) as [[a|B]|] eqn:Ed; auto.
    set (las := first_la nl fe _ _).
    assert (HB : exists q, In q ps /\ In (Nt B) (body q)).
    { exists (fst (core_of i)). split; auto. unfold dot_symbol in Ed. eapply nth_error_In; eauto. }
    assert (Hgen : forall l J', (forall p, In p l -> In p ps) ->
      In x (fold_left (fun J' p => if Nat.eqb (head p) B then fold_left (fun J'' b => add_item1 (p, 0, b) J'') las J' else J') l J') ->
      In x J' \/ fresh2 ps (core_of x)).
    { induction l as [|p l IH]; intros J' Hl H; simpl in H; auto.
      apply IH in H as [H|H]; auto; [|intros q Hq; apply Hl; now right].
      destruct (Nat.eqb_spec (head p) B) as [E|E]; auto.
      apply las_fold_items in H as [H|H]; auto.
      right. rewrite H. split; [reflexivity|]. split; [apply Hl; now left|]. simpl fst. now rewrite E. }
    apply Hgen. auto.
  Qed.

  Lemma step1_incl J i : incl J (step1 J i).
  Proof.
    unfold step1. destruct (dot_symbol (core_of i)) as [[a|B]|]; try apply incl_refl.
    set (las := first_la nl fe _ _).
    assert (Hgen : forall l J', incl J'
      (fold_left (fun J' p => if Nat.eqb (head p) B then fold_left (fun J'' b => add_item1 (p, 0, b) J'') las J' else J') l J')).
    { induction l as [|p l IH]; intros J' x Hx; simpl; auto.
      apply IH. destruct (Nat.eqb (head p) B); auto. now apply las_fold_incl. }
    apply Hgen.
  Qed.

  Lemma closure1_pass_items I x : all_in1 I -> In x (closure1_pass nl fe ps I) -> In x I \/ fresh2 ps (core_of x).
  Proof.
    intros HI. rewrite closure1_pass_eq.
    assert (Hgen : forall l J, (forall i, In i l -> In (fst (core_of i)) ps) ->
      In x (fold_left step1 l J) -> In x J \/ fresh2 ps (core_of x)).
    { induction l as [|i l IH]; intros J Hl H; simpl in H; auto.
      apply IH in H as [H|H]; auto; [|intros i' Hi'; apply Hl; now right].
      apply step1_items in H; auto. apply Hl. now left. }
    apply Hgen. exact HI.
  Qed.

  Lemma closure1_pass_incl I : incl I (closure1_pass nl fe ps I).
  Proof.
    rewrite closure1_pass_eq.
    assert (Hgen : forall l J, incl J (fold_left step1 l J)).
    { induction l as [|i l IH]; intros J x Hx; simpl; auto. apply IH. now apply step1_incl. }
    apply Hgen.
  Qed.

  Lemma closure1_iter_items fuel : forall I x, all_in1 I ->
    In x (closure1_iter fuel nl fe ps I) -> In x I \/ fresh2 ps (core_of x).
  Proof.
    induction fuel as [|f IH]; intros I x HI H; simpl in H; auto.
    destruct (Nat.eqb (length (closure1_pass nl fe ps I)) (length I)); auto.
    apply IH in H as [H|H]; auto.
    - now apply closure1_pass_items.
    - intros y Hy. apply closure1_pass_items in Hy as [Hy|[_ [Hy _]]]; auto.
  Qed.

  Lemma closure1_iter_incl fuel : forall I, incl I (closure1_iter fuel nl fe ps I).
  Proof.
    induction fuel as [|f IH]; intros I x Hx; simpl; auto.
    destruct (Nat.eqb (length (closure1_pass nl fe ps I)) (length I)); auto.
    apply IH. now apply closure1_pass_incl.
  Qed.

  Lemma closure1_items I x : all_in1 I -> In x (closure1 nt nl fe ps I) -> In x I \/ fresh2 ps (core_of x).
  Proof. apply closure1_iter_items. Qed.

  Lemma closure1_incl I : incl I (closure1 nt nl fe ps I).
  Proof. apply closure1_iter_incl. Qed.

  (** ** GOTO *)

  Lemma goto1_kernel_items X : forall I x, In x (goto1_kernel I X) ->
    exists d, snd (core_of x) = S d /\ In (fst (core_of x), d, la_of x) I /\
              nth_error (body (fst (core_of x))) d = Some X.
  Proof.
    unfold goto1_kernel. intros I.
    assert (Hgen : forall l J x,
      In x (fold_left (fun J i => if sym_eq_opt (dot_symbol (core_of i)) X
                                  then add_item1 (fst (fst i), S (snd (fst i)), la_of i) J else J) l J) ->
      In x J \/ exists d, snd (core_of x) = S d /\ In (fst (core_of x), d, la_of x) l /\
                          nth_error (body (fst (core_of x))) d = Some X).
    { induction l as [|i l IH]; intros J x H; simpl in H; auto.
      apply IH in H as [H|[d [H1 [H2 H3]]]].
      - destruct (sym_eq_opt (dot_symbol (core_of i)) X) eqn:E; auto.
        apply add_item1_In in H as [H|H]; auto.
        right. subst x. exists (snd (fst i)). unfold core_of, la_of. simpl. split; [reflexivity|]. split.
        + left. destruct i as [[p d] a]. reflexivity.
        + unfold sym_eq_opt, dot_symbol, core_of in E. simpl in E.
          destruct (nth_error (body (fst (fst i))) (snd (fst i))) as [Y|]; [|discriminate].
          apply sym_eqb_eq in E. now subst.
      - right. exists d. repeat split; auto. now right. }
    intros x H. apply Hgen in H as [[]|H]. exact H.
  Qed.

  Lemma goto1_kernel_has I X it : In it I -> dot_symbol (core_of it) = Some X ->
    In (fst (fst it), S (snd (fst it)), la_of it) (goto1_kernel I X).
  Proof.
    intros Hin Hd. unfold goto1_kernel.
    set (nx := (fst (fst it), S (snd (fst it)), la_of it)).
    assert (Hgen : forall l J, (In it l \/ In nx J) ->
      In nx (fold_left (fun J i => if sym_eq_opt (dot_symbol (core_of i)) X
                                   then add_item1 (fst (fst i), S (snd (fst i)), la_of i) J else J) l J)).
    { induction l as [|i l IH]; intros J H; simpl.
      - destruct H as [[]|H]; exact H.
      - apply IH. destruct H as [[H|H]|H].
        + subst i. right. unfold sym_eq_opt. rewrite Hd, sym_eqb_refl. apply add_item1_has.
        + now left.
        + right. destruct (sym_eq_opt (dot_symbol (core_of i)) X); auto. now apply add_item1_incl. }
    apply Hgen. now left.
  Qed.

  (** ** access strings, on cores *)

  Definition spelled1 (l : list sym) (I : list item1) : Prop :=
    forall x, In x I -> In (fst (core_of x)) ps /\ snd (core_of x) <= length (body (fst (core_of x))) /\
                        exists pre, l = pre ++ prefix_of (core_of x).

  Lemma spelled1_all_in l I : spelled1 l I -> all_in1 I.
  Proof. intros H y Hy. now destruct (H y Hy). Qed.

  Lemma spelled1_closure l I : spelled1 l I -> spelled1 l (closure1 nt nl fe ps I).
  Proof.
    intros H x Hx. apply closure1_items in Hx as [Hx|[H0 [Hp _]]]; auto; [|eapply spelled1_all_in; eauto].
    split; [exact Hp|]. split; [lia|]. exists l. unfold prefix_of. rewrite H0. simpl. now rewrite app_nil_r.
  Qed.
End Closure1.

(** ** the canonical LR(1) collection *)

Section Collection1.
  Variable G : gram.
  Let c := ctx_of G.
  Let ps := prods (augment G).
  Let aug := aug_prod G.
  Let cl := closure1 (c_nterms c) (c_nl c) (c_fe c) (c_ps c).
  Let I0 := cl [(aug, 0, None)].
  Variable syms : list sym.

  Lemma c_ps_eq : c_ps c = ps.
  Proof. reflexivity. Qed.

  Lemma goto1_nonempty_kernel I X : goto1 c I X <> [] -> goto1 c I X = cl (goto1_kernel I X) /\ goto1_kernel I X <> [].
  Proof.
    unfold goto1. destruct (goto1_kernel I X) as [|k K]; [congruence|]. intros _. split; [reflexivity|discriminate].
  Qed.

  Lemma I0_dots1 x : In x I0 -> snd (core_of x) = 0.
  Proof.
    intros H. apply (closure1_items _ _ _ ps) in H as [[H|[]]|[H _]]; [now subst|exact H|].
    intros y [Hy|[]]. subst y. now left.
  Qed.

  Lemma I0_spelled1 : spelled1 ps [] I0.
  Proof.
    apply (spelled1_closure _ _ _ ps). intros x [Hx|[]]. subst x. unfold core_of. simpl.
    split; [now left|]. split; [lia|]. exists []. reflexivity.
  Qed.

  Lemma spelled1_goto l I X : spelled1 ps l I -> spelled1 ps (l ++ [X]) (goto1 c I X).
  Proof.
    intros H. unfold goto1. destruct (goto1_kernel I X) as [|k K] eqn:E.
    - intros x [].
    - apply (spelled1_closure _ _ _ ps). rewrite <- E. intros x Hx.
      apply goto1_kernel_items in Hx as [d [Hd [Hin Hn]]].
      destruct (H _ Hin) as [Hp [Hle [pre Hl]]]. unfold core_of in Hp, Hle, Hl. simpl in Hp, Hle, Hl.
      split; [exact Hp|]. split.
      + rewrite Hd. apply nth_error_Some. congruence.
      + exists pre. unfold prefix_of in *. simpl in Hl. rewrite Hd, (firstn_S_nth _ _ _ Hn), Hl.
        now rewrite app_assoc.
  Qed.

  Inductive reach1 : list item1 -> Prop :=
  | reach1_0 : reach1 I0
  | reach1_S I X : reach1 I -> goto1 c I X <> [] -> reach1 (goto1 c I X).

  Definition nonInit1 (J : list item1) : Prop := exists I X, reach1 I /\ J = goto1 c I X /\ J <> [].

  Lemma nonInit1_reach J : nonInit1 J -> reach1 J.
  Proof. intros [I [X [H1 [H2 H3]]]]. subst J. now constructor. Qed.

  Lemma reach1_spelled I : reach1 I -> exists l, spelled1 ps l I.
  Proof.
    induction 1 as [|I X HI [l Hl] Hne].
    - exists []. apply I0_spelled1.
    - exists (l ++ [X]). now apply spelled1_goto.
  Qed.

  Lemma goto1_items I X : reach1 I -> goto1 c I X <> [] -> forall x, In x (goto1 c I X) ->
    (exists d, snd (core_of x) = S d /\ In (fst (core_of x), d, la_of x) I /\
               nth_error (body (fst (core_of x))) d = Some X) \/ fresh2 ps (core_of x).
  Proof.
    intros HI Hne x Hx. destruct (goto1_nonempty_kernel _ _ Hne) as [E _]. rewrite E in Hx.
    destruct (reach1_spelled _ HI) as [l Hl].
    apply (closure1_items _ _ _ ps) in Hx as [Hx|Hx]; auto.
    - left. now apply goto1_kernel_items.
    - intros y Hy. apply goto1_kernel_items in Hy as [d [_ [Hin _]]].
      now destruct (Hl _ Hin).
  Qed.

  Lemma nonInit1_no_aug0 J a : nonInit1 J -> ~ In (aug, 0, a) J.
  Proof.
    intros [I [X [HI [HJ Hne]]]] Hin. subst J.
    destruct (goto1_items I X HI Hne _ Hin) as [[d [Hd _]]|Hf]; [unfold core_of in Hd; simpl in Hd; discriminate|].
    now apply (fresh2_not_aug G _ Hf).
  Qed.

  Lemma nonInit1_kernel_item J : nonInit1 J -> exists x, In x J /\ snd (core_of x) <> 0.
  Proof.
    intros [I [X [HI [HJ Hne]]]]. rewrite HJ in Hne. destruct (goto1_nonempty_kernel _ _ Hne) as [E Hk].
    destruct (goto1_kernel I X) as [|k K] eqn:Ek; [congruence|].
    exists k. split.
    - rewrite HJ, E. apply closure1_incl. now left.
    - assert (Hin : In k (goto1_kernel I X)) by (rewrite Ek; now left).
      apply goto1_kernel_items in Hin as [d [Hd _]]. lia.
  Qed.

  Definition coll1 (C : list (list item1)) : Prop := exists t, C = I0 :: t /\ Forall nonInit1 t.

  Lemma coll1_reach C : coll1 C -> forall I, In I C -> reach1 I.
  Proof.
    intros [t [E Ht]] I HI. subst C. destruct HI as [HI|HI]; [subst; constructor|].
    rewrite Forall_forall in Ht. apply nonInit1_reach. now apply Ht.
  Qed.

  Definition inner_step1 (I : list item1) (C : list (list item1)) (X : sym) : list (list item1) :=
    match goto1 c I X with
    | [] => C
    | J => match index_of1 J C 0 with Some _ => C | None => C ++ [J] end
    end.

  Definition outer_step1 (C : list (list item1)) (I : list item1) : list (list item1) :=
    fold_left (inner_step1 I) syms C.

  Lemma canonical1_pass_eq C : canonical1_pass c syms C = fold_left outer_step1 C C.
  Proof. reflexivity. Qed.

  Lemma inner_step1_infl I C X : length C <= length (inner_step1 I C X).
  Proof.
    unfold inner_step1. destruct (goto1 c I X); [lia|]. destruct (index_of1 _ C 0); [lia|].
    rewrite app_length. simpl. lia.
  Qed.

  Lemma inner_step1_stab I C X : length (inner_step1 I C X) = length C -> inner_step1 I C X = C.
  Proof.
    unfold inner_step1. destruct (goto1 c I X); auto. destruct (index_of1 _ C 0); auto.
    rewrite app_length. simpl. lia.
  Qed.

  Lemma outer_step1_infl C I : length C <= length (outer_step1 C I).
  Proof. apply infl_fold. intros. apply inner_step1_infl. Qed.

  Lemma outer_step1_stab C I : length (outer_step1 C I) = length C -> outer_step1 C I = C.
  Proof.
    intros H. apply (stable_fold (inner_step1 I)) in H as [H _]; auto.
    - intros. apply inner_step1_infl.
    - intros. now apply inner_step1_stab.
  Qed.

  Lemma inner_step1_coll I C X : reach1 I -> coll1 C -> coll1 (inner_step1 I C X).
  Proof.
    intros HI [t [E Ht]]. unfold inner_step1. destruct (goto1 c I X) as [|j J] eqn:Eg; [exists t; auto|].
    destruct (index_of1 (j :: J) C 0); [exists t; auto|].
    exists (t ++ [j :: J]). split; [subst C; reflexivity|].
    apply Forall_app. split; auto. constructor; [|constructor].
    exists I, X. rewrite Eg. repeat split; auto. discriminate.
  Qed.

  Lemma outer_step1_coll C I : reach1 I -> coll1 C -> coll1 (outer_step1 C I).
  Proof.
    intros HI. unfold outer_step1. revert C. induction syms as [|X l IH]; intros C HC; simpl; auto.
    apply IH. now apply inner_step1_coll.
  Qed.

  Lemma canonical1_pass_coll C : coll1 C -> coll1 (canonical1_pass c syms C).
  Proof.
    intros HC. rewrite canonical1_pass_eq.
    assert (Hgen : forall l C', (forall I, In I l -> reach1 I) -> coll1 C' -> coll1 (fold_left outer_step1 l C')).
    { induction l as [|I l IH]; intros C' Hl HC'; simpl; auto.
      apply IH; [intros J HJ; apply Hl; now right|]. apply outer_step1_coll; auto. apply Hl. now left. }
    apply Hgen; auto. apply coll1_reach. exact HC.
  Qed.

  Definition closed_coll1 (C : list (list item1)) : Prop :=
    forall I X, In I C -> In X syms -> goto1 c I X = [] \/ exists k, index_of1 (goto1 c I X) C 0 = Some k.

  Lemma canonical1_iter_result fuel : forall C C',
    coll1 C -> canonical1_iter fuel c syms C = Some C' -> coll1 C' /\ closed_coll1 C'.
  Proof.
    induction fuel as [|f IH]; intros C C' HC H; simpl in H; [discriminate|].
    destruct (Nat.eqb_spec (length (canonical1_pass c syms C)) (length C)) as [E|E].
    - inversion H; subst C'. split; [exact HC|].
      rewrite canonical1_pass_eq in E.
      apply (stable_fold outer_step1) in E as [_ E]; [|apply outer_step1_infl|apply outer_step1_stab].
      intros I X HI HX. specialize (E I HI). unfold outer_step1 in E.
      assert (E' : length (fold_left (inner_step1 I) syms C) = length C) by now rewrite E.
      apply (stable_fold (inner_step1 I)) in E' as [_ E']; [|intros; apply inner_step1_infl|intros; now apply inner_step1_stab].
      specialize (E' X HX). unfold inner_step1 in E'.
      destruct (goto1 c I X) as [|j J]; [now left|]. right.
      destruct (index_of1 (j :: J) C 0) as [k|]; [eauto|].
      exfalso. apply (f_equal (@length _)) in E'. rewrite app_length in E'. simpl in E'. lia.
    - eapply IH; [|exact H]. now apply canonical1_pass_coll.
  Qed.
End Collection1.

(** ** labels on cores *)

Definition lp1 (I : list item1) : list sym := lp (map core_of I).

Lemma lp1_spec I :
  (lp1 I = [] \/ exists x, In x I /\ lp1 I = prefix_of (core_of x)) /\
  forall x, In x I -> length (prefix_of (core_of x)) <= length (lp1 I).
Proof.
  unfold lp1. destruct (lp_spec (map core_of I)) as [H1 H2]. split.
  - destruct H1 as [H1|[y [Hy H1]]]; auto. right. apply in_map_iff in Hy as [x [E Hx]]. subst y. eauto.
  - intros x Hx. apply H2. now apply in_map.
Qed.

Lemma lp1_chain ps l I : spelled1 ps l I -> forall x, In x I -> exists pre, lp1 I = pre ++ prefix_of (core_of x).
Proof.
  intros Hs x Hx. destruct (lp1_spec I) as [[E|[y [Hy E]]] Hmax].
  - specialize (Hmax x Hx). rewrite E in Hmax. simpl in Hmax.
    destruct (prefix_of (core_of x)); [|simpl in Hmax; lia]. exists []. now rewrite E.
  - destruct (Hs y Hy) as [_ [_ [p1 H1]]]. destruct (Hs x Hx) as [_ [_ [p2 H2]]].
    rewrite E. eapply suffix_chain; eauto. rewrite <- E. now apply Hmax.
Qed.

(** ** the theorem *)

Section Main1.
  Variable G : gram.
  Hypothesis Hvalid : forall p c, In p (prods G) -> In (Tm c) (body p) -> In c (terms G).
  Variable fuel : nat.
  Variable C : list (list item1).
  Hypothesis HC : canonical1 fuel G = Some C.

  Let c := ctx_of G.
  Let ps := prods (augment G).
  Let aug := aug_prod G.
  Let syms := symbols_of (augment G).
  Let I0 := closure1 (c_nterms c) (c_nl c) (c_fe c) (c_ps c) [(aug, 0, None)].
  Let lbl := map lp1 C.

  Lemma C1_coll : coll1 G C /\ closed_coll1 G syms C.
  Proof.
    unfold canonical1 in HC. eapply canonical1_iter_result; [|exact HC].
    exists []. split; [reflexivity|constructor].
  Qed.

  Lemma C1_nth_reach k I : nth_error C k = Some I -> reach1 G I.
  Proof. intros H. eapply coll1_reach; [apply C1_coll|]. eapply nth_error_In; eauto. Qed.

  Lemma C1_nth_0 : nth_error C 0 = Some I0.
  Proof. destruct C1_coll as [[t [E _]] _]. now rewrite E. Qed.

  Lemma C1_nth_nonInit k I : nth_error C (S k) = Some I -> nonInit1 G I.
  Proof.
    destruct C1_coll as [[t [E Ht]] _]. rewrite E. simpl. intros H.
    rewrite Forall_forall in Ht. apply Ht. eapply nth_error_In; eauto.
  Qed.

  Lemma label1_nth k I : nth_error C k = Some I -> label_of lbl (Z.of_nat k) = Some (lp1 I).
  Proof.
    intros H. unfold label_of, lbl.
    assert (E : (Z.of_nat k <? 0)%Z = false) by (apply Z.ltb_ge; lia). rewrite E.
    rewrite Nat2Z.id. now rewrite nth_error_map, H.
  Qed.

  Lemma goto1_nonempty I X it : In it I -> dot_symbol (core_of it) = Some X -> goto1 c I X <> [].
  Proof.
    intros Hin Hd. pose proof (goto1_kernel_has I X it Hin Hd) as Hk.
    unfold goto1. destruct (goto1_kernel I X) as [|k K] eqn:E; [destruct Hk|].
    intros Hc. assert (Hi : In k (closure1 (c_nterms c) (c_nl c) (c_fe c) (c_ps c) (k :: K))) by (apply closure1_incl; now left).
    rewrite Hc in Hi. destruct Hi.
  Qed.

  Definition accept_states1 (tbl : table) : Prop :=
    forall s, has_accept tbl (Z.of_nat s) = true -> exists I' a, nth_error C s = Some I' /\ In (aug, 1, a) I'.

  Lemma aug1_origin1 I X a : reach1 G I -> goto1 c I X <> [] -> In (aug, 1, a) (goto1 c I X) ->
    In (aug, 0, a) I /\ X = Nt (start G).
  Proof.
    intros HI Hne Hin. destruct (goto1_items G I X HI Hne _ Hin) as [[d [Hd [Hi Hn]]]|Hf].
    - unfold core_of, la_of in *. simpl in *. inversion Hd; subst d. simpl in Hn. inversion Hn. auto.
    - exfalso. now apply (fresh2_not_aug G _ Hf).
  Qed.

  Lemma edge_ok_goto1 tbl k I X t : accept_states1 tbl ->
    nth_error C k = Some I -> state_of1 C (goto1 c I X) = t -> (0 <= t)%Z ->
    edge_ok tbl lbl (Z.of_nat k) X t = true.
  Proof.
    intros HA Hk Ht Hpos.
    destruct (state_of1_spec _ _ _ Ht Hpos) as [Hne [k' [I' [Et [Hk' Heq]]]]]. rewrite Et.
    pose proof (C1_nth_reach _ _ Hk) as HI.
    pose proof (itemset1_eqb_spec _ _ Heq) as Hset.
    unfold edge_ok. rewrite (label1_nth _ _ Hk), (label1_nth _ _ Hk').
    apply andb_true_iff. split; [apply andb_true_iff; split|].
    - apply negb_true_iff. apply Z.eqb_neq. intros E. assert (k' = 0) by lia. subst k'.
      rewrite C1_nth_0 in Hk'. inversion Hk'; subst I'.
      destruct (nonInit1_kernel_item G (goto1 c I X)) as [x [Hx Hs]].
      { exists I, X. auto. }
      apply Hset in Hx. apply (I0_dots1 G) in Hx. contradiction.
    - destruct (reach1_spelled G _ HI) as [l Hl].
      destruct (lp1_spec I') as [[E|[y [Hy E]]] _].
      + rewrite E. rewrite <- (app_nil_r (lp1 I ++ [X])). apply is_suffix_complete.
      + apply Hset in Hy. destruct (goto1_items G I X HI Hne _ Hy) as [[d [Hd [Hi Hn]]]|[Hf _]].
        * destruct (lp1_chain _ _ _ Hl _ Hi) as [pre Hpre].
          rewrite E. unfold prefix_of at 1. rewrite Hd, (firstn_S_nth _ _ _ Hn).
          rewrite Hpre. unfold prefix_of, core_of. simpl fst. simpl snd. rewrite <- app_assoc. apply is_suffix_complete.
        * rewrite E. unfold prefix_of. rewrite Hf. simpl.
          rewrite <- (app_nil_r (lp1 I ++ [X])). apply is_suffix_complete.
    - destruct (has_accept tbl (Z.of_nat k')) eqn:Ea; [|reflexivity]. simpl.
      destruct (HA _ Ea) as [I'' [a [Hk'' Hin]]]. rewrite Hk' in Hk''. inversion Hk''; subst I''.
      apply Hset in Hin. destruct (aug1_origin1 I X a HI Hne Hin) as [H0 _].
      destruct k as [|k]; [reflexivity|]. exfalso.
      exact (nonInit1_no_aug0 G _ a (C1_nth_nonInit _ _ Hk) H0).
  Qed.

  Definition contributed1 (s : Z) (a : look) (x : action) : Prop :=
    exists k I it, s = Z.of_nat k /\ nth_error C k = Some I /\ In it I /\
      ((exists t, dot_symbol (core_of it) = Some (Tm t) /\ a = Some t /\ x = Shift (state_of1 C (goto1 c I (Tm t)))) \/
       (is_complete (core_of it) = true /\ head (fst (fst it)) = fresh_nt G /\ a = None /\ x = Accept) \/
       (is_complete (core_of it) = true /\ head (fst (fst it)) <> fresh_nt G /\ x = Reduce (fst (fst it)))).

  Lemma item1_actions_ok k I cells it : nth_error C k = Some I -> In it I ->
    cells_ok contributed1 cells ->
    cells_ok contributed1 (item1_actions G (fun X => state_of1 C (goto1 c I X)) (Z.of_nat k) cells it).
  Proof.
    intros Hk Hin Hc. unfold item1_actions.
    set (c1 := match dot_symbol (core_of it) with
               | Some (Tm a) => cell_add cells (Z.of_nat k) (Some a) (Shift (state_of1 C (goto1 c I (Tm a))))
               | _ => cells end).
    assert (Hc1 : cells_ok contributed1 c1).
    { unfold c1. destruct (dot_symbol (core_of it)) as [[a|A]|] eqn:Ed; auto.
      apply cell_add_ok; auto. exists k, I, it. repeat split; auto. left. exists a. auto. }
    destruct (is_complete (core_of it)) eqn:Ec; auto.
    destruct (Nat.eqb_spec (head (fst (fst it))) (fresh_nt G)) as [Eh|Eh].
    - destruct (la_of it) eqn:El; auto.
      apply cell_add_ok; auto. exists k, I, it. repeat split; auto. right. left. auto.
    - apply cell_add_ok; auto. exists k, I, it. repeat split; auto; try (right; right; auto).
  Qed.

  Lemma idx1_spec s I : In (s, I) (combine (map Z.of_nat (seq 0 (length C))) C) ->
    exists k, s = Z.of_nat k /\ nth_error C k = Some I.
  Proof. intros H. apply combine_seq_In in H as [k [H1 H2]]. exists k. auto. Qed.

  Lemma raw1_cells_ok r : clr_raw fuel G = Some r -> cells_ok contributed1 (r_action r).
  Proof.
    unfold clr_raw. rewrite HC. intros H. inversion H; subst r; clear H. cbn [r_action].
    apply fold_cells_ok; [|intros s a l x []].
    intros cells [s I] Hin Hc. apply idx1_spec in Hin as [k [Es Hk]]. subst s. cbn [fst snd].
    apply fold_cells_ok; auto. intros cells' it Hit Hc'. now apply item1_actions_ok.
  Qed.

  Lemma raw1_gotos r s A t : clr_raw fuel G = Some r -> In (s, A, t) (r_goto r) ->
    exists k I, s = Z.of_nat k /\ nth_error C k = Some I /\ t = state_of1 C (goto1 c I (Nt A)) /\ (0 <= t)%Z.
  Proof.
    unfold clr_raw. rewrite HC. intros H. inversion H; subst r; clear H. cbn [r_goto].
    intros Hin. apply in_flat_map in Hin as [[s' I] [Hidx Hin]].
    apply in_flat_map in Hin as [A' [_ Hin]]. cbn [fst snd] in Hin.
    apply idx1_spec in Hidx as [k [Es Hk]]. subst s'.
    fold c in Hin.
    destruct (state_of1 C (goto1 c I (Nt A'))) as [|p|p] eqn:E; simpl in Hin.
    - destruct Hin as [Hin|[]]. inversion Hin; subst. exists k, I. rewrite E. repeat split; auto. lia.
    - destruct Hin as [Hin|[]]. inversion Hin; subst. exists k, I. rewrite E. repeat split; auto. lia.
    - destruct Hin.
  Qed.

  Theorem clr_table_ok ls tbl : build_clr fuel G ls = BuiltOk tbl -> table_ok G tbl lbl = true.
  Proof.
    unfold build_clr, finish. destruct (clr_raw fuel G) as [r|] eqn:Er; [|discriminate].
    destruct (negb (levels_disjoint ls)); [discriminate|].
    destruct (resolve_cells ls (r_action r)) as [acts confl] eqn:Ec.
    destruct confl; [|discriminate]. intros H. inversion H; subst tbl; clear H.
    pose proof (raw1_cells_ok r Er) as Hraw.
    assert (Hent : forall s a x, In (s, a, x) acts -> contributed1 s a x).
    { intros s a x Hin. assert (Hin' : In (s, a, x) (fst (resolve_cells ls (r_action r)))) by now rewrite Ec.
      apply resolve_cells_In in Hin' as [l [H1 H2]]. eapply Hraw; eauto. }
    set (tbl := mkTable acts (r_goto r)).
    assert (Haug : forall k I it, nth_error C k = Some I -> In it I -> head (fst (fst it)) = fresh_nt G -> fst (fst it) = aug).
    { intros k I it Hk Hin Hh. destruct (reach1_spelled G _ (C1_nth_reach _ _ Hk)) as [l Hl].
      destruct (Hl _ Hin) as [Hp _]. now apply fresh_head. }
    assert (Haug1 : forall k I it, nth_error C k = Some I -> In it I -> head (fst (fst it)) = fresh_nt G ->
                    is_complete (core_of it) = true -> it = (aug, 1, la_of it)).
    { intros k I it Hk Hin Hh Hc. pose proof (Haug _ _ _ Hk Hin Hh) as Ef.
      unfold is_complete, core_of in Hc. simpl in Hc. apply Nat.eqb_eq in Hc. rewrite Ef in Hc. simpl in Hc.
      destruct it as [[p d] a]. unfold la_of. simpl in *. now subst p d. }
    assert (HA : accept_states1 tbl).
    { intros s Hs. unfold has_accept in Hs. apply existsb_exists in Hs as [[[s' a] x] [Hin Hx]].
      destruct x; try discriminate. apply Z.eqb_eq in Hx. subst s'. simpl in Hin.
      destruct (Hent _ _ _ Hin) as [k [I [it [Es [Hk [Hit Hcase]]]]]].
      apply Nat2Z.inj in Es. subst k. exists I, (la_of it). split; auto.
      destruct Hcase as [[t [_ [_ Hx]]]|[[Hc [Hh _]]|[_ [_ Hx]]]]; try discriminate.
      rewrite <- (Haug1 _ _ _ Hk Hit Hh Hc). exact Hit. }
    unfold table_ok. apply andb_true_iff. split; [apply andb_true_iff; split|].
    - destruct C1_coll as [[t [E _]] _]. unfold lbl. rewrite E. cbn [map].
      match goal with |- context [lp1 ?J] => destruct (lp1_spec J) as [[E0|[y [Hy E0]]] _]; rewrite E0; auto end.
      apply (I0_dots1 G) in Hy. unfold prefix_of. now rewrite Hy.
    - apply forallb_forall. intros [[s a] x] Hin. simpl in Hin.
      destruct (Hent _ _ _ Hin) as [k [I [it [Es [Hk [Hit Hcase]]]]]]. subst s.
      pose proof (C1_nth_reach _ _ Hk) as HI. destruct (reach1_spelled G _ HI) as [l Hl].
      destruct (Hl _ Hit) as [Hp [Hle _]].
      destruct Hcase as [[t [Hd [Ea Ex]]]|[[Hc [Hh [Ea Ex]]]|[Hc [Hh Ex]]]]; subst x; unfold action_ok.
      + subst a.
        assert (Hne : goto1 c I (Tm t) <> []) by (eapply goto1_nonempty; eauto).
        assert (Hsym : In (Tm t) syms).
        { unfold syms, symbols_of. apply in_or_app. left. apply in_map. simpl.
          unfold dot_symbol in Hd. apply nth_error_In in Hd.
          destruct Hp as [Hp|Hp]; [rewrite <- Hp in Hd; simpl in Hd; destruct Hd as [Hd|[]]; discriminate|].
          eapply Hvalid; eauto. }
        destruct C1_coll as [_ Hclosed].
        destruct (Hclosed I (Tm t) (nth_error_In _ _ Hk) Hsym) as [Hg|[k' Hidx]]; [contradiction|].
        assert (Hst : state_of1 C (goto1 c I (Tm t)) = Z.of_nat k').
        { unfold state_of1. fold c in Hidx. rewrite Hidx. destruct (goto1 c I (Tm t)); [contradiction|reflexivity]. }
        rewrite Hst. apply andb_true_iff. split.
        * eapply edge_ok_goto1; eauto. lia.
        * destruct (has_accept tbl (Z.of_nat k')) eqn:Eacc; [|reflexivity]. exfalso.
          destruct (HA _ Eacc) as [I' [a' [Hk' Hin']]].
          destruct (state_of1_spec _ _ _ Hst ltac:(lia)) as [_ [k2 [I2 [E2 [Hk2 Heq]]]]].
          apply Nat2Z.inj in E2. subst k2. rewrite Hk' in Hk2. inversion Hk2; subst I2.
          apply (itemset1_eqb_spec _ _ Heq) in Hin'.
          destruct (aug1_origin1 I (Tm t) a' HI Hne Hin') as [_ Hx]. discriminate.
      + subst a. rewrite (label1_nth _ _ Hk).
        pose proof (Haug1 _ _ _ Hk Hit Hh Hc) as Eit.
        assert (Hit1 : In (aug, 1, la_of it) I) by (rewrite <- Eit; exact Hit).
        destruct k as [|k]; [rewrite C1_nth_0 in Hk; inversion Hk; subst I; apply (I0_dots1 G) in Hit1; discriminate|].
        destruct (C1_nth_nonInit _ _ Hk) as [Ip [X [HIp [EI HneI]]]]. fold c in EI.
        rewrite EI in Hit1, HneI. destruct (aug1_origin1 Ip X _ HIp HneI Hit1) as [H0 EX].
        assert (EIp : Ip = I0).
        { inversion HIp as [|I' X' HI' Hne' E']; [reflexivity|]. exfalso.
          apply (nonInit1_no_aug0 G Ip (la_of it)); [|exact H0]. exists I', X'. subst Ip. auto. }
        subst X.
        assert (Hsp : spelled1 ps ([] ++ [Nt (start G)]) I).
        { rewrite EI, EIp. apply spelled1_goto. apply I0_spelled1. }
        assert (HitI : In (aug, 1, la_of it) I) by (rewrite EI; exact Hit1).
        destruct (lp1_spec I) as [[E|[y [Hy E]]] Hmax].
        * specialize (Hmax _ HitI). rewrite E in Hmax. unfold prefix_of, core_of in Hmax. simpl in Hmax. lia.
        * assert (Hm := Hmax _ HitI). unfold prefix_of in Hm at 1. unfold core_of in Hm. simpl in Hm.
          destruct (Hsp _ Hy) as [_ [_ [pre Hpre]]]. simpl in Hpre.
          rewrite E. rewrite E in Hm.
          destruct pre as [|z pre].
          -- simpl in Hpre. rewrite <- Hpre. simpl. now rewrite Nat.eqb_refl.
          -- apply (f_equal (@length _)) in Hpre. simpl in Hpre. rewrite app_length in Hpre. lia.
      + apply andb_true_iff. split.
        * apply existsb_exists. exists (fst (fst it)). split; [|unfold prod_eqb; now rewrite Nat.eqb_refl, str_eqb_refl].
          destruct Hp as [Hp|Hp]; [|exact Hp]. exfalso. apply Hh. unfold core_of in Hp. simpl in Hp. now rewrite <- Hp.
        * rewrite (label1_nth _ _ Hk). destruct (lp1_chain _ _ _ Hl _ Hit) as [pre Hpre].
          rewrite Hpre. unfold prefix_of. unfold is_complete in Hc. apply Nat.eqb_eq in Hc. rewrite Hc.
          rewrite firstn_all. unfold core_of. simpl. apply is_suffix_complete.
    - apply forallb_forall. intros [[s A] t] Hin. simpl in Hin.
      destruct (raw1_gotos r s A t Er Hin) as [k [I [Es [Hk [Et Hpos]]]]]. subst s.
      unfold goto_ok. eapply edge_ok_goto1; eauto.
  Qed.
End Main1.
