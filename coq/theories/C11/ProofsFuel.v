(** C11 — the fuels of the round-robin fixpoints (nullable, FIRST, FOLLOW) suffice: the iterations
    stop at a fixpoint, for every grammar whose body symbols are declared and whose
    non-terminals all have a production. *)
From Coq Require Import List ZArith Bool Arith Lia.
From Algo.Grammar Require Import CFG.
From Algo.C11 Require Import Model ModelPrec ModelSLR Proofs ProofsSLR ProofsChain ProofsChain2.
Import ListNotations.

(** ** generic: a size-bounded inflationary iteration stops at a fixpoint *)

Section FixSize.
  Context {A : Type}.
  Variable size : A -> nat.
  Variable f : A -> A.
  Variable inv : A -> Prop.
  Variable M : nat.
  Hypothesis Hinv : forall x, inv x -> inv (f x).
  Hypothesis Hbound : forall x, inv x -> size x <= M.
  Hypothesis Hinfl : forall x, size x <= size (f x).

  Lemma fix_size_stable fuel : forall x, inv x -> M < size x + fuel ->
    inv (fix_size fuel size f x) /\ size (f (fix_size fuel size f x)) = size (fix_size fuel size f x).
  Proof.
    induction fuel as [|k IH]; intros x Hx Hm.
    - pose proof (Hbound x Hx). lia.
    - simpl. destruct (Nat.eqb_spec (size (f x)) (size x)) as [E|E]; [auto|].
      apply IH; [now apply Hinv|]. pose proof (Hinfl x). lia.
  Qed.
End FixSize.

Lemma NoDup_incl_len {A} (l l' : list A) : NoDup l -> incl l l' -> length l <= length l'.
Proof. apply NoDup_incl_length. Qed.

(** ** FOLLOW environments *)

Section LInv.
  Variable KEYS : list nat.
  Variable VALS : list look.

  Definition linv (e : lenv) : Prop :=
    NoDup (map fst e) /\ incl (map fst e) KEYS /\ forall B l, In (B, l) e -> NoDup l /\ incl l VALS.

  Lemma ltotal_bound e : (forall B l, In (B, l) e -> NoDup l /\ incl l VALS) -> ltotal e <= length e * length VALS.
  Proof.
    induction e as [|[B l] e IH]; intros H; [unfold ltotal; simpl; lia|].
    rewrite ltotal_cons. simpl.
    destruct (H B l (or_introl eq_refl)) as [H1 H2]. pose proof (NoDup_incl_len _ _ H1 H2).
    assert (IH' := IH (fun B' l' Hin => H B' l' (or_intror Hin))). lia.
  Qed.

  Lemma linv_size e : linv e -> lenv_size e <= length KEYS * S (length VALS).
  Proof.
    intros [H1 [H2 H3]]. rewrite lenv_size_eq. pose proof (ltotal_bound e H3).
    pose proof (NoDup_incl_len _ _ H1 H2) as Hk. rewrite map_length in Hk. nia.
  Qed.

  Lemma lget_In e A a : In a (lget e A) -> exists l, In (A, l) e /\ In a l.
  Proof.
    induction e as [|[B l] e IH]; simpl; [intros []|].
    destruct (Nat.eqb_spec A B) as [E|E]; intros H.
    - subst. exists l. auto.
    - destruct (IH H) as [l' [H1 H2]]. exists l'. auto.
  Qed.

  Lemma lget_vals e A : linv e -> incl (lget e A) VALS.
  Proof.
    intros [_ [_ H3]] a Ha. apply lget_In in Ha as [l [H1 H2]]. now apply (proj2 (H3 _ _ H1)).
  Qed.

  Lemma union_look_inv : forall ts l, NoDup l -> incl l VALS -> incl ts VALS ->
    NoDup (union_look ts l) /\ incl (union_look ts l) VALS.
  Proof.
    unfold union_look. induction ts as [|t ts IH]; intros l Hn Hi Ht; simpl; auto.
    apply IH; [| |intros x Hx; apply Ht; now right].
    - destruct (in_dec look_eq_dec t l) as [Hin|Hin].
      + now rewrite (proj1 (add_look_spec t l) Hin).
      + rewrite (proj2 (add_look_spec t l) Hin). now constructor.
    - destruct (in_dec look_eq_dec t l) as [Hin|Hin].
      + now rewrite (proj1 (add_look_spec t l) Hin).
      + rewrite (proj2 (add_look_spec t l) Hin). intros x [Hx|Hx]; [subst; apply Ht; now left|now apply Hi].
  Qed.

  Lemma ladd_keys : forall e B ts,
    map fst (ladd e B ts) = if existsb (Nat.eqb B) (map fst e) then map fst e else map fst e ++ [B].
  Proof.
    induction e as [|[B' l] e IH]; intros B ts; simpl; [reflexivity|].
    destruct (Nat.eqb B B'); simpl; [reflexivity|]. rewrite IH. destruct (existsb _ (map fst e)); reflexivity.
  Qed.

  Lemma ladd_inv e B ts : linv e -> In B KEYS -> incl ts VALS -> linv (ladd e B ts).
  Proof.
    intros [H1 [H2 H3]] HB Hts. split; [|split].
    - rewrite ladd_keys. destruct (existsb (Nat.eqb B) (map fst e)) eqn:E; auto.
      apply NoDup_snoc; auto. intros Hin.
      assert (existsb (Nat.eqb B) (map fst e) = true) by (apply existsb_exists; exists B; split; auto; apply Nat.eqb_refl).
      congruence.
    - rewrite ladd_keys. destruct (existsb (Nat.eqb B) (map fst e)); auto.
      intros x Hx. apply in_app_or in Hx as [Hx|[Hx|[]]]; [now apply H2|now subst].
    - clear H1 H2. induction e as [|[B' l] e IH]; simpl.
      + intros B0 l0 [E|[]]. inversion E; subst. apply union_look_inv; auto; [constructor|intros x []].
      + destruct (Nat.eqb B B').
        * intros B0 l0 [E|Hin]; [|eapply H3; right; exact Hin]. inversion E; subst.
          destruct (H3 B0 l (or_introl eq_refl)). now apply union_look_inv.
        * intros B0 l0 [E|Hin]; [eapply H3; left; exact E|].
          eapply IH; [|exact Hin]. intros B1 l1 H. eapply H3. right. exact H.
  Qed.
End LInv.

(** ** FIRST environments (same structure with terminals as values) *)

Lemma mem_nat_In a l : mem_nat a l = true <-> In a l.
Proof.
  unfold mem_nat. rewrite existsb_exists. split.
  - intros [b [Hb E]]. apply Nat.eqb_eq in E. now subst.
  - intros H. exists a. split; auto. apply Nat.eqb_refl.
Qed.

Lemma add_nat_spec a l : (In a l -> add_nat a l = l) /\ (~ In a l -> add_nat a l = a :: l).
Proof.
  unfold add_nat. split; intros H.
  - apply mem_nat_In in H. now rewrite H.
  - destruct (mem_nat a l) eqn:E; [apply mem_nat_In in E; contradiction|reflexivity].
Qed.

Lemma union_nat_spec : forall ts l,
  length l <= length (union_nat ts l) /\ incl l (union_nat ts l) /\ incl ts (union_nat ts l) /\
  (forall x, In x (union_nat ts l) -> In x l \/ In x ts) /\
  (NoDup l -> NoDup (union_nat ts l)) /\
  (length (union_nat ts l) = length l -> union_nat ts l = l /\ incl ts l).
Proof.
  unfold union_nat. induction ts as [|t ts IH]; intros l; simpl.
  - repeat split; auto; try lia; try apply incl_refl; intros x []. 
  - destruct (IH (add_nat t l)) as [H1 [H2 [H3 [H4 [H5 H6]]]]].
    destruct (in_dec Nat.eq_dec t l) as [Hin|Hin].
    + rewrite (proj1 (add_nat_spec t l) Hin) in *. split; [exact H1|]. split; [exact H2|]. split.
      * intros x [Hx|Hx]; [subst; now apply H2|now apply H3].
      * split; [intros x Hx; destruct (H4 x Hx); auto|]. split; [exact H5|].
        intros E. destruct (H6 E) as [E1 E2]. split; auto. intros x [Hx|Hx]; [now subst|now apply E2].
    + rewrite (proj2 (add_nat_spec t l) Hin) in *. simpl in H1. split; [lia|]. split.
      * intros x Hx. apply H2. now right.
      * split; [intros x [Hx|Hx]; [subst; apply H2; now left|now apply H3]|].
        split; [intros x Hx; destruct (H4 x Hx) as [[Hy|Hy]|Hy]; subst; auto|].
        split; [intros Hn; apply H5; now constructor|]. intros E. lia.
Qed.

Definition ftotal (e : fenv) : nat := fold_left (fun k x => k + length (snd x)) e 0.

Lemma fenv_size_eq e : fenv_size e = length e + ftotal e.
Proof. unfold fenv_size, ftotal. apply fold_size_acc. Qed.

Lemma ftotal_cons x e : ftotal (x :: e) = length (snd x) + ftotal e.
Proof. unfold ftotal. simpl. apply fold_size_acc. Qed.

Lemma fget_In e A a : In a (fget e A) -> exists l, In (A, l) e /\ In a l.
Proof.
  induction e as [|[B l] e IH]; simpl; [intros []|].
  destruct (Nat.eqb_spec A B) as [E|E]; intros H.
  - subst. exists l. auto.
  - destruct (IH H) as [l' [H1 H2]]. exists l'. auto.
Qed.

Lemma fadd_spec : forall e B ts,
  fenv_size e <= fenv_size (fadd e B ts) /\
  (forall A a, In a (fget e A) -> In a (fget (fadd e B ts) A)) /\
  incl ts (fget (fadd e B ts) B) /\
  (fenv_size (fadd e B ts) = fenv_size e -> fadd e B ts = e /\ incl ts (fget e B)).
Proof.
  induction e as [|[B' l] e IH]; intros B ts; simpl.
  - destruct (union_nat_spec ts []) as [_ [_ [U3 _]]].
    rewrite !fenv_size_eq, ftotal_cons. change (ftotal []) with 0. simpl. split; [lia|]. split; [intros A a []|].
    split; [rewrite Nat.eqb_refl; exact U3|]. intros E. lia.
  - destruct (Nat.eqb_spec B B') as [E|E].
    + subst B'. destruct (union_nat_spec ts l) as [H1 [H2 [H3 [_ [_ H6]]]]].
      rewrite !fenv_size_eq, !ftotal_cons. simpl. split; [lia|]. split.
      * intros A a. destruct (Nat.eqb A B); auto.
      * rewrite Nat.eqb_refl. split; [exact H3|]. intros Es. assert (El : length (union_nat ts l) = length l) by lia.
        destruct (H6 El) as [E1 E2]. rewrite E1. auto.
    + destruct (IH B ts) as [H1 [H2 [H3 H4]]].
      rewrite !fenv_size_eq, !ftotal_cons in *. simpl. split; [lia|]. split.
      * intros A a. destruct (Nat.eqb A B'); auto.
      * destruct (Nat.eqb_spec B B'); [contradiction|]. split; [exact H3|].
        intros Es. assert (Es' : length (fadd e B ts) + ftotal (fadd e B ts) = length e + ftotal e) by lia.
        destruct (H4 Es') as [E1 E2]. rewrite E1. auto.
Qed.

Section FInv.
  Variable KEYS : list nat.
  Variable VALS : list nat.

  Definition finv (e : fenv) : Prop :=
    NoDup (map fst e) /\ incl (map fst e) KEYS /\ forall B l, In (B, l) e -> NoDup l /\ incl l VALS.

  Lemma ftotal_bound e : (forall B l, In (B, l) e -> NoDup l /\ incl l VALS) -> ftotal e <= length e * length VALS.
  Proof.
    induction e as [|[B l] e IH]; intros H; [unfold ftotal; simpl; lia|].
    rewrite ftotal_cons. simpl.
    destruct (H B l (or_introl eq_refl)) as [H1 H2]. pose proof (NoDup_incl_len _ _ H1 H2).
    assert (IH' := IH (fun B' l' Hin => H B' l' (or_intror Hin))). lia.
  Qed.

  Lemma finv_size e : finv e -> fenv_size e <= length KEYS * S (length VALS).
  Proof.
    intros [H1 [H2 H3]]. rewrite fenv_size_eq. pose proof (ftotal_bound e H3).
    pose proof (NoDup_incl_len _ _ H1 H2) as Hk. rewrite map_length in Hk. nia.
  Qed.

  Lemma fget_vals e A : finv e -> incl (fget e A) VALS.
  Proof.
    intros [_ [_ H3]] a Ha. apply fget_In in Ha as [l [H1 H2]]. now apply (proj2 (H3 _ _ H1)).
  Qed.

  Lemma fadd_keys : forall e B ts,
    map fst (fadd e B ts) = if existsb (Nat.eqb B) (map fst e) then map fst e else map fst e ++ [B].
  Proof.
    induction e as [|[B' l] e IH]; intros B ts; simpl; [reflexivity|].
    destruct (Nat.eqb B B'); simpl; [reflexivity|]. rewrite IH. destruct (existsb _ (map fst e)); reflexivity.
  Qed.

  Lemma union_nat_inv ts l : NoDup l -> incl l VALS -> incl ts VALS -> NoDup (union_nat ts l) /\ incl (union_nat ts l) VALS.
  Proof.
    intros Hn Hi Ht. destruct (union_nat_spec ts l) as [_ [_ [_ [H4 [H5 _]]]]]. split; [auto|].
    intros x Hx. destruct (H4 x Hx); auto.
  Qed.

  Lemma fadd_inv e B ts : finv e -> In B KEYS -> incl ts VALS -> finv (fadd e B ts).
  Proof.
    intros [H1 [H2 H3]] HB Hts. split; [|split].
    - rewrite fadd_keys. destruct (existsb (Nat.eqb B) (map fst e)) eqn:E; auto.
      apply NoDup_snoc; auto. intros Hin.
      assert (existsb (Nat.eqb B) (map fst e) = true) by (apply existsb_exists; exists B; split; auto; apply Nat.eqb_refl).
      congruence.
    - rewrite fadd_keys. destruct (existsb (Nat.eqb B) (map fst e)); auto.
      intros x Hx. apply in_app_or in Hx as [Hx|[Hx|[]]]; [now apply H2|now subst].
    - clear H1 H2. induction e as [|[B' l] e IH]; simpl.
      + intros B0 l0 [E|[]]. inversion E; subst. apply union_nat_inv; auto; [constructor|intros x []].
      + destruct (Nat.eqb B B').
        * intros B0 l0 [E|Hin]; [|eapply H3; right; exact Hin]. inversion E; subst.
          destruct (H3 B0 l (or_introl eq_refl)). now apply union_nat_inv.
        * intros B0 l0 [E|Hin]; [eapply H3; left; exact E|].
          eapply IH; [|exact Hin]. intros B1 l1 H. eapply H3. right. exact H.
  Qed.
End FInv.

(** ** the FIRST and FOLLOW iterations of a grammar stop at fixpoints *)

Section Grammar.
  Variable H : gram.
  Hypothesis h1 : forall p c, In p (prods H) -> In (Tm c) (body p) -> In c (terms H).
  Hypothesis h2 : forall p A, In p (prods H) -> In (Nt A) (body p) -> In A (map head (prods H)).
  Hypothesis h3 : In (start H) (map head (prods H)).

  Let KEYS := map head (prods H).
  Let TS := terms H.
  Let VALS := None :: map Some TS.
  Let nl := nullables H.
  Let ps := prods H.

  Lemma first_str_vals fe : (forall A, incl (fget fe A) TS) -> forall b, (forall c, In (Tm c) b -> In c TS) ->
    incl (first_str nl fe b) TS.
  Proof.
    intros Hfe. induction b as [|[a|A] r IH]; intros Hb; simpl.
    - intros x [].
    - intros x [Hx|[]]. subst. apply Hb. now left.
    - destruct (mem_nat A nl); [|exact (Hfe A)].
      intros x Hx. destruct (union_nat_spec (fget fe A) (first_str nl fe r)) as [_ [_ [_ [U4 _]]]].
      destruct (U4 x Hx) as [Hx'|Hx']; [|exact (Hfe A x Hx')].
      apply (IH (fun c Hc => Hb c (or_intror Hc)) x Hx').
  Qed.

  Lemma first_pass_inv : forall l e, (forall p, In p l -> In p ps) -> finv KEYS TS e ->
    finv KEYS TS (fold_left (fun e p => fadd e (head p) (first_str nl e (body p))) l e) /\
    fenv_size e <= fenv_size (fold_left (fun e p => fadd e (head p) (first_str nl e (body p))) l e).
  Proof.
    induction l as [|p l IH]; intros e Hl He; simpl; [split; [auto|lia]|].
    assert (Hp : In p ps) by (apply Hl; now left).
    assert (He' : finv KEYS TS (fadd e (head p) (first_str nl e (body p)))).
    { apply fadd_inv; auto; [unfold KEYS; now apply in_map|].
      apply first_str_vals; [intros A; now apply (fget_vals KEYS TS)|]. intros c Hc. eapply h1; eauto. }
    destruct (IH _ (fun q Hq => Hl q (or_intror Hq)) He') as [I1 I2]. split; auto.
    destruct (fadd_spec e (head p) (first_str nl e (body p))) as [F1 _]. lia.
  Qed.

  Lemma finv_nil : finv KEYS TS [].
  Proof. split; [constructor|]. split; [intros x []|intros B l []]. Qed.

  Theorem firsts_stable :
    finv KEYS TS (firsts H) /\ fenv_size (first_pass nl ps (firsts H)) = fenv_size (firsts H).
  Proof.
    unfold firsts. apply (fix_size_stable fenv_size (first_pass nl ps) (finv KEYS TS) (length KEYS * S (length TS))).
    - intros x Hx. apply first_pass_inv; auto.
    - apply finv_size.
    - intros x. unfold first_pass.
      assert (Hgen : forall l e, fenv_size e <= fenv_size (fold_left (fun e p => fadd e (head p) (first_str nl e (body p))) l e)).
      { induction l as [|p l IH]; intros e; simpl; [lia|].
        destruct (fadd_spec e (head p) (first_str nl e (body p))) as [F1 _]. specialize (IH (fadd e (head p) (first_str nl e (body p)))). lia. }
      apply Hgen.
    - apply finv_nil.
    - unfold KEYS, TS. rewrite map_length. change (fenv_size []) with 0. nia.
  Qed.

  Let fe := firsts H.

  Lemma follow_body_inv A : forall b e, (forall B, In (Nt B) b -> In B KEYS) -> (forall c, In (Tm c) b -> In c TS) ->
    linv KEYS VALS e -> linv KEYS VALS (follow_body nl fe A b e).
  Proof.
    induction b as [|[t|B] r IH]; intros e Hn Ht He; simpl; auto.
    - apply IH; auto; intros x Hx; [apply Hn|apply Ht]; now right.
    - assert (He1 : linv KEYS VALS (ladd e B (map Some (first_str nl fe r)))).
      { apply ladd_inv; auto; [apply Hn; now left|].
        intros x Hx. apply in_map_iff in Hx as [y [E Hy]]. subst x. right. apply in_map.
        revert Hy. apply first_str_vals; [intros A0; apply (fget_vals KEYS TS); apply firsts_stable|].
        intros c Hc. apply Ht. now right. }
      apply IH; [intros x Hx; apply Hn; now right|intros x Hx; apply Ht; now right|].
      destruct (nullable_str nl r); auto.
      apply ladd_inv; auto; [apply Hn; now left|]. now apply (lget_vals KEYS VALS).
  Qed.

  Lemma follow_pass_inv e : linv KEYS VALS e -> linv KEYS VALS (follow_pass nl fe ps e).
  Proof.
    unfold follow_pass.
    assert (Hgen : forall l e', (forall p, In p l -> In p ps) -> linv KEYS VALS e' ->
      linv KEYS VALS (fold_left (fun e' p => follow_body nl fe (head p) (body p) e') l e')).
    { induction l as [|p l IH]; intros e' Hl He'; simpl; auto.
      apply IH; [intros q Hq; apply Hl; now right|].
      assert (Hp : In p ps) by (apply Hl; now left).
      apply follow_body_inv; auto; [intros B HB; eapply h2; eauto|intros c Hc; eapply h1; eauto]. }
    intros He. apply Hgen; auto.
  Qed.

  Theorem follows_stable : follow_fix_ok H = true.
  Proof.
    unfold follow_fix_ok. apply Nat.eqb_eq. unfold follows.
    apply (fix_size_stable lenv_size (follow_pass nl fe ps) (linv KEYS VALS) (length KEYS * S (length VALS))).
    - apply follow_pass_inv.
    - apply linv_size.
    - intros x. destruct (follow_pass_spec nl fe ps x) as [F1 _]. exact F1.
    - split; [simpl; constructor; [intros []|constructor]|]. split.
      + intros x [Hx|[]]. subst. exact h3.
      + intros B l [E|[]]. inversion E; subst. split; [constructor; [intros []|constructor]|].
        intros x [Hx|[]]. subst. now left.
    - unfold KEYS, VALS, TS. simpl length. rewrite !map_length.
      rewrite lenv_size_eq, ltotal_cons. change (ltotal []) with 0. simpl. nia.
  Qed.
End Grammar.

(** grammars as the Go code accepts them (CFG.Verify): declared body symbols and start symbol,
    and every declared non-terminal has a production *)
Definition valid_grammar (G : gram) : Prop :=
  valid_syms G /\ forall A, In A (nonterms G) -> exists p, In p (prods G) /\ head p = A.

Theorem follow_fix_ok_aug G : valid_grammar G -> follow_fix_ok (augment G) = true.
Proof.
  intros [[V1 [V2 V3]] V4]. apply follows_stable.
  - intros p c [Hp|Hp] Hc; [subst p; simpl in Hc; destruct Hc as [Hc|[]]; discriminate|]. simpl. eauto.
  - intros p A Hp HA.
    assert (HAn : In A (nonterms G)).
    { destruct Hp as [Hp|Hp]; [subst p; simpl in HA; destruct HA as [HA|[]]; inversion HA; subst; exact V3|eauto]. }
    destruct (V4 A HAn) as [q [Hq Eq]]. change (prods (augment G)) with (aug_prod G :: prods G). simpl. right.
    rewrite <- Eq. now apply in_map.
  - simpl. now left.
Qed.
