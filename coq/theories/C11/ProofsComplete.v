(** C11 — completeness of the modelled canonical LR(1) construction: over a conflict-free table
    built without precedence declarations the driver accepts every sentence. *)
From Coq Require Import List ZArith Bool Arith Lia.
From Algo.Grammar Require Import CFG.
From Algo.C11 Require Import Model ModelPrec ModelSLR ModelLR1 Spec Proofs ProofsTerm ProofsLR0 ProofsSLR ProofsCLR
  ProofsChain ProofsChain2 ProofsFuel ProofsGen ProofsClosure1.
Import ListNotations.

(** ** table lookups *)

Lemma find_action_unique l s a x : In (s, a, x) l -> (forall y, In (s, a, y) l -> y = x) ->
  find_action l s a = Some x.
Proof.
  induction l as [|[[s' a'] y] l IH]; intros Hin Hu; [destruct Hin|]. simpl.
  destruct (Z.eqb s s' && look_eqb a a') eqn:E.
  - apply key_eqb_spec in E. inversion E; subst. f_equal. apply Hu. now left.
  - destruct Hin as [Hin|Hin].
    + inversion Hin; subst. rewrite Z.eqb_refl, look_eqb_refl in E. discriminate.
    + apply IH; auto. intros y0 Hy. apply Hu. now right.
Qed.

Lemma find_goto_unique l s A t : In (s, A, t) l -> (forall t', In (s, A, t') l -> t' = t) ->
  find_goto l s A = Some t.
Proof.
  induction l as [|[[s' A'] y] l IH]; intros Hin Hu; [destruct Hin|]. simpl.
  destruct (Z.eqb s s' && Nat.eqb A A') eqn:E.
  - apply andb_true_iff in E as [E1 E2]. apply Z.eqb_eq in E1. apply Nat.eqb_eq in E2. subst.
    f_equal. apply Hu. now left.
  - destruct Hin as [Hin|Hin].
    + inversion Hin; subst. rewrite Z.eqb_refl, Nat.eqb_refl in E. discriminate.
    + apply IH; auto. intros y0 Hy. apply Hu. now right.
Qed.

Lemma resolve_cells_single ls cells s a x : In (s, a, [x]) cells -> In (s, a, x) (fst (resolve_cells ls cells)).
Proof.
  induction cells as [|[[s' a'] l] cells IH]; intros Hin; [destruct Hin|]. simpl.
  destruct Hin as [Hin|Hin].
  - inversion Hin; subst. simpl. now left.
  - specialize (IH Hin). destruct l as [|x1 [|x2 l]]; simpl; auto.
    destruct (resolve_conflict ls a' (x1 :: x2 :: l)); simpl; auto.
Qed.

Lemma In_skipn {A} (x : A) n : forall l, In x (skipn n l) -> In x l.
Proof. induction n as [|n IH]; intros [|y l] H; simpl in *; auto. Qed.

Lemma derives_aug G a b : derives G a b -> derives (augment G) a b.
Proof.
  induction 1 as [x y Hs| |x y z _ IH1 _ IH2].
  - apply rt_step. destruct Hs as [u v p Hp]. constructor. simpl. now right.
  - apply rt_refl.
  - eapply rt_trans; eauto.
Qed.

Section Complete.
  Variable G : gram.
  Hypothesis Hvalid : valid_grammar G.
  Variable fuel : nat.
  Variable C : list (list item1).
  Hypothesis HC : canonical1 fuel G = Some C.
  Variable tbl : table.
  Hypothesis Hb : build_clr fuel G [] = BuiltOk tbl.

  Let c := ctx_of G.
  Let G' := augment G.
  Let ps := prods G'.
  Let nl := nullables G'.
  Let fe := firsts G'.
  Let TS := terms G.
  Let LA : list look := None :: map Some TS.
  Let syms := symbols_of G'.
  Let aug := aug_prod G.

  Lemma h1' : forall p t, In p ps -> In (Tm t) (body p) -> In t (terms G').
  Proof.
    destruct Hvalid as [[V1 _] _]. intros p t [Hp|Hp] Ht; [subst p; simpl in Ht; destruct Ht as [Ht|[]]; discriminate|].
    simpl. eauto.
  Qed.

  (** *** the table *)

  Lemma table_shape : exists r, clr_raw fuel G = Some r /\ small_cells (r_action r) /\ cells_wf (r_action r) /\
    tbl = mkTable (fst (resolve_cells [] (r_action r))) (r_goto r).
  Proof.
    unfold build_clr in Hb. destruct (clr_raw fuel G) as [r|] eqn:Er; [|discriminate].
    exists r. destruct (clr_cells G fuel C HC r Er) as [_ Hwf].
    assert (Hs : small_cells (r_action r)) by (apply finish_nil_ok; [apply Hwf|eauto]).
    repeat split; auto; try apply Hwf.
    unfold finish in Hb. simpl in Hb. destruct (resolve_cells [] (r_action r)) as [acts confl].
    destruct confl; [|discriminate]. now inversion Hb.
  Qed.

  Lemma clr_has r k I it : clr_raw fuel G = Some r -> nth_error C k = Some I -> In it I ->
    (forall t, dot_symbol (core_of it) = Some (Tm t) ->
       has (r_action r) (Z.of_nat k) (Some t) (Shift (state_of1 C (goto1 c I (Tm t))))) /\
    (is_complete (core_of it) = true -> head (fst (fst it)) <> fresh_nt G ->
       has (r_action r) (Z.of_nat k) (la_of it) (Reduce (fst (fst it)))) /\
    (is_complete (core_of it) = true -> head (fst (fst it)) = fresh_nt G -> la_of it = None ->
       has (r_action r) (Z.of_nat k) None Accept).
  Proof.
    unfold clr_raw. rewrite HC. intros Hr Hk Hit. inversion Hr; subst r; clear Hr. cbn [r_action].
    pose proof (combine_seq_nth Z.of_nat C 0 k I Hk) as Hidx. simpl in Hidx.
    set (tg := fun X => state_of1 C (goto1 (ctx_of G) I X)).
    assert (Hfold : forall (Q : list (Z * look * list action) -> Prop),
      (forall cells, Q (item1_actions G tg (Z.of_nat k) cells it)) ->
      (forall cells i0 tg0 it0, Q cells -> Q (item1_actions G tg0 i0 cells it0)) ->
      Q (fold_left (fun cells sI => fold_left (item1_actions G (fun X => state_of1 C (goto1 (ctx_of G) (snd sI) X)) (fst sI)) (snd sI) cells)
           (combine (map Z.of_nat (seq 0 (length C))) C) [])).
    { intros Q Hq Hp.
      apply (fold_establish _ Q _ (Z.of_nat k, I)); auto.
      - intros cells. cbn [fst snd]. apply (fold_establish _ Q _ it); auto.
      - intros c0 b' Hc0. apply fold_preserve; auto. }
    split; [|split].
    - intros t Hd. apply (Hfold (fun cells => has cells (Z.of_nat k) (Some t) (Shift (tg (Tm t))))).
      + intros cells. now apply ia_shift.
      + intros cells i0 tg0 it0. apply ia_mono.
    - intros Hc Hh. apply (Hfold (fun cells => has cells (Z.of_nat k) (la_of it) (Reduce (fst (fst it))))).
      + intros cells. now apply ia_reduce.
      + intros cells i0 tg0 it0. apply ia_mono.
    - intros Hc Hh Hl. apply (Hfold (fun cells => has cells (Z.of_nat k) None Accept)).
      + intros cells. now apply ia_accept.
      + intros cells i0 tg0 it0. apply ia_mono.
  Qed.

  (** T1: a contributed action is the entry of the conflict-free table *)
  Lemma action_lookup r k a x : clr_raw fuel G = Some r -> small_cells (r_action r) -> cells_wf (r_action r) ->
    tbl = mkTable (fst (resolve_cells [] (r_action r))) (r_goto r) ->
    has (r_action r) (Z.of_nat k) a x -> find_action (t_action tbl) (Z.of_nat k) a = Some x.
  Proof.
    intros Er Hs [Hk _] Et [l [Hl Hx]]. subst tbl. cbn [t_action].
    assert (El : l = [x]).
    { pose proof (Hs _ _ _ Hl) as Hlen. destruct l as [|y [|z l]]; [destruct Hx| |simpl in Hlen; lia].
      destruct Hx as [Hx|[]]. now subst. }
    subst l. apply find_action_unique.
    - now apply resolve_cells_single.
    - intros y Hy. apply resolve_cells_In in Hy as [l' [H1 H2]].
      assert (l' = [x]) by (eapply keys_unique; eauto). subst l'. destruct H2 as [H2|[]]. now subst.
  Qed.

  (** T2: GOTO entries *)
  Lemma goto_lookup r k I B k' : clr_raw fuel G = Some r -> tbl = mkTable (fst (resolve_cells [] (r_action r))) (r_goto r) ->
    nth_error C k = Some I -> In B (nonterms G) -> state_of1 C (goto1 c I (Nt B)) = Z.of_nat k' ->
    find_goto (t_goto tbl) (Z.of_nat k) B = Some (Z.of_nat k').
  Proof.
    intros Er Et Hk HB Hst. subst tbl. cbn [t_goto]. apply find_goto_unique.
    - unfold clr_raw in Er. rewrite HC in Er. inversion Er; subst r; clear Er. cbn [r_goto].
      apply in_flat_map. exists (Z.of_nat k, I). split.
      + pose proof (combine_seq_nth Z.of_nat C 0 k I Hk) as Hidx. exact Hidx.
      + apply in_flat_map. exists B. split; auto. cbn [fst snd]. fold c. rewrite Hst.
        destruct (Z.of_nat k') eqn:E; [now left|now left|lia].
    - intros t' Hin. destruct (raw1_gotos G fuel C HC r _ _ _ Er Hin) as [k2 [I2 [E2 [Hk2 [Et' _]]]]].
      apply Nat2Z.inj in E2. subst k2. rewrite Hk in Hk2. inversion Hk2; subst I2. fold c in Et'. congruence.
  Qed.

  (** *** the states *)

  Lemma las_in_LA i : In (fst (fst i)) ps -> In (la_of i) LA -> incl (las_of nl fe i) LA.
  Proof.
    intros Hp Hl. unfold las_of, first_la.
    assert (Hf : incl (map Some (first_str nl fe (skipn (S (snd (fst i))) (body (fst (fst i)))))) LA).
    { intros x Hx. apply in_map_iff in Hx as [t [E Ht]]. subst x. right. apply in_map.
      revert Ht. apply (first_str_vals G' fe).
      - intros A. apply (fget_vals (map head (prods G')) (terms G')). apply firsts_stable. exact h1'.
      - intros t' Ht'. apply In_skipn in Ht'. eapply h1'; eauto. }
    destruct (nullable_str nl _); auto. intros x Hx. apply in_app_or in Hx as [Hx|[Hx|[]]]; [now apply Hf|now subst].
  Qed.

  Lemma LA_len : length LA = S (c_nterms c).
  Proof. unfold LA. simpl. now rewrite map_length. Qed.

  Lemma reach1_closed I : reach1 G I -> closed1 nl fe ps I /\ ok1 ps LA I.
  Proof.
    induction 1 as [|I X HI [_ IHok] Hne].
    - apply (closure1_closed (c_nterms c) nl fe ps LA las_in_LA LA_len).
      intros it [E|[]]. subst it. unfold la_of. simpl. split; [now left|now left].
    - destruct (goto1_nonempty_kernel G _ _ Hne) as [Eg _]. rewrite Eg.
      apply (closure1_closed (c_nterms c) nl fe ps LA las_in_LA LA_len).
      intros [[p n] a] Hx. apply goto1_kernel_items in Hx as [d [_ [Hi _]]].
      unfold core_of, la_of in *. cbn [fst snd] in *. exact (IHok _ Hi).
  Qed.

  (** the GOTO of a state on the symbol after the dot of one of its items is a state *)
  Lemma goto_state k I p d la X : nth_error C k = Some I -> In (p, d, la) I -> nth_error (body p) d = Some X ->
    exists k' I', state_of1 C (goto1 c I X) = Z.of_nat k' /\ nth_error C k' = Some I' /\ In (p, S d, la) I'.
  Proof.
    intros Hk Hit Hd.
    pose proof (C1_nth_reach G fuel C HC k I Hk) as HI. destruct (reach1_spelled G I HI) as [l Hl].
    destruct (Hl _ Hit) as [Hp _]. unfold core_of in Hp. cbn [fst snd] in Hp.
    assert (HX : In X syms) by (apply (valid_syms_aug G (proj1 Hvalid) p X Hp); eapply nth_error_In; eauto).
    assert (Hne : goto1 c I X <> []) by (apply (goto1_nonempty G I X (p, d, la)); auto).
    destruct (C1_coll G fuel C HC) as [_ Hcl].
    destruct (Hcl I X (nth_error_In _ _ Hk) HX) as [Hg|[k' Hidx]]; [contradiction|].
    pose proof Hidx as Hidx'. apply index_of1_spec in Hidx' as [_ [I' [Hn He]]]. rewrite Nat.sub_0_r in Hn.
    exists k', I'. split; [|split; auto].
    - unfold state_of1. fold c in Hidx. rewrite Hidx. destruct (goto1 c I X); [contradiction|reflexivity].
    - apply (itemset1_eqb_spec _ _ He).
      destruct (goto1_nonempty_kernel G _ _ Hne) as [Eg _]. unfold c. rewrite Eg. apply closure1_incl.
      exact (goto1_kernel_has I X (p, d, la) Hit Hd).
  Qed.
  (** *** the driver: multi-step reachability *)

  Definition reaches (c1 c2 : cfg) : Prop := exists n, nsteps tbl n c1 = inl c2.

  Lemma nsteps_add n : forall m c1 c2, nsteps tbl n c1 = inl c2 -> nsteps tbl (n + m) c1 = nsteps tbl m c2.
  Proof.
    induction n as [|n IH]; intros m c1 c2 H; simpl in *; [now inversion H|].
    destruct (step tbl c1) as [c1'|o]; [|discriminate]. now apply IH.
  Qed.

  Lemma reaches_refl c1 : reaches c1 c1.
  Proof. exists 0. reflexivity. Qed.

  Lemma reaches_trans c1 c2 c3 : reaches c1 c2 -> reaches c2 c3 -> reaches c1 c3.
  Proof. intros [n Hn] [m Hm]. exists (n + m). now rewrite (nsteps_add n m c1 c2 Hn). Qed.

  Lemma reaches_step c1 c2 : step tbl c1 = inl c2 -> reaches c1 c2.
  Proof. intros H. exists 1. simpl. now rewrite H. Qed.

  Definition compat (beta : list sym) (a : look) (r : list nat) : Prop :=
    exists r1 r2, r = r1 ++ r2 /\ gens G' beta r1 /\ hd_error r2 = a.

  Lemma compat_la beta a r : compat beta a r -> In (hd_error r) (first_la nl fe beta a).
  Proof.
    intros [r1 [r2 [E [Hg Ha]]]]. subst r. unfold first_la. destruct r1 as [|t r1].
    - pose proof (proj2 (nullable_complete G') beta [] Hg eq_refl) as Hn. fold nl in Hn. rewrite Hn.
      apply in_or_app. right. simpl. now left.
    - assert (Ht : In t (first_str nl fe beta)) by (eapply (proj2 (first_complete G' h1')); eauto).
      simpl. destruct (nullable_str nl beta); [apply in_or_app; left|]; now apply in_map.
  Qed.

  Lemma peek_app_hd (l : list Z) x m : peek (l ++ x :: m) = hd x l.
  Proof. destruct l; reflexivity. Qed.

  Lemma skipn_cons_inv {A} (l : list A) : forall d x b, skipn d l = x :: b -> nth_error l d = Some x /\ skipn (S d) l = b.
  Proof.
    induction l as [|y l IH]; intros [|d] x b H; simpl in *; try discriminate.
    - inversion H; subst. auto.
    - now apply IH.
  Qed.

  Definition P_gen (X : sym) (u : list nat) : Prop :=
    forall k I sigma p d la r out, nth_error C k = Some I -> In (p, d, la) I -> nth_error (body p) d = Some X ->
      compat (skipn (S d) (body p)) la r ->
      exists k' out', state_of1 C (goto1 c I X) = Z.of_nat k' /\
        reaches (Z.of_nat k :: sigma, u ++ r, out) (Z.of_nat k' :: Z.of_nat k :: sigma, r, out').

  Definition P_gens (b : list sym) (u : list nat) : Prop :=
    forall k I sigma p d la r out, nth_error C k = Some I -> In (p, d, la) I -> skipn d (body p) = b -> hd_error r = la ->
      exists pushed out' kt It,
        reaches (Z.of_nat k :: sigma, u ++ r, out) (pushed ++ Z.of_nat k :: sigma, r, out') /\
        length pushed = length b /\ hd (Z.of_nat k) pushed = Z.of_nat kt /\
        nth_error C kt = Some It /\ In (p, length (body p), la) It.

  Lemma big_step : (forall X u, gen G' X u -> P_gen X u) /\ (forall b u, gens G' b u -> P_gens b u).
  Proof.
    destruct table_shape as [rw [Er [Hsmall [Hwf Et]]]].
    apply gen_gens_ind.
    - (* a terminal: shift *)
      intros t k I sigma p d la r out Hk Hit Hd Hc.
      destruct (goto_state k I p d la (Tm t) Hk Hit Hd) as [k' [I' [Hst [Hk' _]]]].
      exists k', (EvTok (Some t) :: out). split; [exact Hst|].
      apply reaches_step. unfold step. cbn [peek hd_error app].
      destruct (clr_has rw k I (p, d, la) Er Hk Hit) as [Hsh _].
      rewrite (action_lookup rw k (Some t) _ Er Hsmall Hwf Et (Hsh t Hd)). rewrite Hst. reflexivity.
    - (* a non-terminal: its body, then reduce *)
      intros q u Hq Hg IH k I sigma p d la r out Hk Hit Hd Hc.
      pose proof (C1_nth_reach G fuel C HC k I Hk) as HI.
      destruct (reach1_closed I HI) as [Hcl _]. destruct (reach1_spelled G I HI) as [l Hl].
      destruct (Hl _ Hit) as [Hp _]. unfold core_of in Hp. cbn [fst snd] in Hp.
      pose proof (compat_la _ _ _ Hc) as Hla.
      assert (Hq0 : In (q, 0, hd_error r) I).
      { apply (Hcl (p, d, la) (head q) q (hd_error r) Hit); auto. }
      destruct (IH k I sigma q 0 (hd_error r) r out Hk Hq0 eq_refl eq_refl)
        as [pushed [out1 [kt [It [Hr1 [Hlen [Hhd [Hkt Hcomp]]]]]]]].
      destruct (goto_state k I p d la (Nt (head q)) Hk Hit Hd) as [k' [I' [Hst [Hk' _]]]].
      exists k', (EvProd q :: out1). split; [exact Hst|].
      eapply reaches_trans; [exact Hr1|]. apply reaches_step. unfold step.
      rewrite peek_app_hd, Hhd.
      assert (Hnf : head q <> fresh_nt G).
      { intros E. apply (fresh_not_in_bodies G p Hp). rewrite <- E. eapply nth_error_In; eauto. }
      destruct (clr_has rw kt It (q, length (body q), hd_error r) Er Hkt Hcomp) as [_ [Hrd _]].
      assert (Hcpl : is_complete (core_of (q, length (body q), hd_error r)) = true) by (unfold is_complete, core_of; simpl; apply Nat.eqb_refl).
      rewrite (action_lookup rw kt (hd_error r) _ Er Hsmall Hwf Et (Hrd Hcpl Hnf)). cbn [fst snd].
      assert (Hsk : forall n, n = length pushed -> skipn n (pushed ++ Z.of_nat k :: sigma) = Z.of_nat k :: sigma).
      { intros n0 E0. subst n0. rewrite skipn_app, skipn_all, Nat.sub_diag. reflexivity. }
      match goal with |- context [skipn ?n0 (pushed ++ Z.of_nat k :: sigma)] => rewrite (Hsk n0 (eq_sym Hlen)) end. cbn [peek].
      assert (HB : In (head q) (nonterms G)).
      { destruct Hvalid as [[_ [V2 V3]] _]. apply nth_error_In in Hd.
        destruct Hp as [Hp|Hp]; [subst p; simpl in Hd; destruct Hd as [Hd|[]]; inversion Hd; exact V3|eauto]. }
      unfold goto_or_err. rewrite (goto_lookup rw k I (head q) k' Er Et Hk HB Hst). reflexivity.
    - (* the empty string of symbols *)
      intros k I sigma p d la r out Hk Hit Hs Hr.
      pose proof (C1_nth_reach G fuel C HC k I Hk) as HI. destruct (reach1_spelled G I HI) as [l Hl].
      destruct (Hl _ Hit) as [_ [Hle _]]. unfold core_of in Hle. cbn [fst snd] in Hle.
      assert (Ed : d = length (body p)).
      { apply (f_equal (@length _)) in Hs. rewrite skipn_length in Hs. simpl in Hs. lia. }
      exists [], out, k, I. simpl. subst d. repeat split; auto. apply reaches_refl.
    - (* a symbol, then the rest *)
      intros X b u1 u2 Hg IH1 Hgs IH2 k I sigma p d la r out Hk Hit Hs Hr.
      apply skipn_cons_inv in Hs as [Hd Hs'].
      assert (Hc : compat (skipn (S d) (body p)) la (u2 ++ r)) by (exists u2, r; rewrite Hs'; auto).
      destruct (IH1 k I sigma p d la (u2 ++ r) out Hk Hit Hd Hc) as [k1 [out1 [Hst1 Hr1]]].
      destruct (goto_state k I p d la X Hk Hit Hd) as [k1' [I1 [Hst1' [Hk1 Hit1]]]].
      assert (k1' = k1) by (apply Nat2Z.inj; congruence). subst k1'.
      destruct (IH2 k1 I1 (Z.of_nat k :: sigma) p (S d) la r out1 Hk1 Hit1 Hs' Hr)
        as [pushed [out2 [kt [It [Hr2 [Hlen [Hhd [Hkt Hcomp]]]]]]]].
      exists (pushed ++ [Z.of_nat k1]), out2, kt, It. repeat split; auto.
      + rewrite <- app_assoc. eapply reaches_trans; [exact Hr1|]. rewrite <- app_assoc. exact Hr2.
      + rewrite app_length. simpl. lia.
      + destruct pushed; simpl in *; auto.
  Qed.

  (** *** every sentence is accepted *)

  Theorem clr_complete w : L G w -> exists f evs, parse f tbl w = Accepted evs.
  Proof.
    intros HL. destruct table_shape as [rw [Er [Hsmall [Hwf Et]]]].
    assert (Hgen : gen G' (Nt (start G)) w).
    { unfold L in HL. apply derives_aug in HL. apply derives_derivesN in HL as [n Hn].
      apply derivesN_gens in Hn. inversion Hn as [|X b u1 u2 Hg Hgs]; subst.
      inversion Hgs; subst. now rewrite app_nil_r. }
    pose proof (C1_nth_0 G fuel C HC) as H0.
    set (I0 := closure1 (c_nterms (ctx_of G)) (c_nl (ctx_of G)) (c_fe (ctx_of G)) (c_ps (ctx_of G)) [(aug_prod G, 0, None)]) in *.
    assert (Hit0 : In (aug, 0, None) I0) by (apply closure1_incl; now left).
    assert (Hc0 : compat (skipn 1 (body aug)) None []).
    { exists [], []. simpl. repeat split; constructor. }
    destruct (proj1 big_step _ _ Hgen 0 I0 [] aug 0 None [] [] H0 Hit0 eq_refl Hc0) as [k' [out' [Hst [n Hn]]]].
    destruct (goto_state 0 I0 aug 0 None (Nt (start G)) H0 Hit0 eq_refl) as [k'' [I'' [Hst' [Hk'' Hit'']]]].
    assert (k'' = k') by (apply Nat2Z.inj; congruence). subst k''.
    destruct (clr_has rw k' I'' (aug, 1, None) Er Hk'' Hit'') as [_ [_ Hacc]].
    assert (Hfa : find_action (t_action tbl) (Z.of_nat k') None = Some Accept).
    { apply (action_lookup rw k' None Accept Er Hsmall Hwf Et). apply Hacc; reflexivity. }
    exists (n + 1), (rev out').
    change (parse (n + 1) tbl w) with (runc tbl (n + 1) ([0%Z], w, [])).
    rewrite runc_nsteps. rewrite app_nil_r in Hn. simpl Z.of_nat in Hn. rewrite Hn.
    rewrite runc_S. unfold step. cbn [peek hd_error]. rewrite Hfa. reflexivity.
  Qed.
End Complete.
