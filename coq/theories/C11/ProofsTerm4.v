(** C11 — no infinite run of reductions, part 2: LR automata seen through an interface.

    A table is described by two families of predicates: [CI k p d] (the LR(0) item (p, d) is in
    state k) and [IT k p d la] (the item is in state k with lookahead la — for SLR: la in
    FOLLOW(head p); for LALR: the LR(1) item is in the merged state).  The forward hypotheses
    (A0–A5) are what the completeness proofs use (CLOSURE is closed, GOTO moves the dot, the
    entries of complete items are in the conflict-free table); the backward hypotheses (B0–B3)
    say that a state contains nothing but the closure of its kernel.  Under them, for a valid
    grammar all of whose non-terminals generate:
    - every stack the driver can have spells a viable prefix [gamma], every item of its top state
      is valid for [gamma] with some right context ([VC], [vc_all]);
    - the driver reconstructs every such right-sentential form: on input (yield of gamma)(rest)
      it reaches the stack of [gamma] after exactly as many steps as the derivation forest of the
      yield has nodes ([reach]);
    - hence no infinite run of reductions on a fixed lookahead exists from a stack the driver can
      have ([no_infinite]): the stacks of such a run would all derive the consumed input with
      ever larger forests, each would be reached by the driver on a sentence, two of these
      sentences have the same next token, and the (finite) accepting run on one of them would pass
      through configurations that lie arbitrarily late.
    With [long_infinite] (ProofsTerm3): the driver stops on every input ([lr_no_hang]). *)
From Coq Require Import List ZArith Bool Arith Lia.
From Algo.Grammar Require Import CFG.
From Algo.C11 Require Import Model ModelPrec ModelSLR ModelLR1 Spec Proofs ProofsTerm ProofsOracle ProofsLR0 ProofsSLR ProofsCLR
  ProofsChain ProofsChain2 ProofsFuel ProofsGen ProofsClosure1 ProofsComplete ProofsTerm2 ProofsTerm3.
Import ListNotations.

(** ** generic facts about the driver *)

Section Driver.
  Variable tbl : table.

  Lemma nsteps_len' n : forall cf cf', nsteps tbl n cf = inl cf' -> length (snd (fst cf')) <= length (snd (fst cf)).
  Proof.
    induction n as [|n IH]; intros cf cf' H; simpl in H.
    - inversion H; subst. lia.
    - destruct (step tbl cf) as [c1|o] eqn:Es; [|discriminate]. apply IH in H.
      destruct cf as [[st inp] out]. unfold step in Es.
      destruct (find_action (t_action tbl) (peek st) (hd_error inp)) as [[t|p|]|]; inversion Es; subst c1;
        cbn [fst snd] in *; auto. destruct inp; simpl in *; lia.
  Qed.

  (** the moves up to the moment a token becomes the lookahead do not depend on what follows it *)
  Lemma nsteps_swap n : forall st0 u out0 rem rem' st out,
    nsteps tbl n (st0, u ++ rem, out0) = inl (st, rem, out) -> hd_error rem' = hd_error rem ->
    nsteps tbl n (st0, u ++ rem', out0) = inl (st, rem', out).
  Proof.
    induction n as [|n IH]; intros st0 u out0 rem rem' st out H Hhd.
    { simpl in H. inversion H as [[E1 E2 E3]]. assert (u = []).
      { apply (f_equal (@length _)) in E2. rewrite app_length in E2. destruct u; [reflexivity|simpl in E2; lia]. }
      subst u. reflexivity. }
    destruct rem as [|t y].
    { destruct rem'; [exact H|discriminate]. }
    simpl in H. cbn [nsteps]. unfold step in *.
    assert (Eh : hd_error (u ++ rem') = hd_error (u ++ t :: y)) by (destruct u; simpl; auto).
    rewrite Eh.
    destruct (find_action (t_action tbl) (peek st0) (hd_error (u ++ t :: y))) as [[t0|p|]|] eqn:Ea; try discriminate.
    - destruct u as [|b u1].
      + exfalso. simpl in H. apply nsteps_len' in H. cbn [fst snd] in H. simpl in H. lia.
      + simpl in H |- *. exact (IH _ _ _ _ _ _ _ H Hhd).
    - exact (IH _ _ _ _ _ _ _ H Hhd).
  Qed.

  (** a configuration of an accepting run is reached before the run ends *)
  Lemma accept_bound f w evs n cf : parse f tbl w = Accepted evs -> nsteps tbl n ([0%Z], w, []) = inl cf -> n < f.
  Proof.
    intros Hp Hn. destruct (le_lt_dec f n) as [Hle|]; auto. exfalso.
    change (parse f tbl w) with (runc tbl f ([0%Z], w, [])) in Hp.
    assert (Hnh : runc tbl f ([0%Z], w, []) <> Hang) by (rewrite Hp; discriminate).
    pose proof (runc_mono tbl f _ (n - f) Hnh) as E. replace (f + (n - f)) with (n + 0) in E by lia.
    rewrite runc_nsteps, Hn, Hp in E. destruct cf as [[st inp] out]. discriminate.
  Qed.
End Driver.

(** the tokens of a sentence are declared terminals *)
Lemma gen_terms G : (forall p c, In p (prods G) -> In (Tm c) (body p) -> In c (terms G)) ->
  (forall X u, gen G X u -> (forall t, X = Tm t -> In t (terms G)) -> forall t, In t u -> In t (terms G)) /\
  (forall b u, gens G b u -> (forall t, In (Tm t) b -> In t (terms G)) -> forall t, In t u -> In t (terms G)).
Proof.
  intros V1. apply gen_gens_ind.
  - intros t Ht t' [E|[]]. subst. now apply Ht.
  - intros p u Hp _ IH _ t Ht. apply IH; auto. intros t' Ht'. eapply V1; eauto.
  - intros _ t [].
  - intros X b u1 u2 _ IH1 _ IH2 Hb t Ht. apply in_app_or in Ht as [Ht|Ht].
    + apply IH1; auto. intros t' E. subst X. apply Hb. now left.
    + apply IH2; auto. intros t' Ht'. apply Hb. now right.
Qed.

Lemma L_terms G w : valid_grammar G -> L G w -> forall t, In t w -> In t (terms G).
Proof.
  intros [[V1 _] _] HL. apply L_gen in HL. apply (proj1 (gen_terms G V1) _ _ HL). intros t E. discriminate.
Qed.

(** pigeonhole over lookaheads: if every index [M] carries a lookahead [a] of a finite set with
    [Q M a], and [Q M a] bounds all indices that carry the same [a], we have a contradiction *)
Lemma look_eq_dec (a b : look) : {a = b} + {a <> b}.
Proof. decide equality. apply Nat.eq_dec. Qed.

Lemma look_pigeon (Q : nat -> look -> Prop) :
  (forall M a, Q M a -> exists F, forall M', Q M' a -> M' < F) ->
  forall n (Lam : list look) K, length Lam <= n -> (forall M, K <= M -> exists a, In a Lam /\ Q M a) -> False.
Proof.
  intros HQ. induction n as [|n IH]; intros Lam K Hlen Hall.
  - destruct (Hall K (le_n _)) as [a [Ha _]]. destruct Lam; [destruct Ha|simpl in Hlen; lia].
  - destruct (Hall K (le_n _)) as [a [Ha HQa]]. destruct (HQ K a HQa) as [F HF].
    apply (IH (remove look_eq_dec a Lam) (Nat.max K F)).
    + pose proof (remove_length_lt look_eq_dec Lam a Ha). lia.
    + intros M HM. destruct (Hall M ltac:(lia)) as [b [Hb HQb]]. exists b. split; auto.
      apply in_in_remove; auto. intros E. subst b. pose proof (HF M HQb). lia.
Qed.

Section LRI.
  Variable G : gram.
  Hypothesis Hvalid : valid_grammar G.
  Hypothesis Hgenerating : generating G.
  Variable tbl : table.
  Variable lbl : list (list sym).
  Hypothesis OK : table_ok G tbl lbl = true.
  Hypothesis Cpl : forall w, L G w -> exists f evs, parse f tbl w = Accepted evs.

  Let G' := augment G.
  Let ps := prods G'.
  Let aug := aug_prod G.
  Let S' := fresh_nt G.

  (** the transition function of the automaton, read off the table *)
  Definition trans (k : nat) (X : sym) (k' : nat) : Prop :=
    match X with
    | Tm t => find_action (t_action tbl) (Z.of_nat k) (Some t) = Some (Shift (Z.of_nat k'))
    | Nt B => find_goto (t_goto tbl) (Z.of_nat k) B = Some (Z.of_nat k')
    end.

  Lemma trans_fun k X k1 k2 : trans k X k1 -> trans k X k2 -> k1 = k2.
  Proof.
    destruct X as [t|B]; simpl; intros H1 H2; rewrite H1 in H2; inversion H2 as [E]; now apply Nat2Z.inj.
  Qed.

  Definition compatL (beta : list sym) (la : look) (r : list nat) : Prop :=
    exists r1 r2, r = r1 ++ r2 /\ gens G' beta r1 /\ hd_error r2 = la.

  Variable IT : nat -> prod -> nat -> look -> Prop.
  Variable CI : nat -> prod -> nat -> Prop.
  Hypothesis IT_CI : forall k p d la, IT k p d la -> CI k p d.
  Hypothesis A0 : IT 0 aug 0 None.
  Hypothesis A1 : forall k p d la q r, IT k p d la -> nth_error (body p) d = Some (Nt (head q)) -> In q ps ->
    compatL (skipn (S d) (body p)) la r -> IT k q 0 (hd_error r).
  Hypothesis A2 : forall k p d la X, IT k p d la -> nth_error (body p) d = Some X ->
    exists k', trans k X k' /\ IT k' p (S d) la.
  Hypothesis A3 : forall k q la, IT k q (length (body q)) la -> head q <> S' ->
    find_action (t_action tbl) (Z.of_nat k) la = Some (Reduce q).
  Hypothesis A5 : forall k p d, CI k p d -> In p ps /\ d <= length (body p).
  Hypothesis B0 : forall P : prod -> nat -> Prop, P aug 0 ->
    (forall p d q, P p d -> nth_error (body p) d = Some (Nt (head q)) -> In q ps -> P q 0) ->
    forall p d, CI 0 p d -> P p d.
  Hypothesis B1 : forall k X k', trans k X k' -> forall P : prod -> nat -> Prop,
    (forall p d, CI k p d -> nth_error (body p) d = Some X -> P p (S d)) ->
    (forall p d q, P p d -> nth_error (body p) d = Some (Nt (head q)) -> In q ps -> P q 0) ->
    forall p d, CI k' p d -> P p d.
  Hypothesis B2 : forall k X k', trans k X k' -> exists p d, CI k p d /\ nth_error (body p) d = Some X.
  Hypothesis B3 : forall k X k', trans k X k' -> exists p d, CI k' p d.

  (** ** stacks that follow the transition function (symbols: top first) *)

  Inductive wpath : list nat -> list sym -> Prop :=
  | wp_nil : wpath [0] []
  | wp_cons k st xs X k' : wpath (k :: st) xs -> trans k X k' -> wpath (k' :: k :: st) (X :: xs).

  Definition zs (ks : list nat) : list Z := map Z.of_nat ks.

  Lemma wpath_length ks xs : wpath ks xs -> length ks = S (length xs).
  Proof. induction 1; simpl; auto. Qed.

  Lemma wpath_skipn n : forall ks xs, wpath ks xs -> n <= length xs -> wpath (skipn n ks) (skipn n xs).
  Proof.
    induction n as [|n IH]; intros ks xs Hp Hn; [exact Hp|].
    destruct Hp as [|k st xs X k' Hp Ht]; simpl in Hn; [lia|]. simpl. apply IH; [exact Hp|lia].
  Qed.

  Lemma label_nonneg s l : label_of lbl s = Some l -> (0 <= s)%Z.
  Proof. unfold label_of. destruct (s <? 0)%Z eqn:E; [discriminate|]. intros _. now apply Z.ltb_ge. Qed.

  Lemma edge_target_nonneg s X t : edge_ok tbl lbl s X t = true -> (0 <= t)%Z.
  Proof.
    unfold edge_ok. destruct (label_of lbl s); [|discriminate]. destruct (label_of lbl t) eqn:E; [|discriminate].
    intros _. eapply label_nonneg; eauto.
  Qed.

  Lemma trans_edge k X k' : trans k X k' ->
    edge_ok tbl lbl (Z.of_nat k) X (Z.of_nat k') = true /\ In (Z.of_nat k, X, Z.of_nat k') (edges tbl).
  Proof.
    destruct X as [c|B]; simpl; intros Ht.
    - pose proof (ok_action G tbl lbl OK _ _ _ Ht) as Hok. simpl in Hok. apply andb_true_iff in Hok as [He _].
      split; [exact He|]. apply find_action_In in Ht. unfold edges. apply in_or_app. left. apply in_flat_map.
      exists (Z.of_nat k, Some c, Shift (Z.of_nat k')). split; [exact Ht|now left].
    - split; [exact (ok_goto G tbl lbl OK _ _ _ Ht)|]. apply find_goto_In in Ht. unfold edges. apply in_or_app. right.
      apply in_map_iff. exists (Z.of_nat k, B, Z.of_nat k'). split; [reflexivity|exact Ht].
  Qed.

  Lemma wpath_path ks xs : wpath ks xs -> path tbl lbl (zs ks) xs.
  Proof.
    induction 1 as [|k st xs X k' Hp IH Ht]; [constructor|].
    destruct (trans_edge _ _ _ Ht) as [He Hin]. simpl. constructor; auto.
  Qed.

  Lemma wpath_declared ks xs : wpath ks xs -> forall X, In X xs -> declared G X.
  Proof.
    induction 1 as [|k st xs X k' Hp IH Ht]; intros Y HY; [destruct HY|].
    destruct HY as [HY|HY]; [|now apply IH]. subst Y.
    destruct (B2 _ _ _ Ht) as [p [d [Hci Hd]]]. destruct (A5 _ _ _ Hci) as [Hpin _].
    apply (declared_body G Hvalid p X Hpin). eapply nth_error_In; eauto.
  Qed.

  Lemma wpath_top_item ks xs : wpath ks xs -> exists k st p d, ks = k :: st /\ CI k p d.
  Proof.
    destruct 1 as [|k st xs X k' Hp Ht].
    - exists 0, [], aug, 0. split; [reflexivity|]. eapply IT_CI; eauto.
    - destruct (B3 _ _ _ Ht) as [p [d Hci]]. exists k', (k :: st), p, d. auto.
  Qed.

  (** ** one reduction from a stack of the automaton *)

  Lemma rstep_neg a st : (peek st < 0)%Z -> rstep tbl a st = None.
  Proof. intros H. unfold rstep. now rewrite (no_action_neg G tbl lbl OK). Qed.

  Lemma sem1 a ks xs st' : wpath ks xs -> rstep tbl a (zs ks) = Some st' ->
    (exists ks' xs', st' = zs ks' /\ wpath ks' xs' /\
       forall u N, gensN G' (rev xs) u N -> gensN G' (rev xs') u (S N)) \/
    (exists r, st' = (-1)%Z :: r).
  Proof.
    intros Hp Hr. unfold rstep in Hr.
    destruct (find_action (t_action tbl) (peek (zs ks)) a) as [[t|p|]|] eqn:Ea; try discriminate.
    inversion Hr; subst st'; clear Hr.
    pose proof (ok_action G tbl lbl OK _ _ _ Ea) as Hok. unfold action_ok in Hok.
    apply andb_true_iff in Hok as [Hin Hsuf]. apply existsb_prod_In in Hin.
    destruct (path_label G tbl lbl OK _ _ (wpath_path _ _ Hp)) as [l [pre [Hl Hx]]]. rewrite Hl in Hsuf.
    apply is_suffix_spec in Hsuf as [pre2 Hsuf]. subst l.
    set (k := length (body p)) in *. set (g0 := pre ++ pre2).
    assert (Hxs : xs = rev (body p) ++ rev g0).
    { rewrite <- (rev_involutive xs), Hx, app_assoc. apply rev_app_distr. }
    assert (Hk : k <= length xs) by (rewrite Hxs, app_length, rev_length; unfold k; lia).
    assert (Hsk : skipn k xs = rev g0).
    { rewrite Hxs. unfold k. rewrite <- (rev_length (body p)), skipn_app, skipn_all, Nat.sub_diag. reflexivity. }
    pose proof (wpath_skipn k _ _ Hp Hk) as Hp'. rewrite Hsk in Hp'.
    unfold zs. rewrite skipn_map. fold (zs (skipn k ks)).
    destruct (skipn k ks) as [|k0 rest] eqn:Esk; [inversion Hp'|].
    cbn [zs map peek]. unfold goto_or_err.
    destruct (find_goto (t_goto tbl) (Z.of_nat k0) (head p)) as [t|] eqn:Eg; [left|right; eauto].
    pose proof (edge_target_nonneg _ _ _ (ok_goto G tbl lbl OK _ _ _ Eg)) as Hpos.
    exists (Z.to_nat t :: k0 :: rest), (Nt (head p) :: rev g0). split; [|split].
    - cbn [zs map]. now rewrite Z2Nat.id.
    - constructor; auto. simpl. now rewrite Z2Nat.id.
    - intros u N Hg. rewrite Hxs, rev_app_distr, !rev_involutive in Hg.
      apply gensN_split in Hg as [u1 [u2 [n1 [n2 [Eu [EN [G1 G2]]]]]]]. subst u N.
      simpl rev. rewrite rev_involutive.
      assert (Hnt : gensN G' [Nt (head p)] u2 (S n2)).
      { pose proof (gensN_cons G' (Nt (head p)) [] u2 [] (S n2) 0) as Hc.
        rewrite app_nil_r, Nat.add_0_r in Hc. apply Hc; [|constructor].
        constructor; [now right|exact G2]. }
      replace (S (n1 + n2)) with (n1 + S n2) by lia. now apply gensN_app.
  Qed.

  (** ** validity of an item for a viable prefix, with its right context *)

  Inductive VC : list sym -> prod -> nat -> list nat -> Prop :=
  | VC_init : VC [] aug 0 []
  | VC_close gamma p d q r r1 : VC gamma p d r -> nth_error (body p) d = Some (Nt (head q)) -> In q ps ->
      gens G' (skipn (S d) (body p)) r1 -> VC gamma q 0 (r1 ++ r)
  | VC_goto gamma p d X r : VC gamma p d r -> nth_error (body p) d = Some X -> VC (gamma ++ [X]) p (S d) r.

  Lemma VC_ps gamma p d r : VC gamma p d r -> In p ps.
  Proof. induction 1; auto. now left. Qed.

  Lemma gens_declared b : (forall X, In X b -> declared G X) -> exists v, gens G' b v.
  Proof.
    intros Hb. destruct (gen_str G' (declared G) (declared_gen G Hgenerating) b Hb) as [v Hv].
    exists v. now apply derives_gens.
  Qed.

  Lemma gens_rest p d : In p ps -> exists v, gens G' (skipn d (body p)) v.
  Proof.
    intros Hp. apply gens_declared. intros X HX. apply In_skipn in HX. exact (declared_body G Hvalid p X Hp HX).
  Qed.

  Lemma vc_all ks xs : wpath ks xs -> forall k st, ks = k :: st -> forall p d, CI k p d -> exists r, VC (rev xs) p d r.
  Proof.
    induction 1 as [|k st xs X k' Hp IH Ht]; intros k0 st0 E p d Hci; inversion E; subst k0 st0; clear E.
    - revert p d Hci. apply (B0 (fun p d => exists r, VC [] p d r)).
      + exists []. constructor.
      + intros p d q [r Hr] Hd Hq. destruct (gens_rest p (S d) (VC_ps _ _ _ _ Hr)) as [r1 Hr1].
        exists (r1 ++ r). econstructor; eauto.
    - revert p d Hci. apply (B1 _ _ _ Ht (fun p d => exists r, VC (rev (X :: xs)) p d r)).
      + intros p d Hci Hd. destruct (IH k st eq_refl p d Hci) as [r Hr]. exists r. simpl. now constructor.
      + intros p d q [r Hr] Hd Hq. destruct (gens_rest p (S d) (VC_ps _ _ _ _ Hr)) as [r1 Hr1].
        exists (r1 ++ r). econstructor; eauto.
  Qed.

  (** the completed right-sentential form is a sentence *)
  Lemma nth_skipn_cons {A} (l : list A) d X : nth_error l d = Some X -> skipn d l = X :: skipn (S d) l.
  Proof.
    revert l. induction d as [|d IH]; intros [|y l] H; simpl in H; try discriminate.
    - now inversion H.
    - simpl. now apply IH.
  Qed.

  Lemma VC_sentence gamma p d r : VC gamma p d r -> forall u v, gens G' gamma u -> gens G' (skipn d (body p)) v ->
    gen G' (Nt S') (u ++ v ++ r).
  Proof.
    induction 1 as [|gamma p d q r r1 Hvc IH Hd Hq Hr1|gamma p d X r Hvc IH Hd]; intros u v Hu Hv.
    - inversion Hu; subst. simpl. rewrite app_nil_r. change (@Nt nat nat S') with (@Nt nat nat (head aug)).
      constructor; [now left|exact Hv].
    - simpl in Hv.
      replace (u ++ v ++ r1 ++ r) with (u ++ (v ++ r1) ++ r) by (now rewrite <- app_assoc).
      apply IH; auto. rewrite (nth_skipn_cons _ _ _ Hd). constructor; auto. now constructor.
    - destruct (proj2 (gen_genN G') _ _ Hu) as [n Hn]. apply gensN_split in Hn as [u1 [u2 [n1 [n2 [Eu [_ [G1 G2]]]]]]].
      subst u. inversion G2 as [|X' b' w1 w2 m1 m2 Hx Hnil]; subst. inversion Hnil; subst. rewrite app_nil_r.
      rewrite <- app_assoc. replace (u1 ++ w1 ++ v ++ r) with (u1 ++ (w1 ++ v) ++ r) by (now rewrite <- app_assoc).
      apply IH; [exact (proj2 (genN_gen G') _ _ _ G1)|].
      rewrite (nth_skipn_cons _ _ _ Hd). constructor; auto. exact (proj1 (genN_gen G') _ _ _ Hx).
  Qed.

  Lemma VC_L gamma p d r u v : VC gamma p d r -> gens G' gamma u -> gens G' (skipn d (body p)) v -> L G (u ++ v ++ r).
  Proof.
    intros Hvc Hu Hv. apply L_unaug. unfold L. exact (proj1 (gens_derives G') _ _ (VC_sentence _ _ _ _ Hvc u v Hu Hv)).
  Qed.

  (** ** the driver follows generations, with exact step counts *)

  Definition PgN (X : sym) (u : list nat) (n : nat) : Prop :=
    forall k sigma p d la r out, IT k p d la -> nth_error (body p) d = Some X ->
      compatL (skipn (S d) (body p)) la r ->
      exists k' out', trans k X k' /\ IT k' p (S d) la /\
        nsteps tbl n (Z.of_nat k :: sigma, u ++ r, out) = inl (Z.of_nat k' :: Z.of_nat k :: sigma, r, out').

  Definition PgsN (b : list sym) (u : list nat) (n : nat) : Prop :=
    forall k sigma p d la r out, IT k p d la -> skipn d (body p) = b -> hd_error r = la ->
      exists pushed out' kt,
        nsteps tbl n (Z.of_nat k :: sigma, u ++ r, out) = inl (pushed ++ Z.of_nat k :: sigma, r, out') /\
        length pushed = length b /\ hd (Z.of_nat k) pushed = Z.of_nat kt /\ IT kt p (length (body p)) la.

  Lemma big_stepN : (forall X u n, genN G' X u n -> PgN X u n) /\ (forall b u n, gensN G' b u n -> PgsN b u n).
  Proof.
    apply genN_gensN_ind.
    - intros t k sigma p d la r out Hit Hd Hc.
      destruct (A2 _ _ _ _ _ Hit Hd) as [k' [Ht Hit']]. exists k', (EvTok (Some t) :: out).
      split; [exact Ht|]. split; [exact Hit'|]. simpl in Ht. simpl. unfold step. cbn [peek hd_error]. rewrite Ht. reflexivity.
    - intros q u n Hq Hg IH k sigma p d la r out Hit Hd Hc.
      pose proof (A1 _ _ _ _ q r Hit Hd Hq Hc) as Hq0.
      destruct (IH k sigma q 0 (hd_error r) r out Hq0 eq_refl eq_refl) as [pushed [out1 [kt [Hn [Hlen [Hhd Hcomp]]]]]].
      destruct (A2 _ _ _ _ _ Hit Hd) as [k' [Ht Hit']]. exists k', (EvProd q :: out1).
      split; [exact Ht|]. split; [exact Hit'|].
      replace (S n) with (n + 1) by lia. rewrite (nsteps_add tbl n 1 _ _ Hn). simpl. unfold step.
      rewrite peek_app_hd, Hhd.
      assert (Hnf : head q <> S').
      { intros E. destruct (A5 _ _ _ (IT_CI _ _ _ _ Hit)) as [Hp _]. apply (fresh_not_in_bodies G p Hp).
        unfold S' in E. rewrite <- E. eapply nth_error_In; eauto. }
      rewrite (A3 _ _ _ Hcomp Hnf).
      assert (Hsk : skipn (length (body q)) (pushed ++ Z.of_nat k :: sigma) = Z.of_nat k :: sigma).
      { assert (Hgg : forall n0, n0 = length pushed -> skipn n0 (pushed ++ Z.of_nat k :: sigma) = Z.of_nat k :: sigma).
        { intros n0 E0. subst n0. rewrite skipn_app, skipn_all, Nat.sub_diag. reflexivity. }
        apply Hgg. now rewrite Hlen. }
      rewrite Hsk. cbn [peek]. unfold goto_or_err. simpl in Ht. rewrite Ht. reflexivity.
    - intros k sigma p d la r out Hit Hs Hr.
      destruct (A5 _ _ _ (IT_CI _ _ _ _ Hit)) as [_ Hle].
      assert (Ed : d = length (body p)).
      { apply (f_equal (@length _)) in Hs. rewrite skipn_length in Hs. simpl in Hs. lia. }
      exists [], out, k. simpl. subst d. repeat split; auto.
    - intros X b u1 u2 n1 n2 Hg IH1 Hgs IH2 k sigma p d la r out Hit Hs Hr.
      apply skipn_cons_inv in Hs as [Hd Hs'].
      assert (Hc : compatL (skipn (S d) (body p)) la (u2 ++ r)).
      { exists u2, r. rewrite Hs'. repeat split; auto. exact (proj2 (genN_gen G') _ _ _ Hgs). }
      destruct (IH1 k sigma p d la (u2 ++ r) out Hit Hd Hc) as [k1 [out1 [Ht1 [Hit1 Hn1]]]].
      destruct (IH2 k1 (Z.of_nat k :: sigma) p (S d) la r out1 Hit1 Hs' Hr)
        as [pushed [out2 [kt [Hn2 [Hlen [Hhd Hcomp]]]]]].
      exists (pushed ++ [Z.of_nat k1]), out2, kt. repeat split; auto.
      + rewrite <- app_assoc. rewrite (nsteps_add tbl n1 n2 _ _ Hn1). rewrite <- app_assoc. exact Hn2.
      + rewrite app_length. simpl. lia.
      + destruct pushed; simpl in *; auto.
  Qed.

  (** ** the driver reaches the stack of every valid prefix *)

  Lemma reach gamma p d r : VC gamma p d r -> forall u n v, gensN G' gamma u n -> gens G' (skipn d (body p)) v ->
    exists k st out, wpath (k :: st) (rev gamma) /\ IT k p d (hd_error r) /\
      nsteps tbl n ([0%Z], u ++ v ++ r, []) = inl (zs (k :: st), v ++ r, out).
  Proof.
    induction 1 as [|gamma p d q r r1 Hvc IH Hd Hq Hr1|gamma p d X r Hvc IH Hd]; intros u n v Hu Hv.
    - inversion Hu; subst. exists 0, [], []. split; [constructor|]. split; [exact A0|reflexivity].
    - simpl in Hv.
      assert (Hv' : gens G' (skipn d (body p)) (v ++ r1)).
      { rewrite (nth_skipn_cons _ _ _ Hd). constructor; auto. now constructor. }
      destruct (IH u n (v ++ r1) Hu Hv') as [k [st [out [Hw [Hit Hn]]]]].
      exists k, st, out. split; [exact Hw|]. split.
      + apply (A1 _ _ _ _ q (r1 ++ r) Hit Hd Hq). exists r1, r. auto.
      + rewrite <- !app_assoc in Hn. exact Hn.
    - apply gensN_split in Hu as [u1 [u2 [n1 [n2 [Eu [En [G1 G2]]]]]]]. subst u n.
      inversion G2 as [|X' b' w1 w2 m1 m2 Hx Hnil]; subst. inversion Hnil; subst. rewrite app_nil_r, Nat.add_0_r.
      assert (Hv' : gens G' (skipn d (body p)) (w1 ++ v)).
      { rewrite (nth_skipn_cons _ _ _ Hd). constructor; auto. exact (proj1 (genN_gen G') _ _ _ Hx). }
      destruct (IH u1 n1 (w1 ++ v) G1 Hv') as [k [st [out [Hw [Hit Hn]]]]].
      assert (Hc : compatL (skipn (S d) (body p)) (hd_error r) (v ++ r)) by (exists v, r; auto).
      destruct (proj1 big_stepN _ _ _ Hx k (zs st) p d (hd_error r) (v ++ r) out Hit Hd Hc) as [k' [out' [Ht [Hit' Hn']]]].
      exists k', (k :: st), out'. split; [|split; [exact Hit'|]].
      + rewrite rev_app_distr. simpl. now constructor.
      + rewrite <- !app_assoc. rewrite <- !app_assoc in Hn. rewrite (nsteps_add tbl n1 m1 _ _ Hn). exact Hn'.
  Qed.

  (** ** no infinite run of reductions from a stack of the automaton *)

  Lemma run_sem a ks xs u N0 : wpath ks xs -> gensN G' (rev xs) u N0 ->
    forall M, rrun tbl a (S M) (zs ks) <> None ->
    exists ks' xs', rrun tbl a M (zs ks) = Some (zs ks') /\ wpath ks' xs' /\ gensN G' (rev xs') u (N0 + M).
  Proof.
    intros Hp Hg. induction M as [|M IH]; intros Hrun.
    - exists ks, xs. rewrite Nat.add_0_r. auto.
    - destruct (IH (rrun_prefix tbl a _ _ Hrun (S M) ltac:(lia))) as [ks' [xs' [Hr [Hp' Hg']]]].
      pose proof (rrun_prefix tbl a _ _ Hrun (S M) ltac:(lia)) as H1. rewrite rrun_S_r, Hr in H1.
      destruct (rstep tbl a (zs ks')) as [st''|] eqn:Es; [|congruence].
      destruct (sem1 a ks' xs' st'' Hp' Es) as [[ks2 [xs2 [E2 [Hp2 Hg2]]]]|[r E2]].
      + exists ks2, xs2. rewrite rrun_S_r, Hr, Es, E2. repeat split; auto.
        replace (N0 + S M) with (S (N0 + M)) by lia. now apply Hg2.
      + exfalso. apply Hrun. rewrite rrun_S_r, rrun_S_r, Hr, Es, E2. apply rstep_neg. simpl. lia.
  Qed.

  Theorem no_infinite a ks xs : wpath ks xs -> (forall M, rrun tbl a M (zs ks) <> None) -> False.
  Proof.
    intros Hp Hinf.
    destruct (gens_declared (rev xs)) as [u Hu].
    { intros X HX. apply in_rev in HX. exact (wpath_declared _ _ Hp X HX). }
    destruct (proj2 (gen_genN G') _ _ Hu) as [N0 HN0].
    set (Lam := None :: map Some (terms G)).
    set (Q := fun (M : nat) (la : look) => exists n rem, M <= n /\ hd_error rem = la /\ L G (u ++ rem) /\
                exists st out, nsteps tbl n ([0%Z], u ++ rem, []) = inl (st, rem, out)).
    apply (look_pigeon Q) with (n := length Lam) (Lam := Lam) (K := 0); [|apply le_n|].
    - intros M la [n [rem [Hle [Hhd [HL _]]]]]. destruct (Cpl _ HL) as [f [evs Hacc]]. exists f.
      intros M' [n' [rem' [Hle' [Hhd' [_ [st' [out' Hn']]]]]]].
      assert (Hsw : nsteps tbl n' ([0%Z], u ++ rem, []) = inl (st', rem, out')).
      { apply (nsteps_swap tbl n' _ u [] rem' rem st' out' Hn'). congruence. }
      pose proof (accept_bound tbl f _ evs n' _ Hacc Hsw). lia.
    - intros M _.
      destruct (run_sem a ks xs u N0 Hp HN0 M (Hinf (S M))) as [ks' [xs' [_ [Hp' Hg']]]].
      destruct (wpath_top_item _ _ Hp') as [k [st [p [d [Eks Hci]]]]]. subst ks'.
      destruct (vc_all _ _ Hp' k st eq_refl p d Hci) as [r Hvc].
      destruct (gens_rest p d (VC_ps _ _ _ _ Hvc)) as [v Hv].
      destruct (reach _ _ _ _ Hvc u (N0 + M) v Hg' Hv) as [k2 [st2 [out [_ [_ Hn]]]]].
      pose proof (VC_L _ _ _ _ u v Hvc (proj2 (genN_gen G') _ _ _ Hg') Hv) as HL.
      exists (hd_error (v ++ r)). split.
      + destruct (v ++ r) as [|t y] eqn:E; [now left|]. right. simpl. apply (in_map Some).
        apply (L_terms G _ Hvalid HL). apply in_or_app. right. now left.
      + exists (N0 + M), (v ++ r). repeat split; auto; try lia. eauto.
  Qed.

  (** ** the driver stops on every input *)

  Definition WInv (cf : cfg) : Prop := exists ks xs, fst (fst cf) = zs ks /\ wpath ks xs.

  Lemma step_WInv cf cf' : WInv cf -> step tbl cf = inl cf' -> WInv cf' \/ dead cf'.
  Proof.
    destruct cf as [[st inp] out]. intros [ks [xs [Est Hp]]]. cbn [fst snd] in Est. subst st.
    unfold step.
    destruct (find_action (t_action tbl) (peek (zs ks)) (hd_error inp)) as [[t|p|]|] eqn:Ea; try discriminate.
    - intros Hc. inversion Hc; subst cf'; clear Hc. left.
      pose proof (ok_action G tbl lbl OK _ _ _ Ea) as Hok. unfold action_ok in Hok.
      destruct inp as [|c inp]; [discriminate|]. simpl in Hok. apply andb_true_iff in Hok as [He _].
      pose proof (edge_target_nonneg _ _ _ He) as Hpos.
      destruct Hp as [|k st xs X k' Hp Ht].
      + exists [Z.to_nat t; 0], [Tm c]. cbn [fst snd zs map]. rewrite Z2Nat.id by exact Hpos. split; [reflexivity|].
        constructor; [constructor|]. simpl. rewrite Z2Nat.id by exact Hpos. exact Ea.
      + exists (Z.to_nat t :: k' :: k :: st), (Tm c :: X :: xs). cbn [fst snd zs map]. rewrite Z2Nat.id by exact Hpos.
        split; [reflexivity|]. constructor; [now constructor|]. simpl. rewrite Z2Nat.id by exact Hpos. exact Ea.
    - intros Hc. inversion Hc; subst cf'; clear Hc.
      assert (Hr : rstep tbl (hd_error inp) (zs ks) =
                   Some (goto_or_err tbl (peek (skipn (length (body p)) (zs ks))) (head p) :: skipn (length (body p)) (zs ks))).
      { unfold rstep. now rewrite Ea. }
      destruct (sem1 _ _ _ _ Hp Hr) as [[ks2 [xs2 [E2 [Hp2 _]]]]|[r E2]].
      + left. exists ks2, xs2. cbn [fst snd]. auto.
      + right. exists r. cbn [fst snd]. exact E2.
  Qed.

  Lemma nsteps_WInv n : forall cf cf', WInv cf -> nsteps tbl n cf = inl cf' -> WInv cf' \/ dead cf'.
  Proof.
    induction n as [|n IH]; intros cf cf' HI H; simpl in H.
    - inversion H; subst. now left.
    - destruct (step tbl cf) as [c1|o] eqn:Es; [|discriminate].
      destruct (step_WInv _ _ HI Es) as [HI1|Hd1]; [eapply IH; eauto|].
      destruct n as [|n]; simpl in H.
      + inversion H; subst. now right.
      + destruct (step_dead G tbl lbl OK _ Hd1) as [r [e Hr]]. rewrite Hr in H. discriminate.
  Qed.

  Lemma dead_stops cf : dead cf -> runc tbl 1 cf <> Hang.
  Proof. intros Hd. rewrite runc_S. destruct (step_dead G tbl lbl OK _ Hd) as [r [e Hr]]. rewrite Hr. discriminate. Qed.

  Lemma no_hang_aux m : forall cf, WInv cf -> length (snd (fst cf)) < m -> exists f, runc tbl f cf <> Hang.
  Proof.
    induction m as [|m IH]; intros [[st inp] out] HI Hm; [lia|]. cbn [fst snd] in Hm.
    pose proof HI as [ks [xs [Est Hp]]]. cbn [fst snd] in Est.
    set (a := hd_error inp). set (B := run_bound tbl st).
    destruct (rrun tbl a B st) as [sB|] eqn:EB.
    - exfalso. subst st. apply (no_infinite a ks xs Hp).
      apply (long_infinite tbl a (zs ks) B); [|rewrite EB; discriminate|apply le_n].
      destruct Hp; discriminate.
    - destruct (rrun_first_stop tbl a B st EB) as [j [stj [Hj [Hrj Hstop]]]].
      destruct (rrun_nsteps tbl a j st stj inp out eq_refl Hrj) as [outj Hnj].
      destruct (nsteps_WInv j _ _ HI Hnj) as [HIj|Hdj].
      2:{ exists (j + 1). rewrite runc_nsteps, Hnj. now apply dead_stops. }
      destruct (step tbl (stj, inp, outj)) as [c2|o] eqn:Es.
      + (* a shift *)
        pose proof Es as Es'. unfold step in Es'. unfold rstep in Hstop. fold a in Es'.
        destruct (find_action (t_action tbl) (peek stj) a) as [[t|p|]|] eqn:Ea; try discriminate.
        inversion Es'; subst c2; clear Es'.
        pose proof (ok_action G tbl lbl OK _ _ _ Ea) as Hok. unfold action_ok in Hok.
        destruct inp as [|c inp]; [discriminate|]. cbn [tl].
        destruct (step_WInv _ _ HIj Es) as [HI2|Hd2].
        * destruct (IH _ HI2) as [f' Hf']; [simpl; simpl in Hm; lia|].
          exists (j + S f'). rewrite runc_nsteps, Hnj, runc_S, Es. exact Hf'.
        * exists (j + 2). rewrite runc_nsteps, Hnj. change 2 with (S 1). rewrite runc_S, Es. now apply dead_stops.
      + exists (j + 1). rewrite runc_nsteps, Hnj, runc_S, Es. unfold step in Es.
        destruct (find_action (t_action tbl) (peek stj) (hd_error inp)) as [[t|p|]|]; inversion Es; discriminate.
  Qed.

  Theorem lr_no_hang w : exists f, parse f tbl w <> Hang.
  Proof.
    apply (no_hang_aux (S (length w)) ([0%Z], w, [])); [|cbn [fst snd]; lia].
    exists [0], []. split; [reflexivity|constructor].
  Qed.
End LRI.
