(** C11 — the chain on the modelled constructions, without precedence declarations:
    LALR conflict-free => canonical LR(1) conflict-free, and SLR conflict-free => LALR conflict-free. *)
From Coq Require Import List ZArith Bool Arith Lia.
From Algo.Grammar Require Import CFG.
From Algo.C11 Require Import Model ModelPrec ModelSLR ModelLR1 Proofs ProofsLR0 ProofsSLR ProofsCLR ProofsLALR ProofsPrec.
Import ListNotations.

(** ** cells: completeness of [cell_add], unique keys, duplicate-free action lists *)

Definition ckey (c : Z * look * list action) : Z * look := fst c.

Definition has (cells : list (Z * look * list action)) (s : Z) (a : look) (x : action) : Prop :=
  exists l, In (s, a, l) cells /\ In x l.

Lemma action_eqb_eq x y : action_eqb x y = true -> x = y.
Proof.
  destruct x, y; simpl; intros H; try discriminate; auto.
  - apply Z.eqb_eq in H. now subst.
  - apply prod_eqb_eq in H. now subst.
Qed.

Lemma mem_action_In x l : mem_action x l = true <-> In x l.
Proof.
  unfold mem_action. rewrite existsb_exists. split.
  - intros [y [Hy E]]. apply action_eqb_eq in E. now subst.
  - intros H. exists x. split; auto. apply action_eqb_refl.
Qed.

Lemma key_eqb_spec s a s' a' : Z.eqb s s' && look_eqb a a' = true <-> (s, a) = (s', a').
Proof.
  split.
  - intros H. apply andb_true_iff in H as [H1 H2]. apply Z.eqb_eq in H1. apply look_eqb_eq in H2. now subst.
  - intros H. inversion H; subst. now rewrite Z.eqb_refl, look_eqb_refl.
Qed.

Lemma has_cell_add_same cells s a x : has (cell_add cells s a x) s a x.
Proof.
  induction cells as [|[[s' a'] l] cells IH]; simpl.
  - exists [x]. split; now left.
  - destruct (Z.eqb s s' && look_eqb a a') eqn:E.
    + apply key_eqb_spec in E. inversion E; subst s' a'.
      destruct (mem_action x l) eqn:Em.
      * exists l. split; [now left|now apply mem_action_In].
      * exists (l ++ [x]). split; [now left|apply in_or_app; right; now left].
    + destruct IH as [l' [H1 H2]]. exists l'. split; [now right|exact H2].
Qed.

Lemma has_cell_add_mono cells s a x s0 a0 x0 : has cells s0 a0 x0 -> has (cell_add cells s a x) s0 a0 x0.
Proof.
  induction cells as [|[[s' a'] l] cells IH]; intros [l0 [H1 H2]]; simpl.
  - destruct H1.
  - destruct (Z.eqb s s' && look_eqb a a') eqn:E.
    + destruct H1 as [H1|H1].
      * inversion H1; subst. eexists. split; [now left|].
        destruct (mem_action x l0); auto. apply in_or_app. now left.
      * exists l0. split; [now right|exact H2].
    + destruct H1 as [H1|H1].
      * exists l0. split; [now left|exact H2].
      * destruct (IH (ex_intro _ l0 (conj H1 H2))) as [l' [H3 H4]]. exists l'. split; [now right|exact H4].
Qed.

Lemma cell_add_keys cells s a x :
  map ckey (cell_add cells s a x) = if existsb (fun k => Z.eqb s (fst k) && look_eqb a (snd k)) (map ckey cells)
                                    then map ckey cells else map ckey cells ++ [(s, a)].
Proof.
  induction cells as [|[[s' a'] l] cells IH]; simpl; [reflexivity|].
  destruct (Z.eqb s s' && look_eqb a a') eqn:E; simpl; [reflexivity|].
  rewrite IH. destruct (existsb _ (map ckey cells)); reflexivity.
Qed.

Lemma NoDup_snoc {A} (l : list A) k : NoDup l -> ~ In k l -> NoDup (l ++ [k]).
Proof.
  induction 1 as [|y l Hy Hn IH]; intros Hk; simpl.
  - constructor; [intros []|constructor].
  - constructor.
    + intros Hin. apply in_app_or in Hin as [Hin|[Hin|[]]]; [contradiction|subst; apply Hk; now left].
    + apply IH. intros Hin. apply Hk. now right.
Qed.

Definition cells_wf (cells : list (Z * look * list action)) : Prop :=
  NoDup (map ckey cells) /\ forall s a l, In (s, a, l) cells -> NoDup l.

Lemma cell_add_wf cells s a x : cells_wf cells -> cells_wf (cell_add cells s a x).
Proof.
  intros [Hk Hl]. split.
  - rewrite cell_add_keys. destruct (existsb _ (map ckey cells)) eqn:E; auto.
    apply NoDup_snoc; auto. intros Hin.
    assert (Ht : existsb (fun k => Z.eqb s (fst k) && look_eqb a (snd k)) (map ckey cells) = true).
    { apply existsb_exists. exists (s, a). split; auto. simpl. now rewrite Z.eqb_refl, look_eqb_refl. }
    congruence.
  - clear Hk. induction cells as [|[[s' a'] l] cells IH]; simpl.
    + intros s0 a0 l0 [H|[]]. inversion H; subst. constructor; [intros []|constructor].
    + destruct (Z.eqb s s' && look_eqb a a') eqn:E.
      * intros s0 a0 l0 [H|H]; [|eapply Hl; right; exact H].
        inversion H; subst. destruct (mem_action x l) eqn:Em; [eapply Hl; left; reflexivity|].
        apply NoDup_snoc; [eapply Hl; left; reflexivity|].
        intros Hin. apply mem_action_In in Hin. congruence.
      * intros s0 a0 l0 [H|H]; [eapply Hl; left; exact H|].
        eapply IH; [|exact H]. intros s1 a1 l1 H1. eapply Hl. right. exact H1.
Qed.

Lemma cells_wf_nil : cells_wf [].
Proof. split; [constructor|intros s a l []]. Qed.

Lemma keys_unique cells s a l1 l2 : NoDup (map ckey cells) -> In (s, a, l1) cells -> In (s, a, l2) cells -> l1 = l2.
Proof.
  induction cells as [|c cells IH]; intros Hn H1 H2; [destruct H1|].
  simpl in Hn. apply NoDup_cons_iff in Hn as [Hc Hn].
  destruct H1 as [H1|H1], H2 as [H2|H2].
  - subst c. now inversion H2.
  - exfalso. apply Hc. subst c. apply in_map_iff. exists (s, a, l2). split; [reflexivity|exact H2].
  - exfalso. apply Hc. subst c. apply in_map_iff. exists (s, a, l1). split; [reflexivity|exact H1].
  - now apply IH.
Qed.

(** two different actions in one cell: a list with at least two elements *)
Lemma has_two cells s a x y : cells_wf cells -> has cells s a x -> has cells s a y -> x <> y ->
  exists l, In (s, a, l) cells /\ 2 <= length l.
Proof.
  intros [Hk _] [l1 [H1 Hx]] [l2 [H2 Hy]] Hne.
  assert (l1 = l2) by (eapply keys_unique; eauto). subst l2. exists l1. split; auto.
  destruct l1 as [|u [|v l1]]; [destruct Hx| |simpl; lia].
  exfalso. destruct Hx as [Hx|[]], Hy as [Hy|[]]. congruence.
Qed.

(** generic: a property established at one step of a fold and preserved by all steps *)
Lemma fold_establish {A B} (f : A -> B -> A) (Q : A -> Prop) (l : list B) b :
  In b l -> (forall c, Q (f c b)) -> (forall c b', Q c -> Q (f c b')) -> forall c, Q (fold_left f l c).
Proof.
  induction l as [|b0 l IH]; intros Hin He Hp c; [destruct Hin|]. simpl.
  destruct Hin as [Hin|Hin].
  - subst b0. clear IH. generalize (He c). generalize (f c b). induction l as [|b1 l IHl]; intros c' Hc'; simpl; auto.
  - apply IH; auto.
Qed.

Lemma fold_preserve {A B} (f : A -> B -> A) (Q : A -> Prop) (l : list B) :
  (forall c b', Q c -> Q (f c b')) -> forall c, Q c -> Q (fold_left f l c).
Proof. intros Hp. induction l as [|b l IH]; intros c Hc; simpl; auto. Qed.

Lemma combine_seq_nth {A} (f : nat -> Z) (l : list A) : forall a k x,
  nth_error l k = Some x -> In (f (a + k), x) (combine (map f (seq a (length l))) l).
Proof.
  induction l as [|y l IH]; intros a k x H; [destruct k; discriminate|].
  destruct k as [|k]; simpl in *.
  - inversion H; subst. left. now rewrite Nat.add_0_r.
  - right. rewrite Nat.add_succ_r. apply (IH (S a) k x H).
Qed.

(** ** without precedence levels: conflict-free = every cell has at most one action *)

Lemma resolve_nil_two a x1 x2 l : x1 <> x2 -> resolve_conflict [] a (x1 :: x2 :: l) = None.
Proof.
  intros Hne. unfold resolve_conflict. cbn [map resolve_loop].
  rewrite compare_refl. cbn [Z.ltb Z.compare].
  unfold compare at 1.
  destruct (pair_eqb (x2, handle_of_action a x2) (x1, handle_of_action a x1)) eqn:E.
  - exfalso. unfold pair_eqb in E. simpl in E. apply andb_true_iff in E as [E _].
    apply action_eqb_eq in E. congruence.
  - reflexivity.
Qed.

Definition small_cells (cells : list (Z * look * list action)) : Prop :=
  forall s a l, In (s, a, l) cells -> length l <= 1.

Lemma resolve_cells_nil_small cells : (forall s a l, In (s, a, l) cells -> NoDup l) ->
  snd (resolve_cells [] cells) = [] -> small_cells cells.
Proof.
  induction cells as [|[[s a] l] cells IH]; intros Hn H; [intros ? ? ? []|].
  simpl in H.
  assert (Hn' : forall s a l, In (s, a, l) cells -> NoDup l) by (intros; eapply Hn; right; eauto).
  destruct l as [|x1 [|x2 l]].
  - intros s0 a0 l0 [E|Hin]; [inversion E; simpl; lia|]. eapply IH; eauto.
  - simpl in H. intros s0 a0 l0 [E|Hin]; [inversion E; simpl; lia|]. eapply IH; eauto.
  - exfalso. assert (Hne : x1 <> x2).
    { pose proof (Hn s a _ (or_introl eq_refl)) as Hd. inversion Hd as [|? ? Hnin _]; subst.
      intros E. apply Hnin. subst. now left. }
    rewrite (resolve_nil_two a x1 x2 l Hne) in H. simpl in H. discriminate.
Qed.

Lemma small_resolve_cells_nil cells : small_cells cells -> snd (resolve_cells [] cells) = [].
Proof.
  induction cells as [|[[s a] l] cells IH]; intros Hs; [reflexivity|]. simpl.
  assert (Hs' : small_cells cells) by (intros s0 a0 l0 H; eapply Hs; right; eauto).
  pose proof (Hs s a l (or_introl eq_refl)) as Hl.
  destruct l as [|x1 [|x2 l]]; simpl in *; auto. lia.
Qed.

Lemma finish_nil_ok r : (forall s a l, In (s, a, l) (r_action r) -> NoDup l) ->
  (exists t, finish (Some r) [] = BuiltOk t) <-> small_cells (r_action r).
Proof.
  intros Hn. unfold finish. simpl.
  destruct (resolve_cells [] (r_action r)) as [acts confl] eqn:E. split.
  - intros [t H]. destruct confl; [|discriminate]. apply resolve_cells_nil_small; auto. now rewrite E.
  - intros Hs. apply small_resolve_cells_nil in Hs. rewrite E in Hs. simpl in Hs. subst confl. eauto.
Qed.

(** ** what [item1_actions] enters *)

Section ItemActions.
  Variable G : gram.
  Variable target : sym -> Z.
  Variable i : Z.

  Lemma ia_wf cells it : cells_wf cells -> cells_wf (item1_actions G target i cells it).
  Proof.
    intros H. unfold item1_actions.
    set (c1 := match dot_symbol (core_of it) with
               | Some (Tm a) => cell_add cells i (Some a) (Shift (target (Tm a))) | _ => cells end).
    assert (H1 : cells_wf c1) by (unfold c1; destruct (dot_symbol (core_of it)) as [[a|A]|]; auto using cell_add_wf).
    destruct (is_complete (core_of it)); auto.
    destruct (Nat.eqb (head (fst (fst it))) (fresh_nt G)); [destruct (la_of it)|]; auto using cell_add_wf.
  Qed.

  Lemma ia_mono cells it s a x : has cells s a x -> has (item1_actions G target i cells it) s a x.
  Proof.
    intros H. unfold item1_actions.
    set (c1 := match dot_symbol (core_of it) with
               | Some (Tm a) => cell_add cells i (Some a) (Shift (target (Tm a))) | _ => cells end).
    assert (H1 : has c1 s a x) by (unfold c1; destruct (dot_symbol (core_of it)) as [[b|A]|]; auto using has_cell_add_mono).
    destruct (is_complete (core_of it)); auto.
    destruct (Nat.eqb (head (fst (fst it))) (fresh_nt G)); [destruct (la_of it)|]; auto using has_cell_add_mono.
  Qed.

  Lemma ia_shift cells it t : dot_symbol (core_of it) = Some (Tm t) ->
    has (item1_actions G target i cells it) i (Some t) (Shift (target (Tm t))).
  Proof.
    intros Hd. unfold item1_actions. rewrite Hd.
    assert (H1 : has (cell_add cells i (Some t) (Shift (target (Tm t)))) i (Some t) (Shift (target (Tm t))))
      by apply has_cell_add_same.
    destruct (is_complete (core_of it)); auto.
    destruct (Nat.eqb (head (fst (fst it))) (fresh_nt G)); [destruct (la_of it)|]; auto using has_cell_add_mono.
  Qed.

  Lemma ia_reduce cells it : is_complete (core_of it) = true -> head (fst (fst it)) <> fresh_nt G ->
    has (item1_actions G target i cells it) i (la_of it) (Reduce (fst (fst it))).
  Proof.
    intros Hc Hh. unfold item1_actions. rewrite Hc.
    destruct (Nat.eqb_spec (head (fst (fst it))) (fresh_nt G)); [contradiction|]. apply has_cell_add_same.
  Qed.

  Lemma ia_accept cells it : is_complete (core_of it) = true -> head (fst (fst it)) = fresh_nt G ->
    la_of it = None -> has (item1_actions G target i cells it) i None Accept.
  Proof.
    intros Hc Hh Hl. unfold item1_actions. rewrite Hc, Hh, Nat.eqb_refl, Hl. apply has_cell_add_same.
  Qed.
End ItemActions.

(** shift targets erased *)
Definition proj (x : action) : action := match x with Shift _ => Shift 0 | _ => x end.

(** what an LR(1) item contributes to the cell (s, a), up to the shift target *)
Definition contrib1 (it : item1) (fresh : nat) (a : look) (x : action) : Prop :=
  (exists t, dot_symbol (core_of it) = Some (Tm t) /\ a = Some t /\ proj x = Shift 0) \/
  (is_complete (core_of it) = true /\ head (fst (fst it)) = fresh /\ la_of it = None /\ a = None /\ x = Accept) \/
  (is_complete (core_of it) = true /\ head (fst (fst it)) <> fresh /\ a = la_of it /\ x = Reduce (fst (fst it))).

Lemma ia_sound G target i cells it (P : Z -> look -> action -> Prop) :
  (forall a x, contrib1 it (fresh_nt G) a x -> (forall t, x = Shift t -> t = target (Tm match a with Some c => c | None => 0 end)) -> P i a x) ->
  cells_ok P cells -> cells_ok P (item1_actions G target i cells it).
Proof.
  intros HP Hc. unfold item1_actions.
  set (c1 := match dot_symbol (core_of it) with
             | Some (Tm a) => cell_add cells i (Some a) (Shift (target (Tm a))) | _ => cells end).
  assert (H1 : cells_ok P c1).
  { unfold c1. destruct (dot_symbol (core_of it)) as [[a|A]|] eqn:Ed; auto.
    apply cell_add_ok; auto. apply HP.
    - left. exists a. auto.
    - intros t Ht. now inversion Ht. }
  destruct (is_complete (core_of it)) eqn:Ec; auto.
  destruct (Nat.eqb_spec (head (fst (fst it))) (fresh_nt G)) as [Eh|Eh].
  - destruct (la_of it) eqn:El; auto. apply cell_add_ok; auto. apply HP.
    + right. left. auto.
    + intros t Ht. discriminate.
  - apply cell_add_ok; auto. apply HP.
    + right. right. auto.
    + intros t Ht. discriminate.
Qed.

(** ** (1) LALR conflict-free => canonical LR(1) conflict-free *)

Section LalrClr.
  Variable G : gram.
  Variable fuel : nat.
  Variable C : list (list item1).
  Hypothesis HC : canonical1 fuel G = Some C.
  Let c := ctx_of G.
  Let reps := reps_of C.

  (** strong soundness of the canonical LR(1) cells *)
  Definition sound1 (s : Z) (a : look) (x : action) : Prop :=
    exists k I it, s = Z.of_nat k /\ nth_error C k = Some I /\ In it I /\ contrib1 it (fresh_nt G) a x /\
      forall t, x = Shift t -> t = state_of1 C (goto1 c I (Tm match a with Some c => c | None => 0 end)).

  Lemma clr_cells r : clr_raw fuel G = Some r -> cells_ok sound1 (r_action r) /\ cells_wf (r_action r).
  Proof.
    unfold clr_raw. rewrite HC. intros H. inversion H; subst r; clear H. cbn [r_action]. split.
    - apply fold_cells_ok; [|intros s a l x []].
      intros cells [s I] Hin Hc. apply idx1_spec in Hin as [k [Es Hk]]. subst s. cbn [fst snd].
      apply fold_cells_ok; auto. intros cells' it Hit Hc'. apply ia_sound; auto.
      intros a x Hx Ht. exists k, I, it. repeat split; auto.
    - apply fold_preserve; [|apply cells_wf_nil]. intros cells sI Hc.
      apply fold_preserve; auto. intros cells' it Hc'. now apply ia_wf.
  Qed.

  Lemma lalr_cells r : lalr_raw fuel G = Some r -> cells_wf (r_action r) /\
    forall k R it a x, nth_error reps k = Some R -> In it (merge_class C R) -> contrib1 it (fresh_nt G) a x ->
      exists x', has (r_action r) (Z.of_nat k) a x' /\ proj x' = proj x.
  Proof.
    unfold lalr_raw. rewrite HC. intros H. inversion H; subst r; clear H. cbn [r_action]. split.
    - apply fold_preserve; [|apply cells_wf_nil]. intros cells sI Hc.
      apply fold_preserve; auto. intros cells' it Hc'. now apply ia_wf.
    - intros k R it a x Hk Hit Hx.
      pose proof (combine_seq_nth Z.of_nat (reps_of C) 0 k R Hk) as Hidx. simpl in Hidx.
      set (tg := fun X => class_of (reps_of C) (goto1 (ctx_of G) R X)).
      assert (Hone : forall cells, exists x', has (item1_actions G tg (Z.of_nat k) cells it) (Z.of_nat k) a x' /\ proj x' = proj x).
      { intros cells. destruct Hx as [[t [Hd [Ea Ex]]]|[[Hc [Hh [Hl [Ea Ex]]]]|[Hc [Hh [Ea Ex]]]]].
        - subst a. exists (Shift (tg (Tm t))). split; [now apply ia_shift|]. now rewrite Ex.
        - subst a x. exists Accept. split; [now apply ia_accept|reflexivity].
        - subst a x. exists (Reduce (fst (fst it))). split; [now apply ia_reduce|reflexivity]. }
      set (Q := fun cells => exists x', has cells (Z.of_nat k) a x' /\ proj x' = proj x).
      change (Q (fold_left (fun cells sR => fold_left (item1_actions G (fun X => class_of (reps_of C) (goto1 (ctx_of G) (snd sR) X)) (fst sR))
                   (merge_class C (snd sR)) cells) (combine (map Z.of_nat (seq 0 (length (reps_of C)))) (reps_of C)) [])).
      apply (fold_establish _ Q _ (Z.of_nat k, R)); auto.
      + intros cells. cbn [fst snd]. apply (fold_establish _ Q _ it); auto.
        * intros c0 b' [x' [H1 H2]]. exists x'. split; auto. now apply ia_mono.
      + intros c0 b' Hq. apply fold_preserve; auto.
        intros c1 b'' [x' [H1 H2]]. exists x'. split; auto. now apply ia_mono.
  Qed.

  Lemma proj_distinct s a x y : sound1 s a x -> sound1 s a y -> x <> y -> proj x <> proj y.
  Proof.
    intros [k [I [itx [Es [Hk [_ [Hx Htx]]]]]]] [k' [I' [ity [Es' [Hk' [_ [Hy Hty]]]]]]] Hne.
    subst s. apply Nat2Z.inj in Es'. subst k'. rewrite Hk in Hk'. inversion Hk'; subst I'.
    destruct x as [tx|px|], y as [ty|py|]; simpl; try discriminate; try congruence.
    exfalso. apply Hne. rewrite (Htx tx eq_refl), (Hty ty eq_refl). reflexivity.
  Qed.

  Theorem lalr_ok_clr_ok t : build_lalr fuel G [] = BuiltOk t -> exists t', build_clr fuel G [] = BuiltOk t'.
  Proof.
    unfold build_lalr, build_clr. intros HL.
    destruct (lalr_raw fuel G) as [rL|] eqn:EL; [|discriminate].
    destruct (lalr_cells rL EL) as [HwfL HhasL].
    assert (HsL : small_cells (r_action rL)) by (apply finish_nil_ok; [apply HwfL|eauto]).
    assert (EC : exists rC, clr_raw fuel G = Some rC) by (unfold clr_raw; rewrite HC; eauto).
    destruct EC as [rC EC]. rewrite EC.
    destruct (clr_cells rC EC) as [HsndC HwfC].
    apply finish_nil_ok; [apply HwfC|].
    intros s a l Hin.
    destruct l as [|x [|y l]]; simpl; try lia. exfalso.
    assert (Hne : x <> y).
    { pose proof (proj2 HwfC s a _ Hin) as Hd. inversion Hd as [|? ? Hnin _]; subst.
      intros E. apply Hnin. subst. now left. }
    pose proof (HsndC s a _ x Hin (or_introl eq_refl)) as Sx.
    pose proof (HsndC s a _ y Hin (or_intror (or_introl eq_refl))) as Sy.
    pose proof (proj_distinct s a x y Sx Sy Hne) as Hp.
    destruct Sx as [k [I [itx [Es [Hk [Hitx [Hx _]]]]]]].
    destruct Sy as [k' [I' [ity [Es' [Hk' [Hity [Hy _]]]]]]].
    subst s. apply Nat2Z.inj in Es'. subst k'. rewrite Hk in Hk'. inversion Hk'; subst I'.
    destruct (reps_shape G fuel C HC) as [_ [_ [_ [_ Hcov]]]].
    destruct (Hcov I (nth_error_In _ _ Hk)) as [R [HR He]].
    apply In_nth_error in HR as [kk Hkk].
    assert (HM : forall it, In it I -> In it (merge_class C R)).
    { intros it Hit. apply merge_class_In. exists I. split; [eapply nth_error_In; eauto|auto]. }
    destruct (HhasL kk R itx a x Hkk (HM _ Hitx) Hx) as [x' [Hx' Px]].
    destruct (HhasL kk R ity a y Hkk (HM _ Hity) Hy) as [y' [Hy' Py]].
    assert (Hne' : x' <> y') by (intros E; apply Hp; rewrite <- Px, <- Py, E; reflexivity).
    destruct (has_two _ _ _ _ _ HwfL Hx' Hy' Hne') as [l' [Hl' Hlen]].
    pose proof (HsL _ _ _ Hl'). lia.
  Qed.
End LalrClr.
