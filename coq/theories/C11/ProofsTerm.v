(** C11 — termination of the LR driver over a table that passes [table_ok] and [term_ok B]:
    [Parse] needs at most [B * (1 + |w| * (B + 1)) + 1] iterations of its loop. *)
From Coq Require Import List ZArith Bool Arith Lia.
From Algo.Grammar Require Import CFG.
From Algo.C11 Require Import Model Spec Proofs.
Import ListNotations.

Section Term.
  Variable G : gram.
  Variable tbl : table.
  Variable lbl : list (list sym).
  Hypothesis OK : table_ok G tbl lbl = true.
  Variable w : list nat.
  Variable B : nat.
  Hypothesis TOK : term_ok B tbl = true.

  Definition runc (f : nat) (c : cfg) : outcome := run f tbl (fst (fst c)) (snd (fst c)) (snd c).

  Lemma runc_S f c : runc (S f) c = match step tbl c with inl c' => runc f c' | inr o => o end.
  Proof.
    destruct c as [[st inp] out]. unfold runc. simpl fst; simpl snd. rewrite run_step.
    destruct (step tbl (st, inp, out)) as [[[st' inp'] out']|o]; reflexivity.
  Qed.

  Fixpoint nsteps (k : nat) (c : cfg) : cfg + outcome :=
    match k with
    | O => inl c
    | S k' => match step tbl c with inl c' => nsteps k' c' | inr o => inr o end
    end.

  Lemma runc_nsteps k : forall f c,
    runc (k + f) c = match nsteps k c with inl c' => runc f c' | inr o => o end.
  Proof.
    induction k as [|k IH]; intros f c; [reflexivity|].
    change (S k + f) with (S (k + f)). rewrite runc_S. simpl.
    destruct (step tbl c) as [c'|o]; auto.
  Qed.

  Lemma runc_mono f : forall c k, runc f c <> Hang -> runc (f + k) c = runc f c.
  Proof.
    induction f as [|f IH]; intros c k H.
    - destruct c as [[st inp] out]. exfalso. apply H. reflexivity.
    - change (S f + k) with (S (f + k)). rewrite !runc_S. rewrite runc_S in H.
      destruct (step tbl c) as [c'|o]; auto.
  Qed.

  Lemma runc_ge f f' c : runc f c <> Hang -> f <= f' -> runc f' c <> Hang.
  Proof. intros H Hle. replace f' with (f + (f' - f)) by lia. now rewrite runc_mono. Qed.

  Lemma nsteps_Inv k : forall c ts c', Inv G tbl lbl w c ts -> nsteps k c = inl c' ->
    (exists ts', Inv G tbl lbl w c' ts') \/ dead c'.
  Proof.
    induction k as [|k IH]; intros c ts c' HI H; simpl in H.
    - inversion H; subst. left; eauto.
    - destruct (step tbl c) as [c1|o] eqn:Es; [|discriminate].
      destruct (step_Inv G tbl lbl OK w _ _ _ HI Es) as [[ts1 HI1]|Hd].
      + eapply IH; eauto.
      + destruct k as [|k]; simpl in H.
        * inversion H; subst. now right.
        * destruct (step_dead G tbl lbl OK _ Hd) as [r [e Hr]]. rewrite Hr in H. discriminate.
  Qed.

  (** ** One phase: the driver follows the symbolic run *)

  Definition stop_action (known : list Z) (a : look) : Prop :=
    match find_action (t_action tbl) (peek known) a with
    | Some (Reduce p) => length known <= length (body p)
    | _ => True
    end.

  Lemma peek_app known rest : known <> [] -> peek (known ++ rest) = peek known.
  Proof. destruct known; [congruence|reflexivity]. Qed.

  Lemma skipn_app_le {A} k (l1 l2 : list A) : k <= length l1 -> skipn k (l1 ++ l2) = skipn k l1 ++ l2.
  Proof.
    intros H. rewrite skipn_app. replace (k - length l1) with 0 by lia. reflexivity.
  Qed.

  Lemma phase b : forall a known, sim_run b tbl a known = SimStop -> known <> [] ->
    forall rest inp out, hd_error inp = a ->
    exists j known' out', j < b /\
      nsteps j (known ++ rest, inp, out) = inl (known' ++ rest, inp, out') /\
      known' <> [] /\ length known' <= length known + j /\ stop_action known' a.
  Proof.
    induction b as [|b IH]; intros a known Hs Hne rest inp out Ha; simpl in Hs; [discriminate|].
    destruct known as [|s kn]; [congruence|].
    assert (Hstop : stop_action (s :: kn) a ->
      exists j known' out', j < S b /\
        nsteps j ((s :: kn) ++ rest, inp, out) = inl (known' ++ rest, inp, out') /\
        known' <> [] /\ length known' <= length (s :: kn) + j /\ stop_action known' a).
    { intros H. exists 0, (s :: kn), out. repeat split; auto; try lia; discriminate. }
    destruct (find_action (t_action tbl) s a) as [[t|p|]|] eqn:Ea;
      try (apply Hstop; unfold stop_action; simpl; rewrite Ea; exact I).
    destruct (length (body p) <? length (s :: kn)) eqn:Ek.
    - apply Nat.ltb_lt in Ek.
      set (k := length (body p)) in *.
      set (kn' := goto_or_err tbl (peek (skipn k (s :: kn))) (head p) :: skipn k (s :: kn)) in *.
      destruct (IH a kn' Hs ltac:(discriminate) rest inp (EvProd p :: out) Ha)
        as [j [known' [out' [Hj [Hn [Hne' [Hlen Hst]]]]]]].
      exists (S j), known', out'. repeat split; auto; try lia.
      + simpl nsteps. unfold step. simpl fst; simpl snd.
        change (peek ((s :: kn) ++ rest)) with s. rewrite Ha, Ea. fold k.
        change (s :: kn ++ rest) with ((s :: kn) ++ rest). rewrite skipn_app_le by (apply Nat.lt_le_incl; exact Ek).
        assert (Hsk : skipn k (s :: kn) <> []).
        { intros E. apply (f_equal (@length _)) in E. rewrite skipn_length in E. cbn [length] in E, Ek. lia. }
        rewrite (peek_app _ rest Hsk). exact Hn.
      + unfold kn' in Hlen. cbn [length] in Hlen |- *. rewrite skipn_length in Hlen. cbn [length] in Hlen. lia.
    - apply Nat.ltb_ge in Ek. apply Hstop. unfold stop_action. simpl. rewrite Ea. exact Ek.
  Qed.

  (** ** Every lookahead with an entry is covered by [term_ok] *)

  Lemma term_ok_look s a x : find_action (t_action tbl) s a = Some x -> In a (looks_of tbl).
  Proof.
    intros H. apply find_action_In in H. unfold looks_of. right.
    apply in_map_iff. exists (s, a, x). auto.
  Qed.

  Lemma term_ok_sims a : In a (looks_of tbl) ->
    sim_run B tbl a [0%Z] = SimStop /\
    forall s X t, In (s, X, t) (edges tbl) -> sim_run B tbl a [t; s] = SimStop.
  Proof.
    intros Ha. unfold term_ok in TOK. rewrite forallb_forall in TOK. specialize (TOK a Ha).
    apply andb_true_iff in TOK as [H1 H2]. split.
    - unfold sim_ok in H1. destruct (sim_run B tbl a [0%Z]); [reflexivity|discriminate].
    - intros s X t Hin. rewrite forallb_forall in H2. specialize (H2 _ Hin). simpl in H2.
      unfold sim_ok in H2. destruct (sim_run B tbl a [t; s]); [reflexivity|discriminate].
  Qed.

  (** ** The measure *)

  Definition mu (c : cfg) : nat := length (fst (fst c)) + length (snd (fst c)) * (B + 1).

  Lemma body_le_stack st xs p a :
    path tbl lbl st xs -> find_action (t_action tbl) (peek st) a = Some (Reduce p) ->
    S (length (body p)) <= length st.
  Proof.
    intros Hp Ea. pose proof (ok_action G tbl lbl OK _ _ _ Ea) as Hok. unfold action_ok in Hok.
    apply andb_true_iff in Hok as [_ Hsuf].
    destruct (path_label G tbl lbl OK _ _ Hp) as [l [pre [Hl Hx]]]. rewrite Hl in Hsuf.
    apply is_suffix_spec in Hsuf as [pre2 Hsuf]. subst l.
    apply (f_equal (@length _)) in Hx. rewrite rev_length, !app_length in Hx.
    rewrite (path_length _ _ _ _ Hp). unfold sym, sentential in *. lia.
  Qed.

  Lemma after_stop m c2 f :
    (forall c ts, Inv G tbl lbl w c ts -> mu c <= m -> runc (B * m + 1) c <> Hang) ->
    ((exists ts2, Inv G tbl lbl w c2 ts2) \/ dead c2) -> mu c2 <= m -> B * m + 1 <= f ->
    runc f c2 <> Hang.
  Proof.
    intros IH [[ts2 HI2]|Hd] Hmu Hf.
    - eapply runc_ge; [eapply IH; eauto|exact Hf].
    - destruct f as [|f]; [lia|]. rewrite runc_S.
      destruct (step_dead G tbl lbl OK _ Hd) as [r [e Hr]]. rewrite Hr. discriminate.
  Qed.

  Lemma term_main m : forall c ts, Inv G tbl lbl w c ts -> mu c <= m -> runc (B * m + 1) c <> Hang.
  Proof.
    induction m as [|m IH]; intros [[st inp] out] ts HI Hmu.
    - exfalso. pose proof (inv_path _ _ _ _ _ _ HI) as Hp. simpl in Hp.
      apply path_length in Hp. unfold mu in Hmu. simpl in Hmu. lia.
    - pose proof (inv_path _ _ _ _ _ _ HI) as Hp. simpl in Hp.
      destruct (find_action (t_action tbl) (peek st) (hd_error inp)) as [x|] eqn:Ea0.
      2:{ replace (B * S m + 1) with (S (B * S m)) by lia. rewrite runc_S. unfold step.
          rewrite Ea0. discriminate. }
      destruct (term_ok_sims _ (term_ok_look _ _ _ Ea0)) as [Hs0 Hs2].
      (* the known part: the top two states, or the whole stack [0] *)
      assert (Hk : exists known rest, st = known ++ rest /\ known <> [] /\
                 sim_run B tbl (hd_error inp) known = SimStop /\
                 (length known = 2 \/ rest = [])).
      { inversion Hp as [|t s st' X xs Hp' He Hin E1 E2]; subst.
        - exists [0%Z], []. repeat split; auto. discriminate.
        - exists [t; s], st'. repeat split; auto; try discriminate. eapply Hs2; eauto. }
      destruct Hk as [known [rest [Est [Hne [Hsim Hshape]]]]]. subst st.
      destruct (phase B _ _ Hsim Hne rest inp out eq_refl)
        as [j [known' [out' [Hj [Hn [Hne' [Hlen Hstop]]]]]]].
      assert (HB : B * S m + 1 = j + S (S (B * S m - j - 1))) by nia.
      rewrite HB, runc_nsteps, Hn.
      destruct (nsteps_Inv _ _ _ _ HI Hn) as [[ts1 HI1]|Hd1].
      2:{ rewrite runc_S. destruct (step_dead G tbl lbl OK _ Hd1) as [r [e Hr]]. rewrite Hr. discriminate. }
      pose proof (inv_path _ _ _ _ _ _ HI1) as Hp1. simpl in Hp1.
      rewrite runc_S.
      destruct (step tbl (known' ++ rest, inp, out')) as [c2|o] eqn:Es.
      2:{ unfold step in Es.
          destruct (find_action (t_action tbl) (peek (known' ++ rest)) (hd_error inp)) as [[t|p|]|];
            inversion Es; discriminate. }
      apply (after_stop m c2); [exact IH|eapply step_Inv; eauto| |nia].
      (* the measure decreased *)
      unfold step in Es. unfold stop_action in Hstop. rewrite (peek_app _ rest Hne') in Es.
      destruct (find_action (t_action tbl) (peek known') (hd_error inp)) as [[t|p|]|] eqn:Ea; try discriminate.
      + (* shift *)
        inversion Es; subst c2; clear Es.
        rewrite <- (peek_app _ rest Hne') in Ea.
        pose proof (ok_action G tbl lbl OK _ _ _ Ea) as Hok. unfold action_ok in Hok.
        destruct inp as [|a inp]; simpl in Hok; [discriminate|].
        unfold mu in *. simpl in *. rewrite !app_length in *. nia.
      + (* reduce that pops below the known part *)
        inversion Es; subst c2; clear Es.
        rewrite <- (peek_app _ rest Hne') in Ea.
        pose proof (body_le_stack _ _ _ _ Hp1 Ea) as Hb. rewrite app_length in Hb.
        destruct Hshape as [H2|Hr].
        * unfold mu in *. simpl in *. rewrite skipn_length, !app_length in *. nia.
        * subst rest. simpl in Hb. lia.
  Qed.

  Definition fuel_bound (n : nat) : nat := B * (1 + n * (B + 1)) + 1.

  Theorem driver_terminates fuel : fuel_bound (length w) <= fuel -> parse fuel tbl w <> Hang.
  Proof.
    intros Hf. change (parse fuel tbl w) with (runc fuel ([0%Z], w, [])).
    eapply runc_ge; [|exact Hf]. unfold fuel_bound.
    eapply term_main; [apply Inv_init|]. unfold mu. simpl. lia.
  Qed.

  (** more fuel never changes a result *)
  Theorem parse_fuel_irrelevant f f' : parse f tbl w <> Hang -> f <= f' -> parse f' tbl w = parse f tbl w.
  Proof.
    intros H Hle. change (parse f' tbl w) with (runc f' ([0%Z], w, [])).
    replace f' with (f + (f' - f)) by lia. now apply runc_mono.
  Qed.

End Term.

(** ** The symbolic run is exact: when [sim_run] does not stop within [b] steps, the driver
    really performs [b] consecutive reductions on that lookahead, whatever lies below the known
    part of the stack.  So a table that fails [term_ok b] has a stack configuration
    (two adjacent states and a lookahead) from which [Parse] reduces [b] times without reading
    input; no table is rejected by [term_ok] for a reason other than such a run. *)
Lemma sim_loop_hang tbl b : forall a known, sim_run b tbl a known = SimLoop ->
  forall rest inp out, hd_error inp = a -> run b tbl (known ++ rest) inp out = Hang.
Proof.
  induction b as [|b IH]; intros a known Hs rest inp out Ha; [reflexivity|].
  simpl in Hs. destruct known as [|s kn]; [discriminate|].
  simpl. rewrite Ha.
  destruct (find_action (t_action tbl) s a) as [[t|p|]|]; try discriminate.
  destruct (length (body p) <? length (s :: kn)) eqn:Ek; [|discriminate].
  apply Nat.ltb_lt in Ek.
  change (s :: kn ++ rest) with ((s :: kn) ++ rest).
  rewrite skipn_app.
  replace (length (body p) - length (s :: kn)) with 0 by lia. simpl skipn at 2.
  assert (Hne : skipn (length (body p)) (s :: kn) <> []).
  { intros E. apply (f_equal (@length _)) in E. rewrite skipn_length in E. cbn [length] in E, Ek. lia. }
  assert (Hp : peek (skipn (length (body p)) (s :: kn) ++ rest) = peek (skipn (length (body p)) (s :: kn))).
  { destruct (skipn (length (body p)) (s :: kn)); [congruence|reflexivity]. }
  rewrite Hp.
  exact (IH a _ Hs rest inp (EvProd p :: out) Ha).
Qed.

Lemma sim_run_mono tbl b : forall a known k, sim_run b tbl a known = SimStop -> sim_run (b + k) tbl a known = SimStop.
Proof.
  induction b as [|b IH]; intros a known k H; [discriminate|].
  simpl in *. destruct known as [|s kn]; auto.
  destruct (find_action (t_action tbl) s a) as [[t|p|]|]; auto.
  destruct (length (body p) <? length (s :: kn)); auto.
Qed.

Lemma sim_ok_mono tbl b b' a known : sim_ok b tbl a known = true -> b <= b' -> sim_ok b' tbl a known = true.
Proof.
  unfold sim_ok. intros H Hle. destruct (sim_run b tbl a known) eqn:E; [|discriminate].
  replace b' with (b + (b' - b)) by lia. now rewrite (sim_run_mono _ _ _ _ _ E).
Qed.

Lemma term_ok_mono tbl b b' : term_ok b tbl = true -> b <= b' -> term_ok b' tbl = true.
Proof.
  unfold term_ok. intros H Hle. rewrite forallb_forall in *. intros a Ha. specialize (H a Ha).
  apply andb_true_iff in H as [H1 H2]. apply andb_true_iff. split; [eapply sim_ok_mono; eauto|].
  rewrite forallb_forall in *. intros [[s X] t] He. specialize (H2 _ He). simpl in *. eapply sim_ok_mono; eauto.
Qed.
