(** C11 — completeness of the modelled SLR(1) construction: over a conflict-free SLR table
    built without precedence declarations the driver accepts every sentence.  Same big-step
    argument as for canonical LR(1); the reduce entries are found through FOLLOW, which is closed
    under its rules at the fixpoint. *)
From Coq Require Import List ZArith Bool Arith Lia.
From Algo.Grammar Require Import CFG.
From Algo.C11 Require Import Model ModelPrec ModelSLR ModelLR1 Spec Proofs ProofsTerm ProofsLR0 ProofsSLR ProofsCLR
  ProofsChain ProofsChain2 ProofsFuel ProofsGen ProofsComplete.
Import ListNotations.

(** the entry of a conflict-free table for a contributed action *)
Lemma lookup_from_cells cells s a x : small_cells cells -> cells_wf cells -> has cells s a x ->
  find_action (fst (resolve_cells [] cells)) s a = Some x.
Proof.
  intros Hs [Hk _] [l [Hl Hx]].
  assert (El : l = [x]).
  { pose proof (Hs _ _ _ Hl) as Hlen. destruct l as [|y [|z l]]; [destruct Hx| |simpl in Hlen; lia].
    destruct Hx as [Hx|[]]. now subst. }
  subst l. apply find_action_unique.
  - now apply resolve_cells_single.
  - intros y Hy. apply resolve_cells_In in Hy as [l' [H1 H2]].
    assert (l' = [x]) by (eapply keys_unique; eauto). subst l'. destruct H2 as [H2|[]]. now subst.
Qed.

Section CompleteSLR.
  Variable G : gram.
  Hypothesis Hvalid : valid_grammar G.
  Variable fuel : nat.
  Variable C0 : list (list item).
  Hypothesis HC0 : canonical fuel G = Some C0.
  Variable tbl : table.
  Hypothesis Hb : build_slr fuel G [] = BuiltOk tbl.

  Let G' := augment G.
  Let ps := prods G'.
  Let nl := nullables G'.
  Let fe := firsts G'.
  Let F := follows G'.
  Let syms := symbols_of G'.
  Let aug := aug_prod G.

  Lemma h1s : forall p t, In p ps -> In (Tm t) (body p) -> In t (terms G').
  Proof.
    destruct Hvalid as [[V1 _] _]. intros p t [Hp|Hp] Ht; [subst p; simpl in Ht; destruct Ht as [Ht|[]]; discriminate|].
    simpl. eauto.
  Qed.

  Lemma Hfix : lenv_size (follow_pass nl fe ps F) = lenv_size F.
  Proof. apply Nat.eqb_eq. exact (follow_fix_ok_aug G Hvalid). Qed.

  Lemma table_shape0 : exists r, slr_raw fuel G = Some r /\ small_cells (r_action r) /\ cells_wf (r_action r) /\
    tbl = mkTable (fst (resolve_cells [] (r_action r))) (r_goto r).
  Proof.
    assert (ES : build_slr fuel G [] = finish (slr_raw fuel G) []) by reflexivity. rewrite ES in Hb.
    destruct (slr_raw fuel G) as [r|] eqn:Er; [|discriminate].
    exists r. destruct (slr_cells G fuel C0 r HC0 Er) as [Hwf _].
    assert (Hs : small_cells (r_action r)) by (apply finish_nil_ok; [apply Hwf|eauto]).
    repeat split; auto; try apply Hwf.
    unfold finish in Hb. simpl in Hb. destruct (resolve_cells [] (r_action r)) as [acts confl].
    destruct confl; [|discriminate]. now inversion Hb.
  Qed.

  Lemma slr_has r k J it : slr_raw fuel G = Some r -> nth_error C0 k = Some J -> In it J ->
    (forall t, dot_symbol it = Some (Tm t) ->
       has (r_action r) (Z.of_nat k) (Some t) (Shift (state_of C0 (goto ps J (Tm t))))) /\
    (forall a, is_complete it = true -> head (fst it) <> fresh_nt G -> In a (lget F (head (fst it))) ->
       has (r_action r) (Z.of_nat k) a (Reduce (fst it))) /\
    (is_complete it = true -> head (fst it) = fresh_nt G -> has (r_action r) (Z.of_nat k) None Accept).
  Proof.
    unfold slr_raw. rewrite HC0. intros Hr Hk Hit. inversion Hr; subst r; clear Hr. cbn [r_action].
    pose proof (combine_seq_nth Z.of_nat C0 0 k J Hk) as Hidx. simpl in Hidx.
    assert (Hfold : forall (Q : list (Z * look * list action) -> Prop),
      (forall cells, Q (item_actions G (prods (augment G)) (follows (augment G)) C0 (Z.of_nat k) J cells it)) ->
      (forall cells i0 J0 it0, Q cells -> Q (item_actions G (prods (augment G)) (follows (augment G)) C0 i0 J0 cells it0)) ->
      Q (fold_left (fun cells sI => fold_left (item_actions G (prods (augment G)) (follows (augment G)) C0 (fst sI) (snd sI)) (snd sI) cells)
           (combine (map Z.of_nat (seq 0 (length C0))) C0) [])).
    { intros Q Hq Hp.
      apply (fold_establish _ Q _ (Z.of_nat k, J)); auto.
      - intros cells. cbn [fst snd]. apply (fold_establish _ Q _ it); auto.
      - intros c0 b' Hc0. apply fold_preserve; auto. }
    split; [|split].
    - intros t Hd. apply (Hfold (fun cells => has cells (Z.of_nat k) (Some t) (Shift (state_of C0 (goto ps J (Tm t)))))).
      + intros cells. now apply ia0_shift.
      + intros cells i0 J0 it0. apply ia0_mono.
    - intros a Hc Hh Ha. apply (Hfold (fun cells => has cells (Z.of_nat k) a (Reduce (fst it)))).
      + intros cells. now apply ia0_reduce.
      + intros cells i0 J0 it0. apply ia0_mono.
    - intros Hc Hh. apply (Hfold (fun cells => has cells (Z.of_nat k) None Accept)).
      + intros cells. now apply ia0_accept.
      + intros cells i0 J0 it0. apply ia0_mono.
  Qed.

  Lemma goto_lookup0 r k J B k' : slr_raw fuel G = Some r -> tbl = mkTable (fst (resolve_cells [] (r_action r))) (r_goto r) ->
    nth_error C0 k = Some J -> In B (nonterms G) -> state_of C0 (goto ps J (Nt B)) = Z.of_nat k' ->
    find_goto (t_goto tbl) (Z.of_nat k) B = Some (Z.of_nat k').
  Proof.
    intros Er Et Hk HB Hst. subst tbl. cbn [t_goto]. apply find_goto_unique.
    - unfold slr_raw in Er. rewrite HC0 in Er. inversion Er; subst r; clear Er. cbn [r_goto].
      apply in_flat_map. exists (Z.of_nat k, J). split.
      + pose proof (combine_seq_nth Z.of_nat C0 0 k J Hk) as Hidx. exact Hidx.
      + apply in_flat_map. exists B. split; auto. cbn [fst snd]. change (aug_prod G :: prods G) with ps. rewrite Hst.
        destruct (Z.of_nat k') eqn:E; [now left|now left|lia].
    - intros t' Hin. destruct (raw_gotos G fuel C0 HC0 r _ _ _ Er Hin) as [k2 [J2 [E2 [Hk2 [Et' _]]]]].
      apply Nat2Z.inj in E2. subst k2. rewrite Hk in Hk2. inversion Hk2; subst J2. fold G' ps in Et'. congruence.
  Qed.

  Lemma state_closed0 k J : nth_error C0 k = Some J -> closed0 ps J.
  Proof.
    intros Hk. pose proof (C_nth_reach G fuel C0 HC0 k J Hk) as HJ.
    inversion HJ as [|I X HI Hne E].
    - apply closure_closed.
    - destruct (goto_nonempty_kernel G I X Hne) as [Eg _]. rewrite Eg. apply closure_closed.
  Qed.

  Lemma goto_state0 k J p d X : nth_error C0 k = Some J -> In (p, d) J -> nth_error (body p) d = Some X ->
    exists k' J', state_of C0 (goto ps J X) = Z.of_nat k' /\ nth_error C0 k' = Some J' /\ In (p, S d) J'.
  Proof.
    intros Hk Hit Hd.
    pose proof (C_nth_reach G fuel C0 HC0 k J Hk) as HJ. destruct (reach_spelled G J HJ) as [l Hl].
    destruct (Hl _ Hit) as [Hp _]. cbn [fst snd] in Hp.
    assert (HX : In X syms) by (apply (valid_syms_aug G (proj1 Hvalid) p X Hp); eapply nth_error_In; eauto).
    assert (Hne : goto ps J X <> []) by (apply (goto_nonempty G J X (p, d)); auto).
    destruct (C_coll G fuel C0 HC0) as [_ Hcl].
    destruct (Hcl J X (nth_error_In _ _ Hk) HX) as [Hg|[k' Hidx]]; [contradiction|].
    pose proof Hidx as Hidx'. apply index_of_spec in Hidx' as [_ [J' [Hn He]]]. rewrite Nat.sub_0_r in Hn.
    exists k', J'. split; [|split; auto].
    - unfold state_of. fold G' ps in Hidx. rewrite Hidx. destruct (goto ps J X); [contradiction|reflexivity].
    - apply (itemset_eqb_spec _ _ He).
      destruct (goto_nonempty_kernel G J X Hne) as [Eg _]. rewrite Eg. apply closure_incl.
      exact (goto_kernel_has J X (p, d) Hit Hd).
  Qed.

  (** *** the driver *)

  Definition reaches0 (c1 c2 : cfg) : Prop := exists n, nsteps tbl n c1 = inl c2.

  Lemma nsteps_add0 n : forall m c1 c2, nsteps tbl n c1 = inl c2 -> nsteps tbl (n + m) c1 = nsteps tbl m c2.
  Proof.
    induction n as [|n IH]; intros m c1 c2 H; simpl in *; [now inversion H|].
    destruct (step tbl c1) as [c1'|o]; [|discriminate]. now apply IH.
  Qed.

  Lemma reaches0_refl c1 : reaches0 c1 c1.
  Proof. exists 0. reflexivity. Qed.

  Lemma reaches0_trans c1 c2 c3 : reaches0 c1 c2 -> reaches0 c2 c3 -> reaches0 c1 c3.
  Proof. intros [n Hn] [m Hm]. exists (n + m). now rewrite (nsteps_add0 n m c1 c2 Hn). Qed.

  Lemma reaches0_step c1 c2 : step tbl c1 = inl c2 -> reaches0 c1 c2.
  Proof. intros H. exists 1. simpl. now rewrite H. Qed.

  (** the rest of the input is compatible with [beta] followed by something in FOLLOW(A) *)
  Definition compat0 (beta : list sym) (A : nat) (r : list nat) : Prop :=
    exists r1 r2, r = r1 ++ r2 /\ gens G' beta r1 /\ In (hd_error r2) (lget F A).

  Lemma compat0_follow p d B r : In p ps -> nth_error (body p) d = Some (Nt B) ->
    compat0 (skipn (S d) (body p)) (head p) r -> In (hd_error r) (lget F B).
  Proof.
    intros Hp Hd [r1 [r2 [E [Hg Ha]]]]. subst r.
    destruct (follow_rules G Hfix p _ B _ Hp (nth_error_split_skipn _ _ _ Hd)) as [R1 R2].
    destruct r1 as [|t r1].
    - apply R2; [|exact Ha]. exact (proj2 (nullable_complete G') _ [] Hg eq_refl).
    - apply R1. simpl. apply in_map. eapply (proj2 (first_complete G' h1s)); eauto.
  Qed.

  Definition P_gen0 (X : sym) (u : list nat) : Prop :=
    forall k J sigma p d r out, nth_error C0 k = Some J -> In (p, d) J -> nth_error (body p) d = Some X ->
      compat0 (skipn (S d) (body p)) (head p) r ->
      exists k' out', state_of C0 (goto ps J X) = Z.of_nat k' /\
        reaches0 (Z.of_nat k :: sigma, u ++ r, out) (Z.of_nat k' :: Z.of_nat k :: sigma, r, out').

  Definition P_gens0 (b : list sym) (u : list nat) : Prop :=
    forall k J sigma p d r out, nth_error C0 k = Some J -> In (p, d) J -> skipn d (body p) = b ->
      In (hd_error r) (lget F (head p)) ->
      exists pushed out' kt Jt,
        reaches0 (Z.of_nat k :: sigma, u ++ r, out) (pushed ++ Z.of_nat k :: sigma, r, out') /\
        length pushed = length b /\ hd (Z.of_nat k) pushed = Z.of_nat kt /\
        nth_error C0 kt = Some Jt /\ In (p, length (body p)) Jt.

  Lemma big_step0 : (forall X u, gen G' X u -> P_gen0 X u) /\ (forall b u, gens G' b u -> P_gens0 b u).
  Proof.
    destruct table_shape0 as [rw [Er [Hsmall [Hwf Et]]]].
    assert (Hact : forall k a x, has (r_action rw) (Z.of_nat k) a x -> find_action (t_action tbl) (Z.of_nat k) a = Some x).
    { intros k a x Hh. rewrite Et. cbn [t_action]. now apply lookup_from_cells. }
    apply gen_gens_ind.
    - intros t k J sigma p d r out Hk Hit Hd Hc.
      destruct (goto_state0 k J p d (Tm t) Hk Hit Hd) as [k' [J' [Hst [Hk' _]]]].
      exists k', (EvTok (Some t) :: out). split; [exact Hst|].
      apply reaches0_step. unfold step. cbn [peek hd_error app].
      destruct (slr_has rw k J (p, d) Er Hk Hit) as [Hsh _].
      rewrite (Hact k (Some t) _ (Hsh t Hd)). rewrite Hst. reflexivity.
    - intros q u Hq Hg IH k J sigma p d r out Hk Hit Hd Hc.
      pose proof (C_nth_reach G fuel C0 HC0 k J Hk) as HJ. destruct (reach_spelled G J HJ) as [l Hl].
      destruct (Hl _ Hit) as [Hp _]. cbn [fst snd] in Hp.
      pose proof (compat0_follow p d (head q) r Hp Hd Hc) as Hla.
      assert (Hq0 : In (q, 0) J) by (apply (state_closed0 k J Hk (p, d) (head q) q Hit Hd Hq eq_refl)).
      destruct (IH k J sigma q 0 r out Hk Hq0 eq_refl Hla) as [pushed [out1 [kt [Jt [Hr1 [Hlen [Hhd [Hkt Hcomp]]]]]]]].
      destruct (goto_state0 k J p d (Nt (head q)) Hk Hit Hd) as [k' [J' [Hst [Hk' _]]]].
      exists k', (EvProd q :: out1). split; [exact Hst|].
      eapply reaches0_trans; [exact Hr1|]. apply reaches0_step. unfold step.
      rewrite peek_app_hd, Hhd.
      assert (Hnf : head q <> fresh_nt G).
      { intros E. apply (fresh_not_in_bodies G p Hp). rewrite <- E. eapply nth_error_In; eauto. }
      destruct (slr_has rw kt Jt (q, length (body q)) Er Hkt Hcomp) as [_ [Hrd _]].
      assert (Hcpl : is_complete (q, length (body q)) = true) by (unfold is_complete; simpl; apply Nat.eqb_refl).
      rewrite (Hact kt (hd_error r) _ (Hrd (hd_error r) Hcpl Hnf Hla)). cbn [fst snd].
      assert (Hsk : forall n, n = length pushed -> skipn n (pushed ++ Z.of_nat k :: sigma) = Z.of_nat k :: sigma).
      { intros n0 E0. subst n0. rewrite skipn_app, skipn_all, Nat.sub_diag. reflexivity. }
      match goal with |- context [skipn ?n0 (pushed ++ Z.of_nat k :: sigma)] => rewrite (Hsk n0 (eq_sym Hlen)) end. cbn [peek].
      assert (HB : In (head q) (nonterms G)).
      { destruct Hvalid as [[_ [V2 V3]] _]. apply nth_error_In in Hd.
        destruct Hp as [Hp|Hp]; [subst p; simpl in Hd; destruct Hd as [Hd|[]]; inversion Hd; exact V3|eauto]. }
      unfold goto_or_err. rewrite (goto_lookup0 rw k J (head q) k' Er Et Hk HB Hst). reflexivity.
    - intros k J sigma p d r out Hk Hit Hs Hr.
      pose proof (C_nth_reach G fuel C0 HC0 k J Hk) as HJ. destruct (reach_spelled G J HJ) as [l Hl].
      destruct (Hl _ Hit) as [_ [Hle _]]. cbn [fst snd] in Hle.
      assert (Ed : d = length (body p)).
      { apply (f_equal (@length _)) in Hs. rewrite skipn_length in Hs. simpl in Hs. lia. }
      exists [], out, k, J. simpl. subst d. repeat split; auto. apply reaches0_refl.
    - intros X b u1 u2 Hg IH1 Hgs IH2 k J sigma p d r out Hk Hit Hs Hr.
      apply skipn_cons_inv in Hs as [Hd Hs'].
      assert (Hc : compat0 (skipn (S d) (body p)) (head p) (u2 ++ r)) by (exists u2, r; rewrite Hs'; auto).
      destruct (IH1 k J sigma p d (u2 ++ r) out Hk Hit Hd Hc) as [k1 [out1 [Hst1 Hr1]]].
      destruct (goto_state0 k J p d X Hk Hit Hd) as [k1' [J1 [Hst1' [Hk1 Hit1]]]].
      assert (k1' = k1) by (apply Nat2Z.inj; congruence). subst k1'.
      destruct (IH2 k1 J1 (Z.of_nat k :: sigma) p (S d) r out1 Hk1 Hit1 Hs' Hr)
        as [pushed [out2 [kt [Jt [Hr2 [Hlen [Hhd [Hkt Hcomp]]]]]]]].
      exists (pushed ++ [Z.of_nat k1]), out2, kt, Jt. repeat split; auto.
      + rewrite <- app_assoc. eapply reaches0_trans; [exact Hr1|]. rewrite <- app_assoc. exact Hr2.
      + rewrite app_length. simpl. lia.
      + destruct pushed; simpl in *; auto.
  Qed.

  Theorem slr_complete w : L G w -> exists f evs, parse f tbl w = Accepted evs.
  Proof.
    intros HL. destruct table_shape0 as [rw [Er [Hsmall [Hwf Et]]]].
    assert (Hgen : gen G' (Nt (start G)) w).
    { unfold L in HL. apply derives_aug in HL. apply derives_derivesN in HL as [n Hn].
      apply derivesN_gens in Hn. inversion Hn as [|X b u1 u2 Hg Hgs]; subst.
      inversion Hgs; subst. now rewrite app_nil_r. }
    pose proof (C_nth_0 G fuel C0 HC0) as H0.
    set (J0 := closure (prods (augment G)) [(aug_prod G, 0)]) in *.
    assert (Hit0 : In (aug, 0) J0) by (apply closure_incl; now left).
    assert (Hc0 : compat0 (skipn 1 (body aug)) (head aug) []).
    { unfold compat0. exists (@nil nat), (@nil nat). split; [reflexivity|]. split; [constructor|]. apply follow_start. }
    destruct (proj1 big_step0 _ _ Hgen 0 J0 [] aug 0 [] [] H0 Hit0 eq_refl Hc0) as [k' [out' [Hst [n Hn]]]].
    destruct (goto_state0 0 J0 aug 0 (Nt (start G)) H0 Hit0 eq_refl) as [k'' [J'' [Hst' [Hk'' Hit'']]]].
    assert (k'' = k') by (apply Nat2Z.inj; congruence). subst k''.
    destruct (slr_has rw k' J'' (aug, 1) Er Hk'' Hit'') as [_ [_ Hacc]].
    assert (Hfa : find_action (t_action tbl) (Z.of_nat k') None = Some Accept).
    { rewrite Et. cbn [t_action]. apply lookup_from_cells; auto; try (apply Hacc; reflexivity). }
    exists (n + 1), (rev out').
    change (parse (n + 1) tbl w) with (runc tbl (n + 1) ([0%Z], w, [])).
    rewrite runc_nsteps. rewrite app_nil_r in Hn. simpl Z.of_nat in Hn. rewrite Hn.
    rewrite runc_S. unfold step. cbn [peek hd_error]. rewrite Hfa. reflexivity.
  Qed.
End CompleteSLR.
