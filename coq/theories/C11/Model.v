(** C11 — executable model of the LR driver of moorara/algo (parser/lr/lr.go: [Parse],
    [ParseAndBuildAST]) over an abstract parsing table, of the table certificate [table_ok]
    that is evaluated on every table the Go code builds, and of a bounded language enumerator
    used as membership oracle.  No proofs in this file.

    Terminals and non-terminals are natural numbers (the harness maps letters to indices);
    the lookahead [None] is the endmarker [$].  States are integers: [-1] is Go's [ErrState],
    which the driver pushes when GOTO has no entry (exactly as lr.go does). *)
From Coq Require Import List ZArith Bool Arith.
From Algo.Grammar Require Import CFG.
Import ListNotations.

Definition sym := symbol nat nat.
Definition prod := production nat nat.
Definition gram := grammar nat nat.
Definition look := option nat.

Definition sym_eqb (x y : sym) : bool :=
  match x, y with
  | Tm a, Tm b => Nat.eqb a b
  | Nt a, Nt b => Nat.eqb a b
  | _, _ => false
  end.

Fixpoint str_eqb (u v : list sym) : bool :=
  match u, v with
  | [], [] => true
  | x :: u', y :: v' => sym_eqb x y && str_eqb u' v'
  | _, _ => false
  end.

Definition prod_eqb (p q : prod) : bool :=
  Nat.eqb (head p) (head q) && str_eqb (body p) (body q).

Definition look_eqb (a b : look) : bool :=
  match a, b with
  | None, None => true
  | Some x, Some y => Nat.eqb x y
  | _, _ => false
  end.

(** ** Parsing tables (lr.ParsingTable after ResolveConflicts: one action per cell) *)

Inductive action := Shift (t : Z) | Reduce (p : prod) | Accept.

Record table := mkTable {
  t_action : list (Z * look * action);
  t_goto : list (Z * nat * Z) }.

Fixpoint find_action (l : list (Z * look * action)) (s : Z) (a : look) : option action :=
  match l with
  | [] => None
  | (s', a', x) :: l' => if Z.eqb s s' && look_eqb a a' then Some x else find_action l' s a
  end.

Fixpoint find_goto (l : list (Z * nat * Z)) (s : Z) (A : nat) : option Z :=
  match l with
  | [] => None
  | (s', A', t) :: l' => if Z.eqb s s' && Nat.eqb A A' then Some t else find_goto l' s A
  end.

(** [ParsingTable.GOTO] returns [ErrState] together with an error that [Parse] ignores *)
Definition goto_or_err (tbl : table) (s : Z) (A : nat) : Z :=
  match find_goto (t_goto tbl) s A with Some t => t | None => (-1)%Z end.

(** ** The driver: lr.Parser.Parse

    The state stack has its top at the head of the list.  [Peek] and [Pop] on an empty
    list.Stack return the zero value, so peeking an empty stack yields state 0 and popping it
    is a no-op.  Each iteration of the Go loop costs one unit of fuel. *)

Inductive event := EvTok (a : look) | EvProd (p : prod).

Inductive outcome :=
| Accepted (evs : list event)            (* callbacks in the order they were invoked *)
| Rejected (rest : list nat) (evs : list event)  (* ACTION has no entry; [rest] = unread input incl. the offending token *)
| Hang.

Definition peek (st : list Z) : Z := match st with [] => 0%Z | s :: _ => s end.

Fixpoint run (fuel : nat) (tbl : table) (st : list Z) (inp : list nat) (out : list event) : outcome :=
  match fuel with
  | O => Hang
  | S f =>
    let s := peek st in
    let a := hd_error inp in
    match find_action (t_action tbl) s a with
    | None => Rejected inp (rev out)
    | Some (Shift t) => run f tbl (t :: st) (tl inp) (EvTok a :: out)
    | Some (Reduce p) =>
        let st' := skipn (length (body p)) st in
        run f tbl (goto_or_err tbl (peek st') (head p) :: st') inp (EvProd p :: out)
    | Some Accept => Accepted (rev out)
    end
  end.

Definition parse (fuel : nat) (tbl : table) (w : list nat) : outcome := run fuel tbl [0%Z] w [].

Fixpoint prods_of (evs : list event) : list prod :=
  match evs with
  | [] => []
  | EvProd p :: r => p :: prods_of r
  | EvTok _ :: r => prods_of r
  end.

(** ** ParseAndBuildAST: a node stack driven by the two callbacks.
    Popping the empty node stack yields a nil child ([TNil]), as in Go. *)

Inductive tree := Leaf (a : look) | Node (p : prod) (ch : list tree) | TNil.

Definition pop_node (ns : list tree) : tree * list tree :=
  match ns with [] => (TNil, []) | t :: r => (t, r) end.

(** pops [k] nodes; the node popped first becomes the last child *)
Fixpoint pop_children (k : nat) (ns : list tree) (acc : list tree) : list tree * list tree :=
  match k with
  | O => (acc, ns)
  | S k' => let '(c, ns') := pop_node ns in pop_children k' ns' (c :: acc)
  end.

Definition ast_step (ns : list tree) (e : event) : list tree :=
  match e with
  | EvTok a => Leaf a :: ns
  | EvProd p =>
      let '(ch, ns') := pop_children (length (body p)) ns [] in
      Node p ch :: ns'
  end.

Definition ast_stack (evs : list event) (ns : list tree) : list tree := fold_left ast_step evs ns.

Definition ast_of (evs : list event) : tree := fst (pop_node (ast_stack evs [])).

Fixpoint yield (t : tree) : list look :=
  match t with
  | Leaf a => [a]
  | Node _ ch => flat_map yield ch
  | TNil => []
  end.

(** productions of the internal nodes, children before parent, left to right *)
Fixpoint postorder (t : tree) : list prod :=
  match t with
  | Leaf _ => []
  | Node p ch => flat_map postorder ch ++ [p]
  | TNil => []
  end.

(** ** The certificate

    [lbl] gives for every state [0 .. length lbl - 1] a string of grammar symbols that is a
    suffix of the symbols on the stack whenever that state is on top. *)

Definition label_of (lbl : list (list sym)) (s : Z) : option (list sym) :=
  if (s <? 0)%Z then None else nth_error lbl (Z.to_nat s).

Definition is_suffix (u v : list sym) : bool :=
  (length u <=? length v) && str_eqb u (skipn (length v - length u) v).

Definition has_accept (tbl : table) (s : Z) : bool :=
  existsb (fun e => match e with (s', _, Accept) => Z.eqb s s' | _ => false end) (t_action tbl).

(** a transition [s --X--> t] is consistent with the labels *)
Definition edge_ok (tbl : table) (lbl : list (list sym)) (s : Z) (X : sym) (t : Z) : bool :=
  match label_of lbl s, label_of lbl t with
  | Some ls, Some lt =>
      negb (Z.eqb t 0) && is_suffix lt (ls ++ [X]) && (negb (has_accept tbl t) || Z.eqb s 0)
  | _, _ => false
  end.

Definition action_ok (G : gram) (tbl : table) (lbl : list (list sym)) (e : Z * look * action) : bool :=
  let '(s, a, x) := e in
  match x with
  | Shift t => match a with Some c => edge_ok tbl lbl s (Tm c) t && negb (has_accept tbl t) | None => false end
  | Reduce p =>
      existsb (prod_eqb p) (prods G) &&
      match label_of lbl s with Some ls => is_suffix (body p) ls | None => false end
  | Accept =>
      match a, label_of lbl s with
      | None, Some ls => str_eqb ls [Nt (start G)]
      | _, _ => false
      end
  end.

Definition goto_ok (tbl : table) (lbl : list (list sym)) (e : Z * nat * Z) : bool :=
  let '(s, A, t) := e in edge_ok tbl lbl s (Nt A) t.

Definition table_ok (G : gram) (tbl : table) (lbl : list (list sym)) : bool :=
  match lbl with [] :: _ => true | _ => false end &&
  forallb (action_ok G tbl lbl) (t_action tbl) &&
  forallb (goto_ok tbl lbl) (t_goto tbl).

(** Label inference (untrusted helper: [table_ok] re-checks whatever it returns): propagate
    along shift and goto edges from state 0, keeping for every state the longest common
    suffix of the strings reaching it (4n+8 passes: labels only shrink, and by at most the
    longest body per state in practice). *)

Fixpoint common_suffix_rev (u v : list sym) : list sym :=
  match u, v with
  | x :: u', y :: v' => if sym_eqb x y then x :: common_suffix_rev u' v' else []
  | _, _ => []
  end.

Definition common_suffix (u v : list sym) : list sym := rev (common_suffix_rev (rev u) (rev v)).

Fixpoint set_nth {A} (l : list A) (n : nat) (x : A) : list A :=
  match l, n with
  | [], _ => []
  | _ :: r, O => x :: r
  | y :: r, S n' => y :: set_nth r n' x
  end.

Definition edges (tbl : table) : list (Z * sym * Z) :=
  flat_map (fun e => match e with (s, Some c, Shift t) => [(s, Tm c, t)] | _ => [] end) (t_action tbl) ++
  map (fun e => match e with (s, A, t) => (s, Nt A, t) end) (t_goto tbl).

(** one pass; [None] = not yet reached *)
Definition relax (lbl : list (option (list sym))) (e : Z * sym * Z) : list (option (list sym)) :=
  let '(s, X, t) := e in
  if (s <? 0)%Z || (t <? 0)%Z then lbl else
  match nth_error lbl (Z.to_nat s) with
  | Some (Some ls) =>
      let cand := ls ++ [X] in
      match nth_error lbl (Z.to_nat t) with
      | Some None => set_nth lbl (Z.to_nat t) (Some cand)
      | Some (Some lt) => set_nth lbl (Z.to_nat t) (Some (common_suffix lt cand))
      | None => lbl
      end
  | _ => lbl
  end.

Fixpoint iterate {A} (n : nat) (f : A -> A) (x : A) : A :=
  match n with O => x | S n' => iterate n' f (f x) end.

Definition infer_labels (nstates : nat) (tbl : table) : list (list sym) :=
  let init := Some [] :: repeat None (nstates - 1) in
  let es := edges tbl in
  let fin := iterate (4 * nstates + 8) (fun l => fold_left relax es l) init in
  map (fun o => match o with Some l => l | None => [] end) fin.

(** ** Termination certificate: for every lookahead and every pair of adjacent stack states
    [t; s] the reduce-only run that starts from the two known states stops within [B] steps
    (by a shift, accept or error, or by popping below the known part). *)

Inductive sim := SimStop | SimLoop.

Fixpoint sim_run (B : nat) (tbl : table) (a : look) (known : list Z) : sim :=
  match B with
  | O => SimLoop
  | S b =>
    match known with
    | [] => SimStop
    | s :: _ =>
      match find_action (t_action tbl) s a with
      | Some (Reduce p) =>
          let k := length (body p) in
          if k <? length known
          then let st' := skipn k known in
               sim_run b tbl a (goto_or_err tbl (peek st') (head p) :: st')
          else SimStop
      | _ => SimStop
      end
    end
  end.

Definition sim_ok (B : nat) (tbl : table) (a : look) (known : list Z) : bool :=
  match sim_run B tbl a known with SimStop => true | SimLoop => false end.

Definition looks_of (tbl : table) : list look :=
  None :: map (fun e => match e with (_, a, _) => a end) (t_action tbl).

Definition term_ok (B : nat) (tbl : table) : bool :=
  forallb (fun a =>
    sim_ok B tbl a [0%Z] &&
    forallb (fun e => match e with (s, _, t) => sim_ok B tbl a [t; s] end) (edges tbl))
    (looks_of tbl).

(** ** Membership oracle: all sentences of length <= n, by a bottom-up fixpoint.
    [env] maps a non-terminal to the set (duplicate-free list) of terminal strings of length
    <= n known to derive from it. *)

Definition tstr_eqb (u v : list nat) : bool :=
  (length u =? length v) && forallb (fun p => Nat.eqb (fst p) (snd p)) (combine u v).

Definition mem_str (w : list nat) (l : list (list nat)) : bool := existsb (tstr_eqb w) l.

Definition add_str (w : list nat) (l : list (list nat)) : list (list nat) :=
  if mem_str w l then l else w :: l.

Definition env := list (nat * list (list nat)).

Fixpoint env_get (e : env) (A : nat) : list (list nat) :=
  match e with
  | [] => []
  | (B, l) :: r => if Nat.eqb A B then l else env_get r A
  end.

Fixpoint env_add (e : env) (A : nat) (w : list nat) : env :=
  match e with
  | [] => [(A, [w])]
  | (B, l) :: r => if Nat.eqb A B then (B, add_str w l) :: r else (B, l) :: env_add r A w
  end.

(** all strings of length <= n obtained by concatenating one known string per symbol of [b] *)
Fixpoint expand (e : env) (n : nat) (b : list sym) : list (list nat) :=
  match b with
  | [] => [[]]
  | Tm a :: b' =>
      match n with
      | O => []
      | S n' => map (cons a) (expand e n' b')
      end
  | Nt A :: b' =>
      flat_map (fun u =>
        if length u <=? n
        then map (app u) (expand e (n - length u) b')
        else []) (env_get e A)
  end.

Definition lang_step (G : gram) (n : nat) (e : env) : env :=
  fold_left (fun e' p => fold_left (fun e'' w => env_add e'' (head p) w) (expand e n (body p)) e')
            (prods G) e.

(** a round would add nothing *)
Definition closed (G : gram) (n : nat) (e : env) : bool :=
  forallb (fun p => forallb (fun w => mem_str w (env_get e (head p))) (expand e n (body p))) (prods G).

(** iterate until a round adds nothing (or the fuel runs out: [None]) *)
Fixpoint lang_fix (fuel : nat) (G : gram) (n : nat) (e : env) : option env :=
  match fuel with
  | O => None
  | S f => if closed G n e then Some e else lang_fix f G n (lang_step G n e)
  end.

Definition lang_upto (fuel : nat) (G : gram) (n : nat) : option (list (list nat)) :=
  match lang_fix fuel G n [] with
  | Some e => Some (env_get e (start G))
  | None => None
  end.

(** ** Checker for "the emitted productions are a rightmost derivation in reverse":
    replay the productions backwards from the start symbol, always rewriting the rightmost
    non-terminal. *)

Fixpoint split_last_nt (rev_form : list sym) (suffix : list sym) : option (list sym * nat * list sym) :=
  match rev_form with
  | [] => None
  | Nt A :: r => Some (r, A, suffix)
  | Tm a :: r => split_last_nt r (Tm a :: suffix)
  end.

Fixpoint rm_replay (ps : list prod) (form : list sym) : option (list sym) :=
  match ps with
  | [] => Some form
  | p :: r =>
      match split_last_nt (rev form) [] with
      | Some (pre_rev, A, suf) =>
          if Nat.eqb A (head p) then rm_replay r (rev pre_rev ++ body p ++ suf) else None
      | None => None
      end
  end.

Definition rm_check (G : gram) (ps : list prod) (w : list nat) : bool :=
  forallb (fun p => existsb (prod_eqb p) (prods G)) ps &&
  match rm_replay (rev ps) [Nt (start G)] with
  | Some f => str_eqb f (map Tm w)
  | None => false
  end.

(** ** Checker for membership witnesses: a leftmost derivation given as its production sequence
    (used for strings longer than the bound of the exhaustive oracle) *)

Fixpoint split_first_nt (form : list sym) : option (list nat * nat * list sym) :=
  match form with
  | [] => None
  | Nt A :: r => Some ([], A, r)
  | Tm a :: r =>
      match split_first_nt r with
      | Some (pre, A, suf) => Some (a :: pre, A, suf)
      | None => None
      end
  end.

Fixpoint lm_replay (ps : list prod) (form : list sym) : option (list sym) :=
  match ps with
  | [] => Some form
  | p :: r =>
      match split_first_nt form with
      | Some (pre, A, suf) =>
          if Nat.eqb A (head p) then lm_replay r (map Tm pre ++ body p ++ suf) else None
      | None => None
      end
  end.

Definition lm_check (G : gram) (ps : list prod) (w : list nat) : bool :=
  forallb (fun p => existsb (prod_eqb p) (prods G)) ps &&
  match lm_replay ps [Nt (start G)] with
  | Some f => str_eqb f (map Tm w)
  | None => false
  end.
