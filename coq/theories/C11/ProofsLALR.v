(** C11 — every table returned by the modelled LALR(1) construction (merge the canonical LR(1)
    states with equal cores) passes the certificate [table_ok].  Labels depend on cores only,
    so a merged state has the label of any of its members. *)
From Coq Require Import List ZArith Bool Arith Lia.
From Algo.Grammar Require Import CFG.
From Algo.C11 Require Import Model ModelPrec ModelSLR ModelLR1 Proofs ProofsLR0 ProofsSLR ProofsCLR.
Import ListNotations.

(** ** cores *)

Definition core_in (y : item) (I : list item1) : Prop := exists x, In x I /\ core_of x = y.

Lemma add_item_In' x i I : In x (add_item i I) <-> In x I \/ x = i.
Proof.
  split.
  - intros H. apply add_item_In in H as [H|[H _]]; auto.
  - intros [H|H]; [now apply add_item_incl|]. subst x. unfold add_item.
    destruct (mem_item i I) eqn:E; [now apply mem_item_In|apply in_or_app; right; now left].
Qed.

Lemma cores_In I y : In y (cores I) <-> core_in y I.
Proof.
  unfold cores, core_in.
  assert (Hgen : forall l acc, In y (fold_left (fun l i => add_item (core_of i) l) l acc) <->
                 In y acc \/ exists x, In x l /\ core_of x = y).
  { induction l as [|i l IH]; intros acc; simpl.
    - split; [auto|]. intros [H|[x [[] _]]]; auto.
    - rewrite IH, add_item_In'. split.
      + intros [[H|H]|[x [Hx E]]]; auto; [right; exists i; auto|right; exists x; auto].
      + intros [H|[x [[Hx|Hx] E]]]; auto; [subst x; auto|right; exists x; auto]. }
  rewrite Hgen. split; [intros [[]|H]; exact H|auto].
Qed.

Lemma same_core_spec I J : same_core I J = true -> forall y, core_in y I <-> core_in y J.
Proof.
  unfold same_core. intros H y. rewrite <- !cores_In. now apply itemset_eqb_spec.
Qed.

Lemma same_core_refl I : same_core I I = true.
Proof.
  unfold same_core, itemset_eqb, subset_items.
  assert (H : forallb (fun i => mem_item i (cores I)) (cores I) = true)
    by (apply forallb_forall; intros x Hx; now apply In_mem_item).
  now rewrite H.
Qed.

Lemma class_index_spec J : forall reps k0 k, class_index J reps k0 = Some k ->
  k0 <= k /\ exists R, nth_error reps (k - k0) = Some R /\ same_core R J = true.
Proof.
  induction reps as [|R reps IH]; intros k0 k H; simpl in H; [discriminate|].
  destruct (same_core R J) eqn:E.
  - inversion H; subst. split; [lia|]. rewrite Nat.sub_diag. exists R. auto.
  - apply IH in H as [Hle [R' [Hn He]]]. split; [lia|]. exists R'. split; auto.
    replace (k - k0) with (S (k - S k0)) by lia. exact Hn.
Qed.

Lemma class_index_complete J : forall reps k0, (exists R, In R reps /\ same_core R J = true) ->
  exists k, class_index J reps k0 = Some k.
Proof.
  induction reps as [|R reps IH]; intros k0 [R' [Hin He]]; [destruct Hin|]. simpl.
  destruct (same_core R J) eqn:E; [eauto|].
  destruct Hin as [Hin|Hin]; [subst; congruence|]. apply IH. eauto.
Qed.

Lemma class_of_spec reps J t : class_of reps J = t -> (0 <= t)%Z ->
  J <> [] /\ exists k R, t = Z.of_nat k /\ nth_error reps k = Some R /\ same_core R J = true.
Proof.
  unfold class_of. intros H Ht. destruct J as [|j J]; [subst; lia|]. split; [discriminate|].
  destruct (class_index (j :: J) reps 0) as [k|] eqn:E; [|subst; lia].
  apply class_index_spec in E as [_ [R [Hn He]]]. rewrite Nat.sub_0_r in Hn. exists k, R. auto.
Qed.

(** ** representatives and merged states *)

Lemma reps_fold : forall l rs,
  exists extra, fold_left (fun rs J => match class_index J rs 0 with Some _ => rs | None => rs ++ [J] end) l rs = rs ++ extra /\
    incl extra l /\
    forall I, In I l -> exists R, In R (rs ++ extra) /\ same_core R I = true.
Proof.
  induction l as [|J l IH]; intros rs; simpl.
  - exists []. rewrite app_nil_r. split; [reflexivity|]. split; [apply incl_refl|intros I []].
  - destruct (class_index J rs 0) as [k|] eqn:E.
    + destruct (IH rs) as [extra [E1 [E2 E3]]]. exists extra. split; [exact E1|]. split.
      * intros x Hx. right. now apply E2.
      * intros I [HI|HI]; [|now apply E3]. subst I.
        apply class_index_spec in E as [_ [R [Hn He]]]. exists R. split; auto.
        apply in_or_app. left. eapply nth_error_In; eauto.
    + destruct (IH (rs ++ [J])) as [extra [E1 [E2 E3]]]. exists (J :: extra).
      rewrite E1, <- app_assoc. simpl. split; [reflexivity|]. split.
      * intros x [Hx|Hx]; [now left|right; now apply E2].
      * intros I [HI|HI].
        -- subst I. exists J. split; [apply in_or_app; right; now left|apply same_core_refl].
        -- destruct (E3 I HI) as [R [HR He]]. exists R. split; auto.
           rewrite <- app_assoc in HR. exact HR.
Qed.

Lemma add1_fold_In x : forall J m, In x (fold_left (fun m' i => add_item1 i m') J m) <-> In x m \/ In x J.
Proof.
  induction J as [|j J IH]; intros m; simpl.
  - split; [auto|intros [H|[]]; auto].
  - rewrite IH. split.
    + intros [H|H]; auto. apply add_item1_In in H as [H|H]; auto.
    + intros [H|[H|H]]; auto; left; [now apply add_item1_incl|subst; apply add_item1_has].
Qed.

Lemma merge_class_In C R x : In x (merge_class C R) <-> exists I, In I C /\ same_core R I = true /\ In x I.
Proof.
  unfold merge_class.
  assert (Hgen : forall l m, In x (fold_left (fun m J => if same_core R J then fold_left (fun m' i => add_item1 i m') J m else m) l m) <->
                 In x m \/ exists I, In I l /\ same_core R I = true /\ In x I).
  { induction l as [|J l IH]; intros m; simpl.
    - split; [auto|intros [H|[I [[] _]]]; auto].
    - rewrite IH. destruct (same_core R J) eqn:E.
      + rewrite add1_fold_In. split.
        * intros [[H|H]|[I [H1 H2]]]; auto; right; [exists J; auto|exists I; auto].
        * intros [H|[I [[H1|H1] [H2 H3]]]]; auto; [subst; auto|right; exists I; auto].
      + split.
        * intros [H|[I [H1 H2]]]; auto. right. exists I. auto.
        * intros [H|[I [[H1|H1] [H2 H3]]]]; auto; [subst; congruence|right; exists I; auto]. }
  rewrite Hgen. split; [intros [[]|H]; exact H|auto].
Qed.

(** ** the theorem *)

Section MainL.
  Variable G : gram.
  Hypothesis Hvalid : forall p c, In p (prods G) -> In (Tm c) (body p) -> In c (terms G).
  Variable fuel : nat.
  Variable C : list (list item1).
  Hypothesis HC : canonical1 fuel G = Some C.

  Let c := ctx_of G.
  Let ps := prods (augment G).
  Let aug := aug_prod G.
  Let syms := symbols_of (augment G).
  Let I0 := closure1 (c_nterms c) (c_nl c) (c_fe c) (c_ps c) [(aug, 0, None)].
  Let reps := reps_of C.
  Let M (R : list item1) := merge_class C R.
  Let lbl := map (fun R => lp1 (M R)) reps.

  Lemma reps_shape : exists r, reps = I0 :: r /\ Forall (nonInit1 G) r /\
    (forall R, In R reps -> In R C) /\ (forall I, In I C -> exists R, In R reps /\ same_core R I = true).
  Proof.
    destruct (C1_coll G fuel C HC) as [[t [E Ht]] _]. fold c in E. fold aug in E. fold I0 in E.
    unfold reps, reps_of. rewrite E. simpl.
    destruct (reps_fold t [I0]) as [extra [E1 [E2 E3]]]. rewrite E1. simpl.
    exists extra. split; [reflexivity|]. split; [|split].
    - rewrite Forall_forall in *. intros x Hx. apply Ht. now apply E2.
    - intros R [HR|HR]; [now left|right; now apply E2].
    - intros I [HI|HI].
      + subst I. exists I0. split; [now left|apply same_core_refl].
      + exact (E3 I HI).
  Qed.

  Lemma reps_nth_0 : nth_error reps 0 = Some I0.
  Proof. destruct reps_shape as [r [E _]]. now rewrite E. Qed.

  Lemma reps_nth_nonInit k R : nth_error reps (S k) = Some R -> nonInit1 G R.
  Proof.
    destruct reps_shape as [r [E [Hr _]]]. rewrite E. simpl. intros H.
    rewrite Forall_forall in Hr. apply Hr. eapply nth_error_In; eauto.
  Qed.

  Lemma reps_nth_C k R : nth_error reps k = Some R -> In R C.
  Proof. destruct reps_shape as [r [_ [_ [H _]]]]. intros Hn. apply H. eapply nth_error_In; eauto. Qed.

  Lemma reps_nth_reach k R : nth_error reps k = Some R -> reach1 G R.
  Proof. intros H. eapply coll1_reach; [apply (C1_coll G fuel C HC)|]. eapply reps_nth_C; eauto. Qed.

  Lemma rep_in_M R : In R C -> incl R (M R).
  Proof. intros HR x Hx. apply merge_class_In. exists R. split; auto. split; [apply same_core_refl|exact Hx]. Qed.

  Lemma M_core x R : In x (M R) -> core_in (core_of x) R.
  Proof.
    intros Hx. apply merge_class_In in Hx as [I [_ [He Hx]]].
    apply (same_core_spec _ _ He). exists x. auto.
  Qed.

  Lemma spelled1_M l R : spelled1 ps l R -> spelled1 ps l (M R).
  Proof.
    intros Hs x Hx. destruct (M_core _ _ Hx) as [y [Hy E]]. rewrite <- E. now apply Hs.
  Qed.

  Lemma labelL_nth k R : nth_error reps k = Some R -> label_of lbl (Z.of_nat k) = Some (lp1 (M R)).
  Proof.
    intros H. unfold label_of, lbl.
    assert (E : (Z.of_nat k <? 0)%Z = false) by (apply Z.ltb_ge; lia). rewrite E.
    rewrite Nat2Z.id. now rewrite nth_error_map, H.
  Qed.

  Definition accept_statesL (tbl : table) : Prop :=
    forall s, has_accept tbl (Z.of_nat s) = true -> exists R a, nth_error reps s = Some R /\ In (aug, 1, a) (M R).

  Lemma edge_ok_gotoL tbl k R X t : accept_statesL tbl ->
    nth_error reps k = Some R -> class_of reps (goto1 c R X) = t -> (0 <= t)%Z ->
    edge_ok tbl lbl (Z.of_nat k) X t = true.
  Proof.
    intros HA Hk Ht Hpos.
    destruct (class_of_spec _ _ _ Ht Hpos) as [Hne [k' [R' [Et [Hk' Heq]]]]]. rewrite Et.
    pose proof (reps_nth_reach _ _ Hk) as HR.
    pose proof (same_core_spec _ _ Heq) as Hset.
    destruct (reach1_spelled G _ HR) as [l Hl].
    unfold edge_ok. rewrite (labelL_nth _ _ Hk), (labelL_nth _ _ Hk').
    (* every core of the target class comes from GOTO(R, X) *)
    assert (Hcore : forall y, In y (M R') ->
      (exists d, snd (core_of y) = S d /\ core_in (fst (core_of y), d) R /\ nth_error (body (fst (core_of y))) d = Some X)
      \/ fresh2 ps (core_of y)).
    { intros y Hy. apply M_core in Hy. apply Hset in Hy as [z [Hz E]].
      destruct (goto1_items G R X HR Hne _ Hz) as [[d [Hd [Hi Hn]]]|Hf].
      - left. exists d. rewrite <- E. split; auto. split; auto. exists (fst (core_of z), d, la_of z). auto.
      - right. now rewrite <- E. }
    apply andb_true_iff. split; [apply andb_true_iff; split|].
    - apply negb_true_iff. apply Z.eqb_neq. intros E. assert (k' = 0) by lia. subst k'.
      rewrite reps_nth_0 in Hk'. inversion Hk'; subst R'.
      destruct (nonInit1_kernel_item G (goto1 c R X)) as [x [Hx Hs]].
      { exists R, X. auto. }
      assert (Hc : core_in (core_of x) I0) by (apply Hset; exists x; auto).
      destruct Hc as [z [Hz Ez]]. apply (I0_dots1 G) in Hz. rewrite Ez in Hz. contradiction.
    - destruct (lp1_spec (M R')) as [[E|[y [Hy E]]] _].
      + rewrite E. rewrite <- (app_nil_r (lp1 (M R) ++ [X])). apply is_suffix_complete.
      + destruct (Hcore y Hy) as [[d [Hd [[z [Hz Ez]] Hn]]]|[Hf _]].
        * assert (HzM : In z (M R)) by (apply rep_in_M; [eapply reps_nth_C; eauto|exact Hz]).
          destruct (lp1_chain _ _ _ (spelled1_M _ _ Hl) _ HzM) as [pre Hpre].
          rewrite E. unfold prefix_of at 1. rewrite Hd, (firstn_S_nth _ _ _ Hn).
          rewrite Hpre, Ez. unfold prefix_of. simpl fst. simpl snd. rewrite <- app_assoc. apply is_suffix_complete.
        * rewrite E. unfold prefix_of. rewrite Hf. simpl.
          rewrite <- (app_nil_r (lp1 (M R) ++ [X])). apply is_suffix_complete.
    - destruct (has_accept tbl (Z.of_nat k')) eqn:Ea; [|reflexivity]. simpl.
      destruct (HA _ Ea) as [R'' [a [Hk'' Hin]]]. rewrite Hk' in Hk''. inversion Hk''; subst R''.
      destruct (Hcore _ Hin) as [[d [Hd [[z [Hz Ez]] Hn]]]|Hf].
      + unfold core_of in Hd, Ez, Hn. simpl in Hd, Ez, Hn. inversion Hd; subst d.
        destruct k as [|k]; [reflexivity|]. exfalso.
        destruct z as [[zp zd] za]. unfold core_of in Ez. simpl in Ez. inversion Ez; subst zp zd.
        exact (nonInit1_no_aug0 G _ za (reps_nth_nonInit _ _ Hk) Hz).
      + exfalso. now apply (fresh2_not_aug G _ Hf).
  Qed.

  Definition contributedL (s : Z) (a : look) (x : action) : Prop :=
    exists k R it, s = Z.of_nat k /\ nth_error reps k = Some R /\ In it (M R) /\
      ((exists t, dot_symbol (core_of it) = Some (Tm t) /\ a = Some t /\ x = Shift (class_of reps (goto1 c R (Tm t)))) \/
       (is_complete (core_of it) = true /\ head (fst (fst it)) = fresh_nt G /\ a = None /\ x = Accept) \/
       (is_complete (core_of it) = true /\ head (fst (fst it)) <> fresh_nt G /\ x = Reduce (fst (fst it)))).

  Lemma item1_actions_okL k R cells it : nth_error reps k = Some R -> In it (M R) ->
    cells_ok contributedL cells ->
    cells_ok contributedL (item1_actions G (fun X => class_of reps (goto1 c R X)) (Z.of_nat k) cells it).
  Proof.
    intros Hk Hin Hc. unfold item1_actions.
    set (c1 := match dot_symbol (core_of it) with
               | Some (Tm a) => cell_add cells (Z.of_nat k) (Some a) (Shift (class_of reps (goto1 c R (Tm a))))
               | _ => cells end).
    assert (Hc1 : cells_ok contributedL c1).
    { unfold c1. destruct (dot_symbol (core_of it)) as [[a|A]|] eqn:Ed; auto.
      apply cell_add_ok; auto. exists k, R, it. repeat split; auto. left. exists a. auto. }
    destruct (is_complete (core_of it)) eqn:Ec; auto.
    destruct (Nat.eqb_spec (head (fst (fst it))) (fresh_nt G)) as [Eh|Eh].
    - destruct (la_of it) eqn:El; auto.
      apply cell_add_ok; auto. exists k, R, it. repeat split; auto. right. left. auto.
    - apply cell_add_ok; auto. exists k, R, it. repeat split; auto; try (right; right; auto).
  Qed.

  Lemma idxL_spec s R : In (s, R) (combine (map Z.of_nat (seq 0 (length reps))) reps) ->
    exists k, s = Z.of_nat k /\ nth_error reps k = Some R.
  Proof. intros H. apply combine_seq_In in H as [k [H1 H2]]. exists k. auto. Qed.

  Lemma rawL_cells_ok r : lalr_raw fuel G = Some r -> cells_ok contributedL (r_action r).
  Proof.
    unfold lalr_raw. rewrite HC. intros H. inversion H; subst r; clear H. cbn [r_action].
    apply fold_cells_ok; [|intros s a l x []].
    intros cells [s R] Hin Hc. apply idxL_spec in Hin as [k [Es Hk]]. subst s. cbn [fst snd].
    apply fold_cells_ok; auto. intros cells' it Hit Hc'. now apply item1_actions_okL.
  Qed.

  Lemma rawL_gotos r s A t : lalr_raw fuel G = Some r -> In (s, A, t) (r_goto r) ->
    exists k R, s = Z.of_nat k /\ nth_error reps k = Some R /\ t = class_of reps (goto1 c R (Nt A)) /\ (0 <= t)%Z.
  Proof.
    unfold lalr_raw. rewrite HC. intros H. inversion H; subst r; clear H. cbn [r_goto].
    intros Hin. apply in_flat_map in Hin as [[s' R] [Hidx Hin]].
    apply in_flat_map in Hin as [A' [_ Hin]]. cbn [fst snd] in Hin.
    apply idxL_spec in Hidx as [k [Es Hk]]. subst s'.
    fold c in Hin. fold reps in Hin.
    destruct (class_of reps (goto1 c R (Nt A'))) as [|p|p] eqn:E; simpl in Hin.
    - destruct Hin as [Hin|[]]. inversion Hin; subst. exists k, R. rewrite E. repeat split; auto. lia.
    - destruct Hin as [Hin|[]]. inversion Hin; subst. exists k, R. rewrite E. repeat split; auto. lia.
    - destruct Hin.
  Qed.

  Theorem lalr_table_ok ls tbl : build_lalr fuel G ls = BuiltOk tbl -> table_ok G tbl lbl = true.
  Proof.
    unfold build_lalr, finish. destruct (lalr_raw fuel G) as [r|] eqn:Er; [|discriminate].
    destruct (negb (levels_disjoint ls)); [discriminate|].
    destruct (resolve_cells ls (r_action r)) as [acts confl] eqn:Ec.
    destruct confl; [|discriminate]. intros H. inversion H; subst tbl; clear H.
    pose proof (rawL_cells_ok r Er) as Hraw.
    assert (Hent : forall s a x, In (s, a, x) acts -> contributedL s a x).
    { intros s a x Hin. assert (Hin' : In (s, a, x) (fst (resolve_cells ls (r_action r)))) by now rewrite Ec.
      apply resolve_cells_In in Hin' as [l [H1 H2]]. eapply Hraw; eauto. }
    set (tbl := mkTable acts (r_goto r)).
    assert (Hsp : forall k R, nth_error reps k = Some R -> exists l, spelled1 ps l (M R)).
    { intros k R Hk. destruct (reach1_spelled G _ (reps_nth_reach _ _ Hk)) as [l Hl]. exists l. now apply spelled1_M. }
    assert (Haug1 : forall k R it, nth_error reps k = Some R -> In it (M R) -> head (fst (fst it)) = fresh_nt G ->
                    is_complete (core_of it) = true -> it = (aug, 1, la_of it)).
    { intros k R it Hk Hin Hh Hc. destruct (Hsp _ _ Hk) as [l Hl]. destruct (Hl _ Hin) as [Hp _].
      pose proof (fresh_head G _ Hp Hh) as Ef. unfold core_of in Ef. simpl in Ef.
      unfold is_complete, core_of in Hc. simpl in Hc. apply Nat.eqb_eq in Hc. rewrite Ef in Hc. simpl in Hc.
      destruct it as [[p d] a]. unfold la_of. simpl in *. now subst p d. }
    assert (HA : accept_statesL tbl).
    { intros s Hs. unfold has_accept in Hs. apply existsb_exists in Hs as [[[s' a] x] [Hin Hx]].
      destruct x; try discriminate. apply Z.eqb_eq in Hx. subst s'. simpl in Hin.
      destruct (Hent _ _ _ Hin) as [k [R [it [Es [Hk [Hit Hcase]]]]]].
      apply Nat2Z.inj in Es. subst k. exists R, (la_of it). split; auto.
      destruct Hcase as [[t [_ [_ Hx]]]|[[Hc [Hh _]]|[_ [_ Hx]]]]; try discriminate.
      rewrite <- (Haug1 _ _ _ Hk Hit Hh Hc). exact Hit. }
    unfold table_ok. apply andb_true_iff. split; [apply andb_true_iff; split|].
    - destruct reps_shape as [rr [E _]]. unfold lbl. rewrite E. cbn [map].
      destruct (lp1_spec (M I0)) as [[E0|[y [Hy E0]]] _]; rewrite E0; auto.
      assert (Hk0 : nth_error reps 0 = Some I0) by (rewrite E; reflexivity).
      destruct (M_core _ _ Hy) as [z [Hz Ez]]. apply (I0_dots1 G) in Hz. rewrite Ez in Hz.
      unfold prefix_of. now rewrite Hz.
    - apply forallb_forall. intros [[s a] x] Hin. simpl in Hin.
      destruct (Hent _ _ _ Hin) as [k [R [it [Es [Hk [Hit Hcase]]]]]]. subst s.
      pose proof (reps_nth_reach _ _ Hk) as HR. destruct (Hsp _ _ Hk) as [l Hl].
      destruct (Hl _ Hit) as [Hp [Hle _]].
      destruct Hcase as [[t [Hd [Ea Ex]]]|[[Hc [Hh [Ea Ex]]]|[Hc [Hh Ex]]]]; subst x; unfold action_ok.
      + subst a.
        (* the representative has an item with the same core, hence the same symbol after the dot *)
        destruct (M_core _ _ Hit) as [it' [Hit' Eit']].
        assert (Hd' : dot_symbol (core_of it') = Some (Tm t)) by now rewrite Eit'.
        assert (Hne : goto1 c R (Tm t) <> []) by (eapply goto1_nonempty; eauto).
        assert (Hsym : In (Tm t) syms).
        { unfold syms, symbols_of. apply in_or_app. left. apply in_map. simpl.
          unfold dot_symbol in Hd. apply nth_error_In in Hd.
          destruct Hp as [Hp|Hp]; [rewrite <- Hp in Hd; simpl in Hd; destruct Hd as [Hd|[]]; discriminate|].
          eapply Hvalid; eauto. }
        destruct (C1_coll G fuel C HC) as [_ Hclosed].
        destruct (Hclosed R (Tm t) (reps_nth_C _ _ Hk) Hsym) as [Hg|[kc Hidx]]; [contradiction|].
        (* GOTO(R, t) is a state of the LR(1) collection, so its class exists *)
        assert (Hcl : exists k', class_of reps (goto1 c R (Tm t)) = Z.of_nat k').
        { apply index_of1_spec in Hidx as [_ [J [HJ HeJ]]]. rewrite Nat.sub_0_r in HJ.
          destruct reps_shape as [_ [_ [_ [_ Hcov]]]].
          destruct (Hcov J (nth_error_In _ _ HJ)) as [R2 [HR2 He2]].
          assert (He3 : same_core R2 (goto1 c R (Tm t)) = true).
          { unfold same_core in *. unfold itemset_eqb, subset_items in *.
            apply andb_true_iff in He2 as [A1 A2]. rewrite forallb_forall in A1, A2.
            pose proof (itemset1_eqb_spec _ _ HeJ) as HJs.
            assert (Hcs : forall y, In y (cores J) <-> In y (cores (goto1 c R (Tm t)))).
            { intros y. rewrite !cores_In. unfold core_in. split; intros [x [Hx E]]; exists x; split; auto; now apply HJs. }
            apply andb_true_iff. split; apply forallb_forall; intros y Hy; apply In_mem_item.
            - apply Hcs. apply mem_item_In. now apply A1.
            - apply mem_item_In. apply A2. now apply Hcs. }
          destruct (class_index_complete (goto1 c R (Tm t)) reps 0) as [k' Hk']; [eauto|].
          exists k'. unfold class_of. rewrite Hk'. destruct (goto1 c R (Tm t)); [contradiction|reflexivity]. }
        destruct Hcl as [k' Hst]. rewrite Hst. apply andb_true_iff. split.
        * eapply edge_ok_gotoL; eauto. lia.
        * destruct (has_accept tbl (Z.of_nat k')) eqn:Eacc; [|reflexivity]. exfalso.
          destruct (HA _ Eacc) as [R' [a' [Hk' Hin']]].
          destruct (class_of_spec _ _ _ Hst ltac:(lia)) as [_ [k2 [R2 [E2 [Hk2 Heq]]]]].
          apply Nat2Z.inj in E2. subst k2. rewrite Hk' in Hk2. inversion Hk2; subst R2.
          apply M_core in Hin'. apply (same_core_spec _ _ Heq) in Hin' as [z [Hz Ez]].
          destruct (goto1_items G R (Tm t) HR Hne _ Hz) as [[d [Hd2 [_ Hn]]]|Hf].
          -- rewrite Ez in Hd2, Hn. simpl in Hd2, Hn. inversion Hd2; subst d. simpl in Hn. discriminate.
          -- rewrite Ez in Hf. now apply (fresh2_not_aug G _ Hf).
      + subst a. rewrite (labelL_nth _ _ Hk).
        pose proof (Haug1 _ _ _ Hk Hit Hh Hc) as Eit.
        assert (Hit1 : In (aug, 1, la_of it) (M R)) by (rewrite <- Eit; exact Hit).
        (* some member of the class contains S' -> S . ; it is GOTO(I0, S) *)
        apply merge_class_In in Hit1 as [I [HI [HeI HitI]]].
        pose proof (coll1_reach G _ (proj1 (C1_coll G fuel C HC)) _ HI) as HrI.
        assert (HspI : spelled1 ps ([] ++ [Nt (start G)]) I).
        { inversion HrI as [E0|Ip X HIp HneI EI].
          - exfalso. rewrite <- E0 in HitI. apply (I0_dots1 G) in HitI. discriminate.
          - rewrite <- EI in HitI. destruct (aug1_origin1 G Ip X _ HIp HneI HitI) as [H0 EX].
            assert (EIp : Ip = I0).
            { inversion HIp as [|I' X' HI' Hne' E']; [reflexivity|]. exfalso.
              apply (nonInit1_no_aug0 G Ip (la_of it)); [|exact H0]. exists I', X'. subst Ip. auto. }
            subst X. rewrite EIp. apply spelled1_goto. apply I0_spelled1. }
        assert (HspM : spelled1 ps ([] ++ [Nt (start G)]) (M R)).
        { intros x Hx. apply M_core in Hx. apply (same_core_spec _ _ HeI) in Hx as [y [Hy E]].
          rewrite <- E. now apply HspI. }
        destruct (lp1_spec (M R)) as [[E|[y [Hy E]]] Hmax].
        * specialize (Hmax _ Hit). rewrite Eit in Hmax. rewrite E in Hmax.
          unfold prefix_of, core_of in Hmax. simpl in Hmax. lia.
        * assert (Hm := Hmax _ Hit). rewrite Eit in Hm. unfold prefix_of in Hm at 1. unfold core_of in Hm. simpl in Hm.
          destruct (HspM _ Hy) as [_ [_ [pre Hpre]]]. simpl in Hpre.
          rewrite E. rewrite E in Hm.
          destruct pre as [|z pre].
          -- simpl in Hpre. rewrite <- Hpre. simpl. now rewrite Nat.eqb_refl.
          -- apply (f_equal (@length _)) in Hpre. simpl in Hpre. rewrite app_length in Hpre. lia.
      + apply andb_true_iff. split.
        * apply existsb_exists. exists (fst (fst it)). split; [|unfold prod_eqb; now rewrite Nat.eqb_refl, str_eqb_refl].
          destruct Hp as [Hp|Hp]; [|exact Hp]. exfalso. apply Hh. unfold core_of in Hp. simpl in Hp. now rewrite <- Hp.
        * rewrite (labelL_nth _ _ Hk). destruct (lp1_chain _ _ _ Hl _ Hit) as [pre Hpre].
          rewrite Hpre. unfold prefix_of. unfold is_complete in Hc. apply Nat.eqb_eq in Hc. rewrite Hc.
          rewrite firstn_all. unfold core_of. simpl. apply is_suffix_complete.
    - apply forallb_forall. intros [[s A] t] Hin. simpl in Hin.
      destruct (rawL_gotos r s A t Er Hin) as [k [R [Es [Hk [Et Hpos]]]]]. subst s.
      unfold goto_ok. eapply edge_ok_gotoL; eauto.
  Qed.
End MainL.
