(** C11 — soundness of the LR driver over a certified table. *)
From Coq Require Import List ZArith Bool Arith Lia.
From Algo.Grammar Require Import CFG.
From Algo.C11 Require Import Model Spec.
Import ListNotations.

(** ** Boolean equalities *)

Lemma sym_eqb_eq x y : sym_eqb x y = true -> x = y.
Proof.
  destruct x, y; simpl; intros H; try discriminate; apply Nat.eqb_eq in H; now subst.
Qed.

Lemma sym_eqb_refl x : sym_eqb x x = true.
Proof. destruct x; simpl; apply Nat.eqb_refl. Qed.

Lemma str_eqb_eq u : forall v, str_eqb u v = true -> u = v.
Proof.
  induction u as [|x u IH]; intros [|y v]; simpl; intros H; try discriminate; auto.
  apply andb_true_iff in H as [H1 H2]. apply sym_eqb_eq in H1. apply IH in H2. now subst.
Qed.

Lemma str_eqb_refl u : str_eqb u u = true.
Proof. induction u; simpl; auto. now rewrite sym_eqb_refl. Qed.

Lemma prod_eqb_eq p q : prod_eqb p q = true -> p = q.
Proof.
  destruct p as [h b], q as [h' b']; unfold prod_eqb; simpl; intros H.
  apply andb_true_iff in H as [H1 H2]. apply Nat.eqb_eq in H1. apply str_eqb_eq in H2. now subst.
Qed.

Lemma look_eqb_eq a b : look_eqb a b = true -> a = b.
Proof.
  destruct a, b; simpl; intros H; try discriminate; auto. apply Nat.eqb_eq in H. now subst.
Qed.

Lemma existsb_prod_In p l : existsb (prod_eqb p) l = true -> In p l.
Proof.
  intros H. apply existsb_exists in H as [q [Hq He]]. apply prod_eqb_eq in He. now subst.
Qed.

Lemma find_action_In l s a x : find_action l s a = Some x -> In (s, a, x) l.
Proof.
  induction l as [|[[s' a'] x'] l IH]; simpl; intros H; [discriminate|].
  destruct (Z.eqb s s' && look_eqb a a') eqn:E.
  - inversion H; subst. apply andb_true_iff in E as [E1 E2].
    apply Z.eqb_eq in E1. apply look_eqb_eq in E2. subst. now left.
  - right. auto.
Qed.

Lemma find_goto_In l s A t : find_goto l s A = Some t -> In (s, A, t) l.
Proof.
  induction l as [|[[s' A'] t'] l IH]; simpl; intros H; [discriminate|].
  destruct (Z.eqb s s' && Nat.eqb A A') eqn:E.
  - inversion H; subst. apply andb_true_iff in E as [E1 E2].
    apply Z.eqb_eq in E1. apply Nat.eqb_eq in E2. subst. now left.
  - right. auto.
Qed.

Lemma is_suffix_spec u v : is_suffix u v = true -> exists pre, v = pre ++ u.
Proof.
  unfold is_suffix. intros H. apply andb_true_iff in H as [_ H]. apply str_eqb_eq in H.
  exists (firstn (length v - length u) v). rewrite H at 2. now rewrite firstn_skipn.
Qed.

(** ** What [table_ok] gives for the entries the driver looks up *)

Section Sound.
  Variable G : gram.
  Variable tbl : table.
  Variable lbl : list (list sym).
  Hypothesis OK : table_ok G tbl lbl = true.

  Lemma ok_label0 : label_of lbl 0%Z = Some [].
  Proof.
    unfold table_ok in OK. apply andb_true_iff in OK as [H _]. apply andb_true_iff in H as [H _].
    destruct lbl as [|[|] ?]; try discriminate. reflexivity.
  Qed.

  Lemma ok_action s a x : find_action (t_action tbl) s a = Some x -> action_ok G tbl lbl (s, a, x) = true.
  Proof.
    intros H. apply find_action_In in H.
    unfold table_ok in OK. apply andb_true_iff in OK as [H1 _]. apply andb_true_iff in H1 as [_ H1].
    rewrite forallb_forall in H1. now apply H1.
  Qed.

  Lemma ok_goto s A t : find_goto (t_goto tbl) s A = Some t -> edge_ok tbl lbl s (Nt A) t = true.
  Proof.
    intros H. apply find_goto_In in H.
    unfold table_ok in OK. apply andb_true_iff in OK as [_ H1].
    rewrite forallb_forall in H1. now apply (H1 (s, A, t)).
  Qed.

  Lemma find_action_has_accept s a : find_action (t_action tbl) s a = Some Accept -> has_accept tbl s = true.
  Proof.
    intros H. apply find_action_In in H. unfold has_accept. apply existsb_exists.
    exists (s, a, Accept). split; auto. apply Z.eqb_refl.
  Qed.

  (** no entry for a negative state (in particular for ErrState) *)
  Lemma no_action_neg s a : (s < 0)%Z -> find_action (t_action tbl) s a = None.
  Proof.
    intros Hs. destruct (find_action (t_action tbl) s a) as [x|] eqn:E; auto.
    apply ok_action in E. unfold action_ok, edge_ok, label_of in E.
    assert (Hlt : (s <? 0)%Z = true) by now apply Z.ltb_lt.
    rewrite Hlt in E. destruct x as [t|p|]; try destruct a; try discriminate;
      rewrite andb_false_r in E; discriminate.
  Qed.

  (** ** The stack invariant: labels are suffixes of the stack symbols *)

  Lemma path_nonempty st xs : path tbl lbl st xs -> st <> [].
  Proof. destruct 1; discriminate. Qed.

  Lemma path_length st xs : path tbl lbl st xs -> length st = S (length xs).
  Proof. induction 1; simpl; auto. Qed.

  Lemma path_label st xs : path tbl lbl st xs ->
    exists l pre, label_of lbl (peek st) = Some l /\ rev xs = pre ++ l.
  Proof.
    induction 1 as [|t s st X xs Hp IH He Hin].
    - exists [], []. split; [apply ok_label0|reflexivity].
    - destruct IH as [ls [pre [Hl Hx]]]. simpl in Hl.
      unfold edge_ok in He. rewrite Hl in He.
      destruct (label_of lbl t) as [lt|] eqn:Et; [|discriminate].
      apply andb_true_iff in He as [He _]. apply andb_true_iff in He as [_ He].
      apply is_suffix_spec in He as [pre' He].
      exists lt, (pre ++ pre'). split; [exact Et|].
      simpl. rewrite Hx, <- app_assoc, He, <- app_assoc. reflexivity.
  Qed.

  Lemma path_skipn k : forall st xs, path tbl lbl st xs -> k <= length xs ->
    path tbl lbl (skipn k st) (skipn k xs).
  Proof.
    induction k as [|k IH]; intros st xs Hp Hk; [exact Hp|].
    destruct Hp as [|t s st X xs Hp He Hin]; simpl in Hk; [lia|].
    simpl. apply IH; [exact Hp|lia].
  Qed.

  (** a stack whose top state has an accept entry is [s; 0] and spells the start symbol *)
  Lemma path_accept st xs l :
    path tbl lbl st xs -> has_accept tbl (peek st) = true ->
    label_of lbl (peek st) = Some l -> l = [Nt (start G)] ->
    xs = [Nt (start G)].
  Proof.
    intros Hp Ha Hl El. subst l.
    destruct Hp as [|t s st X xs Hp He Hin].
    - simpl in Hl. rewrite ok_label0 in Hl. discriminate.
    - simpl in Ha, Hl.
      assert (Hs : s = 0%Z).
      { unfold edge_ok in He. destruct (label_of lbl s); [|discriminate].
        rewrite Hl in He. apply andb_true_iff in He as [_ He]. rewrite Ha in He. simpl in He.
        now apply Z.eqb_eq. }
      subst s.
      assert (Hx : xs = []).
      { inversion Hp as [|t' s' st' X' xs' Hp' He' Hin' E1 E2]; subst; auto.
        exfalso. unfold edge_ok in He'. destruct (label_of lbl s'); [|discriminate].
        destruct (label_of lbl 0%Z); [|discriminate]. discriminate. }
      subst xs.
      destruct (path_label _ _ (path_cons tbl lbl t 0%Z st X [] Hp He Hin)) as [l' [pre [Hl' Hx]]].
      simpl in Hl'. rewrite Hl in Hl'. inversion Hl'; subst l'. simpl in Hx.
      destruct pre as [|y pre]; simpl in Hx.
      + now inversion Hx.
      + inversion Hx as [[Hy Hr]]. destruct pre; discriminate.
  Qed.

  (** ** One iteration of the driver loop *)

  Definition cfg := (list Z * list nat * list event)%type.

  Definition step (c : cfg) : cfg + outcome :=
    let '(st, inp, out) := c in
    match find_action (t_action tbl) (peek st) (hd_error inp) with
    | None => inr (Rejected inp (rev out))
    | Some (Shift t) => inl (t :: st, tl inp, EvTok (hd_error inp) :: out)
    | Some (Reduce p) =>
        let st' := skipn (length (body p)) st in
        inl (goto_or_err tbl (peek st') (head p) :: st', inp, EvProd p :: out)
    | Some Accept => inr (Accepted (rev out))
    end.

  Lemma run_step f st inp out :
    run (S f) tbl st inp out =
    match step (st, inp, out) with
    | inl (st', inp', out') => run f tbl st' inp' out'
    | inr o => o
    end.
  Proof.
    simpl. destruct (find_action (t_action tbl) (peek st) (hd_error inp)) as [[t|p|]|]; reflexivity.
  Qed.

  (** ** Node-stack helpers *)

  Lemma pop_children_spec k : forall ns acc, k <= length ns ->
    pop_children k ns acc = (rev (firstn k ns) ++ acc, skipn k ns).
  Proof.
    induction k as [|k IH]; intros ns acc Hk; simpl; [reflexivity|].
    destruct ns as [|t ns]; simpl in Hk; [lia|]. simpl.
    rewrite IH by lia. now rewrite <- app_assoc.
  Qed.

  Lemma prods_of_app a b : prods_of (a ++ b) = prods_of a ++ prods_of b.
  Proof. induction a as [|[x|p] a IH]; simpl; auto. now rewrite IH. Qed.

  Lemma prods_of_rev l : prods_of (rev l) = rev (prods_of l).
  Proof.
    induction l as [|[x|p] l IH]; simpl; auto.
    - rewrite prods_of_app, IH. simpl. now rewrite app_nil_r.
    - rewrite prods_of_app, IH. reflexivity.
  Qed.

  (** ** The invariant of the loop for the input [w] *)

  Variable w : list nat.

  Record Inv (c : cfg) (ts : list tree) : Prop := mkInv {
    inv_ast : ts = ast_stack (rev (snd c)) [];
    inv_path : path tbl lbl (fst (fst c)) (map root ts);
    inv_wf : Forall (wf_tree G) ts;
    inv_yield : flat_map yield (rev ts) ++ map Some (snd (fst c)) = map Some w;
    inv_rm : rm_chain G (prods_of (snd c)) (map root (rev ts) ++ map Tm (snd (fst c))) (map Tm w);
    inv_post : flat_map postorder (rev ts) = rev (prods_of (snd c)) }.

  Lemma Inv_init : Inv ([0%Z], w, []) [].
  Proof. constructor; simpl; auto; constructor. Qed.

  Definition dead (c : cfg) : Prop := exists st, fst (fst c) = (-1)%Z :: st.

  Lemma step_dead c : dead c -> exists r e, step c = inr (Rejected r e).
  Proof.
    destruct c as [[st inp] out]. intros [st' H]. simpl in H. subst st. unfold step. simpl.
    rewrite no_action_neg by lia. eauto.
  Qed.

  Lemma flat_map_app' {A B} (f : A -> list B) l1 l2 : flat_map f (l1 ++ l2) = flat_map f l1 ++ flat_map f l2.
  Proof. induction l1; simpl; auto. now rewrite IHl1, app_assoc. Qed.

  Lemma step_Inv c ts c' : Inv c ts -> step c = inl c' -> (exists ts', Inv c' ts') \/ dead c'.
  Proof.
    destruct c as [[st inp] out]. intros [Hast Hpath Hwf Hy Hrm Hpost]. simpl in *.
    unfold step.
    destruct (find_action (t_action tbl) (peek st) (hd_error inp)) as [[t|p|]|] eqn:Ea; try discriminate.
    - (* shift *)
      intros Hc. inversion Hc; subst c'; clear Hc.
      pose proof (ok_action _ _ _ Ea) as Hok. unfold action_ok in Hok.
      destruct inp as [|a inp]; simpl in Hok; [discriminate|]. simpl.
      apply andb_true_iff in Hok as [He _].
      left. exists (Leaf (Some a) :: ts). constructor; simpl.
      + unfold ast_stack. rewrite fold_left_app. simpl. unfold ast_stack in Hast. now rewrite <- Hast.
      + destruct st as [|s st]; [exfalso; eapply path_nonempty; eauto|].
        simpl in He. constructor; auto. apply find_action_In in Ea. simpl in Ea.
        unfold edges. apply in_or_app. left. apply in_flat_map.
        exists (s, Some a, Shift t). split; [exact Ea|now left].
      + constructor; [constructor|exact Hwf].
      + rewrite flat_map_app'. simpl. rewrite <- app_assoc. exact Hy.
      + rewrite map_app. simpl. rewrite <- app_assoc. exact Hrm.
      + rewrite flat_map_app'. simpl. now rewrite app_nil_r.
    - (* reduce *)
      intros Hc. inversion Hc; subst c'; clear Hc.
      pose proof (ok_action _ _ _ Ea) as Hok. unfold action_ok in Hok.
      apply andb_true_iff in Hok as [Hin Hsuf]. apply existsb_prod_In in Hin.
      destruct (path_label _ _ Hpath) as [l [pre [Hl Hx]]]. rewrite Hl in Hsuf.
      apply is_suffix_spec in Hsuf as [pre2 Hsuf]. subst l.
      set (k := length (body p)).
      assert (Hxs : map root ts = rev (body p) ++ rev (pre ++ pre2)).
      { rewrite <- (rev_involutive (map root ts)), Hx, app_assoc, rev_app_distr. reflexivity. }
      assert (Hk : k <= length ts).
      { apply (f_equal (@length _)) in Hxs. rewrite map_length, app_length, rev_length in Hxs. unfold k. lia. }
      assert (Hfirst : map root (firstn k ts) = rev (body p)).
      { rewrite <- firstn_map, Hxs. unfold k. rewrite <- (rev_length (body p)).
        rewrite firstn_app, Nat.sub_diag, firstn_all. simpl. now rewrite app_nil_r. }
      pose proof (firstn_skipn k ts) as Hsplit.
      set (tch := firstn k ts) in *. set (ts0 := skipn k ts) in *.
      assert (Hwf2 : Forall (wf_tree G) tch /\ Forall (wf_tree G) ts0).
      { rewrite <- Hsplit in Hwf. now apply Forall_app in Hwf. }
      destruct Hwf2 as [Hwfc Hwf0].
      assert (Hrev : rev ts = rev ts0 ++ rev tch) by (rewrite <- Hsplit; apply rev_app_distr).
      assert (Hpath' : path tbl lbl (skipn k st) (map root ts0)).
      { unfold ts0. rewrite <- skipn_map. apply path_skipn; [exact Hpath|]. now rewrite map_length. }
      destruct (find_goto (t_goto tbl) (peek (skipn k st)) (head p)) as [t|] eqn:Eg.
      + left. exists (Node p (rev tch) :: ts0). constructor; simpl.
        * unfold ast_stack. rewrite fold_left_app. simpl. unfold ast_stack in Hast. rewrite <- Hast.
          fold k. rewrite pop_children_spec by exact Hk. now rewrite app_nil_r.
        * unfold goto_or_err. fold k. rewrite Eg. pose proof (find_goto_In _ _ _ _ Eg) as Hgin.
          apply ok_goto in Eg.
          destruct (skipn k st) as [|s' st'] eqn:Es; [exfalso; eapply path_nonempty; eauto|].
          simpl in Eg, Hgin. constructor; auto.
          unfold edges. apply in_or_app. right. apply in_map_iff.
          exists (s', head p, t). split; [reflexivity|exact Hgin].
        * constructor; [|exact Hwf0]. constructor; auto.
          -- rewrite map_rev, Hfirst. apply rev_involutive.
          -- now apply Forall_rev.
        * rewrite flat_map_app'. simpl. rewrite app_nil_r. rewrite Hrev, flat_map_app' in Hy. exact Hy.
        * exists (map root (rev ts0) ++ body p ++ map Tm inp). split.
          -- rewrite map_app. simpl. rewrite <- app_assoc. simpl. now constructor.
          -- rewrite Hrev, map_app, map_rev with (l := tch), Hfirst, rev_involutive, <- app_assoc in Hrm. exact Hrm.
        * rewrite flat_map_app'. simpl. rewrite app_nil_r. rewrite Hrev, flat_map_app' in Hpost.
          rewrite app_assoc, Hpost. reflexivity.
      + right. exists (skipn k st). simpl. unfold goto_or_err. fold k. now rewrite Eg.
  Qed.

  Definition good (evs : list event) : Prop :=
    L G w /\ rightmost_reverse G (prods_of evs) w /\
    wf_tree G (ast_of evs) /\ root (ast_of evs) = Nt (start G) /\
    yield (ast_of evs) = map Some w /\ postorder (ast_of evs) = prods_of evs.

  Lemma rm_step_derives p a b : rm_step G p a b -> derives G a b.
  Proof. intros [u v Hp]. apply derives_step. now constructor. Qed.

  Lemma rm_chain_derives ps : forall a b, rm_chain G ps a b -> derives G a b.
  Proof.
    induction ps as [|p ps IH]; simpl; intros a b H.
    - subst. apply derives_refl.
    - destruct H as [c [H1 H2]]. eapply derives_trans; [eapply rm_step_derives; eauto|auto].
  Qed.

  Lemma step_accept c ts evs : Inv c ts -> step c = inr (Accepted evs) -> good evs.
  Proof.
    destruct c as [[st inp] out]. intros [Hast Hpath Hwf Hy Hrm Hpost]. simpl in *.
    unfold step.
    destruct (find_action (t_action tbl) (peek st) (hd_error inp)) as [[t|p|]|] eqn:Ea; try discriminate.
    intros He. inversion He; subst evs; clear He.
    pose proof (ok_action _ _ _ Ea) as Hok. unfold action_ok in Hok.
    destruct (hd_error inp) as [a|] eqn:Eh; [discriminate|].
    destruct inp as [|a inp]; [|discriminate]. clear Eh.
    destruct (label_of lbl (peek st)) as [l|] eqn:El; [|discriminate].
    apply str_eqb_eq in Hok.
    pose proof (path_accept _ _ _ Hpath (find_action_has_accept _ _ Ea) El Hok) as Hxs.
    destruct ts as [|t [|t2 ts]]; simpl in Hxs; try discriminate.
    inversion Hxs as [Hroot]. simpl in *. rewrite ?app_nil_r in Hy. rewrite ?app_nil_r in Hrm.
    rewrite ?app_nil_r in Hpost.
    assert (Hao : ast_of (rev out) = t) by (unfold ast_of; now rewrite <- Hast).
    unfold good. rewrite Hao, prods_of_rev. rewrite Hroot in Hrm. inversion Hwf; subst.
    repeat split; auto.
    - unfold L. eapply rm_chain_derives; eauto.
    - unfold rightmost_reverse. now rewrite rev_involutive.
  Qed.

  Lemma run_sound fuel : forall c ts evs,
    Inv c ts -> run fuel tbl (fst (fst c)) (snd (fst c)) (snd c) = Accepted evs -> good evs.
  Proof.
    induction fuel as [|f IH]; intros [[st inp] out] ts evs HI; simpl fst; simpl snd; [discriminate|].
    rewrite run_step. destruct (step (st, inp, out)) as [[[st' inp'] out']|o] eqn:Es.
    - destruct (step_Inv _ _ _ HI Es) as [[ts' HI']|Hd].
      + intros H. exact (IH _ _ _ HI' H).
      + destruct f as [|f]; [discriminate|]. rewrite run_step.
        destruct (step_dead _ Hd) as [r [e Hr]]. rewrite Hr. discriminate.
    - intros H. subst o. eapply step_accept; eauto.
  Qed.

  Theorem driver_sound fuel evs : parse fuel tbl w = Accepted evs -> good evs.
  Proof. intros H. exact (run_sound fuel ([0%Z], w, []) [] evs Inv_init H). Qed.

End Sound.
